import Q1t.Proofs.Bits
import Q1t.Model.Register
import Q1t.Spec.Register
/-!
Proofs about the register model (`Q1t.Register`): refinement of the reference semantics by both
backends, frame theorems, the histogram views.
-/
namespace Q1t.Proofs.Register
open Q1t.Bits Q1t.Register Q1t.Proofs.Bits

/-! ### gates on basis states -/

theorem flipAt_length (qs : List Bool) (q : Nat) : (flipAt qs q).length = qs.length := by simp [flipAt]

theorem incAt_length (bits : List Nat) (qs : List Bool) : (incAt bits qs).length = qs.length := by
  induction bits generalizing qs with
  | nil => rfl
  | cons b rest ih => simp only [incAt]; split <;> simp [ih, flipAt_length]

theorem applyG_length {g : G} {bits : List Nat} {qs qs' : List Bool} (h : applyG g bits qs = some qs') :
    qs'.length = qs.length := by
  cases g <;> rcases bits with _ | ⟨a, _ | ⟨b, _ | ⟨c, _ | ⟨d, _ | ⟨e, rest⟩⟩⟩⟩⟩ <;> simp [applyG] at h <;>
    (try (subst h; first | rfl | (simp [flipAt, incAt_length]; done) | (simp only [flipAt]; split <;> simp) |
      (split <;> simp [flipAt_length, incAt_length])))

theorem applyG_isSome_indep (g : G) (bits : List Nat) (qs qs' : List Bool) :
    (applyG g bits qs).isSome = (applyG g bits qs').isSome := by
  cases g <;> rcases bits with _ | ⟨a, _ | ⟨b, _ | ⟨c, _ | ⟨d, _ | ⟨e, rest⟩⟩⟩⟩⟩ <;> simp [applyG]

/-- the listed classical bits of a multi-bit write are pairwise distinct -/
def OpNodup : Op → Prop
  | .measureAll cbits | .peekAll cbits => cbits.Nodup
  | _ => True

theorem all_lt_of_all {l : List Nat} {nc : Nat} (h : l.all (fun c => decide (c < nc) && decide (c < 64)) = true) :
    ∀ c ∈ l, c < 64 := by
  intro c hc
  have := List.all_eq_true.mp h c hc
  simp at this; exact this.2

theorem vec_measureAll_eq_spec (nq : Nat) (cbits : List Nat) (s : Shot)
    (hq : s.qs.length = nq) (hn64 : nq ≤ 64) (hc : ∀ c ∈ cbits, c < 64) (hnd : cbits.Nodup) :
    measureAllVecWord nq cbits (idxOfQubits s.qs) s.word =
      some (Spec.Bits.writeAll (fun q => s.qs.getD q false) cbits 0 s.word) := by
  obtain ⟨w', hw, hor⟩ := measureAllVecWord_orSem nq cbits s.qs s.word hq hn64 hc
  rw [hw, orSem_nodup_eq_writeAll _ _ _ _ hnd hor]

theorem stab_peekAll_eq_spec (cbits : List Nat) (s : Shot)
    (hc : ∀ c ∈ cbits, c < 64) (hnd : cbits.Nodup) :
    peekAllStabWord cbits (outcomeOf s.qs) s.word =
      some (Spec.Bits.writeAll (fun q => s.qs.getD q false) cbits 0 s.word) := by
  obtain ⟨w', hw, hor⟩ := peekAllStabWord_orSem cbits (outcomeOf s.qs) s.word hc
  rw [hw, orSem_nodup_eq_writeAll _ _ _ _ hnd hor]; rfl

/-- On every valid operation whose listed bits are distinct, one step of the model (either backend)
is one step of the reference semantics. -/
theorem stepShot_eq_spec (be : Backend) (nq nc : Nat) (op : Op) (s : Shot)
    (hv : Spec.Register.opValid nq nc op = true) (hnd : OpNodup op)
    (hq : s.qs.length = nq) (hn64 : nq ≤ 64) :
    stepShot be nq op s = .ok (Spec.Register.step nq op s) := by
  cases op with
  | gate g bits =>
    simp only [Spec.Register.opValid, Bool.and_eq_true] at hv
    have h2 : (applyG g bits s.qs).isSome = true := by rw [applyG_isSome_indep g bits s.qs]; exact hv.2
    obtain ⟨qs', hqs⟩ := Option.isSome_iff_exists.mp h2
    simp [stepShot, Spec.Register.step, hqs]
  | cond control target g bits =>
    simp only [Spec.Register.opValid, Bool.and_eq_true, decide_eq_true_eq] at hv
    obtain ⟨⟨⟨h1, h2⟩, _⟩, h4⟩ := hv
    have hsome : (applyG g bits s.qs).isSome = true := by rw [applyG_isSome_indep g bits s.qs]; exact h4
    obtain ⟨qs', hqs⟩ := Option.isSome_iff_exists.mp hsome
    have hcw := controlWord_eq_select control s.word (all_lt_of_all h1) h2
    simp only [stepShot, Spec.Register.step, hcw, hqs]
    split <;> simp
  | measure q c =>
    simp only [Spec.Register.opValid, Bool.and_eq_true, decide_eq_true_eq] at hv
    have h1 : ¬ q ≥ nq := by omega
    simp [stepShot, Spec.Register.step, h1, writeBit_eq_spec hv.2, outcomeOf]
  | peek q c =>
    simp only [Spec.Register.opValid, Bool.and_eq_true, decide_eq_true_eq] at hv
    have h1 : ¬ q ≥ nq := by omega
    simp [stepShot, Spec.Register.step, h1, writeBit_eq_spec hv.2, outcomeOf]
  | measureAll cbits =>
    simp only [Spec.Register.opValid, Bool.and_eq_true, decide_eq_true_eq] at hv
    have hc := all_lt_of_all hv.2
    cases be with
    | vector =>
      simp [stepShot, Spec.Register.step, hv.1, vec_measureAll_eq_spec nq cbits s hq hn64 hc hnd]
    | stabilizer =>
      have := measureAllStabLoop_eq_spec nq (outcomeOf s.qs) cbits 0 s.word (by omega) hc
      simp only [stepShot, Spec.Register.step, measureAllStabWord, this, Res.map, hv.1, ne_eq,
        not_true_eq_false, ↓reduceIte]
      rfl
  | peekAll cbits =>
    simp only [Spec.Register.opValid, Bool.and_eq_true, decide_eq_true_eq] at hv
    have hc := all_lt_of_all hv.2
    cases be with
    | vector =>
      simp [stepShot, Spec.Register.step, hv.1, vec_measureAll_eq_spec nq cbits s hq hn64 hc hnd]
    | stabilizer =>
      simp [stepShot, Spec.Register.step, hv.1, stab_peekAll_eq_spec cbits s hc hnd]
  | reset q => rfl
  | resetAll => rfl
  | barrier bits => rfl

theorem spec_step_length (nq : Nat) (op : Op) (s : Shot) (hq : s.qs.length = nq) :
    (Spec.Register.step nq op s).qs.length = nq := by
  cases op with
  | gate g bits =>
    simp only [Spec.Register.step]
    cases h : applyG g bits s.qs with
    | none => simpa using hq
    | some qs' => simpa [applyG_length h] using hq
  | cond control target g bits =>
    simp only [Spec.Register.step]
    split
    · cases h : applyG g bits s.qs with
      | none => simpa using hq
      | some qs' => simpa [applyG_length h] using hq
    · exact hq
  | measure q c => exact hq
  | peek q c => exact hq
  | measureAll cbits => exact hq
  | peekAll cbits => exact hq
  | reset q => simpa [Spec.Register.step] using hq
  | resetAll => simp [Spec.Register.step]
  | barrier bits => exact hq

/-- A whole valid program with distinct listed bits: the model's trace of one shot (either backend)
is the reference trace. -/
theorem runShot_eq_spec (be : Backend) (nq nc : Nat) (hn64 : nq ≤ 64) : ∀ (ops : List Op) (s : Shot),
    (∀ op ∈ ops, Spec.Register.opValid nq nc op = true ∧ OpNodup op) → s.qs.length = nq →
    runShot be nq ops s = .ok (Spec.Register.trace nq ops s) := by
  intro ops
  induction ops with
  | nil => intro s _ _; rfl
  | cons op ops ih =>
    intro s hv hq
    have h1 := hv op (by simp)
    rw [runShot, stepShot_eq_spec be nq nc op s h1.1 h1.2 hq hn64]
    simp only
    rw [ih _ (fun o ho => hv o (by simp [ho])) (spec_step_length nq op s hq)]
    rfl

/-! ### frames, directly on the model (all operations, repeated targets included) -/

/-- the classical bits an operation names as write targets -/
def writtenBits : Op → List Nat
  | .measure _ c | .peek _ c => [c]
  | .measureAll cbits | .peekAll cbits => cbits
  | _ => []

theorem orMask_some_lt {cbits : List Nat} {m : Word} (h : orMask cbits = some m) : ∀ c ∈ cbits, c < 64 := by
  intro c hc
  apply Classical.byContradiction
  intro hlt
  have := maskLoop_panics cbits 0 ⟨c, hc, by omega⟩
  unfold orMask at h; rw [this] at h; cases h

theorem measureAllVecWord_frame {n : Nat} {cbits : List Nat} {idx w w' : Word}
    (h : measureAllVecWord n cbits idx w = some w') (j : Nat) (hj : j ∉ cbits) :
    w'.getLsbD j = w.getLsbD j := by
  unfold measureAllVecWord at h
  cases hm : orMask cbits with
  | none => rw [hm] at h; cases h
  | some m =>
    have hc := orMask_some_lt hm
    obtain ⟨m', hm', hmb⟩ := orMask_spec cbits hc
    rw [hm] at hm'; injection hm' with hm'; subst hm'
    rw [hm] at h; simp only at h
    cases hr : reverseBits idx n with
    | none => rw [hr] at h; cases h
    | some rev =>
      rw [hr] at h; simp only at h
      obtain ⟨perm, hperm, hpb⟩ := shuffle_bits_bit rev cbits hc
      rw [hperm] at h; injection h with h; subst h
      have h1 : m.getLsbD j = false := by
        cases hmj : m.getLsbD j with
        | false => rfl
        | true => exact absurd ((hmb j).mp hmj) hj
      have h2 : perm.getLsbD j = false := by
        cases hpj : perm.getLsbD j with
        | false => rfl
        | true =>
          obtain ⟨i, hi, _⟩ := (hpb j).mp hpj
          exact absurd (List.mem_of_getElem? hi) hj
      rw [BitVec.getLsbD_or, BitVec.getLsbD_and, BitVec.getLsbD_not, h1, h2]
      by_cases hj64 : j < 64
      · simp [hj64]
      · simp [BitVec.getLsbD_of_ge w j (by omega)]

theorem measureAllStabLoop_frame (n : Nat) (outcome : Nat → Bool) : ∀ (cbits : List Nat) (q : Nat) (w w' : Word),
    measureAllStabLoop n outcome cbits q w = .ok w' → ∀ j, j ∉ cbits → w'.getLsbD j = w.getLsbD j := by
  intro cbits
  induction cbits with
  | nil => intro q w w' h j _; simp [measureAllStabLoop] at h; rw [h]
  | cons c cs ih =>
    intro q w w' h j hj
    simp only [List.mem_cons, not_or] at hj
    rw [measureAllStabLoop] at h
    split at h
    · cases h
    · cases hw : writeBit w c (outcome q) with
      | none => rw [hw] at h; cases h
      | some w1 =>
        rw [hw] at h; simp only at h
        rw [ih _ _ _ h j hj.2, writeBit_getLsbD hw j, if_neg hj.1]

theorem peekAllStabWord_frame {cbits : List Nat} {outcome : Nat → Bool} {w w' : Word}
    (h : peekAllStabWord cbits outcome w = some w') (j : Nat) (hj : j ∉ cbits) :
    w'.getLsbD j = w.getLsbD j := by
  have hc : ∀ c ∈ cbits, c < 64 := by
    unfold peekAllStabWord at h
    cases hm : orMask cbits with
    | none => rw [hm] at h; cases h
    | some m => exact orMask_some_lt hm
  obtain ⟨w2, hw2, hor⟩ := peekAllStabWord_orSem cbits outcome w hc
  rw [h] at hw2; injection hw2 with hw2; subst hw2
  rw [Bool.eq_iff_iff, hor j]
  constructor
  · rintro (⟨hw, _⟩ | ⟨i, hi, _⟩)
    · exact hw
    · exact absurd (List.mem_of_getElem? hi) hj
  · intro hw; exact Or.inl ⟨hw, hj⟩

/-- **write confinement**: one operation, either backend, any operation (valid or not, repeated
targets or not): if it completes, every register bit that the operation does not name as a write
target keeps its value. -/
theorem stepShot_frame (be : Backend) (nq : Nat) (op : Op) (s s' : Shot)
    (h : stepShot be nq op s = .ok s') (j : Nat) (hj : j ∉ writtenBits op) :
    s'.word.getLsbD j = s.word.getLsbD j := by
  cases op with
  | gate g bits =>
    simp only [stepShot] at h
    cases ha : applyG g bits s.qs with
    | none => rw [ha] at h; cases h
    | some qs => rw [ha] at h; injection h with h; rw [← h]
  | cond control target g bits =>
    simp only [stepShot] at h
    cases hc : controlWord control s.word with
    | none => rw [hc] at h; cases h
    | some cw =>
      rw [hc] at h; simp only at h
      split at h
      · cases ha : applyG g bits s.qs with
        | none => rw [ha] at h; cases h
        | some qs => rw [ha] at h; injection h with h; rw [← h]
      · injection h with h; rw [← h]
  | measure q c =>
    simp only [stepShot] at h
    split at h
    · cases h
    · cases hw : writeBit s.word c (outcomeOf s.qs q) with
      | none => rw [hw] at h; cases h
      | some w =>
        rw [hw] at h; injection h with h; rw [← h]
        simp only [writtenBits, List.mem_singleton] at hj
        simp only; rw [writeBit_getLsbD hw j, if_neg hj]
  | peek q c =>
    simp only [stepShot] at h
    split at h
    · cases h
    · cases hw : writeBit s.word c (outcomeOf s.qs q) with
      | none => rw [hw] at h; cases h
      | some w =>
        rw [hw] at h; injection h with h; rw [← h]
        simp only [writtenBits, List.mem_singleton] at hj
        simp only; rw [writeBit_getLsbD hw j, if_neg hj]
  | measureAll cbits =>
    simp only [writtenBits] at hj
    cases be with
    | vector =>
      simp only [stepShot] at h
      split at h
      · cases h
      · cases hw : measureAllVecWord nq cbits (idxOfQubits s.qs) s.word with
        | none => rw [hw] at h; cases h
        | some w => rw [hw] at h; injection h with h; rw [← h]; exact measureAllVecWord_frame hw j hj
    | stabilizer =>
      simp only [stepShot, measureAllStabWord] at h
      split at h
      · cases h
      cases hw : measureAllStabLoop nq (outcomeOf s.qs) cbits 0 s.word with
      | ok w => rw [hw] at h; simp only [Res.map] at h; injection h with h; rw [← h]
                exact measureAllStabLoop_frame _ _ _ _ _ _ hw j hj
      | err c p => rw [hw] at h; cases h
      | panic site => rw [hw] at h; cases h
  | peekAll cbits =>
    simp only [writtenBits] at hj
    cases be with
    | vector =>
      simp only [stepShot] at h
      split at h
      · cases h
      · cases hw : measureAllVecWord nq cbits (idxOfQubits s.qs) s.word with
        | none => rw [hw] at h; cases h
        | some w => rw [hw] at h; injection h with h; rw [← h]; exact measureAllVecWord_frame hw j hj
    | stabilizer =>
      simp only [stepShot] at h
      split at h
      · cases h
      · cases hw : peekAllStabWord cbits (outcomeOf s.qs) s.word with
        | none => rw [hw] at h; cases h
        | some w => rw [hw] at h; injection h with h; rw [← h]; exact peekAllStabWord_frame hw j hj
  | reset q => simp only [stepShot] at h; injection h with h; rw [← h]
  | resetAll => simp only [stepShot] at h; injection h with h; rw [← h]
  | barrier bits => simp only [stepShot] at h; injection h with h; rw [← h]

/-- gates, conditional gates, resets and barriers never touch the register -/
theorem gates_and_resets_frame (be : Backend) (nq : Nat) (op : Op) (s s' : Shot)
    (hop : writtenBits op = []) (h : stepShot be nq op s = .ok s') : s'.word = s.word := by
  apply word_ext
  intro j _
  exact stepShot_frame be nq op s s' h j (by rw [hop]; simp)

/-- bits never written keep their value through a whole run (so they stay 0 from the zeroed register
of `execute_with`), at every point of the trace -/
theorem runShot_frame (be : Backend) (nq : Nat) : ∀ (ops : List Op) (s : Shot) (tr : List Shot),
    runShot be nq ops s = .ok tr → ∀ j, j ∉ ops.flatMap writtenBits →
    ∀ s' ∈ tr, s'.word.getLsbD j = s.word.getLsbD j := by
  intro ops
  induction ops with
  | nil => intro s tr h j _ s' hs'; simp [runShot] at h; subst h; simp at hs'
  | cons op ops ih =>
    intro s tr h j hj s' hs'
    simp only [List.flatMap_cons, List.mem_append, not_or] at hj
    rw [runShot] at h
    cases hst : stepShot be nq op s with
    | err c p => rw [hst] at h; cases h
    | panic site => rw [hst] at h; cases h
    | ok s1 =>
      rw [hst] at h; simp only at h
      cases hrun : runShot be nq ops s1 with
      | err c p => rw [hrun] at h; cases h
      | panic site => rw [hrun] at h; cases h
      | ok tr1 =>
        rw [hrun] at h; simp only [Res.map] at h; injection h with h; subst h
        have h1 := stepShot_frame be nq op s s1 hst j hj.1
        simp only [List.mem_cons] at hs'
        rcases hs' with rfl | hs'
        · exact h1
        · rw [ih s1 tr1 hrun j hj.2 s' hs', h1]

/-- a later write to the same bit replaces the earlier one -/
theorem later_write_wins {w w1 w2 : Word} {c : Nat} {v1 v2 : Bool}
    (h1 : writeBit w c v1 = some w1) (h2 : writeBit w1 c v2 = some w2) : writeBit w c v2 = some w2 := by
  have hc : c < 64 := (writeBit_eq_some_iff.mp h1).1
  obtain ⟨w3, h3⟩ : ∃ w3, writeBit w c v2 = some w3 := by
    cases h : writeBit w c v2 with
    | none => exact absurd ((writeBit_panics_iff w c v2).mp h) (by omega)
    | some w3 => exact ⟨w3, rfl⟩
  rw [h3]; congr 1
  apply word_ext
  intro j _
  rw [writeBit_getLsbD h3 j, writeBit_getLsbD h2 j, writeBit_getLsbD h1 j]
  split <;> rfl

/-! ### histogram views -/

section Hist
variable {κ : Type} [BEq κ] [LawfulBEq κ] [DecidableEq κ]

/-- count stored for key `k` (0 if absent; first occurrence) -/
def lookup (k : κ) : List (κ × Nat) → Nat
  | [] => 0
  | (k', c) :: rest => if k' = k then c else lookup k rest

theorem lookup_bump (k k' : κ) : ∀ h : List (κ × Nat), lookup k (bump k' h) = lookup k h + (if k' = k then 1 else 0) := by
  intro h
  induction h with
  | nil => simp [bump, lookup]
  | cons kc rest ih =>
    obtain ⟨k0, c⟩ := kc
    simp only [bump, beq_iff_eq]
    by_cases h1 : k0 = k'
    · subst h1
      by_cases h2 : k0 = k
      · simp [lookup, h2]
      · simp [lookup, h2]
    · by_cases h2 : k0 = k
      · have h3 : ¬ k' = k := by rintro rfl; exact h1 h2
        rw [if_neg h1]; simp [lookup, h2, h3]
      · simp [h1, lookup, h2, ih]

theorem keys_bump (k' : κ) : ∀ h : List (κ × Nat),
    (bump k' h).map (·.1) = if k' ∈ h.map (·.1) then h.map (·.1) else h.map (·.1) ++ [k'] := by
  intro h
  induction h with
  | nil => simp [bump]
  | cons kc rest ih =>
    obtain ⟨k0, c⟩ := kc
    simp only [bump, beq_iff_eq]
    by_cases h1 : k0 = k'
    · simp [h1]
    · have h1' : ¬ k' = k0 := fun e => h1 e.symm
      simp only [h1, if_false, List.map_cons, ih, List.mem_cons, h1', false_or]
      split <;> simp

theorem pos_bump (k' : κ) : ∀ h : List (κ × Nat), (∀ kc ∈ h, 0 < kc.2) → ∀ kc ∈ bump k' h, 0 < kc.2 := by
  intro h
  induction h with
  | nil => intro _ kc hkc; simp [bump] at hkc; subst hkc; simp
  | cons kc0 rest ih =>
    obtain ⟨k0, c⟩ := kc0
    intro hpos kc hkc
    simp only [bump, beq_iff_eq] at hkc
    split at hkc
    · simp only [List.mem_cons] at hkc
      rcases hkc with rfl | hkc
      · simp
      · exact hpos kc (by simp [hkc])
    · simp only [List.mem_cons] at hkc
      rcases hkc with rfl | hkc
      · exact hpos _ (by simp)
      · exact ih (fun x hx => hpos x (by simp [hx])) kc hkc

theorem sum_bump (k' : κ) : ∀ h : List (κ × Nat), ((bump k' h).map (·.2)).sum = (h.map (·.2)).sum + 1 := by
  intro h
  induction h with
  | nil => simp [bump]
  | cons kc rest ih =>
    obtain ⟨k0, c⟩ := kc
    simp only [bump, beq_iff_eq]
    split
    · simp; omega
    · simp [ih]; omega

omit [BEq κ] [LawfulBEq κ] in
theorem lookup_of_mem : ∀ (h : List (κ × Nat)) (k : κ) (c : Nat), (h.map (·.1)).Nodup → (k, c) ∈ h → lookup k h = c := by
  intro h
  induction h with
  | nil => intro k c _ hm; simp at hm
  | cons kc rest ih =>
    obtain ⟨k0, c0⟩ := kc
    intro k c hnd hm
    simp only [List.map_cons, List.nodup_cons] at hnd
    simp only [List.mem_cons, Prod.mk.injEq] at hm
    rcases hm with ⟨rfl, rfl⟩ | hm
    · simp [lookup]
    · have : ¬ k0 = k := by
        rintro rfl
        exact hnd.1 (List.mem_map.mpr ⟨(k0, c), hm, rfl⟩)
      simp [lookup, this, ih k c hnd.2 hm]

omit [BEq κ] [LawfulBEq κ] in
theorem mem_of_lookup_pos : ∀ (h : List (κ × Nat)) (k : κ), 0 < lookup k h → (k, lookup k h) ∈ h := by
  intro h
  induction h with
  | nil => intro k hp; simp [lookup] at hp
  | cons kc rest ih =>
    obtain ⟨k0, c0⟩ := kc
    intro k hp
    by_cases h1 : k0 = k
    · subst h1; simp [lookup]
    · simp only [lookup, h1, if_false] at hp ⊢
      exact List.mem_cons_of_mem _ (ih k hp)

variable {ι : Type} (f : ι → κ)

/-- the fold of `histogram` / `histogram_string`, for an arbitrary key map -/
def histBy (cs : List ι) : List (κ × Nat) := cs.foldl (fun h x => bump (f x) h) []

theorem foldl_hist_inv : ∀ (cs : List ι) (h0 : List (κ × Nat)),
    (h0.map (·.1)).Nodup → (∀ kc ∈ h0, 0 < kc.2) →
    let h := cs.foldl (fun h x => bump (f x) h) h0
    (h.map (·.1)).Nodup ∧ (∀ kc ∈ h, 0 < kc.2) ∧
    (∀ k, lookup k h = lookup k h0 + cs.countP (fun x => decide (f x = k))) ∧
    (h.map (·.2)).sum = (h0.map (·.2)).sum + cs.length := by
  intro cs
  induction cs with
  | nil => intro h0 hnd hpos; exact ⟨hnd, hpos, by simp, by simp⟩
  | cons x xs ih =>
    intro h0 hnd hpos
    have hnd' : ((bump (f x) h0).map (·.1)).Nodup := by
      rw [keys_bump]
      split
      · exact hnd
      · rename_i hmem
        rw [List.nodup_append]
        refine ⟨hnd, by simp, ?_⟩
        intro a ha b hb
        simp at hb; subst hb
        rintro rfl; exact hmem ha
    obtain ⟨i1, i2, i3, i4⟩ := ih (bump (f x) h0) hnd' (pos_bump _ _ hpos)
    refine ⟨i1, i2, ?_, ?_⟩
    · intro k
      simp only [List.foldl_cons]
      rw [i3 k, lookup_bump, List.countP_cons]
      simp only [decide_eq_true_eq]
      split <;> omega
    · simp only [List.foldl_cons, List.length_cons]
      rw [i4, sum_bump]; omega

theorem histBy_spec (cs : List ι) :
    ((histBy f cs).map (·.1)).Nodup ∧
    (∀ k c, (k, c) ∈ histBy f cs → 0 < c ∧ c = cs.countP (fun x => decide (f x = k))) ∧
    (∀ x ∈ cs, (f x, cs.countP (fun y => decide (f y = f x))) ∈ histBy f cs) ∧
    ((histBy f cs).map (·.2)).sum = cs.length := by
  obtain ⟨i1, i2, i3, i4⟩ := foldl_hist_inv f cs [] (by simp) (by simp)
  refine ⟨i1, ?_, ?_, by simpa [histBy] using i4⟩
  · intro k c hm
    refine ⟨i2 _ hm, ?_⟩
    have := lookup_of_mem _ k c i1 hm
    rw [← this]; simpa [lookup, histBy] using i3 k
  · intro x hx
    have h3 : lookup (f x) (histBy f cs) = cs.countP (fun y => decide (f y = f x)) := by
      simpa [lookup, histBy] using i3 (f x)
    have hp : 0 < lookup (f x) (histBy f cs) := by
      rw [h3]; exact List.countP_pos_iff.mpr ⟨x, hx, by simp⟩
    have := mem_of_lookup_pos _ _ hp
    rwa [h3] at this

end Hist

theorem vecLoop_spec : ∀ (cs : List Word) (v : List Nat), (∀ k ∈ cs, k.toNat < v.length) →
    ∃ v', vecLoop cs v = some v' ∧ v'.length = v.length ∧
      ∀ k (h : k < v.length) (h' : k < v'.length), v'[k] = v[k] + cs.countP (fun w => decide (w.toNat = k)) := by
  intro cs
  induction cs with
  | nil => intro v _; exact ⟨v, rfl, rfl, by simp⟩
  | cons c cs ih =>
    intro v hin
    have hc : c.toNat < v.length := hin c (by simp)
    obtain ⟨v', h1, h2, h3⟩ := ih (v.set c.toNat (v[c.toNat] + 1)) (by
      intro k hk; simpa using hin k (by simp [hk]))
    refine ⟨v', by simp [vecLoop, bumpVec, hc, h1], by simpa using h2, ?_⟩
    intro k hk hk'
    rw [h3 k (by simpa using hk) hk', List.countP_cons, List.getElem_set]
    simp only [decide_eq_true_eq]
    by_cases e : c.toNat = k
    · subst e; simp; omega
    · simp [e]

theorem vecLoop_panics : ∀ (cs : List Word) (v : List Nat), (∃ k ∈ cs, v.length ≤ k.toNat) → vecLoop cs v = none := by
  intro cs
  induction cs with
  | nil => intro v h; simp at h
  | cons c cs ih =>
    intro v h
    by_cases hc : c.toNat < v.length
    · have : ∃ k ∈ cs, (v.set c.toNat (v[c.toNat] + 1)).length ≤ k.toNat := by
        obtain ⟨k, hk, hle⟩ := h
        simp at hk
        rcases hk with rfl | hk
        · omega
        · exact ⟨k, hk, by simpa using hle⟩
      simp [vecLoop, bumpVec, hc, ih _ this]
    · simp [vecLoop, bumpVec, hc]

/-- `histogram_vec`: for a register narrower than 64 bits whose words all fit the width, the call
returns a vector of length `2^nc` whose entry `k` is the number of shots whose word is `k`. -/
theorem histogramVec_spec (nc : Nat) (cs : List Word) (hnc : nc < 64) (hin : ∀ w ∈ cs, w.toNat < 2 ^ nc) :
    ∃ v, histogramVec nc cs = some v ∧ v.length = 2 ^ nc ∧
      ∀ k (h : k < v.length), v[k] = cs.countP (fun w => decide (w.toNat = k)) := by
  obtain ⟨v, h1, h2, h3⟩ := vecLoop_spec cs (List.replicate (2 ^ nc) 0) (by simpa using hin)
  refine ⟨v, by simp [histogramVec, hnc, h1], by simpa using h2, ?_⟩
  intro k hk
  have := h3 k (by rw [← h2]; exact hk) hk
  simpa using this

/-! ### string keys -/

theorem key_length (w k : Nat) : (Spec.Register.key w k).length = w := by simp [Spec.Register.key]

/-- character `w-1-i` of the reference key is bit `i` -/
theorem key_getElem (w k i : Nat) (hi : i < w) :
    (Spec.Register.key w k)[w - 1 - i]'(by rw [key_length]; omega) = if k.testBit i then '1' else '0' := by
  simp only [Spec.Register.key, List.getElem_map, List.getElem_reverse, List.length_range, List.getElem_range]
  have : w - 1 - (w - 1 - i) = i := by omega
  rw [this]

theorem key_succ (w k : Nat) :
    Spec.Register.key (w + 1) k = Spec.Register.key w (k / 2) ++ [if k.testBit 0 then '1' else '0'] := by
  simp only [Spec.Register.key, List.range_succ_eq_map, List.reverse_cons, List.map_append, List.map_cons,
    List.map_nil]
  congr 1
  rw [← List.map_reverse, List.map_map]
  apply List.map_congr_left
  intro i _
  simp [Nat.testBit_succ]

theorem key_zero_replicate (w : Nat) : Spec.Register.key w 0 = List.replicate w '0' := by
  simp only [Spec.Register.key, Nat.zero_testBit, Bool.false_eq_true, if_false]
  apply List.ext_getElem <;> simp

theorem digitChar_bit (k : Nat) : Nat.digitChar (k % 2) = if k.testBit 0 then '1' else '0' := by
  rw [Nat.testBit_zero]
  rcases Nat.mod_two_eq_zero_or_one k with h | h <;> simp [h, Nat.digitChar]

/-- Rust's `{:0w$b}` of `k`, for `w ≥ 1` and `k < 2^w`, is the MSB-first `w`-character key. -/
theorem fmtBin_eq_key : ∀ (w k : Nat), 0 < w → k < 2 ^ w → fmtBin w k = Spec.Register.key w k := by
  intro w
  induction w with
  | zero => intro k h; omega
  | succ w ih =>
    intro k _ hk
    rw [key_succ]
    by_cases h2 : k < 2
    · have hd : Nat.toDigits 2 k = [Nat.digitChar k] := Nat.toDigits_of_lt_base h2
      have hk2 : k / 2 = 0 := by omega
      have hmod : k % 2 = k := by omega
      rw [fmtBin, hd, hk2, key_zero_replicate, ← digitChar_bit, hmod]
      simp
    · have hw : 0 < w := by
        rcases Nat.eq_zero_or_pos w with rfl | h
        · simp at hk; omega
        · exact h
      have hd : Nat.toDigits 2 k = Nat.toDigits 2 (k / 2) ++ [Nat.digitChar (k % 2)] :=
        Nat.toDigits_of_base_le (by omega) (by omega)
      have hk' : k / 2 < 2 ^ w := by rw [Nat.pow_succ] at hk; omega
      rw [← ih (k / 2) hw hk', ← digitChar_bit]
      simp only [fmtBin, hd, List.length_append, List.length_singleton]
      have : w + 1 - ((Nat.toDigits 2 (k / 2)).length + 1) = w - (Nat.toDigits 2 (k / 2)).length := by omega
      rw [this, List.append_assoc]

/-- the key determines the word: `fmtBin` is injective for every width -/
theorem fmtBin_injective (w a b : Nat) (h : fmtBin w a = fmtBin w b) : a = b := by
  have ha : Nat.ofDigitChars 2 (fmtBin w a) 0 = a := by
    simp [fmtBin, Nat.ofDigitChars_append, Nat.ofDigitChars_toDigits]
  have hb : Nat.ofDigitChars 2 (fmtBin w b) 0 = b := by
    simp [fmtBin, Nat.ofDigitChars_append, Nat.ofDigitChars_toDigits]
  rw [← ha, ← hb, h]

theorem histogram_eq_histBy (cs : List Word) : histogram cs = histBy (fun w => w) cs := rfl
theorem histogramString_eq_histBy (nc : Nat) (cs : List Word) :
    histogramString nc cs = histBy (fun w : Word => fmtBin nc w.toNat) cs := rfl

theorem countP_congr' {α} (l : List α) (p q : α → Bool) (h : ∀ x, p x = q x) : l.countP p = l.countP q := by
  have : p = q := funext h
  rw [this]

/-- The three views agree key by key: for every shot's word `w`, the map view lists `w`, the string
view lists the MSB-first key of `w`, the vector view has index `w`, all three with the number of
shots whose word is `w`. -/
theorem views_agree (nc : Nat) (cs : List Word) (h0 : 0 < nc) (hnc : nc < 64)
    (hin : ∀ w ∈ cs, w.toNat < 2 ^ nc) (w : Word) (hw : w ∈ cs) :
    (w, cs.count w) ∈ histogram cs ∧
    (Spec.Register.key nc w.toNat, cs.count w) ∈ histogramString nc cs ∧
    ∃ v, histogramVec nc cs = some v ∧ v[w.toNat]? = some (cs.count w) := by
  have hcount : ∀ (p : Word → Bool), (∀ y, p y = (y == w)) → cs.countP p = cs.count w := by
    intro p hp; rw [List.count_eq_countP]; exact countP_congr' cs _ _ hp
  refine ⟨?_, ?_, ?_⟩
  · have := (histBy_spec (fun w : Word => w) cs).2.2.1 w hw
    rw [histogram_eq_histBy]
    rwa [hcount _ (by intro y; rfl)] at this
  · have := (histBy_spec (fun w : Word => fmtBin nc w.toNat) cs).2.2.1 w hw
    rw [histogramString_eq_histBy, ← fmtBin_eq_key nc w.toNat h0 (hin w hw)]
    rwa [hcount _ (by
      intro y
      by_cases e : y = w
      · subst e; simp
      · have : ¬ fmtBin nc y.toNat = fmtBin nc w.toNat := fun h =>
          e (BitVec.eq_of_toNat_eq (fmtBin_injective nc _ _ h))
        simp [e, this])] at this
  · obtain ⟨v, h1, h2, h3⟩ := histogramVec_spec nc cs hnc hin
    refine ⟨v, h1, ?_⟩
    have hlt : w.toNat < v.length := by rw [h2]; exact hin w hw
    rw [List.getElem?_eq_getElem hlt, h3 _ hlt]
    congr 1
    exact hcount _ (by
      intro y
      by_cases e : y = w
      · subst e; simp
      · have : ¬ y.toNat = w.toNat := fun h => e (BitVec.eq_of_toNat_eq h)
        simp [e, this])

theorem toNat_lt_of_high_zero (w : Word) (nc : Nat) (h : ∀ j, nc ≤ j → w.getLsbD j = false) : w.toNat < 2 ^ nc := by
  apply Nat.lt_pow_two_of_testBit
  intro i hi
  rw [BitVec.testBit_toNat]; exact h i hi

/-- Starting from the zeroed register, if every write target of the program is below `nc`, every
word at every point of the run is below `2^nc` (so `histogram_vec`'s index is in range and string keys
have exactly `nc` characters). -/
theorem run_word_lt (be : Backend) (nq nc : Nat) (ops : List Op) (tr : List Shot)
    (h : runShot be nq ops (initShot nq) = .ok tr)
    (hops : ∀ op ∈ ops, ∀ c ∈ writtenBits op, c < nc) : ∀ s' ∈ tr, s'.word.toNat < 2 ^ nc := by
  intro s' hs'
  apply toNat_lt_of_high_zero
  intro j hj
  have hnot : j ∉ ops.flatMap writtenBits := by
    intro hmem
    obtain ⟨op, hop, hc⟩ := List.mem_flatMap.mp hmem
    have := hops op hop j hc
    omega
  rw [runShot_frame be nq ops (initShot nq) tr h j hnot s' hs']
  simp [initShot]

/-- bits of the reference multi-bit write with distinct targets -/
theorem writeAll_bits_nodup (val : Nat → Bool) (cbits : List Nat) (w : Word)
    (hc : ∀ c ∈ cbits, c < 64) (hnd : cbits.Nodup) :
    (∀ i (h : i < cbits.length), (Spec.Bits.writeAll val cbits 0 w).getLsbD cbits[i] = val i) ∧
    (∀ j, j ∉ cbits → (Spec.Bits.writeAll val cbits 0 w).getLsbD j = w.getLsbD j) := by
  refine ⟨?_, fun j hj => writeAll_frame val cbits 0 w j hj⟩
  intro i h
  have := writeAll_nodup val cbits 0 w i cbits[i] hnd (hc _ (List.getElem_mem h)) (List.getElem?_eq_getElem h)
  simpa using this

/-- vector backend, `measure_all`/`peek_all`, distinct targets: qubit `i` goes to the `i`-th listed bit,
every other bit is unchanged -/
theorem measure_all_bits_vector (cbits : List Nat) (qs : List Bool) (w : Word)
    (hlen : cbits.length = qs.length) (hn64 : qs.length ≤ 64) (hc : ∀ c ∈ cbits, c < 64) (hnd : cbits.Nodup) :
    ∃ w', measureAllVecWord qs.length cbits (idxOfQubits qs) w = some w' ∧
      (∀ i (h : i < cbits.length), w'.getLsbD cbits[i] = qs[i]'(by omega)) ∧
      (∀ j, j ∉ cbits → w'.getLsbD j = w.getLsbD j) := by
  have h1 := vec_measureAll_eq_spec qs.length cbits ⟨qs, w⟩ rfl hn64 hc hnd
  obtain ⟨h2, h3⟩ := writeAll_bits_nodup (fun q => qs.getD q false) cbits w hc hnd
  refine ⟨_, h1, ?_, h3⟩
  intro i h
  rw [h2 i h]
  simp [List.getD_eq_getElem?_getD, List.getElem?_eq_getElem (by omega : i < qs.length)]

/-- stabilizer backend, `measure_all`: for every list (repeated targets allowed) the result is the
sequence of single writes, so the bit named last at position `i` holds the outcome of qubit `i` -/
theorem measure_all_bits_stabilizer (n : Nat) (cbits : List Nat) (outcome : Nat → Bool) (w : Word)
    (hlen : cbits.length ≤ n) (hc : ∀ c ∈ cbits, c < 64) :
    ∃ w', measureAllStabWord n cbits outcome w = .ok w' ∧
      (∀ i (h : i < cbits.length), (∀ i', i < i' → cbits[i']? ≠ some cbits[i]) → w'.getLsbD cbits[i] = outcome i) ∧
      (∀ j, j ∉ cbits → w'.getLsbD j = w.getLsbD j) := by
  refine ⟨_, measureAllStabLoop_eq_spec n outcome cbits 0 w (by omega) hc, ?_, fun j hj => writeAll_frame _ _ _ _ j hj⟩
  intro i h hlast
  have := writeAll_last outcome cbits 0 w i cbits[i] (hc _ (List.getElem_mem h)) (List.getElem?_eq_getElem h) hlast
  simpa using this

/-- stabilizer backend, `peek_all`, distinct targets -/
theorem peek_all_bits_stabilizer (cbits : List Nat) (outcome : Nat → Bool) (w : Word)
    (hc : ∀ c ∈ cbits, c < 64) (hnd : cbits.Nodup) :
    ∃ w', peekAllStabWord cbits outcome w = some w' ∧
      (∀ i (h : i < cbits.length), w'.getLsbD cbits[i] = outcome i) ∧
      (∀ j, j ∉ cbits → w'.getLsbD j = w.getLsbD j) := by
  obtain ⟨w', hw, hor⟩ := peekAllStabWord_orSem cbits outcome w hc
  obtain ⟨h2, h3⟩ := writeAll_bits_nodup outcome cbits w hc hnd
  refine ⟨w', hw, ?_, ?_⟩ <;> rw [orSem_nodup_eq_writeAll _ _ _ _ hnd hor]
  · exact h2
  · exact h3

end Q1t.Proofs.Register

import Q1t.Proofs.SimExec
/-!
C02: the relation `Rel` between a shot's simulator state and its exact reference state (equal up to a
scalar, unit norm), its preservation by gates and collapses, the support predicates on draws, and the
per-shot (index) form of T3: `measure_shot`, `peek_shot`, `reset_shot`.
-/
set_option linter.unusedSectionVars false
namespace Q1t.Sim
open Q1t Q1t.Spec Prog

section
variable {α P : Type} [CommRing α] [Amp α P] [SimAmp α]
variable {n : Nat} {valid : GateTerm P → List Nat → Prop} {nz : α → Prop}

/-- outcome 0 (resp. 1) may only be drawn when its weight is a valid non-zero weight -/
def suppBin (nz : α → Prop) (c : Nat) (p : α) (n0 : Nat) : Prop := (0 < n0 → nz p) ∧ (n0 < c → nz (1 - p))

/-- a basis state may only be drawn when its weight is a valid non-zero weight -/
def suppCat (nz : α → Prop) (ws : List α) (i : Nat) : Prop := ∀ w, ws[i]? = some w → nz w

/-- the simulator's state `col` of a shot is the reference state `ψ` up to a scalar, and has unit norm -/
def Rel (n : Nat) (col ψ : List α) : Prop :=
  ψ.length = 2 ^ n ∧ normSqSum col = 1 ∧ ∃ a : α, col = ψ.map (· * a)

theorem Rel.length {col ψ : List α} (h : Rel n col ψ) : col.length = 2 ^ n := by
  obtain ⟨h1, _, a, rfl⟩ := h; simpa using h1

/-- the scalar is a unit, and so is the squared norm of the reference state -/
theorem Rel.unit (ha : LawfulAmp α P) (hs : LawfulSim α P nz) {col ψ : List α} (h : Rel n col ψ) :
    ∃ a b : α, a * b = 1 ∧ col = ψ.map (· * a) ∧ (a * Amp.conj P a) * normSqSum ψ = 1 := by
  obtain ⟨_, h2, a, rfl⟩ := h
  rw [normSqSum_smul ha hs] at h2
  refine ⟨a, Amp.conj P a * normSqSum ψ, ?_, rfl, ?_⟩
  · rw [← h2]; ring
  · rw [← h2]; ring

theorem Rel.gate (hsem : GateSemOK α n valid) {g : GateTerm P} {bits : List Nat} (hv : valid g bits)
    {col ψ : List α} (h : Rel n col ψ) : Rel n (gateOn n g bits col) (gateOn n g bits ψ) := by
  have hl := h.length
  obtain ⟨h1, h2, a, rfl⟩ := h
  exact ⟨gateOn_length _ _ _ _, by rw [hsem.iso g bits hv _ hl, h2], a, gateOn_smul _ _ _ _ _⟩

theorem Rel.collapse (ha : LawfulAmp α P) (hs : LawfulSim α P nz) (q : Nat) (o : Bool) {col ψ : List α}
    (h : Rel n col ψ) (hnz : nz (if o then 1 - w0Of n q col else w0Of n q col)) :
    Rel n (collapseShot n q col o) (project n q o ψ) := by
  obtain ⟨h1, h2, a, hcol⟩ := h
  obtain ⟨w, hw⟩ : ∃ w, w = (if o then 1 - w0Of n q col else w0Of n q col) := ⟨_, rfl⟩
  rw [← hw] at hnz
  have hwe : w = normSqSum (project n q o col) := by
    have hsplit := normSqSum_split hs n q col
    rw [h2] at hsplit
    cases o
    · simp only [hw, Bool.false_eq_true, if_false]; exact prob0_eq_born hs n q col
    · simp only [hw, if_true, prob0_eq_born hs n q col, ← hsplit]; ring
  have key : normSqSum (project n q o col) * (SimAmp.rsqrt w * SimAmp.rsqrt w) = 1 := by
    rw [← hwe, mul_comm]; exact hs.rsqrt_mul w hnz
  refine ⟨by rw [project_length, h1], ?_, a * SimAmp.rsqrt w, ?_⟩
  · rw [collapseShot, ← hw, collapseCol_eq, normSqSum_smul ha hs, hs.rsqrt_real w hnz]
    exact key
  · rw [collapseShot, ← hw, collapseCol_eq, hcol, project_smul, map_mul_mul]

/-! ### register bits -/

omit [CommRing α] [Amp α P] [SimAmp α] in
theorem bitOf_eq_testBit (w c : Nat) : bitOf w c = w.testBit c := by
  simp only [bitOf, Nat.testBit_eq_decide_div_mod_eq, Nat.shiftRight_eq_div_pow]
  by_cases h : w / 2 ^ c % 2 = 1 <;> simp [h]

omit [CommRing α] [Amp α P] [SimAmp α] in
theorem bitOf_setBitTo (w c : Nat) (o : Bool) (hc : c < 64) : bitOf (setBitTo w c o) c = o := by
  rw [bitOf_eq_testBit]
  cases o
  · have h64 : (18446744073709551615 : Nat).testBit c = true := by
      have := Nat.testBit_two_pow_sub_one 64 c
      simpa [hc] using this
    simp [setBitTo, Nat.testBit_and, Nat.testBit_xor, Nat.testBit_shiftLeft, h64]
  · simp [setBitTo, Nat.testBit_or, Nat.testBit_shiftLeft]

/-! ### from ranges to shots: the support of the draws -/

theorem supp_shots (hs : LawfulSim α P nz) (w0 : List α → α) : ∀ (cols : List (List α)) (counts n0s : List Nat),
    cols.length = counts.length →
    List.Forall₂ (fun (wc : α × Nat) n0 => n0 ≤ wc.2 ∧ suppBin nz wc.2 (SimAmp.min1 wc.1) n0)
      ((cols.map w0).zip counts) n0s →
    ∀ (i : Nat) (col : List α) (o : Bool), (expand counts cols)[i]? = some col →
      (measOuts counts n0s)[i]? = some o → nz (if o then 1 - w0 col else w0 col) := by
  intro cols
  induction cols with
  | nil =>
    intro counts n0s _ _ i col o h1 _
    cases counts <;> simp [expand] at h1
  | cons col0 cols ih =>
    intro counts n0s hl hf i col o h1 h2
    cases counts with
    | nil => simp at hl
    | cons c cs =>
      simp only [List.map_cons, List.zip_cons_cons] at hf
      cases hf with
      | @cons _ n0 _ ns hh ht =>
        obtain ⟨hle, hsupp⟩ := hh
        simp only at hle hsupp
        simp only [expand, measOuts] at h1 h2
        have hAB : (List.replicate n0 false ++ List.replicate (c - n0) true).length = c := by simp; omega
        by_cases hi : i < c
        · rw [List.getElem?_append_left (by simpa using hi)] at h1
          simp only [List.getElem?_replicate, hi, if_true, Option.some.injEq] at h1
          subst h1
          rw [List.getElem?_append_left (by rw [hAB]; exact hi)] at h2
          by_cases hi0 : i < n0
          · rw [List.getElem?_append_left (by simpa using hi0)] at h2
            simp only [List.getElem?_replicate, hi0, if_true, Option.some.injEq] at h2
            subst h2
            simpa using hs.min1_nz0 _ (hsupp.1 (by omega))
          · rw [List.getElem?_append_right (by simpa using hi0)] at h2
            simp only [List.length_replicate, List.getElem?_replicate] at h2
            rw [if_pos (by omega)] at h2
            simp only [Option.some.injEq] at h2
            subst h2
            simpa using hs.min1_nz1 _ (hsupp.2 (by omega))
        · rw [List.getElem?_append_right (by simpa using hi)] at h1
          rw [List.getElem?_append_right (by rw [hAB]; omega), hAB] at h2
          simp only [List.length_replicate] at h1
          exact ih cs ns (by simpa using hl) ht (i - c) col o h1 h2

variable {sc : List α → Nat → Prop}

/-- **per-shot reading of `measure_into`** (T3): shot `i` gets an outcome `o` — the `i`-th entry of
`measOuts`, i.e. 0 for the first `n0_k` shots of its range and 1 for the others — written into bit `cbit`
of its word and nowhere else, and its state collapses accordingly; the outcome had a valid non-zero weight -/
theorem measure_shot (hs : LawfulSim α P nz) {s : VecState α} {q cbit : Nat} {res : List Nat} (hwf : WFS s)
    (hres : res.length = s.nrShots) {ds ds' : List Draw} {s' : VecState α} {res' : List Nat}
    (h : Runs (suppBin nz) sc (VecState.measureInto s q cbit res) ds (.ok (s', res')) ds') :
    q < s.nrBits ∧ cbit < 64 ∧ s'.nrBits = s.nrBits ∧ s'.nrShots = s.nrShots ∧ WFS s' ∧ res'.length = res.length ∧
    ∃ n0s, ∀ (i : Nat) (w : Nat) (col : List α), res[i]? = some w → (shotStates s)[i]? = some col →
      ∃ o, (measOuts s.counts n0s)[i]? = some o ∧ res'[i]? = some (setBitTo w cbit o) ∧
        (shotStates s')[i]? = some (collapseShot s.nrBits q col o) ∧
        nz (if o then 1 - w0Of s.nrBits q col else w0Of s.nrBits q col) := by
  obtain ⟨hq, _, hcb, n0s, hf, hres', e1, e2, hwf', hss⟩ := measureInto_runs s q cbit res hwf h
  have hol := measOuts_length_of hwf hf
  refine ⟨hq, hcb, e1, e2, hwf', by rw [hres', setOuts_length], n0s, ?_⟩
  intro i w col hw hcol
  have hi : i < s.nrShots := by
    rw [← hres]; exact (List.getElem?_eq_some_iff.mp hw).1
  obtain ⟨o, ho⟩ : ∃ o, (measOuts s.counts n0s)[i]? = some o :=
    ⟨_, List.getElem?_eq_getElem (by rw [hol]; exact hi)⟩
  refine ⟨o, ho, ?_, ?_, ?_⟩
  · rw [hres', getElem?_setOuts, hw]
    simp only [Option.map_some, Option.some.injEq]
    rw [if_pos (by omega)]
    simp [List.getD_eq_getElem?_getD, ho]
  · rw [hss, List.getElem?_zipWith, hcol, ho]
  · exact supp_shots hs (w0Of s.nrBits q) (cols s) s.counts n0s (cols_length s) hf i col o hcol ho

/-- **per-shot reading of `peek_into`** (T3): no state is touched (the function does not return one); shot
`i` gets an outcome of valid non-zero weight written into bit `cbit` of its word and nowhere else -/
theorem peek_shot (hs : LawfulSim α P nz) {s : VecState α} {q cbit : Nat} {res : List Nat} (hwf : WFS s)
    (hres : res.length = s.nrShots) {ds ds' : List Draw} {res' : List Nat}
    (h : Runs (suppBin nz) sc (VecState.peekInto s q cbit res) ds (.ok res') ds') :
    q < s.nrBits ∧ cbit < 64 ∧ res'.length = res.length ∧
    ∃ n0s, ∀ (i : Nat) (w : Nat) (col : List α), res[i]? = some w → (shotStates s)[i]? = some col →
      ∃ o, (measOuts s.counts n0s)[i]? = some o ∧ res'[i]? = some (setBitTo w cbit o) ∧
        nz (if o then 1 - w0Of s.nrBits q col else w0Of s.nrBits q col) := by
  obtain ⟨hq, _, hcb, n0s, hf, hres'⟩ := peekInto_runs s q cbit res h
  have hol := measOuts_length_of hwf hf
  refine ⟨hq, hcb, by rw [hres', setOuts_length], n0s, ?_⟩
  intro i w col hw hcol
  have hi : i < s.nrShots := by
    rw [← hres]; exact (List.getElem?_eq_some_iff.mp hw).1
  obtain ⟨o, ho⟩ : ∃ o, (measOuts s.counts n0s)[i]? = some o :=
    ⟨_, List.getElem?_eq_getElem (by rw [hol]; exact hi)⟩
  refine ⟨o, ho, ?_, ?_⟩
  · rw [hres', getElem?_setOuts, hw]
    simp only [Option.map_some, Option.some.injEq]
    rw [if_pos (by omega)]
    simp [List.getD_eq_getElem?_getD, ho]
  · exact supp_shots hs (w0Of s.nrBits q) (cols s) s.counts n0s (cols_length s) hf i col o hcol ho

/-- **per-shot reading of `reset`** (T3): a hidden outcome `o` of valid non-zero weight, collapse, then `X`
iff `o = 1` -/
theorem reset_shot (hs : LawfulSim α P nz) (hsem : GateSemOK α n valid) {s : VecState α} {q : Nat}
    (hn : s.nrBits = n) (hwf : WFS s) {ds ds' : List Draw} {s' : VecState α}
    (h : Runs (suppBin nz) sc (VecState.reset (P := P) s q) ds (.ok s') ds') :
    q < n ∧ s'.nrBits = s.nrBits ∧ s'.nrShots = s.nrShots ∧ WFS s' ∧
    ∃ n0s, ∀ (i : Nat) (col : List α), (shotStates s)[i]? = some col →
      ∃ o, (measOuts s.counts n0s)[i]? = some o ∧
        (shotStates s')[i]? = some (resetShot (P := P) n q col o) ∧
        nz (if o then 1 - w0Of n q col else w0Of n q col) := by
  obtain ⟨hq, e1, e2, hwf', n0s, hf, hss⟩ := reset_shots hsem hn hwf h
  have hol := measOuts_length_of hwf hf
  refine ⟨hq, e1, e2, hwf', n0s, ?_⟩
  intro i col hcol
  have hi : i < s.nrShots := by
    rw [← shotStates_length hwf]; exact (List.getElem?_eq_some_iff.mp hcol).1
  obtain ⟨o, ho⟩ : ∃ o, (measOuts s.counts n0s)[i]? = some o :=
    ⟨_, List.getElem?_eq_getElem (by rw [hol]; exact hi)⟩
  refine ⟨o, ho, ?_, ?_⟩
  · rw [hss, List.getElem?_zipWith, hcol, ho]
  · have := supp_shots hs (w0Of s.nrBits q) (cols s) s.counts n0s (cols_length s) hf i col o hcol ho
    rwa [hn] at this

end
end Q1t.Sim

import Q1t.Proofs.SimShots
/-!
C02 (T1): the shape invariant `WFState` is preserved by every operation of `execOp vecBackend`, hence by
`execOps`: counts sum to the number of shots, the register has one word per shot, the state matrix has
`2^n` rows and one column per range.
-/
set_option linter.unusedSectionVars false
namespace Q1t.Sim
open Q1t Q1t.Spec Prog

section
variable {W P S : Type} (B : Backend W P S)
variable {sb : Nat → W → Nat → Prop} {sc : List W → Nat → Prop}

theorem withBasis1_runs {s : S} {q : Nat} {b : Basis} {body : S → Prog W (S × List Nat)}
    {ds ds' : List Draw} {s' : S} {r : List Nat}
    (h : Runs sb sc (withBasis1 B s q b body) ds (.ok (s', r)) ds') :
    match b with
    | .Z => Runs sb sc (body s) ds (.ok (s', r)) ds'
    | .X => ∃ s1 d1 s2 d2, Runs sb sc (B.applyGate s .H [q]) ds (.ok s1) d1 ∧
        Runs sb sc (body s1) d1 (.ok (s2, r)) d2 ∧ Runs sb sc (B.applyGate s2 .H [q]) d2 (.ok s') ds'
    | .Y => ∃ sa da s1 d1 s2 d2 sz dz, Runs sb sc (B.applyGate s .Sdg [q]) ds (.ok sa) da ∧
        Runs sb sc (B.applyGate sa .H [q]) da (.ok s1) d1 ∧
        Runs sb sc (body s1) d1 (.ok (s2, r)) d2 ∧ Runs sb sc (B.applyGate s2 .H [q]) d2 (.ok sz) dz ∧
        Runs sb sc (B.applyGate sz .S [q]) dz (.ok s') ds' := by
  cases b with
  | Z => exact h
  | X =>
    simp only [withBasis1, bind_eq, pure_eq] at h
    obtain ⟨s1, d1, h1, h⟩ := runs_bind_ok _ _ h
    obtain ⟨⟨s2, r2⟩, d2, h2, h⟩ := runs_bind_ok _ _ h
    obtain ⟨s3, d3, h3, h⟩ := runs_bind_ok _ _ h
    obtain ⟨h4, rfl⟩ := runs_pure_iff.mp h
    simp only [Except.ok.injEq, Prod.mk.injEq] at h4
    obtain ⟨rfl, rfl⟩ := h4
    exact ⟨s1, d1, s2, d2, h1, h2, h3⟩
  | Y =>
    simp only [withBasis1, bind_eq, pure_eq] at h
    obtain ⟨sa, da, ha, h⟩ := runs_bind_ok _ _ h
    obtain ⟨s1, d1, h1, h⟩ := runs_bind_ok _ _ h
    obtain ⟨⟨s2, r2⟩, d2, h2, h⟩ := runs_bind_ok _ _ h
    obtain ⟨s3, d3, h3, h⟩ := runs_bind_ok _ _ h
    obtain ⟨s4, d4, h4', h⟩ := runs_bind_ok _ _ h
    obtain ⟨h4, rfl⟩ := runs_pure_iff.mp h
    simp only [Except.ok.injEq, Prod.mk.injEq] at h4
    obtain ⟨rfl, rfl⟩ := h4
    exact ⟨sa, da, s1, d1, s2, d2, s3, d3, ha, h1, h2, h3, h4'⟩


theorem withBasisAll_runs {s : S} {b : Basis} {body : S → Prog W (S × List Nat)}
    {ds ds' : List Draw} {s' : S} {r : List Nat}
    (h : Runs sb sc (withBasisAll B s b body) ds (.ok (s', r)) ds') :
    match b with
    | .Z => Runs sb sc (body s) ds (.ok (s', r)) ds'
    | .X => ∃ s1 d1 s2 d2, Runs sb sc (B.applyUnaryAll s .H) ds (.ok s1) d1 ∧
        Runs sb sc (body s1) d1 (.ok (s2, r)) d2 ∧ Runs sb sc (B.applyUnaryAll s2 .H) d2 (.ok s') ds'
    | .Y => ∃ sa da s1 d1 s2 d2 sz dz, Runs sb sc (B.applyUnaryAll s .Sdg) ds (.ok sa) da ∧
        Runs sb sc (B.applyUnaryAll sa .H) da (.ok s1) d1 ∧
        Runs sb sc (body s1) d1 (.ok (s2, r)) d2 ∧ Runs sb sc (B.applyUnaryAll s2 .H) d2 (.ok sz) dz ∧
        Runs sb sc (B.applyUnaryAll sz .S) dz (.ok s') ds' := by
  cases b with
  | Z => exact h
  | X =>
    simp only [withBasisAll, bind_eq, pure_eq] at h
    obtain ⟨s1, d1, h1, h⟩ := runs_bind_ok _ _ h
    obtain ⟨⟨s2, r2⟩, d2, h2, h⟩ := runs_bind_ok _ _ h
    obtain ⟨s3, d3, h3, h⟩ := runs_bind_ok _ _ h
    obtain ⟨h4, rfl⟩ := runs_pure_iff.mp h
    simp only [Except.ok.injEq, Prod.mk.injEq] at h4
    obtain ⟨rfl, rfl⟩ := h4
    exact ⟨s1, d1, s2, d2, h1, h2, h3⟩
  | Y =>
    simp only [withBasisAll, bind_eq, pure_eq] at h
    obtain ⟨sa, da, ha, h⟩ := runs_bind_ok _ _ h
    obtain ⟨s1, d1, h1, h⟩ := runs_bind_ok _ _ h
    obtain ⟨⟨s2, r2⟩, d2, h2, h⟩ := runs_bind_ok _ _ h
    obtain ⟨s3, d3, h3, h⟩ := runs_bind_ok _ _ h
    obtain ⟨s4, d4, h4', h⟩ := runs_bind_ok _ _ h
    obtain ⟨h4, rfl⟩ := runs_pure_iff.mp h
    simp only [Except.ok.injEq, Prod.mk.injEq] at h4
    obtain ⟨rfl, rfl⟩ := h4
    exact ⟨sa, da, s1, d1, s2, d2, s3, d3, ha, h1, h2, h3, h4'⟩

end

section
variable {α P : Type} [CommRing α] [Amp α P] [SimAmp α]
variable {sb : Nat → α → Nat → Prop} {sc : List α → Nat → Prop}
variable {n : Nat} {valid : GateTerm P → List Nat → Prop}

/-- the basis-change gates on a qubit below `n` satisfy the side conditions -/
def BasisValid (n : Nat) (valid : GateTerm P → List Nat → Prop) : Prop :=
  ∀ q, q < n → valid .H [q] ∧ valid .S [q] ∧ valid .Sdg [q] ∧ valid .X [q]

/-- the shape invariant: `n` qubits, `N` shots accounted for by the ranges, one register word per shot -/
structure WFState (n N : Nat) (s : VecState α) (c : List Nat) : Prop where
  wfs : WFS s
  nrBits : s.nrBits = n
  nrShots : s.nrShots = N
  reg : c.length = N

/-- an invariant stable under single-qubit `apply_gate`s on valid qubits survives `apply_unary_gate_all` -/
theorem foldl_applyGate_inv (Inv : VecState α → Prop) (g : GateTerm P) : ∀ (bitsL : List Nat),
    (∀ bit ∈ bitsL, ∀ st st' d d', Inv st → Runs sb sc (VecState.applyGate st g [bit]) d (.ok st') d' →
      Inv st') →
    ∀ (acc : Prog α (VecState α)) (ds ds' : List Draw) (s' : VecState α),
    Runs sb sc (bitsL.foldl (fun acc bit => acc.bind fun st => VecState.applyGate st g [bit]) acc) ds (.ok s') ds' →
    ∃ s0, Runs sb sc acc ds (.ok s0) ds' ∧ (Inv s0 → Inv s') := by
  intro bitsL
  induction bitsL with
  | nil => intro _ acc ds ds' s' h; exact ⟨s', h, id⟩
  | cons bit rest ih =>
    intro hstep acc ds ds' s' h
    simp only [List.foldl_cons] at h
    obtain ⟨s1, h1, himp⟩ := ih (fun b hb => hstep b (List.mem_cons_of_mem _ hb)) _ _ _ _ h
    obtain ⟨s0, d0, h0, hg⟩ := runs_bind_ok _ _ h1
    obtain ⟨hd, _⟩ := applyGate_runs hg
    subst hd
    exact ⟨s0, h0, fun hi => himp (hstep bit List.mem_cons_self s0 s1 _ _ hi hg)⟩

theorem applyUnaryAll_wfs (hshape : GateShapeOK α n valid) {g : GateTerm P}
    (hv : ∀ q, q < n → valid g [q]) {N : Nat} {s : VecState α}
    (hwf : WFS s ∧ s.nrBits = n ∧ s.nrShots = N) {ds ds' : List Draw} {s' : VecState α}
    (h : Runs sb sc (VecState.applyUnaryAll s g) ds (.ok s') ds') :
    ds' = ds ∧ WFS s' ∧ s'.nrBits = n ∧ s'.nrShots = N := by
  unfold VecState.applyUnaryAll at h
  obtain ⟨s0, h0, himp⟩ := foldl_applyGate_inv (fun st => WFS st ∧ st.nrBits = n ∧ st.nrShots = N) g
    (List.range s.nrBits) (by
      intro bit hbit st st' d d' hi hr
      have hb : bit < n := hwf.2.1 ▸ List.mem_range.mp hbit
      obtain ⟨_, e2, e3, _, e5⟩ := applyGate_wfs hshape (hv bit hb) hi.2.1 hi.1 hr
      exact ⟨e5, e2.trans hi.2.1, e3.trans hi.2.2⟩) _ _ _ _ h
  obtain ⟨h1, h2⟩ := runs_pure_iff.mp h0
  simp only [Except.ok.injEq] at h1
  subst h1
  exact ⟨h2, himp hwf⟩

/-! ### `measure_all_into_helper`: shape -/

theorem runs_sampleAll {β : Type} : ∀ (l : List (List α × Nat)) (k : List (Nat × Nat) → Prog α β)
    (ds : List Draw) (x : β) (ds' : List Draw), Runs sb sc (VecState.sampleAll l k) ds (.ok x) ds' →
    ∃ (ls : List (List (Nat × Nat))) (ds1 : List Draw),
      List.Forall₂ (fun (wc : List α × Nat) (ll : List (Nat × Nat)) =>
        ((ll.map (·.2)).foldl (· + ·) 0 = wc.2 ∧ ll.all (fun ic => ic.1 < wc.1.length ∧ 0 < ic.2) ∧
          (ll.map (·.1)).Nodup) ∧ ∀ ic ∈ ll, sc wc.1 ic.1) l ls ∧
      Runs sb sc (k ls.flatten) ds1 (.ok x) ds' := by
  intro l
  induction l with
  | nil => intro k ds x ds' h; exact ⟨[], ds, .nil, h⟩
  | cons wc rest ih =>
    intro k ds x ds' h
    obtain ⟨ws, c⟩ := wc
    simp only [VecState.sampleAll] at h
    split at h
    · exact absurd h runs_panic_ok
    · cases h with
      | categorical _ _ _ ll ds0 _ _ hok hsc hk =>
        obtain ⟨ls, ds1, hf, hr⟩ := ih _ _ _ _ hk
        exact ⟨ll :: ls, ds1, .cons ⟨hok, hsc⟩ hf, by simpa using hr⟩

theorem foldl_add_sum (l : List Nat) (a : Nat) : l.foldl (· + ·) a = a + l.sum := by
  induction l generalizing a with
  | nil => simp
  | cons x l ih => simp [ih, Nat.add_assoc]

theorem sampled_counts_sum : ∀ (l : List (List α × Nat)) (ls : List (List (Nat × Nat))),
    List.Forall₂ (fun (wc : List α × Nat) (ll : List (Nat × Nat)) =>
        ((ll.map (·.2)).foldl (· + ·) 0 = wc.2 ∧ ll.all (fun ic => ic.1 < wc.1.length ∧ 0 < ic.2) ∧
          (ll.map (·.1)).Nodup) ∧ ∀ ic ∈ ll, sc wc.1 ic.1) l ls →
    (ls.flatten.map (·.2)).sum = (l.map (·.2)).sum := by
  intro l ls h
  induction h with
  | nil => simp
  | cons h1 _ ih =>
    have := h1.1.1
    rw [foldl_add_sum, Nat.zero_add] at this
    simp only [List.flatten_cons, List.map_append, List.sum_append, List.map_cons, List.sum_cons, ih, this]

theorem foldl_inv {σ ι : Type} (Inv : σ → Prop) (f : σ → ι → σ) : ∀ (l : List ι) (init : σ),
    Inv init → (∀ st x, Inv st → Inv (f st x)) → Inv (l.foldl f init) := by
  intro l
  induction l with
  | nil => intro init h _; exact h
  | cons x l ih => intro init h hs; exact ih _ (hs _ _ h) hs

theorem measureAllHelper_wfs {s : VecState α} {cbits res : List Nat} {collapse : Bool} (hwf : WFS s)
    {ds ds' : List Draw} {s' : VecState α} {res' : List Nat}
    (h : Runs sb sc (VecState.measureAllHelper s cbits res collapse) ds (.ok (s', res')) ds') :
    s'.nrBits = s.nrBits ∧ s'.nrShots = s.nrShots ∧ WFS s' ∧ res'.length = res.length := by
  unfold VecState.measureAllHelper at h
  split at h
  · exact absurd h runs_err_ok
  split at h
  · exact absurd h runs_err_ok
  obtain ⟨ls, ds1, hf, hk⟩ := runs_sampleAll _ _ _ _ _ h
  split at hk
  · exact absurd hk runs_panic_ok
  have hsum := sampled_counts_sum _ _ hf
  dsimp only at hk
  generalize hR : List.foldl _ (res, 0) ls.flatten = R at hk
  have hlen : R.1.length = res.length := by
    rw [← hR]
    exact foldl_inv (fun (st : List Nat × Nat) => st.1.length = res.length) _ _ _ rfl (by intro st x h; simp [h])
  have hcs : (List.map (fun k => (List.map SimAmp.normSq (s.column k), s.counts.getD k 0)) (List.range s.nrCols)).map (·.2)
      = s.counts := by
    simp only [List.map_map, VecState.nrCols]
    exact range_map_getD s.counts 0
  rw [hcs, hwf.counts_sum] at hsum
  split at hk
  · obtain ⟨h1, _⟩ := runs_pure_iff.mp hk
    simp only [Except.ok.injEq, Prod.mk.injEq] at h1
    obtain ⟨rfl, rfl⟩ := h1
    exact ⟨rfl, rfl, wfs_ofColumns _ _ _ _ (by simp only [List.length_map]) hsum, hlen⟩
  · obtain ⟨h1, _⟩ := runs_pure_iff.mp hk
    simp only [Except.ok.injEq, Prod.mk.injEq] at h1
    obtain ⟨rfl, rfl⟩ := h1
    exact ⟨rfl, rfl, hwf, hlen⟩

theorem measureInto_lt {s : VecState α} {q cbit : Nat} {res : List Nat} {ds ds' : List Draw}
    {x : VecState α × List Nat} (h : Runs sb sc (VecState.measureInto s q cbit res) ds (.ok x) ds') :
    q < s.nrBits := by
  unfold VecState.measureInto at h
  split at h
  · exact absurd h runs_err_ok
  · omega

/-! ### T1 -/

theorem execOp_wf (hshape : GateShapeOK α n valid) (hbasis : BasisValid n valid) {N : Nat}
    {s : VecState α} {c : List Nat} {op : COp P} (hop : OpValid valid op) (hwf : WFState n N s c)
    {ds ds' : List Draw} {s' : VecState α} {c' : List Nat}
    (h : Runs sb sc (execOp (vecBackend (α := α) (P := P)) s c op) ds (.ok (s', c')) ds') :
    WFState n N s' c' := by
  obtain ⟨hw, hn, hN, hc⟩ := hwf
  -- a gate step on a valid instance keeps the invariant
  have hgate : ∀ {g : GateTerm P} {bits : List Nat} {st st' : VecState α} {d d' : List Draw}, valid g bits →
      (WFS st ∧ st.nrBits = n ∧ st.nrShots = N) → Runs sb sc (VecState.applyGate st g bits) d (.ok st') d' →
      (WFS st' ∧ st'.nrBits = n ∧ st'.nrShots = N) := by
    intro g bits st st' d d' hv hi hr
    obtain ⟨_, e2, e3, _, e5⟩ := applyGate_wfs hshape hv hi.2.1 hi.1 hr
    exact ⟨e5, e2.trans hi.2.1, e3.trans hi.2.2⟩
  have hnb : ∀ {g : GateTerm P} {bits : List Nat} {st st' : VecState α} {d d' : List Draw},
      Runs sb sc (VecState.applyGate st g bits) d (.ok st') d' → st'.nrBits = st.nrBits := by
    intro g bits st st' d d' hr
    obtain ⟨_, _, _, rfl⟩ := applyGate_runs hr
    rfl
  have hmeas : ∀ {q cb : Nat} {st st' : VecState α} {r : List Nat} {d d' : List Draw},
      (WFS st ∧ st.nrBits = n ∧ st.nrShots = N) →
      Runs sb sc (VecState.measureInto st q cb c) d (.ok (st', r)) d' →
      (WFS st' ∧ st'.nrBits = n ∧ st'.nrShots = N) ∧ r.length = N := by
    intro q cb st st' r d d' hi hr
    obtain ⟨_, _, _, n0s, _, hres, e1, e2, hwf1, _⟩ := measureInto_runs st q cb c hi.1 hr
    exact ⟨⟨hwf1, e1.trans hi.2.1, e2.trans hi.2.2⟩, by rw [hres, setOuts_length, hc]⟩
  have hpeek : ∀ {q cb : Nat} {st : VecState α} {r : List Nat} {d d' : List Draw},
      Runs sb sc (VecState.peekInto st q cb c) d (.ok r) d' → r.length = N := by
    intro q cb st r d d' hr
    obtain ⟨_, _, _, n0s, _, hres⟩ := peekInto_runs st q cb c hr
    rw [hres, setOuts_length, hc]
  have hmall : ∀ {cbits : List Nat} {col : Bool} {st st' : VecState α} {r : List Nat} {d d' : List Draw},
      (WFS st ∧ st.nrBits = n ∧ st.nrShots = N) →
      Runs sb sc (VecState.measureAllHelper st cbits c col) d (.ok (st', r)) d' →
      (WFS st' ∧ st'.nrBits = n ∧ st'.nrShots = N) ∧ r.length = N := by
    intro cbits col st st' r d d' hi hr
    obtain ⟨e1, e2, e3, e4⟩ := measureAllHelper_wfs hi.1 hr
    exact ⟨⟨e3, e1.trans hi.2.1, e2.trans hi.2.2⟩, e4.trans hc⟩
  have hall : ∀ {g : GateTerm P} {st st' : VecState α} {d d' : List Draw}, (∀ q, q < n → valid g [q]) →
      (WFS st ∧ st.nrBits = n ∧ st.nrShots = N) → Runs sb sc (VecState.applyUnaryAll st g) d (.ok st') d' →
      (WFS st' ∧ st'.nrBits = n ∧ st'.nrShots = N) := by
    intro g st st' d d' hv hi hr
    exact (applyUnaryAll_wfs hshape hv hi hr).2
  have hi0 : WFS s ∧ s.nrBits = n ∧ s.nrShots = N := ⟨hw, hn, hN⟩
  cases op with
  | gate g bits =>
    simp only [execOp, vecBackend] at h
    obtain ⟨s1, d1, h1, h2⟩ := runs_bind_ok _ _ h
    obtain ⟨e, _⟩ := runs_pure_iff.mp h2
    simp only [Except.ok.injEq, Prod.mk.injEq] at e
    obtain ⟨rfl, rfl⟩ := e
    obtain ⟨a, b, c0⟩ := hgate hop hi0 h1
    exact ⟨a, b, c0, hc⟩
  | cond control target g bits =>
    simp only [execOp, vecBackend] at h
    split at h
    · exact absurd h runs_panic_ok
    · obtain ⟨s1, d1, h1, h2⟩ := runs_bind_ok _ _ h
      obtain ⟨e, _⟩ := runs_pure_iff.mp h2
      simp only [Except.ok.injEq, Prod.mk.injEq] at e
      obtain ⟨rfl, rfl⟩ := e
      obtain ⟨_, e2, e3, e4⟩ := applyConditional_wfs hw h1
      exact ⟨e4, e2.trans hn, e3.trans hN, hc⟩
  | reset q =>
    simp only [execOp, vecBackend] at h
    obtain ⟨s1, d1, h1, h2⟩ := runs_bind_ok _ _ h
    obtain ⟨e, _⟩ := runs_pure_iff.mp h2
    simp only [Except.ok.injEq, Prod.mk.injEq] at e
    obtain ⟨rfl, rfl⟩ := e
    obtain ⟨e2, e3, e4⟩ := reset_wfs hw h1
    exact ⟨e4, e2.trans hn, e3.trans hN, hc⟩
  | resetAll =>
    simp only [execOp, vecBackend] at h
    obtain ⟨e, _⟩ := runs_pure_iff.mp h
    simp only [Except.ok.injEq, Prod.mk.injEq] at e
    obtain ⟨rfl, rfl⟩ := e
    obtain ⟨e1, e2, e3, _⟩ := resetAll_shots s
    exact ⟨e3, e1.trans hn, e2.trans hN, hc⟩
  | barrier bits =>
    simp only [execOp] at h
    obtain ⟨e, _⟩ := runs_pure_iff.mp h
    simp only [Except.ok.injEq, Prod.mk.injEq] at e
    obtain ⟨rfl, rfl⟩ := e
    exact ⟨hw, hn, hN, hc⟩
  | measure q cb b =>
    simp only [execOp, vecBackend] at h
    have hb := withBasis1_runs _ h
    dsimp only at hb
    cases b with
    | Z =>
      obtain ⟨⟨a, b, c0⟩, d⟩ := hmeas hi0 hb
      exact ⟨a, b, c0, d⟩
    | X =>
      obtain ⟨s1, d1, s2, d2, h1, h2, h3⟩ := hb
      have hq : q < n := by
        have := measureInto_lt h2
        rw [hnb h1, hn] at this; exact this
      obtain ⟨i2, d⟩ := hmeas (hgate (hbasis q hq).1 hi0 h1) h2
      obtain ⟨a, b, c0⟩ := hgate (hbasis q hq).1 i2 h3
      exact ⟨a, b, c0, d⟩
    | Y =>
      obtain ⟨sa, da, s1, d1, s2, d2, sz, dz, ha, h1, h2, h3, h4⟩ := hb
      have hq : q < n := by
        have := measureInto_lt h2
        rw [hnb h1, hnb ha, hn] at this; exact this
      obtain ⟨i2, d⟩ := hmeas (hgate (hbasis q hq).1 (hgate (hbasis q hq).2.2.1 hi0 ha) h1) h2
      obtain ⟨a, b, c0⟩ := hgate (hbasis q hq).2.1 (hgate (hbasis q hq).1 i2 h3) h4
      exact ⟨a, b, c0, d⟩
  | peek q cb b =>
    simp only [execOp, vecBackend] at h
    have hb := withBasis1_runs _ h
    dsimp only at hb
    have hbody : ∀ {st st' : VecState α} {r : List Nat} {d d' : List Draw},
        Runs sb sc ((VecState.peekInto st q cb c).bind fun r => Prog.pure (st, r)) d (.ok (st', r)) d' →
        st' = st ∧ r.length = N ∧ q < st.nrBits := by
      intro st st' r d d' hr
      obtain ⟨r1, d1, h1, h2⟩ := runs_bind_ok _ _ hr
      obtain ⟨e, _⟩ := runs_pure_iff.mp h2
      simp only [Except.ok.injEq, Prod.mk.injEq] at e
      obtain ⟨rfl, rfl⟩ := e
      exact ⟨rfl, hpeek h1, (peekInto_runs _ _ _ _ h1).1⟩
    cases b with
    | Z =>
      obtain ⟨rfl, d, _⟩ := hbody hb
      exact ⟨hw, hn, hN, d⟩
    | X =>
      obtain ⟨s1, d1, s2, d2, h1, h2, h3⟩ := hb
      obtain ⟨rfl, d, hq⟩ := hbody h2
      have hq : q < n := by rw [hnb h1, hn] at hq; exact hq
      obtain ⟨a, b, c0⟩ := hgate (hbasis q hq).1 (hgate (hbasis q hq).1 hi0 h1) h3
      exact ⟨a, b, c0, d⟩
    | Y =>
      obtain ⟨sa, da, s1, d1, s2, d2, sz, dz, ha, h1, h2, h3, h4⟩ := hb
      obtain ⟨rfl, d, hq⟩ := hbody h2
      have hq : q < n := by rw [hnb h1, hnb ha, hn] at hq; exact hq
      obtain ⟨a, b, c0⟩ := hgate (hbasis q hq).2.1 (hgate (hbasis q hq).1
        (hgate (hbasis q hq).1 (hgate (hbasis q hq).2.2.1 hi0 ha) h1) h3) h4
      exact ⟨a, b, c0, d⟩
  | measureAll cbits b =>
    simp only [execOp, vecBackend] at h
    have hb := withBasisAll_runs _ h
    dsimp only at hb
    cases b with
    | Z =>
      obtain ⟨⟨a, b, c0⟩, d⟩ := hmall hi0 hb
      exact ⟨a, b, c0, d⟩
    | X =>
      obtain ⟨s1, d1, s2, d2, h1, h2, h3⟩ := hb
      obtain ⟨i2, d⟩ := hmall (hall (fun q hq => (hbasis q hq).1) hi0 h1) h2
      obtain ⟨a, b, c0⟩ := hall (fun q hq => (hbasis q hq).1) i2 h3
      exact ⟨a, b, c0, d⟩
    | Y =>
      obtain ⟨sa, da, s1, d1, s2, d2, sz, dz, ha, h1, h2, h3, h4⟩ := hb
      obtain ⟨i2, d⟩ := hmall (hall (fun q hq => (hbasis q hq).1)
        (hall (fun q hq => (hbasis q hq).2.2.1) hi0 ha) h1) h2
      obtain ⟨a, b, c0⟩ := hall (fun q hq => (hbasis q hq).2.1) (hall (fun q hq => (hbasis q hq).1) i2 h3) h4
      exact ⟨a, b, c0, d⟩
  | peekAll cbits b =>
    simp only [execOp, vecBackend] at h
    have hb := withBasisAll_runs _ h
    dsimp only at hb
    cases b with
    | Z =>
      obtain ⟨⟨a, b, c0⟩, d⟩ := hmall hi0 hb
      exact ⟨a, b, c0, d⟩
    | X =>
      obtain ⟨s1, d1, s2, d2, h1, h2, h3⟩ := hb
      obtain ⟨i2, d⟩ := hmall (hall (fun q hq => (hbasis q hq).1) hi0 h1) h2
      obtain ⟨a, b, c0⟩ := hall (fun q hq => (hbasis q hq).1) i2 h3
      exact ⟨a, b, c0, d⟩
    | Y =>
      obtain ⟨sa, da, s1, d1, s2, d2, sz, dz, ha, h1, h2, h3, h4⟩ := hb
      obtain ⟨i2, d⟩ := hmall (hall (fun q hq => (hbasis q hq).1)
        (hall (fun q hq => (hbasis q hq).2.2.1) hi0 ha) h1) h2
      obtain ⟨a, b, c0⟩ := hall (fun q hq => (hbasis q hq).2.1) (hall (fun q hq => (hbasis q hq).1) i2 h3) h4
      exact ⟨a, b, c0, d⟩

/-- **T1 `wf_invariant`** for a whole circuit -/
theorem execOps_wf (hshape : GateShapeOK α n valid) (hbasis : BasisValid n valid) {N : Nat} :
    ∀ (ops : List (COp P)) (s : VecState α) (c : List Nat), OpsValid valid ops → WFState n N s c →
    ∀ {ds ds' : List Draw} {s' : VecState α} {c' : List Nat},
    Runs sb sc (execOps (vecBackend (α := α) (P := P)) s c ops) ds (.ok (s', c')) ds' → WFState n N s' c' := by
  intro ops
  induction ops with
  | nil =>
    intro s c _ hwf ds ds' s' c' h
    obtain ⟨e, _⟩ := runs_pure_iff.mp h
    simp only [Except.ok.injEq, Prod.mk.injEq] at e
    obtain ⟨rfl, rfl⟩ := e
    exact hwf
  | cons op rest ih =>
    intro s c hv hwf ds ds' s' c' h
    simp only [execOps] at h
    obtain ⟨⟨s1, c1⟩, d1, h1, h2⟩ := runs_bind_ok _ _ h
    exact ih s1 c1 (fun o ho => hv o (List.mem_cons_of_mem _ ho))
      (execOp_wf hshape hbasis (hv op List.mem_cons_self) hwf h1) h2

end
end Q1t.Sim

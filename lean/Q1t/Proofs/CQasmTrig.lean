import Mathlib.Tactic.Ring
import Mathlib.Tactic.LinearCombination
import Q1t.Proofs.AmpLaws
import Q1t.Proofs.UnitariesPrim
import Q1t.Spec.CQ1
import Q1t.Spec.Unitaries
set_option linter.unusedSimpArgs false
/-!
C12, parametrised translations for ALL angles, over any commutative ring `α` with `Amp α P` satisfying `LawfulAmp`
(the abstract trigonometric context; ℂ with `Real.cos`/`Real.sin` is a model, `Proofs/AmpComplex.lean`):

* the native lines `rx ry rz q, θ` mean the documented `RX RY RZ`;
* `U1(λ) ↦ rz q, λ` is right up to the global phase `e^{-iλ/2}`; `CU1(λ) ↦ cr c, t, λ` is exact;
* the `CRY` template `cnot; ry t, -θ/2; cnot; ry t, θ/2` and the `CRX` template (the same between `s t` and `sdag t`),
  on the two 2×2 blocks of the control qubit: identity when the control is 0, `RY(θ)` resp. `RX(θ)` when it is 1.
  (Block level: that `cnot = 1 ⊕ X` and `1 ⊗ A = A ⊕ A` assemble the blocks is not formalised here; the assembled
  4×4 / 8×8 statements are checked numerically by (B) on every run.)
The angles of the template lines are `½θ` and `−½θ` as elements of `P` (`phalf`, `pneg`); the half-angle laws used are
`LawfulHalf` (file UnitariesPrim) and `LawfulNegHalf` below (`(−x)/2 = −(x/2)` under cos and sin).
-/
namespace Q1t.Proofs.CQasm
open Q1t Q1t.Spec Q1t.Proofs.Unitaries

variable {α P : Type} [CommRing α] [Amp α P]

/-- `cos((−x)/2) = cos(x/2)`, `sin((−x)/2) = −sin(x/2)` -/
structure LawfulNegHalf (α P : Type) [CommRing α] [Amp α P] : Prop where
  cos_phalf_pneg : ∀ x : P, (Amp.cos (Amp.phalf α (Amp.pneg α x)) : α) = Amp.cos (Amp.phalf α x)
  sin_phalf_pneg : ∀ x : P, (Amp.sin (Amp.phalf α (Amp.pneg α x)) : α) = -Amp.sin (Amp.phalf α x)

/-! ### native rotations -/

theorem rx_line (θ : P) : (CQ1.mRx θ : LMat α) = specMatrix (.RX θ) := by
  simp [CQ1.mRx, specMatrix, rot, pauliX, LMat.get, List.range_succ]

theorem ry_line (h : LawfulAmp α P) (θ : P) : (CQ1.mRy θ : LMat α) = specMatrix (.RY θ) := by
  simp [CQ1.mRy, specMatrix, rot, pauliY, LMat.get, List.range_succ]
  have := h.I_mul_I
  refine ⟨?_, ?_⟩ <;> grind

theorem rz_line (θ : P) : (CQ1.mRz θ : LMat α) = specMatrix (.RZ θ) := by
  simp [CQ1.mRz, specMatrix, rot, pauliZ, LMat.get, List.range_succ]

/-! ### `U1 ↦ rz` (global phase), `CU1 ↦ cr` (exact) -/

theorem u1_as_rz (h : LawfulAmp α P) (hh : LawfulHalf α P) (l : P) :
    (CQ1.mRz l : LMat α) =
      CQ1.scale (Amp.cos (Amp.phalf α l) - Amp.I P * Amp.sin (Amp.phalf α l)) (specMatrix (.U1 l)) := by
  have e1 := hh.cos_phalf_twice l; have e2 := hh.sin_phalf_twice l
  simp only [h.cos_padd, h.sin_padd] at e1 e2
  simp only [CQ1.mRz, specMatrix, expi, CQ1.scale, List.map]
  rw [← e1, ← e2]
  have h1 := h.I_mul_I
  have h2 := h.cos_sq_add_sin_sq (Amp.phalf α l)
  refine mat2_ext ?_ ?_ ?_ ?_ <;> grind

theorem cu1_as_cr (l : P) :
    (CQ1.mCPhase (Amp.cos l + Amp.I P * Amp.sin l) : LMat α) = specMatrix (.C (.U1 l)) := by
  simp [CQ1.mCPhase, specMatrix, Spec.ctrl, expi, List.range_succ, List.replicate]

/-! ### the `CRY` / `CRX` templates, block by block -/

/-- control = 1: `ry(θ/2) · X · ry(−θ/2) · X = RY(θ)` -/
theorem cry_block_on (h : LawfulAmp α P) (hh : LawfulHalf α P) (hn : LawfulNegHalf α P) (θ : P) :
    LMat.mul (CQ1.mRy (Amp.phalf α θ)) (LMat.mul CQ1.mX (LMat.mul (CQ1.mRy (Amp.pneg α (Amp.phalf α θ))) CQ1.mX)) =
      (CQ1.mRy θ : LMat α) := by
  have e1 := hh.cos_phalf_twice (Amp.phalf α θ); have e2 := hh.sin_phalf_twice (Amp.phalf α θ)
  simp only [h.cos_padd, h.sin_padd] at e1 e2
  simp only [CQ1.mRy, CQ1.mX, lmul_two, hn.cos_phalf_pneg, hn.sin_phalf_pneg]
  rw [← e1, ← e2]
  refine mat2_ext ?_ ?_ ?_ ?_ <;> ring

/-- control = 0: `ry(θ/2) · ry(−θ/2) = 1` -/
theorem cry_block_off (h : LawfulAmp α P) (hn : LawfulNegHalf α P) (θ : P) :
    LMat.mul (CQ1.mRy (Amp.phalf α θ)) (CQ1.mRy (Amp.pneg α (Amp.phalf α θ))) = (CQ1.mI : LMat α) := by
  simp only [CQ1.mRy, CQ1.mI, lmul_two, hn.cos_phalf_pneg, hn.sin_phalf_pneg]
  have h2 := h.cos_sq_add_sin_sq (Amp.phalf α (Amp.phalf α θ))
  refine mat2_ext ?_ ?_ ?_ ?_ <;> grind

/-- `sdag · RY(θ) · s = RX(θ)` (the `CRX` template is the `CRY` template between `s t` and `sdag t`) -/
theorem crx_conjugation (h : LawfulAmp α P) (θ : P) :
    LMat.mul (CQ1.mSdag (P := P)) (LMat.mul (CQ1.mRy θ) (CQ1.mS (P := P))) = (CQ1.mRx θ : LMat α) := by
  simp only [CQ1.mSdag, CQ1.mS, CQ1.mRy, CQ1.mRx, lmul_two]
  have h1 := h.I_mul_I
  refine mat2_ext ?_ ?_ ?_ ?_ <;> grind

/-- `sdag · s = 1` (control = 0 block of the `CRX` template, around `cry_block_off`) -/
theorem crx_block_off (h : LawfulAmp α P) :
    LMat.mul (CQ1.mSdag (P := P)) (CQ1.mS (P := P)) = (CQ1.mI : LMat α) := by
  simp only [CQ1.mSdag, CQ1.mS, CQ1.mI, lmul_two]
  have h1 := h.I_mul_I
  refine mat2_ext ?_ ?_ ?_ ?_ <;> grind

/-! ### `CCRZ`: what the template builds on the block where both controls are 1 is `U1(λ)`, not `RZ(λ)`.
`cr(λ/2)·X·cr(−λ/2)·X·cr(λ/2)` restricted to the target with both controls 1 multiplies `|1⟩` by
`e^{iλ/2}·e^{iλ/2}` and `|0⟩` by 1, whereas `RZ(λ) = diag(e^{-iλ/2}, e^{iλ/2})`; the other blocks are the identity in both,
so the difference `e^{-iλ/2}` is a RELATIVE phase.  Stated on the diagonal entries. -/
theorem ccrz_block_is_u1 (h : LawfulAmp α P) (hh : LawfulHalf α P) (l : P) :
    let e : α := Amp.cos (Amp.phalf α l) + Amp.I P * Amp.sin (Amp.phalf α l)
    ([[1, 0], [0, e * e]] : LMat α) = specMatrix (.U1 l) := by
  have e1 := hh.cos_phalf_twice l; have e2 := hh.sin_phalf_twice l
  simp only [h.cos_padd, h.sin_padd] at e1 e2
  simp only [specMatrix, expi]
  rw [← e1, ← e2]
  have h1 := h.I_mul_I
  refine mat2_ext rfl rfl rfl ?_
  grind

end Q1t.Proofs.CQasm

import Q1t.Spec.OQ2Obligation
/-! C11: constant library gates whose translation is checked exactly (`decide +kernel` over `ℚ(ζ₈)`), part A:
the one-qubit gates. -/
namespace Q1t.OpenQasm
set_option maxRecDepth 100000
theorem const_one_qubit_ok :
    ["H", "X", "Y", "Z", "S", "Sdg", "T", "Tdg", "V", "Vdg", "I"].all (constOK libTable) = true := by
  decide +kernel
end Q1t.OpenQasm

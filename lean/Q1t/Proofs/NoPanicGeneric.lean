import Q1t.Proofs.NoPanicExec
import Q1t.Model.StabSim
/-!
C18, execution, generically in the representation: `BackendSafe B okErr allowed Inv n N` lists, for every
operation of `trait QuState` that `do_execute_with` uses, that on a state satisfying `Inv` and operands
inside the class `WellFormed` describes it returns a state satisfying `Inv` again (or an error in `okErr`,
or a panic at a site in `allowed`).  `execOps_safe` lifts this to whole circuits; the register keeps one
word per shot.  The vector representation is an instance (`vecBackendSafe`, proved in `NoPanic.lean` from
`RouteTotal`); for the stabilizer representation the record is the obligation left to C03.
-/
set_option linter.unusedSectionVars false
set_option linter.unusedVariables false
namespace Q1t.Sim
open Q1t Q1t.Builders Q1t.WellFormed

variable {W P S : Type}

structure BackendSafe (B : Backend W P S) (okErr : SimErr → Prop) (allowed : String → Prop) (Inv : S → Prop)
    (n N : Nat) (V : GateTerm P → List Nat → Prop) : Prop where
  applyGate : ∀ s g bits, Inv s → V g bits → Safe okErr allowed Inv (B.applyGate s g bits)
  applyUnaryAll : ∀ s g, Inv s → (∀ q, q < n → V g [q]) → Safe okErr allowed Inv (B.applyUnaryAll s g)
  applyConditional : ∀ s control g bits, Inv s → control.length = N → V g bits →
    Safe okErr allowed Inv (B.applyConditional s control g bits)
  measureInto : ∀ s q cb res, Inv s → q < n → cb < 64 → res.length = N →
    Safe okErr allowed (fun x : S × List Nat => Inv x.1 ∧ x.2.length = N) (B.measureInto s q cb res)
  measureAllInto : ∀ s cbits res, Inv s → cbits.length = n → (∀ b ∈ cbits, b < 64) → res.length = N →
    Safe okErr allowed (fun x : S × List Nat => Inv x.1 ∧ x.2.length = N) (B.measureAllInto s cbits res)
  peekInto : ∀ s q cb res, Inv s → q < n → cb < 64 → res.length = N →
    Safe okErr allowed (fun r : List Nat => r.length = N) (B.peekInto s q cb res)
  peekAllInto : ∀ s cbits res, Inv s → cbits.length = n → (∀ b ∈ cbits, b < 64) → res.length = N →
    Safe okErr allowed (fun x : S × List Nat => Inv x.1 ∧ x.2.length = N) (B.peekAllInto s cbits res)
  reset : ∀ s q, Inv s → q < n → Safe okErr allowed Inv (B.reset s q)
  resetAll : ∀ s, Inv s → Inv (B.resetAll s)

/-- the gate of an operation (if any) satisfies `E` -/
def opGate (E : GateTerm P → Prop) : COp P → Prop
  | .gate g _ | .cond _ _ g _ => E g
  | _ => True

/-- how the placements the backend handles (`V`) relate to the class `WellFormed` describes: every `ValidPlace`
of a gate in `E`, and the basis-change gates of the executor -/
structure Handles (n : Nat) (E : GateTerm P → Prop) (V : GateTerm P → List Nat → Prop) : Prop where
  place : ∀ g bits, ValidPlace n g bits → E g → V g bits
  basis : ∀ q, q < n → V .H [q] ∧ V .S [q] ∧ V .Sdg [q]

section generic
variable {B : Backend W P S} {okErr : SimErr → Prop} {allowed : String → Prop} {Inv : S → Prop} {n N nc : Nat}
variable {E : GateTerm P → Prop} {V : GateTerm P → List Nat → Prop}

/-- postcondition of an executed operation -/
abbrev QG (Inv : S → Prop) (N : Nat) : S × List Nat → Prop := fun x => Inv x.1 ∧ x.2.length = N

theorem withBasis1_safeG (hB : BackendSafe B okErr allowed Inv n N V) (hH' : Handles n E V) {s : S} (hs : Inv s)
    {q : Nat} (hq : q < n)
    (b : Basis) (body : S → Prog W (S × List Nat)) (hbody : ∀ st, Inv st → Safe okErr allowed (QG Inv N) (body st)) :
    Safe okErr allowed (QG Inv N) (withBasis1 B s q b body) := by
  have hH : ∀ st, Inv st → Safe okErr allowed Inv (B.applyGate st .H [q]) := fun st h =>
    hB.applyGate st _ _ h (hH'.basis q hq).1
  have hS : ∀ st, Inv st → Safe okErr allowed Inv (B.applyGate st .S [q]) := fun st h =>
    hB.applyGate st _ _ h (hH'.basis q hq).2.1
  have hSdg : ∀ st, Inv st → Safe okErr allowed Inv (B.applyGate st .Sdg [q]) := fun st h =>
    hB.applyGate st _ _ h (hH'.basis q hq).2.2
  cases b with
  | Z => exact hbody s hs
  | X =>
    simp only [withBasis1, prog_bind_eq, prog_pure_eq]
    refine (hH s hs).bind fun s1 h1 => (hbody s1 h1).bind ?_
    rintro ⟨s2, r⟩ ⟨h2, hr⟩
    exact (hH s2 h2).bind fun s3 h3 => .pure ⟨h3, hr⟩
  | Y =>
    simp only [withBasis1, prog_bind_eq, prog_pure_eq]
    refine (hSdg s hs).bind fun sa ha => (hH sa ha).bind fun s1 h1 => (hbody s1 h1).bind ?_
    rintro ⟨s2, r⟩ ⟨h2, hr⟩
    exact (hH s2 h2).bind fun s3 h3 => (hS s3 h3).bind fun s4 h4 => .pure ⟨h4, hr⟩

theorem withBasisAll_safeG (hB : BackendSafe B okErr allowed Inv n N V) (hH' : Handles n E V) {s : S} (hs : Inv s)
    (b : Basis) (body : S → Prog W (S × List Nat)) (hbody : ∀ st, Inv st → Safe okErr allowed (QG Inv N) (body st)) :
    Safe okErr allowed (QG Inv N) (withBasisAll B s b body) := by
  have hH : ∀ st, Inv st → Safe okErr allowed Inv (B.applyUnaryAll st .H) := fun st h =>
    hB.applyUnaryAll st _ h fun q hq => (hH'.basis q hq).1
  have hS : ∀ st, Inv st → Safe okErr allowed Inv (B.applyUnaryAll st .S) := fun st h =>
    hB.applyUnaryAll st _ h fun q hq => (hH'.basis q hq).2.1
  have hSdg : ∀ st, Inv st → Safe okErr allowed Inv (B.applyUnaryAll st .Sdg) := fun st h =>
    hB.applyUnaryAll st _ h fun q hq => (hH'.basis q hq).2.2
  cases b with
  | Z => exact hbody s hs
  | X =>
    simp only [withBasisAll, prog_bind_eq, prog_pure_eq]
    refine (hH s hs).bind fun s1 h1 => (hbody s1 h1).bind ?_
    rintro ⟨s2, r⟩ ⟨h2, hr⟩
    exact (hH s2 h2).bind fun s3 h3 => .pure ⟨h3, hr⟩
  | Y =>
    simp only [withBasisAll, prog_bind_eq, prog_pure_eq]
    refine (hSdg s hs).bind fun sa ha => (hH sa ha).bind fun s1 h1 => (hbody s1 h1).bind ?_
    rintro ⟨s2, r⟩ ⟨h2, hr⟩
    exact (hH s2 h2).bind fun s3 h3 => (hS s3 h3).bind fun s4 h4 => .pure ⟨h4, hr⟩

theorem execOp_safe (hB : BackendSafe B okErr allowed Inv n N V) (hH' : Handles n E V) {s : S} (hs : Inv s)
    {c : List Nat} (hc : c.length = N) {op : COp P} (hop : OpGood n nc op) (hE : opGate E op) :
    Safe okErr allowed (QG Inv N) (execOp B s c op) := by
  obtain ⟨hin, hdef⟩ := hop
  cases op with
  | gate g bits =>
    obtain ⟨h1, h2, h3⟩ := gateDefects_exec (by simpa [opDefects] using hdef)
    simp only [execOp]
    exact (hB.applyGate s g bits hs (hH'.place g bits ⟨h1, h2, h3, hin⟩ hE)).bind fun s' hs' => .pure ⟨hs', hc⟩
  | cond control target g bits =>
    simp only [opDefects, List.mem_append] at hdef
    obtain ⟨h1, h2, h3⟩ := gateDefects_exec (fun d hd => hdef d (Or.inl (Or.inr hd)))
    have hcb := cbitsDefects_exec (fun d hd => hdef d (Or.inl (Or.inl (Or.inl hd))))
    have hlen : control.length ≤ 64 := by
      apply Classical.byContradiction; intro hgt
      have := hdef .controlsGt64 (Or.inl (Or.inl (Or.inr (by simp; omega))))
      simp [Defect.exec] at this
    obtain ⟨ws, hws, hwl⟩ := controlWords_some control hcb hlen c
    simp only [execOp, hws]
    exact (hB.applyConditional s _ g bits hs (by simp [hwl, hc]) (hH'.place g bits ⟨h1, h2, h3, hin.2⟩ hE)).bind fun s' hs' => .pure ⟨hs', hc⟩
  | reset q =>
    simp only [execOp]
    exact (hB.reset s q hs hin).bind fun s' hs' => .pure ⟨hs', hc⟩
  | resetAll =>
    simp only [execOp]
    exact .pure ⟨hB.resetAll s hs, hc⟩
  | barrier bits =>
    simp only [execOp]
    exact .pure ⟨hs, hc⟩
  | measure q cb b =>
    have hcb := cbitsDefects_exec (cbits := [cb]) (by simpa [opDefects] using hdef) cb (by simp)
    simp only [execOp]
    exact withBasis1_safeG hB hH' hs hin.1 b _ fun st hst => hB.measureInto st q cb c hst hin.1 hcb hc
  | peek q cb b =>
    have hcb := cbitsDefects_exec (cbits := [cb]) (by simpa [opDefects] using hdef) cb (by simp)
    simp only [execOp]
    exact withBasis1_safeG hB hH' hs hin.1 b _ fun st hst =>
      (hB.peekInto st q cb c hst hin.1 hcb hc).bind fun r hr => .pure ⟨hst, hr⟩
  | measureAll cbits b =>
    simp only [opDefects, List.mem_append] at hdef
    have hcb := cbitsDefects_exec (fun d hd => hdef d (Or.inr hd))
    have hlen : cbits.length = n := by
      apply Classical.byContradiction; intro hne
      have := hdef .measureAllLen (Or.inl (by simp [hne]))
      simp [Defect.exec] at this
    simp only [execOp]
    exact withBasisAll_safeG hB hH' hs b _ fun st hst => hB.measureAllInto st cbits c hst hlen hcb hc
  | peekAll cbits b =>
    simp only [opDefects, List.mem_append] at hdef
    have hcb := cbitsDefects_exec (fun d hd => hdef d (Or.inr hd))
    have hlen : cbits.length = n := by
      apply Classical.byContradiction; intro hne
      have := hdef .measureAllLen (Or.inl (by simp [hne]))
      simp [Defect.exec] at this
    simp only [execOp]
    exact withBasisAll_safeG hB hH' hs b _ fun st hst => hB.peekAllInto st cbits c hst hlen hcb hc

/-- **`do_execute_with`**, any representation -/
theorem execOps_safe (hB : BackendSafe B okErr allowed Inv n N V) (hH' : Handles n E V) :
    ∀ (ops : List (COp P)) (s : S) (c : List Nat), Inv s → c.length = N →
      (∀ op ∈ ops, OpGood n nc op) → (∀ op ∈ ops, opGate E op) → Safe okErr allowed (QG Inv N) (execOps B s c ops) := by
  intro ops
  induction ops with
  | nil => intro s c hs hc _ _; exact .pure ⟨hs, hc⟩
  | cons op rest ih =>
    intro s c hs hc hops hE
    simp only [execOps]
    refine (execOp_safe hB hH' hs hc (hops op List.mem_cons_self) (hE op List.mem_cons_self)).bind ?_
    rintro ⟨s', c'⟩ ⟨hs', hc'⟩
    exact ih s' c' hs' hc' (fun o ho => hops o (List.mem_cons_of_mem _ ho)) (fun o ho => hE o (List.mem_cons_of_mem _ ho))

end generic

/-- the vector representation satisfies the record (given `RouteTotal` and at least one shot) -/
theorem vecBackendSafe {α : Type} [Zero α] [One α] [Add α] [Mul α] [Neg α] [Sub α] [Amp α P] [SimAmp α] {n N : Nat}
    (ht : RouteTotal α (P := P) n) (hN : 0 < N) :
    BackendSafe (vecBackend (α := α) (P := P)) noErr numericOnly (VInv n N) n N (ValidPlace n) where
  applyGate := fun s g bits hs hv => applyGate_safe ht hs hv
  applyUnaryAll := fun s g hs hv => by
    unfold vecBackend VecState.applyUnaryAll
    refine Safe.foldl_bind (fun st bit => VecState.applyGate st g [bit]) _ _ (.pure hs) ?_
    intro bit hbit st hst
    exact applyGate_safe ht hst (hv bit (by rw [hs.nrBits] at hbit; simpa using hbit))
  applyConditional := fun s control g bits hs hc hv => applyConditional_safe ht hs hc hv
  measureInto := fun s q cb res hs hq hcb hres => measureInto_safe hs hq hcb hres
  measureAllInto := fun s cbits res hs hl hcb hres => measureAllHelper_safe hs hl hcb hres true
  peekInto := fun s q cb res hs hq hcb hres => peekInto_safe hs hq hcb hres
  peekAllInto := fun s cbits res hs hl hcb hres => measureAllHelper_safe hs hl hcb hres false
  reset := fun s q hs hq => reset_safe ht hs hq
  resetAll := fun s hs => resetAll_vinv hs hN

/-! ### circuits the builders accepted -/

theorem accepted_inRange (c : Circ P) (calls : List (Call P)) : ∀ op ∈ accepted c calls, opInRange c.nq c.nc op := by
  induction calls generalizing c with
  | nil => simp [accepted]
  | cons call rest ih =>
    intro op hop
    simp only [accepted] at hop
    have hsz := step_sizes c call
    have ih' := ih (step c call).1
    rw [hsz.1, hsz.2] at ih'
    cases hr : (step c call).2 with
    | ok u =>
      cases u
      rw [hr] at hop
      rcases List.mem_cons.mp hop with rfl | hop
      · exact op_inRange_of_call c call ((step_ok_iff c call).mp hr)
      · exact ih' op hop
    | error f =>
      rw [hr] at hop
      exact ih' op hop

/-- every operation of a circuit built through the public calls has its indices in range -/
theorem built_inRange (nq nc : Nat) (calls : List (Call P)) :
    ∀ op ∈ (runCalls (Circ.new nq nc) calls).1.ops, opInRange nq nc op := by
  intro op hop
  rw [(runCalls_ops (Circ.new nq nc) calls).1] at hop
  simpa [Circ.new] using accepted_inRange (Circ.new nq nc) calls op (by simpa [Circ.new] using hop)

/-- the vector representation handles every `ValidPlace` -/
theorem vecHandles (n : Nat) : Handles (P := P) n (fun _ => True) (ValidPlace n) where
  place := fun g bits hv _ => hv
  basis := fun q hq => ⟨⟨by simp [gateOK], by simp [Gate.nrBits], by simp [hasDup], by simpa using hq⟩,
    ⟨by simp [gateOK], by simp [Gate.nrBits], by simp [hasDup], by simpa using hq⟩,
    ⟨by simp [gateOK], by simp [Gate.nrBits], by simp [hasDup], by simpa using hq⟩⟩

theorem execWF_opGood {c : Circ P} {shots : Nat} (h : ExecWF c shots = true)
    (hin : ∀ op ∈ c.ops, opInRange c.nq c.nc op) : 0 < shots ∧ ∀ op ∈ c.ops, OpGood c.nq c.nc op := by
  simp only [ExecWF, Bool.and_eq_true, decide_eq_true_eq, List.all_eq_true] at h
  refine ⟨h.1.1, fun op hop => ⟨hin op hop, fun d hd => ?_⟩⟩
  have := h.2 op hop d hd
  simpa using this

end Q1t.Sim

import Q1t.Proofs.SimStab
/-!
C02, stabilizer backend: the per-shot refinement RELATIVE TO A TABLEAU CONTRACT.

`TableauOK St n ph conjOf valid` states what the tableau operations mean, for an abstract relation `St t ψ`
("the tableau `t` describes the non-zero vector `ψ`, up to a scalar"): `Tab.new` describes `|0…0⟩`; `Tab.applyGate`
on a valid instance follows the embedded documented unitary; a `deterministic v` classification of `Tab.measure`
means that the projector on `v` fixes `ψ`; a `random` one that both outcomes have non-zero weight and that
`Tab.collapse` follows the projector; `Tab.reset` follows one of the two branches of the reference reset (for a
random classification the code FORCES outcome 0 — D4 — which is still a possible run).  These are exactly the
statements of C03 (where they are proved they discharge the contract; nothing here depends on how).

Under the contract every operation of `do_execute_with` on the stabilizer backend except `peek_all` (D5: it
samples the qubits independently, see `Props/C02.stab_peek_all_bell_impossible_value`) and `measure_all`
(not done here) refines one step of the forced replay shot by shot, and `stab_shot_refinement` follows by the
same induction as for the vector backend.
-/
set_option linter.unusedSectionVars false
namespace Q1t.Sim
open Q1t Q1t.Spec Prog Q1t.Tableau

section
variable {α P : Type} [CommRing α] [Amp α P] [SimAmp α]
variable {sb : Nat → α → Nat → Prop} {sc : List α → Nat → Prop}
variable {half : α} {ph : List Nat} {conjOf : GateTerm P → Tab.Conj}
variable {n : Nat} {valid : GateTerm P → List Nat → Prop} {nz : α → Prop}

/-- the tableau contract (to be discharged by C03) -/
structure TableauOK (St : Tab → List α → Prop) (n : Nat) (ph : List Nat) (conjOf : GateTerm P → Tab.Conj)
    (valid : GateTerm P → List Nat → Prop) : Prop where
  init : St (Tab.new n) (ket0 n)
  scale : ∀ t ψ (a b : α), a * b = 1 → St t ψ → St t (ψ.map (· * a))
  weight : ∀ t ψ, St t ψ → ψ.length = 2 ^ n ∧ ∃ u : α, normSqSum ψ * u = 1
  gate : ∀ g bits, valid g bits → ∀ t t' ψ, St t ψ → Tab.applyGate ph (conjOf g) t bits = .ok t' →
    St t' (gateOn n g bits ψ)
  basis : ∀ q, q < n → valid .H [q] ∧ valid .S [q] ∧ valid .Sdg [q]
  det : ∀ t ψ q v, St t ψ → Tab.measure t q = .ok (.deterministic v) → project n q v ψ = ψ
  rand : ∀ t ψ q i, St t ψ → Tab.measure t q = .ok (.random i) → ∀ o,
    (∃ u : α, normSqSum (project n q o ψ) * u = 1) ∧ ∀ t', Tab.collapse ph t i q o = .ok t' → St t' (project n q o ψ)
  reset : ∀ t t' ψ q, St t ψ → Tab.reset ph t q = .ok t' →
    St t' (project n q false ψ) ∨ St t' (gateOn (P := P) n .X [q] (project n q true ψ))

/-- one operation on the stabilizer backend refines one step of the forced replay, shot by shot -/
def StabStepRefines (St : Tab → List α → Prop) (n : Nat) (nonzero : List α → Bool) (op : COp P) (s : StabState)
    (c : List Nat) (s' : StabState) (c' : List Nat) : Prop :=
  ∀ (i : Nat) (t : Tab) (w : Nat) (ψ : List α), (shotTabs s)[i]? = some t → c[i]? = some w → w < 2 ^ 64 → St t ψ →
    ∃ t' w' φ, (shotTabs s')[i]? = some t' ∧ c'[i]? = some w' ∧ w' < 2 ^ 64 ∧
      (φ, w') ∈ replayOp n nonzero op ψ w w' ∧ St t' φ

variable {St : Tab → List α → Prop}

/-- one `apply_gate` on a valid instance, per shot -/
theorem stab_gate_step (hT : TableauOK St n ph conjOf valid) {N : Nat} {g : GateTerm P} {bits : List Nat}
    (hv : valid g bits) {s s' : StabState} {c : List Nat} (hwf : WFT n N s c) {d d' : List Draw}
    (hr : Runs sb sc (StabState.applyGate (α := α) ph conjOf s g bits) d (.ok s') d') :
    WFT n N s' c ∧ ∀ (i : Nat) (t : Tab) (ψ : List α), (shotTabs s)[i]? = some t → St t ψ →
      ∃ t', (shotTabs s')[i]? = some t' ∧ St t' (gateOn n g bits ψ) := by
  obtain ⟨_, e1, e2, e3, hf⟩ := stab_applyGate_runs hr
  refine ⟨⟨by rw [e1, ← hf.length_eq]; exact hwf.len, by rw [e1]; exact hwf.sum, e2.trans hwf.nrBits,
    e3.trans hwf.nrShots, hwf.reg⟩, ?_⟩
  intro i t ψ ht hst
  have hs := forall₂_expand s.counts _ _ hf
  obtain ⟨t', ht', hg⟩ := forall₂_getElem? hs i t ht
  exact ⟨t', by rw [shotTabs, e1]; exact ht', hT.gate g bits hv t t' ψ hst hg⟩

theorem stab_applyGate_nrBits {g : GateTerm P} {bits : List Nat} {s s' : StabState} {d d' : List Draw}
    (hr : Runs sb sc (StabState.applyGate (α := α) ph conjOf s g bits) d (.ok s') d') : s'.nrBits = s.nrBits :=
  (stab_applyGate_runs hr).2.2.1

/-! ### gate, conditional gate, barrier, reset, reset_all -/

theorem stab_refine_gate (hT : TableauOK St n ph conjOf valid) {nonzero : List α → Bool} {N : Nat}
    {s : StabState} {c : List Nat} {g : GateTerm P} {bits : List Nat} (hv : valid g bits) (hwf : WFT n N s c)
    {ds ds' : List Draw} {s' : StabState} {c' : List Nat}
    (h : Runs sb sc (execOp (stabBackend half ph conjOf) s c (.gate g bits)) ds (.ok (s', c')) ds') :
    WFT n N s' c' ∧ StabStepRefines St n nonzero (.gate g bits) s c s' c' := by
  simp only [execOp, stabBackend] at h
  obtain ⟨s1, d1, h1, h2⟩ := runs_bind_ok _ _ h
  obtain ⟨e, _⟩ := runs_pure_iff.mp h2
  simp only [Except.ok.injEq, Prod.mk.injEq] at e
  obtain ⟨rfl, rfl⟩ := e
  obtain ⟨hwf', hs⟩ := stab_gate_step hT hv hwf h1
  refine ⟨hwf', fun i t w ψ ht hw hwb hst => ?_⟩
  obtain ⟨t', ht', hst'⟩ := hs i t ψ ht hst
  exact ⟨t', w, _, ht', hw, hwb, by simp [replayOp], hst'⟩

theorem stab_refine_barrier {nonzero : List α → Bool} {N : Nat} {s : StabState} {c : List Nat} {bits : List Nat}
    (hwf : WFT n N s c) {ds ds' : List Draw} {s' : StabState} {c' : List Nat}
    (h : Runs sb sc (execOp (stabBackend half ph conjOf) s c (.barrier bits)) ds (.ok (s', c')) ds') :
    WFT n N s' c' ∧ StabStepRefines St n nonzero (.barrier bits : COp P) s c s' c' := by
  simp only [execOp] at h
  obtain ⟨e, _⟩ := runs_pure_iff.mp h
  simp only [Except.ok.injEq, Prod.mk.injEq] at e
  obtain ⟨rfl, rfl⟩ := e
  exact ⟨hwf, fun i t w ψ ht hw hwb hst => ⟨t, w, ψ, ht, hw, hwb, by simp [replayOp], hst⟩⟩

theorem stab_refine_cond (hT : TableauOK St n ph conjOf valid) {nonzero : List α → Bool} {N : Nat}
    {s : StabState} {c : List Nat} {control : List Nat} {target : Nat} {g : GateTerm P} {bits : List Nat}
    (hv : valid g bits) (hwf : WFT n N s c) {ds ds' : List Draw} {s' : StabState} {c' : List Nat}
    (h : Runs sb sc (execOp (stabBackend half ph conjOf) s c (.cond control target g bits)) ds (.ok (s', c')) ds') :
    WFT n N s' c' ∧ StabStepRefines St n nonzero (.cond control target g bits) s c s' c' := by
  simp only [execOp, stabBackend] at h
  split at h
  · exact absurd h runs_panic_ok
  rename_i ws hws
  obtain ⟨s1, d1, h1, h2⟩ := runs_bind_ok _ _ h
  obtain ⟨e, _⟩ := runs_pure_iff.mp h2
  simp only [Except.ok.injEq, Prod.mk.injEq] at e
  obtain ⟨rfl, rfl⟩ := e
  obtain ⟨_, _, hwf', hs⟩ := stab_applyConditional_runs hwf h1
  refine ⟨hwf', fun i t w ψ ht hw hwb hst => ?_⟩
  obtain ⟨cw, hcw, hwsi⟩ := mapM_option_getElem? _ _ hws i w hw
  obtain ⟨t', ht', hb⟩ := hs i t (cw == target) ht (by rw [List.getElem?_map, hwsi]; rfl)
  by_cases htg : cw = target
  · have hbt : (cw == target) = true := by simp [htg]
    rw [hbt, if_pos rfl] at hb
    exact ⟨t', w, gateOn n g bits ψ, ht', hw, hwb, by simp [replayOp, hcw, htg], hT.gate g bits hv t t' ψ hst hb⟩
  · have hbt : (cw == target) = false := by simp [htg]
    rw [hbt] at hb
    simp only [Bool.false_eq_true, if_false] at hb
    subst hb
    exact ⟨t', w, ψ, ht', hw, hwb, by simp [replayOp, hcw, htg], hst⟩

theorem stab_refine_reset (hT : TableauOK St n ph conjOf valid) {nonzero : List α → Bool} {N : Nat}
    {s : StabState} {c : List Nat} {q : Nat} (hwf : WFT n N s c)
    {ds ds' : List Draw} {s' : StabState} {c' : List Nat}
    (h : Runs sb sc (execOp (stabBackend half ph conjOf) s c (.reset q)) ds (.ok (s', c')) ds') :
    WFT n N s' c' ∧ StabStepRefines St n nonzero (.reset q : COp P) s c s' c' := by
  simp only [execOp, stabBackend] at h
  obtain ⟨s1, d1, h1, h2⟩ := runs_bind_ok _ _ h
  obtain ⟨e, _⟩ := runs_pure_iff.mp h2
  simp only [Except.ok.injEq, Prod.mk.injEq] at e
  obtain ⟨rfl, rfl⟩ := e
  obtain ⟨_, e1, e2, e3, hf⟩ := stab_reset_runs h1
  refine ⟨⟨by rw [e1, ← hf.length_eq]; exact hwf.len, by rw [e1]; exact hwf.sum, e2.trans hwf.nrBits,
    e3.trans hwf.nrShots, hwf.reg⟩, fun i t w ψ ht hw hwb hst => ?_⟩
  have hs := forall₂_expand s.counts _ _ hf
  obtain ⟨t', ht', hg⟩ := forall₂_getElem? hs i t ht
  have ht'' : (shotTabs s')[i]? = some t' := by rw [shotTabs, e1]; exact ht'
  rcases hT.reset t t' ψ q hst hg with h0 | h1'
  · exact ⟨t', w, _, ht'', hw, hwb, by simp [replayOp], h0⟩
  · exact ⟨t', w, _, ht'', hw, hwb, by simp [replayOp], h1'⟩

theorem stab_refine_resetAll (hT : TableauOK St n ph conjOf valid) (ha : LawfulAmp α P) (hs : LawfulSim α P nz)
    (hloc : LocalWeights α) {nonzero : List α → Bool} {N : Nat}
    {s : StabState} {c : List Nat} (hwf : WFT n N s c)
    {ds ds' : List Draw} {s' : StabState} {c' : List Nat}
    (h : Runs sb sc (execOp (stabBackend half ph conjOf) s c .resetAll) ds (.ok (s', c')) ds') :
    WFT n N s' c' ∧ StabStepRefines St n nonzero (.resetAll : COp P) s c s' c' := by
  simp only [execOp, stabBackend] at h
  obtain ⟨e, _⟩ := runs_pure_iff.mp h
  simp only [Except.ok.injEq, Prod.mk.injEq] at e
  obtain ⟨rfl, rfl⟩ := e
  refine ⟨⟨rfl, by simp [StabState.resetAll, hwf.nrShots], hwf.nrBits, hwf.nrShots, hwf.reg⟩,
    fun i t w ψ ht hw hwb hst => ?_⟩
  have hi : i < N := by rw [← hwf.reg]; exact (List.getElem?_eq_some_iff.mp hw).1
  obtain ⟨hlen, hunit⟩ := hT.weight t ψ hst
  obtain ⟨φ, hmem, hinv⟩ := resetAll_cand (P := P) hs (gateSemOK_basis ha hs n) hloc hlen hunit n (Nat.le_refl n)
  have hrel := rel_ket0_of_resetInv ha hs hinv
  obtain ⟨a, b, hab, hk, _⟩ := hrel.unit ha hs
  have hφ : φ = (ket0 (α := α) n).map (· * b) := by
    rw [hk, map_mul_mul, hab]; simp
  refine ⟨Tab.new n, w, φ, ?_, hw, hwb, ?_, ?_⟩
  · simp only [shotTabs, StabState.resetAll, expand, List.append_nil, hwf.nrShots, hwf.nrBits]
    rw [List.getElem?_replicate, if_pos hi]
  · simp only [replayOp, ne_eq, not_true_eq_false, if_false, List.mem_map]
    exact ⟨φ, hmem, rfl⟩
  · rw [hφ]
    exact hT.scale _ _ b a (by rw [mul_comm]; exact hab) hT.init

/-! ### single-qubit measurement and peek -/

theorem stab_measureInto_lt {st : StabState} {q cb : Nat} {c : List Nat} {d d' : List Draw}
    {x : StabState × List Nat} (h : Runs sb sc (StabState.measureInto half ph st q cb c) d (.ok x) d') :
    q < st.nrBits := by
  unfold StabState.measureInto at h
  split at h
  · exact absurd h runs_err_ok
  · omega

theorem stab_peekInto_lt {st : StabState} {q cb : Nat} {c : List Nat} {d d' : List Draw}
    {x : List Nat} (h : Runs sb sc (StabState.peekInto half st q cb c) d (.ok x) d') :
    q < st.nrBits := by
  unfold StabState.peekInto at h
  split at h
  · exact absurd h runs_err_ok
  · omega

theorem stab_measure_core (hT : TableauOK St n ph conjOf valid) {N : Nat} {st st' : StabState} {c r : List Nat}
    {q cb : Nat} (hwf : WFT n N st c) {d d' : List Draw}
    (hr : Runs sb sc (StabState.measureInto half ph st q cb c) d (.ok (st', r)) d') :
    q < n ∧ cb < 64 ∧ WFT n N st' r ∧
    ∀ (i : Nat) (t : Tab) (w : Nat) (ψ : List α), (shotTabs st)[i]? = some t → c[i]? = some w → St t ψ →
      ∃ o t', r[i]? = some (setBitTo w cb o) ∧ (shotTabs st')[i]? = some t' ∧ St t' (project n q o ψ) := by
  obtain ⟨hq, hcb, hwf', hs⟩ := stab_measureInto_runs hwf hr
  refine ⟨hq, hcb, hwf', fun i t w ψ ht hw hst => ?_⟩
  obtain ⟨o, t', hstep, h1, h2⟩ := hs i t w ht hw
  refine ⟨o, t', h1, h2, ?_⟩
  rcases hstep with ⟨hm, he⟩ | ⟨k, hm, hc⟩
  · simp only at hm he
    subst he
    rw [hT.det _ ψ q o hst hm]; exact hst
  · exact ((hT.rand t ψ q k hst hm o).2 t' hc)

theorem stab_peek_core (hT : TableauOK St n ph conjOf valid) {N : Nat} {st : StabState} {c r : List Nat}
    {q cb : Nat} (hwf : WFT n N st c) {d d' : List Draw}
    (hr : Runs sb sc (StabState.peekInto half st q cb c) d (.ok r) d') :
    q < n ∧ cb < 64 ∧ r.length = N ∧
    ∀ (i : Nat) (t : Tab) (w : Nat) (ψ : List α), (shotTabs st)[i]? = some t → c[i]? = some w → St t ψ →
      ∃ o, r[i]? = some (setBitTo w cb o) ∧ ∃ u : α, normSqSum (project n q o ψ) * u = 1 := by
  obtain ⟨hq, hcb, hlen, hs⟩ := stab_peekInto_runs hwf hr
  refine ⟨hq, hcb, hlen, fun i t w ψ ht hw hst => ?_⟩
  obtain ⟨o, hstep, h1⟩ := hs i t w ht hw
  refine ⟨o, h1, ?_⟩
  rcases hstep with hm | ⟨k, hm⟩
  · rw [hT.det _ ψ q o hst hm]; exact (hT.weight t ψ hst).2
  · exact (hT.rand t ψ q k hst hm o).1

/-- changing back from the measurement basis preserves the squared norm -/
theorem normSq_fromBasis (ha : LawfulAmp α P) (hs : LawfulSim α P nz) {q : Nat} (hq : q < n) (b : Basis)
    (v : List α) (hl : v.length = 2 ^ n) : normSqSum (fromBasis (P := P) n q b v) = normSqSum v := by
  cases b with
  | Z => rfl
  | X => exact iso_basis ha hs n .H [q] ⟨Or.inl rfl, q, hq, rfl⟩ v hl
  | Y =>
    show normSqSum (gateOn (P := P) n .S [q] (gateOn (P := P) n .H [q] v)) = _
    rw [iso_basis ha hs n .S [q] ⟨Or.inr (Or.inr (Or.inl rfl)), q, hq, rfl⟩ _ (gateOn_length _ _ _ _),
      iso_basis ha hs n .H [q] ⟨Or.inl rfl, q, hq, rfl⟩ v hl]

theorem toBasis_length (q : Nat) (b : Basis) (v : List α) (hl : v.length = 2 ^ n) :
    (toBasis (P := P) n q b v).length = 2 ^ n := by
  cases b with
  | Z => exact hl
  | X => exact gateOn_length _ _ _ _
  | Y => exact gateOn_length _ _ _ _

theorem fromBasis_toBasis (ha : LawfulAmp α P) {q : Nat} (hq : q < n) (b : Basis) (v : List α)
    (hl : v.length = 2 ^ n) : fromBasis (P := P) n q b (toBasis (P := P) n q b v) = v := by
  cases b with
  | Z => rfl
  | X => exact hh_all ha n q hq v hl
  | Y =>
    show gateOn (P := P) n .S [q] (gateOn (P := P) n .H [q] (gateOn (P := P) n .H [q] (gateOn (P := P) n .Sdg [q] v))) = v
    rw [hh_all ha n q hq _ (gateOn_length _ _ _ _), ssdg_all ha n q hq v hl]

/-- the runs of the basis changes around the body of a `measure` / `peek`, per shot -/
theorem stab_withBasis1 (hT : TableauOK St n ph conjOf valid) {N : Nat} {s : StabState} {c : List Nat} {q : Nat}
    {b : Basis} {body : StabState → Prog α (StabState × List Nat)} (hwf : WFT n N s c)
    (hqb : ∀ st d d' x, Runs sb sc (body st) d (.ok x) d' → q < st.nrBits)
    {ds ds' : List Draw} {s' : StabState} {r : List Nat}
    (h : Runs sb sc (withBasis1 (stabBackend half ph conjOf) s q b body) ds (.ok (s', r)) ds') :
    q < n ∧ ∃ s1 d1 s2 d2, WFT n N s1 c ∧
      (∀ (i : Nat) (t : Tab) (ψ : List α), (shotTabs s)[i]? = some t → St t ψ →
        ∃ t1, (shotTabs s1)[i]? = some t1 ∧ St t1 (toBasis (P := P) n q b ψ)) ∧
      Runs sb sc (body s1) d1 (.ok (s2, r)) d2 ∧
      ∀ c2, WFT n N s2 c2 → WFT n N s' c2 ∧
        ∀ (i : Nat) (t : Tab) (ψ : List α), (shotTabs s2)[i]? = some t → St t ψ →
          ∃ t', (shotTabs s')[i]? = some t' ∧ St t' (fromBasis (P := P) n q b ψ) := by
  have hb := withBasis1_runs _ h
  cases b with
  | Z =>
    have hq : q < n := by have := hqb _ _ _ _ hb; rw [hwf.nrBits] at this; exact this
    exact ⟨hq, s, ds, s', ds', hwf, fun i t ψ ht hst => ⟨t, ht, hst⟩, hb,
      fun c2 h2 => ⟨h2, fun i t ψ ht hst => ⟨t, ht, hst⟩⟩⟩
  | X =>
    obtain ⟨s1, d1, s2, d2, h1, h2, h3⟩ := hb
    simp only [stabBackend] at h1 h3
    have hq : q < n := by
      have := hqb _ _ _ _ h2
      rw [stab_applyGate_nrBits h1, hwf.nrBits] at this; exact this
    obtain ⟨hH, _, _⟩ := hT.basis q hq
    obtain ⟨w1, g1⟩ := stab_gate_step hT hH hwf h1
    exact ⟨hq, s1, d1, s2, d2, w1, g1, h2, fun c2 w2 => stab_gate_step hT hH w2 h3⟩
  | Y =>
    obtain ⟨sa, da, s1, d1, s2, d2, sz, dz, ha', h1, h2, h3, h4⟩ := hb
    simp only [stabBackend] at ha' h1 h3 h4
    have hq : q < n := by
      have := hqb _ _ _ _ h2
      rw [stab_applyGate_nrBits h1, stab_applyGate_nrBits ha', hwf.nrBits] at this; exact this
    obtain ⟨hH, hS, hSd⟩ := hT.basis q hq
    obtain ⟨wa, ga⟩ := stab_gate_step hT hSd hwf ha'
    obtain ⟨w1, g1⟩ := stab_gate_step hT hH wa h1
    refine ⟨hq, s1, d1, s2, d2, w1, fun i t ψ ht hst => ?_, h2, fun c2 w2 => ?_⟩
    · obtain ⟨ta, hta, hsta⟩ := ga i t ψ ht hst
      exact g1 i ta _ hta hsta
    · obtain ⟨wz, gz⟩ := stab_gate_step hT hH w2 h3
      obtain ⟨w4, g4⟩ := stab_gate_step hT hS wz h4
      refine ⟨w4, fun i t ψ ht hst => ?_⟩
      obtain ⟨tz, htz, hstz⟩ := gz i t ψ ht hst
      exact g4 i tz _ htz hstz

theorem stab_refine_measure (hT : TableauOK St n ph conjOf valid) {nonzero : List α → Bool} {N : Nat}
    {s : StabState} {c : List Nat} {q cb : Nat} {b : Basis} (hwf : WFT n N s c)
    {ds ds' : List Draw} {s' : StabState} {c' : List Nat}
    (h : Runs sb sc (execOp (stabBackend half ph conjOf) s c (.measure q cb b)) ds (.ok (s', c')) ds') :
    WFT n N s' c' ∧ StabStepRefines St n nonzero (.measure q cb b : COp P) s c s' c' := by
  simp only [execOp] at h
  obtain ⟨hq, s1, d1, s2, d2, w1, g1, hbody, hpost⟩ := stab_withBasis1 hT hwf
    (fun st d d' x hx => by simp only [stabBackend] at hx; exact stab_measureInto_lt hx) h
  simp only [stabBackend] at hbody
  obtain ⟨_, hcb, w2, hs⟩ := stab_measure_core hT w1 hbody
  obtain ⟨w3, g3⟩ := hpost c' w2
  refine ⟨w3, fun i t w ψ ht hw hwb hst => ?_⟩
  obtain ⟨t1, ht1, hst1⟩ := g1 i t ψ ht hst
  obtain ⟨o, t2, hr, ht2, hst2⟩ := hs i t1 w _ ht1 hw hst1
  obtain ⟨t3, ht3, hst3⟩ := g3 i t2 _ ht2 hst2
  exact ⟨t3, _, _, ht3, hr, (setBitTo_spec o hwb hcb).1, mem_replayOp_measure nonzero q cb b ψ w o hcb, hst3⟩

theorem stab_refine_peek (hT : TableauOK St n ph conjOf valid) (ha : LawfulAmp α P) (hs : LawfulSim α P nz)
    {nonzero : List α → Bool} (hnzb : NonzeroOK nonzero) {N : Nat}
    {s : StabState} {c : List Nat} {q cb : Nat} {b : Basis} (hwf : WFT n N s c)
    {ds ds' : List Draw} {s' : StabState} {c' : List Nat}
    (h : Runs sb sc (execOp (stabBackend half ph conjOf) s c (.peek q cb b)) ds (.ok (s', c')) ds') :
    WFT n N s' c' ∧ StabStepRefines St n nonzero (.peek q cb b : COp P) s c s' c' := by
  simp only [execOp] at h
  obtain ⟨hq, s1, d1, s2, d2, w1, g1, hbody, hpost⟩ := stab_withBasis1 hT hwf
    (fun st d d' x hx => by
      simp only [stabBackend] at hx
      obtain ⟨r1, d3, hx1, _⟩ := runs_bind_ok _ _ hx
      exact stab_peekInto_lt hx1) h
  simp only [stabBackend] at hbody
  obtain ⟨r1, d3, hp, hp2⟩ := runs_bind_ok _ _ hbody
  obtain ⟨e, _⟩ := runs_pure_iff.mp hp2
  simp only [Except.ok.injEq, Prod.mk.injEq] at e
  obtain ⟨rfl, rfl⟩ := e
  obtain ⟨_, hcb, hlen, hsp⟩ := stab_peek_core hT w1 hp
  obtain ⟨w3, g3⟩ := hpost c' ⟨w1.len, w1.sum, w1.nrBits, w1.nrShots, hlen⟩
  refine ⟨w3, fun i t w ψ ht hw hwb hst => ?_⟩
  obtain ⟨hψl, _⟩ := hT.weight t ψ hst
  obtain ⟨t1, ht1, hst1⟩ := g1 i t ψ ht hst
  obtain ⟨o, hr, u, hu⟩ := hsp i t1 w _ ht1 hw hst1
  obtain ⟨t3, ht3, hst3⟩ := g3 i t1 _ ht1 hst1
  rw [fromBasis_toBasis ha hq b ψ hψl] at hst3
  refine ⟨t3, _, ψ, ht3, hr, (setBitTo_spec o hwb hcb).1, mem_replayOp_peek nonzero q cb b ψ w o hcb ?_, hst3⟩
  apply hnzb
  refine ⟨u, ?_⟩
  show normSqSum (fromBasis (P := P) n q b (project n q o (toBasis (P := P) n q b ψ))) * u = 1
  rw [normSq_fromBasis ha hs hq b _ (by rw [project_length]; exact toBasis_length q b ψ hψl)]
  exact hu

end
end Q1t.Sim

import Q1t.Proofs.EqualStatesPartU2a
import Q1t.Proofs.EqualStatesPartCanon
set_option linter.unusedSectionVars false
set_option linter.unusedVariables false
set_option linter.unusedSimpArgs false
/-!
`PartU`: two canonical tableaux whose rows span the same space have the same rows.

Pivot columns first (the leading `sel`-bit of a combination is a pivot of the other tableau, so the two strictly
increasing pivot lists have the same members), then the rows (every pivot column reads off one coefficient, so row `i`
of one tableau is the combination `1·row i` of the other).
-/
namespace Q1t.Proofs.DetPlan
open Q1t Q1t.Tableau Q1t.Spec.Pauli Q1t.Proofs.Tableau Q1t.Proofs.TabG

theorem sorted_eq_of_mem (l1 l2 : List Nat) (h1 : l1.Pairwise (· < ·)) (h2 : l2.Pairwise (· < ·))
    (h12 : ∀ x ∈ l1, x ∈ l2) (h21 : ∀ x ∈ l2, x ∈ l1) : l1 = l2 := by
  have n1 : l1.Nodup := h1.imp (fun h => Nat.ne_of_lt h)
  have n2 : l2.Nodup := h2.imp (fun h => Nat.ne_of_lt h)
  have hp : l1.Perm l2 := (List.perm_ext_iff_of_nodup n1 n2).mpr (fun a => ⟨h12 a, h21 a⟩)
  exact List.Perm.eq_of_pairwise (fun a b _ _ hab hba => absurd hab (Nat.lt_asymm hba)) h1 h2 hp

variable {sel : P → Bool} {n i0 : Nat}

/-- the pivot of a pivot row of `t2` that is a combination of the rows of `t1` is a pivot of `t1` -/
theorem piv_mem {t1 t2 : Tab} {piv1 piv2 : List Nat} (B1 : Block sel t1 n i0 piv1) (B2 : Block sel t2 n i0 piv2)
    (b : Nat) (hb : b < piv2.length) (α : Fin n → ZMod 2) (hlow : ∀ j : Fin n, j.val < i0 → α j = 0)
    (hrep : ∀ c, bZ (bit sel t2 (i0 + b) c) = comb sel t1 n α c) : piv2[b] ∈ piv1 := by
  -- some pivot row of t1 takes part
  have hsome : ∃ a, ∃ h : a < piv1.length, α ⟨i0 + a, by have := B1.hlen; omega⟩ ≠ 0 := by
    by_contra hno
    have hz := comb_zero B1 α hlow (fun a h => by
      by_contra hne; exact hno ⟨a, h, hne⟩) piv2[b]
    rw [← hrep, B2.pbit b hb] at hz
    simp [bZ] at hz
  classical
  let Pr : Nat → Prop := fun a => ∃ h : a < piv1.length, α ⟨i0 + a, by have := B1.hlen; omega⟩ ≠ 0
  have hex : ∃ a, Pr a := hsome
  obtain ⟨h0, hα0⟩ := Nat.find_spec hex
  have hmin : ∀ a, a < Nat.find hex → ∀ h : a < piv1.length, α ⟨i0 + a, by have := B1.hlen; omega⟩ = 0 := by
    intro a ha h
    by_contra hne
    exact Nat.find_min hex ha ⟨h, hne⟩
  set a0 := Nat.find hex with ha0
  have hone : α ⟨i0 + a0, by have := B1.hlen; omega⟩ = 1 := z2_eq_one_of_ne _ hα0
  -- the row of t2 has the bit at piv1[a0] and none before it
  have hat : bit sel t2 (i0 + b) piv1[a0] = true := by
    have := hrep piv1[a0]
    rw [comb_pivot B1 α a0 h0, hone] at this
    exact bZ_eq_one.mp this
  have hbefore : ∀ c, c < piv1[a0] → bit sel t2 (i0 + b) c = false := by
    intro c hc
    have := hrep c
    rw [comb_lead B1 α hlow a0 h0 (fun a ha => hmin a ha (by omega)) c hc] at this
    exact bZ_eq_zero.mp this
  -- compare with the leading bit of that row in t2
  have h1 : ¬ piv1[a0] < piv2[b] := fun h => by
    have := B2.lead b hb _ h; rw [hat] at this; cases this
  have h2 : ¬ piv2[b] < piv1[a0] := fun h => by
    have := hbefore _ h; rw [B2.pbit b hb] at this; simp at this
  have : piv2[b] = piv1[a0] := by omega
  rw [this]; exact List.getElem_mem h0

theorem bit_eq_of_span (sel : P → Bool) (hsel : sel = P.hasX ∨ sel = P.hasZ) (n : Nat) (t1 t2 : Tab)
    (hwf1 : t1.WF) (hwf2 : t2.WF) (hn1 : t1.n = n) (hn2 : t2.n = n) (i : Nat) (α : Fin n → ZMod 2)
    (hX : ∀ c : Fin n, ∑ j : Fin n, α j * xZ (rowD t1 j) c = xZ (rowD t2 i) c)
    (hZ : ∀ c : Fin n, ∑ j : Fin n, α j * zZ (rowD t1 j) c = zZ (rowD t2 i) c) (c : Nat) :
    bZ (bit sel t2 i c) = comb sel t1 n α c := by
  by_cases hc : c < n
  · rcases hsel with rfl | rfl
    · exact (hX ⟨c, hc⟩).symm
    · exact (hZ ⟨c, hc⟩).symm
  · rw [bit_col_oob sel t2 hwf2 i c (by omega)]
    unfold comb
    symm
    apply Finset.sum_eq_zero
    intro j _
    rw [bit_col_oob sel t1 hwf1 j c (by omega)]; simp [bZ]


/-! ### the two blocks of a canonical tableau -/

/-- the fields of `Canon` for given pivot lists -/
structure CanonD (t : Tab) (pivX pivZ : List Nat) : Prop where
  hlen : pivX.length + pivZ.length ≤ t.n
  sX : pivX.Pairwise (· < ·)
  sZ : pivZ.Pairwise (· < ·)
  xp : ∀ (a : Nat) (h : a < pivX.length), (∀ i, bit P.hasX t i pivX[a] = decide (i = a)) ∧
      ∀ c, c < pivX[a] → bit P.hasX t a c = false
  xfree : ∀ i, pivX.length ≤ i → ∀ c, bit P.hasX t i c = false
  zp : ∀ (b : Nat) (h : b < pivZ.length), (∀ i, bit P.hasZ t i pivZ[b] = decide (i = pivX.length + b)) ∧
      ∀ c, c < pivZ[b] → bit P.hasZ t (pivX.length + b) c = false
  zfree : ∀ i, pivX.length + pivZ.length ≤ i → ∀ c, bit P.hasZ t i c = false

theorem canonD_of_canon (t : Tab) (h : Canon t) : ∃ pivX pivZ, CanonD t pivX pivZ := by
  obtain ⟨pivX, pivZ, h1, h2, h3, _, _, h6, h7, h8, h9⟩ := h
  exact ⟨pivX, pivZ, h1, h2, h3, h6, h7, h8, h9⟩

theorem blockX {t : Tab} {pivX pivZ : List Nat} (C : CanonD t pivX pivZ) (n : Nat) (hn : t.n = n) :
    Block P.hasX t n 0 pivX :=
  ⟨by have := C.hlen; omega, C.sX, fun a h i => by rw [(C.xp a h).1 i, Nat.zero_add],
   fun a h c hc => by rw [Nat.zero_add]; exact (C.xp a h).2 c hc,
   fun i hi c => C.xfree i (by omega) c⟩

theorem blockZ {t : Tab} {pivX pivZ : List Nat} (C : CanonD t pivX pivZ) (n : Nat) (hn : t.n = n) :
    Block P.hasZ t n pivX.length pivZ :=
  ⟨by have := C.hlen; omega, C.sZ, fun b h i => (C.zp b h).1 i, fun b h c hc => (C.zp b h).2 c hc,
   fun i hi c => C.zfree i hi c⟩

/-- X-pivots of `t2` are X-pivots of `t1` when the rows of `t2` are combinations of the rows of `t1` -/
theorem pivX_sub (n : Nat) (t1 t2 : Tab) (hwf1 : t1.WF) (hwf2 : t2.WF) (hn1 : t1.n = n) (hn2 : t2.n = n)
    {pX1 pZ1 pX2 pZ2 : List Nat} (C1 : CanonD t1 pX1 pZ1) (C2 : CanonD t2 pX2 pZ2) (hs : SpanLe n t1 t2) :
    ∀ x ∈ pX2, x ∈ pX1 := by
  intro x hx
  obtain ⟨b, hb, rfl⟩ := List.getElem_of_mem hx
  have hbn : b < n := by have := C2.hlen; omega
  obtain ⟨α, hα⟩ := hs b hbn
  have := piv_mem (blockX C1 n hn1) (blockX C2 n hn2) b hb α (fun j hj => by omega) (fun c => by
    rw [Nat.zero_add]
    exact bit_eq_of_span P.hasX (Or.inl rfl) n t1 t2 hwf1 hwf2 hn1 hn2 b α (fun c => (hα c).1) (fun c => (hα c).2) c)
  exact this

/-- Z-pivots, once the X-pivot lists agree -/
theorem pivZ_sub (n : Nat) (t1 t2 : Tab) (hwf1 : t1.WF) (hwf2 : t2.WF) (hn1 : t1.n = n) (hn2 : t2.n = n)
    {pX pZ1 pZ2 : List Nat} (C1 : CanonD t1 pX pZ1) (C2 : CanonD t2 pX pZ2) (hs : SpanLe n t1 t2) :
    ∀ x ∈ pZ2, x ∈ pZ1 := by
  intro x hx
  obtain ⟨b, hb, rfl⟩ := List.getElem_of_mem hx
  have hbn : pX.length + b < n := by have := C2.hlen; omega
  obtain ⟨α, hα⟩ := hs (pX.length + b) hbn
  have hrepX := fun c => bit_eq_of_span P.hasX (Or.inl rfl) n t1 t2 hwf1 hwf2 hn1 hn2 (pX.length + b) α
    (fun c => (hα c).1) (fun c => (hα c).2) c
  have hrepZ := fun c => bit_eq_of_span P.hasZ (Or.inr rfl) n t1 t2 hwf1 hwf2 hn1 hn2 (pX.length + b) α
    (fun c => (hα c).1) (fun c => (hα c).2) c
  -- the X-rows do not take part: the row is X/Y-free
  have hlow : ∀ j : Fin n, j.val < pX.length → α j = 0 := by
    intro j hj
    have h1 := comb_pivot (blockX C1 n hn1) α j.val hj
    rw [← hrepX, C2.xfree _ (by omega)] at h1
    have e : (⟨0 + j.val, by omega⟩ : Fin n) = j := Fin.ext (by simp)
    rw [e] at h1
    simpa [bZ] using h1.symm
  exact piv_mem (blockZ C1 n hn1) (blockZ C2 n hn2) b hb α hlow hrepZ

/-- **`PartU`** -/
theorem partU2 : PartU := by
  intro n t1 t2 hwf1 hwf2 hn1 hn2 hc1 hc2 h12 h21
  obtain ⟨pX1, pZ1, C1⟩ := canonD_of_canon t1 hc1
  obtain ⟨pX2, pZ2, C2⟩ := canonD_of_canon t2 hc2
  have hX : pX1 = pX2 := sorted_eq_of_mem pX1 pX2 C1.sX C2.sX
    (pivX_sub n t2 t1 hwf2 hwf1 hn2 hn1 C2 C1 h21) (pivX_sub n t1 t2 hwf1 hwf2 hn1 hn2 C1 C2 h12)
  subst hX
  have hZ : pZ1 = pZ2 := sorted_eq_of_mem pZ1 pZ2 C1.sZ C2.sZ
    (pivZ_sub n t2 t1 hwf2 hwf1 hn2 hn1 C2 C1 h21) (pivZ_sub n t1 t2 hwf1 hwf2 hn1 hn2 C1 C2 h12)
  subst hZ
  have hkm : pX1.length + pZ1.length ≤ n := by have := C1.hlen; omega
  -- rows
  have hrow : ∀ i, i < n → rowD t1 i = rowD t2 i := by
    intro i hi
    have hl1 : (rowD t1 i).length = n := by
      rw [hwf1.2.2 _ (List.mem_of_getElem? (rowD_getElem? t1 i (by rw [hwf1.1, hn1]; exact hi))), hn1]
    have hl2 : (rowD t2 i).length = n := by
      rw [hwf2.2.2 _ (List.mem_of_getElem? (rowD_getElem? t2 i (by rw [hwf2.1, hn2]; exact hi))), hn2]
    by_cases hik : i < pX1.length + pZ1.length
    · obtain ⟨α, hα⟩ := h12 i hi
      have hrepX := fun c => bit_eq_of_span P.hasX (Or.inl rfl) n t1 t2 hwf1 hwf2 hn1 hn2 i α
        (fun c => (hα c).1) (fun c => (hα c).2) c
      have hrepZ := fun c => bit_eq_of_span P.hasZ (Or.inr rfl) n t1 t2 hwf1 hwf2 hn1 hn2 i α
        (fun c => (hα c).1) (fun c => (hα c).2) c
      -- the coefficients of the pivot rows
      have hcoef : ∀ j : Fin n, j.val < pX1.length + pZ1.length → j.val ≠ i → α j = 0 := by
        intro j hj hji
        by_cases hjx : j.val < pX1.length
        · have h1 := comb_pivot (blockX C1 n hn1) α j.val hjx
          rw [← hrepX, (C2.xp j.val hjx).1 i] at h1
          have e : (⟨0 + j.val, by omega⟩ : Fin n) = j := Fin.ext (by simp)
          rw [e] at h1
          have : ¬ i = j.val := fun e => hji e.symm
          simpa [bZ, this] using h1.symm
        · have hb : j.val - pX1.length < pZ1.length := by omega
          have h1 := comb_pivot (blockZ C1 n hn1) α (j.val - pX1.length) hb
          rw [← hrepZ, (C2.zp _ hb).1 i] at h1
          have e : (⟨pX1.length + (j.val - pX1.length), by omega⟩ : Fin n) = j := Fin.ext (by simp; omega)
          rw [e] at h1
          have : ¬ i = pX1.length + (j.val - pX1.length) := by omega
          simpa [bZ, this] using h1.symm
      have hcoef_i : α ⟨i, hi⟩ = 1 := by
        by_cases hix : i < pX1.length
        · have h1 := comb_pivot (blockX C1 n hn1) α i hix
          rw [← hrepX, (C2.xp i hix).1 i] at h1
          have e : (⟨0 + i, by omega⟩ : Fin n) = ⟨i, hi⟩ := Fin.ext (by simp)
          rw [e] at h1
          simpa [bZ] using h1.symm
        · have hb : i - pX1.length < pZ1.length := by omega
          have h1 := comb_pivot (blockZ C1 n hn1) α (i - pX1.length) hb
          rw [← hrepZ, (C2.zp _ hb).1 i] at h1
          have e : (⟨pX1.length + (i - pX1.length), by omega⟩ : Fin n) = ⟨i, hi⟩ := Fin.ext (by simp; omega)
          rw [e] at h1
          have : i = pX1.length + (i - pX1.length) := by omega
          simpa [bZ, ← this] using h1.symm
      -- so the combination is row i of t1
      have hcomb : ∀ (sel : P → Bool), (∀ j, pX1.length + pZ1.length ≤ j → ∀ c, bit sel t1 j c = false) → ∀ c,
          comb sel t1 n α c = bZ (bit sel t1 i c) := by
        intro sel hfree c
        unfold comb
        rw [Finset.sum_eq_single ⟨i, hi⟩]
        · rw [hcoef_i, one_mul]
        · intro j _ hj
          by_cases hjk : j.val < pX1.length + pZ1.length
          · rw [hcoef j hjk (fun e => hj (Fin.ext e)), zero_mul]
          · rw [hfree j (by omega) c]; simp [bZ]
        · intro h'; exact absurd (Finset.mem_univ _) h'
      apply string_ext_bits n _ _ hl1 hl2
      · intro c _
        have := (hrepX c).trans (hcomb P.hasX (fun j hj c => C1.xfree j (by omega) c) c)
        exact (bZ_inj this).symm
      · intro c _
        have := (hrepZ c).trans (hcomb P.hasZ (fun j hj c => C1.zfree j hj c) c)
        exact (bZ_inj this).symm
    · -- identity rows on both sides
      apply string_ext_bits n _ _ hl1 hl2
      · intro c _
        show bit P.hasX t1 i c = bit P.hasX t2 i c
        rw [C1.xfree i (by omega) c, C2.xfree i (by omega) c]
      · intro c _
        show bit P.hasZ t1 i c = bit P.hasZ t2 i c
        rw [C1.zfree i (by omega) c, C2.zfree i (by omega) c]
  apply List.ext_getElem (by rw [hwf1.1, hwf2.1, hn1, hn2])
  intro i h1 h2
  have hi : i < n := by rw [hwf1.1, hn1] at h1; exact h1
  have e1 : rowD t1 i = t1.rows[i] := rowD_of_getElem? t1 i _ (List.getElem?_eq_getElem h1)
  have e2 : rowD t2 i = t2.rows[i] := rowD_of_getElem? t2 i _ (List.getElem?_eq_getElem h2)
  rw [← e1, ← e2]; exact hrow i hi

end Q1t.Proofs.DetPlan

import Q1t.Proofs.RouteKron
import Q1t.Proofs.BitPerm
/-!
# C04 (d), part 1: both branches of `apply_gate_slice` compute the "gather form"

`gatherApply`: row `r` of the result is `Σ_c M[sub r][c] · v[γ⁻¹(c·T + rest r)]`, where `γ` is the
gather map (`Spec.gatherIndex`: listed qubits to the front), `sub r` the gate-local index spelled by
the listed qubits of `r`, `rest r` the index spelled by the other qubits and `T = 2^(n-k)`.
-/
namespace Q1t.Proofs.Route
open Q1t Q1t.Gate Q1t.Spec Q1t.Spec.Perm Q1t.Proofs.BitPerm
variable {α : Type} [CommRing α]
set_option linter.unusedSectionVars false

instance rowInhabited (m : Mode) : Inhabited (Row α m) := by
  cases m
  · exact ⟨(0 : α)⟩
  · exact ⟨([] : List α)⟩

/-- the table of the gather map on `[0, 2^n)` -/
def gatherTable (n : Nat) (bits : List Nat) : List Nat := (List.range (2 ^ n)).map (gatherIndex n bits)

/-- the inverse of the gather map, as a table: what `bit_permutation` returns -/
def gatherInv (n : Nat) (bits : List Nat) : List Nat := Q1t.Perm.inverseIdx (gatherTable n bits)

def gatherApply (m : Mode) (w n : Nat) (bits : List Nat) (M : LMat α) (v : List (Row α m)) :
    List (Row α m) :=
  (List.range (2 ^ n)).map fun r => rowMk m w fun col =>
    sumTo (2 ^ bits.length) fun c => LMat.get M (subIndex n bits r) c *
      stateEntry m v ((gatherInv n bits).getD
        (c * 2 ^ (n - bits.length) + subIndex n (others n bits) r) 0) col

section facts
variable (n : Nat) (bits : List Nat) (hv : validBits n bits = true)
include hv

theorem gatherTable_length : (gatherTable n bits).length = 2 ^ n := by simp [gatherTable]

theorem gatherTable_perm : IsPerm (gatherTable n bits) := gatherTable_isPerm n bits hv

theorem gatherTable_get (i : Nat) (hi : i < 2 ^ n) : (gatherTable n bits)[i]! = gatherIndex n bits i := by
  simp [gatherTable, hi]

theorem gatherInv_isPerm : IsPerm (gatherInv n bits) :=
  Proofs.Perm.inverseIdx_isPerm _ (gatherTable_perm n bits hv)

theorem gatherInv_length : (gatherInv n bits).length = 2 ^ n := by
  rw [gatherInv, Proofs.Perm.inverseIdx_length _ (gatherTable_perm n bits hv), gatherTable_length n bits hv]

theorem gatherInv_getD (j : Nat) : (gatherInv n bits).getD j 0 = (gatherInv n bits)[j]! := by
  rw [List.getD_eq_getElem?_getD]; simp

theorem gatherInv_gather (i : Nat) (hi : i < 2 ^ n) : (gatherInv n bits).getD (gatherIndex n bits i) 0 = i := by
  have := Proofs.Perm.inverseIdx_left _ (gatherTable_perm n bits hv) i (by rw [gatherTable_length n bits hv]; exact hi)
  rw [gatherTable_get n bits hv i hi] at this
  rw [gatherInv_getD n bits hv]; exact this

theorem gatherInv_lt (j : Nat) (hj : j < 2 ^ n) : (gatherInv n bits).getD j 0 < 2 ^ n := by
  have := Proofs.Perm.inverseIdx_lt _ (gatherTable_perm n bits hv) j (by rw [gatherTable_length n bits hv]; exact hj)
  rw [gatherTable_length n bits hv] at this
  rw [gatherInv_getD n bits hv]; exact this

theorem gather_gatherInv (j : Nat) (hj : j < 2 ^ n) :
    gatherIndex n bits ((gatherInv n bits).getD j 0) = j := by
  have := Proofs.Perm.inverseIdx_right _ (gatherTable_perm n bits hv) j (by rw [gatherTable_length n bits hv]; exact hj)
  have hlt := gatherInv_lt n bits hv j hj
  rw [gatherInv_getD n bits hv] at hlt ⊢
  rw [← gatherTable_get n bits hv _ hlt]; exact this

theorem gatherInv_inverse : Q1t.Perm.inverseIdx (gatherInv n bits) = gatherTable n bits :=
  Proofs.Perm.inverse_inverse _ (gatherTable_perm n bits hv)

theorem bitPermutation_gatherInv : bitPermutation n bits = some (gatherInv n bits) :=
  bitPermutation_eq n bits hv

end facts

end Q1t.Proofs.Route

import Q1t.Proofs.RouteKron
import Q1t.Proofs.BitPerm
import Q1t.Proofs.EmbedLift
/-!
# C04 (d), part 1: both branches of `apply_gate_slice` compute the "gather form"

`gatherApply`: row `r` of the result is `Σ_c M[sub r][c] · v[γ⁻¹(c·T + rest r)]`, where `γ` is the
gather map (`Spec.gatherIndex`: listed qubits to the front), `sub r` the gate-local index spelled by
the listed qubits of `r`, `rest r` the index spelled by the other qubits and `T = 2^(n-k)`.
-/
namespace Q1t.Proofs.Route
open Q1t Q1t.Gate Q1t.Spec Q1t.Spec.Perm Q1t.Proofs.BitPerm
variable {α : Type} [CommRing α]
set_option linter.unusedSectionVars false

instance rowInhabited (m : Mode) : Inhabited (Row α m) := by
  cases m
  · exact ⟨(0 : α)⟩
  · exact ⟨([] : List α)⟩

/-- the table of the gather map on `[0, 2^n)` -/
def gatherTable (n : Nat) (bits : List Nat) : List Nat := (List.range (2 ^ n)).map (gatherIndex n bits)

/-- the inverse of the gather map, as a table: what `bit_permutation` returns -/
def gatherInv (n : Nat) (bits : List Nat) : List Nat := Q1t.Perm.inverseIdx (gatherTable n bits)

def gatherApply (m : Mode) (w n : Nat) (bits : List Nat) (M : LMat α) (v : List (Row α m)) :
    List (Row α m) :=
  (List.range (2 ^ n)).map fun r => rowMk m w fun col =>
    sumTo (2 ^ bits.length) fun c => LMat.get M (subIndex n bits r) c *
      stateEntry m v ((gatherInv n bits).getD
        (c * 2 ^ (n - bits.length) + subIndex n (others n bits) r) 0) col

section facts
variable (n : Nat) (bits : List Nat) (hv : validBits n bits = true)
include hv

theorem gatherTable_length : (gatherTable n bits).length = 2 ^ n := by simp [gatherTable]

theorem gatherTable_perm : IsPerm (gatherTable n bits) := gatherTable_isPerm n bits hv

theorem gatherTable_get (i : Nat) (hi : i < 2 ^ n) : (gatherTable n bits)[i]! = gatherIndex n bits i := by
  simp [gatherTable, hi]

theorem gatherInv_isPerm : IsPerm (gatherInv n bits) :=
  Proofs.Perm.inverseIdx_isPerm _ (gatherTable_perm n bits hv)

theorem gatherInv_length : (gatherInv n bits).length = 2 ^ n := by
  rw [gatherInv, Proofs.Perm.inverseIdx_length _ (gatherTable_perm n bits hv), gatherTable_length n bits hv]

theorem gatherInv_getD (j : Nat) : (gatherInv n bits).getD j 0 = (gatherInv n bits)[j]! := by
  rw [List.getD_eq_getElem?_getD]; simp

theorem gatherInv_gather (i : Nat) (hi : i < 2 ^ n) : (gatherInv n bits).getD (gatherIndex n bits i) 0 = i := by
  have := Proofs.Perm.inverseIdx_left _ (gatherTable_perm n bits hv) i (by rw [gatherTable_length n bits hv]; exact hi)
  rw [gatherTable_get n bits hv i hi] at this
  rw [gatherInv_getD n bits hv]; exact this

theorem gatherInv_lt (j : Nat) (hj : j < 2 ^ n) : (gatherInv n bits).getD j 0 < 2 ^ n := by
  have := Proofs.Perm.inverseIdx_lt _ (gatherTable_perm n bits hv) j (by rw [gatherTable_length n bits hv]; exact hj)
  rw [gatherTable_length n bits hv] at this
  rw [gatherInv_getD n bits hv]; exact this

theorem gather_gatherInv (j : Nat) (hj : j < 2 ^ n) :
    gatherIndex n bits ((gatherInv n bits).getD j 0) = j := by
  have := Proofs.Perm.inverseIdx_right _ (gatherTable_perm n bits hv) j (by rw [gatherTable_length n bits hv]; exact hj)
  have hlt := gatherInv_lt n bits hv j hj
  rw [gatherInv_getD n bits hv] at hlt ⊢
  rw [← gatherTable_get n bits hv _ hlt]; exact this

theorem gatherInv_inverse : Q1t.Perm.inverseIdx (gatherInv n bits) = gatherTable n bits :=
  Proofs.Perm.inverse_inverse _ (gatherTable_perm n bits hv)

theorem bitPermutation_gatherInv : bitPermutation n bits = some (gatherInv n bits) :=
  bitPermutation_eq n bits hv

end facts


theorem permuted_length (m : Mode) (idxs : List Nat) (v : List (Row α m)) :
    (permuted idxs v).length = idxs.length := by simp [permuted]

theorem permuted_get (m : Mode) (idxs : List Nat) (v : List (Row α m)) (r : Nat) (hr : r < idxs.length)
    (hlt : idxs[r]! < v.length) :
    (permuted idxs v)[r]'(by rw [permuted_length]; exact hr) = v[idxs[r]!]'hlt := by
  have hlt' : idxs[r] < v.length := by simpa [hr] using hlt
  simp [permuted, hr, hlt']

theorem stateEntry_permuted (m : Mode) (idxs : List Nat) (v : List (Row α m)) (r col : Nat)
    (hr : r < idxs.length) (hlt : idxs[r]! < v.length) :
    stateEntry m (permuted idxs v) r col = stateEntry m v (idxs[r]!) col := by
  rw [stateEntry_get _ _ _ _ (by rw [permuted_length]; exact hr), stateEntry_get _ _ _ _ hlt,
    permuted_get m idxs v r hr hlt]

theorem permuted_rowsW (m : Mode) (w : Nat) (idxs : List Nat) (v : List (Row α m)) (hv : RowsW m w v)
    (hidx : ∀ r, r < idxs.length → idxs[r]! < v.length) : RowsW m w (permuted idxs v) := by
  intro x hx
  obtain ⟨r, hr, rfl⟩ := List.getElem_of_mem hx
  have hr' : r < idxs.length := by rw [permuted_length] at hr; exact hr
  rw [permuted_get m idxs v r hr' (hidx r hr')]
  exact hv _ (List.getElem_mem _)

theorem gatherApply_length (m : Mode) (w n : Nat) (bits : List Nat) (M : LMat α) (v : List (Row α m)) :
    (gatherApply m w n bits M v).length = 2 ^ n := by simp [gatherApply]

theorem gatherApply_rowsW (m : Mode) (w : Nat) (hw : OkWidth m w) (n : Nat) (bits : List Nat) (M : LMat α)
    (v : List (Row α m)) : RowsW m w (gatherApply m w n bits M v) := by
  intro r hr
  simp only [gatherApply, List.mem_map] at hr
  obtain ⟨_, _, rfl⟩ := hr
  exact width_mk _ _ _ hw

theorem gatherApply_entry (m : Mode) (w : Nat) (hw : OkWidth m w) (n : Nat) (bits : List Nat) (M : LMat α)
    (v : List (Row α m)) (r col : Nat) (hr : r < 2 ^ n) (hcol : col < w) :
    stateEntry m (gatherApply m w n bits M v) r col =
      ∑ c ∈ Finset.range (2 ^ bits.length), LMat.get M (subIndex n bits r) c *
        stateEntry m v ((gatherInv n bits).getD
          (c * 2 ^ (n - bits.length) + subIndex n (others n bits) r) 0) col := by
  rw [stateEntry_get _ _ _ _ (by rw [gatherApply_length]; exact hr)]
  simp only [gatherApply, List.getElem_map, List.getElem_range]
  rw [entry_mk _ _ _ hw _ hcol, sumTo_eq_sum]

/-- index arithmetic of the gather map -/
theorem gather_split (n : Nat) (bits : List Nat) (hv : validBits n bits = true) (r : Nat) :
    gatherIndex n bits r / 2 ^ (n - bits.length) = subIndex n bits r ∧
    gatherIndex n bits r % 2 ^ (n - bits.length) = subIndex n (others n bits) r := by
  have hrest : subIndex n (others n bits) r < 2 ^ (n - bits.length) := by
    have := subIndex_lt n (others n bits) r
    rwa [others_length n bits hv] at this
  have hT : 0 < 2 ^ (n - bits.length) := Nat.two_pow_pos _
  rw [gatherIndex_eq n bits r hv]
  constructor
  · rw [Nat.add_comm, Nat.add_mul_div_right _ _ hT, Nat.div_eq_of_lt hrest, Nat.zero_add]
  · rw [Nat.add_comm, Nat.add_mul_mod_self_right, Nat.mod_eq_of_lt hrest]

theorem pow_split (n k : Nat) (hk : k ≤ n) : 2 ^ k * 2 ^ (n - k) = 2 ^ n := by
  rw [← Nat.pow_add]; congr 1; omega

theorem permBranch_spec (m : Mode) (w : Nat) (hw : OkWidth m w) (n : Nat) (bits : List Nat)
    (hv : validBits n bits = true) (M : LMat α) (hM : M.length = 2 ^ bits.length)
    (f : List (Row α m) → Option (List (Row α m)))
    (hf : ∀ work, work.length = 2 ^ n → RowsW m w work →
      f work = some (blockMul m w M (2 ^ (n - bits.length)) work))
    (v : List (Row α m)) (hlen : v.length = 2 ^ n) (hvw : RowsW m w v) :
    ((bitPermutation n bits).bind fun perm => (Q1t.Perm.applyInto perm v).bind fun work =>
        (f work).bind fun work' => Q1t.Perm.applyInverseInto perm work' v) =
      some (gatherApply m w n bits M v) := by
  have hk : bits.length ≤ n := validBits_length_le n bits hv
  have hp := gatherInv_isPerm n bits hv
  have hpl := gatherInv_length n bits hv
  set T := 2 ^ (n - bits.length) with hT
  have hidx : ∀ r, r < (gatherInv n bits).length → (gatherInv n bits)[r]! < v.length := by
    intro r hr
    rw [hpl] at hr
    have := gatherInv_lt n bits hv r hr
    rw [gatherInv_getD n bits hv] at this
    rw [hlen]; exact this
  rw [bitPermutation_gatherInv n bits hv, Option.bind_some,
    Proofs.Perm.into_spec _ v hp (by rw [hlen, hpl]), Option.bind_some,
    hf _ (by rw [permuted_length, hpl]) (permuted_rowsW m w _ v hvw hidx), Option.bind_some,
    (Proofs.Perm.apply_inverse_undoes _ (blockMul m w M T (permuted (gatherInv n bits) v)) v hp
      (by rw [blockMul_length, hM, hpl, hT, pow_split n _ hk]) (by rw [hlen, hpl])).2.1,
    gatherInv_inverse n bits hv]
  congr 1
  have hGl := gatherTable_length n bits hv
  have hwork'l : (blockMul m w M T (permuted (gatherInv n bits) v)).length = 2 ^ n := by
    rw [blockMul_length, hM, hT, pow_split n _ hk]
  have hGidx : ∀ r, r < (gatherTable n bits).length →
      (gatherTable n bits)[r]! < (blockMul m w M T (permuted (gatherInv n bits) v)).length := by
    intro r hr
    rw [hGl] at hr
    rw [gatherTable_get n bits hv r hr, hwork'l]
    exact gatherIndex_lt n bits hv r
  apply state_ext m w
  · rw [permuted_length, hGl, gatherApply_length]
  · exact permuted_rowsW m w _ _ (blockMul_rowsW m w hw _ _ _) hGidx
  · exact gatherApply_rowsW m w hw n bits M v
  · intro r col hr hcol
    rw [permuted_length, hGl] at hr
    rw [stateEntry_permuted m _ _ r col (by rw [hGl]; exact hr) (hGidx r (by rw [hGl]; exact hr)),
      gatherTable_get n bits hv r hr,
      blockMul_entry m w hw M T _ _ col (by rw [hM, hT, pow_split n _ hk]; exact gatherIndex_lt n bits hv r) hcol,
      gatherApply_entry m w hw n bits M v r col hr hcol, hM, (gather_split n bits hv r).1,
      (gather_split n bits hv r).2]
    apply Finset.sum_congr rfl
    intro c hc
    have hc' : c < 2 ^ bits.length := Finset.mem_range.1 hc
    have hrest : subIndex n (others n bits) r < T := by
      have := subIndex_lt n (others n bits) r
      rwa [others_length n bits hv] at this
    have hj : c * T + subIndex n (others n bits) r < 2 ^ n := by
      rw [← pow_split n _ hk, ← hT]
      have := Nat.mul_le_mul_right T (Nat.succ_le_of_lt hc'); rw [Nat.succ_mul] at this; omega
    rw [stateEntry_permuted m _ v _ col (by rw [hpl]; exact hj) (hidx _ (by rw [hpl]; exact hj)),
      gatherInv_getD n bits hv]



/-- the embedded matrix acts in gather form -/
theorem mulState_embed_eq_gather (m : Mode) (w : Nat) (hw : OkWidth m w) (n : Nat) (bits : List Nat)
    (hv : validBits n bits = true) (M : LMat α) (v : List (Row α m)) :
    mulState m w (embed n bits M) v = gatherApply m w n bits M v := by
  have hk : bits.length ≤ n := validBits_length_le n bits hv
  have hE := embed_wf n bits M
  set T := 2 ^ (n - bits.length) with hT
  apply state_ext m w
  · rw [mulState_length, hE.1, gatherApply_length]
  · exact mulState_rowsW m w hw _ _
  · exact gatherApply_rowsW m w hw n bits M v
  · intro r col hr hcol
    rw [mulState_length, hE.1] at hr
    rw [mulState_entry m w hw _ v r col (by rw [hE.1]; exact hr) hcol, hE.1,
      gatherApply_entry m w hw n bits M v r col hr hcol]
    -- reindex the columns through the gather bijection
    rw [Finset.sum_nbij' (s := Finset.range (2 ^ n)) (t := Finset.range (2 ^ n))
      (g := fun j => LMat.get (embed n bits M) r ((gatherInv n bits).getD j 0) *
        stateEntry m v ((gatherInv n bits).getD j 0) col)
      (gatherIndex n bits) (fun j => (gatherInv n bits).getD j 0)
      (fun a _ => Finset.mem_range.2 (gatherIndex_lt n bits hv a))
      (fun a ha => Finset.mem_range.2 (gatherInv_lt n bits hv a (Finset.mem_range.1 ha)))
      (fun a ha => gatherInv_gather n bits hv a (Finset.mem_range.1 ha))
      (fun a ha => gather_gatherInv n bits hv a (Finset.mem_range.1 ha))
      (fun a ha => by simp only [gatherInv_gather n bits hv a (Finset.mem_range.1 ha)])]
    rw [← pow_split n _ hk, sum_range_mul, ← hT]
    apply Finset.sum_congr rfl
    intro c hc
    have hc' : c < 2 ^ bits.length := Finset.mem_range.1 hc
    have hrest : subIndex n (others n bits) r < T := by
      have := subIndex_lt n (others n bits) r
      rwa [others_length n bits hv] at this
    rw [Finset.sum_eq_single (subIndex n (others n bits) r)]
    · -- the matching term
      have hj : c * T + subIndex n (others n bits) r < 2 ^ n := by
        rw [← pow_split n _ hk, ← hT]; exact block_lt c _ T _ hc' hrest
      set x := (gatherInv n bits).getD (c * T + subIndex n (others n bits) r) 0 with hx
      have hxlt : x < 2 ^ n := gatherInv_lt n bits hv _ hj
      have hgx : gatherIndex n bits x = c * T + subIndex n (others n bits) r := gather_gatherInv n bits hv _ hj
      have hs := gather_split n bits hv x
      rw [hgx, ← hT, (div_mod_block c T _ hrest).1, (div_mod_block c T _ hrest).2] at hs
      rw [embed_get n bits M r x hr hxlt]
      have hag : agreeOff n bits r x = true := (agreeOff_iff' n bits r x).2 hs.2
      rw [if_pos hag, ← hs.1]
    · intro j' hj' hne
      have hj'lt : j' < T := Finset.mem_range.1 hj'
      have hj : c * T + j' < 2 ^ n := by
        rw [← pow_split n _ hk, ← hT]; exact block_lt c _ T _ hc' hj'lt
      set x := (gatherInv n bits).getD (c * T + j') 0 with hx
      have hxlt : x < 2 ^ n := gatherInv_lt n bits hv _ hj
      have hgx : gatherIndex n bits x = c * T + j' := gather_gatherInv n bits hv _ hj
      have hs := gather_split n bits hv x
      rw [hgx, ← hT, (div_mod_block c T _ hj'lt).1, (div_mod_block c T _ hj'lt).2] at hs
      rw [embed_get n bits M r x hr hxlt]
      have hag : ¬ agreeOff n bits r x = true := by
        intro h
        have := (agreeOff_iff' n bits r x).1 h
        rw [← hs.2] at this
        exact hne this.symm
      rw [if_neg hag, zero_mul]
    · intro h; exact absurd (Finset.mem_range.2 hrest) h


theorem validBits_single (n b : Nat) (hb : b < n) : validBits n [b] = true := by
  simp [validBits, hb]

theorem gatherIndex_single (n b x : Nat) (hb : b < n) (hx : x < 2 ^ n) :
    gatherIndex n [b] x = moveBit n b x := by
  have h := bitPermLoop_eq n [b] (validBits_single n b hb)
  simp only [List.length_cons, List.length_nil, List.reverse_cons, List.reverse_nil, List.nil_append] at h
  rw [show (0 + 1 : Nat) = 0 + 1 from rfl, bitPermLoop, if_neg (by omega)] at h
  simp only [List.map_nil, bitPermLoop, Option.some.injEq] at h
  have := congrArg (fun l => l[x]?) h
  simp only [List.getElem?_map, List.getElem?_range hx, Option.map_some, Option.some.injEq] at this
  exact this.symm

/-- `x = (i·2 + c)·t + j` with `t = 2^(n-b-1)`: qubit `b` of `x` is `c`, the other qubits spell `i·t + j` -/
theorem gather_single_split (n b i c j : Nat) (hb : b < n) (hi : i < 2 ^ b) (hc : c < 2)
    (hj : j < 2 ^ (n - b - 1)) :
    gatherIndex n [b] ((i * 2 + c) * 2 ^ (n - b - 1) + j) = c * 2 ^ (n - 1) + (i * 2 ^ (n - b - 1) + j) ∧
    (i * 2 + c) * 2 ^ (n - b - 1) + j < 2 ^ n ∧ i * 2 ^ (n - b - 1) + j < 2 ^ (n - 1) := by
  have hn : b + (n - b - 1) + 1 = n := by omega
  have hn1 : b + (n - b - 1) = n - 1 := by omega
  have hlt : (i * 2 + c) * 2 ^ (n - b - 1) + j < 2 ^ n := by
    have h1 : i * 2 + c < 2 ^ (b + 1) := by rw [Nat.pow_succ]; omega
    have h2 : 2 ^ (b + 1) * 2 ^ (n - b - 1) = 2 ^ n := by rw [← Nat.pow_add]; congr 1; omega
    rw [← h2]; exact block_lt _ _ _ _ h1 hj
  have hlt2 : i * 2 ^ (n - b - 1) + j < 2 ^ (n - 1) := by
    have h2 : 2 ^ b * 2 ^ (n - b - 1) = 2 ^ (n - 1) := by rw [← Nat.pow_add, hn1]
    rw [← h2]; exact block_lt _ _ _ _ hi hj
  refine ⟨?_, hlt, hlt2⟩
  rw [gatherIndex_single n b _ hb hlt]
  have := moveBit_arith b (n - b - 1) i c j hi hc hj
  rw [hn, hn1] at this
  rw [this]; ring


theorem singleBranch_spec (m : Mode) (w : Nat) (hw : OkWidth m w) (n b : Nat) (hb : b < n)
    (M : LMat α) (hM : M.length = 2) (f : List (Row α m) → Option (List (Row α m)))
    (hf : ∀ blk, blk.length = 2 ^ (n - b) → RowsW m w blk →
      f blk = some (blockMul m w M (2 ^ (n - b - 1)) blk))
    (v : List (Row α m)) (hlen : v.length = 2 ^ n) (hvw : RowsW m w v) :
    ((blocks (2 ^ b) v).bind fun bs => (bs.mapM f).map List.flatten) =
      some (gatherApply m w n [b] M v) := by
  have hv := validBits_single n b hb
  set L := 2 ^ (n - b) with hL
  set t := 2 ^ (n - b - 1) with ht
  have hLt : L = 2 * t := by rw [hL, ht, ← Nat.pow_succ']; congr 1; omega
  have hnL : 2 ^ b * L = 2 ^ n := by rw [hL]; exact pow_split n b (by omega)
  have htpos : 0 < t := Nat.two_pow_pos _
  have hblkl : ∀ i, i < 2 ^ b → ((v.drop (i * L)).take L).length = L := by
    intro i hi
    rw [List.length_take, List.length_drop, hlen, ← hnL]
    have := block_lt i _ L 0 hi (by omega)
    have h2 := Nat.mul_le_mul_right L (Nat.succ_le_of_lt hi); rw [Nat.succ_mul] at h2; omega
  rw [blocksMap_spec (2 ^ b) L (by positivity) v (by rw [hlen, hnL]) f
    (fun i => blockMul m w M t ((v.drop (i * L)).take L))
    (fun i hi => hf _ (hblkl i hi) (rowsW_take m w _ _ (rowsW_drop m w v _ hvw)))]
  congr 1
  have hFl : ∀ i, i < 2 ^ b → (blockMul m w M t ((v.drop (i * L)).take L)).length = L := by
    intro i _; rw [blockMul_length, hM, hLt]
  apply state_ext m w
  · rw [flatten_uniform_length (2 ^ b) L _ hFl, gatherApply_length, hnL]
  · exact flatten_uniform_rowsW m w _ _ (fun i _ => blockMul_rowsW m w hw _ _ _)
  · exact gatherApply_rowsW m w hw n [b] M v
  · intro r col hr hcol
    rw [flatten_uniform_length (2 ^ b) L _ hFl] at hr
    have hr' : r < 2 ^ n := by rw [← hnL]; exact hr
    have hLpos : 0 < L := by rw [hLt]; omega
    set i := r / L with hi
    set r1 := r % L with hr1
    have hilt : i < 2 ^ b := by rw [hi, Nat.div_lt_iff_lt_mul hLpos]; exact hr
    have hr1lt : r1 < 2 * t := by rw [hr1, ← hLt]; exact Nat.mod_lt _ hLpos
    set q := r1 / t with hq
    set j := r1 % t with hj
    have hqlt : q < 2 := by rw [hq, Nat.div_lt_iff_lt_mul htpos]; exact hr1lt
    have hjlt : j < t := Nat.mod_lt _ htpos
    have hrsplit : r = (i * 2 + q) * t + j := by
      have a1 : r = i * L + r1 := (Nat.div_add_mod' r L).symm
      have a2 : r1 = q * t + j := (Nat.div_add_mod' r1 t).symm
      rw [a1, a2, hLt]; ring
    rw [stateEntry_flatten_uniform m (2 ^ b) L _ hFl r col hr, ← hi, ← hr1,
      blockMul_entry m w hw M t _ r1 col (by rw [hM]; exact hr1lt) hcol, hM, ← hq, ← hj,
      gatherApply_entry m w hw n [b] M v r col hr' hcol]
    simp only [List.length_cons, List.length_nil, Nat.zero_add, Nat.pow_one]
    -- the qubit values of `r`
    obtain ⟨g1, _, g3⟩ := gather_single_split n b i q j hb hilt hqlt hjlt
    rw [← hrsplit] at g1
    have hs := gather_split n [b] hv r
    simp only [List.length_cons, List.length_nil, Nat.zero_add] at hs
    rw [g1, (div_mod_block q _ _ g3).1, (div_mod_block q _ _ g3).2] at hs
    rw [← hs.1, ← hs.2]
    apply Finset.sum_congr rfl
    intro c hc
    have hc' : c < 2 := Finset.mem_range.1 hc
    obtain ⟨e1, e2, _⟩ := gather_single_split n b i c j hb hilt hc' hjlt
    rw [← e1, gatherInv_gather n [b] hv _ e2,
      stateEntry_block _ _ _ _ _ _ (by rw [hLt]; exact block_lt c 2 t j hc' hjlt)]
    congr 2
    rw [hLt]; ring


end Q1t.Proofs.Route

import Q1t.Proofs.DetShapeSp
set_option linter.unusedSectionVars false
set_option linter.unusedVariables false
set_option linter.unusedSimpArgs false
/-!
`PartN1`, step a: how `swap_rows` and `multiply_row` move the X-bits / Z-bits of the cells.
`bit sel t k c` is the `sel`-bit (`sel = P.hasX` or `P.hasZ`) of cell `(k, c)`, `false` outside the tableau.
-/
namespace Q1t.Proofs.DetPlan
open Q1t Q1t.Tableau Q1t.Spec.Pauli Q1t.Proofs.Tableau Q1t.Proofs.TabG

def bitAt (sel : P → Bool) (r : List P) (c : Nat) : Bool := match r[c]? with | some p => sel p | none => false
def rowD (t : Tab) (k : Nat) : List P := t.rows.getD k []
def bit (sel : P → Bool) (t : Tab) (k c : Nat) : Bool := bitAt sel (rowD t k) c

theorem xAt_eq_bitAt (r : List P) (c : Nat) : xAt r c = bitAt P.hasX r c := rfl
theorem zbitAt_eq_bitAt (r : List P) (c : Nat) : zbitAt r c = bitAt P.hasZ r c := rfl

/-- selectors that are additive for the cell-wise product -/
def XorLin (sel : P → Bool) : Prop := ∀ a b : P, sel (mulP a b).2 = (sel a != sel b)

theorem xorLin_hasX : XorLin P.hasX := fun a b => by rw [mulP_eq_table]; cases a <;> cases b <;> rfl
theorem xorLin_hasZ : XorLin P.hasZ := fun a b => by rw [mulP_eq_table]; cases a <;> cases b <;> rfl

theorem bitAt_opsMul {sel : P → Bool} (hsel : XorLin sel) (r0 r1 : List P) (hl : r0.length = r1.length) (c : Nat) :
    bitAt sel (opsMul r0 r1) c = (bitAt sel r0 c != bitAt sel r1 c) := by
  by_cases hc : c < r0.length
  · have ha : r0[c]? = some r0[c] := List.getElem?_eq_getElem hc
    have hb : r1[c]? = some r1[c] := List.getElem?_eq_getElem (by omega)
    simp only [bitAt, opsMul_getElem? r0 r1 c _ _ ha hb, ha, hb]
    exact hsel _ _
  · have h0 : r0[c]? = none := List.getElem?_eq_none (by omega)
    have h1 : r1[c]? = none := List.getElem?_eq_none (by omega)
    have h2 : (opsMul r0 r1)[c]? = none := List.getElem?_eq_none (by rw [opsMul_length r0 r1 hl]; omega)
    simp [bitAt, h0, h1, h2]

theorem rowD_of_getElem? (t : Tab) (k : Nat) (r : List P) (h : t.rows[k]? = some r) : rowD t k = r := by
  simp [rowD, List.getD_eq_getElem?_getD, h]

theorem rowD_getElem? (t : Tab) (k : Nat) (hk : k < t.rows.length) : t.rows[k]? = some (rowD t k) := by
  simp [rowD, List.getD_eq_getElem?_getD, List.getElem?_eq_getElem hk]

/-- `swap_rows` permutes the rows -/
theorem swapRows_rowD (t t' : Tab) (a b : Nat) (h : t.swapRows a b = .ok t') :
    t'.n = t.n ∧ (t.WF → t'.WF) ∧ ∀ k, rowD t' k = rowD t (swapIdx a b k) := by
  obtain ⟨_, hn, hwf⟩ := swapRows_inv (α := Q8) (A := Empty) t t' a b h
  refine ⟨hn, hwf, ?_⟩
  unfold Tab.swapRows Tab.row Tab.sign at h
  obtain ⟨r0, hr0, h⟩ := bind_ok h
  obtain ⟨r1, hr1, h⟩ := bind_ok h
  obtain ⟨s0, hs0, h⟩ := bind_ok h
  obtain ⟨s1, hs1, h⟩ := bind_ok h
  have hr0 := ofOption_ok hr0; have hr1 := ofOption_ok hr1
  cases h
  intro k
  simp only [rowD, List.getD_eq_getElem?_getD, swap_getElem? _ a b _ _ hr0 hr1]

/-- `multiply_row(m, i)`, `m ≠ i`: row `m` becomes the cell-wise product, nothing else moves -/
theorem multiplyRow_rowD (t t' : Tab) (m i : Nat) (hwf : t.WF) (hne : m ≠ i)
    (h : t.multiplyRow phG m i = .ok t') :
    t'.n = t.n ∧ t'.WF ∧ ∀ k, rowD t' k = if k = m then opsMul (rowD t m) (rowD t i) else rowD t k := by
  obtain ⟨_, hn, hwf'⟩ := multiplyRow_inv (α := Q8) (A := Empty) Q8.lawful phaseTable_correct t t' m i hwf hne h
  refine ⟨hn, hwf', ?_⟩
  obtain ⟨r0, r1, s0, s1, hr0, hr1, _, _, _, ht', _⟩ := multiplyRow_ok_inv phaseTable_correct t t' m i h
  intro k
  have hm : m < t.rows.length := (List.getElem?_eq_some_iff.mp hr0).1
  rw [ht']
  simp only [rowD, List.getD_eq_getElem?_getD, List.getElem?_set]
  by_cases hk : k = m
  · subst hk
    have hr1' : t.rows.getD i [] = r1 := by simp [List.getD_eq_getElem?_getD, hr1]
    have hr0' : t.rows.getD k [] = r0 := by simp [List.getD_eq_getElem?_getD, hr0]
    simp only [List.getD_eq_getElem?_getD] at hr0' hr1'
    have hk0 : t.rows[k] = r0 := (List.getElem?_eq_some_iff.mp hr0).2
    simp [hm, hr0', hr1', hk0, PStr.mul, rowStr]
  · simp [hk, Ne.symm hk]

theorem multiplyRow_bit {sel : P → Bool} (hsel : XorLin sel) (t t' : Tab) (m i : Nat) (hwf : t.WF) (hne : m ≠ i)
    (hm : m < t.n) (hi : i < t.n) (h : t.multiplyRow phG m i = .ok t') (k c : Nat) :
    bit sel t' k c = if k = m then (bit sel t m c != bit sel t i c) else bit sel t k c := by
  obtain ⟨_, _, hrow⟩ := multiplyRow_rowD t t' m i hwf hne h
  unfold bit
  rw [hrow k]
  split
  · have hl : (rowD t m).length = (rowD t i).length := by
      obtain ⟨w1, _, w3⟩ := hwf
      rw [w3 _ (List.mem_of_getElem? (rowD_getElem? t m (by omega))),
        w3 _ (List.mem_of_getElem? (rowD_getElem? t i (by omega)))]
    exact bitAt_opsMul hsel _ _ hl c
  · rfl

end Q1t.Proofs.DetPlan

import Q1t.Proofs.LMatBridge
import Q1t.Spec.Clifford
import Mathlib.LinearAlgebra.Matrix.NonsingularInverse
set_option linter.unusedSimpArgs false
set_option linter.unusedSectionVars false
set_option linter.unusedVariables false
/-!
# C06, part 3: exactness of conjugation rules, in Mathlib's matrix algebra

* shape of `sigma`, `pauliMat`, `signed`, `adjoint`, and their images under `LMat.toM`;
* `IntM U X Y flip` — `U * X = ± Y * U` for Mathlib matrices; it composes under products, powers and
  Kronecker products (mixed-product property), signs multiply as `xor` of the flags;
* `isConj_iff_intertwines` — for unitary `M`: `M·P·Mᴴ = ±P'  ↔  M·P = ±P'·M`;
* `pauliMat (o₀ ++ o₁) = pauliMat o₀ ⊗ pauliMat o₁`.
-/
namespace Q1t.Proofs.ConjBridge
open Q1t Q1t.LMat Q1t.Spec Q1t.Spec.Clifford

variable {α A : Type} [CommRing α] [Amp α A]

/-! ## shapes -/

theorem wf_sigma (p : Pauli) : WF 2 2 (sigma A p : LMat α) := by
  cases p <;> simp [sigma, WF]

theorem wf_pauliMat : ∀ ops : List Pauli, WF (2 ^ ops.length) (2 ^ ops.length) (pauliMat A ops : LMat α)
  | [] => by simp [pauliMat, WF]
  | p :: ps => by
    have h := wf_kronecker (wf_sigma (α := α) (A := A) p) (wf_pauliMat ps) (by decide) (Nat.pow_pos (by decide))
    simp only [List.length_cons, Nat.pow_succ']
    exact h

theorem wf_pauliMat' {k : Nat} {ops : List Pauli} (h : ops.length = k) :
    WF (2 ^ k) (2 ^ k) (pauliMat A ops : LMat α) := h ▸ wf_pauliMat ops

theorem wf_signed {n m : Nat} {X : LMat α} (hX : WF n m X) (flip : Bool) : WF n m (signed flip X) := by
  cases flip
  · simpa [signed] using hX
  · simpa [signed] using wf_mapEntries _ hX

/-- the sign as a scalar -/
def sgn (flip : Bool) : α := if flip then -1 else 1

theorem sgn_xor (a b : Bool) : (sgn (a != b) : α) = sgn a * sgn b := by
  cases a <;> cases b <;> simp [sgn]

theorem toM_signed {n m : Nat} {X : LMat α} (hX : WF n m X) (flip : Bool) :
    toM n m (signed flip X) = (sgn flip : α) • toM n m X := by
  cases flip
  · simp [signed, sgn]
  · ext i j
    simp only [signed, sgn, if_true, toM, Matrix.of_apply, Matrix.smul_apply, smul_eq_mul]
    rw [get_mapEntries _ hX i.2 j.2]
    ring

theorem wf_adjoint {n : Nat} {M : LMat α} (hM : WF n n M) : WF n n (adjoint A M) := by
  unfold adjoint
  rw [hM.1]
  exact wf_transpose _ (by simp [mapEntries, hM.1])

theorem toM_adjoint {n : Nat} {M : LMat α} (hM : WF n n M) :
    toM n n (adjoint A M) = adjM (toM n n M) A := by
  unfold adjoint
  rw [hM.1]
  ext i j
  simp only [toM, adjM, Matrix.of_apply, Matrix.transpose_apply, Matrix.map_apply]
  rw [get_transpose (wf_mapEntries _ hM) i.2 j.2, get_mapEntries _ hM j.2 i.2]

/-! ## `U * X = ± Y * U` -/

section intm
variable {ι : Type} [Fintype ι] [DecidableEq ι]

/-- `U * X = ± Y * U` -/
def IntM (U X Y : Matrix ι ι α) (flip : Bool) : Prop := U * X = (sgn flip : α) • (Y * U)

theorem IntM.one (X : Matrix ι ι α) : IntM 1 X X false := by
  simp [IntM, sgn]

theorem IntM.comp {U V X Y Z : Matrix ι ι α} {a b : Bool} (h1 : IntM U X Y a) (h2 : IntM V Y Z b) :
    IntM (V * U) X Z (a != b) := by
  unfold IntM at *
  rw [Matrix.mul_assoc, h1, Matrix.mul_smul, ← Matrix.mul_assoc, h2, Matrix.smul_mul, smul_smul,
    Matrix.mul_assoc, sgn_xor]

/-- conjugation form from the intertwining form, for `U * Uᴴ = 1` -/
theorem conj_of_intM {U X Y Ud : Matrix ι ι α} {a : Bool} (hU : U * Ud = 1) (h : IntM U X Y a) :
    U * X * Ud = (sgn a : α) • Y := by
  unfold IntM at h
  rw [h, Matrix.smul_mul, Matrix.mul_assoc, hU, Matrix.mul_one]

theorem intM_of_conj {U X Y Ud : Matrix ι ι α} {a : Bool} (hU : U * Ud = 1)
    (h : U * X * Ud = (sgn a : α) • Y) : IntM U X Y a := by
  have hU' : Ud * U = 1 := mul_eq_one_comm.1 hU
  unfold IntM
  have : U * X = U * X * Ud * U := by rw [Matrix.mul_assoc (U * X), hU', Matrix.mul_one]
  rw [this, h, Matrix.smul_mul]

end intm

/-- Kronecker products: mixed-product property -/
theorem IntM.kron {ι κ : Type} [Fintype ι] [DecidableEq ι] [Fintype κ] [DecidableEq κ]
    {U X Y : Matrix ι ι α} {V X' Y' : Matrix κ κ α} {a b : Bool} (h1 : IntM U X Y a) (h2 : IntM V X' Y' b) :
    IntM (Matrix.kroneckerMap (· * ·) U V) (Matrix.kroneckerMap (· * ·) X X')
      (Matrix.kroneckerMap (· * ·) Y Y') (a != b) := by
  unfold IntM at *
  rw [← Matrix.mul_kronecker_mul, ← Matrix.mul_kronecker_mul, h1, h2]
  ext ⟨i, i'⟩ ⟨j, j'⟩
  simp only [Matrix.kroneckerMap_apply, Matrix.smul_apply, smul_eq_mul, sgn_xor]
  ring

theorem IntM.reindex {ι κ : Type} [Fintype ι] [DecidableEq ι] [Fintype κ] [DecidableEq κ] (e : ι ≃ κ)
    {U X Y : Matrix ι ι α} {a : Bool} (h : IntM U X Y a) :
    IntM (Matrix.reindex e e U) (Matrix.reindex e e X) (Matrix.reindex e e Y) a := by
  unfold IntM at *
  simp only [Matrix.reindex_apply, Matrix.submatrix_mul_equiv, h]
  rfl

/-! ## the list-matrix statements in Mathlib terms -/

theorem intertwines_iff {n k : Nat} (hn : n = 2 ^ k) {M : LMat α} (hM : WF n n M) {ops ops' : List Pauli}
    (ho : ops.length = k) (ho' : ops'.length = k) (flip : Bool) :
    Intertwines A M ops flip ops' ↔
      IntM (toM n n M) (toM n n (pauliMat A ops)) (toM n n (pauliMat A ops')) flip := by
  subst hn
  have hpos : 0 < 2 ^ k := Nat.pow_pos (by decide)
  have hP := wf_pauliMat' (α := α) (A := A) ho
  have hP' := wf_pauliMat' (α := α) (A := A) ho'
  unfold Intertwines IntM
  constructor
  · intro h
    have := congrArg (toM (2 ^ k) (2 ^ k)) h
    rwa [toM_mul hM hP hpos, toM_signed (wf_mul hP' hM hpos), toM_mul hP' hM hpos] at this
  · intro h
    apply toM_inj (wf_mul hM hP hpos) (wf_signed (wf_mul hP' hM hpos) flip)
    rw [toM_mul hM hP hpos, toM_signed (wf_mul hP' hM hpos), toM_mul hP' hM hpos]
    exact h

theorem isConj_iff {n k : Nat} (hn : n = 2 ^ k) {M : LMat α} (hM : WF n n M) {ops ops' : List Pauli}
    (ho : ops.length = k) (ho' : ops'.length = k) (flip : Bool) :
    Clifford.IsConj A M ops flip ops' ↔
      toM n n M * toM n n (pauliMat A ops) * adjM (toM n n M) A =
        (sgn flip : α) • toM n n (pauliMat A ops') := by
  subst hn
  have hpos : 0 < 2 ^ k := Nat.pow_pos (by decide)
  have hP := wf_pauliMat' (α := α) (A := A) ho
  have hP' := wf_pauliMat' (α := α) (A := A) ho'
  have hAd := wf_adjoint (A := A) hM
  unfold Clifford.IsConj conjBy
  constructor
  · intro h
    have := congrArg (toM (2 ^ k) (2 ^ k)) h
    rwa [toM_mul (wf_mul hM hP hpos) hAd hpos, toM_mul hM hP hpos, toM_adjoint hM, toM_signed hP'] at this
  · intro h
    apply toM_inj (wf_mul (wf_mul hM hP hpos) hAd hpos) (wf_signed hP' flip)
    rw [toM_mul (wf_mul hM hP hpos) hAd hpos, toM_mul hM hP hpos, toM_adjoint hM, toM_signed hP']
    exact h

theorem isUnitary_iff {k : Nat} {M : LMat α} :
    IsUnitary A k M ↔ WF (2 ^ k) (2 ^ k) M ∧ toM (2 ^ k) (2 ^ k) M * adjM (toM (2 ^ k) (2 ^ k) M) A = 1 := by
  have hpos : 0 < 2 ^ k := Nat.pow_pos (by decide)
  have : IsUnitary A k M ↔ LMat.Unitary A (2 ^ k) M := by
    unfold IsUnitary LMat.Unitary WF mulAdjoint adjoint
    constructor
    · rintro ⟨h1, h2, h3⟩; exact ⟨⟨h1, h2⟩, h3⟩
    · rintro ⟨⟨h1, h2⟩, h3⟩; exact ⟨h1, h2, h3⟩
  rw [this, unitary_iff hpos]

/-- For a unitary matrix the two forms of exactness coincide. -/
theorem isConj_iff_intertwines {k : Nat} {M : LMat α} (hU : IsUnitary A k M) {ops ops' : List Pauli}
    (ho : ops.length = k) (ho' : ops'.length = k) (flip : Bool) :
    Clifford.IsConj A M ops flip ops' ↔ Intertwines A M ops flip ops' := by
  obtain ⟨hM, hUU⟩ := isUnitary_iff.1 hU
  rw [isConj_iff rfl hM ho ho', intertwines_iff rfl hM ho ho']
  exact ⟨intM_of_conj hUU, conj_of_intM hUU⟩


/-! ## `pauliMat (a ++ b) = pauliMat a ⊗ pauliMat b` -/

theorem kronecker_one_left {n m : Nat} {B : LMat α} (hB : WF n m B) (hn : 0 < n) :
    kronecker ([[1]] : LMat α) B = B := by
  have h1 : WF 1 1 ([[1]] : LMat α) := by simp [WF]
  have hk := wf_kronecker h1 hB (by decide) hn
  rw [Nat.one_mul, Nat.one_mul] at hk
  apply ext_get hk hB
  intro i hi j hj
  have := get_kronecker h1 hB (by decide) hn (i := i) (j := j) (by omega) (by omega)
  rw [this, Nat.div_eq_of_lt hi, Nat.mod_eq_of_lt hi]
  by_cases hm : m = 0
  · subst hm; omega
  · rw [Nat.div_eq_of_lt hj, Nat.mod_eq_of_lt hj]
    simp [LMat.get]

theorem kronecker_assoc {s a b : Nat} {S X Y : LMat α} (hS : WF s s S) (hX : WF a a X) (hY : WF b b Y)
    (hs : 0 < s) (ha : 0 < a) (hb : 0 < b) :
    kronecker (kronecker S X) Y = kronecker S (kronecker X Y) := by
  have hSX := wf_kronecker hS hX hs ha
  have hXY := wf_kronecker hX hY ha hb
  have hL := wf_kronecker hSX hY (Nat.mul_pos hs ha) hb
  have hR := wf_kronecker hS hXY hs (Nat.mul_pos ha hb)
  rw [← Nat.mul_assoc] at hR
  apply ext_get hL hR
  intro i hi j hj
  have hi' : i < s * (a * b) := by rw [← Nat.mul_assoc]; exact hi
  have hj' : j < s * (a * b) := by rw [← Nat.mul_assoc]; exact hj
  have hdi : i / b < s * a := by rw [Nat.div_lt_iff_lt_mul hb]; exact hi
  have hdj : j / b < s * a := by rw [Nat.div_lt_iff_lt_mul hb]; exact hj
  have hab : 0 < a * b := Nat.mul_pos ha hb
  rw [get_kronecker hSX hY (Nat.mul_pos hs ha) hb hi hj, get_kronecker hS hX hs ha hdi hdj,
    get_kronecker hS hXY hs hab hi' hj',
    get_kronecker hX hY ha hb (Nat.mod_lt _ hab) (Nat.mod_lt _ hab)]
  have e1 : ∀ x, x / b / a = x / (a * b) := fun x => by rw [Nat.div_div_eq_div_mul, Nat.mul_comm]
  have e2 : ∀ x, x % (a * b) / b = x / b % a := fun x => by
    rw [Nat.mul_comm a b, Nat.mod_mul_right_div_self]
  have e3 : ∀ x, x % (a * b) % b = x % b := fun x => by
    rw [Nat.mul_comm a b, Nat.mod_mul_right_mod]
  rw [e1, e1, e2, e2, e3, e3]
  ring

theorem pauliMat_append : ∀ (a b : List Pauli),
    (pauliMat A (a ++ b) : LMat α) = kronecker (pauliMat A a) (pauliMat A b)
  | [], b => by
    rw [List.nil_append]
    exact (kronecker_one_left (wf_pauliMat b) (Nat.pow_pos (by decide))).symm
  | p :: a, b => by
    rw [List.cons_append]
    show kronecker (sigma A p) (pauliMat A (a ++ b)) = kronecker (kronecker (sigma A p) (pauliMat A a)) (pauliMat A b)
    rw [pauliMat_append a b]
    exact (kronecker_assoc (wf_sigma p) (wf_pauliMat a) (wf_pauliMat b) (by decide) (Nat.pow_pos (by decide))
      (Nat.pow_pos (by decide))).symm

/-- Kronecker products of exact rules: signs xor, strings concatenate -/
theorem kron_intertwines {k0 k1 : Nat} {M0 M1 : LMat α} (h0 : WF (2 ^ k0) (2 ^ k0) M0)
    (h1 : WF (2 ^ k1) (2 ^ k1) M1) {a a' b b' : List Pauli} (la : a.length = k0) (la' : a'.length = k0)
    (lb : b.length = k1) (lb' : b'.length = k1) {f0 f1 : Bool}
    (i0 : Intertwines A M0 a f0 a') (i1 : Intertwines A M1 b f1 b') :
    Intertwines A (kronecker M0 M1) (a ++ b) (f0 != f1) (a' ++ b') := by
  have hp0 : 0 < 2 ^ k0 := Nat.pow_pos (by decide)
  have hp1 : 0 < 2 ^ k1 := Nat.pow_pos (by decide)
  have hn : 2 ^ k0 * 2 ^ k1 = 2 ^ (k0 + k1) := (Nat.pow_add 2 k0 k1).symm
  rw [intertwines_iff hn (wf_kronecker h0 h1 hp0 hp1) (by simp [la, lb]) (by simp [la', lb']),
    pauliMat_append, pauliMat_append,
    toM_kronecker h0 h1 hp0 hp1, toM_kronecker (wf_pauliMat' la) (wf_pauliMat' lb) hp0 hp1,
    toM_kronecker (wf_pauliMat' la') (wf_pauliMat' lb') hp0 hp1]
  exact IntM.reindex _ (IntM.kron ((intertwines_iff rfl h0 la la' f0).1 i0) ((intertwines_iff rfl h1 lb lb' f1).1 i1))

/-- sequential composition: `B` after `M` -/
theorem mul_intertwines {k : Nat} {M B : LMat α} (hM : WF (2 ^ k) (2 ^ k) M) (hB : WF (2 ^ k) (2 ^ k) B)
    {a b c : List Pauli} (la : a.length = k) (lb : b.length = k) (lc : c.length = k) {f0 f1 : Bool}
    (i0 : Intertwines A M a f0 b) (i1 : Intertwines A B b f1 c) :
    Intertwines A (LMat.mul B M) a (f0 != f1) c := by
  have hp : 0 < 2 ^ k := Nat.pow_pos (by decide)
  rw [intertwines_iff rfl (wf_mul hB hM hp) la lc, toM_mul hB hM hp]
  exact IntM.comp ((intertwines_iff rfl hM la lb f0).1 i0) ((intertwines_iff rfl hB lb lc f1).1 i1)

theorem identity_intertwines {k : Nat} {a : List Pauli} (la : a.length = k) :
    Intertwines A (LMat.identity (2 ^ k) : LMat α) a false a := by
  rw [intertwines_iff rfl (wf_identity _) la la, toM_identity]
  exact IntM.one _

end Q1t.Proofs.ConjBridge

import Q1t.Proofs.LMatBridge
import Q1t.Spec.Clifford
import Mathlib.LinearAlgebra.Matrix.NonsingularInverse
set_option linter.unusedSimpArgs false
set_option linter.unusedSectionVars false
set_option linter.unusedVariables false
/-!
# C06, part 3: exactness of conjugation rules, in Mathlib's matrix algebra

* shape of `sigma`, `pauliMat`, `signed`, `adjoint`, and their images under `LMat.toM`;
* `IntM U X Y flip` — `U * X = ± Y * U` for Mathlib matrices; it composes under products, powers and
  Kronecker products (mixed-product property), signs multiply as `xor` of the flags;
* `isConj_iff_intertwines` — for unitary `M`: `M·P·Mᴴ = ±P'  ↔  M·P = ±P'·M`;
* `pauliMat (o₀ ++ o₁) = pauliMat o₀ ⊗ pauliMat o₁`.
-/
namespace Q1t.Proofs.ConjBridge
open Q1t Q1t.LMat Q1t.Spec Q1t.Spec.Clifford

variable {α A : Type} [CommRing α] [Amp α A]

/-! ## shapes -/

theorem wf_sigma (p : Pauli) : WF 2 2 (sigma A p : LMat α) := by
  cases p <;> simp [sigma, WF]

theorem wf_pauliMat : ∀ ops : List Pauli, WF (2 ^ ops.length) (2 ^ ops.length) (pauliMat A ops : LMat α)
  | [] => by simp [pauliMat, WF]
  | p :: ps => by
    have h := wf_kronecker (wf_sigma (α := α) (A := A) p) (wf_pauliMat ps) (by decide) (Nat.pow_pos (by decide))
    simp only [List.length_cons, Nat.pow_succ']
    exact h

theorem wf_pauliMat' {k : Nat} {ops : List Pauli} (h : ops.length = k) :
    WF (2 ^ k) (2 ^ k) (pauliMat A ops : LMat α) := h ▸ wf_pauliMat ops

theorem wf_signed {n m : Nat} {X : LMat α} (hX : WF n m X) (flip : Bool) : WF n m (signed flip X) := by
  cases flip
  · simpa [signed] using hX
  · simpa [signed] using wf_mapEntries _ hX

/-- the sign as a scalar -/
def sgn (flip : Bool) : α := if flip then -1 else 1

theorem sgn_xor (a b : Bool) : (sgn (a != b) : α) = sgn a * sgn b := by
  cases a <;> cases b <;> simp [sgn]

theorem toM_signed {n m : Nat} {X : LMat α} (hX : WF n m X) (flip : Bool) :
    toM n m (signed flip X) = (sgn flip : α) • toM n m X := by
  cases flip
  · simp [signed, sgn]
  · ext i j
    simp only [signed, sgn, if_true, toM, Matrix.of_apply, Matrix.smul_apply, smul_eq_mul]
    rw [get_mapEntries _ hX i.2 j.2]
    ring

theorem wf_adjoint {n : Nat} {M : LMat α} (hM : WF n n M) : WF n n (adjoint A M) := by
  unfold adjoint
  rw [hM.1]
  exact wf_transpose _ (by simp [mapEntries, hM.1])

theorem toM_adjoint {n : Nat} {M : LMat α} (hM : WF n n M) :
    toM n n (adjoint A M) = adjM (toM n n M) A := by
  unfold adjoint
  rw [hM.1]
  ext i j
  simp only [toM, adjM, Matrix.of_apply, Matrix.transpose_apply, Matrix.map_apply]
  rw [get_transpose (wf_mapEntries _ hM) i.2 j.2, get_mapEntries _ hM j.2 i.2]

/-! ## `U * X = ± Y * U` -/

section intm
variable {ι : Type} [Fintype ι] [DecidableEq ι]

/-- `U * X = ± Y * U` -/
def IntM (U X Y : Matrix ι ι α) (flip : Bool) : Prop := U * X = (sgn flip : α) • (Y * U)

theorem IntM.one (X : Matrix ι ι α) : IntM 1 X X false := by
  simp [IntM, sgn]

theorem IntM.comp {U V X Y Z : Matrix ι ι α} {a b : Bool} (h1 : IntM U X Y a) (h2 : IntM V Y Z b) :
    IntM (V * U) X Z (a != b) := by
  unfold IntM at *
  rw [Matrix.mul_assoc, h1, Matrix.mul_smul, ← Matrix.mul_assoc, h2, Matrix.smul_mul, smul_smul,
    Matrix.mul_assoc, sgn_xor]

/-- the model's loops accumulate the flag as `flip != fl` starting from any `flip` -/
theorem IntM.pow {U : Matrix ι ι α} (rule : Matrix ι ι α → Matrix ι ι α → Bool → Prop) :
    True := trivial

/-- conjugation form from the intertwining form, for `U * Uᴴ = 1` -/
theorem conj_of_intM {U X Y Ud : Matrix ι ι α} {a : Bool} (hU : U * Ud = 1) (h : IntM U X Y a) :
    U * X * Ud = (sgn a : α) • Y := by
  unfold IntM at h
  rw [h, Matrix.smul_mul, Matrix.mul_assoc, hU, Matrix.mul_one]

theorem intM_of_conj {U X Y Ud : Matrix ι ι α} {a : Bool} (hU : U * Ud = 1)
    (h : U * X * Ud = (sgn a : α) • Y) : IntM U X Y a := by
  have hU' : Ud * U = 1 := Matrix.mul_eq_one_comm.1 hU
  unfold IntM
  have : U * X = U * X * Ud * U := by rw [Matrix.mul_assoc (U * X), hU', Matrix.mul_one]
  rw [this, h, Matrix.smul_mul]

end intm

/-- Kronecker products: mixed-product property -/
theorem IntM.kron {ι κ : Type} [Fintype ι] [DecidableEq ι] [Fintype κ] [DecidableEq κ]
    {U X Y : Matrix ι ι α} {V X' Y' : Matrix κ κ α} {a b : Bool} (h1 : IntM U X Y a) (h2 : IntM V X' Y' b) :
    IntM (Matrix.kroneckerMap (· * ·) U V) (Matrix.kroneckerMap (· * ·) X X')
      (Matrix.kroneckerMap (· * ·) Y Y') (a != b) := by
  unfold IntM at *
  rw [← Matrix.mul_kronecker_mul, ← Matrix.mul_kronecker_mul, h1, h2]
  ext ⟨i, i'⟩ ⟨j, j'⟩
  simp only [Matrix.kroneckerMap_apply, Matrix.smul_apply, smul_eq_mul, sgn_xor]
  ring

theorem IntM.reindex {ι κ : Type} [Fintype ι] [DecidableEq ι] [Fintype κ] [DecidableEq κ] (e : ι ≃ κ)
    {U X Y : Matrix ι ι α} {a : Bool} (h : IntM U X Y a) :
    IntM (Matrix.reindex e e U) (Matrix.reindex e e X) (Matrix.reindex e e Y) a := by
  unfold IntM at *
  simp only [Matrix.reindex_apply, Matrix.submatrix_mul_equiv, h]
  rfl

/-! ## the list-matrix statements in Mathlib terms -/

theorem intertwines_iff {n k : Nat} (hn : n = 2 ^ k) {M : LMat α} (hM : WF n n M) {ops ops' : List Pauli}
    (ho : ops.length = k) (ho' : ops'.length = k) (flip : Bool) :
    Intertwines A M ops flip ops' ↔
      IntM (toM n n M) (toM n n (pauliMat A ops)) (toM n n (pauliMat A ops')) flip := by
  subst hn
  have hpos : 0 < 2 ^ k := Nat.pow_pos (by decide)
  have hP := wf_pauliMat' (α := α) (A := A) ho
  have hP' := wf_pauliMat' (α := α) (A := A) ho'
  unfold Intertwines IntM
  constructor
  · intro h
    have := congrArg (toM (2 ^ k) (2 ^ k)) h
    rwa [toM_mul hM hP hpos, toM_signed (wf_mul hP' hM hpos), toM_mul hP' hM hpos] at this
  · intro h
    apply toM_inj (wf_mul hM hP hpos) (wf_signed (wf_mul hP' hM hpos) flip)
    rw [toM_mul hM hP hpos, toM_signed (wf_mul hP' hM hpos), toM_mul hP' hM hpos]
    exact h

theorem isConj_iff {n k : Nat} (hn : n = 2 ^ k) {M : LMat α} (hM : WF n n M) {ops ops' : List Pauli}
    (ho : ops.length = k) (ho' : ops'.length = k) (flip : Bool) :
    IsConj A M ops flip ops' ↔
      toM n n M * toM n n (pauliMat A ops) * adjM (toM n n M) A =
        (sgn flip : α) • toM n n (pauliMat A ops') := by
  subst hn
  have hpos : 0 < 2 ^ k := Nat.pow_pos (by decide)
  have hP := wf_pauliMat' (α := α) (A := A) ho
  have hP' := wf_pauliMat' (α := α) (A := A) ho'
  have hAd := wf_adjoint (A := A) hM
  unfold IsConj conjBy
  constructor
  · intro h
    have := congrArg (toM (2 ^ k) (2 ^ k)) h
    rwa [toM_mul (wf_mul hM hP hpos) hAd hpos, toM_mul hM hP hpos, toM_adjoint hM, toM_signed hP'] at this
  · intro h
    apply toM_inj (wf_mul (wf_mul hM hP hpos) hAd hpos) (wf_signed hP' flip)
    rw [toM_mul (wf_mul hM hP hpos) hAd hpos, toM_mul hM hP hpos, toM_adjoint hM, toM_signed hP']
    exact h

theorem isUnitary_iff {k : Nat} {M : LMat α} :
    IsUnitary A k M ↔ WF (2 ^ k) (2 ^ k) M ∧ toM (2 ^ k) (2 ^ k) M * adjM (toM (2 ^ k) (2 ^ k) M) A = 1 := by
  have hpos : 0 < 2 ^ k := Nat.pow_pos (by decide)
  have : IsUnitary A k M ↔ LMat.Unitary A (2 ^ k) M := by
    unfold IsUnitary LMat.Unitary WF mulAdjoint adjoint
    constructor
    · rintro ⟨h1, h2, h3⟩; exact ⟨⟨h1, h2⟩, h3⟩
    · rintro ⟨⟨h1, h2⟩, h3⟩; exact ⟨h1, h2, h3⟩
  rw [this, unitary_iff hpos]

/-- For a unitary matrix the two forms of exactness coincide. -/
theorem isConj_iff_intertwines {k : Nat} {M : LMat α} (hU : IsUnitary A k M) {ops ops' : List Pauli}
    (ho : ops.length = k) (ho' : ops'.length = k) (flip : Bool) :
    IsConj A M ops flip ops' ↔ Intertwines A M ops flip ops' := by
  obtain ⟨hM, hUU⟩ := isUnitary_iff.1 hU
  rw [isConj_iff rfl hM ho ho', intertwines_iff rfl hM ho ho']
  exact ⟨intM_of_conj hUU, conj_of_intM hUU⟩

end Q1t.Proofs.ConjBridge

import Q1t.Proofs.SimStab
import Q1t.Proofs.NoPanicGeneric
/-!
C18, stabilizer representation: the lift from tableau-level progress (`TabTotal`: on a tableau satisfying `TInv`
the operations `apply_gate` (placements in `V`), `measure`, `collapse`, `reset` RETURN and keep `TInv` — the
obligation of C03) to `BackendSafe` of `StabilizerState`: list bookkeeping over (tableau, count) ranges — ranges
positive and summing to the shot count (`collect_total` of the vector proof applies verbatim), one tableau per range.
-/
set_option linter.unusedSectionVars false
set_option linter.unusedVariables false
set_option linter.unusedSimpArgs false
namespace Q1t.Sim
open Q1t Q1t.Tableau Q1t.Builders Q1t.WellFormed

variable {α P : Type}

/-- the tableau-level obligations (C03) -/
structure TabTotal (ph : List Nat) (conjOf : GateTerm P → Tab.Conj) (n : Nat) (V : GateTerm P → List Nat → Prop)
    (TInv : Tab → Prop) : Prop where
  init : TInv (Tab.new n)
  arity : ∀ g bits, V g bits → Gate.nrBits g = bits.length
  gate : ∀ g bits t, TInv t → V g bits → ∃ t', Tab.applyGate ph (conjOf g) t bits = .ok t' ∧ TInv t'
  measure : ∀ t q, TInv t → q < n → ∃ info, Tab.measure t q = .ok info
  collapse : ∀ t q i v, TInv t → Tab.measure t q = .ok (.random i) → ∃ t', Tab.collapse ph t i q v = .ok t' ∧ TInv t'
  reset : ∀ t q, TInv t → q < n → ∃ t', Tab.reset ph t q = .ok t' ∧ TInv t'

/-- shape invariant of a `StabilizerState` over a tableau invariant -/
structure SInv (TInv : Tab → Prop) (n N : Nat) (s : StabState) : Prop where
  nrBits : s.nrBits = n
  nrShots : s.nrShots = N
  sum : s.counts.sum = N
  pos : ∀ c ∈ s.counts, 0 < c
  len : s.tabs.length = s.counts.length
  tabs : ∀ t ∈ s.tabs, TInv t

local notation "SafeS" => Safe (W := α) noErr (fun _ => False)

theorem lift_safe {β : Type} {Q : β → Prop} {r : Res β} {b : β} (h : r = .ok b) (hq : Q b) :
    SafeS Q (StabState.lift (α := α) r) := by
  subst h; exact .pure hq

theorem res_mapM_ok {σ τ : Type} (f : σ → Res τ) (Q : τ → Prop) : ∀ (l : List σ),
    (∀ x ∈ l, ∃ y, f x = .ok y ∧ Q y) → ∃ r, l.mapM f = .ok r ∧ r.length = l.length ∧ ∀ y ∈ r, Q y := by
  intro l
  induction l with
  | nil => intro _; exact ⟨[], by rw [List.mapM_nil]; rfl, rfl, by simp⟩
  | cons a l ih =>
    intro h
    obtain ⟨y, hy, hq⟩ := h a (by simp)
    obtain ⟨r, hr, hl, hall⟩ := ih (fun x hx => h x (by simp [hx]))
    refine ⟨y :: r, ?_, by simp [hl], ?_⟩
    · rw [List.mapM_cons, hy, hr]; rfl
    · intro z hz
      rcases List.mem_cons.mp hz with rfl | hz
      · exact hq
      · exact hall z hz

theorem lift_mapM_bind_safe {σ β : Type} {Q : β → Prop} {TInv : Tab → Prop} (f : σ → Res Tab) (l : List σ)
    (k : List Tab → Prog α β) (h : ∀ x ∈ l, ∃ y, f x = .ok y ∧ TInv y)
    (hk : ∀ ts : List Tab, ts.length = l.length → (∀ t ∈ ts, TInv t) → SafeS Q (k ts)) :
    SafeS Q ((StabState.lift (α := α) (l.mapM f)).bind k) := by
  obtain ⟨ts, h1, h2, h3⟩ := res_mapM_ok f TInv l h
  rw [h1]
  exact hk ts h2 h3

/-! ### ranges: column indices of the pieces -/

theorem foldl_scanStep_icol (control : List Bool) (icol : Nat) :
    ∀ (l : List Nat) (st : List (Nat × Nat × Bool) × Nat × Bool), (∀ p ∈ st.1, p.1 = icol) →
      ∀ p ∈ (l.foldl (scanStep control icol) st).1, p.1 = icol := by
  intro l
  induction l with
  | nil => intro st h; exact h
  | cons x l ih =>
    intro st h
    simp only [List.foldl_cons]
    apply ih
    unfold scanStep
    split
    · intro p hp
      simp only [List.mem_append, List.mem_singleton] at hp
      rcases hp with hp | rfl
      · exact h p hp
      · rfl
    · exact h

theorem scanRange_icol (control : List Bool) (icol off count : Nat) (r : List (Nat × Nat × Bool))
    (h : scanRange control icol off count = some r) : ∀ p ∈ r, p.1 = icol := by
  rw [scanRange_eq] at h
  cases hf : control[off]? with
  | none => rw [hf] at h; simp at h
  | some first =>
    rw [hf] at h
    simp only at h
    have hfold := foldl_scanStep_icol control icol (List.range' (off + 1) (count - 1)) ([], off, first) (by simp)
    split at h
    · simp only [Option.some.injEq] at h
      subst h
      split
      · intro p hp
        simp only [List.mem_append, List.mem_singleton] at hp
        rcases hp with hp | rfl
        · exact hfold p hp
        · rfl
      · exact hfold
    · cases h

theorem collectLoop_icol (control : List Bool) : ∀ (counts : List Nat) (icol off : Nat) (r : List (Nat × Nat × Bool)),
    collectLoop control counts icol off = some r → ∀ p ∈ r, icol ≤ p.1 ∧ p.1 < icol + counts.length := by
  intro counts
  induction counts with
  | nil => intro icol off r h; simp [collectLoop] at h; subst h; simp
  | cons c cs ih =>
    intro icol off r h
    simp only [collectLoop] at h
    cases h1 : scanRange control icol off c with
    | none => rw [h1] at h; simp at h
    | some r1 =>
      rw [h1] at h
      simp only [Option.bind_some] at h
      cases h2 : collectLoop control cs (icol + 1) (off + c) with
      | none => rw [h2] at h; simp at h
      | some r2 =>
        rw [h2] at h
        simp only [Option.map_some, Option.some.injEq] at h
        subst h
        intro p hp
        rcases List.mem_append.mp hp with hp | hp
        · have := scanRange_icol control icol off c r1 h1 p hp
          simp [this]
        · have := ih (icol + 1) (off + c) r2 h2 p hp
          simp only [List.length_cons]
          omega

/-! ### the operations -/

section ops
variable {half : α} {ph : List Nat} {conjOf : GateTerm P → Tab.Conj} {n N : Nat} {V : GateTerm P → List Nat → Prop}
variable {TInv : Tab → Prop}

theorem applyGate_safeS (hT : TabTotal ph conjOf n V TInv) {s : StabState} (hs : SInv TInv n N s) {g : GateTerm P}
    {bits : List Nat} (hv : V g bits) : SafeS (SInv TInv n N) (StabState.applyGate (α := α) ph conjOf s g bits) := by
  unfold StabState.applyGate
  rw [if_neg (by simp [hT.arity g bits hv])]
  obtain ⟨ts, h1, h2, h3⟩ := res_mapM_ok (fun t => Tab.applyGate ph (conjOf g) t bits) TInv s.tabs
    (fun t ht => hT.gate g bits t (hs.tabs t ht) hv)
  rw [h1]
  exact .pure ⟨hs.nrBits, hs.nrShots, hs.sum, hs.pos, by simp [h2, hs.len], h3⟩

theorem applyUnaryAll_safeS (hT : TabTotal ph conjOf n V TInv) {s : StabState} (hs : SInv TInv n N s) {g : GateTerm P}
    (hv : ∀ q, q < n → V g [q]) : SafeS (SInv TInv n N) (StabState.applyUnaryAll (α := α) ph conjOf s g) := by
  unfold StabState.applyUnaryAll
  refine Safe.foldl_bind (fun st bit => StabState.applyGate (α := α) ph conjOf st g [bit]) _ _ (.pure hs) ?_
  intro bit hbit st hst
  exact applyGate_safeS hT hst (hv bit (by rw [hs.nrBits] at hbit; simpa using hbit))

theorem applyConditional_safeS (hT : TabTotal ph conjOf n V TInv) {s : StabState} (hs : SInv TInv n N s)
    {control : List Bool} (hc : control.length = N) {g : GateTerm P} {bits : List Nat} (hv : V g bits) :
    SafeS (SInv TInv n N) (StabState.applyConditional (α := α) ph conjOf s control g bits) := by
  unfold StabState.applyConditional
  rw [if_neg (by simp [hc, hs.nrShots]), if_neg (by simp [hT.arity g bits hv])]
  obtain ⟨ranges, hr, hpos, hsum⟩ := collect_total s.counts control hs.pos (by rw [hs.sum, hc])
  have hic := collectLoop_icol control s.counts 0 0 ranges hr
  rw [hr]
  simp only
  refine lift_mapM_bind_safe (TInv := TInv) _ ranges _ ?_ ?_
  · intro x hx
    obtain ⟨icol, len, apply⟩ := x
    have hlt : icol < s.tabs.length := by have := (hic (icol, len, apply) hx).2; rw [hs.len]; simpa using this
    simp only
    rw [List.getElem?_eq_getElem hlt]
    simp only
    have hti := hs.tabs _ (List.getElem_mem hlt)
    by_cases ha : apply = true
    · simp only [ha, if_true]
      exact hT.gate g bits _ hti hv
    · simp only [ha]
      exact ⟨_, rfl, hti⟩
  · intro ts h2 h3
    refine .pure ⟨hs.nrBits, hs.nrShots, by simp only; rw [hsum, hs.sum], ?_, by simp [h2], h3⟩
    intro c hc'
    simp only [List.mem_map] at hc'
    obtain ⟨p, hp, rfl⟩ := hc'
    exact hpos p hp

/-- the new ranges of `measure_into` -/
theorem measureLoop_safeS (hT : TabTotal ph conjOf n V TInv) (q cbit : Nat) (hq : q < n) :
    ∀ (items : List (Tab × Nat)) (start : Nat) (res : List Nat) (ts : List Tab) (cs : List Nat),
      (∀ it ∈ items, TInv it.1 ∧ 0 < it.2) →
      SafeS (fun x : List Nat × List Tab × List Nat => x.1.length = res.length ∧
          ∃ nts ncs, x.2.1 = ts ++ nts ∧ x.2.2 = cs ++ ncs ∧ nts.length = ncs.length ∧
            ncs.sum = (items.map (·.2)).sum ∧ (∀ c ∈ ncs, 0 < c) ∧ ∀ t ∈ nts, TInv t)
        (StabState.measureLoop (α := α) half ph q cbit items start res ts cs) := by
  intro items
  induction items with
  | nil => intro start res ts cs _; exact .pure ⟨rfl, [], [], by simp⟩
  | cons it rest ih =>
    intro start res ts cs h
    obtain ⟨t, count⟩ := it
    have hit := h (t, count) (by simp)
    simp only at hit
    have hrest := fun it' hit' => h it' (List.mem_cons_of_mem _ hit')
    obtain ⟨info, hinfo⟩ := hT.measure t q hit.1 hq
    simp only [StabState.measureLoop, hinfo]
    show SafeS _ (Prog.bind (Prog.pure info) _)
    simp only [Prog.bind]
    cases info with
    | deterministic v =>
      simp only
      refine (ih (start + count) _ (ts ++ [t]) (cs ++ [count]) hrest).mono ?_
      rintro ⟨r, ts', cs'⟩ ⟨hl, nts, ncs, e1, e2, e3, e4, e5, e6⟩
      refine ⟨by rw [hl, writeRange_length], t :: nts, count :: ncs, by rw [e1]; simp, by rw [e2]; simp, by simp [e3],
        by simp [e4], ?_, ?_⟩
      · intro c hc; rcases List.mem_cons.mp hc with rfl | hc
        · exact hit.2
        · exact e5 c hc
      · intro x hx; rcases List.mem_cons.mp hx with rfl | hx
        · exact hit.1
        · exact e6 x hx
    | random i =>
      simp only
      refine .binomial fun n0 hn0 => ?_
      obtain ⟨t0, ht0, hi0⟩ := hT.collapse t q i false hit.1 hinfo
      obtain ⟨t1, ht1, hi1⟩ := hT.collapse t q i true hit.1 hinfo
      split
      · simp only [ht1]
        show SafeS _ (Prog.bind (Prog.pure t1) _)
        simp only [Prog.bind]
        refine (ih (start + count) _ (ts ++ [t1]) (cs ++ [count]) hrest).mono ?_
        rintro ⟨r, ts', cs'⟩ ⟨hl, nts, ncs, e1, e2, e3, e4, e5, e6⟩
        refine ⟨by rw [hl, writeRange_length], t1 :: nts, count :: ncs, by rw [e1]; simp, by rw [e2]; simp, by simp [e3],
          by simp [e4], ?_, ?_⟩
        · intro c hc; rcases List.mem_cons.mp hc with rfl | hc
          · exact hit.2
          · exact e5 c hc
        · intro x hx; rcases List.mem_cons.mp hx with rfl | hx
          · exact hi1
          · exact e6 x hx
      · split
        · simp only [ht0]
          show SafeS _ (Prog.bind (Prog.pure t0) _)
          simp only [Prog.bind]
          refine (ih (start + count) _ (ts ++ [t0]) (cs ++ [count]) hrest).mono ?_
          rintro ⟨r, ts', cs'⟩ ⟨hl, nts, ncs, e1, e2, e3, e4, e5, e6⟩
          refine ⟨by rw [hl, writeRange_length], t0 :: nts, count :: ncs, by rw [e1]; simp, by rw [e2]; simp, by simp [e3],
            by simp [e4], ?_, ?_⟩
          · intro c hc; rcases List.mem_cons.mp hc with rfl | hc
            · exact hit.2
            · exact e5 c hc
          · intro x hx; rcases List.mem_cons.mp hx with rfl | hx
            · exact hi0
            · exact e6 x hx
        · rename_i hne0 hnec
          simp only [ht0, ht1]
          show SafeS _ (Prog.bind (Prog.pure t0) _)
          simp only [Prog.bind]
          show SafeS _ (Prog.bind (Prog.pure t1) _)
          simp only [Prog.bind]
          refine (ih (start + count) _ (ts ++ [t0, t1]) (cs ++ [n0, count - n0]) hrest).mono ?_
          rintro ⟨r, ts', cs'⟩ ⟨hl, nts, ncs, e1, e2, e3, e4, e5, e6⟩
          refine ⟨by rw [hl, writeRange_length], t0 :: t1 :: nts, n0 :: (count - n0) :: ncs, by rw [e1]; simp, by rw [e2]; simp,
            by simp [e3], ?_, ?_, ?_⟩
          · simp only [List.sum_cons, List.map_cons, e4]; omega
          · intro c hc
            simp only [List.mem_cons] at hc
            rcases hc with rfl | rfl | hc
            · omega
            · omega
            · exact e5 c hc
          · intro x hx
            simp only [List.mem_cons] at hx
            rcases hx with rfl | rfl | hx
            · exact hi0
            · exact hi1
            · exact e6 x hx

theorem zip_items (s : StabState) (hs : SInv TInv n N s) :
    (∀ it ∈ s.tabs.zip s.counts, TInv it.1 ∧ 0 < it.2) ∧ ((s.tabs.zip s.counts).map (·.2)).sum = N := by
  constructor
  · intro it hit
    obtain ⟨t, c⟩ := it
    have := List.of_mem_zip hit
    exact ⟨hs.tabs t this.1, hs.pos c this.2⟩
  · rw [List.map_snd_zip (by rw [hs.len])]
    exact hs.sum

theorem measureInto_safeS (hT : TabTotal ph conjOf n V TInv) {s : StabState} (hs : SInv TInv n N s) {q cbit : Nat}
    (hq : q < n) (hcb : cbit < 64) {res : List Nat} (hres : res.length = N) :
    SafeS (fun x : StabState × List Nat => SInv TInv n N x.1 ∧ x.2.length = N)
      (StabState.measureInto (α := α) half ph s q cbit res) := by
  unfold StabState.measureInto
  rw [if_neg (by rw [hs.nrBits]; omega), if_neg (by rw [hs.nrShots, hres]; omega), if_neg (by simp [shiftOk, hcb])]
  obtain ⟨hitems, hsum⟩ := zip_items s hs
  refine (measureLoop_safeS hT q cbit hq _ 0 res [] [] hitems).bind ?_
  rintro ⟨r, ts, cs⟩ ⟨hl, nts, ncs, e1, e2, e3, e4, e5, e6⟩
  simp only [List.nil_append] at e1 e2
  subst e1 e2
  exact .pure ⟨⟨hs.nrBits, hs.nrShots, by simp only; rw [e4, hsum], e5, e3, e6⟩, by simp only; rw [hl, hres]⟩

theorem measureAllInto_safeS (hT : TabTotal ph conjOf n V TInv) {s : StabState} (hs : SInv TInv n N s)
    {cbits : List Nat} (hlen : cbits.length = n) (hcb : ∀ b ∈ cbits, b < 64) {res : List Nat} (hres : res.length = N) :
    SafeS (fun x : StabState × List Nat => SInv TInv n N x.1 ∧ x.2.length = N)
      (StabState.measureAllInto (α := α) half ph s cbits res) := by
  unfold StabState.measureAllInto
  rw [if_neg (by rw [hs.nrShots, hres]; omega), if_neg (by rw [hs.nrBits, hlen]; simp)]
  refine Safe.foldl_bind (fun (b : StabState × List Nat) (x : Nat × Nat) =>
    StabState.measureInto (α := α) half ph b.1 x.2 x.1 b.2) _ _ (.pure ⟨hs, hres⟩) ?_
  intro x hx b hb
  obtain ⟨cbit, q⟩ := x
  have hm := List.mem_zipIdx hx
  have hq : q < n := by have := hm.2.1; omega
  have hc : cbit < 64 := by
    have := hm.2.2
    simp only [Nat.sub_zero] at this
    rw [this]; exact hcb _ (List.getElem_mem _)
  exact measureInto_safeS hT hb.1 hq hc hb.2

theorem peekGo_safeS (hT : TabTotal ph conjOf n V TInv) (q cbit : Nat) (hq : q < n) :
    ∀ (items : List (Tab × Nat)) (start : Nat) (res : List Nat), (∀ it ∈ items, TInv it.1) →
      SafeS (fun r : List Nat => r.length = res.length) (StabState.peekInto.go (α := α) half q cbit items start res) := by
  intro items
  induction items with
  | nil => intro start res _; exact .pure rfl
  | cons it rest ih =>
    intro start res h
    obtain ⟨t, count⟩ := it
    obtain ⟨info, hinfo⟩ := hT.measure t q (h (t, count) (by simp)) hq
    have hrest := fun it' hit' => h it' (List.mem_cons_of_mem _ hit')
    simp only [StabState.peekInto.go, hinfo]
    show SafeS _ (Prog.bind (Prog.pure info) _)
    simp only [Prog.bind]
    cases info with
    | deterministic v =>
      exact (ih (start + count) _ hrest).mono fun r hr => by rw [hr, writeRange_length]
    | random i =>
      exact .binomial fun n0 _ => (ih (start + count) _ hrest).mono fun r hr => by rw [hr, writeRange_length]

theorem peekInto_safeS (hT : TabTotal ph conjOf n V TInv) {s : StabState} (hs : SInv TInv n N s) {q cbit : Nat}
    (hq : q < n) (hcb : cbit < 64) {res : List Nat} (hres : res.length = N) :
    SafeS (fun r : List Nat => r.length = N) (StabState.peekInto (α := α) half s q cbit res) := by
  unfold StabState.peekInto
  rw [if_neg (by rw [hs.nrBits]; omega), if_neg (by rw [hs.nrShots, hres]; omega), if_neg (by simp [shiftOk, hcb])]
  exact (peekGo_safeS hT q cbit hq _ 0 res (fun it hit => (zip_items s hs).1 it hit |>.1)).mono
    fun r hr => by rw [hr, hres]

theorem split_safeS (cbit : Nat) (info : MInfo) : ∀ (counts : List (Nat × Nat)),
    SafeS (fun _ : List (Nat × Nat) => True) (StabState.peekAllPieces.split (α := α) half cbit info counts) := by
  intro counts
  induction counts with
  | nil => exact .pure trivial
  | cons ic more ih =>
    obtain ⟨idx, c⟩ := ic
    have hcont : ∀ n0, SafeS (fun _ : List (Nat × Nat) => True)
        ((StabState.peekAllPieces.split (α := α) half cbit info more).bind fun tail =>
          Prog.pure ((if n0 > 0 then [(idx, n0)] else []) ++ (if n0 < c then [(idx ||| (1 <<< cbit), c - n0)] else []) ++ tail)) :=
      fun n0 => ih.bind fun _ _ => .pure trivial
    simp only [StabState.peekAllPieces.split]
    cases info with
    | deterministic v => cases v <;> exact hcont _
    | random i => exact .binomial fun n0 _ => hcont n0

theorem peekAllPieces_safeS (hT : TabTotal ph conjOf n V TInv) (t : Tab) (ht : TInv t) :
    ∀ (l : List (Nat × Nat)) (counts : List (Nat × Nat)), (∀ x ∈ l, x.2 < n) →
      SafeS (fun _ : List (Nat × Nat) => True) (StabState.peekAllPieces (α := α) half t l counts) := by
  intro l
  induction l with
  | nil => intro counts _; exact .pure trivial
  | cons x rest ih =>
    intro counts h
    obtain ⟨cbit, q⟩ := x
    obtain ⟨info, hinfo⟩ := hT.measure t q ht (h (cbit, q) (by simp))
    simp only [StabState.peekAllPieces, hinfo]
    show SafeS _ (Prog.bind (Prog.pure info) _)
    simp only [Prog.bind]
    exact (split_safeS cbit info counts).bind fun c' _ => ih c' fun y hy => h y (by simp [hy])

theorem peekAllGo_safeS (hT : TabTotal ph conjOf n V TInv) (cbits : List Nat) (oneMask : Nat) (hl : cbits.length = n) :
    ∀ (items : List (Tab × Nat)) (offset : Nat) (res : List Nat), (∀ it ∈ items, TInv it.1) →
      SafeS (fun r : List Nat => r.length = res.length)
        (StabState.peekAllInto.go (α := α) half cbits oneMask items offset res) := by
  intro items
  induction items with
  | nil => intro offset res _; exact .pure rfl
  | cons it rest ih =>
    intro offset res h
    obtain ⟨t, count⟩ := it
    have hrest := fun it' hit' => h it' (List.mem_cons_of_mem _ hit')
    simp only [StabState.peekAllInto.go]
    refine (peekAllPieces_safeS hT t (h (t, count) (by simp)) cbits.zipIdx [(0, count)] (by
      intro x hx
      have := (List.mem_zipIdx hx).2.1
      omega)).bind fun pieces _ => ?_
    have hlenR : ∀ (l : List (Nat × Nat)) (st : List Nat × Nat), (l.foldl (fun (st : List Nat × Nat) (ic : Nat × Nat) =>
        (st.1.zipIdx.map fun (wi : Nat × Nat) =>
          if st.2 ≤ wi.2 ∧ wi.2 < st.2 + ic.2 then (wi.1 &&& ((2 ^ 64 - 1) ^^^ oneMask)) ||| ic.1 else wi.1,
          st.2 + ic.2)) st).1.length = st.1.length := by
      intro l
      induction l with
      | nil => intro st; rfl
      | cons x l ih' => intro st; simp only [List.foldl_cons]; rw [ih']; simp
    exact (ih _ _ hrest).mono fun r hr => by rw [hr]; exact hlenR pieces (res, offset)

theorem peekAllInto_safeS (hT : TabTotal ph conjOf n V TInv) {s : StabState} (hs : SInv TInv n N s)
    {cbits : List Nat} (hlen : cbits.length = n) (hcb : ∀ b ∈ cbits, b < 64) {res : List Nat} (hres : res.length = N) :
    SafeS (fun x : StabState × List Nat => SInv TInv n N x.1 ∧ x.2.length = N)
      (StabState.peekAllInto (α := α) half s cbits res) := by
  unfold StabState.peekAllInto
  have hall : cbits.all shiftOk = true := List.all_eq_true.mpr fun b hb => by simp [shiftOk, hcb b hb]
  rw [if_neg (by rw [hs.nrShots, hres]; omega), if_neg (by rw [hs.nrBits, hlen]; simp), if_neg (fun h => h hall)]
  exact (peekAllGo_safeS hT cbits _ hlen _ 0 res (fun it hit => (zip_items s hs).1 it hit |>.1)).bind
    fun r hr => .pure ⟨hs, by simp only; rw [hr, hres]⟩

theorem reset_safeS (hT : TabTotal ph conjOf n V TInv) {s : StabState} (hs : SInv TInv n N s) {q : Nat} (hq : q < n) :
    SafeS (SInv TInv n N) (StabState.reset (α := α) ph s q) := by
  unfold StabState.reset
  obtain ⟨ts, h1, h2, h3⟩ := res_mapM_ok (fun t => Tab.reset ph t q) TInv s.tabs
    (fun t ht => hT.reset t q (hs.tabs t ht) hq)
  rw [h1]
  exact .pure ⟨hs.nrBits, hs.nrShots, hs.sum, hs.pos, by simp [h2, hs.len], h3⟩

theorem resetAll_sinv (hT : TabTotal ph conjOf n V TInv) {s : StabState} (hs : SInv TInv n N s) (hN : 0 < N) :
    SInv TInv n N (StabState.resetAll s) where
  nrBits := hs.nrBits
  nrShots := hs.nrShots
  sum := by simp [StabState.resetAll, hs.nrShots]
  pos := by simp [StabState.resetAll, hs.nrShots, hN]
  len := by simp [StabState.resetAll]
  tabs := by
    intro t ht
    simp only [StabState.resetAll, List.mem_singleton] at ht
    rw [ht, hs.nrBits]; exact hT.init

theorem new_sinv (hT : TabTotal ph conjOf n V TInv) (hN : 0 < N) : SInv TInv n N (StabState.new n N) where
  nrBits := rfl
  nrShots := rfl
  sum := by simp [StabState.new]
  pos := by simp [StabState.new, hN]
  len := by simp [StabState.new]
  tabs := by
    intro t ht
    simp only [StabState.new, List.mem_singleton] at ht
    rw [ht]; exact hT.init

/-- **the lift**: tableau-level progress gives `BackendSafe` of the stabilizer representation — no error, no panic -/
theorem stabBackendSafe (hT : TabTotal ph conjOf n V TInv) (hN : 0 < N) :
    BackendSafe (stabBackend (α := α) half ph conjOf) noErr (fun _ => False) (SInv TInv n N) n N V where
  applyGate := fun s g bits hs hv => applyGate_safeS hT hs hv
  applyUnaryAll := fun s g hs hv => applyUnaryAll_safeS hT hs hv
  applyConditional := fun s control g bits hs hc hv => applyConditional_safeS hT hs hc hv
  measureInto := fun s q cb res hs hq hcb hres => measureInto_safeS hT hs hq hcb hres
  measureAllInto := fun s cbits res hs hl hcb hres => measureAllInto_safeS hT hs hl hcb hres
  peekInto := fun s q cb res hs hq hcb hres => peekInto_safeS hT hs hq hcb hres
  peekAllInto := fun s cbits res hs hl hcb hres => peekAllInto_safeS hT hs hl hcb hres
  reset := fun s q hs hq => reset_safeS hT hs hq
  resetAll := fun s hs => resetAll_sinv hT hs hN

end ops
end Q1t.Sim

import Q1t.Proofs.CQasmEquivGates2
set_option linter.unusedSimpArgs false
set_option linter.unusedSectionVars false
set_option linter.unusedVariables false
/-!
C12 (`cq_equiv_partial`), part 5: whole circuits at the value level.  A generic fold: if every operation's statement
list is related (by a branch relation `R`) to `Spec/Born.branchesOp` of the operation, the concatenated statement list
is related to `Spec/Born.branches` of the operation list.  Instantiated with `R := equal ∧ BrInv` for the exact class.
-/
namespace Q1t.Proofs.CQasm
open Q1t Q1t.Spec Q1t.Proofs.Route Q1t.CQ

variable {α P : Type} [CommRing α] [Amp α P]

theorem dSeq_flatMap (n : Nat) (nz : List α → Bool) : ∀ (D : List (DStmt α)) (brs : List (CQ1.Branch α)),
    dSeq n nz D brs = brs.flatMap fun b => dSeq n nz D [b]
  | [], brs => by simp [dSeq]
  | s :: ss, brs => by
    simp only [dSeq, List.flatMap_cons, List.flatMap_nil, List.append_nil]
    rw [dSeq_flatMap n nz ss (brs.flatMap (dSem n nz s))]
    simp only [List.flatMap_assoc]
    apply List.flatMap_congr
    intro b _
    rw [← dSeq_flatMap n nz ss (dSem n nz s b)]

/-- one operation: related inputs give related outputs -/
def StepRel (R : CQ1.Branch α → CQ1.Branch α → Prop) (n : Nat) (nz : List α → Bool) (D : List (DStmt α))
    (cop : Sim.COp P) : Prop :=
  ∀ b1 b2, R b1 b2 → ∃ y, Spec.branchesOp n nz cop b2 = some y ∧ List.Forall₂ R (dSeq n nz D [b1]) y

theorem mapM_forall2 (R : CQ1.Branch α → CQ1.Branch α → Prop) (F : CQ1.Branch α → List (CQ1.Branch α))
    (G : CQ1.Branch α → Option (List (CQ1.Branch α)))
    (hFG : ∀ b1 b2, R b1 b2 → ∃ y, G b2 = some y ∧ List.Forall₂ R (F b1) y) :
    ∀ l1 l2, List.Forall₂ R l1 l2 → ∃ ys, l2.mapM G = some ys ∧ List.Forall₂ R (l1.flatMap F) ys.flatten
  | [], [], _ => ⟨[], rfl, List.Forall₂.nil⟩
  | b1 :: l1, b2 :: l2, h => by
    cases h with
    | cons hb hl =>
      obtain ⟨y, hy, hxy⟩ := hFG b1 b2 hb
      obtain ⟨ys, hys, hrel⟩ := mapM_forall2 R F G hFG l1 l2 hl
      refine ⟨y :: ys, by simp [List.mapM_cons, hy, hys], ?_⟩
      simp only [List.flatMap_cons, List.flatten_cons]
      exact List.rel_append hxy hrel

/-- **the fold**: operation by operation to whole operation lists -/
theorem fold_equiv (R : CQ1.Branch α → CQ1.Branch α → Prop) (n : Nat) (nz : List α → Bool) :
    ∀ (steps : List (List (DStmt α) × Sim.COp P)), (∀ s ∈ steps, StepRel R n nz s.1 s.2) →
    ∀ brs1 brs2, List.Forall₂ R brs1 brs2 →
      ∃ r2, Spec.branches n nz (steps.map (·.2)) brs2 = some r2 ∧
        List.Forall₂ R (dSeq n nz (steps.flatMap (·.1)) brs1) r2
  | [], _, brs1, brs2, h => ⟨brs2, rfl, by simpa [dSeq] using h⟩
  | s :: rest, hs, brs1, brs2, h => by
    obtain ⟨ys, hys, hrel⟩ := mapM_forall2 R (fun b => dSeq n nz s.1 [b]) (Spec.branchesOp n nz s.2)
      (hs s (by simp)) brs1 brs2 h
    obtain ⟨r2, hr2, hfin⟩ := fold_equiv R n nz rest (fun x hx => hs x (by simp [hx])) _ _ hrel
    refine ⟨r2, ?_, ?_⟩
    · simp only [List.map_cons, Spec.branches, hys, Option.bind_some]; exact hr2
    · simp only [List.flatMap_cons, dSeq_append]
      rw [dSeq_flatMap n nz s.1 brs1]
      exact hfin

/-! ### the exact relation: equal branches that satisfy the invariant -/

def EqInv (n : Nat) (nz : List α → Bool) (b1 b2 : CQ1.Branch α) : Prop := b1 = b2 ∧ BrInv n nz b2

theorem forall2_eqInv_of (n : Nat) (nz : List α → Bool) (l : List (CQ1.Branch α)) (h : ∀ b ∈ l, BrInv n nz b) :
    List.Forall₂ (EqInv n nz) l l := by
  induction l with
  | nil => exact List.Forall₂.nil
  | cons b l ih => exact List.Forall₂.cons ⟨rfl, h b (by simp)⟩ (ih fun x hx => h x (by simp [hx]))

/-- a step that is an exact equality with invariant-preserving results -/
theorem stepRel_of_eq (n : Nat) (nz : List α → Bool) (D : List (DStmt α)) (cop : Sim.COp P)
    (h : ∀ br, BrInv n nz br → some (dSeq n nz D [br]) = Spec.branchesOp n nz cop br ∧
      ∀ b ∈ dSeq n nz D [br], BrInv n nz b) : StepRel (EqInv n nz) n nz D cop := by
  intro b1 b2 hb
  obtain ⟨rfl, hinv⟩ := hb
  obtain ⟨h1, h2⟩ := h b1 hinv
  exact ⟨_, h1.symm, forall2_eqInv_of n nz _ h2⟩

/-! ### invariants of the results -/

theorem applyOn_length (n : Nat) (M : LMat α) (qs : List Nat) (ψ : List α) : (CQ1.applyOn n M qs ψ).length = 2 ^ n := by
  unfold CQ1.applyOn; rw [mulVec_length]; exact (embed_wf n qs M).1

theorem project_length (n q : Nat) (o : Bool) (ψ : List α) : (CQ1.project n q o ψ).length = ψ.length := by
  simp [CQ1.project]

theorem foldl_applyOn_length (n q : Nat) : ∀ (Ms : List (LMat α)) (ψ : List α), ψ.length = 2 ^ n →
    (Ms.foldl (fun φ M => CQ1.applyOn n M [q] φ) ψ).length = 2 ^ n
  | [], _, h => h
  | M :: Ms, ψ, _ => foldl_applyOn_length n q Ms _ (applyOn_length n M [q] ψ)

theorem cq1_writeBit_lt (n w k : Nat) (o : Bool) (hw : w < 2 ^ n) (hk : k < n) : CQ1.writeBit w k o < 2 ^ n := by
  unfold CQ1.writeBit
  split
  · exact hw
  · apply Nat.lt_pow_two_of_testBit
    intro j hj
    rw [Nat.testBit_xor, Nat.one_shiftLeft, Nat.testBit_two_pow]
    have h1 : w.testBit j = false := Nat.testBit_lt_two_pow (Nat.lt_of_lt_of_le hw (Nat.pow_le_pow_right (by omega) hj))
    have h2 : ¬ k = j := by omega
    simp [h1, h2]

theorem measure_inv (n : Nat) (nz : List α → Bool) (q : Nat) (hq : q < n) (pre post : List (LMat α))
    (br : CQ1.Branch α) (hbr : BrInv n nz br) : ∀ b ∈ dSeq n nz [.measure q pre post] [br], BrInv n nz b := by
  intro b hb
  simp only [dSeq, List.flatMap_cons, List.flatMap_nil, List.append_nil, dSem, CQ1.measureWith, List.mem_filter,
    List.mem_map] at hb
  obtain ⟨⟨o, _, rfl⟩, hnz⟩ := hb
  refine ⟨?_, hnz, cq1_writeBit_lt n _ q o hbr.word hq⟩
  apply foldl_applyOn_length
  rw [project_length]
  exact foldl_applyOn_length n q pre _ hbr.len

theorem prep_inv (n : Nat) (nz : List α → Bool) (q : Nat) (br : CQ1.Branch α) (hbr : BrInv n nz br) :
    ∀ b ∈ dSeq n nz [.prep q] [br], BrInv n nz b := by
  intro b hb
  simp only [dSeq, List.flatMap_cons, List.flatMap_nil, List.append_nil, dSem, List.mem_filter, List.mem_cons,
    List.not_mem_nil, or_false] at hb
  obtain ⟨hb, hnz⟩ := hb
  rcases hb with rfl | rfl
  · exact ⟨by rw [project_length]; exact hbr.len, hnz, hbr.word⟩
  · exact ⟨applyOn_length n _ _ _, hnz, hbr.word⟩

end Q1t.Proofs.CQasm

namespace Q1t.Proofs.CQasm
open Q1t Q1t.Spec Q1t.Proofs.Route Q1t.CQ Q1t.Proofs.Unitaries

variable {α P : Type} [CommRing α] [Amp α P]

/-- all library gates whose translation is exact (no phase) -/
def exactAll : List String := exactGates ++ exactGates2

theorem exact_gate_all (h : LawfulAmp α P) (hh : LawfulHalf α P) (hn : LawfulNegHalf α P) (name : String)
    (hname : name ∈ exactAll) (vals : List P) (hvals : vals.length = (paramsOfName name).length) :
    ∃ (apps : List (List Nat × LMat α)) (term : GateTerm P),
      exactDenot (α := α) name vals = some apps ∧ CQ.libTerm name vals = some term ∧
      (apps.map (·.1)).all (fun l => validBits (libBits name) l) = true ∧ prodK (libBits name) apps = specMatrix term := by
  rcases List.mem_append.mp hname with h1 | h2
  · exact exact_gate h hh hn name h1 vals hvals
  · exact exact_gate2 h name h2 vals hvals

def toSimBasis : CQ.Basis → Sim.Basis
  | .X => .X | .Y => .Y | .Z => .Z

/-- the non-zero test is kept by the gate `term` on `bits` -/
def NzKept (n : Nat) (nz : List α → Bool) (term : GateTerm P) (bits : List Nat) : Prop :=
  ∀ ψ : List α, ψ.length = 2 ^ n → nz ψ = true → nz (LMat.mulVec (embed n bits (specMatrix term)) ψ) = true

/-- **the per-operation class of `cq_equiv_partial`** with the value-level statements of each operation and the
operation as `Spec/Born` sees it: gates of `exactAll` (25 gates) with direct parameters on valid placements; conditional
gates of `exactAll` with a ONE-line translation, on a control list without repetition in range and a target below
`2^len`; `measure` in any basis of qubit `q` into bit `q`; `reset`; barriers. -/
inductive FaithfulOp (n : Nat) (nz : List α → Bool) : XOp P → List (DStmt α) → Sim.COp P → Prop
  | gate (name : String) (vals : List P) (bits : List Nat) (apps : List (List Nat × LMat α)) (term : GateTerm P) :
      name ∈ exactAll → vals.length = (paramsOfName name).length → validBits n bits = true →
      bits.length = libBits name → exactDenot (α := α) name vals = some apps → CQ.libTerm name vals = some term →
      NzKept n nz term bits →
      FaithfulOp n nz (.gate (.lib name (vals.map .direct)) bits) (gateLines (placeApps bits apps)) (.gate term bits)
  | cond (name : String) (vals : List P) (bits : List Nat) (locs : List Nat) (M : LMat α) (term : GateTerm P)
      (control : List Nat) (target : Nat) :
      name ∈ exactAll → vals.length = (paramsOfName name).length → validBits n bits = true →
      bits.length = libBits name → exactDenot (α := α) name vals = some [(locs, M)] → CQ.libTerm name vals = some term →
      NzKept n nz term bits → control.Nodup → (∀ k ∈ control, k < n) → target < 2 ^ control.length →
      FaithfulOp n nz (.cond control target (.lib name (vals.map .direct)) bits)
        ((notBits control target).map .notb ++ [.gate control (relabel bits locs) M] ++ (notBits control target).map .notb)
        (.cond control target term bits)
  | measure (q : Nat) (b : CQ.Basis) : q < n →
      FaithfulOp n nz (.measure q q b) [.measure q (basisPre (P := P) (toSimBasis b)) (basisPost (P := P) (toSimBasis b))]
        (.measure q q (toSimBasis b))
  | reset (q : Nat) : FaithfulOp n nz (.reset q) [.prep q] (.reset q)
  | barrier (bits : List Nat) : FaithfulOp n nz (.barrier bits) [] (.barrier bits)

theorem step_of_faithful (h : LawfulAmp α P) (hh : LawfulHalf α P) (hn : LawfulNegHalf α P) (n : Nat) (hn64 : n ≤ 64)
    (nz : List α → Bool) (op : XOp P) (D : List (DStmt α)) (cop : Sim.COp P) (hf : FaithfulOp n nz op D cop) :
    StepRel (EqInv n nz) n nz D cop := by
  cases hf with
  | gate name vals bits apps term h1 h2 h3 h4 h5 h6 h7 =>
    obtain ⟨apps', term', e1, e2, e3, e4⟩ := exact_gate_all (α := α) h hh hn name h1 vals h2
    rw [h5] at e1; injection e1 with e1; subst e1
    rw [h6] at e2; injection e2 with e2; subst e2
    have hl : ∀ a ∈ apps, validBits bits.length a.1 = true := by
      intro a ha; rw [h4]
      simpa using List.all_eq_true.mp e3 a.1 (List.mem_map_of_mem ha)
    apply stepRel_of_eq
    intro br hbr
    have hnz := h7 br.1 hbr.len hbr.nonzero
    refine ⟨gate_equiv_of_prod n nz term bits h3 apps hl (by rw [h4]; exact e4) br hbr hnz, ?_⟩
    have hU := prod_lift n bits h3 apps hl
    rw [h4, e4] at hU
    obtain ⟨ψ, w⟩ := br
    rw [gateLines_sem n nz _ _ hU ψ w hbr.len]
    intro b hb; simp at hb; subst hb
    exact gate_op_inv n nz _ (embed_wf n bits _).1 (ψ, w) hbr hnz
  | cond name vals bits locs M term control target h1 h2 h3 h4 h5 h6 h7 h8 h9 h10 =>
    obtain ⟨apps', term', e1, e2, e3, e4⟩ := exact_gate_all (α := α) h hh hn name h1 vals h2
    rw [h5] at e1; injection e1 with e1; subst e1
    rw [h6] at e2; injection e2 with e2; subst e2
    have hl : ∀ a ∈ [(locs, M)], validBits bits.length a.1 = true := by
      intro a ha; rw [h4]
      simpa using List.all_eq_true.mp e3 a.1 (List.mem_map_of_mem ha)
    have hU := prod_lift n bits h3 [(locs, M)] hl
    rw [h4, e4] at hU
    have hmv : ∀ ψ : List α, ψ.length = 2 ^ n →
        LMat.mulVec (embed n (relabel bits locs) M) ψ = LMat.mulVec (embed n bits (specMatrix term)) ψ := by
      intro ψ hψ
      have a1 := dSeq_gateLines n nz (placeApps bits [(locs, M)]) ψ 0
      have a2 := gateLines_sem n nz (placeApps bits [(locs, M)]) _ hU ψ 0 hψ
      rw [a1] at a2
      simpa [placeApps] using a2
    have hc64 : control.all Sim.shiftOk = true := by
      rw [List.all_eq_true]; intro k hk; have := h9 k hk; simp [Sim.shiftOk]; omega
    have hlen : control.length ≤ 64 := by
      have : control.length ≤ n := by
        have hsub : control ⊆ List.range n := fun k hk => by simpa using h9 k hk
        have := (List.Nodup.subperm h8 hsub).length_le
        simpa using this
      omega
    apply stepRel_of_eq
    intro br hbr
    have hnz := h7 br.1 hbr.len hbr.nonzero
    refine ⟨cond_op_equiv n nz term bits _ M hmv control target h8 h10 hc64 hlen br hbr hnz, ?_⟩
    obtain ⟨ψ, w⟩ := br
    rw [bracket_dSeq n nz control target h8 _ M ψ w]
    intro b hb; simp at hb; subst hb
    split
    · refine ⟨applyOn_length n _ _ _, ?_, hbr.word⟩
      show nz (LMat.mulVec (embed n (relabel bits locs) M) ψ) = true
      rw [hmv ψ hbr.len]; exact hnz
    · exact hbr
  | measure q b hq =>
    apply stepRel_of_eq
    intro br hbr
    exact ⟨measure_op_equiv n hn64 nz q hq _ br hbr, measure_inv n nz q hq _ _ br hbr⟩
  | reset q =>
    apply stepRel_of_eq
    intro br hbr
    exact ⟨prep_op_equiv n nz q br, prep_inv n nz q br hbr⟩
  | barrier bits =>
    apply stepRel_of_eq
    intro br hbr
    refine ⟨barrier_op_equiv n nz bits br hbr, ?_⟩
    intro b hb; simp [dSeq] at hb; subst hb; exact hbr

/-- `|0…0⟩`, register 0 -/
theorem init_inv (n : Nat) (nz : List α → Bool) (hnz : nz ((List.range (2 ^ n)).map fun i => if i = 0 then (1 : α) else 0) = true) :
    ∀ b ∈ (CQ1.initial n : List (CQ1.Branch α)), BrInv n nz b := by
  intro b hb
  simp [CQ1.initial] at hb; subst hb
  exact ⟨by simp, hnz, Nat.pow_pos (by omega)⟩

/-- **cq_equiv_partial (whole circuits, value level)** -/
theorem circuit_equiv (h : LawfulAmp α P) (hh : LawfulHalf α P) (hn : LawfulNegHalf α P) (n : Nat) (hn64 : n ≤ 64)
    (nz : List α → Bool) (hnz0 : nz ((List.range (2 ^ n)).map fun i => if i = 0 then (1 : α) else 0) = true)
    (steps : List (XOp P × List (DStmt α) × Sim.COp P)) (hs : ∀ s ∈ steps, FaithfulOp n nz s.1 s.2.1 s.2.2) :
    Spec.branches n nz (steps.map (·.2.2)) (CQ1.initial n) =
      some (dSeq n nz (steps.flatMap (·.2.1)) (CQ1.initial n)) := by
  have hsteps : ∀ s ∈ steps.map (fun s => (s.2.1, s.2.2)), StepRel (EqInv n nz) n nz s.1 s.2 := by
    intro s hsm
    obtain ⟨x, hx, rfl⟩ := List.mem_map.mp hsm
    exact step_of_faithful h hh hn n hn64 nz x.1 x.2.1 x.2.2 (hs x hx)
  obtain ⟨r2, hr2, hrel⟩ := fold_equiv (EqInv n nz) n nz _ hsteps _ _
    (forall2_eqInv_of n nz (CQ1.initial n) (init_inv n nz hnz0))
  have e1 : (steps.map (fun s => (s.2.1, s.2.2))).map (·.2) = steps.map (·.2.2) := by simp
  have e2 : (steps.map (fun s => (s.2.1, s.2.2))).flatMap (·.1) = steps.flatMap (·.2.1) := by
    simp [List.flatMap_map]
  rw [e1] at hr2
  rw [e2] at hrel
  rw [hr2]
  congr 1
  -- related by equality
  have : ∀ (l1 l2 : List (CQ1.Branch α)), List.Forall₂ (EqInv n nz) l1 l2 → l1 = l2 := by
    intro l1 l2 hl
    induction hl with
    | nil => rfl
    | cons hb _ ih => rw [hb.1, ih]
  exact (this _ _ hrel).symm

end Q1t.Proofs.CQasm

namespace Q1t.Proofs.CQasm
open Q1t Q1t.Spec Q1t.Proofs.Route Q1t.CQ Q1t.Proofs.Unitaries

variable {α P : Type} [CommRing α] [Amp α P]

/-- every exact gate on a valid placement is in the class (its statements and its `GateTerm` exist) -/
theorem faithful_gate (h : LawfulAmp α P) (hh : LawfulHalf α P) (hn : LawfulNegHalf α P) (n : Nat) (nz : List α → Bool)
    (name : String) (hname : name ∈ exactAll) (vals : List P) (hvals : vals.length = (paramsOfName name).length)
    (bits : List Nat) (hv : validBits n bits = true) (hk : bits.length = libBits name)
    (hkept : ∀ term : GateTerm P, NzKept n nz term bits) :
    ∃ D cop, FaithfulOp n nz (.gate (.lib name (vals.map .direct)) bits) D cop := by
  obtain ⟨apps, term, e1, e2, _, _⟩ := exact_gate_all (α := α) h hh hn name hname vals hvals
  exact ⟨_, _, FaithfulOp.gate name vals bits apps term hname hvals hv hk e1 e2 (hkept term)⟩

end Q1t.Proofs.CQasm

import Q1t.Model.Ffi
import Q1t.Spec.Ffi
/-!
`ffi_mirrors`: every entry point of the model of ffi.rs, called on a live circuit, answers what the
equivalent Rust call (chosen by the *documented* gate table) answers: `RESULT_ERROR` iff that call errs
or there is no such call (unknown name, wrong number of parameters, NULL array, invalid basis,
non-UTF-8 name), the same payload otherwise, and the same new circuit value.
-/
namespace Q1t.Ffi
open Q1t.Spec.Ffi (GateKind documented documentedTable)

variable {C : Type}

/-- outcome of the equivalent Rust call -/
inductive RustOutcome (C : Type) where
  | updated (c : C)
  | failed (msg : String)
  | text (s : String)
  | hist (l : List (String × Nat))
  | words (ws : List Nat)
  | noState
  | number (n : Nat)
  | panicked
  | noCall

def ofRes : Res C → RustOutcome C
  | .ok c => .updated c
  | .err m => .failed m
  | .panic => .panicked

def ofStr : Res String → RustOutcome C
  | .ok s => .text s
  | .err m => .failed m
  | .panic => .panicked

/-- which gate, by the documentation, `name` with `ps` parameters denotes -/
def documentedGate (name : String) (ps : List CParameter) : Option Gate :=
  match Q1t.Spec.Ffi.lookup name with
  | some k =>
    if k.nparams ≠ 0 ∧ ps.length ≠ k.nparams then none
    else some ⟨k.rustName, (ps.take k.nparams).map Param.ofC⟩
  | none => none

/-- the Rust call equivalent to a C call on a live circuit -/
def rustCall (api : Api C) (mem : Mem) (c : C) : Call → RustOutcome C
  | .nrQbits _ => .number (api.nrQbits c)
  | .nrCbits _ => .number (api.nrCbits c)
  | .cstate _ => match api.cstate c with | some ws => .words ws | none => .noState
  | .addGate _ (some name) (some qs) ps =>
    match documentedGate name (ps.getD []) with
    | some g => ofRes (api.addGate c g qs)
    | none => .noCall
  | .addGate .. => .noCall
  | .addCond _ (some ctl) target (some name) (some qs) ps =>
    match documentedGate name (ps.getD []) with
    | some g => ofRes (api.addConditionalGate c ctl target g qs)
    | none => .noCall
  | .addCond .. => .noCall
  | .reset _ q => ofRes (api.reset c q)
  | .resetAll _ => .updated (api.resetAll c)
  | .measure _ q cb dir collapse =>
    match basisOf dir with
    | none => .noCall
    | some b => if collapse ≠ 0 then ofRes (api.measureBasis c q cb b) else ofRes (api.peekBasis c q cb b)
  | .measureAll _ (some cbs) dir collapse =>
    match basisOf dir with
    | none => .noCall
    | some b => if collapse ≠ 0 then ofRes (api.measureAllBasis c cbs b) else ofRes (api.peekAllBasis c cbs b)
  | .measureAll .. => .noCall
  | .execute _ n => ofRes (api.execute mem c n)
  | .reexecute _ => ofRes (api.reexecute mem c)
  | .histogram _ =>
    match api.histogramString c with
    | .ok l => .hist l
    | .err m => .failed m
    | .panic => .panicked
  | .latex _ => ofStr (api.latex mem c)
  | .openQasm _ => ofStr (api.openQasm mem c)
  | .cQasm _ => ofStr (api.cQasm mem c)
  | _ => .noCall

/-- what the C caller observes of an entry point's outcome -/
inductive Obs (C : Type) where
  | empty (rust : C)                 -- RESULT_EMPTY, the circuit is now `rust`
  | error (msg : String) (rust : C)  -- RESULT_ERROR
  | string (s : String) (rust : C)
  | hist (l : List (String × Nat)) (rust : C)
  | words (ws : List Nat) (rust : C)
  | num (n : Nat)
  | abort

def observe : Out C → Obs C
  | .ret c .empty => .empty c.rust
  | .ret c (.error m) => .error m c.rust
  | .ret c (.string s) => .string s c.rust
  | .ret c (.histogram l) => .hist l c.rust
  | .ret c (.cstate ws) => .words ws c.rust
  | .num n => .num n
  | .abort _ => .abort

/-- the mirror rule; `old` is the circuit before the call -/
def Mirrors (old : C) : RustOutcome C → Obs C → Prop
  | .updated c', .empty r => r = c'
  | .failed m, .error m' r => m' = m ∧ r = old
  | .noCall, .error _ r => r = old
  | .noState, .error _ r => r = old
  | .text s, .string s' r => s' = s ∧ r = old
  | .hist l, .hist l' r => l' = l ∧ r = old
  | .words ws, .words ws' r => ws' = ws ∧ r = old
  | .number n, .num n' => n' = n
  | .panicked, .abort => True
  | _, _ => False

/-- the columns of a dispatch row that decide the behaviour (everything but the count printed in the
wrong-parameter-count message) -/
def rowKey (r : String × String × Nat × Nat × Nat × Bool) : String × String × Nat × Nat × Bool :=
  (r.1, r.2.1, r.2.2.1, r.2.2.2.1, r.2.2.2.2.2)

/-- a dispatch table agrees with the documented one (up to the message column) -/
def TableOk (tbl : List (String × String × Nat × Nat × Nat × Bool)) : Prop :=
  tbl.map rowKey = documentedTable.map rowKey

theorem find_rowKey (tbl : List (String × String × Nat × Nat × Nat × Bool)) (l : String) :
    (tbl.find? (fun r => r.1 == l)).map rowKey = (tbl.map rowKey).find? (fun r => r.1 == l) := by
  induction tbl with
  | nil => rfl
  | cons r rest ih =>
    simp only [List.find?_cons, List.map_cons]
    have : (rowKey r).1 = r.1 := rfl
    rw [this]
    cases h : r.1 == l
    · simpa using ih
    · simp

theorem find_documented (l : String) :
    ∀ (d : List (String × GateKind)),
    ((d.map fun (nk : String × GateKind) =>
        ((nk.1, nk.2.rustName, nk.2.arity, nk.2.nparams, nk.2.nparams, nk.2.nparams != 0) :
          String × String × Nat × Nat × Nat × Bool)).map rowKey).find? (fun r => r.1 == l) =
      (d.lookup l).map fun k => (l, k.rustName, k.arity, k.nparams, k.nparams != 0) := by
  intro d
  induction d with
  | nil => rfl
  | cons nk rest ih =>
    obtain ⟨n, k⟩ := nk
    simp only [List.map_cons, List.find?_cons, List.lookup_cons, rowKey]
    by_cases h : n = l
    · subst h; simp
    · have h1 : (n == l) = false := by simpa using h
      have h2 : (l == n) = false := by simpa using fun hc => h hc.symm
      simp only [h1, h2]
      exact ih

/-- looking a name up in a table that agrees with the documentation gives the documented gate -/
theorem lookupGate_documented {tbl : List (String × String × Nat × Nat × Nat × Bool)} (ht : TableOk tbl) (name : String) :
    (lookupGate tbl name.toLower).map (fun r => (r.1, r.2.1, r.2.2.1, r.2.2.2.2)) =
      (Q1t.Spec.Ffi.lookup name).map fun k => (k.rustName, k.arity, k.nparams, k.nparams != 0) := by
  unfold lookupGate Q1t.Spec.Ffi.lookup
  have h1 := find_rowKey tbl name.toLower
  rw [ht] at h1
  have h2 := find_documented name.toLower documented
  have hdoc : documentedTable = documented.map fun (nk : String × GateKind) =>
      ((nk.1, nk.2.rustName, nk.2.arity, nk.2.nparams, nk.2.nparams, nk.2.nparams != 0) :
          String × String × Nat × Nat × Nat × Bool) := rfl
  rw [hdoc, h2] at h1
  cases hf : tbl.find? (fun r => r.1 == name.toLower) with
  | none =>
    rw [hf] at h1
    cases hl : documented.lookup name.toLower with
    | none => rfl
    | some k => rw [hl] at h1; cases h1
  | some r =>
    rw [hf] at h1
    cases hl : documented.lookup name.toLower with
    | none => rw [hl] at h1; cases h1
    | some k =>
      rw [hl] at h1
      simp only [Option.map_some, Option.some.injEq, rowKey, Prod.mk.injEq] at h1 ⊢
      obtain ⟨_, a, b, c, d⟩ := h1
      exact ⟨a, b, c, d⟩

theorem mapRes_mirrors (c : Circ C) (r : Res C) (upd : C → Circ C) (tag : Option String)
    (hupd : ∀ x, (upd x).rust = x) : Mirrors c.rust (ofRes r) (observe (mapRes c r upd tag)) := by
  cases r <;> simp [mapRes, ofRes, observe, Mirrors, hupd]

theorem mapStr_mirrors (c : Circ C) (r : Res String) (tag : Option String) :
    Mirrors c.rust (ofStr r) (observe (mapStr c r tag)) := by
  cases r <;> simp [mapStr, ofStr, observe, Mirrors]

theorem addGateBody_mirrors {cfg : Cfg} (ht : TableOk cfg.gateTable) (api : Api C) (c : Circ C) (name : String)
    (qs : List Nat) (ps : List CParameter) :
    Mirrors c.rust
      (match documentedGate name ps with
       | some g => ofRes (api.addGate c.rust g qs)
       | none => .noCall)
      (observe (addGateBody cfg api c (some name) qs ps)) := by
  have hl := lookupGate_documented ht name
  unfold addGateBody documentedGate
  dsimp only
  cases hk : Q1t.Spec.Ffi.lookup name with
  | none =>
    rw [hk] at hl
    cases hg : lookupGate cfg.gateTable name.toLower with
    | none => simp [observe, Mirrors]
    | some r => rw [hg] at hl; cases hl
  | some k =>
    rw [hk] at hl
    cases hg : lookupGate cfg.gateTable name.toLower with
    | none => rw [hg] at hl; cases hl
    | some r =>
      rw [hg] at hl
      obtain ⟨ty, ar, np, msgN, chk⟩ := r
      simp only [Option.map_some, Option.some.injEq, Prod.mk.injEq] at hl
      obtain ⟨rfl, rfl, rfl, rfl⟩ := hl
      simp only []
      by_cases hbad : k.nparams ≠ 0 ∧ ps.length ≠ k.nparams
      · have h2 : ((k.nparams != 0) = true ∧ ps.length ≠ k.nparams) := by simpa using hbad
        rw [if_pos hbad, if_pos h2]
        simp [observe, Mirrors]
      · have h2 : ¬ ((k.nparams != 0) = true ∧ ps.length ≠ k.nparams) := by simpa using hbad
        rw [if_neg hbad, if_neg h2]
        exact mapRes_mirrors _ _ _ _ (fun _ => rfl)

theorem addCondBody_mirrors {cfg : Cfg} (ht : TableOk cfg.condTable) (api : Api C) (c : Circ C) (ctl : List Nat)
    (target : Nat) (name : String) (qs : List Nat) (ps : List CParameter) :
    Mirrors c.rust
      (match documentedGate name ps with
       | some g => ofRes (api.addConditionalGate c.rust ctl target g qs)
       | none => .noCall)
      (observe (addCondBody cfg api c ctl target (some name) qs ps)) := by
  have hl := lookupGate_documented ht name
  unfold addCondBody documentedGate
  dsimp only
  cases hk : Q1t.Spec.Ffi.lookup name with
  | none =>
    rw [hk] at hl
    cases hg : lookupGate cfg.condTable name.toLower with
    | none => simp [observe, Mirrors]
    | some r => rw [hg] at hl; cases hl
  | some k =>
    rw [hk] at hl
    cases hg : lookupGate cfg.condTable name.toLower with
    | none => rw [hg] at hl; cases hl
    | some r =>
      rw [hg] at hl
      obtain ⟨ty, ar, np, msgN, chk⟩ := r
      simp only [Option.map_some, Option.some.injEq, Prod.mk.injEq] at hl
      obtain ⟨rfl, rfl, rfl, rfl⟩ := hl
      simp only []
      by_cases hbad : k.nparams ≠ 0 ∧ ps.length ≠ k.nparams
      · have h2 : ((k.nparams != 0) = true ∧ ps.length ≠ k.nparams) := by simpa using hbad
        rw [if_pos hbad, if_pos h2]
        simp [observe, Mirrors]
      · have h2 : ¬ ((k.nparams != 0) = true ∧ ps.length ≠ k.nparams) := by simpa using hbad
        rw [if_neg hbad, if_neg h2]
        exact mapRes_mirrors _ _ _ _ (fun _ => rfl)

/-- **ffi_mirrors**: all entry points that take a handle, all arguments, any `Circuit` implementation. -/
theorem entry_mirrors {cfg : Cfg} (hg : TableOk cfg.gateTable) (hc : TableOk cfg.condTable) (api : Api C)
    (mem : Mem) (c : Circ C) (call : Call) (hcall : call.handle?.isSome) :
    Mirrors c.rust (rustCall api mem c.rust call) (observe (entry cfg api mem c call)) := by
  cases call
  case new => simp [Call.handle?] at hcall
  case free => simp [Call.handle?] at hcall
  case resultFree => simp [Call.handle?] at hcall
  case nrQbits => simp [rustCall, entry, observe, Mirrors]
  case nrCbits => simp [rustCall, entry, observe, Mirrors]
  case cstate => simp only [rustCall, entry]; cases api.cstate c.rust <;> simp [observe, Mirrors]
  case addGate h name qbits params =>
    cases qbits with
    | none => cases name <;> simp [rustCall, entry, observe, Mirrors]
    | some qs =>
      cases name with
      | none => simp [rustCall, entry, addGateBody, observe, Mirrors]
      | some n => simp only [rustCall, entry]; exact addGateBody_mirrors hg api c n qs _
  case addCond h control target name qbits params =>
    cases control with
    | none => simp [rustCall, entry, observe, Mirrors]
    | some ctl =>
      cases qbits with
      | none => cases name <;> simp [rustCall, entry, observe, Mirrors]
      | some qs =>
        cases name with
        | none => simp [rustCall, entry, addCondBody, observe, Mirrors]
        | some n => simp only [rustCall, entry]; exact addCondBody_mirrors hc api c ctl target n qs _
  case reset => simp only [rustCall, entry]; exact mapRes_mirrors _ _ _ _ (fun _ => rfl)
  case resetAll => simp [rustCall, entry, observe, Mirrors]
  case measure h q cb dir collapse =>
    simp only [rustCall, entry]
    cases basisOf dir with
    | none => simp [observe, Mirrors]
    | some b =>
      simp only
      by_cases hcol : collapse ≠ 0
      · rw [if_pos hcol, if_pos hcol]; exact mapRes_mirrors _ _ _ _ (fun _ => rfl)
      · rw [if_neg hcol, if_neg hcol]; exact mapRes_mirrors _ _ _ _ (fun _ => rfl)
  case measureAll h cbits dir collapse =>
    cases cbits with
    | none => simp [rustCall, entry, observe, Mirrors]
    | some cbs =>
      simp only [rustCall, entry]
      cases basisOf dir with
      | none => simp [observe, Mirrors]
      | some b =>
        simp only
        by_cases hcol : collapse ≠ 0
        · rw [if_pos hcol, if_pos hcol]; exact mapRes_mirrors _ _ _ _ (fun _ => rfl)
        · rw [if_neg hcol, if_neg hcol]; exact mapRes_mirrors _ _ _ _ (fun _ => rfl)
  case execute h n =>
    simp only [rustCall, entry]
    cases api.execute mem c.rust n <;> simp [ofRes, observe, Mirrors]
  case reexecute => simp only [rustCall, entry]; exact mapRes_mirrors _ _ _ _ (fun _ => rfl)
  case histogram =>
    simp only [rustCall, entry]
    cases api.histogramString c.rust <;> simp [observe, Mirrors]
  case latex => simp only [rustCall, entry]; exact mapStr_mirrors ..
  case openQasm => simp only [rustCall, entry]; exact mapStr_mirrors ..
  case cQasm => simp only [rustCall, entry]; exact mapStr_mirrors ..

/-- the C result is `RESULT_ERROR` exactly when the Rust call errs, or there is no Rust call -/
theorem error_iff {old : C} {r : RustOutcome C} {o : Obs C} (h : Mirrors old r o) :
    (∃ m rust, o = .error m rust) ↔ (∃ m, r = .failed m) ∨ r = .noCall ∨ r = .noState := by
  cases r <;> cases o <;> simp_all [Mirrors]

/-- `ffi_param_live`, part 1: adding a gate never reads the foreign memory -/
theorem addGate_ignores_mem (cfg : Cfg) (api : Api C) (mem mem' : Mem) (c : Circ C) (h : Handle)
    (name : Option String) (qbits : Option (List Nat)) (params : Option (List CParameter)) :
    entry cfg api mem c (.addGate h name qbits params) = entry cfg api mem' c (.addGate h name qbits params) := rfl

theorem addCond_ignores_mem (cfg : Cfg) (api : Api C) (mem mem' : Mem) (c : Circ C) (h : Handle)
    (ctl : Option (List Nat)) (t : Nat) (name : Option String) (qbits : Option (List Nat))
    (params : Option (List CParameter)) :
    entry cfg api mem c (.addCond h ctl t name qbits params) = entry cfg api mem' c (.addCond h ctl t name qbits params) := rfl

/-- part 2: a pointer-valued parameter denotes the value in memory at the time it is read -/
theorem param_value (mem : Mem) (p : CParameter) :
    (Param.ofC p).value mem = if p.valuePtr = 0 then p.value else mem p.valuePtr := by
  unfold Param.ofC
  by_cases h : p.valuePtr = 0 <;> simp [h, Param.value]

end Q1t.Ffi

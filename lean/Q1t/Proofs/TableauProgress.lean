import Q1t.Proofs.TableauContract
import Q1t.Proofs.TableauNormalize
import Q1t.Proofs.SimGFStab
set_option linter.unusedSectionVars false
set_option linter.unusedVariables false
set_option linter.unusedSimpArgs false
/-!
# C03: progress of the tableau operations on reachable pairs (all `n`) and the bundle `SimGF.StabHyps`

On a tableau that stabilizes a non-zero vector, `multiply_row` (rows in range), `normalize`, `apply_gate` (valid
placement, claiming term), `collapse` (after `Random`) return `.ok`; `measure` returns `.ok` as soon as the
deterministic branch finds a row with `Z` on the qubit, which is `DetShape`.  `stabHyps` instantiates C01's bundle
`SimGF.StabHyps` with `St := Reach`, relative to `DetShapeHolds`, `1 ≠ 0` and the positivity of the squared norm.
-/
namespace Q1t.Proofs.TabG
open Q1t Q1t.LMat Q1t.Tableau Q1t.Spec Q1t.Spec.Clifford Q1t.Spec.Pauli Q1t.Proofs.Tableau Q1t.Sim Q1t.Conj
open Q1t.Proofs.ConjBridge Q1t.Proofs.ConjTerm Q1t.Gate

variable {α A : Type} [CommRing α] [Amp α A]

/-- the vector has a non-zero entry -/
def NZ (ψ : List α) : Prop := ∃ x ∈ ψ, x ≠ 0

/-- two signed rows that both fix a non-zero vector commute (any ring with `LawfulAmp`) -/
theorem commutes_of_fixG (h : LawfulAmp α A) (s0 s1 : Bool) (r0 r1 : List P) (ψ : List α) (hl : r0.length = r1.length)
    (hv : ψ.length = 2 ^ r0.length) (h0 : act (A := A) (rowStr s0 r0) ψ = ψ) (h1 : act (A := A) (rowStr s1 r1) ψ = ψ)
    (hnz : NZ ψ) : Commutes r0 r1 := by
  rcases commutes_or_anticommutes r0 r1 with hc | ha
  · exact hc
  · exfalso
    have e1 : act (A := A) (rowStr s0 r0) (act (A := A) (rowStr s1 r1) ψ) = ψ := by rw [h1, h0]
    have e2 : act (A := A) (rowStr s1 r1) (act (A := A) (rowStr s0 r0) ψ) = ψ := by rw [h0, h1]
    have key : act (A := A) (rowStr s0 r0) (act (A := A) (rowStr s1 r1) ψ) =
        smul A 2 (act (A := A) (rowStr s1 r1) (act (A := A) (rowStr s0 r0) ψ)) := by
      unfold act
      simp only [rowStr]
      rw [actOps_smul, actOps_smul, anticomm_act h r0 r1 ψ ha hl hv]
      simp only [smul_smul]
      exact smul_congr_mod h (by omega) _
    rw [e1, e2] at key
    obtain ⟨x, hx, hxne⟩ := hnz
    exact hxne (zeros_of_smul2 h ψ key.symm x hx)

theorem multiplyRow_prog (h : LawfulAmp α A) {ph : List Nat} (hph : PhaseTableCorrect ph) (t : Tab) (ψ : List α)
    (hst : StabG A t ψ) (hnz : NZ ψ) (i0 i1 : Nat) (hi0 : i0 < t.n) (hi1 : i1 < t.n) (hne : i0 ≠ i1) :
    ∃ t', t.multiplyRow ph i0 i1 = .ok t' ∧ StabG A t' ψ ∧ t'.n = t.n := by
  obtain ⟨h1, h2, h3, h4⟩ := hst
  have hr0 : t.rows[i0]? = some t.rows[i0] := List.getElem?_eq_getElem (by omega)
  have hr1 : t.rows[i1]? = some t.rows[i1] := List.getElem?_eq_getElem (by omega)
  have hs0 : t.signs[i0]? = some t.signs[i0] := List.getElem?_eq_getElem (by omega)
  have hs1 : t.signs[i1]? = some t.signs[i1] := List.getElem?_eq_getElem (by omega)
  obtain ⟨l0, a0⟩ := h4 i0 _ _ hs0 hr0
  obtain ⟨l1, a1⟩ := h4 i1 _ _ hs1 hr1
  have hc := commutes_of_fixG h _ _ _ _ ψ (l0.trans l1.symm) (l0 ▸ h1) a0 a1 hnz
  have hok := ((multiplyRow_spec hph t i0 i1 _ _ _ _ hr0 hr1 hs0 hs1).1 hc).1
  have hst : StabG A t ψ := ⟨h1, h2, h3, h4⟩
  obtain ⟨sg, hn, _⟩ := multiplyRow_inv h hph t _ i0 i1 (wf_of_stabG t ψ hst) hne hok
  exact ⟨_, hok, (sg ψ).mpr hst, hn⟩

theorem swapRows_prog (t : Tab) (ψ : List α) (hst : StabG A t ψ) (a b : Nat) (ha : a < t.n) (hb : b < t.n) :
    ∃ t', t.swapRows a b = .ok t' ∧ StabG A t' ψ ∧ t'.n = t.n := by
  have h2 := hst.2.1
  have h3 := hst.2.2.1
  have e : t.swapRows a b = .ok { t with rows := (t.rows.set a t.rows[b]).set b t.rows[a],
                                         signs := (t.signs.set a t.signs[b]).set b t.signs[a] } := by
    simp [Tab.swapRows, Tab.row, Tab.sign, Res.ofOption, bind, Res.bind,
      List.getElem?_eq_getElem (show a < t.rows.length by omega), List.getElem?_eq_getElem (show b < t.rows.length by omega),
      List.getElem?_eq_getElem (show a < t.signs.length by omega), List.getElem?_eq_getElem (show b < t.signs.length by omega)]
    rfl
  obtain ⟨sg, hn', _⟩ := swapRows_inv (α := α) (A := A) t _ a b e
  exact ⟨_, e, (sg ψ).mpr hst, hn'⟩

theorem elimRows_prog (h : LawfulAmp α A) {ph : List Nat} (hph : PhaseTableCorrect ph) (ψ : List α) (hnz : NZ ψ)
    (n : Nat) (sel : P → Bool) (j i : Nat) (hj : j < n) (hi : i < n) :
    ∀ (ms : List Nat) (t : Tab), (∀ m ∈ ms, m < n) → StabG A t ψ → t.n = n →
      ∃ t', Tab.elimRows ph sel j i ms t = .ok t' ∧ StabG A t' ψ ∧ t'.n = n := by
  intro ms
  induction ms with
  | nil => intro t _ hg hn; exact ⟨t, rfl, hg, hn⟩
  | cons m ms ih =>
    intro t hms hg hn
    obtain ⟨p, hp⟩ := cell_ok t (wf_of_stabG t ψ hg) m j (hn ▸ hms m (List.mem_cons_self ..)) (hn ▸ hj)
    simp only [Tab.elimRows, hp, bind, Res.bind]
    split
    · rename_i hc
      have hne : m ≠ i := by
        simp only [Bool.and_eq_true, bne_iff_ne] at hc; exact hc.1
      obtain ⟨t', e, hg', hn'⟩ := multiplyRow_prog h hph t ψ hg hnz m i (hn ▸ hms m (List.mem_cons_self ..)) (hn ▸ hi) hne
      rw [e]
      exact ih t' (fun m' hm' => hms m' (List.mem_cons_of_mem _ hm')) hg' (hn'.trans hn)
    · exact ih t (fun m' hm' => hms m' (List.mem_cons_of_mem _ hm')) hg hn

theorem pass_prog (h : LawfulAmp α A) {ph : List Nat} (hph : PhaseTableCorrect ph) (ψ : List α) (hnz : NZ ψ)
    (n : Nat) (sel : P → Bool) :
    ∀ (js : List Nat) (t : Tab) (i : Nat), (∀ j ∈ js, j < n) → i ≤ n → StabG A t ψ → t.n = n →
      ∃ t' i', Tab.pass ph sel js t i = .ok (t', i') ∧ StabG A t' ψ ∧ t'.n = n ∧ i' ≤ n := by
  intro js
  induction js with
  | nil => intro t i _ hi hg hn; exact ⟨t, i, rfl, hg, hn, hi⟩
  | cons j js ih =>
    intro t i hjs hi hg hn
    have hj : j < n := hjs j (List.mem_cons_self ..)
    have hjs' : ∀ j' ∈ js, j' < n := fun j' hh => hjs j' (List.mem_cons_of_mem _ hh)
    obtain ⟨r, hr, hmem⟩ := findRow_ok sel t (wf_of_stabG t ψ hg) j (hn ▸ hj) (List.range' i (t.n - i))
      (fun k hk => by rw [List.mem_range'_1] at hk; omega)
    simp only [Tab.pass, hr, bind, Res.bind]
    cases r with
    | none => exact ih t i hjs' hi hg hn
    | some k =>
      have hk := hmem k rfl
      rw [List.mem_range'_1] at hk
      obtain ⟨t1, e1, hg1, hn1⟩ := swapRows_prog t ψ hg i k (by omega) (by omega)
      obtain ⟨t2, e2, hg2, hn2⟩ := elimRows_prog h hph ψ hnz n sel j i hj (by omega) (List.range t1.n) t1
        (fun m hm => by rw [List.mem_range, hn1, hn] at hm; exact hm) hg1 (hn1.trans hn)
      simp only [e1, e2]
      exact ih t2 (i + 1) hjs' (by omega) hg2 hn2

/-- **`normalize` returns on every tableau that stabilizes a non-zero vector** (all `n`, any ring) -/
theorem normalize_prog (h : LawfulAmp α A) {ph : List Nat} (hph : PhaseTableCorrect ph) (t : Tab) (ψ : List α)
    (hst : StabG A t ψ) (hnz : NZ ψ) : ∃ t', t.normalize ph = .ok t' := by
  obtain ⟨t1, i1, e1, hg1, hn1, hi1⟩ := pass_prog h hph ψ hnz t.n P.hasX (List.range t.n) t 0
    (fun j hj => List.mem_range.mp hj) (Nat.zero_le _) hst rfl
  obtain ⟨t2, i2, e2, _, _, _⟩ := pass_prog h hph ψ hnz t.n P.hasZ (List.range t1.n) t1 i1
    (fun j hj => by rw [List.mem_range, hn1] at hj; exact hj) hi1 hg1 hn1
  exact ⟨t2, by simp only [Tab.normalize, e1, e2, bind, Res.bind, pure]⟩


/-! ### the row loop of `apply_gate` returns -/

theorem gatherOps_prog (t : Tab) (hwf : t.WF) (i : Nat) (hi : i < t.n) :
    ∀ bits : List Nat, (∀ b ∈ bits, b < t.n) → ∃ L, t.gatherOps i bits = .ok L := by
  intro bits
  induction bits with
  | nil => intro _; exact ⟨[], rfl⟩
  | cons b bs ih =>
    intro hb
    obtain ⟨p, hp⟩ := cell_ok t hwf i b hi (hb b (List.mem_cons_self ..))
    obtain ⟨L, hL⟩ := ih (fun x hx => hb x (List.mem_cons_of_mem _ hx))
    exact ⟨p :: L, by simp only [Tab.gatherOps, hp, hL, bind, Res.bind, pure]⟩

theorem scatterOps_prog (i : Nat) : ∀ (bits : List Nat) (L : List P) (t : Tab) (r : List P),
    t.rows[i]? = some r → (∀ b ∈ bits, b < r.length) → ∃ t2, Tab.scatterOps i bits L t = .ok t2 := by
  intro bits
  induction bits with
  | nil => intro L t r _ _; exact ⟨t, by simp [Tab.scatterOps]⟩
  | cons b bs ih =>
    intro L t r hr hb
    cases L with
    | nil => exact ⟨t, by simp [Tab.scatterOps]⟩
    | cons p ps =>
      have hbl : b < r.length := hb b (List.mem_cons_self ..)
      have hi : i < t.rows.length := (List.getElem?_eq_some_iff.mp hr).1
      have e : t.setCell i b p = .ok { t with rows := t.rows.set i (r.set b p) } := by
        simp [Tab.setCell, Tab.row, hr, Res.ofOption, bind, Res.bind, hbl, pure]
      obtain ⟨t2, ht2⟩ := ih ps { t with rows := t.rows.set i (r.set b p) } (r.set b p) (by simp [hi])
        (fun x hx => by rw [List.length_set]; exact hb x (List.mem_cons_of_mem _ hx))
      exact ⟨t2, by simp only [Tab.scatterOps, e, bind, Res.bind]; exact ht2⟩

theorem conjRows_prog {n : Nat} {bits : List Nat} (hb : ∀ b ∈ bits, b < n) {rule : List P → Conj.Result}
    (htot : ∀ L : List P, L.length = bits.length → ∃ flip L', rule L = .ok (flip, L')) :
    ∀ (is : List Nat) (t : Tab), (∀ i ∈ is, i < n) → t.WF → t.n = n →
      ∃ t1, Tab.conjRows (conjOfRule rule) bits is t = .ok t1 := by
  intro is
  induction is with
  | nil => intro t _ _ _; exact ⟨t, rfl⟩
  | cons i rest ih =>
    intro t his hwf hn
    have hi : i < t.n := by rw [hn]; exact his i (List.mem_cons_self ..)
    obtain ⟨w1, w2, w3⟩ := hwf
    have hri : t.rows[i]? = some t.rows[i] := List.getElem?_eq_getElem (by omega)
    have hrl : t.rows[i].length = t.n := w3 _ (List.getElem_mem _)
    obtain ⟨L, hL⟩ := gatherOps_prog t ⟨w1, w2, w3⟩ i hi bits (fun b hbb => by rw [hn]; exact hb b hbb)
    have hLlen := gather_length _ bits L (gatherOps_gather t i _ hri bits L hL)
    obtain ⟨flip, L', hr⟩ := htot L hLlen
    have hc : conjOfRule rule L = .ok (flip, L') := by unfold conjOfRule; rw [hr]
    obtain ⟨t2, ht2⟩ := scatterOps_prog i bits L' t _ hri (fun b hbb => by rw [hrl, hn]; exact hb b hbb)
    have e2 := scatterOps_scatter i bits L' t t2 _ hri ht2
    subst e2
    have hsl : i < t.signs.length := by omega
    generalize hT2 : ({ t with rows := t.rows.set i (scatter t.rows[i] bits L') } : Tab) = T2 at ht2
    have hT2s : T2.signs = t.signs := by rw [← hT2]
    have hT2r : T2.rows = t.rows.set i (scatter t.rows[i] bits L') := by rw [← hT2]
    have hT2n : T2.n = t.n := by rw [← hT2]
    have hs2 : T2.sign i = .ok t.signs[i] := by
      simp [Tab.sign, Res.ofOption, hT2s, List.getElem?_eq_getElem hsl]
    have hset : T2.setSign i (t.signs[i] != flip) = .ok { T2 with signs := T2.signs.set i (t.signs[i] != flip) } := by
      simp [Tab.setSign, hT2s, hsl]
    have hwf3 : Tab.WF { T2 with signs := T2.signs.set i (t.signs[i] != flip) } := by
      refine ⟨by simp [hT2r, hT2n, w1], by simp [hT2s, hT2n, w2], fun r hr' => ?_⟩
      simp only [hT2r] at hr'
      rcases List.mem_or_eq_of_mem_set hr' with hm | he
      · simp only [hT2n]; exact w3 r hm
      · subst he; simp only [hT2n]; rw [scatter_length]; exact hrl
    have hn3 : ({ T2 with signs := T2.signs.set i (t.signs[i] != flip) } : Tab).n = n := by simp only [hT2n]; exact hn
    obtain ⟨t1, ht1⟩ := ih _ (fun k hk => his k (List.mem_cons_of_mem _ hk)) hwf3 hn3
    refine ⟨t1, ?_⟩
    simp only [Tab.conjRows, hL, bind, Res.bind, hc, ht2, hs2, hset]
    exact ht1

/-- a vector whose squared norm is invertible has a non-zero entry (in a non-trivial ring) -/
theorem nz_of_weight [SimAmp α] {nz : α → Prop} (hs : LawfulSim α A nz) (hne : (1 : α) ≠ 0) (ψ : List α)
    (hw : ∃ u : α, normSqSum ψ * u = 1) : NZ ψ := by
  by_contra hcon
  have hall : ∀ x ∈ ψ, x = 0 := fun x hx => by
    by_contra hx0; exact hcon ⟨x, hx, hx0⟩
  have : normSqSum ψ = 0 := by
    unfold normSqSum
    apply List.sum_eq_zero
    intro y hy
    obtain ⟨x, hx, rfl⟩ := List.mem_map.mp hy
    rw [hall x hx, hs.normSq_eq, zero_mul]
  obtain ⟨u, hu⟩ := hw
  rw [this, zero_mul] at hu
  exact hne hu.symm


/-! ### `apply_gate`, `collapse`, `measure` return -/

section prog
variable [SimAmp α] {nz : α → Prop}

/-- **`apply_gate` returns** on a stabilizing tableau of a vector with invertible squared norm, for a valid
placement of a gate whose rule is exact for a unitary `M` (all `n`) -/
theorem applyGate_prog (h : LawfulAmp α A) (hs : LawfulSim α A nz) (hne : (1 : α) ≠ 0) {ph : List Nat}
    (hph : PhaseTableCorrect ph) {M : LMat α} {bits : List Nat} {rule : List P → Conj.Result} (t : Tab) (ψ : List α)
    (hst : StabG A t ψ) (hw : ∃ u : α, normSqSum ψ * u = 1) (hv : validBits t.n bits = true)
    (hM : WF (2 ^ bits.length) (2 ^ bits.length) M) (hrule : RuleExact A M bits.length rule)
    (hiso : normSqSum (mulVec (embed t.n bits M) ψ) = normSqSum ψ) :
    ∃ t', t.applyGate ph (conjOfRule rule) bits = .ok t' := by
  have hlt : ∀ x ∈ bits, x < t.n := by
    simp only [validBits, Bool.and_eq_true, List.all_eq_true, decide_eq_true_eq] at hv; exact hv.1
  obtain ⟨t1, ht1⟩ := conjRows_prog (n := t.n) hlt
    (fun L hL => by obtain ⟨f, L', hr, _⟩ := hrule L hL; exact ⟨f, L', hr⟩)
    (List.range t.n) t (fun i hi => List.mem_range.mp hi) (wf_of_stabG t ψ hst) rfl
  obtain ⟨hψ, h2, h3, h4⟩ := hst
  obtain ⟨hsh1, hdone, _⟩ := conjRows_inv h hv hM hrule ψ hψ (List.range t.n) t t1 List.nodup_range
    (fun i hi => List.mem_range.mp hi) ⟨rfl, h2, h3⟩ (fun k _ s r hs' hr => h4 k s r hs' hr) ht1
  have hE : WF (2 ^ t.n) (2 ^ t.n) (embed t.n bits M) := Q1t.Proofs.Route.embed_wf t.n bits M
  have hst1 : StabG A t1 (mulVec (embed t.n bits M) ψ) := by
    refine ⟨by rw [mulVec_length, hE.1, hsh1.1], by rw [hsh1.2.1, hsh1.1], by rw [hsh1.2.2, hsh1.1], ?_⟩
    intro i s r hs' hr
    have hi : i < t.n := by
      have := (List.getElem?_eq_some_iff.mp hr).1
      rw [hsh1.2.1] at this; exact this
    rw [hsh1.1]
    exact hdone i (List.mem_range.mpr hi) s r hs' hr
  have hnz := nz_of_weight hs hne _ (by rw [hiso]; exact hw)
  obtain ⟨t', ht'⟩ := normalize_prog h hph t1 _ hst1 hnz
  exact ⟨t', by simp only [Tab.applyGate, ht1, bind, Res.bind]; exact ht'⟩

theorem collapseRows_prog (h : LawfulAmp α A) {ph : List Nat} (hph : PhaseTableCorrect ph) (ψ : List α) (hnz : NZ ψ)
    (n i bit : Nat) (hi : i < n) (hbit : bit < n) :
    ∀ (ks : List Nat) (t : Tab), (∀ k ∈ ks, k < i) → StabG A t ψ → t.n = n →
      ∃ t1, Tab.collapseRows ph i bit ks t = .ok t1 := by
  intro ks
  induction ks with
  | nil => intro t _ _ _; exact ⟨t, rfl⟩
  | cons k ks ih =>
    intro t hks hg hn
    have hk : k < i := hks k (List.mem_cons_self ..)
    obtain ⟨p, hp⟩ := cell_ok t (wf_of_stabG t ψ hg) k bit (by omega) (by omega)
    simp only [Tab.collapseRows, hp, bind, Res.bind]
    split
    · obtain ⟨t', e, hg', hn'⟩ := multiplyRow_prog h hph t ψ hg hnz k i (by omega) (by omega) (by omega)
      rw [e]
      exact ih t' (fun k' hk' => hks k' (List.mem_cons_of_mem _ hk')) hg' (hn'.trans hn)
    · exact ih t (fun k' hk' => hks k' (List.mem_cons_of_mem _ hk')) hg hn

/-- **`collapse` returns after `Random(i)`** (all `n`) -/
theorem collapse_prog (h : LawfulAmp α A) (hs : LawfulSim α A nz) (hne : (1 : α) ≠ 0) {ph : List Nat}
    (hph : PhaseTableCorrect ph) (t : Tab) (ψ : List α) (hst : StabG A t ψ) (hw : ∃ u : α, normSqSum ψ * u = 1)
    (q i : Nat) (hm : t.measure q = .ok (.random i)) (o : Bool) : ∃ t', t.collapse ph i q o = .ok t' := by
  obtain ⟨hq, hi, hxi, hlater⟩ := measure_random_inv t q i hm
  have hnz := nz_of_weight hs hne ψ hw
  obtain ⟨t1, ht1⟩ := collapseRows_prog h hph ψ hnz t.n i q hi hq (List.range i) t
    (fun k hk => List.mem_range.mp hk) hst rfl
  obtain ⟨hn1, hrl, hsl, hst3⟩ := collapse_pre h hph t t1 ψ hst q i hq hi hxi hlater o ht1
  -- the projected vector is non-zero
  obtain ⟨u, hu⟩ := hw
  obtain ⟨e1, e2⟩ := random_weights h hs t ψ hst q i hm
  have hwo : ∃ u' : α, normSqSum (project t.n q o ψ) * u' = 1 := ⟨u + u, by
    have : normSqSum (project t.n q o ψ) = normSqSum (project t.n q false ψ) := by cases o; rfl; exact e1
    rw [this, mul_add, ← add_mul, e2, hu]⟩
  have hnzo := nz_of_weight hs hne _ hwo
  obtain ⟨t', ht'⟩ := normalize_prog h hph _ _ hst3 hnzo
  refine ⟨t', ?_⟩
  simp only [Tab.collapse, ht1, bind, Res.bind]
  rw [if_pos ⟨by rw [hrl]; exact hi, by rw [hn1]; exact hq⟩]
  simp only [Tab.setSign, List.length_set, hsl, hi, if_true, Res.bind]
  exact ht'

theorem findLast_prog (sel : P → Bool) (t : Tab) (hwf : t.WF) (bit : Nat) (hbit : bit < t.n) :
    ∀ m, m ≤ t.n → ∃ res, Tab.findLast sel t bit (Tab.revRange m) = .ok res := by
  intro m
  induction m with
  | zero => intro _; exact ⟨none, by simp [Tab.revRange, Tab.findLast]⟩
  | succ m ih =>
    intro hm
    obtain ⟨p, hp⟩ := cell_ok t hwf m bit (by omega) hbit
    obtain ⟨res, hres⟩ := ih (by omega)
    rw [revRange_succ]
    simp only [Tab.findLast, hp, bind, Res.bind]
    split
    · exact ⟨some m, rfl⟩
    · exact ⟨res, hres⟩

/-- **`measure` returns** on a well-shaped tableau with `DetShape` (all `n`): the `.unwrap()` of the deterministic
branch needs a row with exactly `Z` on the qubit when no row has X/Y there — the row `Z_q` of `DetShape` -/
theorem measure_prog (t : Tab) (hwf : t.WF) (hD : DetShape t) (q : Nat) (hq : q < t.n) :
    ∃ info, t.measure q = .ok info := by
  obtain ⟨res, hres⟩ := findLast_prog P.hasX t hwf q hq t.n (Nat.le_refl _)
  unfold Tab.measure
  rw [if_pos hq]
  simp only [bind, hres, Res.bind]
  cases res with
  | some i => exact ⟨_, rfl⟩
  | none =>
    simp only []
    obtain ⟨res2, hres2⟩ := findLast_prog (· == P.Z) t hwf q hq t.n (Nat.le_refl _)
    rw [hres2]
    simp only [Res.bind]
    cases res2 with
    | some i =>
      obtain ⟨g1, _⟩ := findLast_rev (· == P.Z) t q t.n (some i) hres2
      obtain ⟨hi, _, _⟩ := g1 i rfl
      have hsl : i < t.signs.length := by rw [hwf.2.1]; exact hi
      exact ⟨.deterministic t.signs[i], by simp [Tab.sign, Res.ofOption, List.getElem?_eq_getElem hsl, Res.bind, pure]⟩
    | none =>
      exfalso
      obtain ⟨_, h2⟩ := findLast_rev P.hasX t q t.n none hres
      obtain ⟨_, k2⟩ := findLast_rev (· == P.Z) t q t.n none hres2
      have hall : ∀ (k : Nat) r, t.rows[k]? = some r → xAt r q = false := by
        intro k r hk
        have hkn : k < t.n := by
          have := (List.getElem?_eq_some_iff.mp hk).1
          rw [hwf.1] at this; exact this
        obtain ⟨p, hp, hsel⟩ := h2 rfl k hkn
        obtain ⟨r', hr', _, hx⟩ := cell_ok_xAt t k q p hp
        rw [hr'] at hk; cases hk; rw [hx, hsel]
      obtain ⟨j, hj, hrow, _⟩ := hD q hq hall
      obtain ⟨p, hp, hsel⟩ := k2 rfl j hj
      obtain ⟨r', hr', hrq, _⟩ := cell_ok_xAt t j q p hp
      rw [hrow] at hr'; cases hr'
      have hzq : (zRow t.n q)[q]? = some P.Z := by simp [zRow, List.getElem?_map, List.getElem?_range hq]
      rw [hzq] at hrq; cases hrq
      simp at hsel

end prog

/-! ### the bundle `SimGF.StabHyps` for `St := Reach` -/

section bundle
variable [SimAmp α] {nz : α → Prop}
variable (n : Nat) (ph : List Nat) (tbl : Conj.Table) (noCheck : List String)

/-- **C01's hypotheses of the multinomial law on the stabilizer backend hold for `St := Reach`** (all `n`),
relative to `DetShapeHolds` (fields `tab.det`, `tab.reset`, `measRuns`), a non-trivial ring, and the positivity of
the squared norm (a property of the amplitude type).  Progress (`gateRuns`, `collapseRuns`), `randHalf`, `iso`,
`arity` are unconditional. -/
theorem stabHyps (ha : LawfulAmp α A) (hs : LawfulSim α A nz) (hph : PhaseTableCorrect ph)
    (hp : PrimsExact α A tbl noCheck) (hT : TableFacts (A := A) tbl noCheck)
    (hD : DetShapeHolds (α := α) (A := A) n ph tbl noCheck) (hne : (1 : α) ≠ 0)
    (hpos : ∀ v : List α, normSqSum v = 0 → ∀ a ∈ v, a = 0) (half : α) (hhalf : half + half = 1) :
    Q1t.Sim.SimGF.StabHyps α A nz (Reach (A := A) α n ph tbl noCheck) n half ph (conjOfT (A := A) tbl noCheck)
      (validT (A := A) n tbl) where
  amp := ha
  sim := hs
  pos := hpos
  tab := tableauOK n ph tbl noCheck ha hs hph hp hT hD
  half_add := hhalf
  arity := fun g bits hv => hv.2.2.2.symm
  iso := fun g bits hv v hl => by
    obtain ⟨hw, _, hvb, hlen⟩ := hv
    have hU : IsUnitary A n (embed n bits (specMatrix g : LMat α)) :=
      Q1t.Proofs.ConjEmbed.embed_unitary ha n bits hvb _ (by
        rw [hlen]; exact Q1t.Proofs.ConjUnitary.isUnitary_iff_unitary.2 (Q1t.Proofs.ConjUnitary.spec_unitary ha g hw))
    exact unitary_normSqSum ha hs (Nat.two_pow_pos n) (Q1t.Proofs.ConjUnitary.isUnitary_iff_unitary.1 hU) v hl
  gateRuns := fun g bits hv t ψ hr => by
    obtain ⟨hst, hn, hw⟩ := reach_sound n ph tbl noCheck ha hs hph hp hT hD t ψ hr
    obtain ⟨hwf, hstab, hvb, hlen⟩ := hv
    have te := term_exact tbl noCheck hp Q1t.Proofs.ConjEmbed.embed_exact g hwf hstab
    have hM : WF (2 ^ bits.length) (2 ^ bits.length) (specMatrix g : LMat α) := by rw [hlen]; exact te.wf
    have hrule : RuleExact A (specMatrix g : LMat α) bits.length (conjugateT tbl noCheck g) := by
      rw [hlen]; exact te.rule
    have hU : IsUnitary A n (embed n bits (specMatrix g : LMat α)) :=
      Q1t.Proofs.ConjEmbed.embed_unitary ha n bits hvb _ (by
        rw [hlen]; exact Q1t.Proofs.ConjUnitary.isUnitary_iff_unitary.2 (Q1t.Proofs.ConjUnitary.spec_unitary ha g hwf))
    have hiso := unitary_normSqSum ha hs (Nat.two_pow_pos n) (Q1t.Proofs.ConjUnitary.isUnitary_iff_unitary.1 hU) ψ
      (by rw [hst.1, hn])
    exact applyGate_prog ha hs hne hph t ψ hst hw (by rw [hn]; exact hvb) hM hrule (by rw [hn]; exact hiso)
  measRuns := fun t ψ q hq hr => by
    obtain ⟨hst, hn, _⟩ := reach_sound n ph tbl noCheck ha hs hph hp hT hD t ψ hr
    exact measure_prog t (wf_of_stabG t ψ hst) (hD t ψ hr) q (by rw [hn]; exact hq)
  collapseRuns := fun t ψ q i hr hm o => by
    obtain ⟨hst, _, hw⟩ := reach_sound n ph tbl noCheck ha hs hph hp hT hD t ψ hr
    exact collapse_prog ha hs hne hph t ψ hst hw q i hm o
  randHalf := fun t ψ q i hr hm => by
    obtain ⟨hst, hn, _⟩ := reach_sound n ph tbl noCheck ha hs hph hp hT hD t ψ hr
    have := (random_weights ha hs t ψ hst q i hm).1
    rw [hn] at this
    exact this.symm

end bundle
end Q1t.Proofs.TabG

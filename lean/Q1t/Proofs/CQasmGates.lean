import Q1t.Base.Q8
import Q1t.Model.CQasm
import Q1t.Spec.CQ1
import Q1t.Spec.Unitaries
import Q1t.Spec.Born
/-!
C12, per-gate semantic obligations over the exact field ℚ(ζ₈): the checkers.  For a constant library gate whose
translation consists of exactly representable instructions, and a placement on `k = nr_affected_bits` qubits:
the text THE MODEL WRITES (through the generated table) parses with `Spec/CQ1`, is well formed, and maps every basis
state to `phase ·` (documented unitary embedded on the placement) of it (`plainOK`); under a one-bit condition the
text is applied iff the bit is 1 (`condOK`).  The kernel-checked instances (`decide +kernel`) are in
`CQasmGates1/2/3` (split so that no single check takes long).
-/
namespace Q1t.Proofs.CQasm
open Q1t Q1t.CQ

/-- no numeric parameter occurs in the constant gates: a printer that is never called -/
def noNum : Num Empty where
  disp := fun x => x.elim
  addPi := fun x => x
  evalExpr := fun _ => none

/-- exact values of the numeric operands that ℚ(ζ₈) has: `crk` for k ≤ 2 -/
def q8Sem : CQ1.NumSem Q8 Empty where
  angle := fun _ => none
  rk := fun k => match k with
    | 0 => some (-1)
    | 1 => some (Amp.I Empty)
    | 2 => some (Amp.zeta8 Empty)
    | _ => none

def nzQ8 (ψ : List Q8) : Bool := ψ.any (· != 0)

def basisVec (k j : Nat) : List Q8 := (List.range (2 ^ k)).map fun i => if i = j then 1 else 0

def allPlacements : Nat → List (List Nat)
  | 1 => [[0]]
  | 2 => [[0, 1], [1, 0]]
  | 3 => [[0, 1, 2], [0, 2, 1], [1, 0, 2], [1, 2, 0], [2, 0, 1], [2, 1, 0]]
  | _ => []

/-- the model's text for `name` on `bits` means `phase · U(name)` on every basis state of `k` qubits -/
def plainOK (name : String) (phase : Q8) (bits : List Nat) : Bool :=
  let k := bits.length
  match cQasm Gen.cqGates noNum (qNames k) (.lib name []) bits, libTerm name ([] : List Empty) with
  | .ok text, some term =>
    match CQ1.parseFragment text with
    | .ok subs =>
      let U : LMat Q8 := CQ1.scale phase (Spec.embed k bits (Spec.specMatrix term))
      (CQ1.subsWf k subs).isNone &&
      CQ1.subsSem q8Sem k nzQ8 subs ((List.range (2 ^ k)).map fun j => (basisVec k j, 5)) ==
        some ((List.range (2 ^ k)).map fun j => (LMat.mulVec U (basisVec k j), 5))
    | .error _ => false
  | _, _ => false

/-- the model's conditional text for `name` under the condition `b[0]`: applied iff bit 0 of the word is 1 -/
def condOK (name : String) (phase : Q8) (bits : List Nat) : Bool :=
  let k := bits.length
  match condCQasm Gen.cqGates noNum (bName 0) (qNames k) (.lib name []) bits, libTerm name ([] : List Empty) with
  | .ok text, some term =>
    match CQ1.parseFragment text with
    | .ok subs =>
      let U : LMat Q8 := CQ1.scale phase (Spec.embed k bits (Spec.specMatrix term))
      (CQ1.subsWf k subs).isNone &&
      CQ1.subsSem q8Sem k nzQ8 subs ((List.range (2 ^ k)).map fun j => (basisVec k j, 1)) ==
        some ((List.range (2 ^ k)).map fun j => (LMat.mulVec U (basisVec k j), 1)) &&
      CQ1.subsSem q8Sem k nzQ8 subs ((List.range (2 ^ k)).map fun j => (basisVec k j, 2)) ==
        some ((List.range (2 ^ k)).map fun j => (basisVec k j, 2))
    | .error _ => false
  | _, _ => false

/-- one-qubit constant gates and the global phase of their (single-line) translation -/
def const1 : List (String × Q8) :=
  [("H", 1), ("X", 1), ("Y", 1), ("Z", 1), ("S", 1), ("Sdg", 1), ("T", 1), ("Tdg", 1), ("I", 1),
   ("V", Amp.conj Empty (Amp.zeta8 Empty)), ("Vdg", Amp.zeta8 Empty)]

/-- two-qubit constant gates with a single-line exact translation -/
def const2 : List (String × Q8) := [("CX", 1), ("CZ", 1), ("Swap", 1), ("CS", 1), ("CT", 1)]

end Q1t.Proofs.CQasm

import Q1t.Model.CQasm
import Q1t.Spec.CQ1
/-!
C12: the shape of every library gate's translation, read off the GENERATED table symbolically (no numbers): each
line of the `format!` string / `c_qasm=` template as `(instruction name, operand texts)`, where a qubit operand is
`{i}` (the `i`-th listed qubit) and a parameter operand is the template's own hole text.
`Props/C12.templates_as_modelled` pins this table; the per-gate obligations refer to it.
-/
namespace Q1t.Proofs.CQasm
open Q1t Q1t.CQ Q1t.Gen

/-- hole text of a `format!` argument -/
def argHole : CQArg → Text
  | .bit k => '{' :: natText k ++ ['}']
  | .param f => '{' :: f.toList ++ ['}']
  | .paramPlusPi f => '{' :: f.toList ++ "+pi}".toList

/-- the translation as text with symbolic holes -/
def symbolicText (g : CQGate) : Text :=
  match g.kind with
  | .format _ pieces args => fillFormat (pieces.map String.toList) (args.map argHole)
  | .plain lname =>
      let n := libBits g.name
      lname.toList ++ ' ' :: intercalate ", ".toList ((List.range n).map fun k => argHole (.bit k)) ++
        (if g.params.isEmpty then [] else ", ".toList ++ intercalate ", ".toList (g.params.map fun p => argHole (.param p)))
  | .template tpl => tpl.toList

/-- split an operand list at the commas that are not inside braces or parentheses -/
def splitTop : Text → Nat → Text → List Text
  | [], _, cur => [cur.reverse]
  | c :: cs, depth, cur =>
    if c = ',' && depth = 0 then cur.reverse :: splitTop cs 0 []
    else if c = '{' || c = '(' then splitTop cs (depth + 1) (c :: cur)
    else if c = '}' || c = ')' then splitTop cs (depth - 1) (c :: cur)
    else splitTop cs depth (c :: cur)

/-- one line: instruction name and operand texts -/
def lineShape (l : Text) : String × List String :=
  let l := CQ1.trim l
  let name := l.takeWhile (fun c => c != ' ')
  let rest := CQ1.trim (l.drop name.length)
  (String.ofList name, if rest.isEmpty then [] else (splitTop rest 0 []).map fun t => String.ofList (CQ1.trim t))

def gateShape (g : CQGate) : String × List String × List (String × List String) :=
  (g.name, g.params, (CQ1.splitOnChar '\n' (symbolicText g)).map lineShape)

end Q1t.Proofs.CQasm

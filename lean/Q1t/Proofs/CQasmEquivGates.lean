import Q1t.Proofs.CQasmEquivLib
set_option linter.unusedSimpArgs false
set_option linter.unusedSectionVars false
set_option linter.unusedVariables false
/-!
C12 (`cq_equiv_partial`), part 4: for the gates of `exactGates`, the value-level lines of the generated template,
placed on ANY valid placement `bits` of an `n`-qubit register, multiply to `embed n bits (documented unitary)`; hence a
gate operation and its exported lines have the same branch.
-/
namespace Q1t.Proofs.CQasm
open Q1t Q1t.Spec Q1t.Proofs.Route Q1t.CQ Q1t.Gen Q1t.OpenQasm Q1t.Proofs.Unitaries

variable {α P : Type} [CommRing α] [Amp α P]

/-- the ordered product of placed lines on `k` qubits -/
def prodK (k : Nat) (apps : List (List Nat × LMat α)) : LMat α :=
  apps.foldl (fun m a => LMat.mul (embed k a.1 a.2) m) (LMat.identity (2 ^ k))

/-- lines placed on a register: local qubit `j` becomes `bits[j]` -/
def placeApps (bits : List Nat) (apps : List (List Nat × LMat α)) : List (List Nat × LMat α) :=
  apps.map fun a => (relabel bits a.1, a.2)

/-- **lifting**: the product on `k` qubits, placed on `bits`, is the product of the placed lines -/
theorem prod_lift (n : Nat) (bits : List Nat) (hv : validBits n bits = true) (apps : List (List Nat × LMat α))
    (hl : ∀ a ∈ apps, validBits bits.length a.1 = true) :
    prodK n (placeApps bits apps) = embed n bits (prodK bits.length apps) := by
  unfold prodK placeApps
  rw [embed_foldl_compose_one n bits hv apps hl, List.foldl_map]

/-- a gate whose value-level lines multiply (on `k` qubits) to its documented unitary is exported equivalently on
every valid placement -/
theorem gate_equiv_of_prod (n : Nat) (nz : List α → Bool) (term : GateTerm P) (bits : List Nat)
    (hv : validBits n bits = true) (apps : List (List Nat × LMat α))
    (hl : ∀ a ∈ apps, validBits bits.length a.1 = true) (hprod : prodK bits.length apps = specMatrix term)
    (br : CQ1.Branch α) (hbr : BrInv n nz br) (hnz : nz (LMat.mulVec (embed n bits (specMatrix term)) br.1) = true) :
    some (dSeq n nz (gateLines (placeApps bits apps)) [br]) = Spec.branchesOp n nz (.gate term bits) br := by
  apply gate_op_equiv n nz term bits _ _ br hbr hnz
  have := prod_lift n bits hv apps hl
  unfold prodK at this
  rw [this]; unfold prodK at hprod; rw [← hprod]

/-! ### the products on `k` qubits -/

theorem prod1 (a b c d : α) : prodK 1 [([0], [[a, b], [c, d]])] = [[a, b], [c, d]] := by
  show LMat.mul (embed 1 [0] [[a, b], [c, d]]) (LMat.identity 2) = _
  exact wrap1_two a b c d

theorem prod_H : prodK 1 [([0], (CQ1.mH (P := P) : LMat α))] = specMatrix (.H : GateTerm P) := by
  rw [show (CQ1.mH (P := P) : LMat α) = [[Amp.hsqrt2 P * 1, Amp.hsqrt2 P * 1], [Amp.hsqrt2 P * 1, Amp.hsqrt2 P * -1]] from rfl,
    prod1]
  simp [specMatrix]
theorem prod_X : prodK 1 [([0], (CQ1.mX : LMat α))] = specMatrix (.X : GateTerm P) := by
  rw [show (CQ1.mX : LMat α) = [[0, 1], [1, 0]] from rfl, prod1]; simp [specMatrix, pauliX]
theorem prod_Y : prodK 1 [([0], (CQ1.mY (P := P) : LMat α))] = specMatrix (.Y : GateTerm P) := by
  rw [show (CQ1.mY (P := P) : LMat α) = [[0, -(Amp.I P)], [Amp.I P, 0]] from rfl, prod1]; simp [specMatrix, pauliY]
theorem prod_Z : prodK 1 [([0], (CQ1.mZ : LMat α))] = specMatrix (.Z : GateTerm P) := by
  rw [show (CQ1.mZ : LMat α) = [[1, 0], [0, -1]] from rfl, prod1]; simp [specMatrix, pauliZ]
theorem prod_S : prodK 1 [([0], (CQ1.mS (P := P) : LMat α))] = specMatrix (.S : GateTerm P) := by
  rw [show (CQ1.mS (P := P) : LMat α) = [[1, 0], [0, Amp.I P]] from rfl, prod1]; simp [specMatrix]
theorem prod_Sdg : prodK 1 [([0], (CQ1.mSdag (P := P) : LMat α))] = specMatrix (.Sdg : GateTerm P) := by
  rw [show (CQ1.mSdag (P := P) : LMat α) = [[1, 0], [0, -(Amp.I P)]] from rfl, prod1]; simp [specMatrix]
theorem prod_T : prodK 1 [([0], (CQ1.mT (P := P) : LMat α))] = specMatrix (.T : GateTerm P) := by
  rw [show (CQ1.mT (P := P) : LMat α) = [[1, 0], [0, Amp.zeta8 P]] from rfl, prod1]; simp [specMatrix]
theorem prod_Tdg : prodK 1 [([0], (CQ1.mTdag (P := P) : LMat α))] = specMatrix (.Tdg : GateTerm P) := by
  rw [show (CQ1.mTdag (P := P) : LMat α) = [[1, 0], [0, Amp.conj P (Amp.zeta8 P)]] from rfl, prod1]; simp [specMatrix]
theorem prod_I : prodK 1 [([0], (CQ1.mI : LMat α))] = specMatrix (.I : GateTerm P) := by
  rw [show (CQ1.mI : LMat α) = [[1, 0], [0, 1]] from rfl, prod1]; simp [specMatrix]

theorem prod_RX (θ : P) : prodK 1 [([0], (CQ1.mRx θ : LMat α))] = specMatrix (.RX θ) := by
  rw [← rx_line θ]; unfold CQ1.mRx; exact prod1 _ _ _ _
theorem prod_RY (h : LawfulAmp α P) (θ : P) : prodK 1 [([0], (CQ1.mRy θ : LMat α))] = specMatrix (.RY θ) := by
  rw [← ry_line h θ]; unfold CQ1.mRy; exact prod1 _ _ _ _
theorem prod_RZ (θ : P) : prodK 1 [([0], (CQ1.mRz θ : LMat α))] = specMatrix (.RZ θ) := by
  rw [← rz_line θ]; unfold CQ1.mRz; exact prod1 _ _ _ _

theorem prod_CX : prodK 2 [([0, 1], (CQ1.mCnot : LMat α))] = specMatrix (.CX : GateTerm P) := by
  show app2 [0, 1] CQ1.mCnot I4 = _
  rw [mCnot_bd, app2_both]
  simp [specMatrix, pauliX, ctrl_two]

theorem prod_CRY (h : LawfulAmp α P) (hh : LawfulHalf α P) (hn : LawfulNegHalf α P) (θ : P) :
    prodK 2 [([0, 1], (CQ1.mCnot : LMat α)), ([1], CQ1.mRy (Amp.pneg α (Amp.phalf α θ))), ([0, 1], CQ1.mCnot),
      ([1], CQ1.mRy (Amp.phalf α θ))] = specMatrix (.C (.RY θ)) := cry_assembled h hh hn θ

theorem prod_CRX (h : LawfulAmp α P) (hh : LawfulHalf α P) (hn : LawfulNegHalf α P) (θ : P) :
    prodK 2 [([1], (CQ1.mS (P := P) : LMat α)), ([0, 1], CQ1.mCnot), ([1], CQ1.mRy (Amp.pneg α (Amp.phalf α θ))),
      ([0, 1], CQ1.mCnot), ([1], CQ1.mRy (Amp.phalf α θ)), ([1], CQ1.mSdag (P := P))] = specMatrix (.C (.RX θ)) :=
  crx_assembled h hh hn θ

theorem prod_CCRY (h : LawfulAmp α P) (hh : LawfulHalf α P) (hn : LawfulNegHalf α P) (θ : P) :
    prodK 3 (let q := Amp.phalf α (Amp.phalf α θ); let nq := Amp.pneg α (Amp.phalf α (Amp.phalf α θ))
        [([1, 2], (CQ1.mCnot : LMat α)), ([2], CQ1.mRy nq), ([1, 2], CQ1.mCnot), ([2], CQ1.mRy q), ([0, 1], CQ1.mCnot),
         ([1, 2], CQ1.mCnot), ([2], CQ1.mRy q), ([1, 2], CQ1.mCnot), ([2], CQ1.mRy nq), ([0, 1], CQ1.mCnot),
         ([0, 2], CQ1.mCnot), ([2], CQ1.mRy nq), ([0, 2], CQ1.mCnot), ([2], CQ1.mRy q)]) = specMatrix (.C (.C (.RY θ))) :=
  ccry_assembled h hh hn θ

end Q1t.Proofs.CQasm

namespace Q1t.Proofs.CQasm
open Q1t Q1t.Spec Q1t.Proofs.Route Q1t.CQ Q1t.Gen Q1t.OpenQasm Q1t.Proofs.Unitaries

variable {α P : Type} [CommRing α] [Amp α P]

theorem prod_CCRX (h : LawfulAmp α P) (hh : LawfulHalf α P) (hn : LawfulNegHalf α P) (θ : P) :
    prodK 3 (([2], (CQ1.mS (P := P) : LMat α)) ::
      (let q := Amp.phalf α (Amp.phalf α θ); let nq := Amp.pneg α (Amp.phalf α (Amp.phalf α θ))
        [([1, 2], (CQ1.mCnot : LMat α)), ([2], CQ1.mRy nq), ([1, 2], CQ1.mCnot), ([2], CQ1.mRy q), ([0, 1], CQ1.mCnot),
         ([1, 2], CQ1.mCnot), ([2], CQ1.mRy q), ([1, 2], CQ1.mCnot), ([2], CQ1.mRy nq), ([0, 1], CQ1.mCnot),
         ([0, 2], CQ1.mCnot), ([2], CQ1.mRy nq), ([0, 2], CQ1.mCnot), ([2], CQ1.mRy q)]) ++ [([2], CQ1.mSdag (P := P))]) =
      specMatrix (.C (.C (.RX θ))) := ccrx_assembled h hh hn θ

/-- the library gates whose translation is proved EXACT (no phase) for all parameter values -/
def exactGates : List String :=
  ["H", "X", "Y", "Z", "S", "Sdg", "T", "Tdg", "I", "RX", "RY", "RZ", "CX", "CRY", "CRX", "CCRY", "CCRX"]

/-- **every exact gate**: its value-level lines exist, are placed on valid local qubits, and multiply (on
`k = nr_affected_bits` qubits) to the documented unitary of the gate — for ALL parameter values -/
theorem params_const : ∀ nm ∈ ["H", "X", "Y", "Z", "S", "Sdg", "T", "Tdg", "I", "CX"], paramsOfName nm = [] := by
  decide +kernel

theorem exact_gate (h : LawfulAmp α P) (hh : LawfulHalf α P) (hn : LawfulNegHalf α P) (name : String)
    (hname : name ∈ exactGates) (vals : List P) (hvals : vals.length = (paramsOfName name).length) :
    ∃ (apps : List (List Nat × LMat α)) (term : GateTerm P),
      exactDenot (α := α) name vals = some apps ∧ CQ.libTerm name vals = some term ∧
      (apps.map (·.1)).all (fun l => validBits (libBits name) l) = true ∧ prodK (libBits name) apps = specMatrix term := by
  obtain ⟨s1, s2, s3, s4, s5, s6, s7, s8, s9, s10, s11, s12, s13, s14, s15, s16, s17, p1, p2, p3, p4, p5, p6, p7⟩ :=
    slines_table
  simp only [exactGates, List.mem_cons, List.mem_nil_iff, or_false] at hname
  rcases hname with rfl | rfl | rfl | rfl | rfl | rfl | rfl | rfl | rfl | rfl | rfl | rfl | rfl | rfl | rfl | rfl | rfl
  · have hv : vals = [] := by rw [params_const _ (by decide)] at hvals; simpa using hvals
    subst hv
    exact ⟨_, .H, by rw [exactDenot, s1]; exact apps_q1 "h" _ _ rfl, rfl, by simp [validBits, libBits], prod_H⟩
  · have hv : vals = [] := by rw [params_const _ (by decide)] at hvals; simpa using hvals
    subst hv
    exact ⟨_, .X, by rw [exactDenot, s2]; exact apps_q1 "x" _ _ rfl, rfl, by simp [validBits, libBits], prod_X⟩
  · have hv : vals = [] := by rw [params_const _ (by decide)] at hvals; simpa using hvals
    subst hv
    exact ⟨_, .Y, by rw [exactDenot, s3]; exact apps_q1 "y" _ _ rfl, rfl, by simp [validBits, libBits], prod_Y⟩
  · have hv : vals = [] := by rw [params_const _ (by decide)] at hvals; simpa using hvals
    subst hv
    exact ⟨_, .Z, by rw [exactDenot, s4]; exact apps_q1 "z" _ _ rfl, rfl, by simp [validBits, libBits], prod_Z⟩
  · have hv : vals = [] := by rw [params_const _ (by decide)] at hvals; simpa using hvals
    subst hv
    exact ⟨_, .S, by rw [exactDenot, s5]; exact apps_q1 "s" _ _ rfl, rfl, by simp [validBits, libBits], prod_S⟩
  · have hv : vals = [] := by rw [params_const _ (by decide)] at hvals; simpa using hvals
    subst hv
    exact ⟨_, .Sdg, by rw [exactDenot, s6]; exact apps_q1 "sdag" _ _ rfl, rfl, by simp [validBits, libBits], prod_Sdg⟩
  · have hv : vals = [] := by rw [params_const _ (by decide)] at hvals; simpa using hvals
    subst hv
    exact ⟨_, .T, by rw [exactDenot, s7]; exact apps_q1 "t" _ _ rfl, rfl, by simp [validBits, libBits], prod_T⟩
  · have hv : vals = [] := by rw [params_const _ (by decide)] at hvals; simpa using hvals
    subst hv
    exact ⟨_, .Tdg, by rw [exactDenot, s8]; exact apps_q1 "tdag" _ _ rfl, rfl, by simp [validBits, libBits], prod_Tdg⟩
  · have hv : vals = [] := by rw [params_const _ (by decide)] at hvals; simpa using hvals
    subst hv
    exact ⟨_, .I, by rw [exactDenot, s9]; exact apps_q1 "i" _ _ rfl, rfl, by simp [validBits, libBits], prod_I⟩
  · rw [p1] at hvals
    match vals, hvals with
    | [θ], _ =>
      exact ⟨_, .RX θ, by rw [exactDenot, s10, p1]; exact apps_arg1 "rx" "theta" θ _ _ (rhoOf_single _ θ) rfl, rfl,
        by simp [validBits, libBits], prod_RX θ⟩
  · rw [p2] at hvals
    match vals, hvals with
    | [θ], _ =>
      exact ⟨_, .RY θ, by rw [exactDenot, s11, p2]; exact apps_arg1 "ry" "theta" θ _ _ (rhoOf_single _ θ) rfl, rfl,
        by simp [validBits, libBits], prod_RY h θ⟩
  · rw [p3] at hvals
    match vals, hvals with
    | [θ], _ =>
      exact ⟨_, .RZ θ, by rw [exactDenot, s12, p3]; exact apps_arg1 "rz" "lambda" θ _ _ (rhoOf_single _ θ) rfl, rfl,
        by simp [validBits, libBits], prod_RZ θ⟩
  · have hv : vals = [] := by rw [params_const _ (by decide)] at hvals; simpa using hvals
    subst hv
    refine ⟨_, .CX, ?_, rfl, ?_, prod_CX⟩
    · rw [exactDenot, s13]; simp [linesApps, lineApp_cnot]
    · simp [validBits, libBits]
  · rw [p4] at hvals
    match vals, hvals with
    | [θ], _ =>
      refine ⟨_, .C (.RY θ), ?_, rfl, ?_, prod_CRY h hh hn θ⟩
      · rw [exactDenot, s14, p4]; exact apps_cry θ _ (rhoOf_single _ θ)
      · simp [validBits, libBits]
  · rw [p5] at hvals
    match vals, hvals with
    | [θ], _ =>
      refine ⟨_, .C (.RX θ), ?_, rfl, ?_, prod_CRX h hh hn θ⟩
      · rw [exactDenot, s15, p5]
        exact linesApps_cons _ _ _ _ _ (lineApp_q "s" 1 _ _ rfl)
          (linesApps_append _ _ _ _ _ (apps_cry θ _ (rhoOf_single _ θ))
            (linesApps_cons _ _ _ _ _ (lineApp_q "sdag" 1 _ _ rfl) rfl))
      · simp [validBits, libBits]
  · rw [p6] at hvals
    match vals, hvals with
    | [θ], _ =>
      refine ⟨_, .C (.C (.RY θ)), ?_, rfl, ?_, prod_CCRY h hh hn θ⟩
      · rw [exactDenot, s16, p6]; exact apps_ccry θ _ (rhoOf_single _ θ)
      · simp [validBits, libBits]
  · rw [p7] at hvals
    match vals, hvals with
    | [θ], _ =>
      refine ⟨_, .C (.C (.RX θ)), ?_, rfl, ?_, prod_CCRX h hh hn θ⟩
      · rw [exactDenot, s17, p7]
        exact linesApps_cons _ _ _ _ _ (lineApp_q "s" 2 _ _ rfl)
          (linesApps_append _ _ _ _ _ (apps_ccry θ _ (rhoOf_single _ θ))
            (linesApps_cons _ _ _ _ _ (lineApp_q "sdag" 2 _ _ rfl) rfl))
      · simp [validBits, libBits]

end Q1t.Proofs.CQasm

import Q1t.Proofs.CQasmTextLines
import Q1t.Proofs.CQasmWF
import Q1t.Proofs.CQasmEquivCond
set_option linter.unusedSimpArgs false
set_option linter.unusedSectionVars false
set_option linter.unusedVariables false
/-!
C12 (text link), part 3: texts that denote.  `PlainDen t D`: every code line of `t` is a statement line and the
statement lists concatenate to `D`; `TextDen t D`: statement lines and `.label(k)` … `.end` sections (`ProgDen`).
Closure under the exporter's ways of joining texts, then the library gate (all its lines, plain and conditional).
-/
namespace Q1t.Proofs.CQasm
open Q1t Q1t.Spec Q1t.CQ Q1t.Gen Q1t.Proofs.Route

variable {F α P : Type} [CommRing α] [Amp α P]

def PlainDen (S : CQ1.NumSem α P) (nq : Nat) (nz : List α → Bool) (t : Text) (D : List (DStmt α)) : Prop :=
  ∃ Ds, List.Forall₂ (LineStmt S nq nz) (CQ1.codeLines t) Ds ∧ D = Ds.flatten

def TextDen (S : CQ1.NumSem α P) (nq : Nat) (nz : List α → Bool) (t : Text) (D : List (DStmt α)) : Prop :=
  ProgDen S nq nz (CQ1.codeLines t) D

section closure
variable (S : CQ1.NumSem α P) (nq : Nat) (nz : List α → Bool)

theorem plainDen_nil : PlainDen S nq nz [] [] := ⟨[], by rw [codeLines_nil]; exact List.Forall₂.nil, rfl⟩

theorem forall2_append {β γ : Type} {R : β → γ → Prop} {a1 a2 : List β} {b1 b2 : List γ}
    (h1 : List.Forall₂ R a1 b1) (h2 : List.Forall₂ R a2 b2) : List.Forall₂ R (a1 ++ a2) (b1 ++ b2) :=
  List.rel_append h1 h2

theorem plainDen_append (a b : Text) (Da Db : List (DStmt α)) (ha : PlainDen S nq nz a Da)
    (hb : PlainDen S nq nz b Db) : PlainDen S nq nz (a ++ '\n' :: b) (Da ++ Db) := by
  obtain ⟨Dsa, fa, rfl⟩ := ha
  obtain ⟨Dsb, fb, rfl⟩ := hb
  exact ⟨Dsa ++ Dsb, by rw [codeLines_append]; exact forall2_append fa fb, by simp⟩

theorem plainDen_intercalate : ∀ (ts : List Text) (Ds : List (List (DStmt α))),
    List.Forall₂ (PlainDen S nq nz) ts Ds → PlainDen S nq nz (intercalate ['\n'] ts) Ds.flatten
  | [], [], _ => plainDen_nil S nq nz
  | [t], [D], h => by
    cases h with
    | cons h _ => simpa [intercalate] using h
  | t :: t' :: ts, D :: D' :: Ds, h => by
    cases h with
    | cons h hrest =>
      have e : intercalate ['\n'] (t :: t' :: ts) = t ++ '\n' :: intercalate ['\n'] (t' :: ts) := by
        simp [intercalate]
      rw [e, List.flatten_cons]
      exact plainDen_append S nq nz _ _ _ _ h (plainDen_intercalate (t' :: ts) (D' :: Ds) hrest)
  | [_], _ :: _ :: _, h => by cases h with | cons _ h => cases h
  | _ :: _ :: _, [_], h => by cases h with | cons _ h => cases h

theorem plainDen_single (l : Text) (D : List (DStmt α)) (hc : CleanLine l) (h : LineStmt S nq nz l D) :
    PlainDen S nq nz l D :=
  ⟨[D], by rw [codeLines_single l hc.ne hc.trim hc.chars]; exact List.Forall₂.cons h List.Forall₂.nil, by simp⟩

theorem textDen_of_plain (t : Text) (D : List (DStmt α)) (h : PlainDen S nq nz t D) : TextDen S nq nz t D := by
  obtain ⟨Ds, f, rfl⟩ := h
  exact ProgDen.of_lines S nq nz _ Ds f

theorem textDen_nil : TextDen S nq nz [] [] := textDen_of_plain S nq nz _ _ (plainDen_nil S nq nz)

theorem textDen_append (a b : Text) (Da Db : List (DStmt α)) (ha : TextDen S nq nz a Da)
    (hb : TextDen S nq nz b Db) : TextDen S nq nz (a ++ '\n' :: b) (Da ++ Db) := by
  unfold TextDen; rw [codeLines_append]; exact ProgDen.append S nq nz ha hb

theorem textDen_intercalate : ∀ (ts : List Text) (Ds : List (List (DStmt α))),
    List.Forall₂ (TextDen S nq nz) ts Ds → TextDen S nq nz (intercalate ['\n'] ts) Ds.flatten
  | [], [], _ => textDen_nil S nq nz
  | [t], [D], h => by
    cases h with
    | cons h _ => simpa [intercalate] using h
  | t :: t' :: ts, D :: D' :: Ds, h => by
    cases h with
    | cons h hrest =>
      have e : intercalate ['\n'] (t :: t' :: ts) = t ++ '\n' :: intercalate ['\n'] (t' :: ts) := by
        simp [intercalate]
      rw [e, List.flatten_cons]
      exact textDen_append S nq nz _ _ _ _ h (textDen_intercalate (t' :: ts) (D' :: Ds) hrest)
  | [_], _ :: _ :: _, h => by cases h with | cons _ h => cases h
  | _ :: _ :: _, [_], h => by cases h with | cons _ h => cases h

theorem textDen_chunks : ∀ (cs : List Text) (Ds : List (List (DStmt α))),
    List.Forall₂ (TextDen S nq nz) cs Ds → TextDen S nq nz (chunksText cs) Ds.flatten
  | [], [], _ => textDen_nil S nq nz
  | c :: cs, D :: Ds, h => by
    cases h with
    | cons h hrest =>
      have e : chunksText (c :: cs) = c ++ '\n' :: chunksText cs := by simp [chunksText]
      rw [e, List.flatten_cons]
      exact textDen_append S nq nz _ _ _ _ h (textDen_chunks cs Ds hrest)

theorem repeatD_flatten (D : List (DStmt α)) : ∀ k, repeatD D k = (List.replicate k D).flatten
  | 0 => rfl
  | k + 1 => by simp [repeatD, List.replicate_succ, repeatD_flatten D k]

theorem plainDen_replicate (t : Text) (D : List (DStmt α)) (h : PlainDen S nq nz t D) (k : Nat) :
    PlainDen S nq nz (intercalate ['\n'] (List.replicate k t)) (repeatD D k) := by
  rw [repeatD_flatten]
  apply plainDen_intercalate
  induction k with
  | zero => exact List.Forall₂.nil
  | succ k ih => simpa [List.replicate_succ] using List.Forall₂.cons h ih

/-- a loop section: header, body of statement lines, `.end` -/
theorem textDen_loop (label : Text) (k : Nat) (hl : labelOK label = true) (body : Text) (D : List (DStmt α))
    (hb : PlainDen S nq nz body D) :
    TextDen S nq nz (('.' :: (label ++ '(' :: (natText k ++ [')']))) ++ '\n' :: (body ++ '\n' :: ".end".toList))
      (repeatD D k) := by
  obtain ⟨Ds, f, rfl⟩ := hb
  have hlc := word_labelChars label hl
  have hd := natText_digits k
  have hhdr : CQ1.codeLines ('.' :: (label ++ '(' :: (natText k ++ [')']))) =
      ['.' :: (label ++ '(' :: (natText k ++ [')']))] := by
    apply codeLines_single _ (by simp)
    · apply trim_id
      · intro c hc; simp at hc; subst hc; decide
      · intro c hc
        have e : '.' :: (label ++ '(' :: (natText k ++ [')'])) = ('.' :: (label ++ '(' :: natText k)) ++ [')'] := by simp
        rw [e, List.getLast?_concat] at hc; injection hc with hc; subst hc; decide
    · intro c hc
      simp only [List.mem_cons, List.mem_append, List.mem_singleton] at hc
      rcases hc with rfl | hc | rfl | hc | hc
      · decide
      · exact ⟨(hlc c hc).1, (hlc c hc).2.1⟩
      · decide
      · have := hd c hc
        refine ⟨?_, ?_⟩ <;> (intro e; subst e; revert this; decide)
      · rcases hc with rfl | hc
        · decide
        · cases hc
  have hend : CQ1.codeLines ".end".toList = [".end".toList] := by decide
  unfold TextDen
  rw [codeLines_append, codeLines_append, hhdr, hend]
  have := ProgDen.loop (S := S) (n := nq) (nz := nz) ('.' :: (label ++ '(' :: (natText k ++ [')']))) ".end".toList
    (String.ofList label) "end" k (CQ1.codeLines body) [] Ds [] rfl (parseHeader_loop label k hl) f rfl
    parseHeader_end ProgDen.nil
  simpa using this

end closure

/-! ### numbers as printed (`F`) and as values (`P`) -/

def mapParam (val : F → P) : Param F → Param P
  | .direct v => .direct (val v)
  | .ref nm v => .ref nm (val v)

mutual
def mapGate (val : F → P) : XGate F → XGate P
  | .lib name ps => .lib name (ps.map (mapParam val))
  | .ctl g => .ctl (mapGate val g)
  | .kron g0 g1 => .kron (mapGate val g0) (mapGate val g1)
  | .comp name n ops => .comp name n (mapOps val ops)
  | .loop label iters name n ops => .loop label iters name n (mapOps val ops)
def mapOps (val : F → P) : XOps F → XOps P
  | .nil => .nil
  | .cons g sub rest => .cons (mapGate val g) sub (mapOps val rest)
end

theorem nrBits_mapGate (val : F → P) : ∀ g : XGate F, nrBits (mapGate val g) = nrBits g
  | .lib _ _ => rfl
  | .ctl g => by simp [mapGate, nrBits, nrBits_mapGate val g]
  | .kron g0 g1 => by simp [mapGate, nrBits, nrBits_mapGate val g0, nrBits_mapGate val g1]
  | .comp _ _ _ => rfl
  | .loop _ _ _ _ _ => rfl

theorem mapParam_value (val : F → P) (ps : List (Param F)) :
    (ps.map (mapParam val)).map Param.value = ps.map fun p => val p.value := by
  simp only [List.map_map]
  apply List.map_congr_left
  intro p _; cases p <;> rfl

theorem mapParam_isRef (val : F → P) (p : Param F) : (mapParam val p).isRef = p.isRef := by cases p <;> rfl

/-- the printed parameter by (text of) its name -/
def rhoF (names : List String) (ps : List (Param F)) : Text → Option F :=
  fun key => ((names.zip ps).find? fun np => np.1.toList == key).map (·.2.value)

theorem rhoF_val (val : F → P) (names : List String) (ps : List (Param F)) :
    (fun key => (rhoF names ps key).map val) = rhoOf names (ps.map fun p => val p.value) := by
  funext key
  simp only [rhoF, rhoOf, List.zip_map_right, List.find?_map, Option.map_map]
  rfl

theorem rhoF_paramOf (names : List String) (ps : List (Param F)) (a : String) (p : Param F)
    (h : paramOf names ps a = some p) : rhoF names ps a.toList = some p.value := by
  have hpred : (fun (np : String × Param F) => np.1.toList == a.toList) = fun np => np.1 == a := by
    funext np
    by_cases h : np.1 = a
    · rw [h]; simp
    · have h2 : ¬ np.1.toList = a.toList := fun e => h (String.toList_inj.mp e)
      have e1 : (np.1.toList == a.toList) = false := by simpa using h2
      have e2 : (np.1 == a) = false := by simpa using h
      rw [e1, e2]
  simp only [paramOf] at h
  simp only [rhoF, hpred]
  cases hf : (names.zip ps).find? (fun np => np.1 == a) with
  | none => rw [hf] at h; cases h
  | some np => rw [hf] at h; simp at h; simp [h]

theorem mapM_forall2_some {β γ : Type} (f : β → Option γ) : ∀ (l : List β) (r : List γ), l.mapM f = some r →
    List.Forall₂ (fun x y => f x = some y) l r
  | [], r, h => by simp at h; subst h; exact List.Forall₂.nil
  | a :: l, r, h => by
    obtain ⟨v, vs, h1, h2, rfl⟩ := mapM_cons_some f a l r h
    exact List.Forall₂.cons h1 (mapM_forall2_some f l vs h2)

/-- what is known of one printed line of a library gate's translation with the value-level line `a` -/
structure LineFacts (S : CQ1.NumSem α P) (nq : Nat) (nz : List α → Bool) (bits : List Nat) (line : Text)
    (a : List Nat × LMat α) : Prop where
  plain : LineStmt S nq nz line [.gate [] (relabel bits a.1) a.2]
  clean : CleanLine line
  printed : GoodPrinted nq bits line
  instr : ∃ i, CQ1.parseInstr line = .ok i ∧ InstrDen S nq nz i [.gate [] (relabel bits a.1) a.2]
  cond : ∀ control : List Nat, control ≠ [] → (∀ c ∈ control, c < nq) →
    ∃ line', defaultCond (intercalate ", ".toList (control.map bName)) line = .ok line' ∧
      LineStmt S nq nz line' [.gate control (relabel bits a.1) a.2] ∧ CleanLine line'

/-- **`c_qasm` of a library gate, with its meaning**: the text is the list of printed lines, one per value-level
line of `exactDenot`, each denoting that line placed on `bits` -/
theorem lib_den (N : Num F) (S : CQ1.NumSem α P) (val : F → P) (RB : ReadsBack (α := α) N S val) (nq : Nat)
    (nz : List α → Bool) (name : String) (ps : List (Param F)) (bits : List Nat)
    (hs : libSound name ps = true) (hl : bits.length = libBits name) (hn : bits.Nodup) (hb : ∀ b ∈ bits, b < nq)
    (t : Text) (h : libCQasm cqGates N (qNames nq) name ps bits = .ok t)
    (apps : List (List Nat × LMat α)) (happs : exactDenot (α := α) name (ps.map fun p => val p.value) = some apps) :
    ∃ g lines, cqGates.find? (·.name == name) = some g ∧ lines.length = (slinesOf g).length ∧
      t = intercalate ['\n'] lines ∧ List.Forall₂ (LineFacts S nq nz bits) lines apps := by
  have hN := RB.good
  unfold libCQasm at h
  unfold libSound at hs
  cases hf : cqGates.find? (·.name == name) with
  | none => rw [hf] at h; cases h
  | some g =>
    rw [hf] at h hs
    simp only [Bool.and_eq_true, beq_iff_eq, List.all_eq_true, Bool.not_eq_true'] at hs
    have hgm : g ∈ cqGates := List.mem_of_find?_eq_some hf
    have hgn : g.name = name := by simpa using List.find?_some hf
    have hk : bits.length = libBits g.name := by rw [hgn]; exact hl
    obtain ⟨h1, h2, h3, h4, h5⟩ := lib_text N hN g hgm hs.1.1 nq ps hs.1.2 hs.2 bits hk hb hn
    simp only [] at h
    rw [h2] at h
    injection h with h
    refine ⟨g, _, rfl, by simp, h.symm, ?_⟩
    -- the value-level lines
    have e1 : slinesOfName name = some (slinesOf g) := by simp [slinesOfName, hf]
    have e2 : paramsOfName name = g.params := by simp [paramsOfName, hf]
    simp only [exactDenot, e1, e2, Option.bind_some, linesApps] at happs
    have hF2 := mapM_forall2_some _ _ _ happs
    rw [List.forall₂_map_left_iff]
    -- per line
    have key : ∀ l ∈ slinesOf g, ∀ a,
        lineApp (α := α) (rhoOf g.params (ps.map fun p => val p.value)) l = some a →
        LineFacts S nq nz bits (instLine (substAll (kvsOf N bits g.params ps)) (fun i => (holeValue N i).getD []) l) a := by
      intro l hlm a hla
      obtain ⟨locs, M⟩ := a
      rw [← rhoF_val val g.params ps] at hla
      have hq : ∀ loc, ∀ (h : loc < bits.length),
          substAll (kvsOf N bits g.params ps) (.var (natText loc)) = .lit (qName bits[loc]) :=
        fun loc h => sigma_bit N bits g.params ps loc h
      have ha : ∀ a ∈ g.params, ∃ x, substAll (kvsOf N bits g.params ps) (.var a.toList) = .lit (N.disp x) ∧
          (fun key => (rhoF g.params ps key).map val) a.toList = some (val x) := by
        intro a ham
        obtain ⟨p, hpo, hσ⟩ := h4 a ham
        exact ⟨p.value, hσ, by simp [rhoF_paramOf g.params ps a p hpo]⟩
      have hv : ∀ inner, SOp.hole inner ∈ l.ops →
          ∃ y, (fun i => (holeValue N i).getD []) (innerText (substAll (kvsOf N bits g.params ps)) inner) = N.disp y ∧
            holeVal (α := α) (fun key => (rhoF g.params ps key).map val) inner = some (val y) := by
        intro inner hin
        obtain ⟨hvars, hshape, _⟩ := h5 l hlm inner hin
        have hcov : ∀ key, Tok.var key ∈ inner → (rhoF g.params ps key).isSome = true := by
          intro key hkey
          obtain ⟨a, ham, rfl⟩ := hvars key hkey
          obtain ⟨p, hpo, _⟩ := h4 a ham
          simp [rhoF_paramOf g.params ps a p hpo]
        obtain ⟨y, hy, hval⟩ := RB.holes_value g hgm hs.1.1 l hlm inner hin (rhoF g.params ps) hcov
        have heq : innerText (substAll (kvsOf N bits g.params ps)) inner =
            inner.flatMap (instTok N (rhoF g.params ps)) := by
          unfold innerText
          apply flatMap_congr'
          intro t ht
          cases t with
          | lit s => simp [substAll_lit, textOf, instTok]
          | var key =>
            obtain ⟨a, ham, rfl⟩ := hvars key ht
            obtain ⟨p, hpo, hσ⟩ := h4 a ham
            simp [hσ, textOf, instTok, rhoF_paramOf g.params ps a p hpo]
          | lb =>
            exfalso
            have : ∀ (inn : List Tok), innerOK inn = true → Tok.lb ∉ inn := by
              intro inn; induction inn with
              | nil => simp
              | cons t r ih => intro h; cases t <;> simp_all [innerOK]
            exact this inner hshape ht
          | rb =>
            exfalso
            have : ∀ (inn : List Tok), innerOK inn = true → Tok.rb ∉ inn := by
              intro inn; induction inn with
              | nil => simp
              | cons t r ih => intro h; cases t <;> simp_all [innerOK]
            exact this inner hshape ht
        exact ⟨y, by simp [heq, hy], hval⟩
      have hlg := h3 l hlm
      obtain ⟨p1, p2⟩ := line_stmt_plain N hN S val RB (substAll (kvsOf N bits g.params ps)) (fun i => (holeValue N i).getD []) (fun key => (rhoF g.params ps key).map val) (libBits g.name) g.params bits hk l hlg hq ha hv locs M hla
        nq nz hn hb
      refine ⟨p1, p2, ?_, ?_, ?_⟩
      · exact line_printed N hN (substAll (kvsOf N bits g.params ps)) (fun i => (holeValue N i).getD []) (libBits g.name) g.params nq bits hk hn l hlg hq
          (fun a ham => let ⟨x, hx, _⟩ := ha a ham; ⟨x, hx⟩) (fun inner hin => let ⟨y, hy, _⟩ := hv inner hin; ⟨y, hy⟩)
      · obtain ⟨args, sig, e, g1, g2, gne, hsg, g3, g4, g5, g6, hgmx, hnd, hlt⟩ :=
          line_args N hN S val RB (substAll (kvsOf N bits g.params ps)) (fun i => (holeValue N i).getD []) (fun key => (rhoF g.params ps key).map val) (libBits g.name) g.params bits hk l hlg hq ha hv locs M hla
        simp only [lineGood, Bool.and_eq_true, decide_eq_true_eq] at hlg
        obtain ⟨⟨⟨⟨⟨⟨w1, w2⟩, w3⟩, w4⟩, _⟩, _⟩, _⟩ := hlg
        refine ⟨_, by rw [e]; exact parseInstr_plain l.name _ args sig w1 (notCondName_spec w2) g2 g1 hsg g3, ?_⟩
        have := instrDen_gate S nq nz [] (String.ofList l.name) args M w4 hgmx
        rwa [g4] at this
      · intro control hc hcb
        obtain ⟨c1, c2, c3⟩ := line_stmt_cond N hN S val RB (substAll (kvsOf N bits g.params ps)) (fun i => (holeValue N i).getD []) (fun key => (rhoF g.params ps key).map val) (libBits g.name) g.params bits hk l hlg hq ha hv locs M
          hla nq nz hn hb control hc hcb
        exact ⟨_, c1, c2, c3⟩
    -- assemble
    have : ∀ (ls : List SLine) (as : List (List Nat × LMat α)), (∀ l ∈ ls, l ∈ slinesOf g) →
        List.Forall₂ (fun x y => lineApp (α := α) (rhoOf g.params (ps.map fun p => val p.value)) x = some y) ls as →
        List.Forall₂ (fun l a => LineFacts S nq nz bits
          (instLine (substAll (kvsOf N bits g.params ps)) (fun i => (holeValue N i).getD []) l) a) ls as := by
      intro ls as hsub hf2
      induction hf2 with
      | nil => exact List.Forall₂.nil
      | cons hxy _ ih =>
        exact List.Forall₂.cons (key _ (hsub _ (by simp)) _ hxy) (ih (fun l hl => hsub l (by simp [hl])))
    exact this _ _ (fun l hl => hl) hF2

end Q1t.Proofs.CQasm

import Q1t.Spec.PauliGroup
import Q1t.Gen.PhaseTable
/-!
C03, proofs part 2: the phase table of `multiply_row` against the Pauli matrices.
-/
namespace Q1t.Proofs.Tableau
open Q1t Q1t.Tableau Q1t.Spec.Pauli

/-- `ph` is a correct phase table: `σ_a σ_b = i^{ph[4a+b]} σ_{a xor b}` as 2×2 matrices over ℤ[ζ₈],
and every entry is a residue mod 4. -/
def PhaseTableCorrect (ph : List Nat) : Prop :=
  ∀ a b : P, sigma a * sigma b = (sigma (P.xor a b)).smulIPow (Tab.phaseAt ph a b) ∧ Tab.phaseAt ph a b < 4

theorem phaseTable_correct : PhaseTableCorrect Q1t.Gen.phaseTable := by
  intro a b
  cases a <;> cases b <;> decide +kernel

end Q1t.Proofs.Tableau

import Q1t.Proofs.TermUnitary
import Q1t.Proofs.SimUnitaryNorm
import Q1t.Proofs.SimDischarge
/-!
C02/C01: `GateSemOK` DISCHARGED COMPLETELY — for every well-formed gate term (primitives, `C`, `Kron`, `Composite`,
`Loop`, any nesting, all parameter values) on every valid placement (`Route.Placed`: arity, distinct in-range
qubits, addressable register for composites), every register size, every lawful amplitude ring:
`mat`/`vec` from C04 (`RouteSim`), `matrix g = specMatrix g` and unitarity from C04 + C05 (`TermUnitary`),
`iso` from `EmbedUnitary.embed_unitary` + `unitary_normSqSum`, `hh`/`ssdg` from `SimDischarge`.
-/
set_option linter.unusedSectionVars false
namespace Q1t.Sim
open Q1t Q1t.Spec Q1t.Gate Q1t.Proofs.Route

section
variable {α P : Type} [CommRing α] [Amp α P] [SimAmp α] {nz : α → Prop}

/-- a placed term is documented and unitary -/
theorem good_of_placed (ha : LawfulAmp α P) {n : Nat} {g : GateTerm P} {bits : List Nat} (hp : Placed n g bits) :
    Q1t.Proofs.Unitaries.Good (α := α) g := by
  obtain ⟨hwf, har, hvb, hword⟩ := hp
  refine good_of_wf ha g hwf (fun hc => ?_)
  have h1 := hword hc
  have h2 := Q1t.Proofs.BitPerm.validBits_length_le n bits hvb
  rw [har]; omega

theorem iso_placed (ha : LawfulAmp α P) (hs : LawfulSim α P nz) (n : Nat) (g : GateTerm P) (bits : List Nat)
    (hp : Placed n g bits) (v : List α) (hl : v.length = 2 ^ n) :
    normSqSum (gateOn n g bits v) = normSqSum v := by
  obtain ⟨hm, hu⟩ := good_of_placed (α := α) ha hp
  obtain ⟨_, har, hvb, _⟩ := hp
  rw [gateOn, ← hm]
  rw [har] at hu
  exact unitary_normSqSum ha hs (Nat.pow_pos (by decide)) (embed_unitary ha n bits hvb _ hu) v hl

/-- **`GateSemOK` holds for all well-formed terms on valid placements** -/
theorem gateSemOK_placed (ha : LawfulAmp α P) (hs : LawfulSim α P nz) (n : Nat) :
    GateSemOK α n (Placed (P := P) n) := by
  refine gateSemOK_of_c04 ha n _ (fun g bits hp => ⟨hp, (good_of_placed (α := α) ha hp).1⟩) (iso_placed ha hs n) ?_
    (hh_all ha n) (ssdg_all ha n)
  intro q hq
  have hvb : validBits n [q] = true := by simp [validBits, hq]
  exact ⟨⟨trivial, rfl, hvb, fun h => by simp [hasComposite] at h⟩, ⟨trivial, rfl, hvb, fun h => by simp [hasComposite] at h⟩,
    ⟨trivial, rfl, hvb, fun h => by simp [hasComposite] at h⟩, ⟨trivial, rfl, hvb, fun h => by simp [hasComposite] at h⟩⟩

end
end Q1t.Sim

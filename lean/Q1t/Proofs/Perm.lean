import Q1t.Model.Perm
import Q1t.Spec.Perm
import Batteries.Data.List.Perm
/-!
# Proofs for C17 (`src/permutation.rs`)

Lemmas about the executable model `Q1t.Perm` against the reference semantics `Q1t.Spec.Perm`.
Sections: bijection facts (pigeonhole via `List.Subperm`), `new`, `apply_vec_into`, `inverse`,
`apply_inverse_vec_into`, matrices over `Int` (`dot`, `transpose`, `matMul`), `transform`, and the
cycle-following in-place routine (invariants `InvOut`/`InvIn`, fuel = number of unmarked positions).
-/
namespace Q1t.Proofs.Perm
open Q1t.Perm Q1t.Spec.Perm

/-! ## basic facts about bijections -/

theorem foldl_max_lt (l : List Nat) (a n : Nat) :
    l.foldl max a < n ↔ a < n ∧ ∀ x ∈ l, x < n := by
  induction l generalizing a with
  | nil => simp
  | cons y ys ih =>
    simp only [List.foldl_cons, ih, List.mem_cons, forall_eq_or_imp, Nat.max_lt]
    constructor
    · rintro ⟨⟨h1, h2⟩, h3⟩; exact ⟨h1, h2, h3⟩
    · rintro ⟨h1, h2, h3⟩; exact ⟨⟨h1, h2⟩, h3⟩

theorem isPerm_mem_iff {p : List Nat} (hp : IsPerm p) (k : Nat) : k ∈ p ↔ k < p.length := by
  obtain ⟨_, hlt, hnd⟩ := hp
  have hsub : p ⊆ List.range p.length := fun x hx => List.mem_range.2 (hlt x hx)
  have hperm := (List.subperm_of_subset hnd hsub).perm_of_length_le (by simp)
  rw [hperm.mem_iff, List.mem_range]

theorem isPerm_surj {p : List Nat} (hp : IsPerm p) {k : Nat} (hk : k < p.length) :
    ∃ t, ∃ h : t < p.length, p[t] = k := by
  have := (isPerm_mem_iff hp k).2 hk
  obtain ⟨t, h, e⟩ := List.getElem_of_mem this
  exact ⟨t, h, e⟩

theorem isPerm_inj {p : List Nat} (hp : IsPerm p) {a b : Nat} (ha : a < p.length) (hb : b < p.length)
    (h : p[a] = p[b]) : a = b := by
  have := (List.getElem?_inj (i := a) (j := b) ha hp.2.2).1
  apply this
  simp [ha, hb, h]

/-! ## `new` -/

theorem checkDup_eq_firstRepeat (l : List Nat) (seen : List Bool) (earlier : List Nat)
    (hrep : ∀ x, seen.getD x false = true ↔ x ∈ earlier)
    (hl : ∀ x ∈ l, x < seen.length) :
    checkDup seen l = firstRepeat earlier l := by
  induction l generalizing seen earlier with
  | nil => simp [checkDup, firstRepeat]
  | cons y ys ih =>
    simp only [checkDup, firstRepeat]
    have hy : y < seen.length := hl y (by simp)
    by_cases hm : y ∈ earlier
    · rw [if_pos ((hrep y).2 hm), if_pos hm]
    · have : seen.getD y false ≠ true := fun h => hm ((hrep y).1 h)
      rw [if_neg this, if_neg hm]
      apply ih
      · intro x
        have := hrep x
        simp only [List.getD_eq_getElem?_getD, List.getElem?_set, List.mem_cons] at this ⊢
        by_cases hxy : y = x
        · subst hxy; simp [hy]
        · simp only [hxy, if_false]; rw [this]; constructor
          · intro h; exact Or.inr h
          · rintro (h | h)
            · exact absurd h.symm hxy
            · exact h
      · intro x hx; simp; exact hl x (by simp [hx])

theorem firstRepeat_none (l earlier : List Nat) :
    firstRepeat earlier l = none ↔ l.Nodup ∧ ∀ x ∈ l, x ∉ earlier := by
  induction l generalizing earlier with
  | nil => simp [firstRepeat]
  | cons y ys ih =>
    simp only [firstRepeat]
    by_cases hm : y ∈ earlier
    · simp [hm]
    · rw [if_neg hm, ih]
      simp only [List.nodup_cons, List.mem_cons, forall_eq_or_imp, not_or]
      constructor
      · rintro ⟨h1, h2⟩
        refine ⟨⟨fun h => (h2 y h).1 rfl, h1⟩, hm, fun x hx => (h2 x hx).2⟩
      · rintro ⟨⟨h1, h2⟩, _, h4⟩
        refine ⟨h2, fun x hx => ⟨fun h => h1 (h ▸ hx), h4 x hx⟩⟩
theorem checkDup_init (idxs : List Nat) (h : ∀ x ∈ idxs, x < idxs.length) :
    checkDup (List.replicate idxs.length false) idxs = firstRepeat [] idxs := by
  apply checkDup_eq_firstRepeat
  · intro x; simp [List.getD_eq_getElem?_getD, List.getElem?_replicate]; split <;> simp
  · simpa using h

theorem new_ok_iff (idxs : List Nat) : (∃ l, new idxs = .ok l) ↔ IsPerm idxs := by
  unfold new IsPerm
  by_cases he : idxs = []
  · simp [he]
  · have hpos : 0 < idxs.length := List.length_pos_iff.2 he
    simp only [List.isEmpty_iff, he, if_false, maxOf, ge_iff_le]
    by_cases hm : idxs.length ≤ idxs.foldl max 0
    · simp only [hm, if_true]
      have : ¬ ∀ x ∈ idxs, x < idxs.length := by
        intro h; have := (foldl_max_lt idxs 0 idxs.length).2 ⟨hpos, h⟩; omega
      simp [this]
    · simp only [hm, if_false]
      have hlt := ((foldl_max_lt idxs 0 idxs.length).1 (by omega)).2
      rw [checkDup_init idxs hlt]
      cases hfr : firstRepeat [] idxs with
      | none =>
        have := (firstRepeat_none idxs []).1 hfr
        simp only [he, this.1, not_false_eq_true, and_true, true_and, ne_eq, Except.ok.injEq, exists_eq']
        exact ⟨fun _ => hlt, fun _ => trivial⟩
      | some e =>
        have : ¬ idxs.Nodup := by
          intro hn
          have := (firstRepeat_none idxs []).2 ⟨hn, by simp⟩
          simp [this] at hfr
        simp [this]

theorem new_ok_value (idxs l : List Nat) (h : new idxs = .ok l) : l = idxs := by
  unfold new at h
  split at h
  · simp at h
  · simp only at h
    split at h
    · simp at h
    · split at h
      · simp at h
      · simpa using h.symm

theorem new_of_isPerm {idxs : List Nat} (hp : IsPerm idxs) : new idxs = .ok idxs := by
  obtain ⟨l, hl⟩ := (new_ok_iff idxs).2 hp
  rw [hl, new_ok_value idxs l hl]

theorem new_error_cases (idxs : List Nat) :
    (idxs = [] → new idxs = .error .empty) ∧
    (idxs ≠ [] → idxs.length ≤ idxs.foldl max 0 →
        new idxs = .error (.invalidElem (idxs.foldl max 0) idxs.length)) ∧
    (idxs ≠ [] → idxs.foldl max 0 < idxs.length → ∀ e, firstRepeat [] idxs = some e →
        new idxs = .error (.doubleElem e)) := by
  refine ⟨?_, ?_, ?_⟩
  · intro h; simp [new, h]
  · intro he hm; simp [new, he, maxOf, hm]
  · intro he hm e hfr
    have hlt := ((foldl_max_lt idxs 0 idxs.length).1 hm).2
    have hm' : ¬ idxs.length ≤ idxs.foldl max 0 := by omega
    simp [new, he, maxOf, hm', checkDup_init idxs hlt, hfr]

theorem mapM_eq_some_map {α β} (f : α → Option β) (g : α → β) (l : List α)
    (h : ∀ x ∈ l, f x = some (g x)) : l.mapM f = some (l.map g) := by
  induction l with
  | nil => simp
  | cons y ys ih =>
    have h1 := h y (by simp)
    have h2 := ih (fun x hx => h x (by simp [hx]))
    simp [List.mapM_cons, h1, h2]

theorem map_eq_range_map {α β} [Inhabited α] (g : α → β) (l : List α) :
    l.map g = (List.range l.length).map (fun i => g l[i]!) := by
  apply List.ext_getElem
  · simp
  · intro i h1 h2
    simp at h1
    simp [h1]

@[simp] theorem permuted_length {α} [Inhabited α] (p : List Nat) (v : List α) :
    (permuted p v).length = p.length := by simp [permuted]

theorem permuted_getElem {α} [Inhabited α] (p : List Nat) (v : List α) (k : Nat) (hk : k < p.length) :
    (permuted p v)[k]'(by simpa using hk) = v[p[k]]! := by
  simp [permuted, hk]

theorem permuted_getElem! {α} [Inhabited α] (p : List Nat) (v : List α) (k : Nat) (hk : k < p.length) :
    (permuted p v)[k]! = v[p[k]!]! := by
  simp [permuted, hk]

theorem into_spec {α} [Inhabited α] (idxs : List Nat) (v : List α)
    (hp : IsPerm idxs) (hv : v.length = idxs.length) :
    applyInto idxs v = some (permuted idxs v) := by
  unfold applyInto permuted
  rw [← map_eq_range_map (fun o => v[o]!) idxs]
  apply mapM_eq_some_map
  intro x hx
  have := hp.2.1 x hx
  simp [hv, this]

theorem inverseLoop_spec (l : List Nat) (i : Nat) (acc : List Nat)
    (hl : ∀ x ∈ l, x < acc.length) (hnd : l.Nodup) :
    (inverseLoop l i acc).length = acc.length ∧
    (∀ t, ∀ h : t < l.length, (inverseLoop l i acc)[l[t]]? = some (i + t)) ∧
    (∀ k, k ∉ l → (inverseLoop l i acc)[k]? = acc[k]?) := by
  induction l generalizing i acc with
  | nil => simp [inverseLoop]
  | cons y ys ih =>
    have hy : y < acc.length := hl y (by simp)
    have hnd' := List.nodup_cons.1 hnd
    obtain ⟨h1, h2, h3⟩ := ih (i + 1) (acc.set y i) (by intro x hx; simp; exact hl x (by simp [hx])) hnd'.2
    simp only [inverseLoop]
    refine ⟨by simpa using h1, ?_, ?_⟩
    · intro t ht
      cases t with
      | zero =>
        simp only [List.getElem_cons_zero, Nat.add_zero]
        rw [h3 y hnd'.1]; simp [hy]
      | succ t =>
        simp only [List.getElem_cons_succ]
        rw [h2 t (by simpa using ht)]; congr 1; omega
    · intro k hk
      simp only [List.mem_cons, not_or] at hk
      rw [h3 k hk.2, List.getElem?_set]; simp [Ne.symm hk.1]

theorem inverseIdx_length (p : List Nat) (hp : IsPerm p) : (inverseIdx p).length = p.length := by
  have := (inverseLoop_spec p 0 (List.replicate p.length 0) (by simpa using hp.2.1) hp.2.2).1
  simpa [inverseIdx] using this

theorem inverseIdx_get (p : List Nat) (hp : IsPerm p) (t : Nat) (ht : t < p.length) :
    (inverseIdx p)[p[t]]? = some t := by
  have := (inverseLoop_spec p 0 (List.replicate p.length 0) (by simpa using hp.2.1) hp.2.2).2.1 t ht
  simpa [inverseIdx] using this

theorem inverseIdx_isPerm (p : List Nat) (hp : IsPerm p) : IsPerm (inverseIdx p) := by
  have hlen := inverseIdx_length p hp
  have hpos : 0 < p.length := List.length_pos_iff.2 hp.1
  refine ⟨?_, ?_, ?_⟩
  · intro h; rw [h] at hlen; simp at hlen; omega
  · intro x hx
    obtain ⟨k, hk, e⟩ := List.getElem_of_mem hx
    rw [hlen] at hk ⊢
    obtain ⟨t, ht, e'⟩ := isPerm_surj hp hk
    have := inverseIdx_get p hp t ht
    subst e'
    rw [List.getElem?_eq_getElem (by omega)] at this
    simp at this; omega
  · rw [List.nodup_iff_pairwise_ne, List.pairwise_iff_getElem]
    intro a b ha hb hab heq
    rw [hlen] at ha hb
    obtain ⟨t, ht, e1⟩ := isPerm_surj hp ha
    obtain ⟨u, hu, e2⟩ := isPerm_surj hp hb
    have h1 := inverseIdx_get p hp t ht
    have h2 := inverseIdx_get p hp u hu
    subst e1 e2
    rw [List.getElem?_eq_getElem (by omega)] at h1 h2
    simp at h1 h2
    have : t = u := by omega
    subst this; omega

/-- left inverse, in `!` form -/
theorem inverseIdx_left (p : List Nat) (hp : IsPerm p) (i : Nat) (hi : i < p.length) :
    (inverseIdx p)[p[i]!]! = i := by
  have := inverseIdx_get p hp i hi
  have hlt : p[i] < (inverseIdx p).length := by
    rw [inverseIdx_length p hp]; exact hp.2.1 _ (List.getElem_mem hi)
  rw [List.getElem?_eq_getElem hlt] at this
  simp at this
  simp [hi, hlt, this]

theorem inverseIdx_lt (p : List Nat) (hp : IsPerm p) (i : Nat) (hi : i < p.length) :
    (inverseIdx p)[i]! < p.length := by
  have h := inverseIdx_isPerm p hp
  have hlen := inverseIdx_length p hp
  have := h.2.1 ((inverseIdx p)[i]'(by omega)) (List.getElem_mem _)
  simp [hlen, hi] at this ⊢; exact this

theorem inverseIdx_right (p : List Nat) (hp : IsPerm p) (i : Nat) (hi : i < p.length) :
    p[(inverseIdx p)[i]!]! = i := by
  obtain ⟨t, ht, e⟩ := isPerm_surj hp hi
  subst e
  have := inverseIdx_left p hp t ht
  simp only [getElem!_pos p t ht] at this
  rw [this]; simp [ht]

theorem inverse_spec (idxs : List Nat) (hp : IsPerm idxs) :
    inverse idxs = .ok (inverseIdx idxs) ∧ IsPerm (inverseIdx idxs) ∧
    (inverseIdx idxs).length = idxs.length ∧
    (∀ i, i < idxs.length → (inverseIdx idxs)[idxs[i]!]! = i) ∧
    (∀ i, i < idxs.length → idxs[(inverseIdx idxs)[i]!]! = i) :=
  ⟨new_of_isPerm (inverseIdx_isPerm idxs hp), inverseIdx_isPerm idxs hp, inverseIdx_length idxs hp,
   inverseIdx_left idxs hp, inverseIdx_right idxs hp⟩

theorem inverse_inverse (idxs : List Nat) (hp : IsPerm idxs) :
    inverseIdx (inverseIdx idxs) = idxs := by
  have hq := inverseIdx_isPerm idxs hp
  have hlen := inverseIdx_length idxs hp
  have hlen2 := inverseIdx_length _ hq
  apply List.ext_getElem (by omega)
  intro t h1 h2
  -- t = q[p[t]]
  have hpt : idxs[t] < idxs.length := hp.2.1 _ (List.getElem_mem h2)
  have e := inverseIdx_left idxs hp t h2
  have := inverseIdx_left (inverseIdx idxs) hq (idxs[t]) (by omega)
  simp only [getElem!_pos idxs t h2] at e
  rw [e] at this
  simpa [h1] using this

theorem applyInverseLoop_spec {α} (l : List Nat) (i : Nat) (v out : List α)
    (hl : ∀ x ∈ l, x < out.length) (hv : i + l.length ≤ v.length) (hnd : l.Nodup) :
    ∃ r, applyInverseLoop l i v out = some r ∧ r.length = out.length ∧
    (∀ t, ∀ h : t < l.length, r[l[t]]? = v[i + t]?) ∧
    (∀ k, k ∉ l → r[k]? = out[k]?) := by
  induction l generalizing i out with
  | nil => simp [applyInverseLoop]
  | cons y ys ih =>
    have hy : y < out.length := hl y (by simp)
    have hnd' := List.nodup_cons.1 hnd
    simp only [List.length_cons] at hv
    have hi : i < v.length := by omega
    obtain ⟨r, h0, h1, h2, h3⟩ := ih (i + 1) (out.set y v[i])
      (by intro x hx; simp; exact hl x (by simp [hx])) (by omega) hnd'.2
    refine ⟨r, ?_, by simpa using h1, ?_, ?_⟩
    · simp [applyInverseLoop, hi, hy, h0]
    · intro t ht
      cases t with
      | zero =>
        simp only [List.getElem_cons_zero, Nat.add_zero]
        rw [h3 y hnd'.1]; simp [hy, hi]
      | succ t =>
        simp only [List.getElem_cons_succ]
        rw [h2 t (by simpa using ht)]; congr 1; omega
    · intro k hk
      simp only [List.mem_cons, not_or] at hk
      rw [h3 k hk.2, List.getElem?_set]; simp [Ne.symm hk.1]

theorem applyInverseInto_spec {α} [Inhabited α] (p : List Nat) (v out : List α)
    (hp : IsPerm p) (hv : v.length = p.length) (ho : out.length = p.length) :
    ∃ r, applyInverseInto p v out = some r ∧ r.length = p.length ∧
      ∀ t, ∀ h : t < p.length, r[p[t]]? = v[t]? := by
  obtain ⟨r, h0, h1, h2, -⟩ := applyInverseLoop_spec p 0 v out (by simpa [ho] using hp.2.1)
    (by omega) hp.2.2
  exact ⟨r, h0, by omega, by simpa using h2⟩

theorem permuted_inverse_left {α} [Inhabited α] (p : List Nat) (v : List α)
    (hp : IsPerm p) (hv : v.length = p.length) :
    permuted (inverseIdx p) (permuted p v) = v := by
  have hlen := inverseIdx_length p hp
  apply List.ext_getElem (by simp [hlen, hv])
  intro k h1 h2
  rw [hv] at h2
  rw [permuted_getElem _ _ k (by omega)]
  have hq := inverseIdx_lt p hp k h2
  have hr := inverseIdx_right p hp k h2
  simp only [getElem!_pos (inverseIdx p) k (by omega)] at hq hr
  rw [permuted_getElem! _ _ _ hq, hr]
  simp [hv, h2]

theorem permuted_inverse_right {α} [Inhabited α] (p : List Nat) (v : List α)
    (hp : IsPerm p) (hv : v.length = p.length) :
    permuted p (permuted (inverseIdx p) v) = v := by
  have := permuted_inverse_left (inverseIdx p) v (inverseIdx_isPerm p hp)
    (by rw [inverseIdx_length p hp, hv])
  rwa [inverse_inverse p hp] at this

theorem apply_inverse_undoes {α} [Inhabited α] (idxs : List Nat) (v out : List α)
    (hp : IsPerm idxs) (hv : v.length = idxs.length) (ho : out.length = idxs.length) :
    applyInverseInto idxs (permuted idxs v) out = some v ∧
    applyInverseInto idxs v out = some (permuted (inverseIdx idxs) v) ∧
    permuted (inverseIdx idxs) (permuted idxs v) = v ∧
    permuted idxs (permuted (inverseIdx idxs) v) = v := by
  have hlen := inverseIdx_length idxs hp
  refine ⟨?_, ?_, permuted_inverse_left idxs v hp hv, permuted_inverse_right idxs v hp hv⟩
  · obtain ⟨r, h0, h1, h2⟩ := applyInverseInto_spec idxs (permuted idxs v) out hp (by simp) ho
    rw [h0]; congr 1
    apply List.ext_getElem? 
    intro k
    by_cases hk : k < idxs.length
    · obtain ⟨t, ht, e⟩ := isPerm_surj hp hk
      subst e
      rw [h2 t ht, List.getElem?_eq_getElem (by simpa using ht), permuted_getElem _ _ t ht]
      simp [hv, hk]
    · simp [h1, hv, Nat.le_of_not_lt hk]
  · obtain ⟨r, h0, h1, h2⟩ := applyInverseInto_spec idxs v out hp hv ho
    rw [h0]; congr 1
    apply List.ext_getElem?
    intro k
    by_cases hk : k < idxs.length
    · obtain ⟨t, ht, e⟩ := isPerm_surj hp hk
      subst e
      have hk' : idxs[t] < (permuted (inverseIdx idxs) v).length := by
        rw [permuted_length, hlen]; exact hk
      rw [h2 t ht, List.getElem?_eq_getElem hk', permuted_getElem _ _ _ (by omega)]
      have := inverseIdx_left idxs hp t ht
      simp only [getElem!_pos idxs t ht, getElem!_pos (inverseIdx idxs) idxs[t] (by omega)] at this
      rw [this]; simp [hv, ht]
    · simp [h1, hlen, Nat.le_of_not_lt hk]

/-! ## matrices over `Int` -/

/-- dot product in the same `zipWith`/`foldl` style as the model's `mulVec`. -/
def dot (r c : List Int) : Int := (List.zipWith (· * ·) r c).foldl (· + ·) 0

/-- transpose of a row-major matrix with `n` columns. -/
def transpose (n : Nat) (a : List (List Int)) : List (List Int) :=
  (List.range n).map fun j => a.map fun row => row.getD j 0

/-- row-major matrix product; the columns of `b` are the rows of its transpose. -/
def matMul (a b : List (List Int)) : List (List Int) :=
  a.map fun row => (transpose (b.headD []).length b).map fun col => dot row col

theorem mulVec_eq (m : List (List Int)) (v : List Int) : mulVec m v = m.map (fun row => dot row v) := rfl

theorem matMul_eq (a b : List (List Int)) :
    matMul a b = a.map fun row => mulVec (transpose (b.headD []).length b) row := by
  simp only [matMul, mulVec_eq]
  apply List.map_congr_left; intro row _
  apply List.map_congr_left; intro col _
  simp only [dot]; rw [List.zipWith_comm]; congr 2
  funext a b; exact Int.mul_comm b a

theorem foldl_add (l : List Int) (a : Int) : l.foldl (· + ·) a = a + l.foldl (· + ·) 0 := by
  induction l generalizing a with
  | nil => simp
  | cons x xs ih => simp only [List.foldl_cons]; rw [ih, ih (0 + x)]; omega

theorem dot_cons (a b : Int) (r c : List Int) : dot (a :: r) (b :: c) = a * b + dot r c := by
  simp only [dot, List.zipWith_cons_cons, List.foldl_cons]; rw [foldl_add]; omega

theorem dot_zero (n : Nat) (v : List Int) : dot (List.replicate n 0) v = 0 := by
  induction v generalizing n with
  | nil => simp [dot]
  | cons b c ih =>
    cases n with
    | zero => simp [dot]
    | succ m => rw [List.replicate_succ, dot_cons, ih]; simp

theorem dot_unit (n pi : Nat) (v : List Int) (h : pi < v.length) (hn : v.length = n) :
    dot ((List.replicate n 0).set pi 1) v = v[pi] := by
  induction v generalizing n pi with
  | nil => simp at h
  | cons b c ih =>
    cases n with
    | zero => simp at hn
    | succ m =>
      rw [List.replicate_succ]
      cases pi with
      | zero => rw [List.set_cons_zero, dot_cons, dot_zero]; simp
      | succ k =>
        rw [List.set_cons_succ, dot_cons, ih m k (by simpa using h) (by simpa using hn)]; simp

theorem matrix_mulVec (idxs : List Nat) (v : List Int)
    (hp : IsPerm idxs) (hv : v.length = idxs.length) :
    mulVec (matrix 0 1 idxs) v = permuted idxs v := by
  rw [mulVec_eq, matrix, List.map_map, permuted, ← map_eq_range_map (fun o => v[o]!) idxs]
  apply List.map_congr_left
  intro x hx
  have hx' : x < v.length := by rw [hv]; exact hp.2.1 x hx
  simp only [Function.comp]
  rw [dot_unit _ x v hx' hv]; simp [hx']

theorem transform_eq_map {α} [Inhabited α] (idxs : List Nat) (a : List (List α))
    (hp : IsPerm idxs) (ha : a.length = idxs.length) (hrow : ∀ r ∈ a, r.length = idxs.length) :
    transform idxs a = some (idxs.map fun r => idxs.map fun c => (a[r]!)[c]!) := by
  unfold transform
  rw [mapM_eq_some_map (fun r => a[r]?) (fun r => a[r]!) idxs
    (by intro x hx; have := hp.2.1 x hx; simp [ha, this])]
  simp only [Option.bind_some]
  rw [mapM_eq_some_map _ (fun row => idxs.map fun c => row[c]!)]
  · simp [Function.comp_def]
  · intro row hrow'
    obtain ⟨r, hr, e⟩ := List.mem_map.1 hrow'
    have hr' : r < a.length := by rw [ha]; exact hp.2.1 r hr
    have hlen : row.length = idxs.length := by
      rw [← e, getElem!_pos a r hr']; exact hrow _ (List.getElem_mem hr')
    apply mapM_eq_some_map
    intro c hc
    have := hp.2.1 c hc
    simp [hlen, this]

theorem transform_spec {α} [Inhabited α] (idxs : List Nat) (a : List (List α))
    (hp : IsPerm idxs) (ha : a.length = idxs.length) (hrow : ∀ r ∈ a, r.length = idxs.length) :
    transform idxs a = some ((List.range idxs.length).map fun i =>
      (List.range idxs.length).map fun j => (a[idxs[i]!]!)[idxs[j]!]!) := by
  rw [transform_eq_map idxs a hp ha hrow, map_eq_range_map]
  congr 1
  apply List.map_congr_left
  intro i _
  rw [map_eq_range_map]

theorem transpose_transpose (n m : Nat) (a : List (List Int)) (ha : a.length = n)
    (hrow : ∀ r ∈ a, r.length = m) : transpose n (transpose m a) = a := by
  apply List.ext_getElem
  · simp [transpose, ha]
  · intro j h1 h2
    simp only [transpose, List.getElem_map, List.getElem_range, List.map_map]
    apply List.ext_getElem
    · simp [hrow _ (List.getElem_mem h2)]
    · intro i h3 h4
      simp at h3
      simp [h2, h4]

theorem matMul_matrix_left (p : List Nat) (a : List (List Int))
    (hp : IsPerm p) (ha : a.length = p.length) (hrow : ∀ r ∈ a, r.length = p.length) :
    matMul (matrix 0 1 p) a = p.map fun r => a[r]! := by
  have hpos : 0 < p.length := List.length_pos_iff.2 hp.1
  have hhead : (a.headD []).length = p.length := by
    cases a with
    | nil => simp at ha; omega
    | cons r rs => simpa using hrow r (by simp)
  rw [matMul, hhead, matrix, List.map_map]
  apply List.map_congr_left
  intro r hr
  have hr' : r < a.length := by rw [ha]; exact hp.2.1 r hr
  simp only [Function.comp, transpose, List.map_map]
  rw [getElem!_pos a r hr']
  apply List.ext_getElem
  · simp [hrow _ (List.getElem_mem hr')]
  · intro j h1 h2
    simp only [List.getElem_map, List.getElem_range, Function.comp]
    rw [dot_unit p.length r (a.map fun row => row.getD j 0) (by simpa using hr') (by simpa using ha)]
    simp [h2]

theorem transform_eq_P_A_Pt (idxs : List Nat) (a : List (List Int))
    (hp : IsPerm idxs) (ha : a.length = idxs.length) (hrow : ∀ r ∈ a, r.length = idxs.length) :
    transform idxs a = some (matMul (matMul (matrix 0 1 idxs) a)
      (transpose idxs.length (matrix 0 1 idxs))) := by
  have hpos : 0 < idxs.length := List.length_pos_iff.2 hp.1
  rw [transform_eq_map idxs a hp ha hrow, matMul_matrix_left idxs a hp ha hrow, matMul_eq]
  have hhead : ((transpose idxs.length (matrix 0 1 idxs)).headD []).length = idxs.length := by
    simp only [transpose]
    cases h : idxs.length with
    | zero => omega
    | succ k => simp [List.range_succ_eq_map, matrix, h]
  rw [hhead, transpose_transpose _ _ _ (by simp [matrix]) (by
    intro r hr; simp only [matrix, List.mem_map] at hr; obtain ⟨x, _, e⟩ := hr; simp [← e])]
  congr 1
  rw [List.map_map]
  apply List.map_congr_left
  intro r hr
  have hr' : r < a.length := by rw [ha]; exact hp.2.1 r hr
  have hlen : (a[r]!).length = idxs.length := by
    rw [getElem!_pos a r hr']; exact hrow _ (List.getElem_mem hr')
  simp only [Function.comp]
  rw [matrix_mulVec idxs _ hp hlen, permuted, ← map_eq_range_map (fun c => (a[r]!)[c]!)]

/-! ## the cycle-following in-place routine -/

/-- index-level facts about a bijection, in the `getElem?` form used below. -/
structure PermFacts (p : List Nat) : Prop where
  lt : ∀ k pk : Nat, p[k]? = some pk → pk < p.length
  inj : ∀ a b x : Nat, p[a]? = some x → p[b]? = some x → a = b

theorem permFacts_of_isPerm {p : List Nat} (hp : IsPerm p) : PermFacts p where
  lt := by
    intro k pk h
    obtain ⟨hk, e⟩ := List.getElem?_eq_some_iff.1 h
    exact e ▸ hp.2.1 _ (List.getElem_mem hk)
  inj := by
    intro a b x ha hb
    obtain ⟨hka, ea⟩ := List.getElem?_eq_some_iff.1 ha
    obtain ⟨hkb, eb⟩ := List.getElem?_eq_some_iff.1 hb
    exact isPerm_inj hp hka hkb (ea.trans eb.symm)

structure InvOut {α} (p : List Nat) (v0 v : List α) (m : List Bool) : Prop where
  lv : v.length = p.length
  lm : m.length = p.length
  a : ∀ k pk : Nat, p[k]? = some pk → m[k]? = some true → v[k]? = v0[pk]?
  b : ∀ k : Nat, m[k]? = some false → v[k]? = v0[k]?
  c : ∀ k pk : Nat, p[k]? = some pk → m[k]? = some true → m[pk]? = some true
  d : ∀ k : Nat, m[k]? = some true → ∃ k' : Nat, m[k']? = some true ∧ p[k']? = some k

structure InvIn {α} (p : List Nat) (v0 : List α) (i j : Nat) (v : List α) (m : List Bool) : Prop where
  lv : v.length = p.length
  lm : m.length = p.length
  hi : i < p.length
  hj : j < p.length
  mj : m[j]? = some false
  a : ∀ k pk : Nat, p[k]? = some pk → m[k]? = some true → v[k]? = v0[pk]?
  b : ∀ k : Nat, m[k]? = some false → k ≠ j → v[k]? = v0[k]?
  vj : v[j]? = v0[i]?
  c : ∀ k pk : Nat, p[k]? = some pk → m[k]? = some true → m[pk]? = some true ∨ pk = j
  d : ∀ k : Nat, m[k]? = some true → k ≠ i → ∃ k' : Nat, m[k']? = some true ∧ p[k']? = some k
  f : j = i ∨ ∃ k' : Nat, m[k']? = some true ∧ p[k']? = some j
  g : j ≠ i → m[i]? = some true

theorem invIn_of_invOut {α} {p : List Nat} {v0 v : List α} {m : List Bool} {i : Nat}
    (h : InvOut p v0 v m) (hi : i < p.length) (hm : m[i]? = some false) : InvIn p v0 i i v m where
  lv := h.lv
  lm := h.lm
  hi := hi
  hj := hi
  mj := hm
  a := h.a
  b := fun k hk _ => h.b k hk
  vj := h.b i hm
  c := fun k pk h1 h2 => Or.inl (h.c k pk h1 h2)
  d := fun k hk _ => h.d k hk
  f := Or.inl rfl
  g := fun h => absurd rfl h

theorem set_true_mono (m : List Bool) (j k : Nat) (h : m[k]? = some true) :
    (m.set j true)[k]? = some true := by
  rw [List.getElem?_set]
  split
  · have : k < m.length := (List.getElem?_eq_some_iff.1 h).1
    subst_vars; simp [this]
  · exact h

theorem set_true_self (m : List Bool) (j : Nat) (h : j < m.length) :
    (m.set j true)[j]? = some true := by simp [h]

theorem set_true_ne (m : List Bool) (j k : Nat) (b : Bool) (h : (m.set j true)[k]? = some b) (hne : k ≠ j) :
    m[k]? = some b := by
  rwa [List.getElem?_set_ne (Ne.symm hne)] at h

theorem set_true_false (m : List Bool) (j k : Nat) (h : (m.set j true)[k]? = some false) :
    k ≠ j ∧ m[k]? = some false := by
  have hne : k ≠ j := by
    intro e; subst e
    rw [List.getElem?_set] at h; simp at h
  exact ⟨hne, set_true_ne m j k false h hne⟩


theorem step_done {α} {p : List Nat} {v0 v : List α} {m : List Bool} {i j : Nat}
    (h : InvIn p v0 i j v m) (hpj : p[j]? = some i) : InvOut p v0 v (m.set j true) := by
  obtain ⟨lv, lm, hi, hj, mj, a, b, vj, c, d, f, g⟩ := h
  have hjm : j < m.length := by omega
  refine ⟨lv, by simpa using lm, ?_, ?_, ?_, ?_⟩
  · intro k pk h1 h2
    by_cases hk : k = j
    · subst hk
      have : pk = i := by rw [hpj] at h1; exact (Option.some.inj h1).symm
      subst this; exact vj
    · exact a k pk h1 (set_true_ne m j k true h2 hk)
  · intro k h1
    obtain ⟨hne, h1'⟩ := set_true_false m j k h1
    exact b k h1' hne
  · intro k pk h1 h2
    by_cases hk : k = j
    · subst hk
      have : pk = i := by rw [hpj] at h1; exact (Option.some.inj h1).symm
      subst this
      by_cases hji : k = pk
      · subst hji; exact set_true_self m k hjm
      · exact set_true_mono m k pk (g hji)
    · rcases c k pk h1 (set_true_ne m j k true h2 hk) with h | h
      · exact set_true_mono m j pk h
      · subst h; exact set_true_self m pk hjm
  · intro k h1
    by_cases hki : k = i
    · subst hki; exact ⟨j, set_true_self m j hjm, hpj⟩
    · by_cases hk : k = j
      · subst hk
        rcases f with f | ⟨k', f1, f2⟩
        · exact absurd f hki
        · exact ⟨k', set_true_mono m k k' f1, f2⟩
      · obtain ⟨k', d1, d2⟩ := d k (set_true_ne m j k true h1 hk) hki
        exact ⟨k', set_true_mono m j k' d1, d2⟩

theorem step_cont {α} {p : List Nat} {v0 v : List α} {m : List Bool} {i j pj : Nat} {x y : α}
    (hp : PermFacts p) (h : InvIn p v0 i j v m) (hpj : p[j]? = some pj) (hne : pj ≠ i)
    (hx : v[j]? = some x) (hy : v[pj]? = some y) :
    InvIn p v0 i pj ((v.set j y).set pj x) (m.set j true) := by
  obtain ⟨lv, lm, hi, hj, mj, a, b, vj, c, d, f, g⟩ := h
  obtain ⟨plt, pinj⟩ := hp
  have hjm : j < m.length := by omega
  have hpjlt : pj < p.length := plt j pj hpj
  have hjne : pj ≠ j := by
    intro e; subst e
    rcases f with f | ⟨k', f1, f2⟩
    · exact hne f
    · have := pinj k' pj pj f2 hpj; subst this; simp [mj] at f1
  have hmpj : m[pj]? = some false := by
    have : pj < m.length := by omega
    cases hb : m[pj] with
    | false => simp [List.getElem?_eq_getElem this, hb]
    | true =>
      have hb' : m[pj]? = some true := by simp [List.getElem?_eq_getElem this, hb]
      obtain ⟨k', d1, d2⟩ := d pj hb' hne
      have := pinj k' j pj d2 hpj; subst this; simp [mj] at d1
  have hvpj : ((v.set j y).set pj x)[pj]? = some x := by
    simp [lv, hpjlt]
  have hvj : ((v.set j y).set pj x)[j]? = some y := by
    rw [List.getElem?_set_ne hjne]; simp [lv, hj]
  have hvk : ∀ k, k ≠ j → k ≠ pj → ((v.set j y).set pj x)[k]? = v[k]? := by
    intro k h1 h2
    rw [List.getElem?_set_ne (Ne.symm h2), List.getElem?_set_ne (Ne.symm h1)]
  refine ⟨by simpa using lv, by simpa using lm, hi, hpjlt, ?_, ?_, ?_, ?_, ?_, ?_, ?_, ?_⟩
  · rw [List.getElem?_set_ne (Ne.symm hjne)]; exact hmpj
  · intro k pk h1 h2
    by_cases hk : k = j
    · subst hk
      have : pk = pj := by rw [hpj] at h1; exact (Option.some.inj h1).symm
      subst this
      rw [hvj, ← hy]; exact b pk hmpj hjne
    · have h2' := set_true_ne m j k true h2 hk
      have hkpj : k ≠ pj := by intro e; subst e; rw [hmpj] at h2'; simp at h2'
      rw [hvk k hk hkpj]; exact a k pk h1 h2'
  · intro k h1 h2
    obtain ⟨hkj, h1'⟩ := set_true_false m j k h1
    rw [hvk k hkj h2]; exact b k h1' hkj
  · rw [hvpj, ← hx]; exact vj
  · intro k pk h1 h2
    by_cases hk : k = j
    · subst hk
      have : pk = pj := by rw [hpj] at h1; exact (Option.some.inj h1).symm
      exact Or.inr this
    · rcases c k pk h1 (set_true_ne m j k true h2 hk) with h | h
      · exact Or.inl (set_true_mono m j pk h)
      · subst h; exact Or.inl (set_true_self m pk hjm)
  · intro k h1 hki
    by_cases hk : k = j
    · subst hk
      rcases f with f | ⟨k', f1, f2⟩
      · exact absurd f hki
      · exact ⟨k', set_true_mono m k k' f1, f2⟩
    · obtain ⟨k', d1, d2⟩ := d k (set_true_ne m j k true h1 hk) hki
      exact ⟨k', set_true_mono m j k' d1, d2⟩
  · exact Or.inr ⟨j, set_true_self m j hjm, hpj⟩
  · intro _
    by_cases hji : j = i
    · subst hji; exact set_true_self m j hjm
    · exact set_true_mono m j i (g hji)

theorem count_false_set (m : List Bool) (j : Nat) (h : m[j]? = some false) :
    (m.set j true).count false + 1 = m.count false := by
  obtain ⟨hj, e⟩ := List.getElem?_eq_some_iff.1 h
  rw [List.count_set hj, e]
  have : 0 < m.count false := List.count_pos_iff.2 (e ▸ List.getElem_mem hj)
  simp; omega

theorem swap_eq {α} (v : List α) (j pj : Nat) (x y : α) (hx : v[j]? = some x) (hy : v[pj]? = some y) :
    swap v j pj = some ((v.set j y).set pj x) := by
  simp [swap, hx, hy]

theorem cycleLoop_spec {α} {p : List Nat} {v0 : List α} (hp : PermFacts p) (i : Nat) :
    ∀ (fuel j : Nat) (v : List α) (m : List Bool), InvIn p v0 i j v m → m.count false < fuel →
      ∃ v' m', cycleLoop p i fuel j v m = some (v', m') ∧ InvOut p v0 v' m' ∧
        (∀ k : Nat, m[k]? = some true → m'[k]? = some true) ∧ m'[i]? = some true := by
  intro fuel
  induction fuel with
  | zero => intro j v m _ h; omega
  | succ fuel ih =>
    intro j v m hinv hfuel
    have hjp : j < p.length := hinv.hj
    have hjm : j < m.length := by rw [hinv.lm]; exact hjp
    have hpj : p[j]? = some p[j] := List.getElem?_eq_getElem hjp
    simp only [cycleLoop, hpj]
    by_cases hpi : p[j] = i
    · simp only [hpi, if_true]
      refine ⟨v, m.set j true, rfl, step_done hinv (hpi ▸ hpj), fun k hk => set_true_mono m j k hk, ?_⟩
      by_cases hji : j = i
      · subst hji; exact set_true_self m j hjm
      · exact set_true_mono m j i (hinv.g hji)
    · simp only [hpi, if_false]
      have hpjlt := hp.lt j _ hpj
      have hjv : j < v.length := by rw [hinv.lv]; exact hjp
      have hpjv : p[j] < v.length := by rw [hinv.lv]; exact hpjlt
      have hx : v[j]? = some v[j] := List.getElem?_eq_getElem hjv
      have hy : v[p[j]]? = some v[p[j]] := List.getElem?_eq_getElem hpjv
      rw [swap_eq v j p[j] _ _ hx hy]
      have hinv' := step_cont hp hinv hpj hpi hx hy
      have hc := count_false_set m j hinv.mj
      obtain ⟨v', m', h1, h2, h3, h4⟩ := ih p[j] _ _ hinv' (by omega)
      exact ⟨v', m', h1, h2, fun k hk => h3 k (set_true_mono m j k hk), h4⟩

theorem outerLoop_spec {α} {p : List Nat} {v0 : List α} (hp : PermFacts p) :
    ∀ (is : List Nat) (v : List α) (m : List Bool), InvOut p v0 v m → (∀ i ∈ is, i < p.length) →
      ∃ v' m', outerLoop p is v m = some (v', m') ∧ InvOut p v0 v' m' ∧
        (∀ k : Nat, m[k]? = some true → m'[k]? = some true) ∧ ∀ i ∈ is, m'[i]? = some true := by
  intro is
  induction is with
  | nil => intro v m h _; exact ⟨v, m, rfl, h, fun _ h => h, by simp⟩
  | cons i rest ih =>
    intro v m hinv his
    have hi : i < p.length := his i (by simp)
    have him : i < m.length := by rw [hinv.lm]; exact hi
    have hrest : ∀ i ∈ rest, i < p.length := fun x hx => his x (by simp [hx])
    simp only [outerLoop]
    cases hb : m[i] with
    | true =>
      have hmi : m[i]? = some true := by rw [List.getElem?_eq_getElem him, hb]
      have : m.getD i true = true := by simp [List.getD_eq_getElem?_getD, hmi]
      rw [if_pos this]
      obtain ⟨v', m', h1, h2, h3, h4⟩ := ih v m hinv hrest
      refine ⟨v', m', h1, h2, h3, ?_⟩
      intro x hx
      rcases List.mem_cons.1 hx with e | e
      · subst e; exact h3 x hmi
      · exact h4 x e
    | false =>
      have hmi : m[i]? = some false := by rw [List.getElem?_eq_getElem him, hb]
      have : ¬ m.getD i true = true := by simp [List.getD_eq_getElem?_getD, hmi]
      rw [if_neg this]
      have hlt : m.count false < p.length + 1 := by
        have := List.count_le_length (a := false) (l := m); rw [hinv.lm] at this; omega
      obtain ⟨v1, m1, c1, c2, c3, c4⟩ :=
        cycleLoop_spec hp i (p.length + 1) i v m (invIn_of_invOut hinv hi hmi) hlt
      rw [c1]
      obtain ⟨v', m', h1, h2, h3, h4⟩ := ih v1 m1 c2 hrest
      refine ⟨v', m', h1, h2, fun k hk => h3 k (c3 k hk), ?_⟩
      intro x hx
      rcases List.mem_cons.1 hx with e | e
      · subst e; exact h3 x c4
      · exact h4 x e

theorem invOut_init {α} (p : List Nat) (v0 : List α) (hv : v0.length = p.length) :
    InvOut p v0 v0 (List.replicate p.length false) where
  lv := hv
  lm := by simp
  a := by intro k pk _ h; simp [List.getElem?_replicate] at h
  b := fun _ _ => rfl
  c := by intro k pk _ h; simp [List.getElem?_replicate] at h
  d := by intro k h; simp [List.getElem?_replicate] at h

theorem inPlace_eq_into {α} [Inhabited α] (idxs : List Nat) (v : List α)
    (hp : IsPerm idxs) (hv : v.length = idxs.length) :
    inPlace idxs v = some (permuted idxs v) := by
  obtain ⟨v', m', h1, h2, -, h4⟩ := outerLoop_spec (permFacts_of_isPerm hp) (List.range idxs.length)
    v _ (invOut_init idxs v hv) (fun i hi => List.mem_range.1 hi)
  rw [inPlace, h1]
  simp only [Option.map_some]
  congr 1
  apply List.ext_getElem (by simp [h2.lv])
  intro k hk1 hk2
  have hk : k < idxs.length := by rw [← h2.lv]; exact hk1
  have hpk : idxs[k] < v.length := by rw [hv]; exact hp.2.1 _ (List.getElem_mem hk)
  have := h2.a k idxs[k] (List.getElem?_eq_getElem hk) (h4 k (List.mem_range.2 hk))
  rw [List.getElem?_eq_getElem hk1, List.getElem?_eq_getElem hpk] at this
  rw [permuted_getElem _ _ k hk, getElem!_pos v _ hpk]
  exact Option.some.inj this

end Q1t.Proofs.Perm

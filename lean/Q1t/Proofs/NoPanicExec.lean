import Q1t.Proofs.NoPanic
import Q1t.Proofs.Builders
/-!
C18, execution (continued): `Circuit::do_execute_with` on the vector representation.

`OpGood nq nc op` = what the builders guarantee about an accepted operation (`opInRange`: every index in
range) together with freedom from the execution-relevant defects of `WellFormed` (`opDefects`).
`execOps_vec_safe`: from a state satisfying the shape invariant, with a register of one word per shot and
at least one shot, every run of the operations ends in `ok` (again satisfying the invariant) — no error,
and no panic other than the numeric `WeightedIndex::new(..).unwrap()`.
-/
set_option linter.unusedSectionVars false
set_option linter.unusedVariables false
namespace Q1t.Sim
open Q1t Q1t.Builders Q1t.WellFormed

variable {P : Type}

/-- what the builders guarantee about the operation they append -/
def opInRange (nq nc : Nat) : COp P → Prop
  | .gate _ bits => ∀ b ∈ bits, b < nq
  | .cond control _ _ bits => (∀ b ∈ control, b < nc) ∧ ∀ b ∈ bits, b < nq
  | .measure q c _ | .peek q c _ => q < nq ∧ c < nc
  | .measureAll cbits _ | .peekAll cbits _ => ∀ b ∈ cbits, b < nc
  | .reset q => q < nq
  | .resetAll => True
  | .barrier bits => ∀ b ∈ bits, b < nq

/-- an accepted call appends an operation whose indices are in range -/
theorem op_inRange_of_call (c : Circ P) (call : Call P) (h : call.inRange c) : opInRange c.nq c.nc call.op := by
  unfold Call.inRange at h
  cases call <;> simp_all [Call.checks, Call.op, opInRange, Reg.bound]

def OpGood (nq nc : Nat) (op : COp P) : Prop :=
  opInRange nq nc op ∧ ∀ d ∈ opDefects nq op, d.exec = false

theorem gateDefects_exec {g : GateTerm P} {bits : List Nat} (h : ∀ d ∈ gateDefects g bits, d.exec = false) :
    gateOK g = true ∧ Gate.nrBits g = bits.length ∧ hasDup bits = false := by
  unfold gateDefects at h
  refine ⟨?_, ?_, ?_⟩
  · apply Classical.byContradiction; intro hg
    have := h .badComposite (by simp [hg])
    simp [Defect.exec] at this
  · apply Classical.byContradiction; intro hg
    have := h .arity (by simp [hg])
    simp [Defect.exec] at this
  · apply Classical.byContradiction; intro hg
    have := h .dupQubits (by simp [hg])
    simp [Defect.exec] at this

theorem cbitsDefects_exec {cbits : List Nat} (h : ∀ d ∈ cbitsDefects cbits, d.exec = false) : ∀ b ∈ cbits, b < 64 := by
  intro b hb
  apply Classical.byContradiction; intro hlt
  have hany : cbits.any (64 ≤ ·) = true := List.any_eq_true.mpr ⟨b, hb, by simp; omega⟩
  have := h .cbitGe64 (by simp [cbitsDefects, hany])
  simp [Defect.exec] at this

section vec
variable {α : Type} [Zero α] [One α] [Add α] [Mul α] [Neg α] [Sub α] [Amp α P] [SimAmp α]
variable {n N nc : Nat}

local notation "SafeV" => Safe (W := α) noErr numericOnly
/-- postcondition of an executed operation: shape invariant, one register word per shot -/
abbrev QVp (n N : Nat) : VecState α × List Nat → Prop := fun x => VInv n N x.1 ∧ x.2.length = N
local notation "QV" => QVp (α := α) n N

theorem prog_bind_eq {W β γ : Type} (p : Prog W β) (f : β → Prog W γ) : (p >>= f) = p.bind f := rfl
theorem prog_pure_eq {W β : Type} (b : β) : (Pure.pure b : Prog W β) = Prog.pure b := rfl

theorem withBasis1_safe (ht : RouteTotal α (P := P) n) {s : VecState α} (hs : VInv n N s) {q : Nat} (hq : q < n)
    (b : Basis) (body : VecState α → Prog α (VecState α × List Nat))
    (hbody : ∀ st, VInv n N st → SafeV QV (body st)) :
    SafeV QV (withBasis1 (vecBackend (α := α) (P := P)) s q b body) := by
  have hH : ∀ st, VInv n N st → SafeV (VInv n N) (VecState.applyGate st (.H : GateTerm P) [q]) := fun st h =>
    applyGate_safe ht h (validPlace_single (by simp [gateOK]) (by simp [Gate.nrBits]) hq)
  have hS : ∀ st, VInv n N st → SafeV (VInv n N) (VecState.applyGate st (.S : GateTerm P) [q]) := fun st h =>
    applyGate_safe ht h (validPlace_single (by simp [gateOK]) (by simp [Gate.nrBits]) hq)
  have hSdg : ∀ st, VInv n N st → SafeV (VInv n N) (VecState.applyGate st (.Sdg : GateTerm P) [q]) := fun st h =>
    applyGate_safe ht h (validPlace_single (by simp [gateOK]) (by simp [Gate.nrBits]) hq)
  cases b with
  | Z => exact hbody s hs
  | X =>
    simp only [withBasis1, prog_bind_eq, prog_pure_eq, vecBackend]
    refine (hH s hs).bind fun s1 h1 => (hbody s1 h1).bind ?_
    rintro ⟨s2, r⟩ ⟨h2, hr⟩
    exact (hH s2 h2).bind fun s3 h3 => .pure ⟨h3, hr⟩
  | Y =>
    simp only [withBasis1, prog_bind_eq, prog_pure_eq, vecBackend]
    refine (hSdg s hs).bind fun sa ha => (hH sa ha).bind fun s1 h1 => (hbody s1 h1).bind ?_
    rintro ⟨s2, r⟩ ⟨h2, hr⟩
    exact (hH s2 h2).bind fun s3 h3 => (hS s3 h3).bind fun s4 h4 => .pure ⟨h4, hr⟩

theorem withBasisAll_safe (ht : RouteTotal α (P := P) n) {s : VecState α} (hs : VInv n N s)
    (b : Basis) (body : VecState α → Prog α (VecState α × List Nat))
    (hbody : ∀ st, VInv n N st → SafeV QV (body st)) :
    SafeV QV (withBasisAll (vecBackend (α := α) (P := P)) s b body) := by
  have hH : ∀ st, VInv n N st → SafeV (VInv n N) (VecState.applyUnaryAll st (.H : GateTerm P)) := fun st h =>
    applyUnaryAll_safe ht h (by simp [gateOK]) (by simp [Gate.nrBits])
  have hS : ∀ st, VInv n N st → SafeV (VInv n N) (VecState.applyUnaryAll st (.S : GateTerm P)) := fun st h =>
    applyUnaryAll_safe ht h (by simp [gateOK]) (by simp [Gate.nrBits])
  have hSdg : ∀ st, VInv n N st → SafeV (VInv n N) (VecState.applyUnaryAll st (.Sdg : GateTerm P)) := fun st h =>
    applyUnaryAll_safe ht h (by simp [gateOK]) (by simp [Gate.nrBits])
  cases b with
  | Z => exact hbody s hs
  | X =>
    simp only [withBasisAll, prog_bind_eq, prog_pure_eq, vecBackend]
    refine (hH s hs).bind fun s1 h1 => (hbody s1 h1).bind ?_
    rintro ⟨s2, r⟩ ⟨h2, hr⟩
    exact (hH s2 h2).bind fun s3 h3 => .pure ⟨h3, hr⟩
  | Y =>
    simp only [withBasisAll, prog_bind_eq, prog_pure_eq, vecBackend]
    refine (hSdg s hs).bind fun sa ha => (hH sa ha).bind fun s1 h1 => (hbody s1 h1).bind ?_
    rintro ⟨s2, r⟩ ⟨h2, hr⟩
    exact (hH s2 h2).bind fun s3 h3 => (hS s3 h3).bind fun s4 h4 => .pure ⟨h4, hr⟩

/-- the control-word gather never overflows when every control bit is below 64 and there are at most 64 -/
theorem controlWords_some (control : List Nat) (hc : ∀ b ∈ control, b < 64) (hl : control.length ≤ 64) (c : List Nat) :
    ∃ ws, c.mapM (controlWord control) = some ws ∧ ws.length = c.length := by
  apply mapM_some_of_forall
  intro w _
  have hall : control.all shiftOk = true := List.all_eq_true.mpr fun b hb => by simp [shiftOk, hc b hb]
  unfold controlWord
  rw [if_pos ⟨hall, hl⟩]
  exact ⟨_, rfl⟩

theorem execOp_vec_safe (ht : RouteTotal α (P := P) n) (hN : 0 < N) {s : VecState α} (hs : VInv n N s)
    {c : List Nat} (hc : c.length = N) {op : COp P} (hop : OpGood n nc op) :
    SafeV QV (execOp (vecBackend (α := α) (P := P)) s c op) := by
  obtain ⟨hin, hdef⟩ := hop
  cases op with
  | gate g bits =>
    obtain ⟨h1, h2, h3⟩ := gateDefects_exec (by simpa [opDefects] using hdef)
    simp only [execOp, vecBackend]
    exact (applyGate_safe ht hs ⟨h1, h2, h3, hin⟩).bind fun s' hs' => .pure ⟨hs', hc⟩
  | cond control target g bits =>
    simp only [opDefects, List.mem_append] at hdef
    obtain ⟨h1, h2, h3⟩ := gateDefects_exec (fun d hd => hdef d (Or.inl (Or.inr hd)))
    have hcb := cbitsDefects_exec (fun d hd => hdef d (Or.inl (Or.inl (Or.inl hd))))
    have hlen : control.length ≤ 64 := by
      apply Classical.byContradiction; intro hgt
      have := hdef .controlsGt64 (Or.inl (Or.inl (Or.inr (by simp; omega))))
      simp [Defect.exec] at this
    obtain ⟨ws, hws, hwl⟩ := controlWords_some control hcb hlen c
    simp only [execOp, vecBackend, hws]
    exact (applyConditional_safe ht hs (by simp [hwl, hc]) ⟨h1, h2, h3, hin.2⟩).bind fun s' hs' => .pure ⟨hs', hc⟩
  | reset q =>
    simp only [execOp, vecBackend]
    exact (reset_safe ht hs hin).bind fun s' hs' => .pure ⟨hs', hc⟩
  | resetAll =>
    simp only [execOp, vecBackend]
    exact .pure ⟨resetAll_vinv hs hN, hc⟩
  | barrier bits =>
    simp only [execOp]
    exact .pure ⟨hs, hc⟩
  | measure q cb b =>
    have hcb := cbitsDefects_exec (cbits := [cb]) (by simpa [opDefects] using hdef) cb (by simp)
    simp only [execOp]
    exact withBasis1_safe ht hs hin.1 b _ fun st hst => measureInto_safe hst hin.1 hcb hc
  | peek q cb b =>
    have hcb := cbitsDefects_exec (cbits := [cb]) (by simpa [opDefects] using hdef) cb (by simp)
    simp only [execOp]
    exact withBasis1_safe ht hs hin.1 b _ fun st hst =>
      (peekInto_safe hst hin.1 hcb hc).bind fun r hr => .pure ⟨hst, hr⟩
  | measureAll cbits b =>
    simp only [opDefects, List.mem_append] at hdef
    have hcb := cbitsDefects_exec (fun d hd => hdef d (Or.inr hd))
    have hlen : cbits.length = n := by
      apply Classical.byContradiction; intro hne
      have := hdef .measureAllLen (Or.inl (by simp [hne]))
      simp [Defect.exec] at this
    simp only [execOp]
    exact withBasisAll_safe ht hs b _ fun st hst => measureAllHelper_safe hst hlen hcb hc true
  | peekAll cbits b =>
    simp only [opDefects, List.mem_append] at hdef
    have hcb := cbitsDefects_exec (fun d hd => hdef d (Or.inr hd))
    have hlen : cbits.length = n := by
      apply Classical.byContradiction; intro hne
      have := hdef .measureAllLen (Or.inl (by simp [hne]))
      simp [Defect.exec] at this
    simp only [execOp]
    exact withBasisAll_safe ht hs b _ fun st hst => measureAllHelper_safe hst hlen hcb hc false

/-- **`do_execute_with` on the vector representation** -/
theorem execOps_vec_safe (ht : RouteTotal α (P := P) n) (hN : 0 < N) :
    ∀ (ops : List (COp P)) (s : VecState α) (c : List Nat), VInv n N s → c.length = N →
      (∀ op ∈ ops, OpGood n nc op) → SafeV QV (execOps (vecBackend (α := α) (P := P)) s c ops) := by
  intro ops
  induction ops with
  | nil => intro s c hs hc _; exact .pure ⟨hs, hc⟩
  | cons op rest ih =>
    intro s c hs hc hops
    simp only [execOps]
    refine (execOp_vec_safe ht hN hs hc (hops op List.mem_cons_self)).bind ?_
    rintro ⟨s', c'⟩ ⟨hs', hc'⟩
    exact ih s' c' hs' hc' fun o ho => hops o (List.mem_cons_of_mem _ ho)

end vec
end Q1t.Sim

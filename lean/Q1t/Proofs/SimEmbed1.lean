import Mathlib.Algebra.BigOperators.Group.Finset.Basic
import Mathlib.Tactic.Ring
import Q1t.Proofs.SimAlg
/-!
C02, reference-semantics algebra of ONE-qubit operators (facts about `Spec.embed` only, all `n`):

* `mulVec_embed_single` — the two-term formula: `embed n [q] M` applied to `v` has entry `r` equal to
  `M[r_q][r_q]·v[r] + M[r_q][¬r_q]·v[r with qubit q flipped]`;
* `app1_comm` — one-qubit operators on different qubits commute;
* `app1_project` — a one-qubit operator commutes with the projector of another qubit.
-/
set_option linter.unusedSectionVars false
namespace Q1t.Sim
open Q1t Q1t.Spec

/-- flip qubit `q` of a basis index -/
def flipBit (n q r : Nat) : Nat := r ^^^ 2 ^ (n - 1 - q)

theorem qbit_testBit (n q x : Nat) : qbit n q x = (x.testBit (n - 1 - q)).toNat := by
  rw [Nat.toNat_testBit, qbit, Nat.shiftRight_eq_div_pow]

theorem flipBit_lt {n q r : Nat} (hq : q < n) (hr : r < 2 ^ n) : flipBit n q r < 2 ^ n :=
  Nat.xor_lt_two_pow hr (Nat.pow_lt_pow_right (by decide) (by omega))

theorem testBit_flipBit (n q r j : Nat) : (flipBit n q r).testBit j = (r.testBit j ^^ decide (n - 1 - q = j)) := by
  rw [flipBit, Nat.testBit_xor, Nat.testBit_two_pow]

theorem qbit_flipBit_self (n q r : Nat) : qbit n q (flipBit n q r) = 1 - qbit n q r := by
  rw [qbit_testBit, qbit_testBit, testBit_flipBit]
  cases r.testBit (n - 1 - q) <;> simp

theorem qbit_flipBit_other {n q q' r : Nat} (hq : q < n) (hq' : q' < n) (h : q' ≠ q) :
    qbit n q' (flipBit n q r) = qbit n q' r := by
  rw [qbit_testBit, qbit_testBit, testBit_flipBit]
  have : ¬ (n - 1 - q = n - 1 - q') := by omega
  simp [this]

theorem flipBit_ne (n q r : Nat) : r ≠ flipBit n q r := by
  intro h
  have := congrArg (fun x => x.testBit (n - 1 - q)) h
  simp only [testBit_flipBit] at this
  cases hb : r.testBit (n - 1 - q) <;> simp [hb] at this

theorem flipBit_comm (n q q' r : Nat) : flipBit n q (flipBit n q' r) = flipBit n q' (flipBit n q r) := by
  simp only [flipBit, Nat.xor_assoc, Nat.xor_comm (2 ^ (n - 1 - q'))]

theorem flipBit_flipBit (n q r : Nat) : flipBit n q (flipBit n q r) = r := by
  simp [flipBit, Nat.xor_assoc]

theorem agreeOff_single (n q r k : Nat) :
    agreeOff n [q] r k = true ↔ ∀ q', q' < n → q' ≠ q → qbit n q' r = qbit n q' k := by
  simp only [agreeOff, List.all_eq_true, List.mem_range, Bool.or_eq_true, List.contains_cons, List.contains_nil,
    Bool.or_false, beq_iff_eq]
  constructor
  · intro h q' hq' hne
    rcases h q' hq' with h1 | h1
    · exact absurd h1 hne
    · exact h1
  · intro h q' hq'
    by_cases hne : q' = q
    · exact Or.inl hne
    · exact Or.inr (h q' hq' hne)

/-- the indices agreeing with `r` off qubit `q` are `r` and `r` with qubit `q` flipped -/
theorem agree_cases {n q r k : Nat} (hq : q < n) (hr : r < 2 ^ n) (hk : k < 2 ^ n)
    (h : agreeOff n [q] r k = true) : k = r ∨ k = flipBit n q r := by
  rw [agreeOff_single] at h
  have hbits : ∀ j, j ≠ n - 1 - q → k.testBit j = r.testBit j := by
    intro j hj
    by_cases hjn : j < n
    · have := h (n - 1 - j) (by omega) (by omega)
      rw [qbit_testBit, qbit_testBit] at this
      have e : n - 1 - (n - 1 - j) = j := by omega
      rw [e] at this
      cases h1 : r.testBit j <;> cases h2 : k.testBit j <;> simp [h1, h2] at this <;> rfl
    · have hjn' : n ≤ j := Nat.le_of_not_lt hjn
      rw [Nat.testBit_lt_two_pow (Nat.lt_of_lt_of_le hr (Nat.pow_le_pow_right (by decide) hjn')),
        Nat.testBit_lt_two_pow (Nat.lt_of_lt_of_le hk (Nat.pow_le_pow_right (by decide) hjn'))]
  by_cases hp : k.testBit (n - 1 - q) = r.testBit (n - 1 - q)
  · left
    apply Nat.eq_of_testBit_eq
    intro j
    by_cases hj : j = n - 1 - q
    · rw [hj]; exact hp
    · exact hbits j hj
  · right
    apply Nat.eq_of_testBit_eq
    intro j
    rw [testBit_flipBit]
    by_cases hj : j = n - 1 - q
    · subst hj
      cases h1 : r.testBit (n - 1 - q) <;> cases h2 : k.testBit (n - 1 - q) <;> simp [h1, h2] at hp ⊢
    · have : ¬ (n - 1 - q = j) := fun e => hj e.symm
      simp [this, hbits j hj]

theorem agree_self (n q r : Nat) : agreeOff n [q] r r = true := by
  rw [agreeOff_single]; intros; rfl

theorem agree_flip {n q : Nat} (hq : q < n) (r : Nat) : agreeOff n [q] r (flipBit n q r) = true := by
  rw [agreeOff_single]
  intro q' hq' hne
  exact (qbit_flipBit_other hq hq' hne).symm

section ring
variable {α : Type} [CommRing α]

theorem foldl_zipWith_eq' (r c : List α) (a : α) :
    (List.zipWith (· * ·) r c).foldl (· + ·) a =
      a + ∑ k ∈ Finset.range r.length, r.getD k 0 * c.getD k 0 := by
  induction r generalizing c a with
  | nil => simp
  | cons x xs ih =>
    cases c with
    | nil => simp
    | cons y ys =>
      rw [List.zipWith_cons_cons, List.foldl_cons, ih, List.length_cons, Finset.sum_range_succ']
      simp only [List.getD_cons_succ, List.getD_cons_zero]
      ring

theorem dot_eq_sum' (r c : List α) :
    LMat.dot r c = ∑ k ∈ Finset.range r.length, r.getD k 0 * c.getD k 0 := by
  unfold LMat.dot
  rw [foldl_zipWith_eq', zero_add]

/-- the two-term formula: a one-qubit matrix embedded on qubit `q` mixes the amplitudes of `r` and of `r` with
qubit `q` flipped -/
def app1 (M : LMat α) (n q : Nat) (v : List α) : List α :=
  (List.range (2 ^ n)).map fun r =>
    LMat.get M (qbit n q r) (qbit n q r) * v.getD r 0 +
      LMat.get M (qbit n q r) (1 - qbit n q r) * v.getD (flipBit n q r) 0

theorem mulVec_embed_single (M : LMat α) {n q : Nat} (hq : q < n) (v : List α) :
    LMat.mulVec (embed n [q] M) v = app1 M n q v := by
  simp only [LMat.mulVec, embed, app1, List.map_map]
  apply List.map_congr_left
  intro r hr
  have hr' : r < 2 ^ n := List.mem_range.mp hr
  simp only [Function.comp]
  rw [dot_eq_sum', List.length_map, List.length_range]
  have hsub : ∀ x, subIndex n [q] x = qbit n q x := by intro x; simp [subIndex]
  rw [Finset.sum_eq_add r (flipBit n q r) (flipBit_ne n q r)]
  · have e1 : ((List.range (2 ^ n)).map fun c => if agreeOff n [q] r c = true then
        LMat.get M (subIndex n [q] r) (subIndex n [q] c) else 0).getD r 0 = LMat.get M (qbit n q r) (qbit n q r) := by
      simp [List.getD_eq_getElem?_getD, hr', agree_self, hsub]
    have e2 : ((List.range (2 ^ n)).map fun c => if agreeOff n [q] r c = true then
        LMat.get M (subIndex n [q] r) (subIndex n [q] c) else 0).getD (flipBit n q r) 0 =
        LMat.get M (qbit n q r) (1 - qbit n q r) := by
      simp [List.getD_eq_getElem?_getD, flipBit_lt hq hr', agree_flip hq, hsub, qbit_flipBit_self]
    rw [e1, e2]
  · intro k hk hne
    have hk' : k < 2 ^ n := Finset.mem_range.mp hk
    have : agreeOff n [q] r k ≠ true := fun h => by
      rcases agree_cases hq hr' hk' h with h1 | h1
      · exact hne.1 h1
      · exact hne.2 h1
    simp [List.getD_eq_getElem?_getD, hk', this]
  · intro h; exact absurd (Finset.mem_range.mpr hr') h
  · intro h; exact absurd (Finset.mem_range.mpr (flipBit_lt hq hr')) h

theorem app1_length (M : LMat α) (n q : Nat) (v : List α) : (app1 M n q v).length = 2 ^ n := by simp [app1]

theorem getD_app1 (M : LMat α) (n q : Nat) (v : List α) {r : Nat} (hr : r < 2 ^ n) :
    (app1 M n q v).getD r 0 = LMat.get M (qbit n q r) (qbit n q r) * v.getD r 0 +
      LMat.get M (qbit n q r) (1 - qbit n q r) * v.getD (flipBit n q r) 0 := by
  simp [app1, List.getD_eq_getElem?_getD, hr]

/-- one-qubit operators on different qubits commute -/
theorem app1_comm (M M' : LMat α) {n q q' : Nat} (hq : q < n) (hq' : q' < n) (hne : q ≠ q') (v : List α) :
    app1 M n q (app1 M' n q' v) = app1 M' n q' (app1 M n q v) := by
  simp only [app1]
  apply List.map_congr_left
  intro r hr
  have hr' : r < 2 ^ n := List.mem_range.mp hr
  have h1 := getD_app1 M' n q' v hr'
  have h2 := getD_app1 M' n q' v (flipBit_lt hq hr')
  have h3 := getD_app1 M n q v hr'
  have h4 := getD_app1 M n q v (flipBit_lt hq' hr')
  simp only [app1] at h1 h2 h3 h4
  rw [h1, h2, h3, h4, qbit_flipBit_other hq hq' (Ne.symm hne), qbit_flipBit_other hq' hq hne, flipBit_comm n q' q r]
  ring

theorem getD_project (n q : Nat) (o : Bool) (v : List α) (r : Nat) :
    (project n q o v).getD r 0 = if (qbit n q r == 1) == o then v.getD r 0 else 0 := by
  simp only [List.getD_eq_getElem?_getD, project, List.getElem?_map, List.getElem?_zipIdx]
  cases v[r]? <;> simp

/-- a one-qubit operator commutes with the projector of another qubit -/
theorem app1_project (M : LMat α) {n q q' : Nat} (hq : q < n) (hq' : q' < n) (hne : q ≠ q') (o : Bool) (v : List α) :
    app1 M n q (project n q' o v) = project n q' o (app1 M n q v) := by
  have plen : ∀ w : List α, (project n q' o w).length = w.length := by intro w; simp [project]
  apply List.ext_getElem?
  intro r
  by_cases hr : r < 2 ^ n
  · have e1 : (app1 M n q (project n q' o v))[r]? = some ((app1 M n q (project n q' o v)).getD r 0) := by
      rw [List.getD_eq_getElem?_getD, List.getElem?_eq_getElem (by rw [app1_length]; exact hr)]; rfl
    have e2 : (project n q' o (app1 M n q v))[r]? = some ((project n q' o (app1 M n q v)).getD r 0) := by
      rw [List.getD_eq_getElem?_getD, List.getElem?_eq_getElem (by rw [plen, app1_length]; exact hr)]; rfl
    rw [e1, e2, getD_app1 _ _ _ _ hr, getD_project, getD_project, getD_project, getD_app1 _ _ _ _ hr,
      qbit_flipBit_other hq hq' (Ne.symm hne)]
    split <;> simp
  · rw [List.getElem?_eq_none (by rw [app1_length]; omega),
      List.getElem?_eq_none (by rw [plen, app1_length]; omega)]

end ring
end Q1t.Sim

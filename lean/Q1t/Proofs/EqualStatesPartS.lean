import Q1t.Proofs.EqualStatesPlan
set_option linter.unusedSectionVars false
set_option linter.unusedVariables false
set_option linter.unusedSimpArgs false
/-!
`PartS`: a string that commutes with every row of a tableau with destabilizers (and pairwise commuting rows) is a
bit-wise sum of rows.  Same argument as the first half of `partC2` (`2n+1` strings in `2n` bits are dependent; pair
with the rows, then with the duals), with `Z_q` replaced by an arbitrary string.
-/
namespace Q1t.Proofs.DetPlan
open Q1t Q1t.Tableau Q1t.Spec.Pauli Q1t.Proofs.Tableau Q1t.Proofs.TabG

theorem partS : PartS := by
  intro t w hwf hdual hpc hwlen hspw
  obtain ⟨ds, hdl, hdlen, hdsp⟩ := hdual
  obtain ⟨w1, w2, w3⟩ := hwf
  generalize hn : t.n = n at *
  have hRget : ∀ i : Fin n, t.rows[i.val]? = some (rowD t i) := fun i => rowD_getElem? t i (by omega)
  have hRlen : ∀ i : Fin n, (rowD t i).length = n := fun i => w3 _ (List.mem_of_getElem? (hRget i))
  have hDget : ∀ k : Fin n, ds[k.val]? = some (ds.getD k []) := fun k => by
    have : k.val < ds.length := by omega
    simp [List.getD_eq_getElem?_getD, List.getElem?_eq_getElem this]
  have hDlen : ∀ k : Fin n, (ds.getD k []).length = n := fun k => hdlen _ (List.mem_of_getElem? (hDget k))
  let S : Fin n ⊕ (Fin n ⊕ Unit) → List P :=
    Sum.elim (fun i => rowD t i) (Sum.elim (fun k => ds.getD k []) (fun _ => w))
  have hSlen : ∀ x, (S x).length = n := by
    intro x
    rcases x with i | k | u
    · exact hRlen i
    · exact hDlen k
    · exact hwlen
  let v : (Fin n ⊕ (Fin n ⊕ Unit)) → (Fin n × Bool) → ZMod 2 :=
    fun x cb => if cb.2 then xZ (S x) cb.1 else zZ (S x) cb.1
  obtain ⟨a, hane, hcomb⟩ := exists_dep v (by
    simp only [Fintype.card_sum, Fintype.card_prod, Fintype.card_fin, Fintype.card_bool, Fintype.card_unit]; omega)
  have hX : ∀ c : Fin n, ∑ x, a x * xZ (S x) c = 0 := fun c => by simpa [v] using hcomb (c, true)
  have hZ : ∀ c : Fin n, ∑ x, a x * zZ (S x) c = 0 := fun c => by simpa [v] using hcomb (c, false)
  have pair := fun (u : List P) (hu : u.length = n) => pair_comb n a S hSlen u hu hX hZ
  have spRR : ∀ i j : Fin n, sp (rowD t i) (rowD t j) = false := fun i j => hpc _ _ _ _ (hRget i) (hRget j)
  have spRD : ∀ i k : Fin n, sp (rowD t i) (ds.getD k []) = decide (i.val = k.val) :=
    fun i k => hdsp _ _ _ _ (hRget i) (hDget k)
  have spwR : ∀ j : Fin n, sp w (rowD t j) = false := fun j => hspw _ _ (hRget j)
  have hb0 : bZ false = 0 := rfl
  have hb1 : bZ true = 1 := rfl
  have hβ : ∀ j : Fin n, a (Sum.inr (Sum.inl j)) = 0 := by
    intro j
    have h := pair (rowD t j) (hRlen j)
    rw [Fintype.sum_sum_type, Fintype.sum_sum_type] at h
    simp only [S, Sum.elim_inl, Sum.elim_inr, spRR, spwR, hb0, mul_zero, Finset.sum_const_zero, zero_add,
      add_zero, Finset.univ_unique, Finset.sum_singleton] at h
    rw [Finset.sum_eq_single j] at h
    · rw [sp_comm, spRD j j] at h; simpa [hb1] using h
    · intro k _ hk
      rw [sp_comm, spRD j k]
      have : ¬ (j.val = k.val) := fun e => hk (Fin.ext e.symm)
      simp [this, hb0]
    · intro h'; exact absurd (Finset.mem_univ j) h'
  have hα : ∀ j : Fin n, a (Sum.inl j) = a (Sum.inr (Sum.inr ())) * bZ (sp w (ds.getD j [])) := by
    intro j
    have h := pair (ds.getD j []) (hDlen j)
    rw [Fintype.sum_sum_type, Fintype.sum_sum_type] at h
    simp only [S, Sum.elim_inl, Sum.elim_inr, hβ, zero_mul, Finset.sum_const_zero, zero_add,
      Finset.univ_unique, Finset.sum_singleton] at h
    rw [Finset.sum_eq_single j] at h
    · rw [spRD j j] at h
      simp only [decide_true, hb1, mul_one] at h
      exact z2_eq_of_add _ _ h
    · intro i _ hi
      rw [spRD i j]
      have : ¬ (i.val = j.val) := fun e => hi (Fin.ext e)
      simp [this, hb0]
    · intro h'; exact absurd (Finset.mem_univ j) h'
  have he : a (Sum.inr (Sum.inr ())) = 1 := by
    apply z2_eq_one_of_ne
    intro he0
    apply hane
    funext x
    rcases x with i | k | u
    · rw [hα i, he0, zero_mul]; rfl
    · exact hβ k
    · exact he0
  refine ⟨fun i => a (Sum.inl i), fun c => ⟨?_, ?_⟩⟩
  · have h := hX c
    rw [Fintype.sum_sum_type, Fintype.sum_sum_type] at h
    simp only [S, Sum.elim_inl, Sum.elim_inr, hβ, zero_mul, Finset.sum_const_zero, zero_add,
      Finset.univ_unique, Finset.sum_singleton, he, one_mul] at h
    exact z2_eq_of_add _ _ h
  · have h := hZ c
    rw [Fintype.sum_sum_type, Fintype.sum_sum_type] at h
    simp only [S, Sum.elim_inl, Sum.elim_inr, hβ, zero_mul, Finset.sum_const_zero, zero_add,
      Finset.univ_unique, Finset.sum_singleton, he, one_mul] at h
    exact z2_eq_of_add _ _ h

end Q1t.Proofs.DetPlan

import Q1t.Spec.OQ2Obligation
/-! C11, constants part D: `h c; ccx a, b, c; h c` is CCZ. -/
namespace Q1t.OpenQasm
set_option maxRecDepth 100000
theorem const_ccz_ok : constOK libTable "CCZ" = true := by decide +kernel
end Q1t.OpenQasm

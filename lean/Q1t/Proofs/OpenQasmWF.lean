import Mathlib.Data.List.Nodup
import Q1t.Proofs.OpenQasmStruct
/-!
C11: `export_wellformed_partial` — outside the listed defect classes every exported line is a statement of the
language over `qelib1` names with the right numbers of parameters and arguments, closed parameter expressions,
declared registers, indices in range and distinct qubits (`Spec.OQ2.wfProblem = none`).
-/
namespace Q1t.OpenQasm
open Q1t.Spec.OQ2

variable {P : Type}

/-! ## helpers on `Option`-`mapM` -/

theorem mapM_eq_map {α β} (f : α → Option β) (g : α → β) (l : List α) (h : ∀ a ∈ l, f a = some (g a)) :
    l.mapM f = some (l.map g) := by
  induction l with
  | nil => rfl
  | cons a l ih =>
    rw [List.mapM_cons, h a (List.mem_cons_self ..), ih fun b hb => h b (List.mem_cons_of_mem _ hb)]
    rfl

theorem qbitNames_get (nq b : Nat) (hb : b < nq) : (qbitNames nq)[b]? = some (QRef.bit "q" b) := by
  simp [qbitNames, hb]

theorem cbitNames_get (nc b : Nat) (hb : b < nc) : (cbitNames nc)[b]? = some (QRef.bit "b" b) := by
  simp [cbitNames, hb]

/-! ## what a good statement looks like -/

def QParam.isDirect : QParam P → Bool
  | .direct _ => true
  | .ref _ _ => false

/-- a gate application acceptable on the register `q[nq]` -/
structure AppOK (nq : Nat) (a : App P) : Prop where
  sig : ∃ np k, signature true a.name = some (np, k) ∧ a.args.length = np ∧ a.qargs.length = k
  closed : ∀ e ∈ a.args, idents e.skeleton = []
  qubits : ∃ is : List Nat, a.qargs = is.map (QRef.bit "q") ∧ is.Nodup ∧ ∀ i ∈ is, i < nq

def ChunkOK (nq : Nat) (c : Chunk P) : Prop := c.conds.length ≤ 1 ∧ ∃ a, c.app = some a ∧ AppOK nq a

/-- a template statement whose name, arities and holes fit `qelib1` -/
def goodStmt (t : GateTpl) (s : TStmt) : Bool :=
  match signature true s.name with
  | some (np, k) =>
    s.args.length == np && s.args.all (paramsKnown t.params) &&
      (match t.kind with
       | .plain => t.nbits == k
       | _ => s.qargs.length == k && decide s.qargs.Nodup && s.qargs.all (· < t.nbits))
  | none => false

def goodTpl (t : GateTpl) : Bool :=
  t.stmts.all (goodStmt t) &&
    (match t.kind with
     | .format (some k) => k == t.nbits
     | _ => true)

/-! ## arguments -/

/-- total version of `instArg` -/
def instArgT (fields : List String) (ps : List (QParam P)) (dflt : Arg P) : TArg → Arg P
  | .lit n => .lit n
  | .pi => .pi
  | .param f => ((fieldParam fields ps f).map showParam).getD dflt
  | .neg e => .neg (instArgT fields ps dflt e)
  | .div a b => .div (instArgT fields ps dflt a) (instArgT fields ps dflt b)

theorem fieldParam_some (fields : List String) (ps : List (QParam P)) (f : String)
    (hl : ps.length = fields.length) (hf : fields.contains f = true) :
    ∃ p ∈ ps, fieldParam fields ps f = some p := by
  unfold fieldParam
  have hm : f ∈ fields := by simpa using hf
  cases hi : fields.idxOf? f with
  | none =>
    rw [List.idxOf?_eq_none_iff] at hi
    exact absurd hm hi
  | some i =>
    have hlt : i < fields.length := (List.idxOf?_eq_some_iff.1 hi).1
    have : i < ps.length := by omega
    exact ⟨ps[i], List.getElem_mem _, by simp [this]⟩

theorem instArg_eq (fields : List String) (ps : List (QParam P)) (dflt : Arg P) (hl : ps.length = fields.length)
    (e : TArg) (hk : paramsKnown fields e = true) : instArg fields ps e = some (instArgT fields ps dflt e) := by
  induction e with
  | lit n => rfl
  | pi => rfl
  | param f =>
    obtain ⟨p, _, hp⟩ := fieldParam_some fields ps f hl (by simpa [paramsKnown] using hk)
    simp [instArg, instArgT, hp]
  | neg e ih =>
    simp only [paramsKnown] at hk
    simp [instArg, instArgT, ih hk]
  | div a b iha ihb =>
    simp only [paramsKnown, Bool.and_eq_true] at hk
    simp [instArg, instArgT, iha hk.1, ihb hk.2]

theorem instArgT_closed (fields : List String) (ps : List (QParam P)) (hl : ps.length = fields.length)
    (hd : ∀ p ∈ ps, p.isDirect = true) (e : TArg) (hk : paramsKnown fields e = true) :
    idents (instArgT fields ps (.lit 0) e).skeleton = [] := by
  induction e with
  | lit n => rfl
  | pi => rfl
  | param f =>
    obtain ⟨p, hp, he⟩ := fieldParam_some fields ps f hl (by simpa [paramsKnown] using hk)
    have := hd p hp
    cases p with
    | direct v => simp [instArgT, he, showParam, Arg.skeleton, idents]
    | ref n v => simp [QParam.isDirect] at this
  | neg e ih =>
    simp only [paramsKnown] at hk
    simp [instArgT, Arg.skeleton, idents, ih hk]
  | div a b iha ihb =>
    simp only [paramsKnown, Bool.and_eq_true] at hk
    simp [instArgT, Arg.skeleton, idents, iha hk.1, ihb hk.2]

/-! ## a library gate -/

theorem nodup_map_getD (bits is : List Nat) (hn : bits.Nodup) (hi : is.Nodup) (hlt : ∀ i ∈ is, i < bits.length) :
    (is.map fun k => bits.getD k 0).Nodup := by
  refine List.Nodup.map_on ?_ hi
  intro x hx y hy hxy
  have h1 := hlt x hx
  have h2 := hlt y hy
  simp only [List.getD_eq_getElem?_getD, List.getElem?_eq_getElem h1, List.getElem?_eq_getElem h2,
    Option.getD_some] at hxy
  exact (List.Nodup.getElem_inj_iff hn).1 hxy

/-- the qubit arguments of statement `s` of template `t` on `bits` -/
def qubitsOf (t : GateTpl) (s : TStmt) (bits : List Nat) : List Nat :=
  match t.kind with
  | .plain => bits
  | _ => s.qargs.map fun k => bits.getD k 0

/-- the chunk statement `s` becomes -/
def chunkOf (t : GateTpl) (ps : List (QParam P)) (bits : List Nat) (s : TStmt) : Chunk P :=
  ⟨[], some ⟨s.name, s.args.map (instArgT t.params ps (.lit 0)), (qubitsOf t s bits).map (QRef.bit "q")⟩⟩

theorem goodStmt_args (t : GateTpl) (s : TStmt) (h : goodStmt t s = true) :
    ∀ e ∈ s.args, paramsKnown t.params e = true := by
  unfold goodStmt at h
  split at h
  · simp only [Bool.and_eq_true, List.all_eq_true] at h
    exact h.1.2
  · cases h

theorem goodStmt_qargs (t : GateTpl) (s : TStmt) (h : goodStmt t s = true) (hk : t.kind ≠ .plain) :
    s.qargs.Nodup ∧ ∀ k ∈ s.qargs, k < t.nbits := by
  unfold goodStmt at h
  cases hs : signature true s.name with
  | none => rw [hs] at h; cases h
  | some nk =>
    obtain ⟨np, k⟩ := nk
    rw [hs] at h
    cases hkind : t.kind with
    | plain => exact absurd hkind hk
    | format c =>
      rw [hkind] at h
      simp only [Bool.and_eq_true, decide_eq_true_eq, List.all_eq_true] at h
      exact ⟨h.2.1.2, h.2.2⟩
    | template =>
      rw [hkind] at h
      simp only [Bool.and_eq_true, decide_eq_true_eq, List.all_eq_true] at h
      exact ⟨h.2.1.2, h.2.2⟩

theorem args_mapM (t : GateTpl) (ps : List (QParam P)) (hps : ps.length = t.params.length) (s : TStmt)
    (hs : goodStmt t s = true) :
    s.args.mapM (instArg t.params ps) = some (s.args.map (instArgT t.params ps (.lit 0))) :=
  mapM_eq_map _ _ _ fun e he => instArg_eq t.params ps (.lit 0) hps e (goodStmt_args t s hs e he)

theorem bits_mapM (nq : Nat) (bits : List Nat) (hb : ∀ b ∈ bits, b < nq) :
    bits.mapM (fun b => (qbitNames nq)[b]?) = some (bits.map (QRef.bit "q")) :=
  mapM_eq_map _ _ _ fun b hbm => qbitNames_get nq b (hb b hbm)

theorem libExport_eq (t : GateTpl) (hg : goodTpl t = true) (ps : List (QParam P))
    (hps : ps.length = t.params.length) (nq : Nat) (bits : List Nat) (hb : ∀ b ∈ bits, b < nq)
    (hl : bits.length = t.nbits) :
    libExport t ps (qbitNames nq) bits = .ok (t.stmts.map (chunkOf t ps bits)) := by
  simp only [goodTpl, Bool.and_eq_true, List.all_eq_true] at hg
  obtain ⟨hst, hck⟩ := hg
  unfold libExport
  simp only [hps, ne_eq, not_true_eq_false, if_false]
  cases hk : t.kind with
  | format check =>
    have hgo : libExport.go t ps (qbitNames nq) bits = .ok (t.stmts.map (chunkOf t ps bits)) := by
      unfold libExport.go
      rw [mapM_eq_map _ (chunkOf t ps bits)]
      · rfl
      · intro s hs
        have hq := goodStmt_qargs t s (hst s hs) (by rw [hk]; intro h; cases h)
        rw [args_mapM t ps hps s (hst s hs)]
        have : s.qargs.mapM (nameOf (qbitNames nq) bits) =
            some (s.qargs.map fun k => QRef.bit "q" (bits.getD k 0)) := by
          refine mapM_eq_map _ _ _ fun k hkm => ?_
          have hlt : k < bits.length := by rw [hl]; exact hq.2 k hkm
          simp only [nameOf, List.getElem?_eq_getElem hlt]
          rw [qbitNames_get nq _ (hb _ (List.getElem_mem _))]
          simp [List.getD_eq_getElem?_getD, List.getElem?_eq_getElem hlt]
        rw [this]
        simp [chunkOf, qubitsOf, hk, List.map_map]
    cases check with
    | none => simpa using hgo
    | some k =>
      rw [hk] at hck
      simp only [beq_iff_eq] at hck
      simp only [hl, hck, ne_eq, not_true_eq_false, if_false]
      exact hgo
  | template =>
    simp only [bits_mapM nq bits hb]
    rw [mapM_eq_map _ (chunkOf t ps bits)]
    · rfl
    · intro s hs
      have hq := goodStmt_qargs t s (hst s hs) (by rw [hk]; intro h; cases h)
      rw [args_mapM t ps hps s (hst s hs)]
      simp only [chunkOf, qubitsOf, hk, List.map_map, Option.pure_def, Option.bind_eq_bind, Option.bind_some,
        Option.some.injEq, Chunk.mk.injEq, App.mk.injEq, true_and]
      refine List.map_congr_left fun k hkm => ?_
      have hlt : k < bits.length := by rw [hl]; exact hq.2 k hkm
      simp [List.getD_eq_getElem?_getD, List.getElem?_eq_getElem hlt, hlt]
  | plain =>
    simp only [bits_mapM nq bits hb]
    rw [mapM_eq_map _ (chunkOf t ps bits)]
    · rfl
    · intro s hs
      rw [args_mapM t ps hps s (hst s hs)]
      simp [chunkOf, qubitsOf, hk]

theorem goodStmt_sig (t : GateTpl) (s : TStmt) (h : goodStmt t s = true) :
    ∃ np k, signature true s.name = some (np, k) ∧ s.args.length = np ∧
      (t.kind = .plain → t.nbits = k) ∧ (t.kind ≠ .plain → s.qargs.length = k) := by
  unfold goodStmt at h
  cases hs : signature true s.name with
  | none => rw [hs] at h; cases h
  | some nk =>
    obtain ⟨np, k⟩ := nk
    rw [hs] at h
    refine ⟨np, k, rfl, ?_⟩
    cases hkind : t.kind with
    | plain =>
      rw [hkind] at h
      simp only [Bool.and_eq_true, beq_iff_eq] at h
      exact ⟨h.1.1, ⟨fun _ => h.2, fun hne => absurd rfl hne⟩⟩
    | format c =>
      rw [hkind] at h
      simp only [Bool.and_eq_true, beq_iff_eq] at h
      exact ⟨h.1.1, ⟨fun he => TKind.noConfusion he, fun _ => h.2.1.1⟩⟩
    | template =>
      rw [hkind] at h
      simp only [Bool.and_eq_true, beq_iff_eq] at h
      exact ⟨h.1.1, ⟨fun he => TKind.noConfusion he, fun _ => h.2.1.1⟩⟩

theorem chunkOf_ok (t : GateTpl) (hg : goodTpl t = true) (ps : List (QParam P))
    (hps : ps.length = t.params.length) (hd : ∀ p ∈ ps, p.isDirect = true) (nq : Nat) (bits : List Nat)
    (hn : bits.Nodup) (hb : ∀ b ∈ bits, b < nq) (hl : bits.length = t.nbits) (s : TStmt) (hs : s ∈ t.stmts) :
    (chunkOf t ps bits s).conds = [] ∧ ∃ a, (chunkOf t ps bits s).app = some a ∧ AppOK nq a := by
  have hg' := hg
  simp only [goodTpl, Bool.and_eq_true, List.all_eq_true] at hg'
  have hst := hg'.1 s hs
  obtain ⟨np, k, hsig, hnp, hpl, hnpl⟩ := goodStmt_sig t s hst
  refine ⟨rfl, _, rfl, ?_, ?_, ?_⟩
  · refine ⟨np, k, hsig, by simp [hnp], ?_⟩
    simp only [List.length_map, qubitsOf]
    cases hk : t.kind with
    | plain => simp [← hpl hk, hl]
    | format c => simp [hnpl (by rw [hk]; intro h; cases h)]
    | template => simp [hnpl (by rw [hk]; intro h; cases h)]
  · intro e he
    obtain ⟨e0, he0, rfl⟩ := List.mem_map.1 he
    exact instArgT_closed t.params ps hps hd e0 (goodStmt_args t s hst e0 he0)
  · refine ⟨qubitsOf t s bits, rfl, ?_, ?_⟩
    · unfold qubitsOf
      cases hk : t.kind with
      | plain => exact hn
      | format c =>
        have hq := goodStmt_qargs t s hst (by rw [hk]; intro h; cases h)
        exact nodup_map_getD bits s.qargs hn hq.1 fun i hi => by rw [hl]; exact hq.2 i hi
      | template =>
        have hq := goodStmt_qargs t s hst (by rw [hk]; intro h; cases h)
        exact nodup_map_getD bits s.qargs hn hq.1 fun i hi => by rw [hl]; exact hq.2 i hi
    · intro i hi
      unfold qubitsOf at hi
      have key : ∀ ks : List Nat, (∀ k ∈ ks, k < bits.length) → i ∈ ks.map (fun k => bits.getD k 0) → i < nq := by
        intro ks hks him
        obtain ⟨k, hk1, rfl⟩ := List.mem_map.1 him
        have hlt := hks k hk1
        simp only [List.getD_eq_getElem?_getD, List.getElem?_eq_getElem hlt, Option.getD_some]
        exact hb _ (List.getElem_mem _)
      cases hk : t.kind with
      | plain => rw [hk] at hi; exact hb i hi
      | format c =>
        rw [hk] at hi
        have hq := goodStmt_qargs t s hst (by rw [hk]; intro h; cases h)
        exact key s.qargs (fun k hk1 => by rw [hl]; exact hq.2 k hk1) hi
      | template =>
        rw [hk] at hi
        have hq := goodStmt_qargs t s hst (by rw [hk]; intro h; cases h)
        exact key s.qargs (fun k hk1 => by rw [hl]; exact hq.2 k hk1) hi

/-! ## gates -/

def QOps.nonEmpty : QOps P → Bool
  | .nil => false
  | .cons _ _ _ => true

mutual
/-- every leaf is a library gate with a good template and direct parameters; composites and executed loops are
not empty; sub-gates sit on distinct local bits in range, with the right arity -/
def QGate.sound (tbl : List GateTpl) : QGate P → Bool
  | .lib name ps =>
    match lookupTpl tbl name with
    | some t => goodTpl t && ps.length == t.params.length && ps.all QParam.isDirect
    | none => false
  | .ctrl _ => false
  | .kron a b => a.sound tbl && b.sound tbl
  | .composite _ n ops => ops.nonEmpty && ops.sound tbl n
  | .loop _ iters _ n body => decide (0 < iters) && body.nonEmpty && body.sound tbl n
def QOps.sound (tbl : List GateTpl) (n : Nat) : QOps P → Bool
  | .nil => true
  | .cons g sub rest =>
    g.sound tbl && sub.length == nbits tbl g && decide sub.Nodup && sub.all (· < n) && rest.sound tbl n
end

/-- a good chunk; unconditional translations carry no `if` -/
def ChunkOK' (nq : Nat) (cond : Option Nat) (c : Chunk P) : Prop := ChunkOK nq c ∧ (cond = none → c.conds = [])

theorem withCond_ok (nq : Nat) (cond : Option Nat) (cs : List (Chunk P))
    (h : ∀ c ∈ cs, c.conds = [] ∧ ∃ a, c.app = some a ∧ AppOK nq a) :
    ∀ c ∈ withCond cond cs, ChunkOK' nq cond c := by
  intro c hc
  refine ⟨?_, ?_⟩
  swap
  · rintro rfl
    exact (h c hc).1
  cases cond with
  | none =>
    obtain ⟨h1, h2⟩ := h c hc
    exact ⟨by simp [h1], h2⟩
  | some k =>
    cases cs with
    | nil => cases hc
    | cons c0 rest =>
      simp only [withCond, prefixCond, List.mem_cons] at hc
      rcases hc with rfl | hc
      · obtain ⟨h1, h2⟩ := h c0 (List.mem_cons_self ..)
        exact ⟨by simp [h1], h2⟩
      · obtain ⟨h1, h2⟩ := h c (List.mem_cons_of_mem _ hc)
        exact ⟨by simp [h1], h2⟩

theorem mem_repeatAppend {α} (xs : List α) (n : Nat) (x : α) (h : x ∈ repeatAppend xs n) : x ∈ xs := by
  induction n with
  | zero => cases h
  | succ n ih =>
    simp only [repeatAppend, List.mem_append] at h
    rcases h with h | h
    · exact h
    · exact ih h

theorem sub_mapM (bits sub : List Nat) (h : ∀ k ∈ sub, k < bits.length) :
    sub.mapM (fun b => bits[b]?) = some (sub.map fun k => bits.getD k 0) :=
  mapM_eq_map _ _ _ fun k hk => by
    simp [List.getD_eq_getElem?_getD, List.getElem?_eq_getElem (h k hk)]

theorem mem_map_getD_lt (bits sub : List Nat) (nq : Nat) (hb : ∀ b ∈ bits, b < nq)
    (h : ∀ k ∈ sub, k < bits.length) : ∀ b ∈ sub.map (fun k => bits.getD k 0), b < nq := by
  intro b hbm
  obtain ⟨k, hk, rfl⟩ := List.mem_map.1 hbm
  simp only [List.getD_eq_getElem?_getD, List.getElem?_eq_getElem (h k hk), Option.getD_some]
  exact hb _ (List.getElem_mem _)

mutual
theorem exportGate_chunks (tbl : List GateTpl) (nq : Nat) (cond : Option Nat) :
    ∀ (g : QGate P) (bits : List Nat) (cs : List (Chunk P)), g.sound tbl = true → bits.Nodup →
      (∀ b ∈ bits, b < nq) → bits.length = nbits tbl g →
      exportGate tbl (qbitNames nq) cond g bits = .ok cs → ∀ c ∈ cs, ChunkOK' nq cond c
  | .lib name ps, bits, cs, hs, hn, hb, hl, h => by
    unfold QGate.sound at hs
    unfold exportGate at h
    unfold nbits at hl
    cases ht : lookupTpl tbl name with
    | none => rw [ht] at hs; cases hs
    | some t =>
      rw [ht] at hs h hl
      simp only [Bool.and_eq_true, beq_iff_eq, List.all_eq_true] at hs
      simp only at h hl
      rw [libExport_eq t hs.1.1 ps hs.1.2 nq bits hb hl] at h
      simp only [Res.map, Res.bind_ok, Res.ok.injEq] at h
      subst h
      refine withCond_ok nq cond _ fun c hc => ?_
      obtain ⟨s, hsm, rfl⟩ := List.mem_map.1 hc
      exact chunkOf_ok t hs.1.1 ps hs.1.2 hs.2 nq bits hn hb hl s hsm
  | .ctrl g, bits, cs, hs, _, _, _, _ => by simp [QGate.sound] at hs
  | .kron g0 g1, bits, cs, hs, hn, hb, hl, h => by
    unfold QGate.sound at hs
    simp only [Bool.and_eq_true] at hs
    unfold exportGate at h
    unfold nbits at hl
    simp only at h
    have hlt : ¬ bits.length < nbits tbl g0 := by omega
    simp only [hlt, if_false] at h
    obtain ⟨a, ha, h⟩ := Res.bind_eq_ok.1 h
    obtain ⟨b, hb', h⟩ := Res.bind_eq_ok.1 h
    simp only [Res.ok.injEq] at h
    subst h
    intro c hc
    rcases List.mem_append.1 hc with hc | hc
    · exact exportGate_chunks tbl nq cond g0 _ a hs.1 (hn.sublist (List.take_sublist _ _))
        (fun x hx => hb x (List.mem_of_mem_take hx)) (by simp; omega) ha c hc
    · exact exportGate_chunks tbl nq cond g1 _ b hs.2 (hn.sublist (List.drop_sublist _ _))
        (fun x hx => hb x (List.mem_of_mem_drop hx)) (by simp; omega) hb' c hc
  | .composite _ n ops, bits, cs, hs, hn, hb, hl, h => by
    unfold QGate.sound at hs
    simp only [Bool.and_eq_true] at hs
    unfold exportGate at h
    unfold nbits at hl
    cases ops with
    | nil => simp [QOps.nonEmpty] at hs
    | cons g sub rest =>
      simp only at h
      exact exportOps_chunks tbl nq cond _ bits cs (hl ▸ hs.2) hn hb h
  | .loop _ iters _ n body, bits, cs, hs, hn, hb, hl, h => by
    unfold QGate.sound at hs
    simp only [Bool.and_eq_true, decide_eq_true_eq] at hs
    unfold exportGate at h
    unfold nbits at hl
    have hi : ¬ iters = 0 := by omega
    simp only [hi, if_false] at h
    cases body with
    | nil => simp [QOps.nonEmpty] at hs
    | cons g sub rest =>
      simp only at h
      obtain ⟨b, hb', h⟩ := Res.bind_eq_ok.1 h
      simp only [Res.ok.injEq] at h
      subst h
      intro c hc
      exact exportOps_chunks tbl nq cond _ bits b (hl ▸ hs.2) hn hb hb' c (mem_repeatAppend _ _ _ hc)
theorem exportOps_chunks (tbl : List GateTpl) (nq : Nat) (cond : Option Nat) :
    ∀ (ops : QOps P) (bits : List Nat) (cs : List (Chunk P)), ops.sound tbl bits.length = true → bits.Nodup →
      (∀ b ∈ bits, b < nq) →
      exportOps tbl (qbitNames nq) cond ops bits = .ok cs → ∀ c ∈ cs, ChunkOK' nq cond c
  | .nil, _, cs, _, _, _, h => by
    simp only [exportOps, Res.ok.injEq] at h
    subst h
    intro c hc; cases hc
  | .cons g sub rest, bits, cs, hs, hn, hb, h => by
    unfold QOps.sound at hs
    simp only [Bool.and_eq_true, beq_iff_eq, decide_eq_true_eq, List.all_eq_true] at hs
    obtain ⟨⟨⟨⟨hg, hlen⟩, hnd⟩, hlt⟩, hrest⟩ := hs
    unfold exportOps at h
    rw [sub_mapM bits sub hlt] at h
    simp only at h
    obtain ⟨a, ha, h⟩ := Res.bind_eq_ok.1 h
    obtain ⟨b, hb', h⟩ := Res.bind_eq_ok.1 h
    simp only [Res.ok.injEq] at h
    subst h
    intro c hc
    rcases List.mem_append.1 hc with hc | hc
    · exact exportGate_chunks tbl nq cond g _ a hg (nodup_map_getD bits sub hn hnd hlt)
        (mem_map_getD_lt bits sub nq hb hlt) (by simp [hlen]) ha c hc
    · exact exportOps_chunks tbl nq cond rest bits b hrest hn hb hb' c hc
end

/-! ## statements -/

/-- the registers the exporter declares -/
def regsOf (nq nc : Nat) : Regs :=
  ⟨if nq > 0 then [("q", nq)] else [], if nc > 0 then [("b", nc)] else []⟩

/-- a statement without a well-formedness problem, given the registers -/
def StmtOK (rg : Regs) : Stmt → Prop
  | .op o => opProblem true rg o = none
  | .cond c _ o => (findReg rg.cregs c).isSome = true ∧ opProblem true rg o = none
  | _ => False

theorem findReg_q (nq : Nat) : findReg [("q", nq)] "q" = some (0, nq) := by simp [findReg]
theorem findReg_b (nc : Nat) : findReg [("b", nc)] "b" = some (0, nc) := by simp [findReg]

theorem eraseDups_of_nodup (l : List Nat) (h : l.Nodup) : l.eraseDups = l := by
  induction l with
  | nil => simp
  | cons a l ih =>
    rw [List.eraseDups_cons]
    have ha : a ∉ l := (List.nodup_cons.1 h).1
    have : l.filter (fun b => !b == a) = l := by
      rw [List.filter_eq_self]
      intro b hb
      simp
      rintro rfl; exact ha hb
    rw [this, ih (List.nodup_cons.1 h).2]

theorem firstProblem_idx (r : String) (n : Nat) (is : List Nat) (h : ∀ i ∈ is, i < n) :
    firstProblem (argProblem [(r, n)]) (is.map (QArg.idx r)) = none := by
  induction is with
  | nil => rfl
  | cons i is ih =>
    have hi := h i (List.mem_cons_self ..)
    simp only [List.map_cons, firstProblem, argProblem, findReg, if_true, hi]
    exact ih fun j hj => h j (List.mem_cons_of_mem _ hj)

theorem resolve_idx (r : String) (n : Nat) (is : List Nat) (h : ∀ i ∈ is, i < n) :
    (is.map (QArg.idx r)).mapM (resolveArg [(r, n)]) = some (is.map fun i => ([i], false)) := by
  rw [show (is.map fun i => (([i], false) : List Nat × Bool)) =
      (is.map (QArg.idx r)).map (fun a => match a with | .idx _ i => ([i], false) | .reg _ => ([], true)) by
    simp [List.map_map, Function.comp_def]]
  refine mapM_eq_map _ _ _ fun a ha => ?_
  obtain ⟨i, hi, rfl⟩ := List.mem_map.1 ha
  simp [resolveArg, findReg, h i hi]

theorem instances_idx (is : List Nat) : instances (is.map fun i => (([i], false) : List Nat × Bool)) = some [is] := by
  have hf : (is.map fun i => (([i], false) : List Nat × Bool)).filter (·.2) = [] := by
    simp [List.filter_eq_nil_iff]
  simp only [instances, hf, List.map_nil, List.map_map, Function.comp_def, List.headD_cons, List.map_id']

/-- a good application has no well-formedness problem -/
theorem appOK_problem (nq nc : Nat) (hq : 0 < nq) (a : App P) (h : AppOK nq a) :
    ∃ qs, a.qargs.mapM QRef.toQArg = some qs ∧
      opProblem true (regsOf nq nc) (.app a.name (a.args.map Arg.skeleton) qs) = none := by
  obtain ⟨⟨np, k, hsig, hnp, hk⟩, hcl, is, hqs, hnd, hlt⟩ := h
  refine ⟨is.map (QArg.idx "q"), ?_, ?_⟩
  · rw [hqs, List.mapM_map]
    exact mapM_eq_map _ _ _ fun i _ => rfl
  · have hids : (a.args.map Arg.skeleton).flatMap idents = [] := by
      rw [List.flatMap_eq_nil_iff]
      intro e he
      obtain ⟨e0, he0, rfl⟩ := List.mem_map.1 he
      exact hcl e0 he0
    have hlen : (is.map (QArg.idx "q")).length = k := by
      rw [List.length_map, ← hk, hqs, List.length_map]
    have hregs : (regsOf nq nc).qregs = [("q", nq)] := by simp [regsOf, hq]
    simp only [opProblem, hsig, List.length_map, hnp, hlen, ne_eq, not_true_eq_false, if_false, hids,
      List.head?_nil, hregs, firstProblem_idx "q" nq is hlt, resolve_idx "q" nq is hlt, instances_idx,
      List.all_cons, List.all_nil, Bool.and_true, eraseDups_of_nodup is hnd, beq_self_eq_true, if_true]

theorem chunkOK_stmt (nq nc : Nat) (hq : 0 < nq) (c : Chunk P) (h : ChunkOK nq c)
    (hc : c.conds ≠ [] → 0 < nc) : ∃ st, c.toStmt = some st ∧ StmtOK (regsOf nq nc) st := by
  obtain ⟨hlen, a, ha, hok⟩ := h
  obtain ⟨qs, hqs, hp⟩ := appOK_problem nq nc hq a hok
  unfold Chunk.toStmt
  rw [ha]
  simp only [hqs]
  match hcs : c.conds, hlen with
  | [], _ => exact ⟨_, rfl, hp⟩
  | [k], _ =>
    have : 0 < nc := hc (by rw [hcs]; simp)
    refine ⟨_, rfl, ?_, hp⟩
    simp [regsOf, this, findReg]
  | _ :: _ :: _, hl => simp at hl

/-! ## operations and circuits -/

/-- outside the defect classes: sound gates on distinct qubits in range with the right arity; Z-basis measurements
with operands in range (what the `Circuit` API accepts); non-empty barriers in range -/
def QOp.sound (tbl : List GateTpl) (nq nc : Nat) : QOp P → Bool
  | .gate g bits => g.sound tbl && bits.length == nbits tbl g && decide bits.Nodup && bits.all (· < nq)
  | .cond _ _ g bits => g.sound tbl && bits.length == nbits tbl g && decide bits.Nodup && bits.all (· < nq)
  | .measure q c b => b == .Z && decide (q < nq) && decide (c < nc)
  | .measureAll cbits b => b == .Z && cbits.length == nq && cbits.all (· < nc)
  | .peek _ _ _ | .peekAll _ _ => true
  | .reset q => decide (q < nq)
  | .resetAll => true
  | .barrier qbits => !qbits.isEmpty && qbits.all (· < nq)

def QCircuit.sound (tbl : List GateTpl) (c : QCircuit P) : Bool :=
  decide (0 < c.nq) && c.ops.all (QOp.sound tbl c.nq c.nc)

/-- a line that is a statement without a problem -/
def LineOK (rg : Regs) (l : Line P) : Prop := ∃ st, l.toStmt = some (some st) ∧ StmtOK rg st

theorem gateLines_ok (nq nc : Nat) (hq : 0 < nq) (cond : Option Nat) (hc : cond ≠ none → 0 < nc)
    (cs : List (Chunk P)) (h : ∀ c ∈ cs, ChunkOK' nq cond c) : ∀ l ∈ gateLines cs, LineOK (regsOf nq nc) l := by
  intro l hl
  obtain ⟨c, hcm, rfl⟩ := List.mem_map.1 hl
  obtain ⟨hok, hnone⟩ := h c hcm
  obtain ⟨st, hst, hs⟩ := chunkOK_stmt nq nc hq c hok (fun hne => hc fun hn => hne (hnone hn))
  exact ⟨st, by simp [Line.toStmt, hst], hs⟩

theorem measure_ok (nq nc q c : Nat) (hq : q < nq) (hc : c < nc) :
    LineOK (regsOf nq nc) (Line.measure (QRef.bit "q" q) (QRef.bit "b" c) : Line P) := by
  refine ⟨.op (.measure (.idx "q" q) (.idx "b" c)), rfl, ?_⟩
  have h1 : 0 < nq := by omega
  have h2 : 0 < nc := by omega
  simp [StmtOK, opProblem, argProblem, regsOf, h1, h2, findReg, hq, hc, resolveArg]

theorem isFullRegister_length (nc : Nat) (control : List Nat) (h : isFullRegister nc control = true) :
    control.length = nc := by
  simp only [isFullRegister, Bool.and_eq_true, beq_iff_eq] at h
  exact h.1

theorem exportOp_lines_ok (tbl : List GateTpl) (nq nc : Nat) (hq : 0 < nq) (op : QOp P)
    (hs : op.sound tbl nq nc = true) (ls : List (Line P)) (h : exportOp tbl nq nc op = .ok ls) :
    ∀ l ∈ ls, LineOK (regsOf nq nc) l := by
  cases op with
  | gate g bits =>
    simp only [QOp.sound, Bool.and_eq_true, beq_iff_eq, decide_eq_true_eq, List.all_eq_true] at hs
    obtain ⟨cs, hcs, rfl⟩ := Res.map_eq_ok.1 h
    exact gateLines_ok nq nc hq none (fun h => absurd rfl h) cs
      (exportGate_chunks tbl nq none g bits cs hs.1.1.1 hs.1.2 hs.2 hs.1.1.2 hcs)
  | cond control target g bits =>
    simp only [QOp.sound, Bool.and_eq_true, beq_iff_eq, decide_eq_true_eq, List.all_eq_true] at hs
    simp only [exportOp] at h
    by_cases hc : control.isEmpty = true
    · simp only [hc, if_true] at h
      obtain ⟨cs, hcs, rfl⟩ := Res.map_eq_ok.1 h
      exact gateLines_ok nq nc hq none (fun h => absurd rfl h) cs
        (exportGate_chunks tbl nq none g bits cs hs.1.1.1 hs.1.2 hs.2 hs.1.1.2 hcs)
    · simp only [hc] at h
      by_cases hf : isFullRegister nc control = true
      · simp only [hf, Bool.not_true] at h
        cases hk : conditionWord control target with
        | none => simp [hk] at h
        | some k =>
          simp only [hk] at h
          have h' : (exportGate tbl (qbitNames nq) (some k) g bits).map gateLines = .ok ls := by simpa using h
          obtain ⟨cs, hcs, rfl⟩ := Res.map_eq_ok.1 h'
          have hnc : 0 < nc := by
            have := isFullRegister_length nc control hf
            cases control with
            | nil => simp at hc
            | cons x xs => simp at this; omega
          exact gateLines_ok nq nc hq (some k) (fun _ => hnc) cs
            (exportGate_chunks tbl nq (some k) g bits cs hs.1.1.1 hs.1.2 hs.2 hs.1.1.2 hcs)
      · simp [hf] at h
  | measure q c b =>
    simp only [QOp.sound, Bool.and_eq_true, beq_iff_eq, decide_eq_true_eq] at hs
    obtain ⟨⟨rfl, hq'⟩, hc'⟩ := hs
    simp only [exportOp, basisLines, Res.bind_ok, qbitNames_get nq q hq', cbitNames_get nc c hc',
      List.nil_append, Res.ok.injEq] at h
    subst h
    intro l hl
    simp only [List.mem_singleton] at hl
    subst hl
    exact measure_ok nq nc q c hq' hc'
  | measureAll cbits b =>
    simp only [QOp.sound, Bool.and_eq_true, beq_iff_eq, List.all_eq_true, decide_eq_true_eq] at hs
    obtain ⟨⟨rfl, hlen⟩, hlt⟩ := hs
    simp only [exportOp, basisLines, Res.bind_ok, List.nil_append] at h
    split at h
    · rename_i hid
      simp only [Bool.and_eq_true, beq_iff_eq] at hid
      simp only [Res.ok.injEq] at h
      subst h
      intro l hl
      simp only [List.mem_singleton] at hl
      subst hl
      have hnc : nc = nq := by omega
      refine ⟨.op (.measure (.reg "q") (.reg "b")), rfl, ?_⟩
      have h2 : 0 < nc := by omega
      simp [StmtOK, opProblem, argProblem, regsOf, hq, findReg, resolveArg, hnc]
    · rw [mapM_eq_map _ (fun x : Nat × Nat => (Line.measure (QRef.bit "q" x.2) (QRef.bit "b" x.1) : Line P))
        cbits.zipIdx (by
          intro x hx
          have hx2 : x.2 < nq := by
            have := List.mem_zipIdx hx
            omega
          have hx1 : x.1 < nc := by
            have := List.mem_zipIdx hx
            exact hlt x.1 (by rw [this.2.2]; exact List.getElem_mem _)
          simp [qbitNames_get nq x.2 hx2, cbitNames_get nc x.1 hx1])] at h
      simp only [Res.ok.injEq] at h
      subst h
      intro l hl
      obtain ⟨x, hx, rfl⟩ := List.mem_map.1 hl
      have hx2 : x.2 < nq := by
        have := List.mem_zipIdx hx
        omega
      have hx1 : x.1 < nc := by
        have := List.mem_zipIdx hx
        exact hlt x.1 (by rw [this.2.2]; exact List.getElem_mem _)
      exact measure_ok nq nc x.2 x.1 hx2 hx1
  | peek q c b => cases h
  | peekAll cbits b => cases h
  | reset q =>
    simp only [QOp.sound, decide_eq_true_eq] at hs
    simp only [exportOp, qbitNames_get nq q hs, Res.ok.injEq] at h
    subst h
    intro l hl
    simp only [List.mem_singleton] at hl
    subst hl
    refine ⟨.op (.reset (.idx "q" q)), rfl, ?_⟩
    simp [StmtOK, opProblem, argProblem, regsOf, hq, findReg, hs]
  | resetAll =>
    simp only [exportOp, Res.ok.injEq] at h
    subst h
    intro l hl
    simp only [List.mem_singleton] at hl
    subst hl
    refine ⟨.op (.reset (.reg "q")), rfl, ?_⟩
    simp [StmtOK, opProblem, argProblem, regsOf, hq, findReg]
  | barrier qbits =>
    simp only [QOp.sound, Bool.and_eq_true, Bool.not_eq_true', List.all_eq_true, decide_eq_true_eq] at hs
    simp only [exportOp] at h
    split at h
    · simp only [Res.ok.injEq] at h
      subst h
      intro l hl
      simp only [List.mem_singleton] at hl
      subst hl
      refine ⟨.op (.barrier [.reg "q"]), rfl, ?_⟩
      simp [StmtOK, opProblem, argProblem, regsOf, hq, findReg, firstProblem]
    · rw [show qbits.mapM (fun b => (qbitNames nq)[b]?) = some (qbits.map (QRef.bit "q")) from
        bits_mapM nq qbits hs.2] at h
      simp only [Res.ok.injEq] at h
      subst h
      intro l hl
      simp only [List.mem_singleton] at hl
      subst hl
      refine ⟨.op (.barrier (qbits.map (QArg.idx "q"))), ?_, ?_⟩
      · simp only [Line.toStmt, List.mapM_map]
        rw [mapM_eq_map (QRef.toQArg ∘ QRef.bit "q") (QArg.idx "q") qbits fun _ _ => rfl]
        rfl
      · have hne : (qbits.map (QArg.idx "q")).isEmpty = false := by
          cases qbits with
          | nil => simp at hs
          | cons x xs => rfl
        simp only [StmtOK, opProblem, hne, Bool.false_eq_true, if_false]
        have : (regsOf nq nc).qregs = [("q", nq)] := by simp [regsOf, hq]
        rw [this]
        exact firstProblem_idx "q" nq qbits hs.2

/-! ## the whole program -/

theorem lines_toStmts (rg : Regs) (ls : List (Line P)) (h : ∀ l ∈ ls, LineOK rg l) :
    ∃ sts : List Stmt, ls.mapM Line.toStmt = some (sts.map some) ∧ ∀ st ∈ sts, StmtOK rg st := by
  induction ls with
  | nil => exact ⟨[], rfl, fun _ h => by cases h⟩
  | cons l ls ih =>
    obtain ⟨st, hst, hok⟩ := h l (List.mem_cons_self ..)
    obtain ⟨sts, hsts, hall⟩ := ih fun l' hl' => h l' (List.mem_cons_of_mem _ hl')
    refine ⟨st :: sts, ?_, ?_⟩
    · rw [List.mapM_cons, hst, hsts]; rfl
    · intro s hs
      rcases List.mem_cons.1 hs with rfl | hs
      · exact hok
      · exact hall s hs

theorem stmtsProblem_ok (rg : Regs) (sts : List Stmt) (h : ∀ st ∈ sts, StmtOK rg st) :
    stmtsProblem true rg sts = none := by
  induction sts with
  | nil => rfl
  | cons st sts ih =>
    have h1 := h st (List.mem_cons_self ..)
    have h2 := ih fun s hs => h s (List.mem_cons_of_mem _ hs)
    cases st with
    | qreg r n => exact absurd h1 (by simp [StmtOK])
    | creg r n => exact absurd h1 (by simp [StmtOK])
    | op o =>
      simp only [StmtOK] at h1
      simp [stmtsProblem, h1, h2]
    | cond c k o =>
      simp only [StmtOK] at h1
      have : (findReg rg.cregs c).isNone = false := by
        cases hf : findReg rg.cregs c with
        | none => rw [hf] at h1; simp at h1
        | some x => rfl
      simp [stmtsProblem, this, h1.2, h2]

theorem opProblem_none_sig (rg : Regs) (name : String) (ps : List Expr) (args : List QArg)
    (h : opProblem true rg (.app name ps args) = none) : (signature true name).isSome = true := by
  cases hs : signature true name with
  | none => simp [opProblem, hs] at h
  | some x => rfl

theorem stmts_qelib (rg : Regs) (sts : List Stmt) (h : ∀ st ∈ sts, StmtOK rg st) :
    (sts.all fun s => match s with
      | .op (.app name _ _) | .cond _ _ (.app name _ _) => (signature true name).isSome
      | _ => true) = true := by
  rw [List.all_eq_true]
  intro st hst
  have := h st hst
  cases st with
  | qreg r n => rfl
  | creg r n => rfl
  | op o =>
    cases o with
    | app name ps args => exact opProblem_none_sig rg name ps args this
    | measure q c => rfl
    | reset q => rfl
    | barrier qs => rfl
  | cond c k o =>
    cases o with
    | app name ps args => exact opProblem_none_sig rg name ps args this.2
    | measure q c => rfl
    | reset q => rfl
    | barrier qs => rfl

/-- `export_wellformed_partial` for an arbitrary table: a sound circuit whose export succeeds is exported as a
well-formed program that uses only built-in and `qelib1` gates. -/
theorem export_wellformed_of_sound (tbl : List GateTpl) (c : QCircuit P) (hs : c.sound tbl = true)
    (ls : List (Line P)) (h : exportCircuit tbl c = .ok ls) :
    ∃ p, toProgram ls = some p ∧ WellFormed p ∧ usesOnlyQelib1 p = true := by
  simp only [QCircuit.sound, Bool.and_eq_true, decide_eq_true_eq, List.all_eq_true] at hs
  obtain ⟨hq, hops⟩ := hs
  obtain ⟨per, hper, rfl⟩ := (exportCircuit_ok_iff tbl c ls).1 h
  have hbody : ∀ l ∈ per.flatten, LineOK (regsOf c.nq c.nc) l := by
    intro l hl
    obtain ⟨lsi, hlsi, hl⟩ := List.mem_flatten.1 hl
    have hmem : Res.ok lsi ∈ c.ops.map (exportOp tbl c.nq c.nc) := by
      rw [hper]; exact List.mem_map_of_mem hlsi
    obtain ⟨op, hop, he⟩ := List.mem_map.1 hmem
    exact exportOp_lines_ok tbl c.nq c.nc hq op (hops op hop) lsi he l hl
  obtain ⟨sts, hsts, hall⟩ := lines_toStmts _ _ hbody
  have hnq : c.nq ≠ 0 := by omega
  by_cases hnc : 0 < c.nc
  · refine ⟨⟨true, .qreg "q" c.nq :: .creg "b" c.nc :: sts⟩, ?_, ?_, ?_⟩
    · simp only [header, hq, hnc, if_true, List.cons_append, List.nil_append, List.append_assoc, toProgram,
        List.mapM_cons, Line.toStmt, hsts]
      simp
    · have hr : ({ qregs := [("q", c.nq)], cregs := [("b", c.nc)] } : Regs) = regsOf c.nq c.nc := by
        simp [regsOf, hq, hnc]
      have hnc' : c.nc ≠ 0 := by omega
      simp only [WellFormed, wfProblem, stmtsProblem, Regs.empty, findReg, Option.isSome_none, Bool.or_self,
        Bool.false_eq_true, if_false, hnq, List.nil_append, hnc']
      simp only [findReg, show ("q" = "b") = False by decide, if_false, Option.map_none, Option.isSome_none,
        Bool.or_self, Bool.false_eq_true, hr]
      exact stmtsProblem_ok _ sts hall
    · simp only [usesOnlyQelib1, List.all_cons, Bool.true_and]
      exact stmts_qelib _ sts hall
  · have hnc0 : c.nc = 0 := by omega
    refine ⟨⟨true, .qreg "q" c.nq :: sts⟩, ?_, ?_, ?_⟩
    · simp only [header, hq, hnc, if_true, if_false, List.cons_append, List.nil_append, List.append_nil, toProgram,
        List.mapM_cons, Line.toStmt, hsts]
      simp
    · have hr : ({ qregs := [("q", c.nq)], cregs := [] } : Regs) = regsOf c.nq c.nc := by
        simp [regsOf, hq, hnc0]
      simp only [WellFormed, wfProblem, stmtsProblem, Regs.empty, findReg, Option.isSome_none, Bool.or_self,
        Bool.false_eq_true, if_false, hnq, List.nil_append, hr]
      exact stmtsProblem_ok _ sts hall
    · simp only [usesOnlyQelib1, List.all_cons, Bool.true_and]
      exact stmts_qelib _ sts hall

end Q1t.OpenQasm

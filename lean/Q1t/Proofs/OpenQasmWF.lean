import Mathlib.Data.List.Nodup
import Q1t.Proofs.OpenQasmStruct
/-!
C11: `export_wellformed_partial` — outside the listed defect classes every exported line is a statement of the
language over `qelib1` names with the right numbers of parameters and arguments, closed parameter expressions,
declared registers, indices in range and distinct qubits (`Spec.OQ2.wfProblem = none`).
-/
namespace Q1t.OpenQasm
open Q1t.Spec.OQ2

variable {P : Type}

/-! ## helpers on `Option`-`mapM` -/

theorem mapM_eq_map {α β} (f : α → Option β) (g : α → β) (l : List α) (h : ∀ a ∈ l, f a = some (g a)) :
    l.mapM f = some (l.map g) := by
  induction l with
  | nil => rfl
  | cons a l ih =>
    rw [List.mapM_cons, h a (List.mem_cons_self ..), ih fun b hb => h b (List.mem_cons_of_mem _ hb)]
    rfl

theorem qbitNames_get (nq b : Nat) (hb : b < nq) : (qbitNames nq)[b]? = some (QRef.bit "q" b) := by
  simp [qbitNames, hb]

theorem cbitNames_get (nc b : Nat) (hb : b < nc) : (cbitNames nc)[b]? = some (QRef.bit "b" b) := by
  simp [cbitNames, hb]

/-! ## what a good statement looks like -/

def QParam.isDirect : QParam P → Bool
  | .direct _ => true
  | .ref _ _ => false

/-- a gate application acceptable on the register `q[nq]` -/
structure AppOK (nq : Nat) (a : App P) : Prop where
  sig : ∃ np k, signature true a.name = some (np, k) ∧ a.args.length = np ∧ a.qargs.length = k
  closed : ∀ e ∈ a.args, idents e.skeleton = []
  qubits : ∃ is : List Nat, a.qargs = is.map (QRef.bit "q") ∧ is.Nodup ∧ ∀ i ∈ is, i < nq

def ChunkOK (nq : Nat) (c : Chunk P) : Prop := c.conds.length ≤ 1 ∧ ∃ a, c.app = some a ∧ AppOK nq a

/-- a template statement whose name, arities and holes fit `qelib1` -/
def goodStmt (t : GateTpl) (s : TStmt) : Bool :=
  match signature true s.name with
  | some (np, k) =>
    s.args.length == np && s.args.all (paramsKnown t.params) &&
      (match t.kind with
       | .plain => t.nbits == k
       | _ => s.qargs.length == k && decide s.qargs.Nodup && s.qargs.all (· < t.nbits))
  | none => false

def goodTpl (t : GateTpl) : Bool :=
  t.stmts.all (goodStmt t) &&
    (match t.kind with
     | .format (some k) => k == t.nbits
     | _ => true)

/-! ## arguments -/

/-- total version of `instArg` -/
def instArgT (fields : List String) (ps : List (QParam P)) (dflt : Arg P) : TArg → Arg P
  | .lit n => .lit n
  | .pi => .pi
  | .param f => ((fieldParam fields ps f).map showParam).getD dflt
  | .neg e => .neg (instArgT fields ps dflt e)
  | .div a b => .div (instArgT fields ps dflt a) (instArgT fields ps dflt b)

theorem fieldParam_some (fields : List String) (ps : List (QParam P)) (f : String)
    (hl : ps.length = fields.length) (hf : fields.contains f = true) :
    ∃ p ∈ ps, fieldParam fields ps f = some p := by
  unfold fieldParam
  have hm : f ∈ fields := by simpa using hf
  cases hi : fields.idxOf? f with
  | none =>
    rw [List.idxOf?_eq_none_iff] at hi
    exact absurd hm hi
  | some i =>
    have hlt : i < fields.length := (List.idxOf?_eq_some_iff.1 hi).1
    have : i < ps.length := by omega
    exact ⟨ps[i], List.getElem_mem _, by simp [this]⟩

theorem instArg_eq (fields : List String) (ps : List (QParam P)) (dflt : Arg P) (hl : ps.length = fields.length)
    (e : TArg) (hk : paramsKnown fields e = true) : instArg fields ps e = some (instArgT fields ps dflt e) := by
  induction e with
  | lit n => rfl
  | pi => rfl
  | param f =>
    obtain ⟨p, _, hp⟩ := fieldParam_some fields ps f hl (by simpa [paramsKnown] using hk)
    simp [instArg, instArgT, hp]
  | neg e ih =>
    simp only [paramsKnown] at hk
    simp [instArg, instArgT, ih hk]
  | div a b iha ihb =>
    simp only [paramsKnown, Bool.and_eq_true] at hk
    simp [instArg, instArgT, iha hk.1, ihb hk.2]

theorem instArgT_closed (fields : List String) (ps : List (QParam P)) (hl : ps.length = fields.length)
    (hd : ∀ p ∈ ps, p.isDirect = true) (e : TArg) (hk : paramsKnown fields e = true) :
    idents (instArgT fields ps (.lit 0) e).skeleton = [] := by
  induction e with
  | lit n => rfl
  | pi => rfl
  | param f =>
    obtain ⟨p, hp, he⟩ := fieldParam_some fields ps f hl (by simpa [paramsKnown] using hk)
    have := hd p hp
    cases p with
    | direct v => simp [instArgT, he, showParam, Arg.skeleton, idents]
    | ref n v => simp [QParam.isDirect] at this
  | neg e ih =>
    simp only [paramsKnown] at hk
    simp [instArgT, Arg.skeleton, idents, ih hk]
  | div a b iha ihb =>
    simp only [paramsKnown, Bool.and_eq_true] at hk
    simp [instArgT, Arg.skeleton, idents, iha hk.1, ihb hk.2]

/-! ## a library gate -/

theorem nodup_map_getD (bits is : List Nat) (hn : bits.Nodup) (hi : is.Nodup) (hlt : ∀ i ∈ is, i < bits.length) :
    (is.map fun k => bits.getD k 0).Nodup := by
  refine List.Nodup.map_on ?_ hi
  intro x hx y hy hxy
  have h1 := hlt x hx
  have h2 := hlt y hy
  simp only [List.getD_eq_getElem?_getD, List.getElem?_eq_getElem h1, List.getElem?_eq_getElem h2,
    Option.getD_some] at hxy
  exact (List.Nodup.getElem_inj_iff hn).1 hxy

/-- the qubit arguments of statement `s` of template `t` on `bits` -/
def qubitsOf (t : GateTpl) (s : TStmt) (bits : List Nat) : List Nat :=
  match t.kind with
  | .plain => bits
  | _ => s.qargs.map fun k => bits.getD k 0

/-- the chunk statement `s` becomes -/
def chunkOf (t : GateTpl) (ps : List (QParam P)) (bits : List Nat) (s : TStmt) : Chunk P :=
  ⟨[], some ⟨s.name, s.args.map (instArgT t.params ps (.lit 0)), (qubitsOf t s bits).map (QRef.bit "q")⟩⟩

theorem goodStmt_args (t : GateTpl) (s : TStmt) (h : goodStmt t s = true) :
    ∀ e ∈ s.args, paramsKnown t.params e = true := by
  unfold goodStmt at h
  split at h
  · simp only [Bool.and_eq_true, List.all_eq_true] at h
    exact h.1.2
  · cases h

theorem goodStmt_qargs (t : GateTpl) (s : TStmt) (h : goodStmt t s = true) (hk : t.kind ≠ .plain) :
    s.qargs.Nodup ∧ ∀ k ∈ s.qargs, k < t.nbits := by
  unfold goodStmt at h
  cases hs : signature true s.name with
  | none => rw [hs] at h; cases h
  | some nk =>
    obtain ⟨np, k⟩ := nk
    rw [hs] at h
    cases hkind : t.kind with
    | plain => exact absurd hkind hk
    | format c =>
      rw [hkind] at h
      simp only [Bool.and_eq_true, decide_eq_true_eq, List.all_eq_true] at h
      exact ⟨h.2.1.2, h.2.2⟩
    | template =>
      rw [hkind] at h
      simp only [Bool.and_eq_true, decide_eq_true_eq, List.all_eq_true] at h
      exact ⟨h.2.1.2, h.2.2⟩

theorem args_mapM (t : GateTpl) (ps : List (QParam P)) (hps : ps.length = t.params.length) (s : TStmt)
    (hs : goodStmt t s = true) :
    s.args.mapM (instArg t.params ps) = some (s.args.map (instArgT t.params ps (.lit 0))) :=
  mapM_eq_map _ _ _ fun e he => instArg_eq t.params ps (.lit 0) hps e (goodStmt_args t s hs e he)

theorem bits_mapM (nq : Nat) (bits : List Nat) (hb : ∀ b ∈ bits, b < nq) :
    bits.mapM (fun b => (qbitNames nq)[b]?) = some (bits.map (QRef.bit "q")) :=
  mapM_eq_map _ _ _ fun b hbm => qbitNames_get nq b (hb b hbm)

theorem libExport_eq (t : GateTpl) (hg : goodTpl t = true) (ps : List (QParam P))
    (hps : ps.length = t.params.length) (nq : Nat) (bits : List Nat) (hb : ∀ b ∈ bits, b < nq)
    (hl : bits.length = t.nbits) :
    libExport t ps (qbitNames nq) bits = .ok (t.stmts.map (chunkOf t ps bits)) := by
  simp only [goodTpl, Bool.and_eq_true, List.all_eq_true] at hg
  obtain ⟨hst, hck⟩ := hg
  unfold libExport
  simp only [hps, ne_eq, not_true_eq_false, if_false]
  cases hk : t.kind with
  | format check =>
    have hgo : libExport.go t ps (qbitNames nq) bits = .ok (t.stmts.map (chunkOf t ps bits)) := by
      unfold libExport.go
      rw [mapM_eq_map _ (chunkOf t ps bits)]
      · rfl
      · intro s hs
        have hq := goodStmt_qargs t s (hst s hs) (by rw [hk]; intro h; cases h)
        rw [args_mapM t ps hps s (hst s hs)]
        have : s.qargs.mapM (nameOf (qbitNames nq) bits) =
            some (s.qargs.map fun k => QRef.bit "q" (bits.getD k 0)) := by
          refine mapM_eq_map _ _ _ fun k hkm => ?_
          have hlt : k < bits.length := by rw [hl]; exact hq.2 k hkm
          simp only [nameOf, List.getElem?_eq_getElem hlt]
          rw [qbitNames_get nq _ (hb _ (List.getElem_mem _))]
          simp [List.getD_eq_getElem?_getD, List.getElem?_eq_getElem hlt]
        rw [this]
        simp [chunkOf, qubitsOf, hk, List.map_map]
    cases check with
    | none => simpa using hgo
    | some k =>
      rw [hk] at hck
      simp only [beq_iff_eq] at hck
      simp only [hl, hck, ne_eq, not_true_eq_false, if_false]
      exact hgo
  | template =>
    simp only [bits_mapM nq bits hb]
    rw [mapM_eq_map _ (chunkOf t ps bits)]
    · rfl
    · intro s hs
      have hq := goodStmt_qargs t s (hst s hs) (by rw [hk]; intro h; cases h)
      rw [args_mapM t ps hps s (hst s hs)]
      simp only [chunkOf, qubitsOf, hk, List.map_map, Option.pure_def, Option.bind_eq_bind, Option.bind_some,
        Option.some.injEq, Chunk.mk.injEq, App.mk.injEq, true_and]
      refine List.map_congr_left fun k hkm => ?_
      have hlt : k < bits.length := by rw [hl]; exact hq.2 k hkm
      simp [List.getD_eq_getElem?_getD, List.getElem?_eq_getElem hlt, hlt]
  | plain =>
    simp only [bits_mapM nq bits hb]
    rw [mapM_eq_map _ (chunkOf t ps bits)]
    · rfl
    · intro s hs
      rw [args_mapM t ps hps s (hst s hs)]
      simp [chunkOf, qubitsOf, hk]

theorem goodStmt_sig (t : GateTpl) (s : TStmt) (h : goodStmt t s = true) :
    ∃ np k, signature true s.name = some (np, k) ∧ s.args.length = np ∧
      (t.kind = .plain → t.nbits = k) ∧ (t.kind ≠ .plain → s.qargs.length = k) := by
  unfold goodStmt at h
  cases hs : signature true s.name with
  | none => rw [hs] at h; cases h
  | some nk =>
    obtain ⟨np, k⟩ := nk
    rw [hs] at h
    refine ⟨np, k, rfl, ?_⟩
    cases hkind : t.kind with
    | plain =>
      rw [hkind] at h
      simp only [Bool.and_eq_true, beq_iff_eq] at h
      exact ⟨h.1.1, ⟨fun _ => h.2, fun hne => absurd rfl hne⟩⟩
    | format c =>
      rw [hkind] at h
      simp only [Bool.and_eq_true, beq_iff_eq] at h
      exact ⟨h.1.1, ⟨fun he => TKind.noConfusion he, fun _ => h.2.1.1⟩⟩
    | template =>
      rw [hkind] at h
      simp only [Bool.and_eq_true, beq_iff_eq] at h
      exact ⟨h.1.1, ⟨fun he => TKind.noConfusion he, fun _ => h.2.1.1⟩⟩

theorem chunkOf_ok (t : GateTpl) (hg : goodTpl t = true) (ps : List (QParam P))
    (hps : ps.length = t.params.length) (hd : ∀ p ∈ ps, p.isDirect = true) (nq : Nat) (bits : List Nat)
    (hn : bits.Nodup) (hb : ∀ b ∈ bits, b < nq) (hl : bits.length = t.nbits) (s : TStmt) (hs : s ∈ t.stmts) :
    (chunkOf t ps bits s).conds = [] ∧ ∃ a, (chunkOf t ps bits s).app = some a ∧ AppOK nq a := by
  have hg' := hg
  simp only [goodTpl, Bool.and_eq_true, List.all_eq_true] at hg'
  have hst := hg'.1 s hs
  obtain ⟨np, k, hsig, hnp, hpl, hnpl⟩ := goodStmt_sig t s hst
  refine ⟨rfl, _, rfl, ?_, ?_, ?_⟩
  · refine ⟨np, k, hsig, by simp [hnp], ?_⟩
    simp only [List.length_map, qubitsOf]
    cases hk : t.kind with
    | plain => simp [← hpl hk, hl]
    | format c => simp [hnpl (by rw [hk]; intro h; cases h)]
    | template => simp [hnpl (by rw [hk]; intro h; cases h)]
  · intro e he
    obtain ⟨e0, he0, rfl⟩ := List.mem_map.1 he
    exact instArgT_closed t.params ps hps hd e0 (goodStmt_args t s hst e0 he0)
  · refine ⟨qubitsOf t s bits, rfl, ?_, ?_⟩
    · unfold qubitsOf
      cases hk : t.kind with
      | plain => exact hn
      | format c =>
        have hq := goodStmt_qargs t s hst (by rw [hk]; intro h; cases h)
        exact nodup_map_getD bits s.qargs hn hq.1 fun i hi => by rw [hl]; exact hq.2 i hi
      | template =>
        have hq := goodStmt_qargs t s hst (by rw [hk]; intro h; cases h)
        exact nodup_map_getD bits s.qargs hn hq.1 fun i hi => by rw [hl]; exact hq.2 i hi
    · intro i hi
      unfold qubitsOf at hi
      have key : ∀ ks : List Nat, (∀ k ∈ ks, k < bits.length) → i ∈ ks.map (fun k => bits.getD k 0) → i < nq := by
        intro ks hks him
        obtain ⟨k, hk1, rfl⟩ := List.mem_map.1 him
        have hlt := hks k hk1
        simp only [List.getD_eq_getElem?_getD, List.getElem?_eq_getElem hlt, Option.getD_some]
        exact hb _ (List.getElem_mem _)
      cases hk : t.kind with
      | plain => rw [hk] at hi; exact hb i hi
      | format c =>
        rw [hk] at hi
        have hq := goodStmt_qargs t s hst (by rw [hk]; intro h; cases h)
        exact key s.qargs (fun k hk1 => by rw [hl]; exact hq.2 k hk1) hi
      | template =>
        rw [hk] at hi
        have hq := goodStmt_qargs t s hst (by rw [hk]; intro h; cases h)
        exact key s.qargs (fun k hk1 => by rw [hl]; exact hq.2 k hk1) hi

/-! ## gates -/

def QOps.nonEmpty : QOps P → Bool
  | .nil => false
  | .cons _ _ _ => true

mutual
/-- every leaf is a library gate with a good template and direct parameters; composites and executed loops are
not empty; sub-gates sit on distinct local bits in range, with the right arity -/
def QGate.sound (tbl : List GateTpl) : QGate P → Bool
  | .lib name ps =>
    match lookupTpl tbl name with
    | some t => goodTpl t && ps.length == t.params.length && ps.all QParam.isDirect
    | none => false
  | .ctrl _ => false
  | .kron a b => a.sound tbl && b.sound tbl
  | .composite _ n ops => ops.nonEmpty && ops.sound tbl n
  | .loop _ iters _ n body => decide (0 < iters) && body.nonEmpty && body.sound tbl n
def QOps.sound (tbl : List GateTpl) (n : Nat) : QOps P → Bool
  | .nil => true
  | .cons g sub rest =>
    g.sound tbl && sub.length == nbits tbl g && decide sub.Nodup && sub.all (· < n) && rest.sound tbl n
end

theorem withCond_ok (nq : Nat) (cond : Option Nat) (cs : List (Chunk P))
    (h : ∀ c ∈ cs, c.conds = [] ∧ ∃ a, c.app = some a ∧ AppOK nq a) : ∀ c ∈ withCond cond cs, ChunkOK nq c := by
  intro c hc
  cases cond with
  | none =>
    obtain ⟨h1, h2⟩ := h c hc
    exact ⟨by simp [h1], h2⟩
  | some k =>
    cases cs with
    | nil => cases hc
    | cons c0 rest =>
      simp only [withCond, prefixCond, List.mem_cons] at hc
      rcases hc with rfl | hc
      · obtain ⟨h1, h2⟩ := h c0 (List.mem_cons_self ..)
        exact ⟨by simp [h1], h2⟩
      · obtain ⟨h1, h2⟩ := h c (List.mem_cons_of_mem _ hc)
        exact ⟨by simp [h1], h2⟩

theorem mem_repeatAppend {α} (xs : List α) (n : Nat) (x : α) (h : x ∈ repeatAppend xs n) : x ∈ xs := by
  induction n with
  | zero => cases h
  | succ n ih =>
    simp only [repeatAppend, List.mem_append] at h
    rcases h with h | h
    · exact h
    · exact ih h

end Q1t.OpenQasm

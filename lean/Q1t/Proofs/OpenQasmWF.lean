import Mathlib.Data.List.Nodup
import Q1t.Proofs.OpenQasmStruct
/-!
C11: `export_wellformed_partial` — outside the listed defect classes every exported line is a statement of the
language over `qelib1` names with the right numbers of parameters and arguments, closed parameter expressions,
declared registers, indices in range and distinct qubits (`Spec.OQ2.wfProblem = none`).
-/
namespace Q1t.OpenQasm
open Q1t.Spec.OQ2

variable {P : Type}

/-! ## helpers on `Option`-`mapM` -/

theorem mapM_eq_map {α β} (f : α → Option β) (g : α → β) (l : List α) (h : ∀ a ∈ l, f a = some (g a)) :
    l.mapM f = some (l.map g) := by
  induction l with
  | nil => rfl
  | cons a l ih =>
    rw [List.mapM_cons, h a (List.mem_cons_self ..), ih fun b hb => h b (List.mem_cons_of_mem _ hb)]
    rfl

theorem qbitNames_get (nq b : Nat) (hb : b < nq) : (qbitNames nq)[b]? = some (QRef.bit "q" b) := by
  simp [qbitNames, hb]

theorem cbitNames_get (nc b : Nat) (hb : b < nc) : (cbitNames nc)[b]? = some (QRef.bit "b" b) := by
  simp [cbitNames, hb]

/-! ## what a good statement looks like -/

def QParam.isDirect : QParam P → Bool
  | .direct _ => true
  | .ref _ _ => false

/-- a gate application acceptable on the register `q[nq]` -/
structure AppOK (nq : Nat) (a : App P) : Prop where
  sig : ∃ np k, signature true a.name = some (np, k) ∧ a.args.length = np ∧ a.qargs.length = k
  closed : ∀ e ∈ a.args, idents e.skeleton = []
  qubits : ∃ is : List Nat, a.qargs = is.map (QRef.bit "q") ∧ is.Nodup ∧ ∀ i ∈ is, i < nq

def ChunkOK (nq : Nat) (c : Chunk P) : Prop := c.conds.length ≤ 1 ∧ ∃ a, c.app = some a ∧ AppOK nq a

/-- a template statement whose name, arities and holes fit `qelib1` -/
def goodStmt (t : GateTpl) (s : TStmt) : Bool :=
  match signature true s.name with
  | some (np, k) =>
    s.args.length == np && s.args.all (paramsKnown t.params) &&
      (match t.kind with
       | .plain => t.nbits == k
       | _ => s.qargs.length == k && decide s.qargs.Nodup && s.qargs.all (· < t.nbits))
  | none => false

def goodTpl (t : GateTpl) : Bool := t.stmts.all (goodStmt t)

/-! ## arguments -/

/-- total version of `instArg` -/
def instArgT (fields : List String) (ps : List (QParam P)) (dflt : Arg P) : TArg → Arg P
  | .lit n => .lit n
  | .pi => .pi
  | .param f => ((fieldParam fields ps f).map showParam).getD dflt
  | .neg e => .neg (instArgT fields ps dflt e)
  | .div a b => .div (instArgT fields ps dflt a) (instArgT fields ps dflt b)

theorem fieldParam_some (fields : List String) (ps : List (QParam P)) (f : String)
    (hl : ps.length = fields.length) (hf : fields.contains f = true) :
    ∃ p ∈ ps, fieldParam fields ps f = some p := by
  unfold fieldParam
  have hm : f ∈ fields := by simpa using hf
  cases hi : fields.idxOf? f with
  | none =>
    rw [List.idxOf?_eq_none_iff] at hi
    exact absurd hm hi
  | some i =>
    have hlt : i < fields.length := by
      have := List.idxOf?_eq_some_iff.1 hi
      omega
    have : i < ps.length := by omega
    exact ⟨ps[i], List.getElem_mem _, by simp [this]⟩

theorem instArg_eq (fields : List String) (ps : List (QParam P)) (dflt : Arg P) (hl : ps.length = fields.length)
    (e : TArg) (hk : paramsKnown fields e = true) : instArg fields ps e = some (instArgT fields ps dflt e) := by
  induction e with
  | lit n => rfl
  | pi => rfl
  | param f =>
    obtain ⟨p, _, hp⟩ := fieldParam_some fields ps f hl (by simpa [paramsKnown] using hk)
    simp [instArg, instArgT, hp]
  | neg e ih =>
    simp only [paramsKnown] at hk
    simp [instArg, instArgT, ih hk]
  | div a b iha ihb =>
    simp only [paramsKnown, Bool.and_eq_true] at hk
    simp [instArg, instArgT, iha hk.1, ihb hk.2]

theorem instArgT_closed (fields : List String) (ps : List (QParam P)) (hl : ps.length = fields.length)
    (hd : ∀ p ∈ ps, p.isDirect = true) (e : TArg) (hk : paramsKnown fields e = true) :
    idents (instArgT fields ps (.lit 0) e).skeleton = [] := by
  induction e with
  | lit n => rfl
  | pi => rfl
  | param f =>
    obtain ⟨p, hp, he⟩ := fieldParam_some fields ps f hl (by simpa [paramsKnown] using hk)
    have := hd p hp
    cases p with
    | direct v => simp [instArgT, he, showParam, Arg.skeleton, idents]
    | ref n v => simp [QParam.isDirect] at this
  | neg e ih =>
    simp only [paramsKnown] at hk
    simp [instArgT, Arg.skeleton, idents, ih hk]
  | div a b iha ihb =>
    simp only [paramsKnown, Bool.and_eq_true] at hk
    simp [instArgT, Arg.skeleton, idents, iha hk.1, ihb hk.2]

end Q1t.OpenQasm

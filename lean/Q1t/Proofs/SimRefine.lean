import Q1t.Proofs.SimBitsAll
/-!
C02: one operation of `do_execute_with` refines one step of the forced replay (`Spec.replayOp`), shot by
shot.  For every shot `i` whose simulator state `col` is related (`Rel`: equal up to a scalar, unit norm)
to a reference state `ψ`, after `execOp` the shot's new state is related to a candidate of
`replayOp op ψ w w'`, `w`/`w'` being the shot's register word before/after the operation.

This file: gates, conditional gates, barrier, single-qubit measure / peek in the bases Z, X, Y, reset.
-/
set_option linter.unusedSectionVars false
namespace Q1t.Sim
open Q1t Q1t.Spec Prog

section lists
variable {σ τ : Type}

theorem mapM_option_getElem? {f : σ → Option τ} : ∀ (l : List σ) (r : List τ), l.mapM f = some r →
    ∀ (i : Nat) (x : σ), l[i]? = some x → ∃ y, f x = some y ∧ r[i]? = some y := by
  intro l
  induction l with
  | nil => intro r _ i x hx; simp at hx
  | cons a l ih =>
    intro r h i x hx
    simp only [List.mapM_cons] at h
    cases ha : f a with
    | none => simp [ha] at h
    | some y =>
      cases hl : l.mapM f with
      | none => simp [ha, hl] at h
      | some ys =>
        simp [ha, hl] at h
        subst h
        cases i with
        | zero =>
          simp only [List.getElem?_cons_zero, Option.some.injEq] at hx
          subst hx
          exact ⟨y, ha, by simp⟩
        | succ i =>
          simp only [List.getElem?_cons_succ] at hx ⊢
          exact ih ys hl i x hx

end lists

section
variable {α P : Type} [CommRing α] [Amp α P] [SimAmp α]
variable {n : Nat} {valid : GateTerm P → List Nat → Prop} {nz : α → Prop}

/-- the norm test handed to the reference semantics accepts every vector whose squared norm is invertible (for a
field: every non-zero vector).  The exact test "`normSqSum v ≠ 0`" of a field satisfies it; the laxer the test,
the weaker the statement "the record is a candidate of `Spec.replay`", so instantiate with the exact one. -/
def NonzeroOK (nonzero : List α → Bool) : Prop :=
  ∀ v : List α, (∃ u : α, normSqSum v * u = 1) → nonzero v = true

/-- the reference state of a related pair has an invertible squared norm: the replay has non-zero weight -/
theorem Rel.weight (ha : LawfulAmp α P) (hs : LawfulSim α P nz) {col ψ : List α} (h : Rel n col ψ) :
    ∃ u : α, normSqSum ψ * u = 1 := by
  obtain ⟨a, _, _, _, h3⟩ := h.unit ha hs
  exact ⟨a * Amp.conj P a, by rw [mul_comm]; exact h3⟩

theorem Rel.nonzero (ha : LawfulAmp α P) (hs : LawfulSim α P nz) {nonzero : List α → Bool}
    (hnzb : NonzeroOK nonzero) {col ψ : List α} (h : Rel n col ψ) : nonzero ψ = true :=
  hnzb ψ (h.weight ha hs)

variable {sc : List α → Nat → Prop}

/-- **one operation refines one step of the forced replay, shot by shot**: for every shot `i` whose state `col`
is related to a reference state `ψ` and whose (64-bit) register word is `w`, the state `col'` and word `w'` of
the shot after the operation are explained by a candidate `(φ, w')` of `Spec.replayOp op ψ w w'` — the
reference semantics of `op` with the outcome forced to what was stored — with `col'` related to `φ` -/
def StepRefines (n : Nat) (nonzero : List α → Bool) (op : COp P) (s : VecState α) (c : List Nat)
    (s' : VecState α) (c' : List Nat) : Prop :=
  ∀ (i : Nat) (col : List α) (w : Nat) (ψ : List α), (shotStates s)[i]? = some col → c[i]? = some w →
    w < 2 ^ 64 → Rel n col ψ →
    ∃ col' w' φ, (shotStates s')[i]? = some col' ∧ c'[i]? = some w' ∧ w' < 2 ^ 64 ∧
      (φ, w') ∈ replayOp n nonzero op ψ w w' ∧ Rel n col' φ

/-- the `(WFS, nrBits, nrShots)` part of the invariant -/
abbrev Shape (n N : Nat) (s : VecState α) : Prop := WFS s ∧ s.nrBits = n ∧ s.nrShots = N

/-- one `apply_gate` on a valid instance: shape kept, every shot hit by the embedded documented unitary -/
theorem gate_step (hsem : GateSemOK α n valid) {N : Nat} {g : GateTerm P} {bits : List Nat} (hv : valid g bits)
    {s s' : VecState α} (hi : Shape n N s) {sb : Nat → α → Nat → Prop} {d d' : List Draw}
    (hr : Runs sb sc (VecState.applyGate s g bits) d (.ok s') d') :
    Shape n N s' ∧ ∀ i : Nat, (shotStates s')[i]? = ((shotStates s)[i]?).map (gateOn (α := α) n g bits) := by
  obtain ⟨_, e2, e3, _, e5, e6⟩ := applyGate_shots hsem hv hi.2.1 hi.1 hr
  exact ⟨⟨e5, e2.trans hi.2.1, e3.trans hi.2.2⟩, fun i => by rw [e6, List.getElem?_map]⟩

theorem applyGate_nrBits {g : GateTerm P} {bits : List Nat} {s s' : VecState α}
    {sb : Nat → α → Nat → Prop} {d d' : List Draw}
    (hr : Runs sb sc (VecState.applyGate s g bits) d (.ok s') d') : s'.nrBits = s.nrBits := by
  obtain ⟨_, _, _, rfl⟩ := applyGate_runs hr
  rfl

/-! ### gate, conditional gate, barrier -/

theorem refine_gate (hsem : GateSemOK α n valid) {nonzero : List α → Bool} {N : Nat}
    {s : VecState α} {c : List Nat} {g : GateTerm P} {bits : List Nat} (hv : valid g bits)
    (hwf : WFState n N s c) {sb : Nat → α → Nat → Prop} {ds ds' : List Draw} {s' : VecState α} {c' : List Nat}
    (h : Runs sb sc (execOp (vecBackend (α := α) (P := P)) s c (.gate g bits)) ds (.ok (s', c')) ds') :
    StepRefines n nonzero ((.gate g bits) : COp P) s c s' c' := by
  intro i col w ψ hcol hw hwb hrel
  simp only [execOp, vecBackend] at h
  obtain ⟨s1, d1, h1, h2⟩ := runs_bind_ok _ _ h
  obtain ⟨e, _⟩ := runs_pure_iff.mp h2
  simp only [Except.ok.injEq, Prod.mk.injEq] at e
  obtain ⟨rfl, rfl⟩ := e
  obtain ⟨_, hss⟩ := gate_step hsem hv ⟨hwf.wfs, hwf.nrBits, hwf.nrShots⟩ h1
  refine ⟨gateOn n g bits col, w, gateOn n g bits ψ, by rw [hss, hcol]; rfl, hw, hwb, ?_, hrel.gate hsem hv⟩
  simp [replayOp]

theorem refine_barrier {nonzero : List α → Bool} {s : VecState α} {c : List Nat} {bits : List Nat}
    {sb : Nat → α → Nat → Prop} {ds ds' : List Draw} {s' : VecState α} {c' : List Nat}
    (h : Runs sb sc (execOp (vecBackend (α := α) (P := P)) s c (.barrier bits)) ds (.ok (s', c')) ds') :
    StepRefines n nonzero ((.barrier bits) : COp P) s c s' c' := by
  intro i col w ψ hcol hw hwb hrel
  simp only [execOp] at h
  obtain ⟨e, _⟩ := runs_pure_iff.mp h
  simp only [Except.ok.injEq, Prod.mk.injEq] at e
  obtain ⟨rfl, rfl⟩ := e
  exact ⟨col, w, ψ, hcol, hw, hwb, by simp [replayOp], hrel⟩

theorem refine_cond (hsem : GateSemOK α n valid) {nonzero : List α → Bool} {N : Nat}
    {s : VecState α} {c : List Nat} {control : List Nat} {target : Nat} {g : GateTerm P} {bits : List Nat}
    (hv : valid g bits) (hwf : WFState n N s c) {sb : Nat → α → Nat → Prop} {ds ds' : List Draw}
    {s' : VecState α} {c' : List Nat}
    (h : Runs sb sc (execOp (vecBackend (α := α) (P := P)) s c (.cond control target g bits)) ds (.ok (s', c')) ds') :
    StepRefines n nonzero ((.cond control target g bits) : COp P) s c s' c' := by
  intro i col w ψ hcol hw hwb hrel
  simp only [execOp, vecBackend] at h
  split at h
  · exact absurd h runs_panic_ok
  rename_i ws hws
  obtain ⟨s1, d1, h1, h2⟩ := runs_bind_ok _ _ h
  obtain ⟨e, _⟩ := runs_pure_iff.mp h2
  simp only [Except.ok.injEq, Prod.mk.injEq] at e
  obtain ⟨rfl, rfl⟩ := e
  obtain ⟨_, _, _, _, _, hss⟩ := applyConditional_shots hsem hv hwf.nrBits hwf.wfs h1
  obtain ⟨cw, hcw, hwsi⟩ := mapM_option_getElem? _ _ hws i w hw
  have hsi : (shotStates s')[i]? = some (if cw = target then gateOn n g bits col else col) := by
    rw [hss, List.getElem?_zipWith, hcol, List.getElem?_map, hwsi]
    by_cases ht : cw = target <;> simp [ht]
  refine ⟨_, w, if cw = target then gateOn n g bits ψ else ψ, hsi, hw, hwb, ?_, ?_⟩
  · simp [replayOp, hcw]
  · by_cases ht : cw = target
    · simp only [ht, if_true]; exact hrel.gate hsem hv
    · simp only [ht, if_false]; exact hrel

/-! ### single-qubit measurement -/

/-- per-shot reading of `measure_into` on a state of the right shape, with the reference state carried along -/
theorem measure_core (ha : LawfulAmp α P) (hs : LawfulSim α P nz) {N : Nat} {st st' : VecState α} {c r : List Nat}
    {q cb : Nat} (hi : Shape n N st) (hc : c.length = N) {d d' : List Draw}
    (hr : Runs (suppBin nz) sc (VecState.measureInto st q cb c) d (.ok (st', r)) d') :
    q < n ∧ cb < 64 ∧ Shape n N st' ∧ r.length = N ∧
    ∀ (i : Nat) (col : List α) (w : Nat) (ψ : List α), (shotStates st)[i]? = some col → c[i]? = some w → Rel n col ψ →
      ∃ o, r[i]? = some (setBitTo w cb o) ∧ (shotStates st')[i]? = some (collapseShot n q col o) ∧
        Rel n (collapseShot n q col o) (project n q o ψ) := by
  obtain ⟨hw, hn, hN⟩ := hi
  obtain ⟨hq, hcb, e1, e2, hwf', hlen, n0s, hshot⟩ := measure_shot hs hw (hc.trans hN.symm) hr
  rw [hn] at hq hshot
  refine ⟨hq, hcb, ⟨hwf', e1.trans hn, e2.trans hN⟩, hlen.trans hc, ?_⟩
  intro i col w ψ hcol hwi hrel
  obtain ⟨o, _, h2, h3, h4⟩ := hshot i w col hwi hcol
  exact ⟨o, h2, h3, hrel.collapse ha hs q o h4⟩

theorem mem_replayOp_measure (nonzero : List α → Bool) (q cb : Nat) (b : Basis) (ψ : List α) (w : Nat) (o : Bool)
    (hcb : cb < 64) :
    (measureTo (P := P) n q b o ψ, setBitTo w cb o) ∈
      replayOp (P := P) n nonzero (.measure q cb b) ψ w (setBitTo w cb o) := by
  simp [replayOp, bitOf_setBitTo _ _ _ hcb, writeBit]

theorem refine_measure (ha : LawfulAmp α P) (hs : LawfulSim α P nz) (hsem : GateSemOK α n valid)
    {nonzero : List α → Bool} {N : Nat} {s : VecState α} {c : List Nat} {q cb : Nat} {b : Basis}
    (hwf : WFState n N s c) {ds ds' : List Draw} {s' : VecState α} {c' : List Nat}
    (h : Runs (suppBin nz) sc (execOp (vecBackend (α := α) (P := P)) s c (.measure q cb b)) ds (.ok (s', c')) ds') :
    StepRefines n nonzero ((.measure q cb b) : COp P) s c s' c' := by
  intro i col w ψ hcol hw hwb hrel
  simp only [execOp, vecBackend] at h
  have hb := withBasis1_runs _ h
  dsimp only at hb
  have hi0 : Shape n N s := ⟨hwf.wfs, hwf.nrBits, hwf.nrShots⟩
  cases b with
  | Z =>
    obtain ⟨_, hcb, _, _, hshot⟩ := measure_core ha hs hi0 hwf.reg hb
    obtain ⟨o, h1, h2, h3⟩ := hshot i col w ψ hcol hw hrel
    exact ⟨_, _, _, h2, h1, (setBitTo_spec o hwb hcb).1, mem_replayOp_measure nonzero q cb .Z ψ w o hcb, h3⟩
  | X =>
    obtain ⟨s1, d1, s2, d2, h1, h2, h3⟩ := hb
    have hq : q < n := by
      have := measureInto_lt h2
      rw [applyGate_nrBits h1, hwf.nrBits] at this; exact this
    have hH := (hsem.basis q hq).1
    obtain ⟨i1, ss1⟩ := gate_step hsem hH hi0 h1
    obtain ⟨_, hcb, i2, _, hshot⟩ := measure_core ha hs i1 hwf.reg h2
    obtain ⟨_, ss3⟩ := gate_step hsem hH i2 h3
    obtain ⟨o, e1, e2, e3⟩ := hshot i _ w _ (by rw [ss1, hcol]; rfl) hw (hrel.gate hsem hH)
    exact ⟨_, _, _, by rw [ss3, e2]; rfl, e1, (setBitTo_spec o hwb hcb).1, mem_replayOp_measure nonzero q cb .X ψ w o hcb,
      e3.gate hsem hH⟩
  | Y =>
    obtain ⟨sa, da, s1, d1, s2, d2, sz, dz, ha', h1, h2, h3, h4⟩ := hb
    have hq : q < n := by
      have := measureInto_lt h2
      rw [applyGate_nrBits h1, applyGate_nrBits ha', hwf.nrBits] at this; exact this
    obtain ⟨hH, hS, hSd, _⟩ := hsem.basis q hq
    obtain ⟨ia, ssa⟩ := gate_step hsem hSd hi0 ha'
    obtain ⟨i1, ss1⟩ := gate_step hsem hH ia h1
    obtain ⟨_, hcb, i2, _, hshot⟩ := measure_core ha hs i1 hwf.reg h2
    obtain ⟨iz, ss3⟩ := gate_step hsem hH i2 h3
    obtain ⟨_, ss4⟩ := gate_step hsem hS iz h4
    obtain ⟨o, e1, e2, e3⟩ := hshot i _ w _ (by rw [ss1, ssa, hcol]; rfl) hw ((hrel.gate hsem hSd).gate hsem hH)
    exact ⟨_, _, _, by rw [ss4, ss3, e2]; rfl, e1, (setBitTo_spec o hwb hcb).1, mem_replayOp_measure nonzero q cb .Y ψ w o hcb,
      (e3.gate hsem hH).gate hsem hS⟩

/-! ### single-qubit peek -/

theorem peek_core (ha : LawfulAmp α P) (hs : LawfulSim α P nz) {N : Nat} {st : VecState α} {c r : List Nat}
    {q cb : Nat} (hi : Shape n N st) (hc : c.length = N) {d d' : List Draw}
    (hr : Runs (suppBin nz) sc (VecState.peekInto st q cb c) d (.ok r) d') :
    q < n ∧ cb < 64 ∧ r.length = N ∧
    ∀ (i : Nat) (col : List α) (w : Nat) (ψ : List α), (shotStates st)[i]? = some col → c[i]? = some w → Rel n col ψ →
      ∃ o, r[i]? = some (setBitTo w cb o) ∧ Rel n (collapseShot n q col o) (project n q o ψ) := by
  obtain ⟨hw, hn, hN⟩ := hi
  obtain ⟨hq, hcb, hlen, n0s, hshot⟩ := peek_shot hs hw (hc.trans hN.symm) hr
  rw [hn] at hq hshot
  refine ⟨hq, hcb, hlen.trans hc, ?_⟩
  intro i col w ψ hcol hwi hrel
  obtain ⟨o, _, h2, h4⟩ := hshot i w col hwi hcol
  exact ⟨o, h2, hrel.collapse ha hs q o h4⟩

theorem mem_replayOp_peek (nonzero : List α → Bool) (q cb : Nat) (b : Basis) (ψ : List α) (w : Nat) (o : Bool)
    (hcb : cb < 64) (hnz : nonzero (measureTo (P := P) n q b o ψ) = true) :
    (ψ, setBitTo w cb o) ∈ replayOp (P := P) n nonzero (.peek q cb b) ψ w (setBitTo w cb o) := by
  simp [replayOp, bitOf_setBitTo _ _ _ hcb, writeBit, hnz]

/-- the body of a peek returns the state it was given -/
theorem peek_body {st st' : VecState α} {c r : List Nat} {q cb : Nat}
    {sb : Nat → α → Nat → Prop} {d d' : List Draw}
    (hr : Runs sb sc ((VecState.peekInto st q cb c).bind fun r => Prog.pure (st, r)) d (.ok (st', r)) d') :
    st' = st ∧ ∃ d1, Runs sb sc (VecState.peekInto st q cb c) d (.ok r) d1 := by
  obtain ⟨r1, d1, h1, h2⟩ := runs_bind_ok _ _ hr
  obtain ⟨e, _⟩ := runs_pure_iff.mp h2
  simp only [Except.ok.injEq, Prod.mk.injEq] at e
  obtain ⟨rfl, rfl⟩ := e
  exact ⟨rfl, d1, h1⟩

theorem refine_peek (ha : LawfulAmp α P) (hs : LawfulSim α P nz) (hsem : GateSemOK α n valid)
    {nonzero : List α → Bool} (hnzb : NonzeroOK nonzero) {N : Nat} {s : VecState α} {c : List Nat}
    {q cb : Nat} {b : Basis}
    (hwf : WFState n N s c) {ds ds' : List Draw} {s' : VecState α} {c' : List Nat}
    (h : Runs (suppBin nz) sc (execOp (vecBackend (α := α) (P := P)) s c (.peek q cb b)) ds (.ok (s', c')) ds') :
    StepRefines n nonzero ((.peek q cb b) : COp P) s c s' c' := by
  intro i col w ψ hcol hw hwb hrel
  simp only [execOp, vecBackend] at h
  have hb := withBasis1_runs _ h
  dsimp only at hb
  have hi0 : Shape n N s := ⟨hwf.wfs, hwf.nrBits, hwf.nrShots⟩
  have hcl : col.length = 2 ^ n := hrel.length
  cases b with
  | Z =>
    obtain ⟨rfl, d1, hp⟩ := peek_body hb
    obtain ⟨_, hcb, _, hshot⟩ := peek_core ha hs hi0 hwf.reg hp
    obtain ⟨o, h1, h3⟩ := hshot i col w ψ hcol hw hrel
    exact ⟨col, _, ψ, hcol, h1, (setBitTo_spec o hwb hcb).1,
      mem_replayOp_peek nonzero q cb .Z ψ w o hcb (h3.nonzero ha hs hnzb), hrel⟩
  | X =>
    obtain ⟨s1, d1, s2, d2, h1, h2, h3⟩ := hb
    obtain ⟨rfl, d3, hp⟩ := peek_body h2
    have hq : q < n := by
      have := (peekInto_runs _ _ _ _ hp).1
      rw [applyGate_nrBits h1, hwf.nrBits] at this; exact this
    have hH := (hsem.basis q hq).1
    obtain ⟨i1, ss1⟩ := gate_step hsem hH hi0 h1
    obtain ⟨_, hcb, _, hshot⟩ := peek_core ha hs i1 hwf.reg hp
    obtain ⟨_, ss3⟩ := gate_step hsem hH i1 h3
    obtain ⟨o, e1, e3⟩ := hshot i _ w _ (by rw [ss1, hcol]; rfl) hw (hrel.gate hsem hH)
    refine ⟨col, _, ψ, ?_, e1, (setBitTo_spec o hwb hcb).1,
      mem_replayOp_peek nonzero q cb .X ψ w o hcb ((e3.gate hsem hH).nonzero ha hs hnzb), hrel⟩
    rw [ss3, ss1, hcol]
    simp only [Option.map_some]
    rw [hsem.hh q hq col hcl]
  | Y =>
    obtain ⟨sa, da, s1, d1, s2, d2, sz, dz, ha', h1, h2, h3, h4⟩ := hb
    obtain ⟨rfl, d3, hp⟩ := peek_body h2
    have hq : q < n := by
      have := (peekInto_runs _ _ _ _ hp).1
      rw [applyGate_nrBits h1, applyGate_nrBits ha', hwf.nrBits] at this; exact this
    obtain ⟨hH, hS, hSd, _⟩ := hsem.basis q hq
    obtain ⟨ia, ssa⟩ := gate_step hsem hSd hi0 ha'
    obtain ⟨i1, ss1⟩ := gate_step hsem hH ia h1
    obtain ⟨_, hcb, _, hshot⟩ := peek_core ha hs i1 hwf.reg hp
    obtain ⟨iz, ss3⟩ := gate_step hsem hH i1 h3
    obtain ⟨_, ss4⟩ := gate_step hsem hS iz h4
    obtain ⟨o, e1, e3⟩ := hshot i _ w _ (by rw [ss1, ssa, hcol]; rfl) hw ((hrel.gate hsem hSd).gate hsem hH)
    refine ⟨col, _, ψ, ?_, e1, (setBitTo_spec o hwb hcb).1, mem_replayOp_peek nonzero q cb .Y ψ w o hcb
      (((e3.gate hsem hH).gate hsem hS).nonzero ha hs hnzb), hrel⟩
    rw [ss4, ss3, ss1, ssa, hcol]
    simp only [Option.map_some]
    rw [hsem.hh q hq _ (gateOn_length _ _ _ _), hsem.ssdg q hq col hcl]

/-! ### reset -/

theorem refine_reset (ha : LawfulAmp α P) (hs : LawfulSim α P nz) (hsem : GateSemOK α n valid)
    {nonzero : List α → Bool} {N : Nat} {s : VecState α} {c : List Nat} {q : Nat}
    (hwf : WFState n N s c) {ds ds' : List Draw} {s' : VecState α} {c' : List Nat}
    (h : Runs (suppBin nz) sc (execOp (vecBackend (α := α) (P := P)) s c (.reset q)) ds (.ok (s', c')) ds') :
    StepRefines n nonzero ((.reset q) : COp P) s c s' c' := by
  intro i col w ψ hcol hw hwb hrel
  simp only [execOp, vecBackend] at h
  obtain ⟨s1, d1, h1, h2⟩ := runs_bind_ok _ _ h
  obtain ⟨e, _⟩ := runs_pure_iff.mp h2
  simp only [Except.ok.injEq, Prod.mk.injEq] at e
  obtain ⟨rfl, rfl⟩ := e
  obtain ⟨hq, _, _, _, n0s, hshot⟩ := reset_shot hs hsem hwf.nrBits hwf.wfs h1
  obtain ⟨o, _, e2, e3⟩ := hshot i col hcol
  have hX := (hsem.basis q hq).2.2.2
  cases o with
  | false =>
    refine ⟨_, w, project n q false ψ, e2, hw, hwb, by simp [replayOp], ?_⟩
    simpa [resetShot] using hrel.collapse ha hs q false e3
  | true =>
    refine ⟨_, w, gateOn (P := P) n .X [q] (project n q true ψ), e2, hw, hwb, by simp [replayOp], ?_⟩
    simpa [resetShot] using (hrel.collapse ha hs q true e3).gate hsem hX

end
end Q1t.Sim

import Mathlib.Analysis.SpecialFunctions.Sqrt
import Q1t.Proofs.AmpComplex
import Q1t.Proofs.SimResetAll
/-!
C02: the intended model.  The complex numbers with `|a|² = a·ā`, `rsqrt w = 1/√w`, `min1 w = min(w, 1)` on real
weights satisfy `LawfulSim` relative to `nzC w` = "`w` is a positive real"; ℂ is a field, so `LocalWeights ℂ`,
and the exact norm test satisfies `NonzeroOK`.  Hence `shot_refinement` holds for complex amplitudes at all real
gate parameters (under `GateSemOK`; for the basis gates without it).  Noncomputable; only used in proofs.
-/
noncomputable section
namespace Q1t.SimComplex
open Q1t Q1t.Sim Q1t.AmpComplex

/-- `w` is a positive real -/
def nzC (w : ℂ) : Prop := w.im = 0 ∧ 0 < w.re

open Classical in
/-- `min1` is `w.min(1.0)` on real weights (the code only ever clamps a real number); on a non-real argument —
which never occurs — it returns `i`, a value that is neither a possible weight nor has a possible complement -/
instance simAmpComplex : SimAmp ℂ where
  normSq a := a * starRingEnd ℂ a
  rsqrt w := ((1 / Real.sqrt w.re : ℝ) : ℂ)
  min1 w := if w.im = 0 then ((min w.re 1 : ℝ) : ℂ) else Complex.I
  weightsOk _ := true

theorem ofReal_of_nz {w : ℂ} (h : nzC w) : w = ((w.re : ℝ) : ℂ) :=
  Complex.ext rfl (by simp [h.1])

theorem lawfulSim : LawfulSim ℂ ℝ nzC where
  normSq_eq := fun _ => rfl
  rsqrt_mul := by
    intro w h
    show ((1 / Real.sqrt w.re : ℝ) : ℂ) * ((1 / Real.sqrt w.re : ℝ) : ℂ) * w = 1
    have hw := ofReal_of_nz h
    have e : ((1 / Real.sqrt w.re : ℝ) : ℂ) * ((1 / Real.sqrt w.re : ℝ) : ℂ) * w =
        ((1 / Real.sqrt w.re : ℝ) : ℂ) * ((1 / Real.sqrt w.re : ℝ) : ℂ) * ((w.re : ℝ) : ℂ) := by rw [← hw]
    rw [e, ← Complex.ofReal_mul, ← Complex.ofReal_mul]
    have hs : Real.sqrt w.re * Real.sqrt w.re = w.re := Real.mul_self_sqrt h.2.le
    have hpos : Real.sqrt w.re ≠ 0 := (Real.sqrt_pos.mpr h.2).ne'
    have : 1 / Real.sqrt w.re * (1 / Real.sqrt w.re) * w.re = 1 := by
      field_simp
      nlinarith [hs]
    rw [this]; rfl
  rsqrt_real := fun _ _ => Complex.conj_ofReal _
  min1_nz0 := by
    intro w h
    show nzC w
    by_cases him : w.im = 0
    · have h' : nzC ((min w.re 1 : ℝ) : ℂ) := by
        have : SimAmp.min1 w = ((min w.re 1 : ℝ) : ℂ) := by show (if w.im = 0 then _ else _) = _; rw [if_pos him]
        rwa [this] at h
      have hpos : 0 < min w.re 1 := by have := h'.2; rwa [Complex.ofReal_re] at this
      exact ⟨him, lt_of_lt_of_le hpos (min_le_left _ _)⟩
    · have : SimAmp.min1 w = Complex.I := by show (if w.im = 0 then _ else _) = _; rw [if_neg him]
      rw [this] at h
      exact absurd h.1 (by simp)
  min1_nz1 := by
    intro w h
    show nzC (1 - w)
    by_cases him : w.im = 0
    · have hm : SimAmp.min1 w = ((min w.re 1 : ℝ) : ℂ) := by show (if w.im = 0 then _ else _) = _; rw [if_pos him]
      rw [hm] at h
      have h2 : 0 < 1 - min w.re 1 := by
        have := h.2
        rwa [Complex.sub_re, Complex.one_re, Complex.ofReal_re] at this
      refine ⟨by simp [him], ?_⟩
      have : w.re < 1 := by
        by_contra hge
        rw [min_eq_right (not_lt.mp hge)] at h2
        exact absurd h2 (by norm_num)
      simpa using this
    · have : SimAmp.min1 w = Complex.I := by show (if w.im = 0 then _ else _) = _; rw [if_neg him]
      rw [this] at h
      exact absurd h.1 (by simp)

theorem localWeights : LocalWeights ℂ := by
  intro a b ⟨u, hu⟩
  by_cases ha : a = 0
  · right
    subst ha
    exact ⟨u, by rwa [zero_add] at hu⟩
  · exact Or.inl ⟨a⁻¹, mul_inv_cancel₀ ha⟩

open Classical in
/-- the exact norm test -/
def nonzeroC (v : List ℂ) : Bool := decide (normSqSum v ≠ 0)

theorem nonzeroC_ok : NonzeroOK nonzeroC := by
  intro v ⟨u, hu⟩
  simp only [nonzeroC, decide_eq_true_eq]
  intro h0
  rw [h0, zero_mul] at hu
  exact zero_ne_one hu

end Q1t.SimComplex

import Q1t.Proofs.SimGFComplex
import Q1t.Proofs.SimResetAll
/-!
C02: the intended model.  The complex instance of the simulator amplitudes is the one of
`Q1t/Proofs/SimGFComplex.lean` (shared with C01): `|a|² = a·ā`, `rsqrt w = 1/√(re w)`,
`min1 w = min(re w, 1) + i·im w`, `nzC w` = "`w` is a positive real"; `LawfulSim ℂ ℝ nzC` is proved there.
Here: ℂ is a field, so `LocalWeights ℂ`, and the exact norm test satisfies `NonzeroOK`.
-/
noncomputable section
namespace Q1t.SimComplex
open Q1t Q1t.Sim Q1t.AmpComplex Q1t.Sim.SimGFComplex

theorem localWeights : LocalWeights ℂ := by
  intro a b ⟨u, hu⟩
  by_cases ha : a = 0
  · right
    subst ha
    exact ⟨u, by rwa [zero_add] at hu⟩
  · exact Or.inl ⟨a⁻¹, mul_inv_cancel₀ ha⟩

open Classical in
/-- the exact norm test -/
def nonzeroC (v : List ℂ) : Bool := decide (normSqSum v ≠ 0)

theorem nonzeroC_ok : NonzeroOK nonzeroC := by
  intro v ⟨u, hu⟩
  simp only [nonzeroC, decide_eq_true_eq]
  intro h0
  rw [h0, zero_mul] at hu
  exact zero_ne_one hu

end Q1t.SimComplex

import Q1t.Proofs.LMatBridge
import Q1t.Proofs.UnitariesPrim
set_option linter.unusedSimpArgs false
set_option linter.unusedSectionVars false
/-!
C05, part 3: every gate term built from the primitives with `C` and `Kron` (any nesting) has the
documented matrix and is unitary, for every lawful amplitude type and all parameter values
(structural induction).  `Loop` and `Composite` are reduced to the C04 corollaries
(`matrix (Loop …) = mpow …`, `matrix (Composite …) = ordered product of embedded factors`), which
enter as hypotheses.
-/
namespace Q1t.Proofs.Unitaries
open Q1t Q1t.Gate Q1t.Spec Q1t.LMat

variable {α P : Type} [CommRing α] [Amp α P]

/-- terms without `Composite`/`Loop`: primitives under any nesting of `C` and `Kron` -/
def CKTerm : GateTerm P → Prop
  | .C g => CKTerm g
  | .Kron g0 g1 => CKTerm g0 ∧ CKTerm g1
  | .Composite _ _ _ => False
  | .Loop _ _ _ _ _ => False
  | _ => True

/-- "documented and unitary" -/
def Good (g : GateTerm P) : Prop :=
  (matrix g : LMat α) = specMatrix g ∧ Unitary P (2 ^ nrBits g) (matrix g : LMat α)

theorem wf22 (a b c d : α) : WF 2 2 [[a, b], [c, d]] := by simp [WF]

theorem good_of_two {g : GateTerm P} (hn : nrBits g = 1) (a b c d : α)
    (hm : (matrix g : LMat α) = [[a, b], [c, d]]) (hs : (matrix g : LMat α) = specMatrix g)
    (hu : mulAdjoint (P := P) (matrix g : LMat α) = identity 2) : Good (α := α) g := by
  refine ⟨hs, ?_, ?_⟩
  · rw [hn, hm]; exact wf22 a b c d
  · rw [hn]; exact hu

section lawful
variable (h : LawfulAmp α P)
include h

theorem good_ctrl {g : GateTerm P} (hg : Good (α := α) g) : Good (α := α) (.C g) := by
  obtain ⟨hs, hu⟩ := hg
  have hpos : 0 < 2 ^ nrBits g := Nat.pow_pos (by decide)
  have e : 2 ^ nrBits g + 2 ^ nrBits g = 2 ^ nrBits (.C g) := by
    simp only [nrBits]; rw [Nat.pow_add]; omega
  have hc : (matrix (.C g) : LMat α) = ctrl (matrix g) := by
    simp only [matrix]; exact controlledMat_eq_ctrl hu.1
  refine ⟨?_, ?_⟩
  · rw [hc, hs]; simp only [specMatrix]
  · rw [hc, ← e]; exact unitary_ctrl h hpos hu

theorem good_kron {g0 g1 : GateTerm P} (h0 : Good (α := α) g0) (h1 : Good (α := α) g1) :
    Good (α := α) (.Kron g0 g1) := by
  obtain ⟨hs0, hu0⟩ := h0
  obtain ⟨hs1, hu1⟩ := h1
  have hp0 : 0 < 2 ^ nrBits g0 := Nat.pow_pos (by decide)
  have hp1 : 0 < 2 ^ nrBits g1 := Nat.pow_pos (by decide)
  have e : 2 ^ nrBits g0 * 2 ^ nrBits g1 = 2 ^ nrBits (.Kron g0 g1) := by
    simp only [nrBits]; rw [Nat.pow_add]
  have hk : (matrix (.Kron g0 g1) : LMat α) = kronecker (matrix g0) (matrix g1) := by
    simp only [matrix]; exact kron_eq_kronecker hu0.1 hu1.1 hp0 hp1 hp1
  refine ⟨?_, ?_⟩
  · rw [hk, hs0, hs1]; simp only [specMatrix]
  · rw [hk, ← e]; exact unitary_kronecker h hp0 hp1 hu0 hu1

theorem good_cx : Good (α := α) (.CX : GateTerm P) ∧ Good (α := α) (.CY : GateTerm P) ∧
    Good (α := α) (.CZ : GateTerm P) := by
  have hX := good_ctrl h (good_of_two (g := (.X : GateTerm P)) rfl _ _ _ _ rfl
    const1_spec_easy.2.1 (const1_unitary h).2.1)
  have hY := good_ctrl h (good_of_two (g := (.Y : GateTerm P)) rfl _ _ _ _ rfl
    const1_spec_easy.2.2.1 (const1_unitary h).2.2.1)
  have hZ := good_ctrl h (good_of_two (g := (.Z : GateTerm P)) rfl _ _ _ _ rfl
    const1_spec_easy.2.2.2.1 (const1_unitary h).2.2.2.1)
  exact ⟨hX, hY, hZ⟩

theorem good_swap : Good (α := α) (.Swap : GateTerm P) := by
  refine ⟨const1_spec_easy.2.2.2.2.2.2.2, ?_, swap_unitary h⟩
  simp [matrix, matSwap, WF, nrBits]

/-- every term built from primitives with `C` and `Kron` has the documented matrix and is unitary -/
theorem good_of_term : (g : GateTerm P) → CKTerm g → Good (α := α) g
  | .H, _ => good_of_two rfl _ _ _ _ rfl const1_spec_easy.2.2.2.2.1 (const1_unitary h).2.2.2.2.1
  | .X, _ => good_of_two rfl _ _ _ _ rfl const1_spec_easy.2.1 (const1_unitary h).2.1
  | .Y, _ => good_of_two rfl _ _ _ _ rfl const1_spec_easy.2.2.1 (const1_unitary h).2.2.1
  | .Z, _ => good_of_two rfl _ _ _ _ rfl const1_spec_easy.2.2.2.1 (const1_unitary h).2.2.2.1
  | .S, _ => good_of_two rfl _ _ _ _ rfl const1_spec_easy.2.2.2.2.2.1 (const1_unitary h).2.2.2.2.2.1
  | .Sdg, _ => good_of_two rfl _ _ _ _ rfl const1_spec_easy.2.2.2.2.2.2.1
      (const1_unitary h).2.2.2.2.2.2.1
  | .T, _ => good_of_two rfl _ _ _ _ rfl (t_spec h) (const1_unitary h).2.2.2.2.2.2.2.1
  | .Tdg, _ => good_of_two rfl _ _ _ _ rfl (tdg_spec h) (const1_unitary h).2.2.2.2.2.2.2.2.1
  | .V, _ => good_of_two rfl _ _ _ _ rfl v_spec (const1_unitary h).2.2.2.2.2.2.2.2.2.1
  | .Vdg, _ => good_of_two rfl _ _ _ _ rfl vdg_spec (const1_unitary h).2.2.2.2.2.2.2.2.2.2
  | .I, _ => good_of_two rfl 1 0 0 1 identity_two const1_spec_easy.1 (const1_unitary h).1
  | .RX θ, _ => good_of_two rfl _ _ _ _ rfl (rx_spec θ) (rx_unitary h θ)
  | .RY θ, _ => good_of_two rfl _ _ _ _ rfl (ry_spec h θ) (ry_unitary h θ)
  | .RZ l, _ => good_of_two rfl _ _ _ _ rfl (rz_spec h l) (rz_unitary h l)
  | .U1 l, _ => good_of_two rfl _ _ _ _ rfl (u1_spec l) (u1_unitary h l)
  | .U2 φ l, _ => good_of_two rfl _ _ _ _ rfl (u2_spec φ l) (u2_unitary h φ l)
  | .U3 θ φ l, _ => good_of_two rfl _ _ _ _ rfl (u3_spec θ φ l) (u3_unitary h θ φ l)
  | .CX, _ => (good_cx h).1
  | .CY, _ => (good_cx h).2.1
  | .CZ, _ => (good_cx h).2.2
  | .Swap, _ => good_swap h
  | .C g, hg => good_ctrl h (good_of_term g hg)
  | .Kron g0 g1, hg => good_kron h (good_of_term g0 hg.1) (good_of_term g1 hg.2)
  | .Composite _ _ _, hg => hg.elim
  | .Loop _ _ _ _ _, hg => hg.elim

/-- a loop is unitary as soon as its body composite is, given the C04 corollary
`matrix (Loop …) = mpow (matrix (Composite …)) iters` -/
theorem loop_unitary_of {label nm : String} {k n : Nat} {body : OpList P} (hn : 0 < 2 ^ n)
    (hloop : (matrix (.Loop label k nm n body) : LMat α) = mpow (matrix (.Composite nm n body)) k)
    (hbody : Unitary P (2 ^ n) (matrix (.Composite nm n body) : LMat α)) :
    Unitary P (2 ^ n) (matrix (.Loop label k nm n body) : LMat α) := by
  rw [hloop]; exact unitary_mpow h hn hbody k

/-- an ordered product of unitary factors (later factors multiply on the left, as in `specOps`)
is unitary; with the C04 corollary `matrix (Composite …) = ordered product of embed …` this is the
composite case -/
theorem ordered_product_unitary {n : Nat} (hn : 0 < n) (factors : List (LMat α)) (acc : LMat α)
    (hacc : Unitary P n acc) (hf : ∀ F ∈ factors, Unitary P n F) :
    Unitary P n (factors.foldl (fun acc F => LMat.mul F acc) acc) := by
  induction factors generalizing acc with
  | nil => exact hacc
  | cons F Fs ih =>
    simp only [List.foldl_cons]
    exact ih _ (unitary_mul h hn (hf F (by simp)) hacc) (fun G hG => hf G (by simp [hG]))

end lawful

/-- a predicate holds for every (sub-gate, placement) of an op list -/
def OpsAll (p : GateTerm P → List Nat → Prop) : OpList P → Prop
  | .nil => True
  | .cons g bits rest => p g bits ∧ OpsAll p rest

section lawful2
variable (h : LawfulAmp α P)
include h

/-- the documented matrix of a composite (ordered product of the embedded documented factors) is
unitary as soon as every embedded factor is -/
theorem specOps_unitary {n : Nat} : (ops : OpList P) → (acc : LMat α) → Unitary P (2 ^ n) acc →
    OpsAll (fun g bits => Unitary P (2 ^ n) (embed n bits (specMatrix g : LMat α))) ops →
    Unitary P (2 ^ n) (specOps ops n acc)
  | .nil, _, hacc, _ => by simpa [specOps] using hacc
  | .cons g bits rest, acc, hacc, hops => by
      simp only [specOps]
      exact specOps_unitary rest _ (unitary_mul h (Nat.pow_pos (by decide)) hops.1 hacc) hops.2

theorem spec_composite_loop_unitary {n : Nat} (label nm : String) (k : Nat) (ops : OpList P)
    (hops : OpsAll (fun g bits => Unitary P (2 ^ n) (embed n bits (specMatrix g : LMat α))) ops) :
    Unitary P (2 ^ n) (specMatrix (.Composite nm n ops) : LMat α) ∧
    Unitary P (2 ^ n) (specMatrix (.Loop label k nm n ops) : LMat α) := by
  have hc : Unitary P (2 ^ n) (specOps ops n (LMat.identity (2 ^ n)) : LMat α) :=
    specOps_unitary h ops _ (unitary_identity h (Nat.pow_pos (by decide))) hops
  refine ⟨by simpa [specMatrix] using hc, ?_⟩
  simp only [specMatrix]
  exact unitary_mpow h (Nat.pow_pos (by decide)) hc k

end lawful2

end Q1t.Proofs.Unitaries

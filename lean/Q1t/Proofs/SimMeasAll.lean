import Q1t.Proofs.SimBitsAll
import Q1t.Proofs.SimRefine
/-!
C02: per-shot reading of `measure_all_into_helper` (vector backend; `measure_all` collapses, `peek_all` does
not), Z basis: every shot gets a basis state `idx` sampled from the weights of its own column with a valid
non-zero weight; its word becomes `writeAll n cbits w idx`; on collapse its state becomes `|idx⟩`, which is the
product of the projectors of the reference semantics up to a scalar (`Rel.measureAll`, `measureAllTo_Z`).
-/
set_option linter.unusedSectionVars false
namespace Q1t.Sim
open Q1t Q1t.Spec Prog

/-- rewrite the words `[start, start + vals.length)`: word `start + j` becomes `f w vals[j]` -/
def setWords (f : Nat → Nat → Nat) (res : List Nat) (start : Nat) (vals : List Nat) : List Nat :=
  res.zipIdx.map fun wi =>
    if start ≤ wi.2 ∧ wi.2 < start + vals.length then f wi.1 (vals.getD (wi.2 - start) 0) else wi.1

theorem getElem?_setWords (f : Nat → Nat → Nat) (res : List Nat) (start : Nat) (vals : List Nat) (i : Nat) :
    (setWords f res start vals)[i]? = res[i]?.map fun w =>
      if start ≤ i ∧ i < start + vals.length then f w (vals.getD (i - start) 0) else w := by
  simp only [setWords, List.getElem?_map, List.getElem?_zipIdx, Option.map_map]
  cases res[i]? <;> simp

theorem setWords_length (f : Nat → Nat → Nat) (res : List Nat) (start : Nat) (vals : List Nat) :
    (setWords f res start vals).length = res.length := by simp [setWords]

theorem setWords_nil (f : Nat → Nat → Nat) (res : List Nat) (start : Nat) : setWords f res start [] = res := by
  apply List.ext_getElem?
  intro i
  rw [getElem?_setWords]
  cases res[i]? <;> simp

theorem setWords_setWords (f : Nat → Nat → Nat) (res : List Nat) (start : Nat) (v1 v2 : List Nat) :
    setWords f (setWords f res start v1) (start + v1.length) v2 = setWords f res start (v1 ++ v2) := by
  apply List.ext_getElem?
  intro i
  simp only [getElem?_setWords, Option.map_map]
  cases res[i]? with
  | none => rfl
  | some w =>
    simp only [Option.map_some, Function.comp, List.length_append, Option.some.injEq]
    by_cases h1 : start ≤ i ∧ i < start + v1.length
    · have h2 : ¬ (start + v1.length ≤ i ∧ i < start + v1.length + v2.length) := by omega
      have h3 : start ≤ i ∧ i < start + (v1.length + v2.length) := by omega
      rw [if_pos h1, if_neg h2, if_pos h3]
      congr 1
      simp only [List.getD_eq_getElem?_getD]
      rw [List.getElem?_append_left (by omega)]
    · rw [if_neg h1]
      by_cases h2 : start + v1.length ≤ i ∧ i < start + v1.length + v2.length
      · have h3 : start ≤ i ∧ i < start + (v1.length + v2.length) := by omega
        rw [if_pos h2, if_pos h3]
        congr 1
        simp only [List.getD_eq_getElem?_getD]
        rw [List.getElem?_append_right (by omega)]
        congr 2
        omega
      · have h3 : ¬ (start ≤ i ∧ i < start + (v1.length + v2.length)) := by omega
        rw [if_neg h2, if_neg h3]

theorem setWords_replicate (f : Nat → Nat → Nat) (res : List Nat) (off cnt idx : Nat) :
    setWords f res off (List.replicate cnt idx) =
      res.zipIdx.map fun wi => if off ≤ wi.2 ∧ wi.2 < off + cnt then f wi.1 idx else wi.1 := by
  simp only [setWords, List.length_replicate]
  apply List.map_congr_left
  intro wi _
  by_cases h : off ≤ wi.2 ∧ wi.2 < off + cnt
  · rw [if_pos h, if_pos h]
    congr 1
    rw [List.getD_eq_getElem?_getD, List.getElem?_replicate, if_pos (by omega)]
    rfl
  · rw [if_neg h, if_neg h]

/-- the register loop of `measure_all_into_helper` writes, shot by shot, the word of the shot's sampled
basis state -/
theorem foldl_pieces (f : Nat → Nat → Nat) (g : List Nat × Nat → Nat × Nat → List Nat × Nat)
    (hg : ∀ st ic, g st ic = (setWords f st.1 st.2 (List.replicate ic.2 ic.1), st.2 + ic.2)) :
    ∀ (pieces : List (Nat × Nat)) (res : List Nat) (off : Nat),
    pieces.foldl g (res, off) =
      (setWords f res off (expand (pieces.map (·.2)) (pieces.map (·.1))), off + (pieces.map (·.2)).sum) := by
  intro pieces
  induction pieces with
  | nil => intro res off; simp [expand, setWords_nil]
  | cons ic rest ih =>
    intro res off
    rw [List.foldl_cons, hg, ih]
    simp only [List.map_cons, expand, List.sum_cons]
    have := setWords_setWords f res off (List.replicate ic.2 ic.1) (expand (rest.map (·.2)) (rest.map (·.1)))
    rw [List.length_replicate] at this
    rw [this, Nat.add_assoc]

theorem forall₂_getElem? {γ δ : Type} {R : γ → δ → Prop} {l1 : List γ} {l2 : List δ}
    (h : List.Forall₂ R l1 l2) : ∀ (i : Nat) (x : γ), l1[i]? = some x → ∃ y, l2[i]? = some y ∧ R x y := by
  induction h with
  | nil => intro i x hx; simp at hx
  | cons hr _ ih =>
    intro i x hx
    cases i with
    | zero =>
      simp only [List.getElem?_cons_zero, Option.some.injEq] at hx
      subst hx
      exact ⟨_, by simp, hr⟩
    | succ i =>
      simp only [List.getElem?_cons_succ] at hx ⊢
      exact ih i x hx

theorem forall₂_replicate_expand {γ : Type} {R : γ → Nat → Prop} (x : γ) : ∀ (ll : List (Nat × Nat)),
    (∀ ic ∈ ll, R x ic.1) →
    List.Forall₂ R (List.replicate (ll.map (·.2)).sum x) (expand (ll.map (·.2)) (ll.map (·.1))) := by
  intro ll
  induction ll with
  | nil => intro _; simp [expand]
  | cons ic rest ih =>
    intro h
    simp only [List.map_cons, List.sum_cons, expand]
    rw [← List.replicate_append_replicate]
    apply List.rel_append
    · have : ∀ k, List.Forall₂ R (List.replicate k x) (List.replicate k ic.1) := by
        intro k
        induction k with
        | zero => exact .nil
        | succ k ihk => simp only [List.replicate_succ]; exact .cons (h ic List.mem_cons_self) ihk
      exact this _
    · exact ih fun ic' h' => h ic' (List.mem_cons_of_mem _ h')

/-- shot by shot: the basis state sampled for a shot was drawn from the weights of the shot's own column,
with a supported index -/
theorem sampled_shots {α : Type} {sc : List α → Nat → Prop} :
    ∀ (l : List (List α × Nat)) (ls : List (List (Nat × Nat))),
    List.Forall₂ (fun (wc : List α × Nat) (ll : List (Nat × Nat)) =>
        ((ll.map (·.2)).foldl (· + ·) 0 = wc.2 ∧ ll.all (fun ic => ic.1 < wc.1.length ∧ 0 < ic.2) ∧
          (ll.map (·.1)).Nodup) ∧ ∀ ic ∈ ll, sc wc.1 ic.1) l ls →
    List.Forall₂ (fun ws idx => sc ws idx ∧ idx < ws.length) (expand (l.map (·.2)) (l.map (·.1)))
      (expand (ls.flatten.map (·.2)) (ls.flatten.map (·.1))) := by
  intro l ls h
  induction h with
  | nil => simp [expand]
  | @cons wc ll l ls h1 _ ih =>
    obtain ⟨⟨hsum, hall, _⟩, hsc⟩ := h1
    rw [foldl_add_sum, Nat.zero_add] at hsum
    simp only [List.map_cons, expand, List.flatten_cons, List.map_append]
    rw [expand_append _ _ _ _ (by simp)]
    apply List.rel_append _ ih
    rw [← hsum]
    apply forall₂_replicate_expand
    intro ic hic
    refine ⟨hsc ic hic, ?_⟩
    have := List.all_eq_true.mp hall ic hic
    simp only [decide_eq_true_eq] at this
    simpa using this.1


section
variable {α P : Type} [CommRing α] [Amp α P] [SimAmp α]
variable {n : Nat} {nz : α → Prop}

/-- the basis state `|idx⟩` -/
def ketIdx (n idx : Nat) : List α := (List.range (2 ^ n)).map fun r => if r = idx then (1 : α) else 0

/-- keep the amplitude of basis state `idx` only: the product of the projectors `P_{idx_q}^{(q)}` over all qubits -/
def keepIdx (idx : Nat) (ψ : List α) : List α := ψ.zipIdx.map fun ar => if ar.2 = idx then ar.1 else 0

theorem getElem?_project (n q : Nat) (o : Bool) (v : List α) (r : Nat) :
    (project n q o v)[r]? = v[r]?.map fun a => if (qbit n q r == 1) == o then a else 0 := by
  simp only [project, List.getElem?_map, List.getElem?_zipIdx, Option.map_map]
  cases v[r]? <;> simp

theorem foldl_project (n : Nat) (outs : Nat → Bool) : ∀ (m : Nat) (ψ : List α) (r : Nat),
    ((List.range m).foldl (fun φ q => project n q (outs q) φ) ψ)[r]? =
      ψ[r]?.map fun a => if (List.range m).all (fun q => (qbit n q r == 1) == outs q) then a else 0 := by
  intro m
  induction m with
  | zero => intro ψ r; simp
  | succ m ih =>
    intro ψ r
    rw [List.range_succ, List.foldl_append, List.foldl_cons, List.foldl_nil, getElem?_project, ih]
    cases ψ[r]? with
    | none => rfl
    | some a =>
      simp only [Option.map_some, Option.some.injEq, List.all_append, List.all_cons, List.all_nil, Bool.and_true]
      by_cases h1 : (List.range m).all (fun q => (qbit n q r == 1) == outs q) = true
      · simp [h1]
      · simp [h1]

theorem all_qbit_iff (n r idx : Nat) (hr : r < 2 ^ n) (hidx : idx < 2 ^ n) :
    (List.range n).all (fun q => (qbit n q r == 1) == (qbit n q idx == 1)) = true ↔ r = idx := by
  constructor
  · intro h
    apply Nat.eq_of_testBit_eq
    intro k
    by_cases hk : k < n
    · have := List.all_eq_true.mp h (n - 1 - k) (List.mem_range.mpr (by omega))
      have e : n - 1 - (n - 1 - k) = k := by omega
      have hq : ∀ x, qbit n (n - 1 - k) x = (x.testBit k).toNat := by
        intro x; rw [Nat.toNat_testBit, qbit, Nat.shiftRight_eq_div_pow, e]
      rw [hq, hq] at this
      cases h1 : r.testBit k <;> cases h2 : idx.testBit k <;> simp [h1, h2] at this <;> rfl
    · have hk' : n ≤ k := Nat.le_of_not_lt hk
      rw [Nat.testBit_lt_two_pow (Nat.lt_of_lt_of_le hr (Nat.pow_le_pow_right (by decide) hk')),
        Nat.testBit_lt_two_pow (Nat.lt_of_lt_of_le hidx (Nat.pow_le_pow_right (by decide) hk'))]
  · rintro rfl
    simp

/-- measuring every qubit in the Z basis with the outcomes spelled by `idx` is the projector on `|idx⟩` -/
theorem measureAllTo_Z (idx : Nat) (hidx : idx < 2 ^ n) (outs : Nat → Bool)
    (houts : ∀ q, q < n → outs q = (qbit n q idx == 1)) (ψ : List α) (hψ : ψ.length = 2 ^ n) :
    measureAllTo (P := P) n .Z outs ψ = keepIdx idx ψ := by
  have e : measureAllTo (P := P) n .Z outs ψ = (List.range n).foldl (fun φ q => project n q (outs q) φ) ψ := rfl
  rw [e]
  apply List.ext_getElem?
  intro r
  rw [foldl_project]
  simp only [keepIdx, List.getElem?_map, List.getElem?_zipIdx, Option.map_map]
  cases hr : ψ[r]? with
  | none => rfl
  | some a =>
    have hr' : r < 2 ^ n := by rw [← hψ]; exact (List.getElem?_eq_some_iff.mp hr).1
    simp only [Option.map_some, Option.some.injEq, Function.comp, Nat.zero_add]
    have hall : (List.range n).all (fun q => (qbit n q r == 1) == outs q) =
        (List.range n).all (fun q => (qbit n q r == 1) == (qbit n q idx == 1)) := by
      rw [Bool.eq_iff_iff]
      simp only [List.all_eq_true, List.mem_range]
      constructor
      · intro h q hq; rw [← houts q hq]; exact h q hq
      · intro h q hq; rw [houts q hq]; exact h q hq
    rw [hall]
    by_cases h : r = idx
    · rw [if_pos ((all_qbit_iff n r idx hr' hidx).mpr h), if_pos h]
    · rw [if_neg (fun h' => h ((all_qbit_iff n r idx hr' hidx).mp h')), if_neg h]

theorem keepIdx_length (idx : Nat) (ψ : List α) : (keepIdx idx ψ).length = ψ.length := by simp [keepIdx]

theorem sum_range_ite (x : α) (idx : Nat) : ∀ m : Nat,
    ((List.range m).map fun r => if r = idx then x else 0).sum = if idx < m then x else 0 := by
  intro m
  induction m with
  | zero => simp
  | succ m ih =>
    rw [List.range_succ, List.map_append, List.sum_append, ih]
    by_cases h1 : idx < m
    · have : m ≠ idx := by omega
      simp [h1, this, Nat.lt_succ_of_lt h1]
    · by_cases h2 : m = idx
      · subst h2; simp
      · have : ¬ idx < m + 1 := by omega
        simp [h1, h2, this]

theorem normSqSum_ketIdx (ha : LawfulAmp α P) (hs : LawfulSim α P nz) (idx : Nat) (hidx : idx < 2 ^ n) :
    normSqSum (ketIdx (α := α) n idx) = 1 := by
  simp only [normSqSum, ketIdx, List.map_map]
  have : (SimAmp.normSq ∘ fun r => if r = idx then (1 : α) else 0) = fun r => if r = idx then (1 : α) else 0 := by
    funext r
    simp only [Function.comp]
    split
    · rw [hs.normSq_eq, ha.conj_one, one_mul]
    · exact hs.normSq_zero
  rw [this, sum_range_ite, if_pos hidx]

/-- the collapse of `measure_all` (the shot's state becomes `|idx⟩`, amplitude exactly 1) is the projector on
`|idx⟩` up to a scalar, provided the sampled basis state had a valid non-zero weight -/
theorem Rel.measureAll (ha : LawfulAmp α P) (hs : LawfulSim α P nz) {col ψ : List α} (h : Rel n col ψ) (idx : Nat)
    (hidx : idx < 2 ^ n) (hnz : nz (SimAmp.normSq (col.getD idx 0))) :
    Rel n (ketIdx n idx) (keepIdx idx ψ) := by
  obtain ⟨h1, _, a, hcol⟩ := h
  refine ⟨by rw [keepIdx_length, h1], normSqSum_ketIdx ha hs idx hidx, ?_⟩
  have hx : col.getD idx 0 = ψ.getD idx 0 * a := by
    rw [hcol, List.getD_eq_getElem?_getD, List.getD_eq_getElem?_getD, List.getElem?_map]
    have : idx < ψ.length := h1 ▸ hidx
    simp [this]
  obtain ⟨x, hxdef⟩ : ∃ x, x = col.getD idx 0 := ⟨_, rfl⟩
  rw [← hxdef] at hnz hx
  have hr := hs.rsqrt_mul _ hnz
  rw [hs.normSq_eq] at hr
  refine ⟨a * (Amp.conj P x * (SimAmp.rsqrt (SimAmp.normSq x) * SimAmp.rsqrt (SimAmp.normSq x))), ?_⟩
  have hone : ψ.getD idx 0 * (a * (Amp.conj P x * (SimAmp.rsqrt (SimAmp.normSq x) * SimAmp.rsqrt (SimAmp.normSq x)))) = 1 := by
    rw [← hr, hs.normSq_eq, hx]; ring
  apply List.ext_getElem?
  intro r
  simp only [ketIdx, keepIdx, List.getElem?_map, List.getElem?_zipIdx, Option.map_map]
  by_cases hr' : r < 2 ^ n
  · have hr2 : r < ψ.length := h1 ▸ hr'
    rw [List.getElem?_range hr', List.getElem?_eq_getElem hr2]
    simp only [Option.map_some, Option.some.injEq, Function.comp, Nat.zero_add]
    by_cases hri : r = idx
    · subst hri
      rw [if_pos rfl, if_pos rfl, ← hone]
      simp [List.getD_eq_getElem?_getD, hr2]
    · rw [if_neg hri, if_neg hri, zero_mul]
  · have hr2 : ψ.length ≤ r := by rw [h1]; omega
    rw [List.getElem?_eq_none (by simpa using Nat.le_of_not_lt hr'), List.getElem?_eq_none hr2]
    rfl


variable {valid : GateTerm P → List Nat → Prop}

theorem measureAll_core (ha : LawfulAmp α P) (hs : LawfulSim α P nz) {N : Nat} {st st' : VecState α}
    {c r cbits : List Nat} {collapse : Bool} (hi : Shape n N st) (hc : c.length = N)
    {sb : Nat → α → Nat → Prop} {d d' : List Draw}
    (hr : Runs sb (suppCat nz) (VecState.measureAllHelper st cbits c collapse) d (.ok (st', r)) d') :
    cbits.length = n ∧ (∀ b ∈ cbits, b < 64) ∧ Shape n N st' ∧ r.length = N ∧ (collapse = false → st' = st) ∧
    ∀ (i : Nat) (col : List α) (w : Nat) (ψ : List α), (shotStates st)[i]? = some col → c[i]? = some w → Rel n col ψ →
      ∃ idx, idx < 2 ^ n ∧ r[i]? = some (writeAll n cbits w idx) ∧
        (collapse = true → (shotStates st')[i]? = some (ketIdx n idx)) ∧
        Rel n (ketIdx n idx) (keepIdx idx ψ) := by
  obtain ⟨hw, hn, hN⟩ := hi
  have hwfs := measureAllHelper_wfs hw hr
  unfold VecState.measureAllHelper at hr
  split at hr
  · exact absurd hr runs_err_ok
  split at hr
  · exact absurd hr runs_err_ok
  rename_i hlen1 hlen2
  obtain ⟨ls, ds1, hf, hk⟩ := runs_sampleAll _ _ _ _ _ hr
  split at hk
  · exact absurd hk runs_panic_ok
  rename_i hshift
  have hcb : ∀ b ∈ cbits, b < 64 := by
    have : cbits.all shiftOk = true := by simpa using hshift
    intro b hb
    simpa [shiftOk] using List.all_eq_true.mp this b hb
  have hsum := sampled_counts_sum _ _ hf
  have hcs : (List.map (fun k => (List.map SimAmp.normSq (st.column k), st.counts.getD k 0)) (List.range st.nrCols)).map (·.2)
      = st.counts := by
    simp only [List.map_map, VecState.nrCols]
    exact range_map_getD st.counts 0
  have hcf : (List.map (fun k => (List.map SimAmp.normSq (st.column k), st.counts.getD k 0)) (List.range st.nrCols)).map (·.1)
      = (cols st).map (List.map SimAmp.normSq) := by
    simp only [List.map_map, VecState.nrCols, cols]
    rfl
  have hshots := sampled_shots _ _ hf
  rw [hcs, hcf, expand_map] at hshots
  rw [hcs, hw.counts_sum] at hsum
  dsimp only at hk
  generalize hR : List.foldl _ (c, 0) ls.flatten = R at hk
  have hR2 : R = (setWords (writeAll st.nrBits cbits) c 0
      (expand (ls.flatten.map (·.2)) (ls.flatten.map (·.1))), 0 + (ls.flatten.map (·.2)).sum) :=
    hR.symm.trans (foldl_pieces (writeAll st.nrBits cbits) _ (by
      intro st0 ic
      rw [setWords_replicate]
      rfl) ls.flatten c 0)
  have hlenI : (expand (ls.flatten.map (·.2)) (ls.flatten.map (·.1))).length = N := by
    rw [expand_length _ _ (by rw [List.length_map, List.length_map]), hsum, hN]
  -- per-shot facts shared by both branches
  have hshot : ∀ (i : Nat) (col : List α) (w : Nat) (ψ : List α), (shotStates st)[i]? = some col → c[i]? = some w →
      Rel n col ψ → ∃ idx, (expand (ls.flatten.map (·.2)) (ls.flatten.map (·.1)))[i]? = some idx ∧ idx < 2 ^ n ∧
        R.1[i]? = some (writeAll n cbits w idx) ∧ Rel n (ketIdx n idx) (keepIdx idx ψ) := by
    intro i col w ψ hcol hwi hrel
    obtain ⟨idx, hidx, hsupp, hlt⟩ := forall₂_getElem? hshots i (col.map SimAmp.normSq) (by
      rw [List.getElem?_map]; unfold shotStates at hcol; rw [hcol]; rfl)
    have hcl : col.length = 2 ^ n := hrel.length
    have hlt' : idx < 2 ^ n := by simpa [hcl] using hlt
    refine ⟨idx, hidx, hlt', ?_, ?_⟩
    · have hi : i < N := by rw [← hc]; exact (List.getElem?_eq_some_iff.mp hwi).1
      rw [hR2, getElem?_setWords, hwi, hlenI, ← hn]
      simp only [Option.map_some, Option.some.injEq]
      rw [if_pos (by omega), Nat.sub_zero, List.getD_eq_getElem?_getD, hidx]
      rfl
    · apply hrel.measureAll ha hs idx hlt'
      apply hsupp
      rw [List.getElem?_map, List.getD_eq_getElem?_getD, List.getElem?_eq_getElem (by omega)]
      rfl
  have hnn : cbits.length = n := by rw [← hn]; simpa using hlen2
  split at hk
  · rename_i hcol
    obtain ⟨h1, _⟩ := runs_pure_iff.mp hk
    simp only [Except.ok.injEq, Prod.mk.injEq] at h1
    obtain ⟨rfl, rfl⟩ := h1
    refine ⟨hnn, hcb, ⟨hwfs.2.2.1, hwfs.1.trans hn, hwfs.2.1.trans hN⟩, hwfs.2.2.2.trans hc,
      fun h => absurd hcol (by simp [h]), ?_⟩
    intro i col w ψ hcol' hwi hrel
    obtain ⟨idx, hidx, hlt, hreg, hrel'⟩ := hshot i col w ψ hcol' hwi hrel
    refine ⟨idx, hlt, hreg, fun _ => ?_, hrel'⟩
    rw [shotStates, cols_ofColumns _ _ _ _ (by rw [List.length_map, List.length_map]) (by
      intro c0 hc0
      simp only [List.mem_map] at hc0
      obtain ⟨ic, _, rfl⟩ := hc0
      simp)]
    have : (List.map (fun ic => List.map (fun r => if r = ic.1 then (1 : α) else 0) (List.range (2 ^ st.nrBits))) ls.flatten) =
        (ls.flatten.map (·.1)).map (ketIdx n) := by
      rw [List.map_map, hn]; rfl
    rw [this, expand_map, List.getElem?_map, hidx]
    rfl
  · rename_i hcol
    obtain ⟨h1, _⟩ := runs_pure_iff.mp hk
    simp only [Except.ok.injEq, Prod.mk.injEq] at h1
    obtain ⟨rfl, rfl⟩ := h1
    refine ⟨hnn, hcb, ⟨hw, hn, hN⟩, hwfs.2.2.2.trans hc, fun _ => rfl, ?_⟩
    intro i col w ψ hcol' hwi hrel
    obtain ⟨idx, hidx, hlt, hreg, hrel'⟩ := hshot i col w ψ hcol' hwi hrel
    exact ⟨idx, hlt, hreg, fun h => absurd h (by simpa using hcol), hrel'⟩

/-! ### the reference side -/

theorem mem_replayOp_measureAll (nonzero : List α → Bool) (cbits : List Nat) (b : Basis) (ψ : List α) (w idx : Nat)
    (hc : ∀ b ∈ cbits, b < 64) (hlen : cbits.length = n) (hw : w < 2 ^ 64) :
    (measureAllTo (P := P) n b (fun q => bitOf (writeAll n cbits w idx) (cbits.getD q 0)) ψ, writeAll n cbits w idx) ∈
      replayOp (P := P) n nonzero (.measureAll cbits b) ψ w (writeAll n cbits w idx) := by
  simp only [replayOp]
  rw [if_pos (writeAll_expected n cbits hc hlen w idx hw)]
  simp

theorem mem_replayOp_peekAll (nonzero : List α → Bool) (cbits : List Nat) (b : Basis) (ψ : List α) (w idx : Nat)
    (hc : ∀ b ∈ cbits, b < 64) (hlen : cbits.length = n) (hw : w < 2 ^ 64)
    (hnz : nonzero (measureAllTo (P := P) n b (fun q => bitOf (writeAll n cbits w idx) (cbits.getD q 0)) ψ) = true) :
    (ψ, writeAll n cbits w idx) ∈ replayOp (P := P) n nonzero (.peekAll cbits b) ψ w (writeAll n cbits w idx) := by
  simp only [replayOp]
  rw [if_pos ⟨writeAll_expected n cbits hc hlen w idx hw, hnz⟩]
  simp

/-- the outcomes the reference semantics reads off the stored word are the qubit values of `idx` -/
theorem outs_writeAll (cbits : List Nat) (hc : ∀ b ∈ cbits, b < 64) (hnd : cbits.Nodup) (hlen : cbits.length = n)
    (w idx : Nat) : ∀ q, q < n →
    (fun q => bitOf (writeAll n cbits w idx) (cbits.getD q 0)) q = (qbit n q idx == 1) :=
  fun q hq => writeAll_bit n cbits hc hnd hlen w idx q hq

/-! ### `measure_all` / `peek_all` in the Z basis -/

theorem refine_measureAll_Z (ha : LawfulAmp α P) (hs : LawfulSim α P nz) {nonzero : List α → Bool} {N : Nat}
    {s : VecState α} {c cbits : List Nat} (hnd : cbits.Nodup) (hwf : WFState n N s c)
    {sb : Nat → α → Nat → Prop} {ds ds' : List Draw} {s' : VecState α} {c' : List Nat}
    (h : Runs sb (suppCat nz) (execOp (vecBackend (α := α) (P := P)) s c (.measureAll cbits .Z)) ds (.ok (s', c')) ds') :
    StepRefines n nonzero (.measureAll cbits .Z : COp P) s c s' c' := by
  intro i col w ψ hcol hw hwb hrel
  simp only [execOp, vecBackend] at h
  have hb := withBasisAll_runs _ h
  dsimp only at hb
  obtain ⟨hlen, hcb, _, _, _, hshot⟩ := measureAll_core ha hs ⟨hwf.wfs, hwf.nrBits, hwf.nrShots⟩ hwf.reg hb
  obtain ⟨idx, hidx, hreg, hst, hrel'⟩ := hshot i col w ψ hcol hw hrel
  refine ⟨_, _, _, hst rfl, hreg, writeAll_lt n cbits hcb w idx,
    mem_replayOp_measureAll nonzero cbits .Z ψ w idx hcb hlen hwb, ?_⟩
  rw [measureAllTo_Z idx hidx _ (outs_writeAll cbits hcb hnd hlen w idx) ψ hrel.1]
  exact hrel'

theorem refine_peekAll_Z (ha : LawfulAmp α P) (hs : LawfulSim α P nz) {nonzero : List α → Bool}
    (hnzb : NonzeroOK nonzero) {N : Nat}
    {s : VecState α} {c cbits : List Nat} (hnd : cbits.Nodup) (hwf : WFState n N s c)
    {sb : Nat → α → Nat → Prop} {ds ds' : List Draw} {s' : VecState α} {c' : List Nat}
    (h : Runs sb (suppCat nz) (execOp (vecBackend (α := α) (P := P)) s c (.peekAll cbits .Z)) ds (.ok (s', c')) ds') :
    StepRefines n nonzero (.peekAll cbits .Z : COp P) s c s' c' := by
  intro i col w ψ hcol hw hwb hrel
  simp only [execOp, vecBackend] at h
  have hb := withBasisAll_runs _ h
  dsimp only at hb
  obtain ⟨hlen, hcb, _, _, hsame, hshot⟩ := measureAll_core ha hs ⟨hwf.wfs, hwf.nrBits, hwf.nrShots⟩ hwf.reg hb
  obtain ⟨idx, hidx, hreg, _, hrel'⟩ := hshot i col w ψ hcol hw hrel
  rw [hsame rfl]
  refine ⟨col, _, ψ, hcol, hreg, writeAll_lt n cbits hcb w idx,
    mem_replayOp_peekAll nonzero cbits .Z ψ w idx hcb hlen hwb ?_, hrel⟩
  rw [measureAllTo_Z idx hidx _ (outs_writeAll cbits hcb hnd hlen w idx) ψ hrel.1]
  exact hrel'.nonzero ha hs hnzb

end
end Q1t.Sim

import Q1t.Proofs.RouteTerm
import Q1t.Proofs.EmbedUnitary
import Q1t.Proofs.UnitariesTerm
/-!
# C04 + C05: EVERY well-formed gate term (including `Composite` and `Loop`, any nesting) has the
documented matrix and is unitary

C05 proves `Good g` (`matrix g = specMatrix g ∧ Unitary (matrix g)`) for terms without composites and
reduces composites/loops to two C04 corollaries; with `matrix_composite_eq_product`,
`matrix_loop_eq_pow` and `embed_unitary` the structural induction closes.
-/
namespace Q1t.Proofs.Route
open Q1t Q1t.Gate Q1t.Spec Q1t.LMat Q1t.Proofs.Unitaries
variable {α P : Type} [CommRing α] [Amp α P]
set_option linter.unusedSectionVars false
set_option linter.unusedVariables false

/-- every operation of the list is documented and unitary, with matching arity and valid placement -/
def OpsGood (α : Type) {P : Type} [CommRing α] [Amp α P] (n : Nat) : OpList P → Prop
  | .nil => True
  | .cons g bits rest =>
    Good (α := α) g ∧ nrBits g = bits.length ∧ validBits n bits = true ∧ OpsGood α n rest

theorem opsMatrix_eq_specOps (n : Nat) : ∀ (ops : OpList P), OpsGood α n ops → ∀ acc : LMat α,
    opsMatrix (matrix (α := α)) n ops acc = specOps ops n acc
  | .nil, _, acc => by rw [opsMatrix, specOps]
  | .cons g bits rest, hg, acc => by
    rw [opsMatrix, specOps, hg.1.1]
    exact opsMatrix_eq_specOps n rest hg.2.2.2 _

theorem opsGood_all (h : LawfulAmp α P) (n : Nat) : ∀ (ops : OpList P), OpsGood α n ops →
    OpsAll (fun g bits => Unitary P (2 ^ n) (embed n bits (specMatrix g : LMat α))) ops
  | .nil, _ => trivial
  | .cons g bits rest, hg => by
    refine ⟨?_, opsGood_all h n rest hg.2.2.2⟩
    have hu := hg.1.2
    rw [hg.1.1, hg.2.1] at hu
    exact embed_unitary h n bits hg.2.2.1 _ hu

theorem good_composite (h : LawfulAmp α P) (nm : String) (n : Nat) (ops : OpList P)
    (hwf : Spec.WF (.Composite nm n ops)) (hn64 : n < 64) (hops : OpsGood α n ops) :
    Good (α := α) (.Composite nm n ops) := by
  have hm : (matrix (.Composite nm n ops) : LMat α) = specMatrix (.Composite nm n ops) := by
    rw [matrix_composite_eq_product h nm n ops hwf hn64, opsMatrix_eq_specOps n ops hops, specMatrix]
  refine ⟨hm, ?_⟩
  rw [hm]
  exact (spec_composite_loop_unitary h "" nm 0 ops (opsGood_all h n ops hops)).1

theorem good_loop (h : LawfulAmp α P) (l : String) (k : Nat) (nm : String) (n : Nat) (body : OpList P)
    (hwf : Spec.WF (.Loop l k nm n body)) (hn64 : n < 64) (hops : OpsGood α n body) :
    Good (α := α) (.Loop l k nm n body) := by
  have hwfc : Spec.WF (.Composite nm n body : GateTerm P) := by
    have hw := hwf
    rw [Spec.WF] at hw
    rw [Spec.WF]; exact hw
  have hc := good_composite h nm n body hwfc hn64 hops
  have hm : (matrix (.Loop l k nm n body) : LMat α) = specMatrix (.Loop l k nm n body) := by
    rw [matrix_loop_eq_pow h l k nm n body hwf hn64, hc.1, specMatrix, specMatrix]
  refine ⟨hm, ?_⟩
  rw [hm]
  exact (spec_composite_loop_unitary h l nm k body (opsGood_all h n body hops)).2

mutual
/-- every well-formed term has the documented matrix and is unitary -/
theorem good_of_wf (h : LawfulAmp α P) : ∀ g : GateTerm P, Spec.WF g → Small g → Good (α := α) g
  | .H, _, _ => good_of_term h _ trivial
  | .X, _, _ => good_of_term h _ trivial
  | .Y, _, _ => good_of_term h _ trivial
  | .Z, _, _ => good_of_term h _ trivial
  | .S, _, _ => good_of_term h _ trivial
  | .Sdg, _, _ => good_of_term h _ trivial
  | .T, _, _ => good_of_term h _ trivial
  | .Tdg, _, _ => good_of_term h _ trivial
  | .V, _, _ => good_of_term h _ trivial
  | .Vdg, _, _ => good_of_term h _ trivial
  | .I, _, _ => good_of_term h _ trivial
  | .RX θ, _, _ => good_of_term h _ trivial
  | .RY θ, _, _ => good_of_term h _ trivial
  | .RZ l, _, _ => good_of_term h _ trivial
  | .U1 l, _, _ => good_of_term h _ trivial
  | .U2 φ l, _, _ => good_of_term h _ trivial
  | .U3 θ φ l, _, _ => good_of_term h _ trivial
  | .CX, _, _ => good_of_term h _ trivial
  | .CY, _, _ => good_of_term h _ trivial
  | .CZ, _, _ => good_of_term h _ trivial
  | .Swap, _, _ => good_of_term h _ trivial
  | .C g, hwf, hs => by
    rw [Spec.WF] at hwf
    exact good_ctrl h (good_of_wf h g hwf (fun hc => by
      have := hs (by simpa only [hasComposite] using hc)
      simp only [nrBits] at this; omega))
  | .Kron g0 g1, hwf, hs => by
    rw [Spec.WF] at hwf
    exact good_kron h
      (good_of_wf h g0 hwf.1 (fun hc => by
        have := hs (by simp only [hasComposite, hc, Bool.true_or])
        simp only [nrBits] at this; omega))
      (good_of_wf h g1 hwf.2 (fun hc => by
        have := hs (by simp only [hasComposite, hc, Bool.or_true])
        simp only [nrBits] at this; omega))
  | .Composite nm n ops, hwf, hs => by
    have hn64 : n < 64 := by simpa only [nrBits] using hs rfl
    have hwf' := hwf
    rw [Spec.WF] at hwf'
    exact good_composite h nm n ops hwf hn64 (opsGood_of_wf h n hn64 ops hwf'.2)
  | .Loop l k nm n body, hwf, hs => by
    have hn64 : n < 64 := by simpa only [nrBits] using hs rfl
    have hwf' := hwf
    rw [Spec.WF] at hwf'
    exact good_loop h l k nm n body hwf hn64 (opsGood_of_wf h n hn64 body hwf'.2)
theorem opsGood_of_wf (h : LawfulAmp α P) : ∀ (n : Nat), n < 64 → ∀ ops : OpList P, WFOps n ops →
    OpsGood α n ops
  | _, _, .nil, _ => trivial
  | n, hn, .cons g bits rest, hwf => by
    rw [WFOps] at hwf
    exact ⟨good_of_wf h g hwf.1 (fun _ => by
        have := BitPerm.validBits_length_le n bits hwf.2.2.1
        rw [hwf.2.1]; omega),
      hwf.2.1, hwf.2.2.1, opsGood_of_wf h n hn rest hwf.2.2.2⟩
end

end Q1t.Proofs.Route

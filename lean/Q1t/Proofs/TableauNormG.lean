import Q1t.Proofs.TableauProjectG
set_option linter.unusedSectionVars false
set_option linter.unusedVariables false
set_option linter.unusedSimpArgs false
/-!
C03, general-ring part 6: the Pauli action preserves the squared norm; the two projections of a vector on a
qubit split its squared norm.
-/
namespace Q1t.Proofs.TabG
open Q1t Q1t.Tableau Q1t.Spec Q1t.Spec.Pauli Q1t.Proofs.Tableau Q1t.Sim

variable {α A : Type} [CommRing α] [Amp α A] [SimAmp α] {nz : α → Prop}

theorem normSqSum_append (x y : List α) : normSqSum (x ++ y) = normSqSum x + normSqSum y := by
  simp [normSqSum]

theorem normSqSum_take_drop (v : List α) (m : Nat) : normSqSum v = normSqSum (v.take m) + normSqSum (v.drop m) := by
  rw [← normSqSum_append, List.take_append_drop]

theorem conj_I_pow (h : LawfulAmp α A) (k : Nat) :
    (Amp.I A : α) ^ k * Amp.conj A ((Amp.I A : α) ^ k) = 1 := by
  induction k with
  | zero => simp [h.conj_one]
  | succ k ih =>
    rw [pow_succ, h.conj_mul, h.conj_I]
    have : (Amp.I A : α) ^ k * Amp.I A * (Amp.conj A ((Amp.I A : α) ^ k) * -Amp.I A) =
        ((Amp.I A : α) ^ k * Amp.conj A ((Amp.I A : α) ^ k)) * -(Amp.I A * Amp.I A) := by ring
    rw [this, ih, h.I_mul_I]; ring

theorem normSq_I_pow_mul (h : LawfulAmp α A) (hs : LawfulSim α A nz) (k : Nat) (x : α) :
    SimAmp.normSq ((Amp.I A : α) ^ k * x) = SimAmp.normSq x := by
  rw [hs.normSq_eq, hs.normSq_eq, h.conj_mul]
  have : (Amp.I A : α) ^ k * x * (Amp.conj A ((Amp.I A : α) ^ k) * Amp.conj A x) =
      ((Amp.I A : α) ^ k * Amp.conj A ((Amp.I A : α) ^ k)) * (x * Amp.conj A x) := by ring
  rw [this, conj_I_pow h, one_mul]

theorem normSqSum_smulI (h : LawfulAmp α A) (hs : LawfulSim α A nz) (k : Nat) (v : List α) :
    normSqSum (smul A k v) = normSqSum v := by
  simp only [normSqSum, smul, List.map_map]
  congr 1
  apply List.map_congr_left
  intro x _
  exact normSq_I_pow_mul h hs k x

/-- the Pauli action preserves the squared norm -/
theorem normSqSum_actOps (h : LawfulAmp α A) (hs : LawfulSim α A nz) (r : List P) :
    ∀ v : List α, v.length = 2 ^ r.length → normSqSum (actOps A r v) = normSqSum v := by
  induction r with
  | nil => intro v _; rfl
  | cons p ps ih =>
    intro v hv
    obtain ⟨h0, h1⟩ := halves_length v ps.length (by simpa using hv)
    rw [actOps_cons, normSqSum_append, normSqSum_take_drop v (v.length / 2)]
    cases p <;> simp only [cellAct, normSqSum_smulI h hs, ih _ h0, ih _ h1]
    · exact add_comm _ _
    · exact add_comm _ _

/-- the two projections split the squared norm (`Sim.normSqSum_split`) -/
theorem normSqSum_project (hs : LawfulSim α A nz) (n q : Nat) (ψ : List α) :
    normSqSum (project n q false ψ) + normSqSum (project n q true ψ) = normSqSum ψ :=
  Q1t.Sim.normSqSum_split hs n q ψ

end Q1t.Proofs.TabG

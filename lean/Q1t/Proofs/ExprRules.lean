import Q1t.Proofs.ExprTotal
/-!
C14, part 3: big-step rules for the model.  `XTo s res` says: level `X` of the parser, run on `s` with
*any* sufficient recursion budget (and the sum level with any sufficient budget passed in), yields
`res`.  Each rule is one unfolding of the corresponding Rust function.  (Core Lean only.)
-/
namespace Q1t.Proofs.Expr
open Q1t.Expr

def FunTo (s : List Char) (res : PRes) : Prop :=
  ∀ k, s.length ≤ k → parseFunction (parseSum k) s = res
def PowTo (s : List Char) (res : PRes) : Prop :=
  ∀ k n, s.length ≤ k → s.length < n → parsePower (parseSum k) n s = res
def NegLoopTo (b : Bool) (s : List Char) (res : Res (Bool × List Char)) : Prop :=
  ∀ n, s.length < n → negLoop n b s = res
def NegTo (s : List Char) (res : PRes) : Prop :=
  ∀ k n, s.length ≤ k → s.length < n → parseNegative (parseSum k) n s = res
def ProdLoopTo (left : Expr) (s : List Char) (res : PRes) : Prop :=
  ∀ k n, s.length ≤ k → s.length < n → productLoop (parseSum k) n left s = res
def ProdTo (s : List Char) (res : PRes) : Prop :=
  ∀ k n, s.length ≤ k → s.length < n → parseProduct (parseSum k) n s = res
def SumLoopTo (left : Expr) (s : List Char) (res : PRes) : Prop :=
  ∀ k n, s.length ≤ k → s.length < n → sumLoop (parseSum k) n left s = res
def SumTo (s : List Char) (res : PRes) : Prop :=
  ∀ k, s.length < k → parseSum k s = res

theorem SumTo.parse {s : List Char} {res : PRes} (h : SumTo s res) : parse s = res :=
  h (s.length + 1) (Nat.lt_succ_self _)

/-! ### atoms -/

theorem rule_literal {s : List Char} {res : PRes} (h1 : reFunOpen s = none) (h2 : reLit ['('] s = none)
    (h3 : parseRealLiteral s = res) : FunTo s res := by
  intro k _
  simp only [parseFunction, h1, parseParen, h2, h3]

theorem rule_paren {s r rest r2 : List Char} {e : Expr} (h1 : reFunOpen s = none)
    (h2 : reLit ['('] s = some r) (h3 : SumTo r (.ok (e, rest))) (h4 : reLit [')'] rest = some r2) :
    FunTo s (.ok (e, r2)) := by
  intro k hk
  have := reLit_lt h2
  simp only [parseFunction, h1, parseParen, h2, h3 k (by omega), h4]

theorem rule_paren_unclosed {s r rest : List Char} {e : Expr} (h1 : reFunOpen s = none)
    (h2 : reLit ['('] s = some r) (h3 : SumTo r (.ok (e, rest))) (h4 : reLit [')'] rest = none) :
    FunTo s (.err (.unclosedParentheses s)) := by
  intro k hk
  have := reLit_lt h2
  simp only [parseFunction, h1, parseParen, h2, h3 k (by omega), h4]

theorem rule_paren_err {s r : List Char} {e : ParseError} (h1 : reFunOpen s = none)
    (h2 : reLit ['('] s = some r) (h3 : SumTo r (.err e)) : FunTo s (.err e) := by
  intro k hk
  have := reLit_lt h2
  simp only [parseFunction, h1, parseParen, h2, h3 k (by omega)]

theorem rule_fun {s nm r rest r2 : List Char} {e : Expr} (h1 : reFunOpen s = some (nm, r))
    (h3 : SumTo r (.ok (e, rest))) (h4 : reLit [')'] rest = some r2) :
    FunTo s (.ok (.function nm e, r2)) := by
  intro k hk
  have := reFunOpen_lt h1
  simp only [parseFunction, h1, h3 k (by omega), h4]

theorem rule_fun_unclosed {s nm r rest : List Char} {e : Expr} (h1 : reFunOpen s = some (nm, r))
    (h3 : SumTo r (.ok (e, rest))) (h4 : reLit [')'] rest = none) :
    FunTo s (.err (.unclosedParentheses s)) := by
  intro k hk
  have := reFunOpen_lt h1
  simp only [parseFunction, h1, h3 k (by omega), h4]

theorem rule_fun_err {s nm r : List Char} {e : ParseError} (h1 : reFunOpen s = some (nm, r))
    (h3 : SumTo r (.err e)) : FunTo s (.err e) := by
  intro k hk
  have := reFunOpen_lt h1
  simp only [parseFunction, h1, h3 k (by omega)]

/-! ### power -/

theorem rule_pow_none {s rest : List Char} {l : Expr} (h1 : FunTo s (.ok (l, rest)))
    (h2 : reLit ['^'] rest = none) : PowTo s (.ok (l, rest)) := by
  intro k n hk hn
  cases n with
  | zero => omega
  | succ n => simp only [parsePower, h1 k hk, h2]

theorem rule_pow_err {s : List Char} {e : ParseError} (h1 : FunTo s (.err e)) : PowTo s (.err e) := by
  intro k n hk hn
  cases n with
  | zero => omega
  | succ n => simp only [parsePower, h1 k hk]

theorem rule_pow_some {s rest r nr : List Char} {l right : Expr} (h1 : FunTo s (.ok (l, rest)))
    (hl : rest.length ≤ s.length) (h2 : reLit ['^'] rest = some r) (h3 : PowTo r (.ok (right, nr))) :
    PowTo s (.ok (.power l right, nr)) := by
  intro k n hk hn
  have := reLit_lt h2
  cases n with
  | zero => omega
  | succ n => simp only [parsePower, h1 k hk, h2, h3 k n (by omega) (by omega)]

theorem rule_pow_some_err {s rest r : List Char} {l : Expr} {e : ParseError} (h1 : FunTo s (.ok (l, rest)))
    (hl : rest.length ≤ s.length) (h2 : reLit ['^'] rest = some r) (h3 : PowTo r (.err e)) :
    PowTo s (.err e) := by
  intro k n hk hn
  have := reLit_lt h2
  cases n with
  | zero => omega
  | succ n => simp only [parsePower, h1 k hk, h2, h3 k n (by omega) (by omega)]

/-! ### unary minus -/

theorem rule_negloop_none {s : List Char} {b : Bool} (h : reLit ['-'] s = none) :
    NegLoopTo b s (.ok (b, s)) := by
  intro n hn
  cases n with
  | zero => omega
  | succ n => simp only [negLoop, h]

theorem rule_negloop_some {s r : List Char} {b : Bool} {res} (h : reLit ['-'] s = some r)
    (h2 : NegLoopTo (!b) r res) : NegLoopTo b s res := by
  intro n hn
  have := reLit_lt h
  cases n with
  | zero => omega
  | succ n => simp only [negLoop, h, h2 n (by omega)]

def wrapNeg (flip : Bool) (e : Expr) : Expr := if flip then .negative e else e

theorem rule_neg {s r nr : List Char} {flip : Bool} {e : Expr} (h1 : NegLoopTo false s (.ok (flip, r)))
    (hl : r.length ≤ s.length) (h2 : PowTo r (.ok (e, nr))) : NegTo s (.ok (wrapNeg flip e, nr)) := by
  intro k n hk hn
  simp only [parseNegative, h1 n hn, h2 k n (by omega) (by omega), wrapNeg]
  cases flip <;> simp

theorem rule_neg_err {s r : List Char} {flip : Bool} {e : ParseError} (h1 : NegLoopTo false s (.ok (flip, r)))
    (hl : r.length ≤ s.length) (h2 : PowTo r (.err e)) : NegTo s (.err e) := by
  intro k n hk hn
  simp only [parseNegative, h1 n hn, h2 k n (by omega) (by omega)]

/-! ### product -/

theorem rule_prodloop_none {s : List Char} {left : Expr} (h : reOp2 '*' '/' s = none) :
    ProdLoopTo left s (.ok (left, s)) := by
  intro k n hk hn
  cases n with
  | zero => omega
  | succ n => simp only [productLoop, h]

theorem rule_prodloop_some {s r nr : List Char} {c : Char} {left right : Expr} {res : PRes}
    (h : reOp2 '*' '/' s = some (c, r)) (h2 : NegTo r (.ok (right, nr))) (hl : nr.length ≤ r.length)
    (h3 : ProdLoopTo (if c = '*' then .product left right else .quotient left right) nr res) :
    ProdLoopTo left s res := by
  intro k n hk hn
  have := reOp2_lt h
  cases n with
  | zero => omega
  | succ n => simp only [productLoop, h, h2 k n (by omega) (by omega), h3 k n (by omega) (by omega)]

theorem rule_prodloop_err {s r : List Char} {c : Char} {left : Expr} {e : ParseError}
    (h : reOp2 '*' '/' s = some (c, r)) (h2 : NegTo r (.err e)) : ProdLoopTo left s (.err e) := by
  intro k n hk hn
  have := reOp2_lt h
  cases n with
  | zero => omega
  | succ n => simp only [productLoop, h, h2 k n (by omega) (by omega)]

theorem rule_prod {s rest : List Char} {l : Expr} {res : PRes} (h1 : NegTo s (.ok (l, rest)))
    (hl : rest.length ≤ s.length) (h2 : ProdLoopTo l rest res) : ProdTo s res := by
  intro k n hk hn
  simp only [parseProduct, h1 k n hk hn, h2 k n (by omega) (by omega)]

theorem rule_prod_err {s : List Char} {e : ParseError} (h1 : NegTo s (.err e)) : ProdTo s (.err e) := by
  intro k n hk hn
  simp only [parseProduct, h1 k n hk hn]

/-! ### sum -/

theorem rule_sumloop_none {s : List Char} {left : Expr} (h : reOp2 '-' '+' s = none) :
    SumLoopTo left s (.ok (left, s)) := by
  intro k n hk hn
  cases n with
  | zero => omega
  | succ n => simp only [sumLoop, h]

theorem rule_sumloop_some {s r nr : List Char} {c : Char} {left right : Expr} {res : PRes}
    (h : reOp2 '-' '+' s = some (c, r)) (h2 : ProdTo r (.ok (right, nr))) (hl : nr.length ≤ r.length)
    (h3 : SumLoopTo (if c = '+' then .sum left right else .difference left right) nr res) :
    SumLoopTo left s res := by
  intro k n hk hn
  have := reOp2_lt h
  cases n with
  | zero => omega
  | succ n => simp only [sumLoop, h, h2 k n (by omega) (by omega), h3 k n (by omega) (by omega)]

theorem rule_sumloop_err {s r : List Char} {c : Char} {left : Expr} {e : ParseError}
    (h : reOp2 '-' '+' s = some (c, r)) (h2 : ProdTo r (.err e)) : SumLoopTo left s (.err e) := by
  intro k n hk hn
  have := reOp2_lt h
  cases n with
  | zero => omega
  | succ n => simp only [sumLoop, h, h2 k n (by omega) (by omega)]

theorem rule_sum {s rest : List Char} {l : Expr} {res : PRes} (h1 : ProdTo s (.ok (l, rest)))
    (hl : rest.length ≤ s.length) (h2 : SumLoopTo l rest res) : SumTo s res := by
  intro k hk
  cases k with
  | zero => omega
  | succ k => simp only [parseSum, h1 k (k + 1) (by omega) (by omega), h2 k (k + 1) (by omega) (by omega)]

theorem rule_sum_err {s : List Char} {e : ParseError} (h1 : ProdTo s (.err e)) : SumTo s (.err e) := by
  intro k hk
  cases k with
  | zero => omega
  | succ k => simp only [parseSum, h1 k (k + 1) (by omega) (by omega)]

end Q1t.Proofs.Expr

import Q1t.Model.CQasm
import Q1t.Spec.CQ1
set_option linter.unusedSimpArgs false
/-!
C12 (`cq_wellformed_partial`), part 1: lexical lemmas about the reference parser of `Spec/CQ1` — trimming, splitting,
qubit / bit names, operand lists — for ALL texts of the stated shapes.
-/
namespace Q1t.Proofs.CQasm
open Q1t Q1t.CQ

/-- characters that may occur inside a name or an operand: no blank, no separator of the language -/
def okChar (c : Char) : Bool :=
  !(c == ' ' || c == '\t' || c == '\r' || c == '\n' || c == ',' || c == '{' || c == '}' || c == '|' || c == '#')

/-- a word: non-empty, made of `okChar`s -/
def word (t : Text) : Bool := !t.isEmpty && t.all okChar

theorem okChar_not_blank {c : Char} (h : okChar c = true) : CQ1.isBlank c = false := by
  simp [okChar, CQ1.isBlank] at *; simp [h]

/-! ### trim -/

theorem dropWhile_blank_of_head {s : Text} (h : ∀ c, s.head? = some c → CQ1.isBlank c = false) :
    s.dropWhile CQ1.isBlank = s := by
  cases s with
  | nil => rfl
  | cons c cs => simp [List.dropWhile, h c rfl]

/-- a text whose first and last characters are not blank is its own trim -/
theorem trim_id {s : Text} (h1 : ∀ c, s.head? = some c → CQ1.isBlank c = false)
    (h2 : ∀ c, s.getLast? = some c → CQ1.isBlank c = false) : CQ1.trim s = s := by
  unfold CQ1.trim
  rw [dropWhile_blank_of_head h1, dropWhile_blank_of_head (s := s.reverse), List.reverse_reverse]
  intro c hc
  rw [List.head?_reverse] at hc
  exact h2 c hc

theorem trim_nil : CQ1.trim [] = [] := rfl

theorem trim_cons_blank (c : Char) (s : Text) (hc : CQ1.isBlank c = true) : CQ1.trim (c :: s) = CQ1.trim s := by
  simp [CQ1.trim, List.dropWhile, hc]

theorem word_head {t : Text} (h : word t = true) : ∀ c, t.head? = some c → CQ1.isBlank c = false := by
  intro c hc
  simp only [word, Bool.and_eq_true, List.all_eq_true] at h
  apply okChar_not_blank
  apply h.2
  cases t with
  | nil => cases hc
  | cons x xs => simp at hc; subst hc; simp

theorem word_last {t : Text} (h : word t = true) : ∀ c, t.getLast? = some c → CQ1.isBlank c = false := by
  intro c hc
  simp only [word, Bool.and_eq_true, List.all_eq_true] at h
  apply okChar_not_blank
  apply h.2
  exact List.mem_of_getLast? hc

theorem trim_word {t : Text} (h : word t = true) : CQ1.trim t = t := trim_id (word_head h) (word_last h)

theorem word_ne_nil {t : Text} (h : word t = true) : t ≠ [] := by
  intro e; subst e; simp [word] at h

/-! ### splitting -/

theorem splitOnChar_cons (c x : Char) (xs : Text) :
    CQ1.splitOnChar c (x :: xs) =
      match CQ1.splitOnChar c xs with
      | [] => [[]]
      | t :: ts => if x = c then [] :: t :: ts else (x :: t) :: ts := by
  rfl

theorem splitOnChar_ne_nil (c : Char) (s : Text) : CQ1.splitOnChar c s ≠ [] := by
  induction s with
  | nil => simp [CQ1.splitOnChar]
  | cons x xs ih =>
    rw [splitOnChar_cons]
    split
    · exact absurd ‹_› ih
    · split <;> simp

theorem splitOnChar_none (c : Char) (s : Text) (h : ∀ x ∈ s, x ≠ c) : CQ1.splitOnChar c s = [s] := by
  induction s with
  | nil => rfl
  | cons x xs ih =>
    rw [splitOnChar_cons, ih (fun y hy => h y (by simp [hy]))]
    simp [h x (by simp)]

theorem splitOnChar_append (c : Char) (a b : Text) (h : ∀ x ∈ a, x ≠ c) :
    CQ1.splitOnChar c (a ++ c :: b) = a :: CQ1.splitOnChar c b := by
  induction a with
  | nil =>
    show CQ1.splitOnChar c (c :: b) = _
    rw [splitOnChar_cons]
    cases hb : CQ1.splitOnChar c b with
    | nil => exact absurd hb (splitOnChar_ne_nil c b)
    | cons t ts => simp
  | cons x xs ih =>
    show CQ1.splitOnChar c (x :: (xs ++ c :: b)) = _
    rw [splitOnChar_cons, ih (fun y hy => h y (by simp [hy]))]
    simp [h x (by simp)]

/-- general form: splitting distributes over a separator -/
theorem splitOnChar_append' (c : Char) (a b : Text) :
    CQ1.splitOnChar c (a ++ c :: b) = CQ1.splitOnChar c a ++ CQ1.splitOnChar c b := by
  induction a with
  | nil =>
    show CQ1.splitOnChar c (c :: b) = CQ1.splitOnChar c [] ++ _
    rw [splitOnChar_cons]
    cases hb : CQ1.splitOnChar c b with
    | nil => exact absurd hb (splitOnChar_ne_nil c b)
    | cons t ts => simp [CQ1.splitOnChar]
  | cons x xs ih =>
    show CQ1.splitOnChar c (x :: (xs ++ c :: b)) = CQ1.splitOnChar c (x :: xs) ++ _
    rw [splitOnChar_cons, splitOnChar_cons, ih]
    cases ha : CQ1.splitOnChar c xs with
    | nil => exact absurd ha (splitOnChar_ne_nil c xs)
    | cons t ts =>
      by_cases hx : x = c <;> simp [hx]

/-! ### operand lists: `a, b, c` -/

theorem word_no_comma {t : Text} (h : word t = true) : ∀ x ∈ t, x ≠ ',' := by
  intro x hx e
  simp only [word, Bool.and_eq_true, List.all_eq_true] at h
  have := h.2 x hx
  subst e
  simp [okChar] at this

/-- the operand texts of a printed operand list -/
theorem split_operands : ∀ (ops : List Text), ops ≠ [] → (∀ t ∈ ops, word t = true) →
    (CQ1.splitOnChar ',' (intercalate ", ".toList ops)).map CQ1.trim = ops
  | [], h, _ => absurd rfl h
  | [t], _, hw => by
    simp only [intercalate]
    rw [splitOnChar_none ',' t (word_no_comma (hw t (by simp)))]
    simp [trim_word (hw t (by simp))]
  | t :: t' :: ts, _, hw => by
    have ih := split_operands (t' :: ts) (by simp) (fun x hx => hw x (by simp [hx]))
    show (CQ1.splitOnChar ',' (t ++ ", ".toList ++ intercalate ", ".toList (t' :: ts))).map CQ1.trim = _
    have e : t ++ ", ".toList ++ intercalate ", ".toList (t' :: ts) =
        t ++ ',' :: (' ' :: intercalate ", ".toList (t' :: ts)) := by simp
    rw [e, splitOnChar_append ',' t _ (word_no_comma (hw t (by simp)))]
    simp only [List.map_cons, trim_word (hw t (by simp))]
    congr 1
    -- a leading blank disappears under trim of the first piece
    have : ∀ r : Text, (CQ1.splitOnChar ',' (' ' :: r)).map CQ1.trim = (CQ1.splitOnChar ',' r).map CQ1.trim := by
      intro r
      rw [splitOnChar_cons]
      cases hr : CQ1.splitOnChar ',' r with
      | nil => exact absurd hr (splitOnChar_ne_nil ',' r)
      | cons p ps =>
        have : (' ' = ',') = False := by decide
        simp [this, trim_cons_blank ' ' p (by decide)]
    rw [this, ih]

/-! ### names of qubits and bits -/

theorem natText_digits (n : Nat) : ∀ c ∈ natText n, CQ1.isDigit c = true := by
  intro c hc
  have h1 : natText n = Nat.toDigits 10 n := by
    simp [natText, Nat.toString_eq_repr, Nat.toList_repr]
  rw [h1] at hc
  have := Nat.isDigit_of_mem_toDigits (by decide) (by decide) hc
  simp [Char.isDigit] at this
  simp [CQ1.isDigit]
  constructor
  · exact this.1
  · exact this.2

theorem natText_ne_nil (n : Nat) : natText n ≠ [] := by
  have h1 : natText n = Nat.toDigits 10 n := by
    simp [natText, Nat.toString_eq_repr, Nat.toList_repr]
  rw [h1]; exact Nat.toDigits_ne_nil

theorem natOfDigits_natText (n : Nat) : CQ1.natOfDigits (natText n) = n := by
  have h1 : natText n = Nat.toDigits 10 n := by
    simp [natText, Nat.toString_eq_repr, Nat.toList_repr]
  have h2 : ∀ (l : Text) (init : Nat),
      l.foldl (fun acc c => acc * 10 + (c.toNat - 48)) init = Nat.ofDigitChars 10 l init := by
    intro l
    induction l with
    | nil => intro init; simp
    | cons c cs ih => intro init; rw [List.foldl_cons, ih, Nat.ofDigitChars_cons]; simp [Nat.mul_comm]
  unfold CQ1.natOfDigits
  rw [h2, h1]
  exact Nat.ofDigitChars_ten_toDigits

theorem takeWhile_digits_append (ds rest : Text) (hd : ∀ c ∈ ds, CQ1.isDigit c = true)
    (hr : ∀ c, rest.head? = some c → CQ1.isDigit c = false) :
    (ds ++ rest).takeWhile CQ1.isDigit = ds := by
  induction ds with
  | nil =>
    cases rest with
    | nil => rfl
    | cons c cs => simp [List.takeWhile, hr c rfl]
  | cons d ds ih =>
    simp [List.takeWhile, hd d (by simp), ih (fun c hc => hd c (by simp [hc]))]

theorem indexed_name (p : Char) (i : Nat) :
    CQ1.indexed p (p :: '[' :: (natText i ++ [']'])) = some i := by
  unfold CQ1.indexed
  have htw := takeWhile_digits_append (natText i) [']'] (natText_digits i) (by intro c hc; simp at hc; subst hc; decide)
  simp only [htw, if_true, ne_eq, not_true_eq_false, if_false]
  have : (natText i).isEmpty = false := by
    cases h : natText i with
    | nil => exact absurd h (natText_ne_nil i)
    | cons _ _ => rfl
  simp [htw, this, natOfDigits_natText]

theorem parseArg_qName (i : Nat) : CQ1.parseArg (qName i) = some (.q i) := by
  have : qName i = 'q' :: '[' :: (natText i ++ [']']) := by simp [qName]
  rw [this]; unfold CQ1.parseArg; rw [indexed_name]

theorem indexed_mismatch (p p' : Char) (h : p ≠ p') (r : Text) : CQ1.indexed p (p' :: '[' :: r) = none := by
  unfold CQ1.indexed
  simp only [ne_eq]
  rw [if_pos (fun e => h e.symm)]

theorem parseArg_bName (i : Nat) : CQ1.parseArg (bName i) = some (.b i) := by
  have : bName i = 'b' :: '[' :: (natText i ++ [']']) := by simp [bName]
  rw [this]; unfold CQ1.parseArg
  rw [indexed_mismatch 'q' 'b' (by decide), indexed_name]

theorem digits_okChar {c : Char} (h : CQ1.isDigit c = true) : okChar c = true := by
  simp only [okChar, Bool.not_eq_true', Bool.or_eq_false_iff, beq_eq_false_iff_ne, ne_eq]
  refine ⟨⟨⟨⟨⟨⟨⟨⟨?_, ?_⟩, ?_⟩, ?_⟩, ?_⟩, ?_⟩, ?_⟩, ?_⟩, ?_⟩ <;> (intro e; subst e; revert h; decide)

theorem word_indexed (p : Char) (hp : okChar p = true) (i : Nat) :
    word (p :: '[' :: (natText i ++ [']'])) = true := by
  simp only [word, List.isEmpty_cons, Bool.not_false, Bool.true_and, List.all_cons, List.all_append,
    List.all_nil, Bool.and_true, Bool.and_eq_true, List.all_eq_true]
  refine ⟨hp, by decide, fun c hc => digits_okChar (natText_digits i c hc), by decide⟩

theorem word_qName (i : Nat) : word (qName i) = true := by
  have : qName i = 'q' :: '[' :: (natText i ++ [']']) := by simp [qName]
  rw [this]; exact word_indexed 'q' (by decide) i

theorem word_bName (i : Nat) : word (bName i) = true := by
  have : bName i = 'b' :: '[' :: (natText i ++ [']']) := by simp [bName]
  rw [this]; exact word_indexed 'b' (by decide) i

theorem qNames_get (nq b : Nat) (h : b < nq) : (qNames nq)[b]? = some (qName b) := by
  simp [qNames, h]

end Q1t.Proofs.CQasm

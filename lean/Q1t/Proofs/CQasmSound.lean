import Q1t.Proofs.CQasmLib
set_option linter.unusedSimpArgs false
set_option linter.unusedVariables false
/-!
C12 (`cq_wellformed_partial`), part 11: consequences of `GoodPrinted` (a printed line is a good line; so is its
binary-controlled form; two of them on disjoint qubits form a good bundle), and the lines the circuit itself writes.
-/
namespace Q1t.Proofs.CQasm
open Q1t Q1t.CQ Q1t.Gen

theorem printInstr_trim_chars (name : Text) (ops : List Text) (hn : word name = true) (ho : ∀ t ∈ ops, word t = true) :
    printInstr name ops ≠ [] ∧ CQ1.trim (printInstr name ops) = printInstr name ops ∧
    (∀ c ∈ printInstr name ops, c ≠ '#' ∧ c ≠ '\n') ∧ (∀ c ∈ printInstr name ops, c ≠ '|' ∧ c ≠ '{' ∧ c ≠ '}') :=
  ⟨printInstr_ne_nil name ops hn, trim_printInstr name ops hn ho,
    fun c hc => ⟨(printInstr_chars name ops hn ho c hc).2.2.2.1, (printInstr_chars name ops hn ho c hc).2.2.2.2⟩,
    fun c hc => ⟨(printInstr_chars name ops hn ho c hc).1, (printInstr_chars name ops hn ho c hc).2.1,
      (printInstr_chars name ops hn ho c hc).2.2.1⟩⟩

/-- a parsed instruction that is well formed is a good line -/
theorem lineOK_of_instr (nq : Nat) (name : Text) (ops : List Text) (i : CQ1.Instr) (hn : word name = true)
    (ho : ∀ t ∈ ops, word t = true) (hh : name.head? ≠ some '.') (hp : CQ1.parseInstr (printInstr name ops) = .ok i)
    (hw : CQ1.instrWf nq i = none) : LinesOK nq (printInstr name ops) := by
  obtain ⟨h1, h2, h3, h4⟩ := printInstr_trim_chars name ops hn ho
  apply linesOK_single nq _ h1 h2 h3
  right
  refine ⟨by rw [printInstr_head name ops hn]; exact hh, .one i, parseStmt_line _ i h2 h4 hp, hw⟩

variable {nq : Nat} {bits : List Nat}

theorem goodPrinted_instr (line : Text) (h : GoodPrinted nq bits line) (hb : ∀ b ∈ bits, b < nq) :
    ∃ i, CQ1.parseInstr line = .ok i ∧ CQ1.instrWf nq i = none ∧ i.name ≠ "measure_all" ∧
      (∀ q ∈ i.qubits nq, q ∈ bits) ∧ (i.qubits nq).Nodup := by
  obtain ⟨name, ops, args, sig, rfl, h1, h2, h3, h4, h5, h6, h7, h8, h9, h10, h11, h12, h13⟩ := h.ex
  have hp := parseInstr_plain name ops args sig h1 (notCondName_spec h2) h5 h6 h7 h8
  have hname : String.ofList name ≠ "measure_all" := by
    intro e; rw [e] at h9; simp [CQ1.isGate] at h9
  have hq : (⟨[], String.ofList name, args⟩ : CQ1.Instr).qubits nq = args.filterMap CQ1.qIndex := by
    simp [CQ1.Instr.qubits, hname]
  refine ⟨_, hp, ?_, hname, by rw [hq]; exact h12, by rw [hq]; exact h11⟩
  apply instrWf_ok nq _ hname
  · intro k hk; exact hb k (h12 k hk)
  · exact h11
  · intro k hk; simp [h13] at hk

theorem goodPrinted_linesOK (line : Text) (h : GoodPrinted nq bits line) (hb : ∀ b ∈ bits, b < nq) :
    LinesOK nq line := by
  obtain ⟨i, hp, hw, _, _, _⟩ := goodPrinted_instr line h hb
  obtain ⟨name, ops, args, sig, rfl, h1, h2, h3, h4, h5, _⟩ := h.ex
  exact lineOK_of_instr nq name ops i h1 h5 h3 hp hw

theorem intercalate_append_ne (sep : Text) : ∀ (a b : List Text), a ≠ [] → b ≠ [] →
    intercalate sep (a ++ b) = intercalate sep a ++ sep ++ intercalate sep b
  | [], _, h, _ => absurd rfl h
  | [t], b, _, hb => by
    cases b with
    | nil => exact absurd rfl hb
    | cons x xs => simp [intercalate]
  | t :: t' :: ts, b, _, hb => by
    have ih := intercalate_append_ne sep (t' :: ts) b (by simp) hb
    simp only [List.cons_append] at ih ⊢
    simp only [intercalate, ih, List.append_assoc]

/-- the default `conditional_c_qasm` applied to a text whose first line is a printed gate instruction -/
theorem defaultCond_printed (control : List Nat) (hc : control ≠ []) (name : Text) (ops : List Text) (rest : Text)
    (hn : word name = true) (hops : ops ≠ []) :
    defaultCond (intercalate ", ".toList (control.map bName)) (printInstr name ops ++ rest) =
      .ok (printInstr ('c' :: '-' :: name) (control.map bName ++ ops) ++ rest) := by
  have hne : ops.isEmpty = false := by cases ops with | nil => exact absurd rfl hops | cons _ _ => rfl
  have hne2 : (control.map bName ++ ops).isEmpty = false := by
    cases control with | nil => exact absurd rfl hc | cons _ _ => rfl
  unfold defaultCond
  simp only [printInstr, hne, hne2, Bool.false_eq_true, if_false, List.append_assoc, List.cons_append]
  have hsp : splitFirst ' ' (name ++ ' ' :: (intercalate ", ".toList ops ++ rest)) =
      some (name, intercalate ", ".toList ops ++ rest) := by
    apply splitFirst_append
    intro x hx e
    simp only [word, Bool.and_eq_true, List.all_eq_true] at hn
    have := hn.2 x hx; subst e; simp [okChar] at this
  rw [hsp]
  have hp : cqCondPieces.map String.toList = ["c-".toList, " ".toList, ", ".toList, []] := by decide
  simp only [hp, fillFormat]
  rw [intercalate_append_ne _ (control.map bName) ops (by simpa using hc) hops]
  simp [List.append_assoc]

/-- the binary-controlled form of a printed line is a good line -/
theorem goodPrinted_cond_linesOK (control : List Nat) (hc : control ≠ []) (hcb : ∀ k ∈ control, k < nq)
    (name : Text) (ops : List Text) (h : GoodPrinted nq bits (printInstr name ops)) (hb : ∀ b ∈ bits, b < nq)
    (hn : word name = true) (hops : ∀ t ∈ ops, word t = true)
    (args : List CQ1.Arg) (sig : List CQ1.Kind) (h6 : ops.map CQ1.parseArg = args.map some)
    (h7 : CQ1.signature (String.ofList name) = some sig) (h8 : CQ1.argsMatch args sig = true)
    (h9 : CQ1.isGate (String.ofList name) = true) (h10 : ∀ a, args.head? = some a → CQ1.isB a = false)
    (h11 : (args.filterMap CQ1.qIndex).Nodup) (h12 : ∀ q ∈ args.filterMap CQ1.qIndex, q ∈ bits)
    (h13 : args.filterMap CQ1.bIndex = []) :
    LinesOK nq (printInstr ('c' :: '-' :: name) (control.map bName ++ ops)) := by
  have hp := parseInstr_cond name control ops args sig hn hc hops h6 h7 h9 h8 h10
  have hn' : word ('c' :: '-' :: name) = true := by
    simp only [word, Bool.and_eq_true, List.all_eq_true] at hn ⊢
    refine ⟨by simp, ?_⟩
    intro c hcm
    rcases List.mem_cons.mp hcm with rfl | hcm
    · decide
    rcases List.mem_cons.mp hcm with rfl | hcm
    · decide
    · exact hn.2 c hcm
  have ho' : ∀ t ∈ control.map bName ++ ops, word t = true := by
    intro t ht
    rcases List.mem_append.mp ht with h | h
    · obtain ⟨i, _, rfl⟩ := List.mem_map.mp h; exact word_bName i
    · exact hops t h
  have hname : String.ofList name ≠ "measure_all" := by
    intro e; rw [e] at h9; simp [CQ1.isGate] at h9
  apply lineOK_of_instr nq _ _ _ hn' ho' (by simp) hp
  apply instrWf_ok nq _ hname
  · intro k hk; exact hb k (h12 k hk)
  · exact h11
  · intro k hk
    simp only [h13, List.append_nil] at hk
    exact hcb k hk

end Q1t.Proofs.CQasm

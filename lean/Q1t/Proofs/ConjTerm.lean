import Q1t.Proofs.ConjBridge
import Q1t.Proofs.ConjModel
import Q1t.Proofs.EmbedLift
import Q1t.Proofs.UnitariesTerm
set_option linter.unusedSimpArgs false
set_option linter.unusedSectionVars false
set_option linter.unusedVariables false
/-!
# C06, part 4: exactness of the conjugation rule of every term, by structural induction

`RuleExact M k rule` — `rule` answers every Pauli string of length `k` with `(flip, ops')` of length
`k` such that `M · P(ops) = ± P(ops') · M`.

`term_exact` — for every well-formed term that claims `is_stabilizer`, over any commutative ring:
if the claiming PRIMITIVES are exact (`PrimsExact`, a fact about the generated table proved in the
kernel over `Q8`) and embedding preserves intertwining (`EmbedExact`, proved in
`ConjEmbed.lean`), then the documented matrix `Spec.specMatrix g` (`Kron` = Kronecker product,
`Composite` = ordered product of the embedded factors, `Loop` = power) is a `2^k × 2^k` matrix and
the model's `conjugate` is exact for it.
-/
namespace Q1t.Proofs.ConjTerm
open Q1t Q1t.Gate Q1t.LMat Q1t.Spec Q1t.Spec.Clifford Q1t.Proofs.ConjBridge Q1t.Proofs.ConjModel
open Q1t.Proofs.ConjPrim (IsPrim)
open Q1t.Conj hiding Pauli

variable {α A : Type} [CommRing α] [Amp α A]

variable (A) in
/-- the rule answers every string of length `k` exactly (intertwining form) -/
def RuleExact (M : LMat α) (k : Nat) (rule : List Pauli → Conj.Result) : Prop :=
  ∀ ops : List Pauli, ops.length = k →
    ∃ flip ops', rule ops = .ok (flip, ops') ∧ ops'.length = k ∧ Intertwines A M ops flip ops'

/-- the claiming primitives have square matrices of the right size and exact rules -/
def PrimsExact (α A : Type) [CommRing α] [Amp α A] (tbl : Table) (noCheck : List String) : Prop :=
  ∀ g : GateTerm A, IsPrim g → isStabilizerT tbl g = true →
    WF (2 ^ nrBits g) (2 ^ nrBits g) (specMatrix g : LMat α) ∧
    RuleExact A (specMatrix g : LMat α) (nrBits g) (conjugateT tbl noCheck g)

/-- embedding a gate on distinct in-range qubits preserves exactness: the rule of the register is
"gather the listed operators, apply the gate's rule, scatter the result back" -/
def EmbedExact (α A : Type) [CommRing α] [Amp α A] : Prop :=
  ∀ (n : Nat) (bits : List Nat) (M : LMat α) (Q L L' : List Pauli) (flip : Bool),
    validBits n bits = true → Q.length = n → WF (2 ^ bits.length) (2 ^ bits.length) M →
    gather Q bits = some L → L'.length = bits.length → Intertwines A M L flip L' →
    Intertwines A (embed n bits M) Q flip (scatter Q bits L')

/-! ## list lemmas for gather / scatter -/

theorem gather_some (Q : List Pauli) : ∀ bits : List Nat, (∀ b ∈ bits, b < Q.length) →
    ∃ L, gather Q bits = some L ∧ L.length = bits.length
  | [], _ => ⟨[], by simp [gather]⟩
  | b :: bs, h => by
    obtain ⟨L, hL, hlen⟩ := gather_some Q bs (fun x hx => h x (List.mem_cons_of_mem _ hx))
    have hb : b < Q.length := h b (List.mem_cons_self ..)
    refine ⟨Q[b] :: L, ?_, by simp [hlen]⟩
    unfold gather at hL ⊢
    simp [List.mapM_cons, hL, hb]

theorem scatter_length (Q : List Pauli) (bits : List Nat) (L : List Pauli) :
    (scatter Q bits L).length = Q.length := by
  unfold scatter
  generalize bits.zip L = z
  induction z generalizing Q with
  | nil => rfl
  | cons x xs ih => simp [List.foldl_cons, ih]

/-! ## loops -/

theorem mpow_succ_right {n : Nat} {B : LMat α} (hn : 0 < n) (hB : WF n n B) (k : Nat) :
    LMat.mul (mpow B k) B = mpow B (k + 1) := by
  have h1 := toM_mpow hn hB k
  have h2 := toM_mpow hn hB (k + 1)
  apply toM_inj (wf_mul h1.1 hB hn) h2.1
  rw [toM_mul h1.1 hB hn, h1.2, h2.2, pow_succ]

theorem iter_exact {n : Nat} {B : LMat α} (hB : WF (2 ^ n) (2 ^ n) B) (f : List Pauli → Conj.Result)
    (hf : RuleExact A B n f) :
    ∀ (k : Nat) (ops : List Pauli) (flip : Bool), ops.length = n →
      ∃ fl ops', iterConj f k ops flip = .ok (flip != fl, ops') ∧ ops'.length = n ∧
        Intertwines A (mpow B k) ops fl ops'
  | 0, ops, flip, hl => by
    refine ⟨false, ops, by simp [iterConj], hl, ?_⟩
    show Intertwines A (LMat.identity B.length) ops false ops
    rw [hB.1]
    exact identity_intertwines hl
  | k + 1, ops, flip, hl => by
    obtain ⟨fl, ops1, h1, hl1, i1⟩ := hf ops hl
    obtain ⟨fl2, ops2, h2, hl2, i2⟩ := iter_exact hB f hf k ops1 (flip != fl) hl1
    refine ⟨fl != fl2, ops2, ?_, hl2, ?_⟩
    · simp only [iterConj, h1, h2]
      cases flip <;> cases fl <;> cases fl2 <;> rfl
    · rw [← mpow_succ_right (Nat.pow_pos (by decide)) hB k]
      exact mul_intertwines hB (toM_mpow (Nat.pow_pos (by decide)) hB k).1 hl hl1 hl2 i1 i2

/-! ## the induction -/

/-- what is proved about a term -/
structure TermExact (tbl : Table) (noCheck : List String) (g : GateTerm A) : Prop where
  wf : WF (2 ^ nrBits g) (2 ^ nrBits g) (specMatrix g : LMat α)
  rule : RuleExact A (specMatrix g : LMat α) (nrBits g) (conjugateT tbl noCheck g)

section induction
variable (tbl : Table) (noCheck : List String) (hp : PrimsExact α A tbl noCheck) (hE : EmbedExact α A)
include hp hE

mutual
theorem term_exact : (g : GateTerm A) → Spec.WF g → isStabilizerT tbl g = true →
    TermExact (α := α) tbl noCheck g
  | .C g, _, hs => by simp [isStabilizerT] at hs
  | .Kron g0 g1, hw, hs => by
    simp only [Spec.WF] at hw
    simp only [isStabilizerT, Bool.and_eq_true] at hs
    have e0 := term_exact g0 hw.1 hs.1
    have e1 := term_exact g1 hw.2 hs.2
    have hp0 : 0 < 2 ^ nrBits g0 := Nat.pow_pos (by decide)
    have hp1 : 0 < 2 ^ nrBits g1 := Nat.pow_pos (by decide)
    refine ⟨?_, ?_⟩
    · simp only [nrBits, specMatrix, Nat.pow_add]
      exact wf_kronecker e0.wf e1.wf hp0 hp1
    · intro ops hl
      simp only [nrBits] at hl
      have hl0 : (ops.take (nrBits g0)).length = nrBits g0 := by simp [hl]
      have hl1 : (ops.drop (nrBits g0)).length = nrBits g1 := by simp [hl]
      obtain ⟨f0, o0, c0, l0, i0⟩ := e0.rule _ hl0
      obtain ⟨f1, o1, c1, l1, i1⟩ := e1.rule _ hl1
      refine ⟨f0 != f1, o0 ++ o1, ?_, by simp [nrBits, l0, l1], ?_⟩
      · simp only [conjugateT, hl, ne_eq, not_true_eq_false, ↓reduceIte, c0, c1]
      · have := kron_intertwines e0.wf e1.wf hl0 l0 hl1 l1 i0 i1
        rwa [List.take_append_drop] at this
  | .Composite nm n body, hw, hs => by
    simp only [Spec.WF] at hw
    simp only [isStabilizerT] at hs
    refine ⟨?_, ?_⟩
    · simp only [nrBits, specMatrix]
      obtain ⟨_, _, _, _, _, hwf⟩ := ops_exact body n hw.2 hs (LMat.identity (2 ^ n)) (wf_identity _)
        (List.replicate n .I) (List.replicate n .I) false (by simp) (by simp)
        (identity_intertwines (by simp))
      exact hwf
    · intro ops hl
      simp only [nrBits] at hl
      obtain ⟨f', Q', hc, hl', hi, _⟩ := ops_exact body n hw.2 hs (LMat.identity (2 ^ n)) (wf_identity _)
        ops ops false hl hl (identity_intertwines hl)
      exact ⟨f', Q', by simp only [conjugateT, hl, ne_eq, not_true_eq_false, ↓reduceIte, hc], hl',
        by simpa only [specMatrix] using hi⟩
  | .Loop label iters nm n body, hw, hs => by
    simp only [Spec.WF] at hw
    simp only [isStabilizerT] at hs
    have hbody : WF (2 ^ n) (2 ^ n) (specOps body n (LMat.identity (2 ^ n)) : LMat α) ∧
        RuleExact A (specOps body n (LMat.identity (2 ^ n)) : LMat α) n
          (fun p => if p.length ≠ n then .error (.invalidNrBits p.length n) else conjOpsT tbl noCheck body p false) := by
      refine ⟨?_, ?_⟩
      · obtain ⟨_, _, _, _, _, hwf⟩ := ops_exact body n hw.2 hs (LMat.identity (2 ^ n)) (wf_identity _)
          (List.replicate n .I) (List.replicate n .I) false (by simp) (by simp)
          (identity_intertwines (by simp))
        exact hwf
      · intro ops hl
        obtain ⟨f', Q', hc, hl', hi, _⟩ := ops_exact body n hw.2 hs (LMat.identity (2 ^ n)) (wf_identity _)
          ops ops false hl hl (identity_intertwines hl)
        exact ⟨f', Q', by simp only [hl, ne_eq, not_true_eq_false, ↓reduceIte, hc], hl', hi⟩
    refine ⟨?_, ?_⟩
    · simp only [nrBits, specMatrix]
      exact (toM_mpow (Nat.pow_pos (by decide)) hbody.1 iters).1
    · intro ops hl
      simp only [nrBits] at hl
      obtain ⟨fl, ops', hc, hl', hi⟩ := iter_exact hbody.1 _ hbody.2 iters ops false hl
      refine ⟨fl, ops', ?_, hl', by simpa only [specMatrix] using hi⟩
      simp only [conjugateT, hl, hs, ne_eq, not_true_eq_false, ↓reduceIte, Bool.not_true, Bool.false_eq_true]
      rw [hc]; simp
  | .H, _, hs => ⟨(hp .H trivial hs).1, (hp .H trivial hs).2⟩
  | .X, _, hs => ⟨(hp .X trivial hs).1, (hp .X trivial hs).2⟩
  | .Y, _, hs => ⟨(hp .Y trivial hs).1, (hp .Y trivial hs).2⟩
  | .Z, _, hs => ⟨(hp .Z trivial hs).1, (hp .Z trivial hs).2⟩
  | .S, _, hs => ⟨(hp .S trivial hs).1, (hp .S trivial hs).2⟩
  | .Sdg, _, hs => ⟨(hp .Sdg trivial hs).1, (hp .Sdg trivial hs).2⟩
  | .T, _, hs => ⟨(hp .T trivial hs).1, (hp .T trivial hs).2⟩
  | .Tdg, _, hs => ⟨(hp .Tdg trivial hs).1, (hp .Tdg trivial hs).2⟩
  | .V, _, hs => ⟨(hp .V trivial hs).1, (hp .V trivial hs).2⟩
  | .Vdg, _, hs => ⟨(hp .Vdg trivial hs).1, (hp .Vdg trivial hs).2⟩
  | .I, _, hs => ⟨(hp .I trivial hs).1, (hp .I trivial hs).2⟩
  | .RX θ, _, hs => ⟨(hp (.RX θ) trivial hs).1, (hp (.RX θ) trivial hs).2⟩
  | .RY θ, _, hs => ⟨(hp (.RY θ) trivial hs).1, (hp (.RY θ) trivial hs).2⟩
  | .RZ θ, _, hs => ⟨(hp (.RZ θ) trivial hs).1, (hp (.RZ θ) trivial hs).2⟩
  | .U1 θ, _, hs => ⟨(hp (.U1 θ) trivial hs).1, (hp (.U1 θ) trivial hs).2⟩
  | .U2 θ φ, _, hs => ⟨(hp (.U2 θ φ) trivial hs).1, (hp (.U2 θ φ) trivial hs).2⟩
  | .U3 θ φ l, _, hs => ⟨(hp (.U3 θ φ l) trivial hs).1, (hp (.U3 θ φ l) trivial hs).2⟩
  | .CX, _, hs => ⟨(hp .CX trivial hs).1, (hp .CX trivial hs).2⟩
  | .CY, _, hs => ⟨(hp .CY trivial hs).1, (hp .CY trivial hs).2⟩
  | .CZ, _, hs => ⟨(hp .CZ trivial hs).1, (hp .CZ trivial hs).2⟩
  | .Swap, _, hs => ⟨(hp .Swap trivial hs).1, (hp .Swap trivial hs).2⟩
/-- the sub-gate loop of a composite: `acc` is the product of the factors applied so far, which
carried `Q0` to `± Q` -/
theorem ops_exact : (l : OpList A) → (n : Nat) → Spec.WFOps n l → allStabT tbl l = true →
    ∀ (acc : LMat α), WF (2 ^ n) (2 ^ n) acc → ∀ (Q0 Q : List Pauli) (f0 : Bool), Q0.length = n → Q.length = n →
      Intertwines A acc Q0 f0 Q →
      ∃ f' Q', conjOpsT tbl noCheck l Q f0 = .ok (f', Q') ∧ Q'.length = n ∧
        Intertwines A (specOps l n acc) Q0 f' Q' ∧ WF (2 ^ n) (2 ^ n) (specOps l n acc : LMat α)
  | .nil, n, _, _, acc, hacc, Q0, Q, f0, _, hQ, hi =>
    ⟨f0, Q, by simp [conjOpsT], hQ, by simpa [specOps] using hi, by simpa [specOps] using hacc⟩
  | .cons g bits rest, n, hw, hs, acc, hacc, Q0, Q, f0, hQ0, hQ, hi => by
    simp only [Spec.WFOps] at hw
    obtain ⟨hwg, hnb, hvalid, hwrest⟩ := hw
    have hrange : ∀ b ∈ bits, b < n := ((Q1t.Proofs.BitPerm.validBits_iff n bits).1 hvalid).1
    simp only [allStabT, Bool.and_eq_true] at hs
    have eg := term_exact g hwg hs.1
    obtain ⟨L, hL, hLlen⟩ := gather_some Q bits (by rw [hQ]; exact hrange)
    obtain ⟨fl, L', hc, hl', hiL⟩ := eg.rule L (by rw [hLlen, hnb])
    have hM : WF (2 ^ bits.length) (2 ^ bits.length) (specMatrix g : LMat α) := by
      rw [← hnb]; exact eg.wf
    have hemb : Intertwines A (embed n bits (specMatrix g : LMat α)) Q fl (scatter Q bits L') :=
      hE n bits _ Q L L' fl hvalid hQ hM hL (by rw [hl', hnb]) hiL
    have hEwf : WF (2 ^ n) (2 ^ n) (embed n bits (specMatrix g : LMat α)) :=
      Q1t.Proofs.Route.embed_wf n bits _
    have hsl : (scatter Q bits L').length = n := by rw [scatter_length, hQ]
    have hnew := mul_intertwines hacc hEwf hQ0 hQ hsl hi hemb
    obtain ⟨f', Q', hc', hl'', hi', hwf'⟩ := ops_exact rest n hwrest hs.2 _
      (wf_mul hEwf hacc (Nat.pow_pos (by decide))) Q0 (scatter Q bits L') (f0 != fl) hQ0 hsl hnew
    refine ⟨f', Q', ?_, hl'', by simpa only [specOps] using hi', by simpa only [specOps] using hwf'⟩
    simp only [conjOpsT, hL, hc, hc']
end

end induction

end Q1t.Proofs.ConjTerm

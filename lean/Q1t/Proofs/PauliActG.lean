import Q1t.Proofs.PauliAct
import Q1t.Proofs.AmpLaws
import Mathlib.Tactic.Ring
set_option linter.unusedSectionVars false
/-!
C03, general-ring part 1 (all `n`, any commutative ring `α` with `i² = −1`): the action of Pauli strings on
coefficient vectors `List α` of length `2^n`, the group-action law, involutions, commutation.
Same development as `PauliAct.lean` (which is over the exact ring ℤ[ζ₈] of the reference semantics),
with `i^k · x` instead of `Z8.mulIPow`.
-/
namespace Q1t.Proofs.TabG
open Q1t Q1t.Tableau Q1t.Spec.Pauli Q1t.Proofs.Tableau

variable {α A : Type} [CommRing α] [Amp α A]

variable (A) in
/-- `i^k · v` -/
def smul (k : Nat) (v : List α) : List α := v.map ((Amp.I A : α) ^ k * ·)

section laws
variable (h : LawfulAmp α A)
include h

theorem I_sq : (Amp.I A : α) ^ 2 = -1 := by rw [pow_two]; exact h.I_mul_I
theorem I_pow4 : (Amp.I A : α) ^ 4 = 1 := by
  have : (Amp.I A : α) ^ 4 = ((Amp.I A : α) ^ 2) ^ 2 := by ring
  rw [this, I_sq h]; ring

theorem I_pow_mod (k : Nat) : (Amp.I A : α) ^ k = (Amp.I A : α) ^ (k % 4) := by
  conv_lhs => rw [← Nat.div_add_mod k 4, pow_add, pow_mul, I_pow4 h, one_pow, one_mul]

theorem smul_congr_mod {j k : Nat} (hjk : j % 4 = k % 4) (v : List α) : smul A j v = smul A k v := by
  unfold smul; rw [I_pow_mod h j, I_pow_mod h k, hjk]

theorem smul_4 (v : List α) : smul A 4 v = v := by
  unfold smul; rw [I_pow4 h]; simp
theorem smul_5 (v : List α) : smul A 5 v = smul A 1 v := smul_congr_mod h (j := 5) (k := 1) rfl v
theorem smul_6 (v : List α) : smul A 6 v = smul A 2 v := smul_congr_mod h (j := 6) (k := 2) rfl v
end laws

theorem smul_smul (j k : Nat) (v : List α) : smul A j (smul A k v) = smul A (j + k) v := by
  simp only [smul, List.map_map]
  apply List.map_congr_left
  intro x _
  simp only [Function.comp]; ring

theorem smul_0 (v : List α) : smul A 0 v = v := by simp [smul]

theorem smul_append (k : Nat) (v w : List α) : smul A k (v ++ w) = smul A k v ++ smul A k w := by
  simp [smul]
theorem smul_take (k m : Nat) (v : List α) : (smul A k v).take m = smul A k (v.take m) := by
  simp [smul, List.map_take]
theorem smul_drop (k m : Nat) (v : List α) : (smul A k v).drop m = smul A k (v.drop m) := by
  simp [smul, List.map_drop]
theorem smul_length (k : Nat) (v : List α) : (smul A k v).length = v.length := by simp [smul]

/-! ### the action -/

def pairmap (f : List α → List α) (w : List α × List α) : List α × List α := (f w.1, f w.2)

variable (A) in
/-- action of one Pauli matrix on the pair (qubit = 0 half, qubit = 1 half) -/
def cellAct : P → List α × List α → List α × List α
  | .I, w => w
  | .Z, w => (w.1, smul A 2 w.2)
  | .X, w => (w.2, w.1)
  | .Y, w => (smul A 3 w.2, smul A 1 w.1)

variable (A) in
/-- action of a tensor product of Pauli matrices (first operator = qubit 0 = the two halves) -/
def actOps : List P → List α → List α
  | [], v => v
  | p :: ps, v =>
    let w := cellAct A p (actOps ps (v.take (v.length / 2)), actOps ps (v.drop (v.length / 2)))
    w.1 ++ w.2

theorem actOps_cons (p : P) (ps : List P) (v : List α) :
    actOps A (p :: ps) v =
      (cellAct A p (actOps A ps (v.take (v.length / 2)), actOps A ps (v.drop (v.length / 2)))).1 ++
      (cellAct A p (actOps A ps (v.take (v.length / 2)), actOps A ps (v.drop (v.length / 2)))).2 := rfl

theorem actOps_length (r : List P) : ∀ v : List α, (actOps A r v).length = v.length := by
  induction r with
  | nil => intro v; rfl
  | cons p ps ih =>
    intro v
    rw [actOps_cons]
    cases p <;> simp [cellAct, ih, smul_length] <;> omega

theorem cellAct_pairmap (f : List α → List α) (hf : ∀ k u, f (smul A k u) = smul A k (f u)) (p : P)
    (w : List α × List α) : cellAct A p (pairmap f w) = pairmap f (cellAct A p w) := by
  cases p <;> simp [cellAct, pairmap, hf]

theorem smul_comm' (j k : Nat) (u : List α) : smul A k (smul A j u) = smul A j (smul A k u) := by
  rw [smul_smul, smul_smul, Nat.add_comm]

theorem actOps_smul (r : List P) : ∀ (k : Nat) (v : List α), actOps A r (smul A k v) = smul A k (actOps A r v) := by
  induction r with
  | nil => intro k v; rfl
  | cons p ps ih =>
    intro k v
    rw [actOps_cons, actOps_cons, smul_length, smul_take, smul_drop, ih, ih, smul_append]
    have := cellAct_pairmap (A := A) (smul A k) (fun j u => smul_comm' j k u) p
      (actOps A ps (v.take (v.length / 2)), actOps A ps (v.drop (v.length / 2)))
    simp only [pairmap] at this
    rw [this]

theorem cell_mul (h : LawfulAmp α A) (a b : P) (w : List α × List α) :
    cellAct A a (cellAct A b w) = pairmap (smul A (mulP a b).1) (cellAct A (mulP a b).2 w) := by
  rw [mulP_eq_table]
  cases a <;> cases b <;>
    simp [mulPT, cellAct, pairmap, smul_smul, smul_0, smul_4 h, smul_5 h, smul_6 h]

theorem take_half_append (x y : List α) (hxy : x.length = y.length) :
    (x ++ y).take ((x ++ y).length / 2) = x ∧ (x ++ y).drop ((x ++ y).length / 2) = y := by
  have : (x ++ y).length / 2 = x.length := by simp; omega
  rw [this]; simp

theorem cellAct_lengths (p : P) (w : List α × List α) (hw : w.1.length = w.2.length) :
    (cellAct A p w).1.length = w.1.length ∧ (cellAct A p w).2.length = w.1.length := by
  cases p <;> simp [cellAct, smul_length, hw]

theorem halves_length (v : List α) (n : Nat) (hv : v.length = 2 ^ (n + 1)) :
    (v.take (v.length / 2)).length = 2 ^ n ∧ (v.drop (v.length / 2)).length = 2 ^ n := by
  have : v.length / 2 = 2 ^ n := by rw [hv, Nat.pow_succ]; omega
  rw [this]; simp [hv, Nat.pow_succ]; omega

/-- **The action is multiplicative** (all `n`, any ring with `i² = −1`). -/
theorem actOps_mul (h : LawfulAmp α A) (r0 : List P) : ∀ (r1 : List P) (v : List α), r0.length = r1.length →
    v.length = 2 ^ r0.length →
    actOps A r0 (actOps A r1 v) = smul A (phaseSum r0 r1) (actOps A (opsMul r0 r1) v) := by
  induction r0 with
  | nil =>
    intro r1 v hl _
    cases r1 with
    | nil => simp [actOps, phaseSum, opsMul, smul_0]
    | cons b r1 => simp at hl
  | cons a r0 ih =>
    intro r1 v hl hv
    cases r1 with
    | nil => simp at hl
    | cons b r1 =>
      have hl' : r0.length = r1.length := by simpa using hl
      obtain ⟨h0, h1⟩ := halves_length v r0.length (by simpa using hv)
      generalize hv0 : v.take (v.length / 2) = v0 at h0
      generalize hv1 : v.drop (v.length / 2) = v1 at h1
      have e1 : actOps A (b :: r1) v = (cellAct A b (actOps A r1 v0, actOps A r1 v1)).1 ++ (cellAct A b (actOps A r1 v0, actOps A r1 v1)).2 := by
        rw [actOps_cons, hv0, hv1]
      have hlen := cellAct_lengths (A := A) b (actOps A r1 v0, actOps A r1 v1) (by simp [actOps_length, h0, h1])
      have hsplit := take_half_append _ _ (hlen.1.trans hlen.2.symm)
      rw [e1, actOps_cons, hsplit.1, hsplit.2]
      have hpm := cellAct_pairmap (A := A) (actOps A r0) (fun k u => actOps_smul r0 k u) b (actOps A r1 v0, actOps A r1 v1)
      simp only [pairmap] at hpm
      rw [← hpm, ih r1 v0 hl' h0, ih r1 v1 hl' h1]
      have hpm2 := cellAct_pairmap (A := A) (smul A (phaseSum r0 r1)) (fun j u => smul_comm' j _ u) b
        (actOps A (opsMul r0 r1) v0, actOps A (opsMul r0 r1) v1)
      simp only [pairmap] at hpm2
      rw [hpm2]
      have hpm3 := cellAct_pairmap (A := A) (smul A (phaseSum r0 r1)) (fun j u => smul_comm' j _ u) a
        (cellAct A b (actOps A (opsMul r0 r1) v0, actOps A (opsMul r0 r1) v1))
      simp only [pairmap] at hpm3
      rw [hpm3, cell_mul h]
      simp only [phaseSum, opsMul, pairmap]
      rw [actOps_cons, hv0, hv1, smul_append, smul_smul, smul_smul, Nat.add_comm]

/-- action of a phased Pauli string -/
def act (p : PStr) (v : List α) : List α := smul A p.phase (actOps A p.ops v)

theorem pstr_mul_act (h : LawfulAmp α A) (p q : PStr) (v : List α) (hl : p.ops.length = q.ops.length)
    (hv : v.length = 2 ^ p.ops.length) : act (A := A) (p.mul q) v = act (A := A) p (act (A := A) q v) := by
  unfold act PStr.mul
  rw [actOps_smul, actOps_mul h p.ops q.ops v hl hv, smul_smul, smul_smul]
  exact smul_congr_mod h (by simp only []; omega) _

theorem actOps_replicate_I (n : Nat) : ∀ v : List α, actOps A (List.replicate n .I) v = v := by
  induction n with
  | zero => intro v; rfl
  | succ n ih => intro v; rw [List.replicate_succ, actOps_cons]; simp [cellAct, ih]

theorem actOps_involutive (h : LawfulAmp α A) (r : List P) (v : List α) (hv : v.length = 2 ^ r.length) :
    actOps A r (actOps A r v) = v := by
  rw [actOps_mul h r r v rfl hv, phaseSum_self, opsMul_self, actOps_replicate_I, smul_0]

theorem anticomm_act (h : LawfulAmp α A) (r0 r1 : List P) (v : List α) (ha : Anticommutes r0 r1)
    (hl : r0.length = r1.length) (hv : v.length = 2 ^ r0.length) :
    actOps A r0 (actOps A r1 v) = smul A 2 (actOps A r1 (actOps A r0 v)) := by
  rw [anticommutes_iff] at ha
  have hs := phaseSum_swap r0 r1
  rw [actOps_mul h r0 r1 v hl hv, actOps_mul h r1 r0 v hl.symm (hl ▸ hv), opsMul_comm r1 r0, smul_smul]
  exact smul_congr_mod h (by omega) _

theorem comm_act (h : LawfulAmp α A) (r0 r1 : List P) (v : List α) (hc : Commutes r0 r1)
    (hl : r0.length = r1.length) (hv : v.length = 2 ^ r0.length) :
    actOps A r0 (actOps A r1 v) = actOps A r1 (actOps A r0 v) := by
  rw [commutes_iff] at hc
  have hs := phaseSum_swap r0 r1
  rw [actOps_mul h r0 r1 v hl hv, actOps_mul h r1 r0 v hl.symm (hl ▸ hv), opsMul_comm r1 r0]
  exact smul_congr_mod h (by omega) _

end Q1t.Proofs.TabG

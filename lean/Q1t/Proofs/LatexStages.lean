import Q1t.Proofs.LatexTrace
/-!
C13 — every operation of the proved class (`opOk`) is a trace of stages, and the stages are the
reference drawing of the operation (`opStages`): the per-emitter, per-gate and per-operation lemmas.
-/
namespace Q1t.Proofs.Latex
open Q1t.Latex Q1t.Spec.QcGrid

/-! ## Small facts about the emitters -/

theorem markRange_keeps_true {l : List Bool} {f n : Nat} {l' : List Bool} (h : markRange l f n = some l')
    (r : Nat) (hr : l[r]? = some true) : l'[r]? = some true := by
  induction n generalizing l f with
  | zero => simp [markRange] at h; subst h; exact hr
  | succ n ih =>
    simp only [markRange] at h
    split at h
    · refine ih h ?_
      rw [List.getElem?_set]
      split
      · rename_i he; subst he; simp_all
      · exact hr
    · cases h

theorem markRange_sets {l : List Bool} {f n : Nat} {l' : List Bool} (h : markRange l f n = some l') :
    ∀ r, f ≤ r → r < f + n → l'[r]? = some true := by
  induction n generalizing l f with
  | zero => intro r h1 h2; omega
  | succ n ih =>
    simp only [markRange] at h
    split at h
    · rename_i hf
      intro r h1 h2
      rcases Nat.eq_or_lt_of_le h1 with he | hl
      · subst he
        exact markRange_keeps_true h f (by simp [hf])
      · exact ih h r (by omega) (by omega)
    · cases h

theorem endRangeOp_used {s s' : St} {f l : Nat} {rest : List (Nat × Nat)} (hr : s.ranges = (f, l) :: rest)
    (h : endRangeOp s = .ok s') : ∀ r, f ≤ r → r ≤ l → s'.inUse[r]? = some true := by
  unfold endRangeOp at h
  rw [hr] at h
  dsimp only at h
  split at h
  · rename_i iu hm
    injection h with h; subst h
    intro r h1 h2
    exact markRange_sets hm r h1 (by omega)
  · cases h

theorem setField_used {b : Nat} {y : Sym} {s s' : St} (h : setField b y s = .ok s') : s'.inUse[b]? = some true := by
  unfold setField at h
  obtain ⟨s1, _, h⟩ := Res.bind_eq_ok.mp h
  split at h
  · cases h
  · split at h
    · rename_i hb
      injection h with h; subst h
      simp [hb.2]
    · cases h

theorem trace_pre {s s0 : St} (hr : s.ranges = []) (hp : s0 = s ∨ s0 = addColumn s) : Trace s s0 [] := by
  rcases hp with rfl | rfl
  · exact Trace.nil _
  · exact Trace.single (Step.col hr)

theorem reserveAll_trace {s : St} (hr : s.ranges = []) : Trace s (reserveAll s) [] := by
  unfold reserveAll; split
  · exact Trace.single (Step.col hr)
  · exact Trace.nil _

/-- What every per-operation lemma establishes: a trace whose stages are `stages`, in order; the
`controlled` flag and the ghost counter are unchanged. -/
def Draws (s s' : St) (stages : List (List (Nat × Sym))) : Prop :=
  ∃ L, Trace s s' L ∧ L.map (·.ws) = stages ∧ s'.controlled = s.controlled ∧ s'.cur = s.cur

theorem Draws.trans {a b c : St} {S1 S2 : List (List (Nat × Sym))} (h1 : Draws a b S1) (h2 : Draws b c S2) :
    Draws a c (S1 ++ S2) := by
  obtain ⟨L1, t1, m1, c1, k1⟩ := h1
  obtain ⟨L2, t2, m2, c2, k2⟩ := h2
  exact ⟨L1 ++ L2, t1.trans t2, by rw [List.map_append, m1, m2], c2.trans c1, k2.trans k1⟩

theorem Draws.inv {s s' : St} {S} (hinv : Inv s) (h : Draws s s' S) : Inv s' := by
  obtain ⟨L, t, _⟩ := h; exact trace_inv hinv t

theorem Draws.nil (s : St) : Draws s s [] := ⟨[], Trace.nil s, rfl, rfl, rfl⟩

theorem Draws.of_trace_nil {s s' : St} (t : Trace s s' []) (hc : s'.controlled = s.controlled) (hk : s'.cur = s.cur) :
    Draws s s' [] := ⟨[], t, rfl, hc, hk⟩

/-- A single symbol without lines written outside a range is a stage. -/
theorem setField_draws {b : Nat} {y : Sym} {s s' : St} (hinv : Inv s) (hy : y.lines = [])
    (h : setField b y s = .ok s') : Draws s s' [[(b, y)]] := by
  obtain ⟨s0, hpre, hw, hr, hc, hfree⟩ := setField_ready (ready_top hinv) h
  obtain ⟨_, hf⟩ := hfree hinv.noRange
  have hp : s0 = s ∨ s0 = addColumn s := by
    rcases hpre with rfl | ⟨_, rfl⟩
    · exact Or.inl rfl
    · exact Or.inr rfl
  have hk0 : s0.cur = s.cur := by rcases hp with rfl | rfl <;> rfl
  have hst : Step s0 s' [⟨s0.rcols.length - 1, s0.cur, [(b, y)]⟩] :=
    Step.wrote [(b, y)] b b hw (by rw [hr]; exact hinv.noRange)
      (by intro p hp; simp at hp; subst hp; exact ⟨Nat.le_refl _, Nat.le_refl _⟩)
      (by intro r h1 h2; have : r = b := by omega
          subst this; exact hf)
      (by intro r h1 h2; have : r = b := by omega
          subst this; exact setField_used h)
      (by simp)
      (by intro p hp ln hln; simp at hp; subst hp; rw [hy] at hln; cases hln)
  refine ⟨_, (trace_pre hinv.noRange hp).trans (Trace.single hst), by simp, hc, by rw [hw.cur, hk0]⟩

/-- A group of symbols drawn under a reserved range, outside any other range, is a stage. -/
theorem range_draws {q : List Nat} {c : Option (List Nat)} {bits : List Nat} {s s' : St} {ws : List (Nat × Sym)}
    {body : St → Res St} (hinv : Inv s) (hb : getBitIndices s q c = .ok bits) (hq : bits ≠ [])
    (hbody : ∀ s1 s2, s1.ranges ≠ [] → s1.rcols ≠ [] → Shape s1 → s1.controlled = s.controlled →
      s1.nq = s.nq → s1.nc = s.nc → body s1 = .ok s2 →
      Wrote s1 s2 ws ∧ s2.ranges = s1.ranges ∧ s2.controlled = s1.controlled)
    (hrows : ∀ p ∈ ws, ∃ lo ∈ bits, ∃ hi ∈ bits, lo ≤ p.1 ∧ p.1 ≤ hi)
    (hnd : (ws.map (·.1)).Nodup)
    (hclosed : ∀ p ∈ ws, ∀ ln ∈ p.2.lines,
      ∃ q ∈ ws, (p.1 : Int) + ln.1 = (q.1 : Int) ∧ Sym.partnerOk ln.2 q.2 = true)
    (h : (startRangeOp q c s >>== fun s1 => body s1 >>== endRangeOp) = .ok s') : Draws s s' [ws] := by
  obtain ⟨s1, h1, h⟩ := Res.bind_eq_ok.mp h
  obtain ⟨s2, h2, h3⟩ := Res.bind_eq_ok.mp h
  obtain ⟨bits', hb', hcase⟩ := startRangeOp_top hinv.shape hinv.noRange h1
  rw [hb] at hb'; injection hb' with hb'; subst hb'
  rcases hcase with ⟨he, _⟩ | ⟨s0, f, l, hs0, hs1, hl, hfree, hin⟩
  · exact absurd he hq
  · have hpre : Pre s s0 := by
      rcases hs0 with rfl | rfl
      · exact Or.inl rfl
      · exact Or.inr ⟨hinv.noRange, rfl⟩
    have hinv0 : Inv s0 := hpre.inv hinv
    obtain ⟨x, hx⟩ := List.exists_mem_of_ne_nil bits hq
    have hfx := hfree x (hin x hx).1 (hin x hx).2
    have hcols0 : s0.rcols ≠ [] := by
      intro he
      have := hinv0.start he x false hfx
      cases this
    have hq0 : s0.nq = s.nq := by rcases hs0 with rfl | rfl <;> rfl
    have hc0 : s0.nc = s.nc := by rcases hs0 with rfl | rfl <;> rfl
    have hk0 : s0.cur = s.cur := by rcases hs0 with rfl | rfl <;> rfl
    have hctl0 : s0.controlled = s.controlled := by rcases hs0 with rfl | rfl <;> rfl
    have hw0 : Wrote s0 s1 [] := by
      rw [hs1]; exact wrote_nil_of hcols0 rfl rfl rfl rfl rfl (fun _ h => h)
    have hr1 : s1.ranges = [(f, l)] := by rw [hs1]
    obtain ⟨hw1, hr2, hc2⟩ := hbody s1 s2 (by rw [hr1]; simp) (by rw [hs1]; exact hcols0)
      (by rw [hs1]; exact shape_of_fields hinv0.shape rfl rfl rfl rfl)
      (by rw [hs1]; exact hctl0) (by rw [hs1]; exact hq0) (by rw [hs1]; exact hc0) h2
    obtain ⟨hw2, hr3, hc3⟩ := close_range hw1.rcols_ne h3
    have hr2' : s2.ranges = (f, l) :: [] := hr2.trans hr1
    have hused := endRangeOp_used hr2' h3
    have hw : Wrote s0 s' ws := by
      have := (hw0.trans hw1).trans hw2
      simpa using this
    have hst : Step s0 s' [⟨s0.rcols.length - 1, s0.cur, ws⟩] :=
      Step.wrote ws f l hw (by rw [hr3, hr2']; rfl)
        (by intro p hp
            obtain ⟨lo, hlo, hi', hhi, a1, a2⟩ := hrows p hp
            exact ⟨Nat.le_trans (hin lo hlo).1 a1, Nat.le_trans a2 (hin hi' hhi).2⟩)
        hfree hused hnd hclosed
    refine ⟨_, (trace_pre hinv.noRange hs0).trans (Trace.single hst), by simp, ?_, by rw [hw.cur, hk0]⟩
    rw [hc3, hc2, hs1]; exact hctl0

/-! ## One-column gates outside a range -/

theorem writes_rows_between {g : Gate} {bits : List Nat} {ctl : Bool} :
    ∀ p ∈ writes g bits ctl, ∃ lo ∈ bits, ∃ hi ∈ bits, lo ≤ p.1 ∧ p.1 ≤ hi :=
  fun p hp => ⟨p.1, writes_rows _ _ _ p hp, p.1, writes_rows _ _ _ p hp, Nat.le_refl _, Nat.le_refl _⟩

/-- A one-column gate (1-qubit box, X, Z, Swap, controlled nestings) at a good placement on distinct
qubits, outside any range, is ONE stage: exactly the symbols `writes g bits ctl`. -/
theorem simple_draws : ∀ (g : Gate), simple g = true → ∀ (bits : List Nat) (s s' : St), Inv s →
    goodPlace g bits = true → bits.Nodup → latex g bits s = .ok s' → Draws s s' [writes g bits s.controlled]
  | .box l n, hs, bits, s, s', hinv, hg, hn, h => by
    simp only [simple, beq_iff_eq] at hs; subst hs
    simp only [latex] at h
    obtain ⟨u, hu, h⟩ := Res.bind_eq_ok.mp h
    have hlen := checkNrBits_ok hu
    match bits, hlen with
    | [b], _ =>
      have hgr : getRanges [b] = some [(b, b)] := by simp [getRanges, sortNat, insertNat, rangesGo]
      simp only [addBlockGate, hgr] at h
      have h' : (startRangeOp [b] none s >>== fun s1 =>
          (fun s1 => drawRange b b l none s1 >>== fun s => blockRest l [] b s) s1 >>== endRangeOp) = .ok s' := by
        simpa [bind_assoc] using h
      obtain ⟨sx, hx, _⟩ := Res.bind_eq_ok.mp h'
      refine range_draws (ws := writes (.box l 1) [b] s.controlled) hinv (getBitIndices_none_ok_of_start hx)
        (by simp) ?_ writes_rows_between (writes_nodup _ _ _ hn) (writes_closed _ _ _ rfl hg) h'
      intro s1 s2 hrn hcn hsh _ _ _ hb
      simp only [drawRange, if_true, blockRest] at hb
      obtain ⟨s2', hb1, hb2⟩ := Res.bind_eq_ok.mp hb
      injection hb2 with hb2; subst hb2
      obtain ⟨hw, h1, h2⟩ := setField_inRange hrn hb1
      exact ⟨by simpa [writes] using hw, h1, h2⟩
  | .x, _, bits, s, s', hinv, hg, _, h => by
    simp only [latex] at h
    obtain ⟨u, hu, h⟩ := Res.bind_eq_ok.mp h
    match bits, hg, h with
    | [b], _, h =>
      have := setField_draws hinv (by cases s.controlled <;> rfl) h
      simpa [writes] using this
  | .z, _, bits, s, s', hinv, hg, _, h => by
    simp only [latex] at h
    obtain ⟨u, hu, h⟩ := Res.bind_eq_ok.mp h
    match bits, hg, h with
    | [b], _, h =>
      have := setField_draws hinv (by cases s.controlled <;> rfl) h
      simpa [writes] using this
  | .swap, _, bits, s, s', hinv, hg, hn, h => by
    simp only [latex] at h
    obtain ⟨u, hu, h⟩ := Res.bind_eq_ok.mp h
    match bits, hg, hn, h with
    | [x0, x1], hg, hn, h =>
      dsimp only at h
      have h' : (startRangeOp [x0, x1] none s >>== fun s1 =>
          (fun s1 => setField (if x1 < x0 then x1 else x0)
              (.qswap (some (((if x1 < x0 then x0 else x1) - (if x1 < x0 then x1 else x0) : Nat) : Int))) s1 >>== fun s =>
            setField (if x1 < x0 then x0 else x1) (.qswap none) s) s1 >>== endRangeOp) = .ok s' := by
        simpa [bind_assoc] using h
      obtain ⟨sx, hx, _⟩ := Res.bind_eq_ok.mp h'
      refine range_draws (ws := writes .swap [x0, x1] s.controlled) hinv (getBitIndices_none_ok_of_start hx)
        (by simp) ?_ writes_rows_between (writes_nodup _ _ _ hn) (writes_closed _ _ _ rfl hg) h'
      intro s1 s2 hrn hcn hsh _ _ _ hb
      obtain ⟨s1', hb1, hb2⟩ := Res.bind_eq_ok.mp hb
      obtain ⟨hw1, hr1, hc1⟩ := setField_inRange hrn hb1
      obtain ⟨hw2, hr2, hc2⟩ := setField_inRange (by rw [hr1]; exact hrn) hb2
      exact ⟨by simpa [writes] using hw1.trans hw2, hr2.trans hr1, hc2.trans hc1⟩
  | .c g, hs, bits, s, s', hinv, hg, hn, h => by
    have hsg : simple g = true := by simpa [simple] using hs
    simp only [latex] at h
    obtain ⟨u, hu, h⟩ := Res.bind_eq_ok.mp h
    match bits, hg, hn, h with
    | [], hg, _, _ => simp [goodPlace] at hg
    | [_], hg, _, _ => simp [goodPlace] at hg
    | ctl :: t :: ts, hg, hn, h =>
      dsimp only at h
      have h' : (startRangeOp (ctl :: t :: ts) none s >>== fun s1 =>
          (fun s1 =>
            (if ts.foldl min t > ctl ∧ ts.foldl max t > ctl then
                setField ctl (.ctrl ((ts.foldl min t - ctl : Nat) : Int)) s1
              else if ts.foldl min t < ctl ∧ ts.foldl max t < ctl then
                setField ctl (.ctrl (((ts.foldl max t : Nat) : Int) - (ctl : Int))) s1
              else .panic) >>== fun s2 =>
            latex g (t :: ts) { s2 with controlled := true } >>== fun s3 =>
            .ok { s3 with controlled := s2.controlled }) s1 >>== endRangeOp) = .ok s' := by
        simpa [bind_assoc] using h
      obtain ⟨sx, hx, _⟩ := Res.bind_eq_ok.mp h'
      refine range_draws (ws := writes (.c g) (ctl :: t :: ts) s.controlled) hinv (getBitIndices_none_ok_of_start hx)
        (by simp) ?_ writes_rows_between (writes_nodup _ _ _ hn) (writes_closed _ _ _ hs hg) h'
      intro s1 s2 hrn hcn hsh hctl _ _ hb
      obtain ⟨sa, hb1, hb⟩ := Res.bind_eq_ok.mp hb
      obtain ⟨sb, hb2, hb3⟩ := Res.bind_eq_ok.mp hb
      injection hb3 with hb3; subst hb3
      have hsf : setField ctl (.ctrl (ctrlOff ctl t ts)) s1 = .ok sa := by
        unfold ctrlOff
        split at hb1
        · rename_i hc; rw [if_pos hc]; exact hb1
        · rename_i hc
          rw [if_neg hc]
          split at hb1
          · exact hb1
          · cases hb1
      obtain ⟨hw1, hr1, hc1⟩ := setField_inRange hrn hsf
      have hrdy : Ready { sa with controlled := true } :=
        Or.inr ⟨by show sa.ranges ≠ []; rw [hr1]; exact hrn, hw1.rcols_ne,
          shape_of_fields (hw1.shape hsh) rfl rfl rfl rfl⟩
      obtain ⟨s0, hp0, hw2, hr2, hc2, _⟩ := simple_spec g hsg (t :: ts) _ sb hrdy hb2
      have := pre_inRange hp0 (by show sa.ranges ≠ []; rw [hr1]; exact hrn)
      subst this
      have hwa := (hw1.trans (wrote_ctl hw1.rcols_ne true)).trans hw2
      have hwb := hwa.trans (wrote_ctl hw2.rcols_ne sa.controlled)
      refine ⟨by simpa [writes] using hwb, ?_, ?_⟩
      · show sb.ranges = s1.ranges
        rw [hr2]; exact hr1
      · show sa.controlled = s1.controlled
        exact hc1

/-- A multi-qubit block gate at a covered placement, outside any range, is ONE stage. -/
theorem block_draws {d : String} {n : Nat} {bits : List Nat} {s s' : St} (hinv : Inv s)
    (hok : blockOk d n bits = true) (h : latex (.box d n) bits s = .ok s') : Draws s s' [blockWrites d bits] := by
  obtain ⟨f, l, more, _, hne, hws, he⟩ := blockOk_latex hok s
  obtain ⟨hnd, hrows, hclosed, _, _⟩ := blockOk_facts hok
  rw [he] at h
  obtain ⟨sx, hx, _⟩ := Res.bind_eq_ok.mp h
  refine range_draws (ws := blockWrites d bits) hinv (getBitIndices_none_ok_of_start hx) hne ?_ hrows hnd hclosed h
  intro s1 s2 hrn hcn _ _ _ _ hb
  obtain ⟨sa, ha, hb2⟩ := Res.bind_eq_ok.mp hb
  obtain ⟨hw1, hr1, hc1⟩ := drawRange_inRange hrn hcn ha
  obtain ⟨hw2, hr2, hc2⟩ := blockRest_inRange more l sa s2 (by rw [hr1]; exact hrn) hw1.rcols_ne hb2
  exact ⟨by rw [hws]; exact hw1.trans hw2, hr2.trans hr1, hc2.trans hc1⟩

/-! ## Loops -/

theorem reserveAll_ctl (s : St) : (reserveAll s).controlled = s.controlled ∧ (reserveAll s).cur = s.cur := by
  unfold reserveAll; split <;> exact ⟨rfl, rfl⟩

theorem reserveAll_draws {s : St} (hr : s.ranges = []) : Draws s (reserveAll s) [] :=
  Draws.of_trace_nil (reserveAll_trace hr) (reserveAll_ctl _).1 (reserveAll_ctl _).2

theorem fields_draws {s s' : St} (hq : s'.nq = s.nq) (hc : s'.nc = s.nc) (hr : s'.rcols = s.rcols)
    (hi : s'.inUse = s.inUse) (hg : s'.ranges = s.ranges) (hctl : s'.controlled = s.controlled)
    (hcur : s'.cur = s.cur) : Draws s s' [] :=
  Draws.of_trace_nil (Trace.single (Step.fields hq hc hr hi hg (by rw [hcur]; exact Nat.le_refl _))) hctl hcur

theorem startLoop_draws {n : Nat} {s s' : St} (hinv : Inv s) (h : startLoop n s = .ok s') : Draws s s' [] := by
  unfold startLoop at h
  dsimp only at h
  split at h
  · cases h
  · injection h with h; subst h
    exact Draws.trans (S1 := []) (S2 := []) (reserveAll_draws hinv.noRange)
      (fields_draws rfl rfl rfl rfl rfl rfl rfl)

theorem endLoop_draws {s s' : St} (hinv : Inv s) (h : endLoop s = .ok s') : Draws s s' [] := by
  unfold endLoop at h
  split at h
  · cases h
  · split at h
    · cases h
    · injection h with h; subst h
      refine Draws.trans (S1 := []) (S2 := []) ?_ (reserveAll_draws ?_)
      · exact fields_draws rfl rfl rfl rfl rfl rfl rfl
      · exact hinv.noRange

theorem addCds_draws {b c : Nat} {l : String} {s s' : St} (hinv : Inv s) (h : addCds b c l s = .ok s') :
    Draws s s' [[(b, .cds c l)]] := by
  unfold addCds at h
  obtain ⟨s1, h1, h⟩ := Res.bind_eq_ok.mp h
  injection h with h; subst h
  have d0 : Draws s (reserveAll s) [] := reserveAll_draws hinv.noRange
  have i0 := inv_reserveAll hinv
  have d1 := setField_draws i0 rfl h1
  have i1 := d1.inv i0
  have d2 : Draws s1 (reserveAll s1) [] := reserveAll_draws i1.noRange
  have := (d0.trans d1).trans d2
  simpa using this

/-! ## The reference drawing of a gate: its stages, in program order -/

mutual
/-- The stages a gate of the proved class is drawn as: one stage per one-column sub-gate, in program
order; `I` is the explicit wire; a loop of 3 or more iterations is body, `\cds`, body. -/
def gateStages : Gate → List Nat → Bool → List (List (Nat × Sym))
  | .box l n, bits, ctl => if blockOk l n bits then [blockWrites l bits] else [writes (.box l n) bits ctl]
  | .x, bits, ctl => [writes .x bits ctl]
  | .z, bits, ctl => [writes .z bits ctl]
  | .swap, bits, ctl => [writes .swap bits ctl]
  | .c g, bits, ctl => [writes (.c g) bits ctl]
  | .i, bits, _ => match bits with
    | b :: _ => [[(b, .qw)]]
    | [] => []
  | .kron a b, bits, ctl => gateStages a (bits.take a.nbits) ctl ++ gateStages b (bits.drop a.nbits) ctl
  | .comp _ _ ops, bits, ctl => subsStages ops bits ctl
  | .loop iters body, bits, ctl =>
    match iters with
    | 0 => []
    | 1 => gateStages body bits ctl
    | 2 => gateStages body bits ctl ++ gateStages body bits ctl
    | _ =>
      match bits with
      | [] => []
      | b :: bs =>
        gateStages body bits ctl ++ [[(bs.foldl min b, .cds (bs.foldl max b - bs.foldl min b) "\\cdots")]] ++
          gateStages body bits ctl
def subsStages : Subs → List Nat → Bool → List (List (Nat × Sym))
  | .nil, _, _ => []
  | .cons g sb rest, bits, ctl =>
    (match subBits bits sb with
     | some gb => gateStages g gb ctl
     | none => []) ++ subsStages rest bits ctl
end

mutual
theorem latex_draws : ∀ (g : Gate) (bits : List Nat) (s s' : St), Inv s → s.expand = true → topOk g bits = true →
    latex g bits s = .ok s' → Draws s s' (gateStages g bits s.controlled)
  | .box l n, bits, s, s', hinv, _, ht, h => by
    simp only [topOk, Bool.or_eq_true, Bool.and_eq_true, decide_eq_true_eq] at ht
    rcases ht with ht | ht
    · have hn : n = 1 := by simpa [simple] using ht.1.1
      have hb : blockOk l n bits = false := by subst hn; simp [blockOk]
      simpa [gateStages, hb] using simple_draws _ ht.1.1 bits s s' hinv ht.1.2 ht.2 h
    · simpa [gateStages, ht] using block_draws hinv ht h
  | .x, bits, s, s', hinv, _, ht, h => by
    simp only [topOk] at ht
    have hn : bits.Nodup := by
      match bits, ht with
      | [b], _ => simp
    simpa [gateStages] using simple_draws .x rfl bits s s' hinv ht hn h
  | .z, bits, s, s', hinv, _, ht, h => by
    simp only [topOk] at ht
    have hn : bits.Nodup := by
      match bits, ht with
      | [b], _ => simp
    simpa [gateStages] using simple_draws .z rfl bits s s' hinv ht hn h
  | .swap, bits, s, s', hinv, _, ht, h => by
    simp only [topOk, Bool.and_eq_true, decide_eq_true_eq] at ht
    simpa [gateStages] using simple_draws .swap rfl bits s s' hinv ht.1 ht.2 h
  | .c g, bits, s, s', hinv, _, ht, h => by
    simp only [topOk, Bool.and_eq_true, decide_eq_true_eq] at ht
    simpa [gateStages] using simple_draws (.c g) (by simpa [simple] using ht.1.1) bits s s' hinv ht.1.2 ht.2 h
  | .i, bits, s, s', hinv, _, _, h => by
    simp only [latex] at h
    obtain ⟨_, _, h⟩ := Res.bind_eq_ok.mp h
    split at h
    · simpa [gateStages] using setField_draws hinv rfl h
    · cases h
  | .kron a b, bits, s, s', hinv, he, ht, h => by
    simp only [topOk, Bool.and_eq_true] at ht
    simp only [latex] at h
    obtain ⟨_, _, h⟩ := Res.bind_eq_ok.mp h
    obtain ⟨s1, h1, h⟩ := Res.bind_eq_ok.mp h
    have d1 := latex_draws a _ s s1 hinv he ht.1 h1
    have e1 : s1.expand = true := by rw [(keeps_latex a _ _ _ h1).expand]; exact he
    have d2 := latex_draws b _ s1 s' (d1.inv hinv) e1 ht.2 h
    have hc : s1.controlled = s.controlled := d1.choose_spec.2.2.1
    rw [hc] at d2
    simpa [gateStages] using d1.trans d2
  | .comp name n ops, bits, s, s', hinv, he, ht, h => by
    simp only [topOk] at ht
    simp only [latex] at h
    obtain ⟨_, _, h⟩ := Res.bind_eq_ok.mp h
    rw [if_pos he] at h
    simpa [gateStages] using latexSubs_draws ops bits s s' hinv he ht h
  | .loop iters body, bits, s, s', hinv, he, ht, h => by
    simp only [topOk] at ht
    simp only [latex] at h
    obtain ⟨_, _, h⟩ := Res.bind_eq_ok.mp h
    split at h
    · injection h with h; subst h; simpa [gateStages] using Draws.nil s
    · simpa [gateStages] using latex_draws body bits s s' hinv he ht h
    · obtain ⟨s1, h1, h⟩ := Res.bind_eq_ok.mp h
      have d1 := latex_draws body bits s s1 hinv he ht h1
      have e1 : s1.expand = true := by rw [(keeps_latex body _ _ _ h1).expand]; exact he
      have d2 := latex_draws body bits s1 s' (d1.inv hinv) e1 ht h
      have hc : s1.controlled = s.controlled := d1.choose_spec.2.2.1
      rw [hc] at d2
      simpa [gateStages] using d1.trans d2
    · rename_i hn0 hn1 hn2
      split at h
      · cases h
      · rename_i b bs
        obtain ⟨s1, h1, h⟩ := Res.bind_eq_ok.mp h
        obtain ⟨s2, h2, h⟩ := Res.bind_eq_ok.mp h
        obtain ⟨s3, h3, h⟩ := Res.bind_eq_ok.mp h
        obtain ⟨s4, h4, h⟩ := Res.bind_eq_ok.mp h
        have d1 := startLoop_draws hinv h1
        have i1 := d1.inv hinv
        have e1 : s1.expand = true := by rw [(keeps_startLoop h1).expand]; exact he
        have d2 := latex_draws body _ s1 s2 i1 e1 ht h2
        have i2 := d2.inv i1
        have e2 : s2.expand = true := by rw [(keeps_latex body _ _ _ h2).expand]; exact e1
        have d3 := addCds_draws i2 h3
        have i3 := d3.inv i2
        have e3 : s3.expand = true := by rw [(keeps_addCds h3).expand]; exact e2
        have d4 := latex_draws body _ s3 s4 i3 e3 ht h4
        have d5 := endLoop_draws (d4.inv i3) h
        have c1 : s1.controlled = s.controlled := d1.choose_spec.2.2.1
        have c2 : s2.controlled = s1.controlled := d2.choose_spec.2.2.1
        have c3 : s3.controlled = s2.controlled := d3.choose_spec.2.2.1
        rw [c1] at d2
        rw [c3, c2, c1] at d4
        have := (((d1.trans d2).trans d3).trans d4).trans d5
        rw [gateStages]
        · simpa using this
        · exact hn0
        · exact hn1
        · exact hn2
theorem latexSubs_draws : ∀ (ops : Subs) (bits : List Nat) (s s' : St), Inv s → s.expand = true →
    topOkSubs ops bits = true → latexSubs ops bits s = .ok s' → Draws s s' (subsStages ops bits s.controlled)
  | .nil, bits, s, s', hinv, _, _, h => by
    simp only [latexSubs] at h; injection h with h; subst h; simpa [subsStages] using Draws.nil s
  | .cons g sb rest, bits, s, s', hinv, he, ht, h => by
    simp only [topOkSubs, Bool.and_eq_true] at ht
    simp only [latexSubs] at h
    split at h
    · cases h
    · rename_i gb hgb
      rw [hgb] at ht
      obtain ⟨s1, h1, h⟩ := Res.bind_eq_ok.mp h
      have d1 := latex_draws g gb s s1 hinv he ht.1 h1
      have e1 : s1.expand = true := by rw [(keeps_latex g _ _ _ h1).expand]; exact he
      have d2 := latexSubs_draws rest bits s1 s' (d1.inv hinv) e1 ht.2 h
      have hc : s1.controlled = s.controlled := d1.choose_spec.2.2.1
      rw [hc] at d2
      simpa [subsStages, hgb] using d1.trans d2
end

/-! ## Circuit operations -/

def measStage (nq q c : Nat) (b : Option String) : List (Nat × Sym) :=
  [(q, .meter b), (nq + c, .cwx ((q : Int) - ((nq + c : Nat) : Int)))]

theorem setMeasurement_draws {q c : Nat} {b : Option String} {s s' : St} (hinv : Inv s)
    (h : setMeasurement q c b s = .ok s') : Draws s s' [measStage s.nq q c b] := by
  unfold setMeasurement at h
  dsimp only at h
  obtain ⟨sx, hx, _⟩ := Res.bind_eq_ok.mp h
  have hbx : ∃ bits, getBitIndices s [q] (some [c]) = .ok bits := by
    unfold startRangeOp at hx
    obtain ⟨bits, hb, _⟩ := Res.bind_eq_ok.mp hx
    exact ⟨bits, hb⟩
  obtain ⟨bits, hb⟩ := hbx
  obtain ⟨hbits, hq⟩ := getBitIndices_meas hb
  subst hbits
  have h' : (startRangeOp [q] (some [c]) s >>== fun s1 =>
      (fun s1 => setField q (.meter b) s1 >>== fun s2 =>
        setField (s.nq + c) (.cwx ((q : Int) - ((s.nq + c : Nat) : Int))) s2) s1 >>== endRangeOp) = .ok s' := by
    simpa [bind_assoc] using h
  refine range_draws (ws := measStage s.nq q c b) hinv hb (by simp) ?_ ?_ ?_ ?_ h'
  · intro s1 s2 hrn _ _ _ _ _ hbody
    obtain ⟨sa, ha, hb2⟩ := Res.bind_eq_ok.mp hbody
    obtain ⟨hw1, hr1, hc1⟩ := setField_inRange hrn ha
    obtain ⟨hw2, hr2, hc2⟩ := setField_inRange (by rw [hr1]; exact hrn) hb2
    exact ⟨by simpa [measStage] using hw1.trans hw2, hr2.trans hr1, hc2.trans hc1⟩
  · intro p hp; simp [measStage] at hp; rcases hp with rfl | rfl
    · exact ⟨q, by simp, q, by simp, Nat.le_refl _, Nat.le_refl _⟩
    · exact ⟨s.nq + c, by simp, s.nq + c, by simp, Nat.le_refl _, Nat.le_refl _⟩
  · simp [measStage]; omega
  · intro p hp l hl
    simp only [measStage, List.mem_cons, List.not_mem_nil, or_false] at hp
    rcases hp with rfl | rfl
    · simp [Sym.lines] at hl
    · simp only [Sym.lines, List.mem_cons, List.not_mem_nil, or_false] at hl
      subst hl
      exact ⟨(q, .meter b), by simp [measStage], by simp; omega, by simp [Sym.partnerOk]⟩

def measAllStages (nq : Nat) (b : Option String) : List Nat → Nat → List (List (Nat × Sym))
  | [], _ => []
  | c :: rest, q => measStage nq q c b :: measAllStages nq b rest (q + 1)

theorem trace_nq {s s' : St} {L : List Stg} (t : Trace s s' L) : s'.nq = s.nq := by
  induction t with
  | nil _ => rfl
  | cons hs _ ih =>
    rw [ih]
    cases hs with
    | col _ => rfl
    | fields hq _ _ _ _ _ => exact hq
    | wrote ws f l hw _ _ _ _ _ _ => exact hw.nq

theorem draws_nq {s s' : St} {S} (h : Draws s s' S) : s'.nq = s.nq := by
  obtain ⟨L, t, _⟩ := h
  exact trace_nq t

theorem measureAllLoop_draws {b : Option String} {cs : List Nat} {q : Nat} {s s' : St} (hinv : Inv s)
    (h : measureAllLoop b cs q s = .ok s') : Draws s s' (measAllStages s.nq b cs q) := by
  induction cs generalizing q s with
  | nil => simp [measureAllLoop] at h; subst h; exact Draws.nil s
  | cons c rest ih =>
    simp only [measureAllLoop] at h
    obtain ⟨s1, h1, h⟩ := Res.bind_eq_ok.mp h
    have d1 := setMeasurement_draws hinv h1
    have d2 := ih (d1.inv hinv) h
    rw [draws_nq d1] at d2
    simpa [measAllStages] using d1.trans d2

theorem resetAll_draws {nq : Nat} {s s' : St} (hinv : Inv s) (h : opLatex nq .resetAll s = .ok s') :
    Draws s s' (if nq = 0 then [] else [resetWrites 0 nq]) := by
  simp only [opLatex] at h
  cases nq with
  | zero =>
    -- no qubits: the range of all qubits is empty, nothing is reserved, drawn or closed
    obtain ⟨s1, h1, h⟩ := Res.bind_eq_ok.mp h
    obtain ⟨s2, h2, h3⟩ := Res.bind_eq_ok.mp h
    have e1 : s1 = s := by
      unfold startRangeOp at h1
      obtain ⟨bits, hb, h1⟩ := Res.bind_eq_ok.mp h1
      have := getBitIndices_none hb
      subst this
      simpa using h1.symm
    subst e1
    have e2 : s2 = s1 := by simpa [resetLoop] using h2.symm
    subst e2
    have e3 : s' = s2 := by
      unfold endRangeOp at h3
      rw [hinv.noRange] at h3
      simpa using h3.symm
    subst e3
    simpa using Draws.nil s'
  | succ n =>
    obtain ⟨sx, hx, _⟩ := Res.bind_eq_ok.mp h
    have hb := getBitIndices_none_ok_of_start hx
    have h' : (startRangeOp (List.range (n+1)) none s >>== fun s1 =>
        (fun s1 => resetLoop 0 (n+1) s1) s1 >>== endRangeOp) = .ok s' := by
      simpa [bind_assoc] using h
    have := range_draws (ws := resetWrites 0 (n+1)) hinv hb (by simp)
      (by
        intro s1 s2 hrn hcn _ _ _ _ hbody
        exact resetLoop_inRange hrn hcn hbody)
      (by
        intro p hp
        obtain ⟨h1, h2, _⟩ := resetWrites_rows 0 (n+1) p hp
        exact ⟨0, by simp, n, by simp, h1, by omega⟩)
      (resetWrites_nodup 0 (n+1))
      (by
        intro p hp l hl
        rw [(resetWrites_rows 0 (n+1) p hp).2.2] at hl
        simp [Sym.lines] at hl) h'
    simpa using this

def condStage (nq : Nat) (control : List Nat) (target : Nat) (g : Gate) (bits : List Nat) : List (Nat × Sym) :=
  match bits with
  | [] => []
  | q0 :: qs =>
    writes g bits true ++
      condWrites target (sortPairs (control.zipIdx.map fun (idx, pos) => (nq + idx, pos))) (qs.foldl max q0)

theorem cond_draws {nq : Nat} {control : List Nat} {target : Nat} {g : Gate} {bits : List Nat} {s s' : St}
    (hinv : Inv s) (hok : condOk control g bits = true)
    (h : opLatex nq (.cond control target g bits) s = .ok s') :
    Draws s s' [condStage s.nq control target g bits] := by
  simp only [condOk, Bool.and_eq_true, decide_eq_true_eq] at hok
  obtain ⟨⟨⟨hs, hg⟩, hnb⟩, hnc⟩ := hok
  simp only [opLatex] at h
  obtain ⟨sx, hx, _⟩ := Res.bind_eq_ok.mp h
  have hbx : ∃ B, getBitIndices s bits (some control) = .ok B := by
    unfold startRangeOp at hx
    obtain ⟨B, hb, _⟩ := Res.bind_eq_ok.mp hx
    exact ⟨B, hb⟩
  obtain ⟨B, hb⟩ := hbx
  obtain ⟨hB, hlt⟩ := getBitIndices_cond hb
  match bits, hg, hnb, h, hx, hb, hB, hlt with
  | [], hg, _, _, _, _, _, _ => rw [goodPlace_ne_nil] at hg; cases hg
  | q0 :: qs, hg, hnb, h, hx, hb, hB, hlt =>
    let bp := sortPairs (control.zipIdx.map fun (idx, pos) => (s.nq + idx, pos))
    let pbit := qs.foldl max q0
    have h' : (startRangeOp (q0 :: qs) (some control) s >>== fun s1 =>
        (fun s1 => latex g (q0 :: qs) { s1 with controlled := true } >>== fun s2 =>
          setCondition control target (q0 :: qs) { s2 with controlled := s1.controlled }) s1 >>== endRangeOp) = .ok s' := by
      simpa [bind_assoc] using h
    have hBne : B ≠ [] := by rw [hB]; simp
    refine range_draws (ws := writes g (q0 :: qs) true ++ condWrites target bp pbit) hinv hb hBne ?_ ?_ ?_ ?_ h'
    · intro s1 s3 hrn hcn hsh _ hq1 _ hbody
      obtain ⟨s2, ha, hb2⟩ := Res.bind_eq_ok.mp hbody
      have hrdy : Ready { s1 with controlled := true } :=
        Or.inr ⟨hrn, hcn, shape_of_fields hsh rfl rfl rfl rfl⟩
      obtain ⟨sa, hpa, hwa, hra, _, _⟩ := simple_spec g hs (q0 :: qs) _ s2 hrdy ha
      have := pre_inRange hpa (show ({ s1 with controlled := true } : St).ranges ≠ [] from hrn)
      subst this
      have hq2 : s2.nq = s.nq := by rw [hwa.nq]; exact hq1
      have hSq : ({ s2 with controlled := s1.controlled } : St).nq = s.nq := hq2
      have hSr : ({ s2 with controlled := s1.controlled } : St).ranges = s2.ranges := rfl
      have hSc : ({ s2 with controlled := s1.controlled } : St).controlled = s1.controlled := rfl
      have hSw : Wrote s2 ({ s2 with controlled := s1.controlled } : St) [] := wrote_ctl hwa.rcols_ne _
      generalize ({ s2 with controlled := s1.controlled } : St) = S at hb2 hSq hSr hSc hSw
      have hrnS : S.ranges ≠ [] := by rw [hSr, hra]; exact hrn
      unfold setCondition at hb2
      split at hb2
      · cases hb2
      · split at hb2
        · cases hb2
        · dsimp only at hb2
          rw [hSq] at hb2
          obtain ⟨hwc, hrc, hcc⟩ := condLoop_inRange hrnS hSw.rcols_ne hb2
          have hall := ((wrote_ctl hcn true).trans hwa).trans (hSw.trans hwc)
          refine ⟨by simpa using hall, ?_, ?_⟩
          · rw [hrc, hSr, hra]
          · rw [hcc, hSc]
    · intro p hp
      have hmem : p.1 ∈ B := by
        rw [hB]
        simp only [List.mem_append] at hp ⊢
        rcases hp with hp | hp
        · exact Or.inl (writes_rows _ _ _ p hp)
        · right
          have : p.1 ∈ (condWrites target bp pbit).map (·.1) := List.mem_map_of_mem hp
          rw [condWrites_rows] at this
          exact (condPairs_rows s.nq control).mem_iff.mp this
      exact ⟨p.1, hmem, p.1, hmem, Nat.le_refl _, Nat.le_refl _⟩
    · rw [List.map_append, List.nodup_append]
      refine ⟨writes_nodup g _ _ hnb, ?_, ?_⟩
      · rw [condWrites_rows]
        exact (condPairs_rows s.nq control).nodup_iff.mpr (nodup_map_add _ _ hnc)
      · intro a ha b hb' hab
        obtain ⟨p, hp, rfl⟩ := List.mem_map.mp ha
        have h1 := hlt _ (writes_rows _ _ _ p hp)
        rw [condWrites_rows] at hb'
        have h2 := (condPairs_rows s.nq control).mem_iff.mp hb'
        obtain ⟨idx, _, rfl⟩ := List.mem_map.mp h2
        omega
    · intro p hp l hl
      simp only [List.mem_append] at hp
      rcases hp with hp | hp
      · obtain ⟨q, hq, h1, h2⟩ := writes_closed g _ true hs hg p hp l hl
        exact ⟨q, List.mem_append_left _ hq, h1, h2⟩
      · obtain ⟨hk, hcase⟩ := condWrites_closed target bp pbit p hp l hl
        rcases hcase with ht | ⟨q, hq, h1, h2⟩
        · obtain ⟨q, hq, hq1, hq2⟩ := writes_cover g (q0 :: qs) true hs hg pbit (foldl_max_mem qs q0)
          refine ⟨q, List.mem_append_left _ hq, by rw [hq1]; exact ht, ?_⟩
          rw [hk]; simp [Sym.partnerOk, hq2]
        · exact ⟨q, List.mem_append_right _ hq, h1, by rw [hk]; exact h2⟩

def barrierStages (ranges : List (Nat × Nat)) : List (List (Nat × Sym)) :=
  ranges.map fun (f, l) => [(f, Sym.barrier (l - f))]

theorem barrierLoop_draws {rs : List (Nat × Nat)} {s s' : St} (hinv : Inv s) (h : barrierLoop rs s = .ok s') :
    Draws s s' (barrierStages rs) := by
  induction rs generalizing s with
  | nil => simp [barrierLoop] at h; subst h; exact Draws.nil s
  | cons x rest ih =>
    obtain ⟨f, l⟩ := x
    simp only [barrierLoop] at h
    obtain ⟨s1, h1, h⟩ := Res.bind_eq_ok.mp h
    have d1 := setField_draws hinv rfl h1
    have d2 := ih (d1.inv hinv) h
    simpa [barrierStages] using d1.trans d2

theorem setBarrier_draws {q : List Nat} {s s' : St} (hinv : Inv s) (h : setBarrier q s = .ok s') :
    Draws s s' (match getRanges q with | some rs => barrierStages rs | none => []) := by
  unfold setBarrier at h
  split at h
  · cases h
  · split at h
    · -- a barrier on no qubits draws nothing
      rename_i he
      injection h with h; subst h
      have : q = [] := by simpa using he
      subst this
      simpa [getRanges, sortNat] using Draws.nil s
    · split at h
      · cases h
      · rename_i rs hrs
        rw [hrs]
        have d0 : Draws s (addColumn s) [] :=
          Draws.of_trace_nil (Trace.single (Step.col hinv.noRange)) rfl rfl
        have := d0.trans (barrierLoop_draws (inv_addColumn hinv) h)
        simpa using this

/-- **The reference drawing of an operation**: its stages (each a list of (row, symbol) that must sit
together in one column), in program order. `nq` = number of quantum wires. -/
def opStages (nq : Nat) : Op → List (List (Nat × Sym))
  | .gate g bits => gateStages g bits false
  | .cond control target g bits => [condStage nq control target g bits]
  | .measure q c b => [measStage nq q c (basisLabel b)]
  | .measureAll cbits b => measAllStages nq (basisLabel b) cbits 0
  | .reset q => [[(q, .reset)]]
  | .resetAll => if nq = 0 then [] else [resetWrites 0 nq]
  | .barrier qbits => match getRanges qbits with | some rs => barrierStages rs | none => []
  | .peek _ _ _ => []
  | .peekAll _ _ => []

theorem op_draws {nq : Nat} {op : Op} {s s' : St} (hinv : Inv s) (he : s.expand = true) (hq : s.nq = nq)
    (hctl : s.controlled = false) (hop : opOk op = true) (h : opLatex nq op s = .ok s') :
    Draws s s' (opStages nq op) := by
  cases op with
  | gate g bits =>
    have := latex_draws g bits s s' hinv he hop h
    rw [hctl] at this; exact this
  | cond control target g bits => subst hq; exact cond_draws hinv hop h
  | reset q => exact setField_draws hinv rfl h
  | resetAll => exact resetAll_draws hinv h
  | measure q c b => subst hq; exact setMeasurement_draws hinv h
  | measureAll cbits b => subst hq; exact measureAllLoop_draws hinv h
  | peek q c b => simp [opLatex] at h
  | peekAll cbits b => simp [opLatex] at h
  | barrier qbits => exact setBarrier_draws hinv h

/-- The reference drawing of a circuit: (index of the operation, stage), in program order. -/
def opsStages (nq : Nat) : List Op → Nat → List (Nat × List (Nat × Sym))
  | [], _ => []
  | op :: rest, k => (opStages nq op).map (fun ws => (k, ws)) ++ opsStages nq rest (k + 1)

def circStages (c : Circ) : List (Nat × List (Nat × Sym)) := opsStages c.nq c.ops 0

theorem map_prov_ws {L : List Stg} {k : Nat} (h : ∀ g ∈ L, g.prov = k) :
    L.map (fun g => (g.prov, g.ws)) = (L.map (·.ws)).map fun ws => (k, ws) := by
  induction L with
  | nil => rfl
  | cons g rest ih =>
    simp only [List.map_cons]
    rw [h g (by simp), ih (fun x hx => h x (by simp [hx]))]

theorem opsLatex_trace {nq : Nat} {ops : List Op} {s s' : St} (hinv : Inv s) (he : s.expand = true)
    (hq : s.nq = nq) (hctl : s.controlled = false) (hop : ∀ op ∈ ops, opOk op = true)
    (h : opsLatex nq ops s = .ok s') :
    ∃ L, Trace s s' L ∧ L.map (fun g => (g.prov, g.ws)) = opsStages nq ops s.cur := by
  induction ops generalizing s with
  | nil => simp [opsLatex] at h; subst h; exact ⟨[], Trace.nil s, rfl⟩
  | cons op rest ih =>
    simp only [opsLatex] at h
    obtain ⟨s1, h1, h⟩ := Res.bind_eq_ok.mp h
    obtain ⟨L1, t1, m1, c1, k1⟩ := op_draws hinv he hq hctl (hop op (by simp)) h1
    have i1 := trace_inv hinv t1
    have lay := layout_of_trace hinv t1
    have hprov : ∀ g ∈ L1, g.prov = s.cur := by
      intro g hg
      obtain ⟨_, _, a, b⟩ := lay.bounds g hg
      rw [k1] at b; omega
    have e1 : s1.expand = true := by rw [(keeps_opLatex h1).expand]; exact he
    have q1 : s1.nq = nq := by rw [(keeps_opLatex h1).nq]; exact hq
    have t2 : Trace s1 { s1 with cur := s1.cur + 1 } [] :=
      Trace.single (Step.fields rfl rfl rfl rfl rfl (Nat.le_succ _))
    obtain ⟨L2, t3, m3⟩ := ih (s := { s1 with cur := s1.cur + 1 }) (inv_of_fields i1 rfl rfl rfl rfl rfl) e1 q1
      (by show s1.controlled = false; rw [c1]; exact hctl) (fun o ho => hop o (by simp [ho])) h
    refine ⟨L1 ++ L2, ?_, ?_⟩
    · have := (t1.trans t2).trans t3
      simpa using this
    · rw [List.map_append, map_prov_ws hprov, m1, m3]
      show _ = opsStages nq (op :: rest) s.cur
      simp only [opsStages]
      rw [k1]

/-- **Every circuit of the proved class is drawn as the trace of its reference stages.** -/
theorem exportSt_trace {c : Circ} {s : St} (hop : ∀ op ∈ c.ops, opOk op = true) (h : exportSt c = .ok s) :
    ∃ L, Trace (St.new c.nq c.nc) s L ∧ L.map (fun g => (g.prov, g.ws)) = circStages c :=
  opsLatex_trace (inv_new c.nq c.nc) rfl rfl rfl hop h

end Q1t.Proofs.Latex

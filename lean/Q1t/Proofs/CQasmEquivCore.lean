import Q1t.Proofs.EmbedAlgebra
import Q1t.Proofs.CQasmBracketSem
import Q1t.Proofs.CQasmTrig
import Q1t.Spec.Born
set_option linter.unusedSimpArgs false
set_option linter.unusedSectionVars false
set_option linter.unusedVariables false
/-!
C12 (`cq_equiv_partial`), part 1: the statements of an exported program at the level of VALUES (`DStmt`: a gate is its
matrix on its qubits, conditioned on bits; `not`; a measurement with its basis rotations; `prep_z`), whose semantics is
literally that of `Spec/CQ1.instrSem` (bridging lemmas), and the comparison with the Born semantics of the circuit's
operations (`Spec/Born.branchesOp`): a list of gate lines whose ordered matrix product is the gate's embedded
unitary; the `not`-bracketed conditional; measurements in the three bases; `prep_z`.
-/
namespace Q1t.Proofs.CQasm
open Q1t Q1t.Spec Q1t.Proofs.Route

variable {α P : Type} [CommRing α] [Amp α P]

inductive DStmt (α : Type) where
  | gate (ctrl : List Nat) (qs : List Nat) (M : LMat α)
  | notb (k : Nat)
  | measure (q : Nat) (pre post : List (LMat α))
  | prep (q : Nat)

/-- the semantics of `Spec/CQ1` on value-level statements -/
def dSem (n : Nat) (nz : List α → Bool) : DStmt α → CQ1.Branch α → List (CQ1.Branch α)
  | .gate ctrl qs M, br => [if ctrl.all (CQ1.bitSet br.2) then (CQ1.applyOn n M qs br.1, br.2) else br]
  | .notb k, br => [(br.1, br.2 ^^^ (1 <<< k))]
  | .measure q pre post, br => CQ1.measureWith n nz pre post q br
  | .prep q, br =>
      [(CQ1.project n q false br.1, br.2), (CQ1.applyOn n CQ1.mX [q] (CQ1.project n q true br.1), br.2)].filter
        fun b => nz b.1

def dSeq (n : Nat) (nz : List α → Bool) : List (DStmt α) → List (CQ1.Branch α) → List (CQ1.Branch α)
  | [], brs => brs
  | s :: ss, brs => dSeq n nz ss (brs.flatMap (dSem n nz s))

theorem dSeq_append (n : Nat) (nz : List α → Bool) : ∀ (a b : List (DStmt α)) (brs : List (CQ1.Branch α)),
    dSeq n nz (a ++ b) brs = dSeq n nz b (dSeq n nz a brs)
  | [], _, _ => rfl
  | s :: ss, b, brs => by simp [dSeq, dSeq_append n nz ss b]

/-! ### bridging: this IS the semantics of `Spec/CQ1` -/

theorem instrSem_not (S : CQ1.NumSem α P) (n : Nat) (nz : List α → Bool) (k : Nat) (br : CQ1.Branch α) :
    CQ1.instrSem S n nz ⟨[], "not", [.b k]⟩ br = some (dSem n nz (.notb k) br) := by
  simp [CQ1.instrSem, dSem]

theorem instrSem_measure (S : CQ1.NumSem α P) (n : Nat) (nz : List α → Bool) (q : Nat) (br : CQ1.Branch α) :
    CQ1.instrSem S n nz ⟨[], "measure", [.q q]⟩ br = some (dSem n nz (.measure q [] []) br) ∧
    CQ1.instrSem S n nz ⟨[], "measure_x", [.q q]⟩ br =
      some (dSem n nz (.measure q [CQ1.mH (P := P)] [CQ1.mH (P := P)]) br) ∧
    CQ1.instrSem S n nz ⟨[], "measure_y", [.q q]⟩ br =
      some (dSem n nz (.measure q [CQ1.mSdag (P := P), CQ1.mH (P := P)] [CQ1.mH (P := P), CQ1.mS (P := P)]) br) := by
  simp [CQ1.instrSem, dSem]

theorem instrSem_prep (S : CQ1.NumSem α P) (n : Nat) (nz : List α → Bool) (q : Nat) (br : CQ1.Branch α) :
    CQ1.instrSem S n nz ⟨[], "prep_z", [.q q]⟩ br = some (dSem n nz (.prep q) br) := by
  simp [CQ1.instrSem, dSem]

/-! ### gate lines: the ordered product -/

/-- unconditioned gate lines, first line first -/
def gateLines (apps : List (List Nat × LMat α)) : List (DStmt α) := apps.map fun a => .gate [] a.1 a.2

theorem dSeq_gateLines (n : Nat) (nz : List α → Bool) : ∀ (apps : List (List Nat × LMat α)) (ψ : List α) (w : Nat),
    dSeq n nz (gateLines apps) [(ψ, w)] = [(apps.foldl (fun φ a => LMat.mulVec (embed n a.1 a.2) φ) ψ, w)]
  | [], ψ, w => rfl
  | a :: rest, ψ, w => by
    simp only [gateLines, List.map_cons, dSeq, List.flatMap_cons, List.flatMap_nil, List.append_nil, dSem,
      List.all_nil, if_true, CQ1.applyOn, List.foldl_cons]
    exact dSeq_gateLines n nz rest _ w

/-- iterated application is application of the ordered product -/
theorem foldl_mulVec_eq (n : Nat) : ∀ (apps : List (List Nat × LMat α)) (acc : LMat α) (ψ : List α),
    WFMat (2 ^ n) acc → ψ.length = 2 ^ n →
    apps.foldl (fun φ a => LMat.mulVec (embed n a.1 a.2) φ) (LMat.mulVec acc ψ) =
      LMat.mulVec (apps.foldl (fun m a => LMat.mul (embed n a.1 a.2) m) acc) ψ
  | [], _, _, _, _ => rfl
  | a :: rest, acc, ψ, hacc, hψ => by
    rw [List.foldl_cons, List.foldl_cons, ← mulVec_mul (2 ^ n) _ _ (embed_wf n a.1 a.2) hacc ψ hψ]
    exact foldl_mulVec_eq n rest _ ψ (mul_wf _ _ _ (embed_wf n a.1 a.2) hacc) hψ

/-- **gate lines whose ordered product is `U` act as `U`** -/
theorem gateLines_sem (n : Nat) (nz : List α → Bool) (apps : List (List Nat × LMat α)) (U : LMat α)
    (hU : apps.foldl (fun m a => LMat.mul (embed n a.1 a.2) m) (LMat.identity (2 ^ n)) = U)
    (ψ : List α) (w : Nat) (hψ : ψ.length = 2 ^ n) :
    dSeq n nz (gateLines apps) [(ψ, w)] = [(LMat.mulVec U ψ, w)] := by
  rw [dSeq_gateLines, ← hU, ← foldl_mulVec_eq n apps _ ψ (identity_wf _) hψ, mulVec_identity (2 ^ n) ψ hψ]

/-! ### register words -/

theorem writeBit_eq (w k : Nat) (o : Bool) (hw : w < 2 ^ 64) (hk : k < 64) :
    Spec.writeBit w k o = CQ1.writeBit w k o := by
  unfold Spec.writeBit Sim.setBitTo CQ1.writeBit
  apply Nat.eq_of_testBit_eq
  intro j
  have hwj : ∀ j, 64 ≤ j → w.testBit j = false := fun j hj =>
    Nat.testBit_lt_two_pow (Nat.lt_of_lt_of_le hw (Nat.pow_le_pow_right (by omega) hj))
  cases o with
  | true =>
    simp only [if_true]
    by_cases hb : w.testBit k = true
    · simp only [hb, beq_self_eq_true, if_true, Nat.testBit_or, Nat.one_shiftLeft, Nat.testBit_two_pow]
      by_cases hkj : k = j
      · subst hkj; simp [hb]
      · simp [hkj]
    · have hb' : w.testBit k = false := by simpa using hb
      simp only [hb', Bool.false_eq_true, if_false, Nat.testBit_or, Nat.testBit_xor, Nat.one_shiftLeft,
        Nat.testBit_two_pow]
      by_cases hkj : k = j
      · subst hkj; simp [hb']
      · simp [hkj]
  | false =>
    simp only [Bool.false_eq_true, if_false]
    have hmask : ∀ j, ((2 ^ 64 - 1) ^^^ (1 <<< k)).testBit j = (decide (j < 64) && !decide (k = j)) := by
      intro j
      rw [Nat.testBit_xor, Nat.testBit_two_pow_sub_one, Nat.one_shiftLeft, Nat.testBit_two_pow]
      by_cases h1 : j < 64 <;> by_cases h2 : k = j <;> simp [h1, h2] <;> omega
    rw [Nat.testBit_and, hmask]
    by_cases hb : w.testBit k = true
    · simp only [hb, Bool.true_eq_false, if_false, Nat.testBit_xor, Nat.one_shiftLeft, Nat.testBit_two_pow]
      by_cases hkj : k = j
      · subst hkj; simp [hb]
      · by_cases hj : j < 64
        · simp [hkj, hj]
        · simp [hkj, hj, hwj j (by omega)]
    · have hb' : w.testBit k = false := by simpa using hb
      simp only [hb', beq_self_eq_true, if_true]
      by_cases hkj : k = j
      · subst hkj; simp [hb']
      · by_cases hj : j < 64
        · simp [hkj, hj]
        · simp [hkj, hj, hwj j (by omega)]

end Q1t.Proofs.CQasm

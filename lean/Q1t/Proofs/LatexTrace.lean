import Q1t.Proofs.LatexInv
/-!
C13 — provenance layer: every operation of a circuit inside the proved class is drawn as a sequence of
*stages* (groups of symbols written into EMPTY cells of the last column, under a reserved range);
from the trace of stages follow: the invariant `Inv` (connectors), that nothing drawn is ever
overwritten, that the final matrix is exactly the stages laid out in non-decreasing columns without
collisions (each operation exactly once, wires in program order), and that the cells strictly between
the two ends of a connector are empty or belong to the same operation.
-/
namespace Q1t.Proofs.Latex
open Q1t.Latex Q1t.Spec.QcGrid

/-! ## Explicit cells of the matrix, columns counted from the left -/

def HasCols (cols : List Column) (c r : Nat) (cell : Cell) : Prop :=
  ∃ col, cols.reverse[c]? = some col ∧ col[r]? = some (some cell)

/-- Column `c` (from the left, 0-based), row `r` of the matrix holds the explicit cell `cell`
(symbol + ghost provenance). -/
def Has (s : St) (c r : Nat) (cell : Cell) : Prop := HasCols s.rcols c r cell

theorem hasCols_cons (col : Column) (rest : List Column) (c r : Nat) (cell : Cell) :
    HasCols (col :: rest) c r cell ↔
      (c = rest.length ∧ col[r]? = some (some cell)) ∨ HasCols rest c r cell := by
  unfold HasCols
  simp only [List.reverse_cons]
  constructor
  · rintro ⟨x, hx, hr⟩
    rw [List.getElem?_append] at hx
    split at hx
    · exact Or.inr ⟨x, hx, hr⟩
    · rename_i hlt
      simp only [List.length_reverse, Nat.not_lt] at hlt
      simp only [List.length_reverse] at hx
      rcases Nat.eq_or_lt_of_le hlt with he | hl
      · subst he
        simp at hx; subst hx
        exact Or.inl ⟨rfl, hr⟩
      · rw [List.getElem?_eq_none (by simp; omega)] at hx; cases hx
  · rintro (⟨rfl, hr⟩ | ⟨x, hx, hr⟩)
    · exact ⟨col, by simp, hr⟩
    · refine ⟨x, ?_, hr⟩
      have hlt : c < rest.reverse.length := by
        rcases Nat.lt_or_ge c rest.reverse.length with h | h
        · exact h
        · rw [List.getElem?_eq_none h] at hx; cases hx
      rw [List.getElem?_append_left hlt]; exact hx

theorem hasCols_nil (c r : Nat) (cell : Cell) : ¬ HasCols [] c r cell := by
  rintro ⟨x, hx, _⟩; simp at hx

theorem hasCols_lt {cols : List Column} {c r : Nat} {cell : Cell} (h : HasCols cols c r cell) : c < cols.length := by
  obtain ⟨x, hx, _⟩ := h
  rcases Nat.lt_or_ge c cols.length with hl | hl
  · exact hl
  · rw [List.getElem?_eq_none (by simpa using hl)] at hx; cases hx

/-- A position holds at most one cell. -/
theorem hasCols_fun {cols : List Column} {c r : Nat} {a b : Cell} (ha : HasCols cols c r a) (hb : HasCols cols c r b) :
    a = b := by
  obtain ⟨x, hx, h1⟩ := ha
  obtain ⟨y, hy, h2⟩ := hb
  rw [hx] at hy; injection hy with hy; subst hy
  rw [h1] at h2; injection h2 with h2; injection h2

/-! ## Stages -/

/-- One stage of drawing: the symbols `ws` (row, symbol) written together into column `col` (from the
left) on behalf of operation `prov`. -/
structure Stg where
  col : Nat
  prov : Nat
  ws : List (Nat × Sym)

/-- The cell-level version of `applyWrites_symAt_mem`. -/
theorem applyWrites_get_mem (pv : Nat) (ws : List (Nat × Sym)) (col : Column)
    (hnd : (ws.map (·.1)).Nodup) (hlt : ∀ p ∈ ws, p.1 < col.length) :
    ∀ p ∈ ws, (applyWrites pv ws col)[p.1]? = some (some ⟨p.2, pv⟩) := by
  induction ws generalizing col with
  | nil => intro p hp; cases hp
  | cons x xs ih =>
    obtain ⟨r0, y0⟩ := x
    intro p hp
    simp only [List.map_cons, List.nodup_cons] at hnd
    simp only [applyWrites]
    simp only [List.mem_cons] at hp
    rcases hp with rfl | hp
    · have hne : ∀ q ∈ xs, q.1 ≠ r0 := by
        intro q hq e; exact hnd.1 (by rw [← e]; exact List.mem_map_of_mem hq)
      rw [applyWrites_get_other pv xs _ r0 hne]
      have := hlt (r0, y0) (by simp)
      simp [List.getElem?_set, this]
    · exact ih _ hnd.2 (fun q hq => by simpa using hlt q (by simp [hq])) p hp

theorem eq_of_nodup_fst {ws : List (Nat × Sym)} (hnd : (ws.map (·.1)).Nodup) {p q : Nat × Sym}
    (hp : p ∈ ws) (hq : q ∈ ws) (h : p.1 = q.1) : p = q := by
  induction ws with
  | nil => cases hp
  | cons x xs ih =>
    simp only [List.map_cons, List.nodup_cons] at hnd
    simp only [List.mem_cons] at hp hq
    rcases hp with rfl | hp <;> rcases hq with rfl | hq
    · rfl
    · exact absurd (by rw [h]; exact List.mem_map_of_mem hq) hnd.1
    · exact absurd (by rw [← h]; exact List.mem_map_of_mem hp) hnd.1
    · exact ih hnd.2 hp hq

/-- The cells of a column after a group of writes into empty cells: the old ones and the new ones. -/
theorem applyWrites_cell_iff (pv : Nat) (ws : List (Nat × Sym)) (col : Column)
    (hnd : (ws.map (·.1)).Nodup) (hlt : ∀ p ∈ ws, p.1 < col.length)
    (hempty : ∀ p ∈ ws, col[p.1]? = some none) (r : Nat) (cell : Cell) :
    (applyWrites pv ws col)[r]? = some (some cell) ↔
      col[r]? = some (some cell) ∨ ((r, cell.sym) ∈ ws ∧ cell.prov = pv) := by
  by_cases hr : ∃ p ∈ ws, p.1 = r
  · obtain ⟨p, hp, rfl⟩ := hr
    rw [applyWrites_get_mem pv ws col hnd hlt p hp, hempty p hp]
    constructor
    · intro h
      injection h with h; injection h with h; subst h
      exact Or.inr ⟨hp, rfl⟩
    · rintro (h | ⟨hm, hpv⟩)
      · cases h
      · have := eq_of_nodup_fst hnd hp hm rfl
        obtain ⟨y, k⟩ := cell
        simp only at hpv this ⊢
        subst hpv
        rw [this]
  · have hne : ∀ p ∈ ws, p.1 ≠ r := fun p hp e => hr ⟨p, hp, e⟩
    rw [applyWrites_get_other pv ws col r hne]
    constructor
    · exact Or.inl
    · rintro (h | ⟨hm, _⟩)
      · exact h
      · exact absurd rfl (hne _ hm)

/-! ## Steps and traces -/

/-- The three kinds of state change an operation of the proved class is made of. -/
inductive Step : St → St → List Stg → Prop
  /-- a fresh column is started (outside any range) -/
  | col {s : St} (h : s.ranges = []) : Step s (addColumn s) []
  /-- book-keeping that touches neither the matrix nor `in_use` (loop records, `controlled`, the ghost counter) -/
  | fields {s s' : St} (hq : s'.nq = s.nq) (hc : s'.nc = s.nc) (hr : s'.rcols = s.rcols)
      (hi : s'.inUse = s.inUse) (hg : s'.ranges = s.ranges) (hcur : s.cur ≤ s'.cur) : Step s s' []
  /-- a stage: the symbols `ws` are written into the last column, inside the rows `f..l`, all of which
  were free before and are in use afterwards; every line of a new symbol ends on a new partner symbol -/
  | wrote {s0 s' : St} (ws : List (Nat × Sym)) (f l : Nat) (hw : Wrote s0 s' ws) (hr : s'.ranges = [])
      (hrows : ∀ p ∈ ws, f ≤ p.1 ∧ p.1 ≤ l)
      (hfree : ∀ r, f ≤ r → r ≤ l → s0.inUse[r]? = some false)
      (hused : ∀ r, f ≤ r → r ≤ l → s'.inUse[r]? = some true)
      (hnd : (ws.map (·.1)).Nodup)
      (hclosed : ∀ p ∈ ws, ∀ ln ∈ p.2.lines,
        ∃ q ∈ ws, (p.1 : Int) + ln.1 = (q.1 : Int) ∧ Sym.partnerOk ln.2 q.2 = true) :
      Step s0 s' [⟨s0.rcols.length - 1, s0.cur, ws⟩]

inductive Trace : St → St → List Stg → Prop
  | nil (s : St) : Trace s s []
  | cons {s s1 s2 : St} {L1 L2 : List Stg} : Step s s1 L1 → Trace s1 s2 L2 → Trace s s2 (L1 ++ L2)

theorem Trace.single {s s' : St} {L : List Stg} (h : Step s s' L) : Trace s s' L := by
  have := Trace.cons h (Trace.nil s'); simpa using this

theorem Trace.trans {a b c : St} {L1 L2 : List Stg} (h1 : Trace a b L1) (h2 : Trace b c L2) :
    Trace a c (L1 ++ L2) := by
  induction h1 with
  | nil s => simpa using h2
  | cons hs _ ih => rw [List.append_assoc]; exact Trace.cons hs (ih h2)

theorem step_inv {s s' : St} {L : List Stg} (hinv : Inv s) (h : Step s s' L) : Inv s' := by
  cases h with
  | col _ => exact inv_addColumn hinv
  | fields hq hc hr hi hg _ => exact inv_of_fields hinv hq hc hr hi hg
  | wrote ws f l hw hr hrows hfree _ hnd hclosed =>
    exact inv_of_wrote hinv hw hr (fun p hp => hfree p.1 (hrows p hp).1 (hrows p hp).2) hnd hclosed

/-- **T1** — the connector invariant along a trace. -/
theorem trace_inv {s s' : St} {L : List Stg} (hinv : Inv s) (h : Trace s s' L) : Inv s' := by
  induction h with
  | nil _ => exact hinv
  | cons hs _ ih => exact ih (step_inv hinv hs)

/-! ## The layout described by a trace -/

/-- `s'` is `s` plus the stages `L`, laid out in non-decreasing columns (and operations), each stage
in one column, into cells that were empty, no two stages on the same cell. -/
structure Layout (s s' : St) (L : List Stg) : Prop where
  len : s.rcols.length ≤ s'.rcols.length
  cur : s.cur ≤ s'.cur
  bounds : ∀ g ∈ L, s.rcols.length ≤ g.col + 1 ∧ g.col < s'.rcols.length ∧ s.cur ≤ g.prov ∧ g.prov ≤ s'.cur
  sorted : L.Pairwise fun a b => a.col ≤ b.col ∧ a.prov ≤ b.prov
  nodup : ∀ g ∈ L, (g.ws.map (·.1)).Nodup
  fresh : ∀ g ∈ L, ∀ p ∈ g.ws, ∀ cell, ¬ Has s g.col p.1 cell
  disjoint : L.Pairwise fun a b => a.col = b.col → ∀ p ∈ a.ws, ∀ q ∈ b.ws, p.1 ≠ q.1
  cells : ∀ c r cell, Has s' c r cell ↔
    Has s c r cell ∨ ∃ g ∈ L, g.col = c ∧ g.prov = cell.prov ∧ (r, cell.sym) ∈ g.ws

theorem Layout.refl (s : St) : Layout s s [] :=
  ⟨Nat.le_refl _, Nat.le_refl _, (by intro g hg; cases hg), List.Pairwise.nil, (by intro g hg; cases hg),
   (by intro g hg; cases hg), List.Pairwise.nil, (by intro c r cell; simp)⟩

theorem Layout.of_same_cells {s s' : St} (hl : s.rcols.length ≤ s'.rcols.length) (hc : s.cur ≤ s'.cur)
    (h : ∀ c r cell, Has s' c r cell ↔ Has s c r cell) : Layout s s' [] :=
  ⟨hl, hc, (by intro g hg; cases hg), List.Pairwise.nil, (by intro g hg; cases hg),
   (by intro g hg; cases hg), List.Pairwise.nil, (by intro c r cell; simp [h])⟩

theorem Layout.trans {a b c : St} {L1 L2 : List Stg} (h1 : Layout a b L1) (h2 : Layout b c L2) :
    Layout a c (L1 ++ L2) := by
  have hmono : ∀ cc r cell, Has a cc r cell → Has b cc r cell := fun cc r cell h => (h1.cells cc r cell).mpr (Or.inl h)
  refine ⟨Nat.le_trans h1.len h2.len, Nat.le_trans h1.cur h2.cur, ?_, ?_, ?_, ?_, ?_, ?_⟩
  · intro g hg
    rcases List.mem_append.mp hg with hg | hg
    · obtain ⟨x1, x2, x3, x4⟩ := h1.bounds g hg
      exact ⟨x1, Nat.lt_of_lt_of_le x2 h2.len, x3, Nat.le_trans x4 h2.cur⟩
    · obtain ⟨x1, x2, x3, x4⟩ := h2.bounds g hg
      exact ⟨Nat.le_trans h1.len x1, x2, Nat.le_trans h1.cur x3, x4⟩
  · rw [List.pairwise_append]
    refine ⟨h1.sorted, h2.sorted, ?_⟩
    intro x hx y hy
    obtain ⟨_, x2, _, x4⟩ := h1.bounds x hx
    obtain ⟨y1, _, y3, _⟩ := h2.bounds y hy
    exact ⟨by omega, by omega⟩
  · intro g hg
    rcases List.mem_append.mp hg with hg | hg
    · exact h1.nodup g hg
    · exact h2.nodup g hg
  · intro g hg p hp cell hh
    rcases List.mem_append.mp hg with hg | hg
    · exact h1.fresh g hg p hp cell hh
    · exact h2.fresh g hg p hp cell (hmono _ _ _ hh)
  · rw [List.pairwise_append]
    refine ⟨h1.disjoint, h2.disjoint, ?_⟩
    intro x hx y hy hcol p hp q hq hpq
    have : Has b x.col p.1 ⟨p.2, x.prov⟩ := (h1.cells _ _ _).mpr (Or.inr ⟨x, hx, rfl, rfl, hp⟩)
    rw [hcol, hpq] at this
    exact h2.fresh y hy q hq _ this
  · intro cc r cell
    rw [h2.cells, h1.cells]
    constructor
    · rintro ((h | ⟨g, hg, h⟩) | ⟨g, hg, h⟩)
      · exact Or.inl h
      · exact Or.inr ⟨g, List.mem_append_left _ hg, h⟩
      · exact Or.inr ⟨g, List.mem_append_right _ hg, h⟩
    · rintro (h | ⟨g, hg, h⟩)
      · exact Or.inl (Or.inl h)
      · rcases List.mem_append.mp hg with hg | hg
        · exact Or.inl (Or.inr ⟨g, hg, h⟩)
        · exact Or.inr ⟨g, hg, h⟩

theorem replicate_none_get (n r : Nat) (cell : Cell) : (List.replicate n (none : Option Cell))[r]? ≠ some (some cell) := by
  rw [List.getElem?_replicate]; split <;> simp

theorem layout_step {s s' : St} {L : List Stg} (hinv : Inv s) (h : Step s s' L) : Layout s s' L := by
  cases h with
  | col _ =>
    refine Layout.of_same_cells (by simp [addColumn]) (Nat.le_refl _) ?_
    intro c r cell
    show HasCols (List.replicate s.total none :: s.rcols) c r cell ↔ HasCols s.rcols c r cell
    rw [hasCols_cons]
    constructor
    · rintro (⟨_, h⟩ | h)
      · exact absurd h (replicate_none_get _ _ _)
      · exact h
    · exact Or.inr
  | fields hq hc hr hi hg hcur =>
    refine Layout.of_same_cells (by rw [hr]; exact Nat.le_refl _) hcur ?_
    intro c r cell; unfold Has; rw [hr]
  | wrote ws f l hw hr hrows hfree hused hnd hclosed =>
    obtain ⟨col, rest, h0, h1, hlt⟩ := hw.cols
    have hempty : ∀ p ∈ ws, col[p.1]? = some none := fun p hp =>
      hinv.free col rest h0 p.1 (hfree p.1 (hrows p hp).1 (hrows p hp).2)
    have hcolidx : s.rcols.length - 1 = rest.length := by rw [h0]; simp
    have hcells : ∀ c r cell, Has s' c r cell ↔
        Has s c r cell ∨ (c = rest.length ∧ cell.prov = s.cur ∧ (r, cell.sym) ∈ ws) := by
      intro c r cell
      unfold Has
      rw [h1, h0, hasCols_cons, hasCols_cons, applyWrites_cell_iff _ ws col hnd hlt hempty]
      constructor
      · rintro (⟨hc, h | ⟨hm, hp⟩⟩ | h)
        · exact Or.inl (Or.inl ⟨hc, h⟩)
        · exact Or.inr ⟨hc, hp, hm⟩
        · exact Or.inl (Or.inr h)
      · rintro ((⟨hc, h⟩ | h) | ⟨hc, hp, hm⟩)
        · exact Or.inl ⟨hc, Or.inl h⟩
        · exact Or.inr h
        · exact Or.inl ⟨hc, Or.inr ⟨hm, hp⟩⟩
    rw [hcolidx]
    refine ⟨by rw [h1, h0]; simp, by rw [hw.cur]; exact Nat.le_refl _, ?_, ?_, ?_, ?_, ?_, ?_⟩
    · intro g hg
      simp only [List.mem_singleton] at hg; subst hg
      refine ⟨by rw [h0]; simp, by rw [h1]; simp, Nat.le_refl _, by rw [hw.cur]; exact Nat.le_refl _⟩
    · exact List.pairwise_singleton _ _
    · intro g hg
      simp only [List.mem_singleton] at hg; subst hg; exact hnd
    · intro g hg p hp cell hh
      simp only [List.mem_singleton] at hg; subst hg
      unfold Has at hh
      rw [h0, hasCols_cons] at hh
      rcases hh with ⟨_, hh⟩ | hh
      · rw [hempty p hp] at hh; cases hh
      · exact absurd (hasCols_lt hh) (Nat.lt_irrefl _)
    · exact List.pairwise_singleton _ _
    · intro c r cell
      rw [hcells]
      constructor
      · rintro (h | ⟨hc, hp, hm⟩)
        · exact Or.inl h
        · exact Or.inr ⟨_, List.mem_singleton.mpr rfl, hc.symm, hp.symm, hm⟩
      · rintro (h | ⟨g, hg, hc, hp, hm⟩)
        · exact Or.inl h
        · simp only [List.mem_singleton] at hg; subst hg
          exact Or.inr ⟨hc.symm, hp.symm, hm⟩

/-- **T2/T3** — the final matrix is the initial one plus the stages of the trace, laid out. -/
theorem layout_of_trace {s s' : St} {L : List Stg} (hinv : Inv s) (h : Trace s s' L) : Layout s s' L := by
  induction h with
  | nil s => exact Layout.refl s
  | cons hs _ ih => exact (layout_step hinv hs).trans (ih (step_inv hinv hs))

/-! ## Nothing of another operation between the two ends of a connector -/

/-- `r'` lies strictly between `r` and `t`. -/
def Between (r t r' : Nat) : Prop := (r < r' ∧ r' < t) ∨ (t < r' ∧ r' < r)

/-- In a column, every explicit cell strictly between the two ends of a line belongs to the operation
that drew the line. -/
def ColSpan (col : Column) : Prop :=
  ∀ (r : Nat) (cell : Cell), col[r]? = some (some cell) → ∀ ln ∈ cell.sym.lines, ∀ t : Nat, (r : Int) + ln.1 = (t : Int) →
    ∀ (r' : Nat) (cell' : Cell), Between r t r' → col[r']? = some (some cell') → cell'.prov = cell.prov

/-- In a column, every line ends inside the column on a partner symbol drawn by the SAME operation. -/
def ColPartner (col : Column) : Prop :=
  ∀ (r : Nat) (cell : Cell), col[r]? = some (some cell) → ∀ ln ∈ cell.sym.lines,
    ∃ (t : Nat) (cell' : Cell), (r : Int) + ln.1 = (t : Int) ∧ col[t]? = some (some cell') ∧
      Sym.partnerOk ln.2 cell'.sym = true ∧ cell'.prov = cell.prov

/-- The invariant of DESIGN §5 C13: every column is `ColSpan` (and `ColPartner`), and a field of the
last column that is not in use lies under no connector. -/
structure Span (s : St) : Prop where
  all : ∀ col ∈ s.rcols, ColSpan col
  partner : ∀ col ∈ s.rcols, ColPartner col
  clear : ∀ col rest, s.rcols = col :: rest → ∀ r' : Nat, s.inUse[r']? = some false →
    ∀ (r : Nat) (cell : Cell), col[r]? = some (some cell) → ∀ ln ∈ cell.sym.lines, ∀ t : Nat, (r : Int) + ln.1 = (t : Int) →
      ¬ Between r t r'

theorem span_new (nq nc : Nat) : Span (St.new nq nc) :=
  ⟨by intro col h; simp [St.new] at h, by intro col h; simp [St.new] at h, by intro col rest h; simp [St.new] at h⟩

theorem between_range {f l r t r' : Nat} (hr : f ≤ r ∧ r ≤ l) (ht : f ≤ t ∧ t ≤ l) (hb : Between r t r') :
    f ≤ r' ∧ r' ≤ l := by
  rcases hb with ⟨h1, h2⟩ | ⟨h1, h2⟩ <;> constructor <;> omega

theorem span_step {s s' : St} {L : List Stg} (hinv : Inv s) (hsp : Span s) (h : Step s s' L) : Span s' := by
  cases h with
  | col _ =>
    refine ⟨?_, ?_, ?_⟩
    · intro col hc
      simp only [addColumn, List.mem_cons] at hc
      rcases hc with rfl | hc
      · intro r cell hcell; exact absurd hcell (replicate_none_get _ _ _)
      · exact hsp.all col hc
    · intro col hc
      simp only [addColumn, List.mem_cons] at hc
      rcases hc with rfl | hc
      · intro r cell hcell; exact absurd hcell (replicate_none_get _ _ _)
      · exact hsp.partner col hc
    · intro col rest he r' _ r cell hcell
      simp only [addColumn] at he
      injection he with he _; subst he
      exact absurd hcell (replicate_none_get _ _ _)
  | fields hq hc hr hi hg hcur =>
    exact ⟨by rw [hr]; exact hsp.all, by rw [hr]; exact hsp.partner, by rw [hr, hi]; exact hsp.clear⟩
  | wrote ws f l hw hr hrows hfree hused hnd hclosed =>
    obtain ⟨col, rest, h0, h1, hlt⟩ := hw.cols
    have hemptyR : ∀ r, f ≤ r → r ≤ l → col[r]? = some none := fun r a b =>
      hinv.free col rest h0 r (hfree r a b)
    have hempty : ∀ p ∈ ws, col[p.1]? = some none := fun p hp => hemptyR p.1 (hrows p hp).1 (hrows p hp).2
    have hiff := applyWrites_cell_iff s.cur ws col hnd hlt hempty
    -- both ends of a line of a new symbol lie in `f..l`
    have hends : ∀ r y, (r, y) ∈ ws → ∀ ln ∈ y.lines, ∀ t : Nat, (r : Int) + ln.1 = (t : Int) →
        (f ≤ r ∧ r ≤ l) ∧ (f ≤ t ∧ t ≤ l) := by
      intro r y hm ln hln t ht
      obtain ⟨q, hq, hqt, _⟩ := hclosed (r, y) hm ln hln
      have : t = q.1 := by
        have : (t : Int) = (q.1 : Int) := by rw [← ht]; exact hqt
        exact Int.ofNat.inj this
      subst this
      exact ⟨hrows (r, y) hm, hrows q hq⟩
    refine ⟨?_, ?_, ?_⟩
    · intro c hc
      rw [h1] at hc
      simp only [List.mem_cons] at hc
      rcases hc with rfl | hc
      · intro r cell hcell ln hln t ht r' cell' hb hcell'
        rw [hiff] at hcell hcell'
        rcases hcell with hcell | ⟨hm, hp⟩
        · rcases hcell' with hcell' | ⟨hm', _⟩
          · exact hsp.all col (by rw [h0]; simp) r cell hcell ln hln t ht r' cell' hb hcell'
          · have hfr := hfree r' (hrows _ hm').1 (hrows _ hm').2
            exact absurd hb (hsp.clear col rest h0 r' hfr r cell hcell ln hln t ht)
        · obtain ⟨hr1, ht1⟩ := hends r cell.sym hm ln hln t ht
          obtain ⟨b1, b2⟩ := between_range hr1 ht1 hb
          rcases hcell' with hcell' | ⟨_, hp'⟩
          · rw [hemptyR r' b1 b2] at hcell'; cases hcell'
          · rw [hp, hp']
      · exact hsp.all c (by rw [h0]; simp [hc])
    · intro c hc
      rw [h1] at hc
      simp only [List.mem_cons] at hc
      rcases hc with rfl | hc
      · intro r cell hcell ln hln
        rw [hiff] at hcell
        rcases hcell with hcell | ⟨hm, hp⟩
        · obtain ⟨t, cell', ht, hc', hpo, hpr⟩ := hsp.partner col (by rw [h0]; simp) r cell hcell ln hln
          exact ⟨t, cell', ht, (hiff t cell').mpr (Or.inl hc'), hpo, hpr⟩
        · obtain ⟨q, hq, hqt, hpo⟩ := hclosed (r, cell.sym) hm ln hln
          exact ⟨q.1, ⟨q.2, s.cur⟩, hqt, (hiff q.1 ⟨q.2, s.cur⟩).mpr (Or.inr ⟨hq, rfl⟩), hpo, hp.symm⟩
      · exact hsp.partner c (by rw [h0]; simp [hc])
    · intro col' rest' he r' hfr r cell hcell ln hln t ht hb
      rw [h1] at he
      injection he with he _; subst he
      obtain ⟨hf0, hnw⟩ := hw.iu r' hfr
      rw [hiff] at hcell
      rcases hcell with hcell | ⟨hm, _⟩
      · exact hsp.clear col rest h0 r' hf0 r cell hcell ln hln t ht hb
      · obtain ⟨hr1, ht1⟩ := hends r cell.sym hm ln hln t ht
        obtain ⟨b1, b2⟩ := between_range hr1 ht1 hb
        rw [hused r' b1 b2] at hfr; cases hfr

/-- **T4** — the span invariant along a trace. -/
theorem trace_span {s s' : St} {L : List Stg} (hinv : Inv s) (hsp : Span s) (h : Trace s s' L) : Span s' := by
  induction h with
  | nil _ => exact hsp
  | cons hs _ ih => exact ih (step_inv hinv hs) (span_step hinv hsp hs)

end Q1t.Proofs.Latex

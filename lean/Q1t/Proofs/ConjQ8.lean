import Q1t.Proofs.ConjPrim
import Q1t.Proofs.ConjTerm
import Q1t.Proofs.UnitariesQ8
/-!
# C06, part 5: the kernel-checked facts about the primitives, as the hypothesis `PrimsExact` of the
structural induction at `α = Q8` (exact field ℚ(ζ₈) ⊂ ℂ; parameterless terms, which is all a claiming
term can contain).
-/
namespace Q1t.Proofs.ConjQ8
open Q1t Q1t.Gate Q1t.LMat Q1t.Spec Q1t.Spec.Clifford Q1t.Proofs.ConjBridge Q1t.Proofs.ConjTerm
open Q1t.Proofs.ConjPrim
open Q1t.Conj hiding Pauli

theorem constPrims_sub : ∀ g ∈ constPrims, g ∈ constGates := by
  intro g hg
  simp only [constPrims, List.mem_cons, List.mem_nil_iff, or_false] at hg
  rcases hg with rfl | rfl | rfl | rfl | rfl | rfl | rfl | rfl | rfl | rfl | rfl | rfl | rfl | rfl | rfl <;>
    simp [constGates]

/-- the model's own matrix of a primitive is the documented one (C05, kernel-checked) -/
theorem prim_matrix_spec (g : GateTerm Empty) (hg : IsPrim g) : (matrix g : LMat Q8) = specMatrix g :=
  (const_ok g (constPrims_sub g (mem_constPrims g hg))).1

theorem prims_exact_Q8 : PrimsExact Q8 Empty Gen.conjTable Gen.conjNoArityCheck := by
  intro g hg hs
  obtain ⟨hU, hall⟩ := prim_exact g hg hs
  rw [← prim_matrix_spec g hg]
  refine ⟨⟨hU.1, hU.2.1⟩, ?_⟩
  intro ops hl
  obtain ⟨flip, ops', hc, hl', hi⟩ := hall ops hl
  exact ⟨flip, ops', hc, hl', (isConj_iff_intertwines hU hl hl' flip).1 hi⟩

end Q1t.Proofs.ConjQ8

import Q1t.Proofs.CQasmEquivPhase
import Q1t.Proofs.LMatBridge
set_option linter.unusedSimpArgs false
set_option linter.unusedSectionVars false
set_option linter.unusedVariables false
/-!
C12 (`cq_equiv_partial`), part 8: `Kron` (bundles), `Composite` and unconditioned `Loop` at the value level.
`gateLinesN g bits`: the placed lines of a gate term, following the recursion of the exporter (a bundle is its parts
one after the other; a composite is its sub-gates on the relabelled qubits; a loop is its body `iters` times, which is
what the sub-circuit `.label(iters)` means).  `GateAct`: the lines act as `c ·` the embedded documented unitary, `c` of
modulus one.  Proof pattern: the OpenQASM sibling's `gateSem_kron / opsSem_cons / gateSem_composite / gateSem_loop`.
-/
namespace Q1t.Proofs.CQasm
open Q1t Q1t.Spec Q1t.Proofs.Route Q1t.CQ Q1t.Proofs.Unitaries

variable {α P : Type} [CommRing α] [Amp α P]

def applyAll (n : Nat) (L : List (List Nat × LMat α)) (ψ : List α) : List α :=
  L.foldl (fun φ a => LMat.mulVec (embed n a.1 a.2) φ) ψ

theorem applyAll_append (n : Nat) (a b : List (List Nat × LMat α)) (ψ : List α) :
    applyAll n (a ++ b) ψ = applyAll n b (applyAll n a ψ) := by simp [applyAll, List.foldl_append]

theorem applyAll_vsmul (n : Nat) : ∀ (L : List (List Nat × LMat α)) (c : α) (ψ : List α),
    applyAll n L (vsmul c ψ) = vsmul c (applyAll n L ψ)
  | [], _, _ => rfl
  | a :: rest, c, ψ => by
    simp only [applyAll, List.foldl_cons]
    rw [mulVec_vsmul _ _ (embed_wf n a.1 a.2)]
    exact applyAll_vsmul n rest c _

theorem dSeq_gateLines' (n : Nat) (nz : List α → Bool) (L : List (List Nat × LMat α)) (ψ : List α) (w : Nat) :
    dSeq n nz (gateLines L) [(ψ, w)] = [(applyAll n L ψ, w)] := dSeq_gateLines n nz L ψ w

/-- the placed lines act as `c ·` the embedded documented unitary -/
def GateAct (P : Type) [Amp α P] (n : Nat) (L : List (List Nat × LMat α)) (term : GateTerm P) (bits : List Nat) : Prop :=
  WFMat (2 ^ bits.length) (specMatrix term : LMat α) ∧ ∃ c : α, c * Amp.conj P c = 1 ∧
    ∀ ψ : List α, ψ.length = 2 ^ n → applyAll n L ψ = vsmul c (LMat.mulVec (embed n bits (specMatrix term)) ψ)

theorem embedMul_length (n : Nat) (bits : List Nat) (M : LMat α) (ψ : List α) :
    (LMat.mulVec (embed n bits M) ψ).length = 2 ^ n := by
  rw [mulVec_length]; exact (embed_wf n bits M).1

/-- a library leaf: product on `k` qubits, lifted -/
theorem gateAct_leaf (n : Nat) (bits : List Nat) (hv : validBits n bits = true) (apps : List (List Nat × LMat α))
    (hl : ∀ a ∈ apps, validBits bits.length a.1 = true) (term : GateTerm P) (g : α) (hg : g * Amp.conj P g = 1)
    (hwf : WFMat (2 ^ bits.length) (specMatrix term : LMat α)) (hprod : prodK bits.length apps = smul g (specMatrix term)) :
    GateAct P n (placeApps bits apps) term bits := by
  refine ⟨hwf, g, hg, fun ψ hψ => ?_⟩
  have hU := prod_lift n bits hv apps hl
  rw [hprod, embed_smul n bits g _ hwf] at hU
  unfold prodK at hU
  unfold applyAll
  have := foldl_mulVec_eq n (placeApps bits apps) (LMat.identity (2 ^ n)) ψ (identity_wf _) hψ
  rw [mulVec_identity (2 ^ n) ψ hψ] at this
  rw [this, hU, mulVec_smul (2 ^ n) g _ (embed_wf n bits _)]
  rfl

theorem smul_one_mat (M : LMat α) : smul (1 : α) M = M := by
  simp [smul]

/-- `Kron(g0, g1)`: the lines of `g0`, then those of `g1` -/
theorem gateAct_kron (h : LawfulAmp α P) (n : Nat) (L0 L1 : List (List Nat × LMat α)) (t0 t1 : GateTerm P)
    (b0 b1 : List Nat) (hv : validBits n (b0 ++ b1) = true) (h0 : GateAct P n L0 t0 b0) (h1 : GateAct P n L1 t1 b1) :
    GateAct P n (L0 ++ L1) (.Kron t0 t1) (b0 ++ b1) := by
  obtain ⟨w0, c0, hc0, hr0⟩ := h0
  obtain ⟨w1, c1, hc1, hr1⟩ := h1
  obtain ⟨hv0, hv1, hd⟩ := validBits_of_append n b0 b1 hv
  have hp0 : 0 < 2 ^ b0.length := Nat.pow_pos (by decide)
  have hp1 : 0 < 2 ^ b1.length := Nat.pow_pos (by decide)
  have hk : (specMatrix (.Kron t0 t1) : LMat α) = LMat.kron (specMatrix t0) (specMatrix t1) := by
    simp only [specMatrix]
    exact (LMat.kron_eq_kronecker (A := specMatrix t0) (B := specMatrix t1) ⟨w0.1, w0.2⟩ ⟨w1.1, w1.2⟩ hp0 hp1 hp1).symm
  refine ⟨?_, c0 * c1, unit_mul h c0 c1 hc0 hc1, fun ψ hψ => ?_⟩
  · rw [hk, List.length_append, Nat.pow_add]
    have := LMat.wf_kron (A := specMatrix t0) (B := (specMatrix t1 : LMat α)) ⟨w0.1, w0.2⟩ ⟨w1.1, w1.2⟩
    exact ⟨this.1, this.2⟩
  · rw [applyAll_append, hr0 ψ hψ, applyAll_vsmul, hr1 _ (embedMul_length n b0 _ ψ), vsmul_vsmul]
    congr 1
    rw [hk, mulVec_embed_kron n ψ hψ b0 b1 hv _ _ w0 w1, mulVec_embed_commute n ψ hψ b0 b1 hv0 hv1 hd]

/-- a list of sub-gates of a composite, from an accumulated matrix -/
def OpsAct (P : Type) [Amp α P] (n : Nat) (L : List (List Nat × LMat α)) (opsT : OpList P) (bits : List Nat) : Prop :=
  ∃ c : α, c * Amp.conj P c = 1 ∧
    ∀ (acc : LMat α) (ψ : List α), WFMat (2 ^ bits.length) acc → ψ.length = 2 ^ n →
      applyAll n L (LMat.mulVec (embed n bits acc) ψ) =
        vsmul c (LMat.mulVec (embed n bits (specOps opsT bits.length acc)) ψ)

theorem opsAct_nil (h : LawfulAmp α P) (n : Nat) (bits : List Nat) : OpsAct P n ([] : List (List Nat × LMat α)) .nil bits :=
  ⟨1, by rw [h.conj_one]; ring, fun acc ψ _ _ => by simp [applyAll, specOps, vsmul_one]⟩

theorem opsAct_cons (h : LawfulAmp α P) (n : Nat) (bits sub : List Nat) (hv : validBits n bits = true)
    (hsub : validBits bits.length sub = true) (Lg Lr : List (List Nat × LMat α)) (tg : GateTerm P) (restT : OpList P)
    (hg : GateAct P n Lg tg (relabel bits sub)) (hr : OpsAct P n Lr restT bits) :
    OpsAct P n (Lg ++ Lr) (.cons tg sub restT) bits := by
  obtain ⟨wg, cg, hcg, hrg⟩ := hg
  obtain ⟨cr, hcr, hrr⟩ := hr
  refine ⟨cg * cr, unit_mul h cg cr hcg hcr, ?_⟩
  intro acc ψ hacc hψ
  have hφ : (LMat.mulVec (embed n bits acc) ψ).length = 2 ^ n := mulVec_embed_length n ψ hψ bits acc
  have hE : WFMat (2 ^ bits.length) (embed bits.length sub (specMatrix tg : LMat α)) := embed_wf _ _ _
  rw [applyAll_append, hrg _ hφ, applyAll_vsmul]
  have e : LMat.mulVec (embed n (relabel bits sub) (specMatrix tg)) (LMat.mulVec (embed n bits acc) ψ) =
      LMat.mulVec (embed n bits (LMat.mul (embed bits.length sub (specMatrix tg)) acc)) ψ := by
    rw [← embed_compose n bits hv sub hsub, ← mulVec_embed_mul n ψ hψ bits hv _ acc hE hacc]
  rw [e, hrr _ ψ (mul_wf _ _ _ hE hacc) hψ]
  simp only [vsmul_vsmul, specOps]

theorem specOps_wf (k : Nat) : ∀ (ops : OpList P) (acc : LMat α), WFMat (2 ^ k) acc → WFMat (2 ^ k) (specOps ops k acc)
  | .nil, acc, h => h
  | .cons g sub rest, acc, h => specOps_wf k rest _ (mul_wf _ _ _ (embed_wf _ _ _) h)

theorem gateAct_composite (n : Nat) (bits : List Nat) (hv : validBits n bits = true) (nm : String)
    (L : List (List Nat × LMat α)) (opsT : OpList P) (ho : OpsAct P n L opsT bits) :
    GateAct P n L (.Composite nm bits.length opsT) bits := by
  obtain ⟨c, hc, hr⟩ := ho
  refine ⟨?_, c, hc, fun ψ hψ => ?_⟩
  · simp only [specMatrix]; exact specOps_wf _ opsT _ (identity_wf _)
  · have := hr (LMat.identity (2 ^ bits.length)) ψ (identity_wf _) hψ
    rw [mulVec_embed_one n ψ hψ bits hv] at this
    rw [this]; rfl

def repeatLines (L : List (List Nat × LMat α)) : Nat → List (List Nat × LMat α)
  | 0 => []
  | j + 1 => L ++ repeatLines L j

theorem pow_comm_vec (n : Nat) (bits : List Nat) (hv : validBits n bits = true) (B : LMat α)
    (hB : WFMat (2 ^ bits.length) B) (j : Nat) (ψ : List α) (hψ : ψ.length = 2 ^ n) :
    LMat.mulVec (embed n bits (mpow B j)) (LMat.mulVec (embed n bits B) ψ) =
      LMat.mulVec (embed n bits B) (LMat.mulVec (embed n bits (mpow B j)) ψ) := by
  induction j generalizing ψ with
  | zero =>
    show LMat.mulVec (embed n bits (LMat.identity B.length)) _ = LMat.mulVec _ (LMat.mulVec (embed n bits (LMat.identity B.length)) ψ)
    rw [hB.1, mulVec_embed_one n _ (mulVec_embed_length n ψ hψ bits B) bits hv, mulVec_embed_one n ψ hψ bits hv]
  | succ j ih =>
    show LMat.mulVec (embed n bits (LMat.mul B (mpow B j))) _ =
      LMat.mulVec _ (LMat.mulVec (embed n bits (LMat.mul B (mpow B j))) ψ)
    rw [mulVec_embed_mul n _ (mulVec_embed_length n ψ hψ bits B) bits hv B _ hB (mpow_wf _ B hB j),
      mulVec_embed_mul n ψ hψ bits hv B _ hB (mpow_wf _ B hB j), ih ψ hψ]

theorem unit_pow (h : LawfulAmp α P) (c : α) (hc : c * Amp.conj P c = 1) (j : Nat) :
    c ^ j * Amp.conj P (c ^ j) = 1 := by
  induction j with
  | zero => simp [h.conj_one]
  | succ j ih => rw [pow_succ]; exact unit_mul h _ _ ih hc

/-- a loop: the body `iters` times -/
theorem gateAct_loop (h : LawfulAmp α P) (n : Nat) (bits : List Nat) (hv : validBits n bits = true)
    (l nm : String) (iters : Nat) (L : List (List Nat × LMat α)) (opsT : OpList P) (ho : OpsAct P n L opsT bits) :
    GateAct P n (repeatLines L iters) (.Loop l iters nm bits.length opsT) bits := by
  obtain ⟨c, hc, hr⟩ := ho
  have hB : WFMat (2 ^ bits.length) (specOps opsT bits.length (LMat.identity (2 ^ bits.length)) : LMat α) :=
    specOps_wf _ opsT _ (identity_wf _)
  have hbody : ∀ ψ : List α, ψ.length = 2 ^ n → applyAll n L ψ =
      vsmul c (LMat.mulVec (embed n bits (specOps opsT bits.length (LMat.identity (2 ^ bits.length)))) ψ) := by
    intro ψ hψ
    have := hr (LMat.identity (2 ^ bits.length)) ψ (identity_wf _) hψ
    rw [mulVec_embed_one n ψ hψ bits hv] at this
    exact this
  refine ⟨?_, c ^ iters, unit_pow h c hc iters, ?_⟩
  · simp only [specMatrix]; exact mpow_wf _ _ hB iters
  · intro ψ hψ
    show _ = vsmul (c ^ iters) (LMat.mulVec (embed n bits (mpow _ iters)) ψ)
    generalize (specOps opsT bits.length (LMat.identity (2 ^ bits.length)) : LMat α) = B at hB hbody ⊢
    clear hr
    induction iters generalizing ψ with
    | zero =>
      show ψ = vsmul (c ^ 0) (LMat.mulVec (embed n bits (LMat.identity B.length)) ψ)
      rw [hB.1, mulVec_embed_one n ψ hψ bits hv, pow_zero, vsmul_one]
    | succ j ih =>
      show applyAll n (L ++ repeatLines L j) ψ = _
      rw [applyAll_append, hbody ψ hψ, applyAll_vsmul, ih _ (mulVec_embed_length n ψ hψ bits B), vsmul_vsmul,
        pow_comm_vec n bits hv B hB j ψ hψ]
      show _ = vsmul (c ^ (j + 1)) (LMat.mulVec (embed n bits (LMat.mul B (mpow B j))) ψ)
      rw [mulVec_embed_mul n ψ hψ bits hv B _ hB (mpow_wf _ B hB j), pow_succ, mul_comm]

end Q1t.Proofs.CQasm

import Q1t.Proofs.CQasmEquivPhase
import Q1t.Proofs.LMatBridge
set_option linter.unusedSimpArgs false
set_option linter.unusedSectionVars false
set_option linter.unusedVariables false
/-!
C12 (`cq_equiv_partial`), part 8: `Kron` (bundles), `Composite` and unconditioned `Loop` at the value level.
`gateLinesN g bits`: the placed lines of a gate term, following the recursion of the exporter (a bundle is its parts
one after the other; a composite is its sub-gates on the relabelled qubits; a loop is its body `iters` times, which is
what the sub-circuit `.label(iters)` means).  `GateAct`: the lines act as `c ·` the embedded documented unitary, `c` of
modulus one.  Proof pattern: the OpenQASM sibling's `gateSem_kron / opsSem_cons / gateSem_composite / gateSem_loop`.
-/
namespace Q1t.Proofs.CQasm
open Q1t Q1t.Spec Q1t.Proofs.Route Q1t.CQ Q1t.Proofs.Unitaries

variable {α P : Type} [CommRing α] [Amp α P]

def applyAll (n : Nat) (L : List (List Nat × LMat α)) (ψ : List α) : List α :=
  L.foldl (fun φ a => LMat.mulVec (embed n a.1 a.2) φ) ψ

theorem applyAll_append (n : Nat) (a b : List (List Nat × LMat α)) (ψ : List α) :
    applyAll n (a ++ b) ψ = applyAll n b (applyAll n a ψ) := by simp [applyAll, List.foldl_append]

theorem applyAll_vsmul (n : Nat) : ∀ (L : List (List Nat × LMat α)) (c : α) (ψ : List α),
    applyAll n L (vsmul c ψ) = vsmul c (applyAll n L ψ)
  | [], _, _ => rfl
  | a :: rest, c, ψ => by
    simp only [applyAll, List.foldl_cons]
    rw [mulVec_vsmul _ _ (embed_wf n a.1 a.2)]
    exact applyAll_vsmul n rest c _

theorem dSeq_gateLines' (n : Nat) (nz : List α → Bool) (L : List (List Nat × LMat α)) (ψ : List α) (w : Nat) :
    dSeq n nz (gateLines L) [(ψ, w)] = [(applyAll n L ψ, w)] := dSeq_gateLines n nz L ψ w

/-- the placed lines act as `c ·` the embedded documented unitary -/
def GateAct (P : Type) [Amp α P] (n : Nat) (L : List (List Nat × LMat α)) (term : GateTerm P) (bits : List Nat) : Prop :=
  WFMat (2 ^ bits.length) (specMatrix term : LMat α) ∧ ∃ c : α, c * Amp.conj P c = 1 ∧
    ∀ ψ : List α, ψ.length = 2 ^ n → applyAll n L ψ = vsmul c (LMat.mulVec (embed n bits (specMatrix term)) ψ)

theorem embedMul_length (n : Nat) (bits : List Nat) (M : LMat α) (ψ : List α) :
    (LMat.mulVec (embed n bits M) ψ).length = 2 ^ n := by
  rw [mulVec_length]; exact (embed_wf n bits M).1

/-- a library leaf: product on `k` qubits, lifted -/
theorem gateAct_leaf (n : Nat) (bits : List Nat) (hv : validBits n bits = true) (apps : List (List Nat × LMat α))
    (hl : ∀ a ∈ apps, validBits bits.length a.1 = true) (term : GateTerm P) (g : α) (hg : g * Amp.conj P g = 1)
    (hwf : WFMat (2 ^ bits.length) (specMatrix term : LMat α)) (hprod : prodK bits.length apps = smul g (specMatrix term)) :
    GateAct P n (placeApps bits apps) term bits := by
  refine ⟨hwf, g, hg, fun ψ hψ => ?_⟩
  have hU := prod_lift n bits hv apps hl
  rw [hprod, embed_smul n bits g _ hwf] at hU
  unfold prodK at hU
  unfold applyAll
  have := foldl_mulVec_eq n (placeApps bits apps) (LMat.identity (2 ^ n)) ψ (identity_wf _) hψ
  rw [mulVec_identity (2 ^ n) ψ hψ] at this
  rw [this, hU, mulVec_smul (2 ^ n) g _ (embed_wf n bits _)]
  rfl

theorem smul_one_mat (M : LMat α) : smul (1 : α) M = M := by
  simp [smul]

/-- `Kron(g0, g1)`: the lines of `g0`, then those of `g1` -/
theorem gateAct_kron (h : LawfulAmp α P) (n : Nat) (L0 L1 : List (List Nat × LMat α)) (t0 t1 : GateTerm P)
    (b0 b1 : List Nat) (hv : validBits n (b0 ++ b1) = true) (h0 : GateAct P n L0 t0 b0) (h1 : GateAct P n L1 t1 b1) :
    GateAct P n (L0 ++ L1) (.Kron t0 t1) (b0 ++ b1) := by
  obtain ⟨w0, c0, hc0, hr0⟩ := h0
  obtain ⟨w1, c1, hc1, hr1⟩ := h1
  obtain ⟨hv0, hv1, hd⟩ := validBits_of_append n b0 b1 hv
  have hp0 : 0 < 2 ^ b0.length := Nat.pow_pos (by decide)
  have hp1 : 0 < 2 ^ b1.length := Nat.pow_pos (by decide)
  have hk : (specMatrix (.Kron t0 t1) : LMat α) = LMat.kron (specMatrix t0) (specMatrix t1) := by
    simp only [specMatrix]
    exact (LMat.kron_eq_kronecker (A := specMatrix t0) (B := specMatrix t1) ⟨w0.1, w0.2⟩ ⟨w1.1, w1.2⟩ hp0 hp1 hp1).symm
  refine ⟨?_, c0 * c1, unit_mul h c0 c1 hc0 hc1, fun ψ hψ => ?_⟩
  · rw [hk, List.length_append, Nat.pow_add]
    have := LMat.wf_kron (A := specMatrix t0) (B := (specMatrix t1 : LMat α)) ⟨w0.1, w0.2⟩ ⟨w1.1, w1.2⟩
    exact ⟨this.1, this.2⟩
  · rw [applyAll_append, hr0 ψ hψ, applyAll_vsmul, hr1 _ (embedMul_length n b0 _ ψ), vsmul_vsmul]
    congr 1
    rw [hk, mulVec_embed_kron n ψ hψ b0 b1 hv _ _ w0 w1, mulVec_embed_commute n ψ hψ b0 b1 hv0 hv1 hd]

/-- a list of sub-gates of a composite, from an accumulated matrix -/
def OpsAct (P : Type) [Amp α P] (n : Nat) (L : List (List Nat × LMat α)) (opsT : OpList P) (bits : List Nat) : Prop :=
  ∃ c : α, c * Amp.conj P c = 1 ∧
    ∀ (acc : LMat α) (ψ : List α), WFMat (2 ^ bits.length) acc → ψ.length = 2 ^ n →
      applyAll n L (LMat.mulVec (embed n bits acc) ψ) =
        vsmul c (LMat.mulVec (embed n bits (specOps opsT bits.length acc)) ψ)

theorem opsAct_nil (h : LawfulAmp α P) (n : Nat) (bits : List Nat) : OpsAct P n ([] : List (List Nat × LMat α)) .nil bits :=
  ⟨1, by rw [h.conj_one]; ring, fun acc ψ _ _ => by simp [applyAll, specOps, vsmul_one]⟩

theorem opsAct_cons (h : LawfulAmp α P) (n : Nat) (bits sub : List Nat) (hv : validBits n bits = true)
    (hsub : validBits bits.length sub = true) (Lg Lr : List (List Nat × LMat α)) (tg : GateTerm P) (restT : OpList P)
    (hg : GateAct P n Lg tg (relabel bits sub)) (hr : OpsAct P n Lr restT bits) :
    OpsAct P n (Lg ++ Lr) (.cons tg sub restT) bits := by
  obtain ⟨wg, cg, hcg, hrg⟩ := hg
  obtain ⟨cr, hcr, hrr⟩ := hr
  refine ⟨cg * cr, unit_mul h cg cr hcg hcr, ?_⟩
  intro acc ψ hacc hψ
  have hφ : (LMat.mulVec (embed n bits acc) ψ).length = 2 ^ n := mulVec_embed_length n ψ hψ bits acc
  have hE : WFMat (2 ^ bits.length) (embed bits.length sub (specMatrix tg : LMat α)) := embed_wf _ _ _
  rw [applyAll_append, hrg _ hφ, applyAll_vsmul]
  have e : LMat.mulVec (embed n (relabel bits sub) (specMatrix tg)) (LMat.mulVec (embed n bits acc) ψ) =
      LMat.mulVec (embed n bits (LMat.mul (embed bits.length sub (specMatrix tg)) acc)) ψ := by
    rw [← embed_compose n bits hv sub hsub, ← mulVec_embed_mul n ψ hψ bits hv _ acc hE hacc]
  rw [e, hrr _ ψ (mul_wf _ _ _ hE hacc) hψ]
  simp only [vsmul_vsmul, specOps]

theorem specOps_wf (k : Nat) : ∀ (ops : OpList P) (acc : LMat α), WFMat (2 ^ k) acc → WFMat (2 ^ k) (specOps ops k acc)
  | .nil, acc, h => h
  | .cons g sub rest, acc, h => specOps_wf k rest _ (mul_wf _ _ _ (embed_wf _ _ _) h)

theorem gateAct_composite (n : Nat) (bits : List Nat) (hv : validBits n bits = true) (nm : String)
    (L : List (List Nat × LMat α)) (opsT : OpList P) (ho : OpsAct P n L opsT bits) :
    GateAct P n L (.Composite nm bits.length opsT) bits := by
  obtain ⟨c, hc, hr⟩ := ho
  refine ⟨?_, c, hc, fun ψ hψ => ?_⟩
  · simp only [specMatrix]; exact specOps_wf _ opsT _ (identity_wf _)
  · have := hr (LMat.identity (2 ^ bits.length)) ψ (identity_wf _) hψ
    rw [mulVec_embed_one n ψ hψ bits hv] at this
    rw [this]; rfl

def repeatLines (L : List (List Nat × LMat α)) : Nat → List (List Nat × LMat α)
  | 0 => []
  | j + 1 => L ++ repeatLines L j

theorem pow_comm_vec (n : Nat) (bits : List Nat) (hv : validBits n bits = true) (B : LMat α)
    (hB : WFMat (2 ^ bits.length) B) (j : Nat) (ψ : List α) (hψ : ψ.length = 2 ^ n) :
    LMat.mulVec (embed n bits (mpow B j)) (LMat.mulVec (embed n bits B) ψ) =
      LMat.mulVec (embed n bits B) (LMat.mulVec (embed n bits (mpow B j)) ψ) := by
  induction j generalizing ψ with
  | zero =>
    show LMat.mulVec (embed n bits (LMat.identity B.length)) _ = LMat.mulVec _ (LMat.mulVec (embed n bits (LMat.identity B.length)) ψ)
    rw [hB.1, mulVec_embed_one n _ (mulVec_embed_length n ψ hψ bits B) bits hv, mulVec_embed_one n ψ hψ bits hv]
  | succ j ih =>
    show LMat.mulVec (embed n bits (LMat.mul B (mpow B j))) _ =
      LMat.mulVec _ (LMat.mulVec (embed n bits (LMat.mul B (mpow B j))) ψ)
    rw [mulVec_embed_mul n _ (mulVec_embed_length n ψ hψ bits B) bits hv B _ hB (mpow_wf _ B hB j),
      mulVec_embed_mul n ψ hψ bits hv B _ hB (mpow_wf _ B hB j), ih ψ hψ]

theorem unit_pow (h : LawfulAmp α P) (c : α) (hc : c * Amp.conj P c = 1) (j : Nat) :
    c ^ j * Amp.conj P (c ^ j) = 1 := by
  induction j with
  | zero => simp [h.conj_one]
  | succ j ih => rw [pow_succ]; exact unit_mul h _ _ ih hc

/-- a loop: the body `iters` times -/
theorem gateAct_loop (h : LawfulAmp α P) (n : Nat) (bits : List Nat) (hv : validBits n bits = true)
    (l nm : String) (iters : Nat) (L : List (List Nat × LMat α)) (opsT : OpList P) (ho : OpsAct P n L opsT bits) :
    GateAct P n (repeatLines L iters) (.Loop l iters nm bits.length opsT) bits := by
  obtain ⟨c, hc, hr⟩ := ho
  have hB : WFMat (2 ^ bits.length) (specOps opsT bits.length (LMat.identity (2 ^ bits.length)) : LMat α) :=
    specOps_wf _ opsT _ (identity_wf _)
  have hbody : ∀ ψ : List α, ψ.length = 2 ^ n → applyAll n L ψ =
      vsmul c (LMat.mulVec (embed n bits (specOps opsT bits.length (LMat.identity (2 ^ bits.length)))) ψ) := by
    intro ψ hψ
    have := hr (LMat.identity (2 ^ bits.length)) ψ (identity_wf _) hψ
    rw [mulVec_embed_one n ψ hψ bits hv] at this
    exact this
  refine ⟨?_, c ^ iters, unit_pow h c hc iters, ?_⟩
  · simp only [specMatrix]; exact mpow_wf _ _ hB iters
  · intro ψ hψ
    show _ = vsmul (c ^ iters) (LMat.mulVec (embed n bits (mpow _ iters)) ψ)
    generalize (specOps opsT bits.length (LMat.identity (2 ^ bits.length)) : LMat α) = B at hB hbody ⊢
    clear hr
    induction iters generalizing ψ with
    | zero =>
      show ψ = vsmul (c ^ 0) (LMat.mulVec (embed n bits (LMat.identity B.length)) ψ)
      rw [hB.1, mulVec_embed_one n ψ hψ bits hv, pow_zero, vsmul_one]
    | succ j ih =>
      show applyAll n (L ++ repeatLines L j) ψ = _
      rw [applyAll_append, hbody ψ hψ, applyAll_vsmul, ih _ (mulVec_embed_length n ψ hψ bits B), vsmul_vsmul,
        pow_comm_vec n bits hv B hB j ψ hψ]
      show _ = vsmul (c ^ (j + 1)) (LMat.mulVec (embed n bits (LMat.mul B (mpow B j))) ψ)
      rw [mulVec_embed_mul n ψ hψ bits hv B _ hB (mpow_wf _ B hB j), pow_succ, mul_comm]

end Q1t.Proofs.CQasm

namespace Q1t.Proofs.CQasm
open Q1t Q1t.Spec Q1t.Proofs.Route Q1t.CQ Q1t.Proofs.Unitaries

variable {α P : Type} [CommRing α] [Amp α P]

/-! ### the placed lines of a gate term, and the class -/

mutual
def gateLinesN : XGate P → List Nat → Option (List (List Nat × LMat α))
  | .lib name ps, bits => (exactDenot (α := α) name (ps.map Param.value)).map (placeApps bits)
  | .ctl _, _ => none
  | .kron g0 g1, bits =>
      match gateLinesN g0 (bits.take (nrBits g0)), gateLinesN g1 (bits.drop (nrBits g0)) with
      | some l0, some l1 => some (l0 ++ l1)
      | _, _ => none
  | .comp _ _ ops, bits => opsLinesN ops bits
  | .loop _ iters _ _ ops, bits => (opsLinesN ops bits).map fun l => repeatLines l iters
def opsLinesN : XOps P → List Nat → Option (List (List Nat × LMat α))
  | .nil, _ => some []
  | .cons g sub rest, bits =>
      match gateLinesN g (relabel bits sub), opsLinesN rest bits with
      | some l, some r => some (l ++ r)
      | _, _ => none
end

def libOK (name : String) (ps : List (Param P)) : Bool :=
  (exactAll.contains name || phaseGates.contains name) && ps.all (fun p => !p.isRef) &&
    ps.length == (paramsOfName name).length

def oneLine (name : String) : Bool := (slinesOfName name).map List.length == some 1

def partOK : XGate P → Bool
  | .lib name ps => libOK name ps && oneLine name
  | _ => false

mutual
/-- gate terms whose export is semantically right: good library gates with direct parameters; a `Kron` of two
one-line library gates (a bundle); composites with valid sub-placements; loops that are not inside a loop -/
def termOK (inLoop : Bool) : XGate P → Bool
  | .lib name ps => libOK name ps
  | .ctl _ => false
  | .kron g0 g1 => partOK g0 && partOK g1
  | .comp _ n ops => opsOK inLoop n ops
  | .loop _ _ _ n ops => !inLoop && opsOK true n ops
def opsOK (inLoop : Bool) (n : Nat) : XOps P → Bool
  | .nil => true
  | .cons g sub rest => termOK inLoop g && sub.length == nrBits g && validBits n sub && opsOK inLoop n rest
end

theorem nrBits_lib (name : String) (ps : List (Param P)) : nrBits (.lib name ps : XGate P) = libBits name := rfl

theorem lib_act (h : LawfulAmp α P) (hh : LawfulHalf α P) (hn : LawfulNegHalf α P) (hq : LawfulQuarter α P) (n : Nat)
    (name : String) (ps : List (Param P)) (hok : libOK name ps = true) (bits : List Nat)
    (hl : bits.length = libBits name) (hv : validBits n bits = true) :
    ∃ L term, gateLinesN (α := α) (.lib name ps) bits = some L ∧ toTerm (.lib name ps : XGate P) = some term ∧
      GateAct P n L term bits := by
  simp only [libOK, Bool.and_eq_true, Bool.or_eq_true, List.contains_iff_mem, beq_iff_eq, List.all_eq_true] at hok
  obtain ⟨⟨hname, _⟩, hlen⟩ := hok
  have hlen' : (ps.map Param.value).length = (paramsOfName name).length := by simpa using hlen
  rcases hname with hname | hname
  · obtain ⟨apps, term, e1, e2, e3, e4⟩ := exact_gate_all (α := α) h hh hn name hname _ hlen'
    have hwf : WFMat (2 ^ bits.length) (specMatrix term : LMat α) := by
      -- the product of placed matrices on `k` qubits is well formed
      rw [← e4, hl]
      unfold prodK
      have : ∀ (as : List (List Nat × LMat α)) (acc : LMat α), WFMat (2 ^ libBits name) acc →
          WFMat (2 ^ libBits name) (as.foldl (fun m a => LMat.mul (embed (libBits name) a.1 a.2) m) acc) := by
        intro as
        induction as with
        | nil => intro acc h; exact h
        | cons a as ih => intro acc h; exact ih _ (mul_wf _ _ _ (embed_wf _ a.1 a.2) h)
      exact this apps _ (identity_wf _)
    refine ⟨placeApps bits apps, term, by simp [gateLinesN, e1], by simpa [toTerm] using e2, ?_⟩
    apply gateAct_leaf n bits hv apps _ term 1 (by rw [h.conj_one]; ring) hwf (by rw [hl, e4, smul_one_mat])
    intro a ha; rw [hl]
    simpa using List.all_eq_true.mp e3 a.1 (List.mem_map_of_mem ha)
  · obtain ⟨apps, term, g, e1, e2, e3, e4, e5, e6⟩ := phase_gate (α := α) h hh hn hq name hname _ hlen'
    refine ⟨placeApps bits apps, term, by simp [gateLinesN, e1], by simpa [toTerm] using e2, ?_⟩
    apply gateAct_leaf n bits hv apps _ term g e4 (by rw [hl]; exact e5) (by rw [hl]; exact e6)
    intro a ha; rw [hl]
    simpa using List.all_eq_true.mp e3 a.1 (List.mem_map_of_mem ha)

theorem part_act (h : LawfulAmp α P) (hh : LawfulHalf α P) (hn : LawfulNegHalf α P) (hq : LawfulQuarter α P) (n : Nat)
    (g : XGate P) (hok : partOK g = true) (bits : List Nat) (hl : bits.length = nrBits g) (hv : validBits n bits = true) :
    ∃ L term, gateLinesN (α := α) g bits = some L ∧ toTerm g = some term ∧ GateAct P n L term bits := by
  cases g with
  | lib name ps =>
    simp only [partOK, Bool.and_eq_true] at hok
    exact lib_act h hh hn hq n name ps hok.1 bits hl hv
  | ctl _ => simp [partOK] at hok
  | kron _ _ => simp [partOK] at hok
  | comp _ _ _ => simp [partOK] at hok
  | loop _ _ _ _ _ => simp [partOK] at hok

mutual
theorem term_act (h : LawfulAmp α P) (hh : LawfulHalf α P) (hn : LawfulNegHalf α P) (hq : LawfulQuarter α P) (n : Nat) :
    (g : XGate P) → (inLoop : Bool) → termOK inLoop g = true → (bits : List Nat) → bits.length = nrBits g →
    validBits n bits = true →
    ∃ L term, gateLinesN (α := α) g bits = some L ∧ toTerm g = some term ∧ GateAct P n L term bits
  | .lib name ps, _, hok, bits, hl, hv => lib_act h hh hn hq n name ps (by simpa [termOK] using hok) bits hl hv
  | .ctl _, _, hok, _, _, _ => by simp [termOK] at hok
  | .kron g0 g1, _, hok, bits, hl, hv => by
    simp only [termOK, Bool.and_eq_true] at hok
    simp only [nrBits] at hl
    have hsplit : bits.take (nrBits g0) ++ bits.drop (nrBits g0) = bits := List.take_append_drop _ _
    have hv' : validBits n (bits.take (nrBits g0) ++ bits.drop (nrBits g0)) = true := by rw [hsplit]; exact hv
    obtain ⟨hv0, hv1, _⟩ := validBits_of_append n _ _ hv'
    obtain ⟨L0, t0, e0, f0, a0⟩ := part_act h hh hn hq n g0 hok.1 _ (by simp; omega) hv0
    obtain ⟨L1, t1, e1, f1, a1⟩ := part_act h hh hn hq n g1 hok.2 _ (by simp; omega) hv1
    refine ⟨L0 ++ L1, .Kron t0 t1, by simp [gateLinesN, e0, e1], by simp [toTerm, f0, f1], ?_⟩
    have := gateAct_kron h n L0 L1 t0 t1 _ _ hv' a0 a1
    rwa [hsplit] at this
  | .comp name k ops, inLoop, hok, bits, hl, hv => by
    simp only [termOK] at hok
    simp only [nrBits] at hl
    subst hl
    obtain ⟨L, opsT, e, f, a⟩ := ops_act h hh hn hq n ops inLoop bits hok hv
    exact ⟨L, .Composite name bits.length opsT, by simpa [gateLinesN] using e, by simp [toTerm, f],
      gateAct_composite n bits hv name L opsT a⟩
  | .loop label iters name k ops, inLoop, hok, bits, hl, hv => by
    simp only [termOK, Bool.and_eq_true] at hok
    simp only [nrBits] at hl
    subst hl
    obtain ⟨L, opsT, e, f, a⟩ := ops_act h hh hn hq n ops true bits hok.2 hv
    exact ⟨repeatLines L iters, .Loop (String.ofList label) iters name bits.length opsT, by simp [gateLinesN, e],
      by simp [toTerm, f], gateAct_loop h n bits hv _ name iters L opsT a⟩
theorem ops_act (h : LawfulAmp α P) (hh : LawfulHalf α P) (hn : LawfulNegHalf α P) (hq : LawfulQuarter α P) (n : Nat) :
    (ops : XOps P) → (inLoop : Bool) → (bits : List Nat) → opsOK inLoop bits.length ops = true →
    validBits n bits = true →
    ∃ L opsT, opsLinesN (α := α) ops bits = some L ∧ toTermOps ops = some opsT ∧ OpsAct P n L opsT bits
  | .nil, _, bits, _, _ => ⟨[], .nil, rfl, rfl, opsAct_nil h n bits⟩
  | .cons g sub rest, inLoop, bits, hok, hv => by
    simp only [opsOK, Bool.and_eq_true, beq_iff_eq] at hok
    obtain ⟨⟨⟨hg, hlen⟩, hsub⟩, hrest⟩ := hok
    obtain ⟨Lg, tg, eg, fg, ag⟩ := term_act h hh hn hq n g inLoop hg (relabel bits sub)
      (by rw [length_relabel]; exact hlen) (validBits_relabel n bits sub hv hsub)
    obtain ⟨Lr, tr, er, fr, ar⟩ := ops_act h hh hn hq n rest inLoop bits hrest hv
    exact ⟨Lg ++ Lr, .cons tg sub tr, by simp [opsLinesN, eg, er], by simp [toTermOps, fg, fr],
      opsAct_cons h n bits sub hv hsub Lg Lr tg tr ag ar⟩
end

end Q1t.Proofs.CQasm

namespace Q1t.Proofs.CQasm
open Q1t Q1t.Spec Q1t.Proofs.Route Q1t.CQ Q1t.Proofs.Unitaries

variable {α P : Type} [CommRing α] [Amp α P]

theorem stepPh_of_gateAct (n : Nat) (nz : List α → Bool) (L : List (List Nat × LMat α)) (term : GateTerm P)
    (bits : List Nat) (ha : GateAct P n L term bits) (hkept : NzKept n nz term bits) :
    StepPh P n nz (gateLines L) (.gate term bits) := by
  intro br hbr
  obtain ⟨ψ, w⟩ := br
  obtain ⟨_, c, hc, hr⟩ := ha
  have hnz := hkept ψ hbr.len hbr.nonzero
  refine ⟨_, born_gate n nz term bits ψ w hnz, ?_⟩
  rw [dSeq_gateLines' n nz L ψ w, hr ψ hbr.len]
  exact List.Forall₂.cons ⟨gate_op_inv n nz _ (embed_wf n bits _).1 (ψ, w) hbr hnz, c, hc, rfl⟩ List.Forall₂.nil

/-- the per-operation class with arbitrary sound gate terms: bundles (`Kron`), composites, loops -/
inductive FaithfulOpT (n : Nat) (nz : List α → Bool) : XOp P → List (DStmt α) → Sim.COp P → Prop
  | base (op : XOp P) (D : List (DStmt α)) (cop : Sim.COp P) : FaithfulOpPh n nz op D cop → FaithfulOpT n nz op D cop
  | term (g : XGate P) (bits : List Nat) (L : List (List Nat × LMat α)) (term : GateTerm P) :
      termOK false g = true → bits.length = nrBits g → validBits n bits = true →
      gateLinesN (α := α) g bits = some L → toTerm g = some term → NzKept n nz term bits →
      FaithfulOpT n nz (.gate g bits) (gateLines L) (.gate term bits)

theorem stepRel_of_faithfulT (h : LawfulAmp α P) (hh : LawfulHalf α P) (hn : LawfulNegHalf α P) (hq : LawfulQuarter α P)
    (n : Nat) (hn64 : n ≤ 64) (nz : List α → Bool) (hs : NzScale P nz) (op : XOp P) (D : List (DStmt α))
    (cop : Sim.COp P) (hf : FaithfulOpT n nz op D cop) : StepRel (PhRel P n nz) n nz D cop := by
  cases hf with
  | base op D cop hf' => exact stepRel_of_faithfulPh h hh hn hq n hn64 nz hs op D cop hf'
  | term g bits L term h1 h2 h3 h4 h5 h6 =>
    apply stepRel_of_stepPh h n nz hs
    obtain ⟨L', term', e1, e2, e3⟩ := term_act (α := α) h hh hn hq n g false h1 bits h2 h3
    rw [h4] at e1; injection e1 with e1; subst e1
    rw [h5] at e2; injection e2 with e2; subst e2
    exact stepPh_of_gateAct n nz L term bits e3 h6

/-- every sound gate term on a valid placement is in the class -/
theorem faithful_term (h : LawfulAmp α P) (hh : LawfulHalf α P) (hn : LawfulNegHalf α P) (hq : LawfulQuarter α P)
    (n : Nat) (nz : List α → Bool) (g : XGate P) (hok : termOK false g = true) (bits : List Nat)
    (hl : bits.length = nrBits g) (hv : validBits n bits = true) (hkept : ∀ term : GateTerm P, NzKept n nz term bits) :
    ∃ D cop, FaithfulOpT n nz (.gate g bits) D cop := by
  obtain ⟨L, term, e1, e2, _⟩ := term_act (α := α) h hh hn hq n g false hok bits hl hv
  exact ⟨_, _, FaithfulOpT.term g bits L term hok hl hv e1 e2 (hkept term)⟩

/-- **cq_equiv_partial with bundles, composites and loops (whole circuits, value level, up to a phase per branch)** -/
theorem circuit_equiv_term (h : LawfulAmp α P) (hh : LawfulHalf α P) (hn : LawfulNegHalf α P) (hq : LawfulQuarter α P)
    (n : Nat) (hn64 : n ≤ 64) (nz : List α → Bool) (hs : NzScale P nz)
    (hnz0 : nz ((List.range (2 ^ n)).map fun i => if i = 0 then (1 : α) else 0) = true)
    (steps : List (XOp P × List (DStmt α) × Sim.COp P)) (hst : ∀ s ∈ steps, FaithfulOpT n nz s.1 s.2.1 s.2.2) :
    ∃ r2, Spec.branches n nz (steps.map (·.2.2)) (CQ1.initial n) = some r2 ∧
      List.Forall₂ (PhRel P n nz) (dSeq n nz (steps.flatMap (·.2.1)) (CQ1.initial n)) r2 := by
  have hsteps : ∀ s ∈ steps.map (fun s => (s.2.1, s.2.2)), StepRel (PhRel P n nz) n nz s.1 s.2 := by
    intro s hsm
    obtain ⟨x, hx, rfl⟩ := List.mem_map.mp hsm
    exact stepRel_of_faithfulT h hh hn hq n hn64 nz hs x.1 x.2.1 x.2.2 (hst x hx)
  have hinit : List.Forall₂ (PhRel P n nz) (CQ1.initial n : List (CQ1.Branch α)) (CQ1.initial n) := by
    have hi := init_inv n nz hnz0
    simp only [CQ1.initial] at hi ⊢
    exact List.Forall₂.cons ⟨hi _ (by simp), 1, by rw [h.conj_one]; ring, by simp [scaleBr, vsmul_one]⟩ List.Forall₂.nil
  obtain ⟨r2, hr2, hrel⟩ := fold_equiv (PhRel P n nz) n nz _ hsteps _ _ hinit
  have e1 : (steps.map (fun s => (s.2.1, s.2.2))).map (·.2) = steps.map (·.2.2) := by simp
  have e2 : (steps.map (fun s => (s.2.1, s.2.2))).flatMap (·.1) = steps.flatMap (·.2.1) := by
    simp [List.flatMap_map]
  rw [e1] at hr2
  rw [e2] at hrel
  exact ⟨r2, hr2, hrel⟩

end Q1t.Proofs.CQasm

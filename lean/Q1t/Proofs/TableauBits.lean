import Q1t.Model.TableauBits
/-!
C03, proofs part 9 (all `n`): frame laws of the `u64` packing (`bit_indices`, `get_bits`, `set_bits`,
`get_sign`, `set_sign`): reading a cell after writing a cell gives the written value at the same cell and
the old value at every other cell; the same for signs.  Words are natural numbers (the laws do not depend
on the 64-bit bound), two cells are "the same" iff their bit offsets `2(i·n+j)` coincide — for in-range
columns `j, j' < n` that is `(i, j) = (i', j')`.
-/
namespace Q1t.Proofs.TableauBits
open Q1t.Tableau Q1t.TableauBits

theorem three_testBit (m : Nat) : (3 : Nat).testBit m = decide (m < 2) :=
  Nat.testBit_two_pow_sub_one 2 m

theorem and3_testBit_ge (op m : Nat) (h : 2 ≤ m) : (op &&& 3).testBit m = false := by
  rw [Nat.testBit_and, three_testBit]; simp; omega

/-- the word after `set_bits` at bit offset `b`, bit by bit -/
theorem setWord_testBit (w op b k : Nat) :
    (clearBits w (0x03 <<< b) ||| ((op &&& 0x03) <<< b)).testBit k =
      if b ≤ k ∧ k < b + 2 then (op &&& 3).testBit (k - b) else w.testBit k := by
  simp only [clearBits, Nat.testBit_or, Nat.testBit_xor, Nat.testBit_and, Nat.testBit_shiftLeft, three_testBit]
  by_cases h1 : b ≤ k
  · by_cases h2 : k < b + 2
    · have : k - b < 2 := by omega
      simp [h1, h2, this]
    · have h3 : ¬ (k - b < 2) := by omega
      have := and3_testBit_ge op (k - b) (by omega)
      rw [Nat.testBit_and, three_testBit] at this
      simp [h1, h2, h3]
  · simp [h1]

/-- reading two bits at offset `b'` from a word written at offset `b` (both even) -/
theorem read_setWord (w op b b' : Nat) (hb : b % 2 = 0) (hb' : b' % 2 = 0) :
    ((clearBits w (0x03 <<< b) ||| ((op &&& 0x03) <<< b)) >>> b') &&& 0x03 =
      if b' = b then op &&& 0x03 else (w >>> b') &&& 0x03 := by
  apply Nat.eq_of_testBit_eq
  intro m
  rw [Nat.testBit_and, Nat.testBit_shiftRight, setWord_testBit, three_testBit]
  by_cases hm : m < 2
  · by_cases hbb : b' = b
    · subst hbb
      have : b' ≤ b' + m ∧ b' + m < b' + 2 := by omega
      simp [this, hm, Nat.testBit_and, three_testBit]
    · have : ¬ (b ≤ b' + m ∧ b' + m < b + 2) := by omega
      simp [this, hm, hbb, Nat.testBit_and, Nat.testBit_shiftRight, three_testBit]
  · have e : (if b' = b then op &&& 3 else w >>> b' &&& 3).testBit m = false := by
      split <;> simp [hm, Nat.testBit_and, three_testBit]
    rw [e]; simp [hm]

theorem bitIndices_eq (n i j : Nat) : bitIndices n i j = (2 * (i * n + j) / 64, 2 * (i * n + j) % 64) := by
  simp only [bitIndices]
  rw [Nat.shiftRight_eq_div_pow, show (0x3f : Nat) = 2 ^ 6 - 1 from rfl, Nat.and_two_pow_sub_one_eq_mod]

/-- **Frame law for cells, all `n`**: after a successful `set_bits(i, j, op)`,
`get_bits(i', j')` returns `op & 3` if `(i', j')` addresses the same two bits, and what it returned
before otherwise. -/
theorem getBits_setBits (t t' : TabBits) (i j op i' j' : Nat) (h : setBits t i j op = some t') :
    t'.n = t.n ∧
    getBits t' i' j' = if i' * t.n + j' = i * t.n + j then some (op &&& 0x03) else getBits t i' j' := by
  unfold setBits at h
  rw [bitIndices_eq] at h
  simp only at h
  cases hw : t.xz[2 * (i * t.n + j) / 64]? with
  | none => rw [hw] at h; cases h
  | some w =>
    rw [hw] at h
    simp only [Option.map_some, Option.some.injEq] at h
    subst h
    refine ⟨rfl, ?_⟩
    have hlt : 2 * (i * t.n + j) / 64 < t.xz.length := (List.getElem?_eq_some_iff.mp hw).1
    unfold getBits
    rw [bitIndices_eq]
    simp only [List.getElem?_set]
    by_cases hsame : 2 * (i * t.n + j) / 64 = 2 * (i' * t.n + j') / 64
    · rw [if_pos hsame, if_pos hlt, ← hsame, hw]
      simp only [Option.map_some]
      rw [read_setWord w op _ _ (by omega) (by omega)]
      by_cases hc : i' * t.n + j' = i * t.n + j
      · rw [if_pos hc, if_pos (by rw [hc])]
      · rw [if_neg hc, if_neg (by omega)]
    · rw [if_neg hsame, if_neg (by intro hc; rw [hc] at hsame; exact hsame rfl)]

/-- for in-range columns the address determines the cell -/
theorem cell_index_inj (n i j i' j' : Nat) (hj : j < n) (hj' : j' < n) :
    i' * n + j' = i * n + j ↔ (i' = i ∧ j' = j) := by
  constructor
  · intro h
    have h1 : (i' * n + j') / n = (i * n + j) / n := by rw [h]
    have h2 : (i' * n + j') % n = (i * n + j) % n := by rw [h]
    have hn : 0 < n := by omega
    rw [Nat.mul_comm i' n, Nat.mul_comm i n, Nat.mul_add_div hn, Nat.mul_add_div hn,
      Nat.div_eq_of_lt hj, Nat.div_eq_of_lt hj'] at h1
    rw [Nat.mul_comm i' n, Nat.mul_comm i n, Nat.mul_add_mod, Nat.mul_add_mod,
      Nat.mod_eq_of_lt hj, Nat.mod_eq_of_lt hj'] at h2
    omega
  · rintro ⟨rfl, rfl⟩; rfl

/-- the frame law in terms of `(row, column)` for in-range columns -/
theorem getBits_setBits_cell (t t' : TabBits) (i j op i' j' : Nat) (hj : j < t.n) (hj' : j' < t.n)
    (h : setBits t i j op = some t') :
    getBits t' i' j' = if i' = i ∧ j' = j then some (op &&& 0x03) else getBits t i' j' := by
  rw [(getBits_setBits t t' i j op i' j' h).2]
  simp only [cell_index_inj t.n i j i' j' hj hj']

/-! signs -/

theorem one_testBit (m : Nat) : (1 : Nat).testBit m = decide (m = 0) := by
  have := Nat.testBit_two_pow_sub_one 1 m
  simp only [Nat.pow_one] at this
  rw [show (2 - 1 : Nat) = 1 from rfl] at this
  rw [this]; simp

theorem setSignWord_testBit (w b k : Nat) (s : Bool) :
    (clearBits w (1 <<< b) ||| ((if s then 1 else 0) <<< b)).testBit k = if k = b then s else w.testBit k := by
  simp only [clearBits, Nat.testBit_or, Nat.testBit_xor, Nat.testBit_and, Nat.testBit_shiftLeft, one_testBit]
  by_cases h : k = b
  · subst h; cases s <;> simp
  · by_cases h1 : b ≤ k
    · have : ¬ (k - b = 0) := by omega
      cases s <;> simp [h, h1, this, one_testBit]
    · cases s <;> simp [h, h1]

theorem and_one_shift_ne_zero (w b : Nat) : ((w &&& (1 <<< b)) != 0) = w.testBit b := by
  have : w &&& (1 <<< b) = if w.testBit b then 2 ^ b else 0 := by
    apply Nat.eq_of_testBit_eq
    intro k
    rw [Nat.testBit_and, Nat.testBit_shiftLeft, one_testBit]
    by_cases hk : k = b
    · subst hk; cases hw : w.testBit k <;> simp [Nat.testBit_two_pow_self]
    · cases hw : w.testBit b
      · simp; intro _ _ h; omega
      · simp [Ne.symm hk]; intro _ _ h; omega
  rw [this]
  cases w.testBit b <;> simp

/-- **Frame law for signs, all `n`**: after a successful `set_sign(i, s)`, `get_sign(i')` is `s` for
`i' = i` and unchanged otherwise. -/
theorem getSign_setSign (t t' : TabBits) (i i' : Nat) (s : Bool) (h : setSign t i s = some t') :
    getSign t' i' = if i' = i then some s else getSign t i' := by
  unfold setSign at h
  simp only at h
  rw [Nat.shiftRight_eq_div_pow, show (0x3f : Nat) = 2 ^ 6 - 1 from rfl, Nat.and_two_pow_sub_one_eq_mod] at h
  cases hw : t.signs[i / 2 ^ 6]? with
  | none => rw [hw] at h; cases h
  | some w =>
    rw [hw] at h
    simp only [Option.map_some, Option.some.injEq] at h
    subst h
    have hlt : i / 2 ^ 6 < t.signs.length := (List.getElem?_eq_some_iff.mp hw).1
    unfold getSign
    simp only [Nat.shiftRight_eq_div_pow, show (0x3f : Nat) = 2 ^ 6 - 1 from rfl, Nat.and_two_pow_sub_one_eq_mod,
      List.getElem?_set, and_one_shift_ne_zero]
    by_cases hsame : i / 2 ^ 6 = i' / 2 ^ 6
    · rw [if_pos hsame, if_pos hlt, ← hsame, hw]
      simp only [Option.map_some, setSignWord_testBit]
      by_cases hc : i' = i
      · subst hc; simp
      · rw [if_neg hc, if_neg (by omega)]
    · rw [if_neg hsame, if_neg (by intro hc; rw [hc] at hsame; exact hsame rfl)]

end Q1t.Proofs.TableauBits

import Q1t.Proofs.OpenQasmComplex
import Q1t.Proofs.OpenQasmCtrl2
import Q1t.Proofs.OpenQasmCtrl3
import Q1t.Proofs.OpenQasmConstAbs
/-! C11: the complex / real model also satisfies `LawfulAngle2` (quarter angles, sums, `±π/4`). -/
noncomputable section
namespace Q1t.OpenQasm
open Q1t Q1t.Spec.OQ2 Q1t.AmpComplex

private theorem two_eq : (((2 : ℕ) : ℝ) * (10 : ℝ) ^ (0 : ℤ)) = 2 := by simp
private theorem four_eq : (((4 : ℕ) : ℝ) * (10 : ℝ) ^ (0 : ℤ)) = 4 := by simp

theorem lawfulAngle2Complex : LawfulAngle2 ℂ ℝ where
  q_cos x := by
    show ((Real.cos (x / (((2 : ℕ) : ℝ) * (10 : ℝ) ^ (0 : ℤ)) / 2) : ℝ) : ℂ) = (Real.cos (x / 2 / 2) : ℝ)
    rw [two_eq]
  q_sin x := by
    show ((Real.sin (x / (((2 : ℕ) : ℝ) * (10 : ℝ) ^ (0 : ℤ)) / 2) : ℝ) : ℂ) = (Real.sin (x / 2 / 2) : ℝ)
    rw [two_eq]
  qn_cos x := by
    show ((Real.cos (-x / (((2 : ℕ) : ℝ) * (10 : ℝ) ^ (0 : ℤ)) / 2) : ℝ) : ℂ) = (Real.cos (x / 2 / 2) : ℝ)
    rw [two_eq, neg_div, neg_div, Real.cos_neg]
  qn_sin x := by
    show ((Real.sin (-x / (((2 : ℕ) : ℝ) * (10 : ℝ) ^ (0 : ℤ)) / 2) : ℝ) : ℂ) = -((Real.sin (x / 2 / 2) : ℝ) : ℂ)
    rw [two_eq, neg_div, neg_div, Real.sin_neg]; push_cast; rfl
  nq_cos x := by
    show ((Real.cos (-(x / (((2 : ℕ) : ℝ) * (10 : ℝ) ^ (0 : ℤ))) / 2) : ℝ) : ℂ) = (Real.cos (x / 2 / 2) : ℝ)
    rw [two_eq, neg_div, Real.cos_neg]
  nq_sin x := by
    show ((Real.sin (-(x / (((2 : ℕ) : ℝ) * (10 : ℝ) ^ (0 : ℤ))) / 2) : ℝ) : ℂ) = -((Real.sin (x / 2 / 2) : ℝ) : ℂ)
    rw [two_eq, neg_div, Real.sin_neg]; push_cast; rfl
  add_cos x y := by
    show ((Real.cos ((x + y) / (((2 : ℕ) : ℝ) * (10 : ℝ) ^ (0 : ℤ))) : ℝ) : ℂ) = (Real.cos (x / 2 + y / 2) : ℝ)
    rw [two_eq, add_div]
  add_sin x y := by
    show ((Real.sin ((x + y) / (((2 : ℕ) : ℝ) * (10 : ℝ) ^ (0 : ℤ))) : ℝ) : ℂ) = (Real.sin (x / 2 + y / 2) : ℝ)
    rw [two_eq, add_div]
  sub_cos x y := by
    show ((Real.cos ((x - y) / (((2 : ℕ) : ℝ) * (10 : ℝ) ^ (0 : ℤ))) : ℝ) : ℂ) = (Real.cos (x / 2 + -(y / 2)) : ℝ)
    rw [two_eq, sub_div, sub_eq_add_neg]
  sub_sin x y := by
    show ((Real.sin ((x - y) / (((2 : ℕ) : ℝ) * (10 : ℝ) ^ (0 : ℤ))) : ℝ) : ℂ) = (Real.sin (x / 2 + -(y / 2)) : ℝ)
    rw [two_eq, sub_div, sub_eq_add_neg]
  cos_pi_four := by
    show ((Real.cos (Real.pi / (((4 : ℕ) : ℝ) * (10 : ℝ) ^ (0 : ℤ))) : ℝ) : ℂ) = ((Real.sqrt 2 / 2 : ℝ) : ℂ)
    rw [four_eq, Real.cos_pi_div_four]
  sin_pi_four := by
    show ((Real.sin (Real.pi / (((4 : ℕ) : ℝ) * (10 : ℝ) ^ (0 : ℤ))) : ℝ) : ℂ) = ((Real.sqrt 2 / 2 : ℝ) : ℂ)
    rw [four_eq, Real.sin_pi_div_four]
  cos_npi_four := by
    show ((Real.cos (-Real.pi / (((4 : ℕ) : ℝ) * (10 : ℝ) ^ (0 : ℤ))) : ℝ) : ℂ) = ((Real.sqrt 2 / 2 : ℝ) : ℂ)
    rw [four_eq, neg_div, Real.cos_neg, Real.cos_pi_div_four]
  sin_npi_four := by
    show ((Real.sin (-Real.pi / (((4 : ℕ) : ℝ) * (10 : ℝ) ^ (0 : ℤ))) : ℝ) : ℂ) = -((Real.sqrt 2 / 2 : ℝ) : ℂ)
    rw [four_eq, neg_div, Real.sin_neg, Real.sin_pi_div_four]; push_cast; rfl

theorem lawfulAngle3Complex : LawfulAngle3 ℂ ℝ where
  o_cos x := by
    show ((Real.cos (x / (((4 : ℕ) : ℝ) * (10 : ℝ) ^ (0 : ℤ)) / 2) : ℝ) : ℂ) = (Real.cos (x / 2 / 2 / 2) : ℝ)
    rw [four_eq]; congr 2; ring
  o_sin x := by
    show ((Real.sin (x / (((4 : ℕ) : ℝ) * (10 : ℝ) ^ (0 : ℤ)) / 2) : ℝ) : ℂ) = (Real.sin (x / 2 / 2 / 2) : ℝ)
    rw [four_eq]; congr 2; ring
  on_cos x := by
    show ((Real.cos (-x / (((4 : ℕ) : ℝ) * (10 : ℝ) ^ (0 : ℤ)) / 2) : ℝ) : ℂ) = (Real.cos (x / 2 / 2 / 2) : ℝ)
    rw [four_eq, show -x / 4 / 2 = -(x / 2 / 2 / 2) by ring, Real.cos_neg]
  on_sin x := by
    show ((Real.sin (-x / (((4 : ℕ) : ℝ) * (10 : ℝ) ^ (0 : ℤ)) / 2) : ℝ) : ℂ) = -((Real.sin (x / 2 / 2 / 2) : ℝ) : ℂ)
    rw [four_eq, show -x / 4 / 2 = -(x / 2 / 2 / 2) by ring, Real.sin_neg]; push_cast; rfl

theorem lawfulAnglePiComplex : LawfulAnglePi ℂ ℝ where
  cos_pi := by
    show ((Real.cos Real.pi : ℝ) : ℂ) = -1
    rw [Real.cos_pi]; push_cast; rfl
  sin_pi := by
    show ((Real.sin Real.pi : ℝ) : ℂ) = 0
    rw [Real.sin_pi]; rfl
  cos_half_pi := by
    show ((Real.cos (Real.pi / 2) : ℝ) : ℂ) = 0
    rw [Real.cos_pi_div_two]; rfl
  sin_half_pi := by
    show ((Real.sin (Real.pi / 2) : ℝ) : ℂ) = 1
    rw [Real.sin_pi_div_two]; rfl
  cos_npi_two := by
    show ((Real.cos (-Real.pi / (((2 : ℕ) : ℝ) * (10 : ℝ) ^ (0 : ℤ))) : ℝ) : ℂ) = 0
    rw [two_eq, neg_div, Real.cos_neg, Real.cos_pi_div_two]; rfl
  sin_npi_two := by
    show ((Real.sin (-Real.pi / (((2 : ℕ) : ℝ) * (10 : ℝ) ^ (0 : ℤ))) : ℝ) : ℂ) = -1
    rw [two_eq, neg_div, Real.sin_neg, Real.sin_pi_div_two]; push_cast; rfl

end Q1t.OpenQasm

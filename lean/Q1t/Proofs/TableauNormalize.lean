import Q1t.Proofs.TableauStab
/-!
C03, proofs part 8 (all `n`): `normalize` on a tableau that stabilizes a non-zero vector returns (no
assertion failure, no index fault) and leaves the set of stabilized vectors unchanged.
-/
namespace Q1t.Proofs.Tableau
open Q1t Q1t.Tableau Q1t.Spec.Pauli Q1t.Spec.Stab

/-- invariant of the loops of `normalize` relative to the initial tableau `t0` and a stabilized `ψ` -/
def Good (ψ : Vec) (t0 t : Tab) : Prop := Stabilizes t ψ ∧ SameGroup t0 t ∧ t.n = t0.n

theorem cell_ok (t : Tab) (hwf : t.WF) (k j : Nat) (hk : k < t.n) (hj : j < t.n) : ∃ p, t.cell k j = .ok p := by
  obtain ⟨w1, _, w3⟩ := hwf
  have hk' : k < t.rows.length := by omega
  have hr : t.rows[k]? = some t.rows[k] := List.getElem?_eq_getElem hk'
  have hl : t.rows[k].length = t.n := w3 _ (List.getElem_mem hk')
  have hj' : j < t.rows[k].length := by omega
  exact ⟨t.rows[k][j], by simp [Tab.cell, Tab.row, hr, Res.ofOption, bind, Res.bind, List.getElem?_eq_getElem hj']⟩

theorem swap_ok (ψ : Vec) (t0 t : Tab) (hg : Good ψ t0 t) (a b : Nat) (ha : a < t.n) (hb : b < t.n) :
    ∃ t', t.swapRows a b = .ok t' ∧ Good ψ t0 t' := by
  obtain ⟨hst, hsg, hn⟩ := hg
  obtain ⟨_, h2, h3, _⟩ := (stabilizes_iff t ψ).mp hst
  have e : t.swapRows a b = .ok { t with rows := (t.rows.set a t.rows[b]).set b t.rows[a],
                                         signs := (t.signs.set a t.signs[b]).set b t.signs[a] } := by
    simp [Tab.swapRows, Tab.row, Tab.sign, Res.ofOption, bind, Res.bind,
      List.getElem?_eq_getElem (show a < t.rows.length by omega), List.getElem?_eq_getElem (show b < t.rows.length by omega),
      List.getElem?_eq_getElem (show a < t.signs.length by omega), List.getElem?_eq_getElem (show b < t.signs.length by omega)]
    rfl
  obtain ⟨sg, hn'⟩ := swapRows_sameGroup t _ a b e
  exact ⟨_, e, (sg ψ).mpr hst, hsg.trans sg, hn'.trans hn⟩

theorem mul_ok {ph : List Nat} (hph : PhaseTableCorrect ph) (ψ : Vec) (hnz : Vec.isZero ψ = false) (t0 t : Tab)
    (hg : Good ψ t0 t) (m i : Nat) (hm : m < t.n) (hi : i < t.n) (hne : m ≠ i) :
    ∃ t', t.multiplyRow ph m i = .ok t' ∧ Good ψ t0 t' := by
  obtain ⟨hst, hsg, hn⟩ := hg
  obtain ⟨t', e⟩ := multiplyRow_no_assert hph t ψ hst hnz m i hm hi
  obtain ⟨sg, hn', _⟩ := multiplyRow_sameGroup hph t t' m i (wf_of_stabilizes t ψ hst) hne e
  exact ⟨t', e, (sg ψ).mpr hst, hsg.trans sg, hn'.trans hn⟩

theorem findRow_ok (sel : P → Bool) (t : Tab) (hwf : t.WF) (j : Nat) (hj : j < t.n) :
    ∀ ks : List Nat, (∀ k ∈ ks, k < t.n) → ∃ r, Tab.findRow sel t j ks = .ok r ∧ ∀ k, r = some k → k ∈ ks := by
  intro ks
  induction ks with
  | nil => intro _; exact ⟨none, rfl, fun k h => by cases h⟩
  | cons k ks ih =>
    intro hks
    obtain ⟨p, hp⟩ := cell_ok t hwf k j (hks k (List.mem_cons_self ..)) hj
    simp only [Tab.findRow, hp, bind, Res.bind]
    split
    · exact ⟨some k, rfl, fun k' h => by cases h; exact List.mem_cons_self ..⟩
    · obtain ⟨r, hr, hmem⟩ := ih (fun k' hk' => hks k' (List.mem_cons_of_mem _ hk'))
      exact ⟨r, hr, fun k' h => List.mem_cons_of_mem _ (hmem k' h)⟩

theorem elimRows_ok {ph : List Nat} (hph : PhaseTableCorrect ph) (ψ : Vec) (hnz : Vec.isZero ψ = false) (t0 : Tab)
    (sel : P → Bool) (j i : Nat) (hj : j < t0.n) (hi : i < t0.n) :
    ∀ (ms : List Nat) (t : Tab), (∀ m ∈ ms, m < t0.n) → Good ψ t0 t →
      ∃ t', Tab.elimRows ph sel j i ms t = .ok t' ∧ Good ψ t0 t' := by
  intro ms
  induction ms with
  | nil => intro t _ hg; exact ⟨t, rfl, hg⟩
  | cons m ms ih =>
    intro t hms hg
    have hn := hg.2.2
    obtain ⟨p, hp⟩ := cell_ok t (wf_of_stabilizes t ψ hg.1) m j (hn ▸ hms m (List.mem_cons_self ..)) (hn ▸ hj)
    simp only [Tab.elimRows, hp, bind, Res.bind]
    split
    · rename_i hc
      have hne : m ≠ i := by
        simp only [Bool.and_eq_true, bne_iff_ne] at hc; exact hc.1
      obtain ⟨t', e, hg'⟩ := mul_ok hph ψ hnz t0 t hg m i (hn ▸ hms m (List.mem_cons_self ..)) (hn ▸ hi) hne
      rw [e]
      exact ih t' (fun m' hm' => hms m' (List.mem_cons_of_mem _ hm')) hg'
    · exact ih t (fun m' hm' => hms m' (List.mem_cons_of_mem _ hm')) hg

theorem pass_ok {ph : List Nat} (hph : PhaseTableCorrect ph) (ψ : Vec) (hnz : Vec.isZero ψ = false) (t0 : Tab)
    (sel : P → Bool) :
    ∀ (js : List Nat) (t : Tab) (i : Nat), (∀ j ∈ js, j < t0.n) → i ≤ t0.n → Good ψ t0 t →
      ∃ t' i', Tab.pass ph sel js t i = .ok (t', i') ∧ Good ψ t0 t' ∧ i' ≤ t0.n := by
  intro js
  induction js with
  | nil => intro t i _ hi hg; exact ⟨t, i, rfl, hg, hi⟩
  | cons j js ih =>
    intro t i hjs hi hg
    have hn := hg.2.2
    have hj : j < t0.n := hjs j (List.mem_cons_self ..)
    have hjs' : ∀ j' ∈ js, j' < t0.n := fun j' h => hjs j' (List.mem_cons_of_mem _ h)
    obtain ⟨r, hr, hmem⟩ := findRow_ok sel t (wf_of_stabilizes t ψ hg.1) j (hn ▸ hj) (List.range' i (t.n - i))
      (fun k hk => by rw [List.mem_range'_1] at hk; omega)
    simp only [Tab.pass, hr, bind, Res.bind]
    cases r with
    | none => exact ih t i hjs' hi hg
    | some k =>
      have hk := hmem k rfl
      rw [List.mem_range'_1] at hk
      obtain ⟨t1, e1, hg1⟩ := swap_ok ψ t0 t hg i k (by omega) (by omega)
      obtain ⟨t2, e2, hg2⟩ := elimRows_ok hph ψ hnz t0 sel j i hj (by omega) (List.range t1.n) t1
        (fun m hm => by rw [List.mem_range] at hm; rw [hg1.2.2] at hm; exact hm) hg1
      simp only [e1, e2]
      exact ih t2 (i + 1) hjs' (by omega) hg2

/-- **`normalize` is sound, all `n`**: on a tableau that stabilizes a non-zero vector it returns (the
assertion in `multiply_row` is not tripped, no index is out of range), keeps `n`, and the result
stabilizes exactly the same vectors. -/
theorem normalize_ok {ph : List Nat} (hph : PhaseTableCorrect ph) (t : Tab) (ψ : Vec) (hst : Stabilizes t ψ)
    (hnz : Vec.isZero ψ = false) :
    ∃ t', t.normalize ph = .ok t' ∧ t'.n = t.n ∧ ∀ φ, Stabilizes t' φ ↔ Stabilizes t φ := by
  have hg : Good ψ t t := ⟨hst, SameGroup.refl t, rfl⟩
  obtain ⟨t1, i1, e1, hg1, hi1⟩ := pass_ok hph ψ hnz t P.hasX (List.range t.n) t 0
    (fun j hj => List.mem_range.mp hj) (Nat.zero_le _) hg
  obtain ⟨t2, i2, e2, hg2, _⟩ := pass_ok hph ψ hnz t P.hasZ (List.range t1.n) t1 i1
    (fun j hj => by rw [List.mem_range, hg1.2.2] at hj; exact hj) hi1 hg1
  refine ⟨t2, ?_, hg2.2.2, hg2.2.1⟩
  simp only [Tab.normalize, e1, e2, bind, Res.bind, pure]

end Q1t.Proofs.Tableau

import Q1t.Model.FromString
import Q1t.Proofs.ExprTotal
/-!
C15, part 1: `Composite::from_string` (model) is total — for every text it ends in a gate or in a `ParseError`;
the loop budgets are never exhausted and the explicit panic sites (`max().unwrap()`, `gate.args[i]`, the
constructor call) are unreachable, provided the dispatch table is well formed (`TableWF`: every arm constructs a
gate the model knows, with as many arguments as it takes, and only reads `gate.args[i]` below the number of
arguments it has just asserted).  (Core Lean only.)
-/
namespace Q1t.Proofs.FromString
open Q1t Q1t.FromString
open Q1t.Expr (isWs dropWs reLit FloatOps)
open Q1t.Proofs.Expr (reLit_lt dropWs_length_le dropWhile_length_le parse_shrinks Shrinks)

/-- Neither `panic` nor `fuel`. -/
def Fine {α : Type} : Res α → Prop
  | .ok _ => True
  | .err _ => True
  | .panic _ => False
  | .fuel => False

/-- A gate description was consumed: ok with a shorter (or equal) rest, or an error. -/
def Le {α : Type} (s : List Char) : Res (α × List Char) → Prop
  | .ok (_, r) => r.length ≤ s.length
  | .err _ => True
  | .panic _ => False
  | .fuel => False

def Lt {α : Type} (s : List Char) : Res (α × List Char) → Prop
  | .ok (_, r) => r.length < s.length
  | .err _ => True
  | .panic _ => False
  | .fuel => False

theorem parseArg_lt {F : Type} (I : FloatOps F) (m text : List Char) : Lt text (parseArg I m text) := by
  unfold parseArg
  have h := parse_shrinks text
  cases hp : Expr.parse text with
  | ok a =>
    obtain ⟨e, r⟩ := a
    rw [hp] at h
    simp only
    cases Expr.eval I e with
    | ok x => exact h
    | error _ => trivial
  | err e => trivial
  | panic => rw [hp] at h; exact h.elim
  | fuel => rw [hp] at h; exact h.elim

theorem argsLoop_le {F : Type} (I : FloatOps F) : ∀ (n : Nat) (args : List F) (rest : List Char),
    rest.length < n → Le rest (argsLoop I n args rest)
  | 0, _, _, h => by omega
  | n + 1, args, rest, h => by
    unfold argsLoop
    cases hl : reLit [','] rest with
    | none => simp [Le]
    | some r =>
      have h1 := reLit_lt hl
      have h2 := parseArg_lt I (rest.takeWhile isWs ++ [',']) r
      simp only
      cases hp : parseArg I (rest.takeWhile isWs ++ [',']) r with
      | ok a =>
        obtain ⟨x, newRest⟩ := a
        rw [hp] at h2
        simp only [Lt] at h2
        have := argsLoop_le I n (args ++ [x]) newRest (by omega)
        simp only
        cases hq : argsLoop I n (args ++ [x]) newRest with
        | ok b => obtain ⟨as, r'⟩ := b; rw [hq] at this; simp only [Le] at *; omega
        | err e => trivial
        | panic s => rw [hq] at this; exact this.elim
        | fuel => rw [hq] at this; exact this.elim
      | err e => trivial
      | panic s => rw [hp] at h2; exact h2.elim
      | fuel => rw [hp] at h2; exact h2.elim

theorem parseGateArgs_le {F : Type} (I : FloatOps F) (desc : List Char) : Le desc (parseGateArgs I desc) := by
  unfold parseGateArgs
  cases hl : reLit ['('] desc with
  | none => simp [Le]
  | some r =>
    have h1 := reLit_lt hl
    have h2 := parseArg_lt I (desc.takeWhile isWs ++ ['(']) r
    simp only
    cases hp : parseArg I (desc.takeWhile isWs ++ ['(']) r with
    | ok a =>
      obtain ⟨x, rest⟩ := a
      rw [hp] at h2
      simp only [Lt] at h2
      have h3 := argsLoop_le I (rest.length + 1) [x] rest (Nat.lt_succ_self _)
      simp only
      cases hq : argsLoop I (rest.length + 1) [x] rest with
      | ok b =>
        obtain ⟨as, r'⟩ := b
        rw [hq] at h3
        simp only [Le] at h3
        simp only
        cases hc : reLit [')'] r' with
        | none => trivial
        | some r2 => have := reLit_lt hc; simp only [Le]; omega
      | err e => trivial
      | panic s => rw [hq] at h3; exact h3.elim
      | fuel => rw [hq] at h3; exact h3.elim
    | err e => trivial
    | panic s => rw [hp] at h2; exact h2.elim
    | fuel => rw [hp] at h2; exact h2.elim

theorem dropWhile_lt_of_takeWhile {p : Char → Bool} {s : List Char} (h : (s.takeWhile p).isEmpty = false) :
    (s.dropWhile p).length < s.length := by
  cases s with
  | nil => simp at h
  | cons c t =>
    by_cases hc : p c = true
    · have := dropWhile_length_le p t
      simp only [List.dropWhile_cons, hc, if_true, List.length_cons]; omega
    · simp [hc] at h

/-- What the bit loop returns: at least the bits it was given. -/
def BitsFine (bits : List Nat) : Res (List Nat × List Char) → Prop
  | .ok (bs, _) => bits.length ≤ bs.length
  | .err _ => True
  | .panic _ => False
  | .fuel => False

theorem bitsLoop_fine (T : Tables) : ∀ (n : Nat) (bits : List Nat) (rest : List Char),
    rest.length < n → BitsFine bits (bitsLoop T n bits rest)
  | 0, _, _, h => by omega
  | n + 1, bits, rest, h => by
    unfold bitsLoop
    simp only
    split
    · simp [BitsFine]
    · rename_i hne
      split
      · have h1 : ((dropWs rest).dropWhile (isDec T)).length < (dropWs rest).length :=
          dropWhile_lt_of_takeWhile (by simpa using hne)
        have h2 := dropWs_length_le rest
        have := bitsLoop_fine T n (bits ++ [DecFloat.digitsToNat ((dropWs rest).takeWhile (isDec T))])
          ((dropWs rest).dropWhile (isDec T)) (by omega)
        cases hq : bitsLoop T n (bits ++ [DecFloat.digitsToNat ((dropWs rest).takeWhile (isDec T))])
            ((dropWs rest).dropWhile (isDec T)) with
        | ok b => obtain ⟨bs, r⟩ := b; rw [hq] at this; simp only [BitsFine, List.length_append, List.length_cons, List.length_nil] at *; omega
        | err e => trivial
        | panic s => rw [hq] at this; exact this.elim
        | fuel => rw [hq] at this; exact this.elim
      · trivial

/-- `parse_gate_bits`: success comes with at least one bit. -/
def BitsNonempty : Res (List Nat × List Char) → Prop
  | .ok (bs, _) => bs ≠ []
  | .err _ => True
  | .panic _ => False
  | .fuel => False

theorem parseGateBits_fine (T : Tables) (desc name : List Char) : BitsNonempty (parseGateBits T desc name) := by
  unfold parseGateBits
  have := bitsLoop_fine T (desc.length + 1) [] desc (Nat.lt_succ_self _)
  cases hq : bitsLoop T (desc.length + 1) [] desc with
  | ok b =>
    obtain ⟨bs, r⟩ := b
    simp only
    cases bs with
    | nil => simp [BitsNonempty]
    | cons x xs => simp [BitsNonempty]
  | err e => trivial
  | panic s => rw [hq] at this; exact this.elim
  | fuel => rw [hq] at this; exact this.elim

/-- `parse_gate_desc`: success comes with at least one bit. -/
def DescFine {F : Type} : Res (SubGateDesc F) → Prop
  | .ok g => g.bits ≠ []
  | .err _ => True
  | .panic _ => False
  | .fuel => False

theorem parseGateName_fine (T : Tables) (desc : List Char) : Fine (parseGateName T desc) := by
  unfold parseGateName
  split
  · split <;> trivial
  · trivial

theorem parseGateDesc_fine {F : Type} (I : FloatOps F) (T : Tables) (desc : List Char) :
    DescFine (parseGateDesc I T desc) := by
  unfold parseGateDesc
  have h1 := parseGateName_fine T desc
  cases hn : parseGateName T desc with
  | ok a =>
    obtain ⟨name, rest⟩ := a
    simp only
    have h2 := parseGateArgs_le I rest
    cases ha : parseGateArgs I rest with
    | ok b =>
      obtain ⟨args, rest2⟩ := b
      simp only
      have h3 := parseGateBits_fine T rest2 name
      cases hb : parseGateBits T rest2 name with
      | ok c =>
        obtain ⟨bits, rest3⟩ := c
        rw [hb] at h3
        simp only
        split
        · trivial
        · exact h3
      | err e => trivial
      | panic s => rw [hb] at h3; exact h3.elim
      | fuel => rw [hb] at h3; exact h3.elim
    | err e => trivial
    | panic s => rw [ha] at h2; exact h2.elim
    | fuel => rw [ha] at h2; exact h2.elim
  | err e => trivial
  | panic s => rw [hn] at h1; exact h1.elim
  | fuel => rw [hn] at h1; exact h1.elim

theorem maxOfBits_some {bs : List Nat} (h : bs ≠ []) : ∃ m, maxOfBits bs = some m := by
  cases bs with
  | nil => exact absurd rfl h
  | cons b t => exact ⟨_, rfl⟩

/-- The first loop of `from_string` ends with descriptions that all have bits, or with an error. -/
def PartsFine {F : Type} : Res (List (SubGateDesc F) × Nat) → Prop
  | .ok _ => True
  | .err _ => True
  | .panic _ => False
  | .fuel => False

theorem parseParts_fine {F : Type} (I : FloatOps F) (T : Tables) : ∀ (parts : List (List Char)) (m : Nat)
    (gs : List (SubGateDesc F)), PartsFine (parseParts I T parts m gs)
  | [], _, _ => by simp [parseParts, PartsFine]
  | part :: more, m, gs => by
    unfold parseParts
    have h := parseGateDesc_fine I T part
    cases hp : parseGateDesc I T part with
    | ok g =>
      rw [hp] at h
      obtain ⟨mx, hm⟩ := maxOfBits_some h
      simp only [hm]
      exact parseParts_fine I T more _ _
    | err e => trivial
    | panic s => rw [hp] at h; exact h.elim
    | fuel => rw [hp] at h; exact h.elim

/-! ### the dispatch -/

/-- Number of arguments of `<Struct>::new` for the gate structs the model knows. -/
def ctorArities : List (String × Nat) := [
  ("H", 0), ("X", 0), ("Y", 0), ("Z", 0), ("S", 0), ("Sdg", 0), ("T", 0), ("Tdg", 0), ("V", 0), ("Vdg", 0), ("I", 0),
  ("CX", 0), ("CY", 0), ("CZ", 0), ("Swap", 0),
  ("RX", 1), ("RY", 1), ("RZ", 1), ("U1", 1), ("U2", 2), ("U3", 3),
  ("CH", 0), ("CS", 0), ("CSdg", 0), ("CT", 0), ("CTdg", 0), ("CV", 0), ("CVdg", 0), ("CCX", 0), ("CCZ", 0),
  ("CRX", 1), ("CRY", 1), ("CRZ", 1), ("CU1", 1), ("CU2", 2), ("CU3", 3), ("CCRX", 1), ("CCRY", 1), ("CCRZ", 1)]

theorem buildGate_some {F : Type} : ∀ p ∈ ctorArities, ∀ (as : List F), as.length = p.2 →
    ∃ t, buildGate p.1 as = some t := by
  intro p hp as hlen
  simp only [ctorArities, List.mem_cons, List.not_mem_nil, or_false] at hp
  rcases hp with h | h | h | h | h | h | h | h | h | h | h | h | h | h | h | h | h | h | h | h | h | h | h | h | h | h |
    h | h | h | h | h | h | h | h | h | h | h | h | h <;> subst h <;>
  (rcases as with _ | ⟨x, _ | ⟨y, _ | ⟨z, _ | ⟨u, t⟩⟩⟩⟩ <;> simp at hlen <;> exact ⟨_, rfl⟩)

/-- Well-formed dispatch table: the struct of every arm is known and takes as many arguments as the arm passes,
and the arm only indexes `gate.args` below the number of arguments it asserts. -/
def TableWF (T : Tables) : Prop :=
  ∀ row ∈ T.dispatch, (row.2.1, row.2.2.2.2.length) ∈ ctorArities ∧ ∀ i ∈ row.2.2.2.2, i < row.2.2.1

instance (T : Tables) : Decidable (TableWF T) := by unfold TableWF; infer_instance

theorem mapM_getElem?_some {F : Type} (args : List F) : ∀ (order : List Nat), (∀ i ∈ order, i < args.length) →
    ∃ as, order.mapM (fun i => args[i]?) = some as ∧ as.length = order.length
  | [], _ => ⟨[], by simp⟩
  | i :: more, h => by
    obtain ⟨as, h1, h2⟩ := mapM_getElem?_some args more (fun j hj => h j (List.mem_cons_of_mem _ hj))
    have hi : i < args.length := h i (List.mem_cons_self ..)
    refine ⟨args[i] :: as, ?_, by simp [h2]⟩
    simp [List.mapM_cons, h1, List.getElem?_eq_getElem hi]

theorem lookupArm_mem {T : Tables} {l : List Char} {row : Arm} (h : lookupArm T l = some row) :
    row ∈ T.dispatch := by
  unfold lookupArm at h
  exact List.mem_of_find?_eq_some h

theorem dispatchOne_fine {F : Type} {T : Tables} (hT : TableWF T) (g : SubGateDesc F) : Fine (dispatchOne T g) := by
  unfold dispatchOne
  cases hl : lookupArm T (g.name.map lowerChar) with
  | none => trivial
  | some row =>
    obtain ⟨key, ctor, nrArgs, nrBits, order⟩ := row
    obtain ⟨hc, ho⟩ := hT _ (lookupArm_mem hl)
    simp only
    split
    · trivial
    · rename_i hargs
      split
      · trivial
      · have hargs' : nrArgs = g.args.length := by simpa using hargs
        obtain ⟨as, h1, h2⟩ := mapM_getElem?_some g.args order (fun i hi => hargs' ▸ ho i hi)
        obtain ⟨t, ht⟩ := buildGate_some _ hc as h2
        simp only at ht
        simp only [h1, ht]
        trivial

theorem dispatchAll_fine {F : Type} {T : Tables} (hT : TableWF T) : ∀ (gs : List (SubGateDesc F)),
    Fine (dispatchAll T gs)
  | [] => by simp [dispatchAll, Fine]
  | g :: more => by
    unfold dispatchAll
    have h := dispatchOne_fine hT g
    cases hd : dispatchOne T g with
    | ok t =>
      simp only
      have h2 := dispatchAll_fine hT more
      cases hm : dispatchAll T more with
      | ok ops => trivial
      | err e => trivial
      | panic s => rw [hm] at h2; exact h2.elim
      | fuel => rw [hm] at h2; exact h2.elim
    | err e => trivial
    | panic s => rw [hd] at h; exact h.elim
    | fuel => rw [hd] at h; exact h.elim

/-- `from_string` ends in a gate or in a `ParseError`, for every text. -/
theorem fromString_fine {F : Type} (I : FloatOps F) {T : Tables} (hT : TableWF T) (name : String)
    (desc : List Char) : Fine (fromString I T name desc) := by
  unfold fromString
  have h := parseParts_fine I T (splitSemi desc) 0 []
  cases hp : parseParts I T (splitSemi desc) 0 [] with
  | ok a =>
    obtain ⟨gates, maxBit⟩ := a
    simp only
    split
    · trivial
    · have h2 := dispatchAll_fine hT gates
      cases hd : dispatchAll T gates with
      | ok ops => trivial
      | err e => trivial
      | panic s => rw [hd] at h2; exact h2.elim
      | fuel => rw [hd] at h2; exact h2.elim
  | err e => trivial
  | panic s => rw [hp] at h; exact h.elim
  | fuel => rw [hp] at h; exact h.elim

theorem fromString_total {F : Type} (I : FloatOps F) {T : Tables} (hT : TableWF T) (name : String)
    (desc : List Char) :
    (∃ g, fromString I T name desc = .ok g) ∨ (∃ e, fromString I T name desc = .err e) := by
  have h := fromString_fine I hT name desc
  cases hf : fromString I T name desc with
  | ok g => exact .inl ⟨g, rfl⟩
  | err e => exact .inr ⟨e, rfl⟩
  | panic s => rw [hf] at h; exact h.elim
  | fuel => rw [hf] at h; exact h.elim

end Q1t.Proofs.FromString

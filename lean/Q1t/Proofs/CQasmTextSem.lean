import Q1t.Proofs.CQasmEquivFold
import Q1t.Proofs.CQasmProgram
set_option linter.unusedSimpArgs false
set_option linter.unusedSectionVars false
set_option linter.unusedVariables false
/-!
C12 (text link), part 1: the assembly.  If every code line of a program text either is a statement line that PARSES
to a statement whose `Spec/CQ1` semantics is a given value-level statement list, or belongs to a section
`.label(k)` / statement lines / `.end`, then `parseProgram` succeeds and `programSem` of the parsed program is `dSeq` of
the concatenated statement lists (a section's list repeated `k` times).  Generic in what the lines are.
-/
namespace Q1t.Proofs.CQasm
open Q1t Q1t.Spec Q1t.CQ

variable {α P : Type} [CommRing α] [Amp α P]

/-! ### `seqSem`, `iterate`, `subsSem` -/

theorem subsSem_append (S : CQ1.NumSem α P) (n : Nat) (nz : List α → Bool) :
    ∀ (a b : List CQ1.SubCirc) (brs : List (CQ1.Branch α)),
      CQ1.subsSem S n nz (a ++ b) brs = (CQ1.subsSem S n nz a brs).bind (CQ1.subsSem S n nz b)
  | [], b, brs => by simp [CQ1.subsSem]
  | s :: a, b, brs => by
    simp only [List.cons_append, CQ1.subsSem]
    cases CQ1.subSem S n nz s brs with
    | none => rfl
    | some l => exact subsSem_append S n nz a b l

theorem mapM_some_of {β γ : Type} (f : β → Option γ) (g : β → γ) : ∀ (l : List β), (∀ a ∈ l, f a = some (g a)) →
    l.mapM f = some (l.map g)
  | [], _ => rfl
  | a :: l, h => by
    simp [List.mapM_cons, h a (by simp), mapM_some_of f g l (fun x hx => h x (by simp [hx]))]

/-- a statement denotes a value-level statement list -/
def StmtDen (S : CQ1.NumSem α P) (n : Nat) (nz : List α → Bool) (st : CQ1.Stmt) (D : List (DStmt α)) : Prop :=
  ∀ br, CQ1.stmtSem S n nz st br = some (dSeq n nz D [br])

/-- an instruction denotes a value-level statement list -/
def InstrDen (S : CQ1.NumSem α P) (n : Nat) (nz : List α → Bool) (i : CQ1.Instr) (D : List (DStmt α)) : Prop :=
  ∀ br, CQ1.instrSem S n nz i br = some (dSeq n nz D [br])

theorem seqSem_den {β : Type} (f : β → CQ1.Branch α → Option (List (CQ1.Branch α))) (n : Nat) (nz : List α → Bool) :
    ∀ (xs : List β) (Ds : List (List (DStmt α))),
      List.Forall₂ (fun x D => ∀ br, f x br = some (dSeq n nz D [br])) xs Ds →
      ∀ brs, CQ1.seqSem f xs brs = some (dSeq n nz Ds.flatten brs)
  | [], [], _, brs => rfl
  | x :: xs, D :: Ds, h, brs => by
    cases h with
    | cons hx hrest =>
      simp only [CQ1.seqSem, List.flatten_cons, dSeq_append]
      rw [mapM_some_of (f x) (fun b => dSeq n nz D [b]) brs (fun b _ => hx b)]
      simp only []
      rw [← List.flatMap_def, ← dSeq_flatMap n nz D brs]
      exact seqSem_den f n nz xs Ds hrest _

theorem stmtDen_one (S : CQ1.NumSem α P) (n : Nat) (nz : List α → Bool) (i : CQ1.Instr) (D : List (DStmt α))
    (h : InstrDen S n nz i D) : StmtDen S n nz (.one i) D := fun br => by simpa [CQ1.stmtSem] using h br

theorem stmtDen_bundle (S : CQ1.NumSem α P) (n : Nat) (nz : List α → Bool) (ia ib : CQ1.Instr) (Da Db : List (DStmt α))
    (ha : InstrDen S n nz ia Da) (hb : InstrDen S n nz ib Db) : StmtDen S n nz (.bundle [ia, ib]) (Da ++ Db) := by
  intro br
  have := seqSem_den (CQ1.instrSem S n nz) n nz [ia, ib] [Da, Db]
    (List.Forall₂.cons ha (List.Forall₂.cons hb List.Forall₂.nil)) [br]
  simpa [CQ1.stmtSem] using this

def repeatD (D : List (DStmt α)) : Nat → List (DStmt α)
  | 0 => []
  | k + 1 => D ++ repeatD D k

theorem iterate_den (n : Nat) (nz : List α → Bool) (f : List (CQ1.Branch α) → Option (List (CQ1.Branch α)))
    (D : List (DStmt α)) (hf : ∀ brs, f brs = some (dSeq n nz D brs)) :
    ∀ (k : Nat) (brs : List (CQ1.Branch α)), CQ1.iterate f k brs = some (dSeq n nz (repeatD D k) brs)
  | 0, brs => rfl
  | k + 1, brs => by
    simp only [CQ1.iterate, hf, Option.bind_some, repeatD, dSeq_append]
    exact iterate_den n nz f D hf k _

/-! ### code lines that denote -/

/-- a statement line: parses to a statement that denotes `D` -/
def LineStmt (S : CQ1.NumSem α P) (n : Nat) (nz : List α → Bool) (l : Text) (D : List (DStmt α)) : Prop :=
  l.head? ≠ some '.' ∧ ∃ st, CQ1.parseStmt l = .ok st ∧ CQ1.stmtWf n st = none ∧ StmtDen S n nz st D

/-- code lines of a program body: statement lines and sections `.label(k)` / statement lines / `.end` -/
inductive ProgDen (S : CQ1.NumSem α P) (n : Nat) (nz : List α → Bool) : List Text → List (DStmt α) → Prop
  | nil : ProgDen S n nz [] []
  | stmt (l : Text) (ls : List Text) (D Ds : List (DStmt α)) :
      LineStmt S n nz l D → ProgDen S n nz ls Ds → ProgDen S n nz (l :: ls) (D ++ Ds)
  | loop (hdr e : Text) (nm nm' : String) (k : Nat) (body rest : List Text) (Dbs : List (List (DStmt α)))
      (Dr : List (DStmt α)) :
      hdr.head? = some '.' → CQ1.parseHeader hdr = some (nm, k) →
      List.Forall₂ (LineStmt S n nz) body Dbs →
      e.head? = some '.' → CQ1.parseHeader e = some (nm', 1) →
      ProgDen S n nz rest Dr → ProgDen S n nz (hdr :: (body ++ e :: rest)) (repeatD Dbs.flatten k ++ Dr)

theorem ProgDen.append (S : CQ1.NumSem α P) (n : Nat) (nz : List α → Bool) {a b : List Text} {Da Db : List (DStmt α)}
    (ha : ProgDen S n nz a Da) (hb : ProgDen S n nz b Db) : ProgDen S n nz (a ++ b) (Da ++ Db) := by
  induction ha with
  | nil => simpa using hb
  | stmt l ls D Ds hl _ ih =>
    have := ProgDen.stmt l (ls ++ b) D (Ds ++ Db) hl ih
    simpa [List.append_assoc] using this
  | loop hdr e nm nm' k body rest Dbs Dr h1 h2 h4 h5 h6 _ ih =>
    have := ProgDen.loop hdr e nm nm' k body (rest ++ b) Dbs (Dr ++ Db) h1 h2 h4 h5 h6 ih
    simpa [List.append_assoc] using this

theorem ProgDen.of_lines (S : CQ1.NumSem α P) (n : Nat) (nz : List α → Bool) :
    ∀ (ls : List Text) (Ds : List (List (DStmt α))), List.Forall₂ (LineStmt S n nz) ls Ds →
      ProgDen S n nz ls Ds.flatten
  | [], [], _ => ProgDen.nil
  | l :: ls, D :: Ds, h => by
    cases h with
    | cons hl hrest => exact ProgDen.stmt l ls D Ds.flatten hl (ProgDen.of_lines S n nz ls Ds hrest)

theorem parseBody_cons_stmt (l : Text) (ls : List Text) (lineNo : Nat) (nm : String) (k : Nat) (body : List CQ1.Stmt)
    (acc : List CQ1.SubCirc) (st : CQ1.Stmt) (hhead : l.head? ≠ some '.') (hst : CQ1.parseStmt l = .ok st) :
    CQ1.parseBody (l :: ls) lineNo (nm, k, body) acc = CQ1.parseBody ls (lineNo + 1) (nm, k, st :: body) acc := by
  conv_lhs => unfold CQ1.parseBody
  split
  · rename_i r; simp at hhead
  · simp only [hst]

theorem parseBody_cons_hdr (l : Text) (ls : List Text) (lineNo : Nat) (nm : String) (k : Nat) (body : List CQ1.Stmt)
    (acc : List CQ1.SubCirc) (nm' : String) (k' : Nat) (hhead : l.head? = some '.')
    (hh : CQ1.parseHeader l = some (nm', k')) :
    CQ1.parseBody (l :: ls) lineNo (nm, k, body) acc =
      CQ1.parseBody ls (lineNo + 1) (nm', k', []) (acc ++ [⟨nm, k, body.reverse⟩]) := by
  cases l with
  | nil => simp at hhead
  | cons c cs =>
    simp at hhead; subst hhead
    conv_lhs => unfold CQ1.parseBody
    simp only [hh]

/-- statement lines are added to the open sub-circuit -/
theorem parseBody_stmts (S : CQ1.NumSem α P) (n : Nat) (nz : List α → Bool) :
    ∀ (body : List Text) (Dbs : List (List (DStmt α))), List.Forall₂ (LineStmt S n nz) body Dbs →
    ∀ (rest : List Text) (lineNo : Nat) (nm : String) (k : Nat) (b0 : List CQ1.Stmt) (acc : List CQ1.SubCirc),
    ∃ sts lineNo', CQ1.parseBody (body ++ rest) lineNo (nm, k, b0) acc =
        CQ1.parseBody rest lineNo' (nm, k, sts.reverse ++ b0) acc ∧
      List.Forall₂ (StmtDen S n nz) sts Dbs ∧ ∀ st ∈ sts, CQ1.stmtWf n st = none
  | [], [], _, rest, lineNo, nm, k, b0, acc => ⟨[], lineNo, rfl, List.Forall₂.nil, by simp⟩
  | l :: body, D :: Dbs, h, rest, lineNo, nm, k, b0, acc => by
    cases h with
    | cons hl hrest =>
      obtain ⟨hhead, st, hst, hwf, hden⟩ := hl
      obtain ⟨sts, lineNo', e, hf, hw⟩ := parseBody_stmts S n nz body Dbs hrest rest (lineNo + 1) nm k (st :: b0) acc
      refine ⟨st :: sts, lineNo', ?_, List.Forall₂.cons hden hf, ?_⟩
      · simp only [List.cons_append]
        rw [parseBody_cons_stmt l _ lineNo nm k b0 acc st hhead hst, e]; simp
      · intro x hx
        rcases List.mem_cons.mp hx with rfl | hx
        · exact hwf
        · exact hw x hx

theorem subSem_one (S : CQ1.NumSem α P) (n : Nat) (nz : List α → Bool) (nm : String) (body : List CQ1.Stmt)
    (brs : List (CQ1.Branch α)) :
    CQ1.subSem S n nz ⟨nm, 1, body⟩ brs = CQ1.seqSem (CQ1.stmtSem S n nz) body brs := by
  simp only [CQ1.subSem, CQ1.iterate]
  cases CQ1.seqSem (CQ1.stmtSem S n nz) body brs <;> rfl

theorem subsSem_single (S : CQ1.NumSem α P) (n : Nat) (nz : List α → Bool) (s : CQ1.SubCirc)
    (brs : List (CQ1.Branch α)) : CQ1.subsSem S n nz [s] brs = CQ1.subSem S n nz s brs := by
  simp only [CQ1.subsSem]
  cases CQ1.subSem S n nz s brs <;> rfl

/-- **the assembly**: the sub-circuits parsed from denoting code lines (started in an open sub-circuit with one
iteration) are well formed and mean: what was there, then `dSeq D` -/
theorem parseBody_den (S : CQ1.NumSem α P) (n : Nat) (nz : List α → Bool) {lines : List Text} {D : List (DStmt α)}
    (h : ProgDen S n nz lines D) :
    ∀ (lineNo : Nat) (nm : String) (body : List CQ1.Stmt) (acc : List CQ1.SubCirc),
      CQ1.subsWf n acc = none → (∀ st ∈ body, CQ1.stmtWf n st = none) →
      ∃ subs, CQ1.parseBody lines lineNo (nm, 1, body) acc = .ok subs ∧ CQ1.subsWf n subs = none ∧
        ∀ brs, CQ1.subsSem S n nz subs brs =
          (CQ1.subsSem S n nz (acc ++ [⟨nm, 1, body.reverse⟩]) brs).bind fun x => some (dSeq n nz D x) := by
  induction h with
  | nil =>
    intro lineNo nm body acc hacc hbody
    refine ⟨acc ++ [⟨nm, 1, body.reverse⟩], rfl, ?_, ?_⟩
    · exact subsWf_append n _ _ hacc (subsWf_single n nm 1 _ (fun st hst => hbody st (by simpa using hst)))
    · intro brs
      cases CQ1.subsSem S n nz (acc ++ [⟨nm, 1, body.reverse⟩]) brs <;> simp [dSeq]
  | stmt l ls D Ds hl _ ih =>
    intro lineNo nm body acc hacc hbody
    obtain ⟨hhead, st, hst, hwf, hden⟩ := hl
    obtain ⟨subs, hsubs, hwfs, hsem⟩ := ih (lineNo + 1) nm (st :: body) acc hacc (by
      intro x hx
      rcases List.mem_cons.mp hx with rfl | hx
      · exact hwf
      · exact hbody x hx)
    refine ⟨subs, ?_, hwfs, ?_⟩
    · rw [parseBody_cons_stmt l _ lineNo nm 1 body acc st hhead hst]; exact hsubs
    · intro brs
      rw [hsem brs, subsSem_append, subsSem_append]
      cases CQ1.subsSem S n nz acc brs with
      | none => rfl
      | some x =>
        simp only [Option.bind_some, subsSem_single, subSem_one, List.reverse_cons, seqSem_append]
        cases CQ1.seqSem (CQ1.stmtSem S n nz) body.reverse x with
        | none => rfl
        | some y =>
          have := seqSem_den (CQ1.stmtSem S n nz) n nz [st] [D] (List.Forall₂.cons hden List.Forall₂.nil) y
          simp only [List.flatten_cons, List.flatten_nil, List.append_nil] at this
          simp only [Option.bind_some, this, dSeq_append]
  | loop hdr e nm0 nm' k body rest Dbs Dr h1 h2 h4 h5 h6 _ ih =>
    intro lineNo nm b0 acc hacc hbody
    have hacc' : CQ1.subsWf n (acc ++ [⟨nm, 1, b0.reverse⟩]) = none :=
      subsWf_append n _ _ hacc (subsWf_single n nm 1 _ (fun st hst => hbody st (by simpa using hst)))
    obtain ⟨sts, lineNo', e1, hf, hw⟩ := parseBody_stmts S n nz body Dbs h4 (e :: rest) (lineNo + 1) nm0 k []
      (acc ++ [⟨nm, 1, b0.reverse⟩])
    have hacc'' : CQ1.subsWf n ((acc ++ [⟨nm, 1, b0.reverse⟩]) ++ [⟨nm0, k, sts⟩]) = none := by
      apply subsWf_append n _ _ hacc'
      unfold CQ1.subsWf
      apply firstSome_none
      intro s hs; simp at hs; subst hs
      exact firstSome_none _ _ hw
    obtain ⟨subs, hsubs, hwfs, hsem⟩ := ih (lineNo' + 1) nm' [] _ hacc'' (by simp)
    refine ⟨subs, ?_, hwfs, ?_⟩
    · rw [parseBody_cons_hdr hdr _ lineNo nm 1 b0 acc nm0 k h1 h2, e1,
        parseBody_cons_hdr e rest lineNo' nm0 k _ _ nm' 1 h5 h6]
      simpa using hsubs
    · intro brs
      rw [hsem brs, subsSem_append, subsSem_append]
      cases CQ1.subsSem S n nz (acc ++ [⟨nm, 1, b0.reverse⟩]) brs with
      | none => rfl
      | some x =>
        have hbodysem : ∀ y, CQ1.seqSem (CQ1.stmtSem S n nz) sts y = some (dSeq n nz Dbs.flatten y) :=
          seqSem_den (CQ1.stmtSem S n nz) n nz sts Dbs hf
        have hit := iterate_den n nz (CQ1.seqSem (CQ1.stmtSem S n nz) sts) Dbs.flatten hbodysem k x
        simp only [Option.bind_some, subsSem_single, subSem_one, List.reverse_nil, CQ1.seqSem, CQ1.subSem, hit,
          dSeq_append]
        rfl

/-- the declarations `version 1.0`, `qubits n`, then the body (the proof of `parseProgram_ok`, for a given result) -/
theorem parseProgram_of_body (n : Nat) (rest : Text) (subs : List CQ1.SubCirc)
    (hsubs : CQ1.parseBody (CQ1.codeLines rest) 2 ("default", 1, []) [] = .ok subs) :
    CQ1.parseProgram ("version 1.0".toList ++ '\n' :: (("qubits ".toList ++ natText n) ++ '\n' :: rest)) = .ok ⟨n, subs⟩ := by
  have hq1 : ∀ c ∈ "qubits ".toList ++ natText n, c ≠ '#' ∧ c ≠ '\n' := by
    intro c hc
    rcases List.mem_append.mp hc with h | h
    · clear hc; revert c; decide
    · have := natText_digits n c h
      refine ⟨?_, ?_⟩ <;> (intro e; subst e; revert this; decide)
  have hq2 : CQ1.trim ("qubits ".toList ++ natText n) = "qubits ".toList ++ natText n := by
    apply trim_id
    · intro c hc; simp at hc; subst hc; decide
    · intro c hc
      rw [getLast?_append_ne _ _ (natText_ne_nil n)] at hc
      have := natText_digits n c (List.mem_of_getLast? hc)
      cases hb : CQ1.isBlank c with
      | false => rfl
      | true =>
        simp only [CQ1.isBlank, Bool.or_eq_true, beq_iff_eq] at hb
        rcases hb with (rfl | rfl) | rfl <;> revert this <;> decide
  have hlines : CQ1.codeLines ("version 1.0".toList ++ '\n' :: (("qubits ".toList ++ natText n) ++ '\n' :: rest)) =
      "version 1.0".toList :: ("qubits ".toList ++ natText n) :: CQ1.codeLines rest := by
    rw [codeLines_append, codeLines_append, codeLines_single _ (by simp) hq2 hq1]
    have : CQ1.codeLines "version 1.0".toList = ["version 1.0".toList] := by decide
    rw [this]; rfl
  unfold CQ1.parseProgram
  rw [hlines]
  have hv : CQ1.words "version 1.0".toList = ["version".toList, "1.0".toList] := by decide
  have hd : (natText n).all CQ1.isDigit = true := by
    rw [List.all_eq_true]; exact natText_digits n
  have hne : (natText n).isEmpty = false := by
    cases h : natText n with
    | nil => exact absurd h (natText_ne_nil n)
    | cons _ _ => rfl
  simp only [hv, words_qubits]
  rw [if_neg (by intro hx; exact hx rfl)]
  have hc2 : (decide ("qubits".toList ≠ "qubits".toList) || List.isEmpty (natText n) ||
      !List.all (natText n) CQ1.isDigit) = false := by
    rw [hne, hd]; rfl
  rw [hc2, if_neg (by decide), hsubs, natOfDigits_natText]

/-- **the assembled program**: a program text whose body lines denote `D` parses into a well-formed program over `n`
qubits whose meaning from `|0…0⟩` is `dSeq D` -/
theorem parseProgram_den (S : CQ1.NumSem α P) (n : Nat) (hn : 0 < n) (nz : List α → Bool) (rest : Text)
    (D : List (DStmt α)) (h : ProgDen S n nz (CQ1.codeLines rest) D) :
    ∃ p, CQ1.parseProgram ("version 1.0".toList ++ '\n' :: (("qubits ".toList ++ natText n) ++ '\n' :: rest)) = .ok p ∧
      p.nq = n ∧ CQ1.programWf p = none ∧
      CQ1.programSem S nz p = some (dSeq n nz D (CQ1.initial n)) := by
  obtain ⟨subs, hsubs, hwf, hsem⟩ := parseBody_den S n nz h 2 "default" [] [] rfl (by simp)
  refine ⟨⟨n, subs⟩, parseProgram_of_body n rest subs hsubs, rfl, ?_, ?_⟩
  · unfold CQ1.programWf
    have : n ≠ 0 := by omega
    simp [this, hwf]
  · unfold CQ1.programSem
    rw [hsem]
    simp [CQ1.subsSem, CQ1.subSem, CQ1.iterate, CQ1.seqSem]

end Q1t.Proofs.CQasm

import Q1t.Proofs.CQasmLines
set_option linter.unusedSimpArgs false
/-!
C12 (`cq_wellformed_partial`), part 4: bundles, sub-circuit headers, good lines, and: a text all of whose lines are
good parses (`Spec/CQ1.parseBody`, `parseProgram`) into a program without a well-formedness problem.
-/
namespace Q1t.Proofs.CQasm
open Q1t Q1t.CQ

/-! ### padding -/

theorem trim_pad (s : Text) (h1 : ∀ c, s.head? = some c → CQ1.isBlank c = false)
    (h2 : ∀ c, s.getLast? = some c → CQ1.isBlank c = false) (hne : s ≠ []) :
    CQ1.trim (' ' :: (s ++ [' '])) = s := by
  rw [trim_cons_blank ' ' _ (by decide)]
  unfold CQ1.trim
  have e1 : (s ++ [' ']).dropWhile CQ1.isBlank = s ++ [' '] := by
    apply dropWhile_blank_of_head
    intro c hc
    cases s with
    | nil => exact absurd rfl hne
    | cons x xs => simp at hc; subst hc; exact h1 x rfl
  rw [e1, List.reverse_append]
  have e2 : ([' '].reverse ++ s.reverse).dropWhile CQ1.isBlank = s.reverse := by
    show (' ' :: s.reverse).dropWhile CQ1.isBlank = s.reverse
    rw [List.dropWhile_cons_of_pos (by decide)]
    apply dropWhile_blank_of_head
    intro c hc
    rw [List.head?_reverse] at hc
    exact h2 c hc
  rw [e2, List.reverse_reverse]

/-! ### bundles -/

/-- `{ a | b }` for two printed instructions -/
theorem parseStmt_bundle (a b : Text) (ia ib : CQ1.Instr)
    (ha : CQ1.parseInstr a = .ok ia) (hb : CQ1.parseInstr b = .ok ib)
    (hac : ∀ c ∈ a, c ≠ '|' ∧ c ≠ '{' ∧ c ≠ '}') (hbc : ∀ c ∈ b, c ≠ '|' ∧ c ≠ '{' ∧ c ≠ '}')
    (ha1 : ∀ c, a.head? = some c → CQ1.isBlank c = false) (ha2 : ∀ c, a.getLast? = some c → CQ1.isBlank c = false)
    (hb1 : ∀ c, b.head? = some c → CQ1.isBlank c = false) (hb2 : ∀ c, b.getLast? = some c → CQ1.isBlank c = false)
    (hane : a ≠ []) (hbne : b ≠ []) :
    CQ1.parseStmt ("{ ".toList ++ a ++ " | ".toList ++ b ++ " }".toList) = .ok (.bundle [ia, ib]) := by
  have eB : "{ ".toList ++ a ++ " | ".toList ++ b ++ " }".toList =
      '{' :: ((' ' :: (a ++ [' '])) ++ '|' :: (' ' :: (b ++ [' '])) ++ ['}']) := by simp
  rw [eB]
  unfold CQ1.parseStmt
  have htrim : CQ1.trim ('{' :: ((' ' :: (a ++ [' '])) ++ '|' :: (' ' :: (b ++ [' '])) ++ ['}'])) =
      '{' :: ((' ' :: (a ++ [' '])) ++ '|' :: (' ' :: (b ++ [' '])) ++ ['}']) := by
    apply trim_id
    · intro c hc; simp at hc; subst hc; decide
    · intro c hc
      have e : '{' :: ((' ' :: (a ++ [' '])) ++ '|' :: (' ' :: (b ++ [' '])) ++ ['}']) =
          ('{' :: ((' ' :: (a ++ [' '])) ++ '|' :: (' ' :: (b ++ [' '])))) ++ ['}'] := by simp
      rw [e, List.getLast?_concat] at hc; injection hc with hc; subst hc; decide
  simp only [htrim]
  have hlast : ((' ' :: (a ++ [' '])) ++ '|' :: (' ' :: (b ++ [' '])) ++ ['}']).getLast? = some '}' := by
    have e : (' ' :: (a ++ [' '])) ++ '|' :: (' ' :: (b ++ [' '])) ++ ['}'] =
        ((' ' :: (a ++ [' '])) ++ '|' :: (' ' :: (b ++ [' ']))) ++ ['}'] := by simp
    rw [e, List.getLast?_concat]
  have hdl : ((' ' :: (a ++ [' '])) ++ '|' :: (' ' :: (b ++ [' '])) ++ ['}']).dropLast =
      (' ' :: (a ++ [' '])) ++ '|' :: (' ' :: (b ++ [' '])) := by
    rw [List.dropLast_append_of_ne_nil (by simp)]; simp
  simp only [hlast, hdl, ne_eq, not_true_eq_false, if_false]
  have hnb1 : ¬ '{' ∈ (' ' :: (a ++ [' '])) ++ '|' :: (' ' :: (b ++ [' '])) := by
    simp; refine ⟨fun h => (hac _ h).2.1 rfl, fun h => (hbc _ h).2.1 rfl⟩
  have hnb2 : ¬ '}' ∈ (' ' :: (a ++ [' '])) ++ '|' :: (' ' :: (b ++ [' '])) := by
    simp; refine ⟨fun h => (hac _ h).2.2 rfl, fun h => (hbc _ h).2.2 rfl⟩
  have hsplit : CQ1.splitOnChar '|' ((' ' :: (a ++ [' '])) ++ '|' :: (' ' :: (b ++ [' ']))) =
      [' ' :: (a ++ [' ']), ' ' :: (b ++ [' '])] := by
    rw [splitOnChar_append '|' _ _ (by
      intro x hx; simp at hx
      rcases hx with rfl | hx | rfl
      · decide
      · exact (hac x hx).1
      · decide)]
    rw [splitOnChar_none '|' _ (by
      intro x hx; simp at hx
      rcases hx with rfl | hx | rfl
      · decide
      · exact (hbc x hx).1
      · decide)]
  simp only [List.contains_eq_mem, hnb1, hnb2, decide_false, Bool.or_self, Bool.false_eq_true, if_false, hsplit,
    List.map_cons, List.map_nil, trim_pad a ha1 ha2 hane, trim_pad b hb1 hb2 hbne]
  have e1 : a.isEmpty = false := by cases a with | nil => exact absurd rfl hane | cons _ _ => rfl
  have e2 : b.isEmpty = false := by cases b with | nil => exact absurd rfl hbne | cons _ _ => rfl
  simp [e1, e2, CQ1.mapExcept, ha, hb]

/-! ### sub-circuit headers -/

def labelOK (label : Text) : Bool :=
  !label.isEmpty && label.all CQ1.isIdChar && (label.head?.map CQ1.isIdStart).getD false

theorem takeWhile_append_stop {p : Char → Bool} (a : Text) (x : Char) (r : Text) (ha : ∀ c ∈ a, p c = true)
    (hx : p x = false) : (a ++ x :: r).takeWhile p = a := by
  induction a with
  | nil => simp [List.takeWhile, hx]
  | cons y ys ih => simp [List.takeWhile, ha y (by simp), ih (fun c hc => ha c (by simp [hc]))]

theorem idChar_not_blank {c : Char} (h : CQ1.isIdChar c = true) : CQ1.isBlank c = false := by
  cases hb : CQ1.isBlank c with
  | false => rfl
  | true =>
    simp only [CQ1.isBlank, Bool.or_eq_true, beq_iff_eq] at hb
    rcases hb with (rfl | rfl) | rfl <;> revert h <;> decide

/-- `.label(k)` -/
theorem parseHeader_loop (label : Text) (k : Nat) (hl : labelOK label = true) :
    CQ1.parseHeader ('.' :: (label ++ '(' :: (natText k ++ [')']))) = some (String.ofList label, k) := by
  simp only [labelOK, Bool.and_eq_true, List.all_eq_true] at hl
  obtain ⟨⟨h1, h2⟩, h3⟩ := hl
  have htrim : CQ1.trim ('.' :: (label ++ '(' :: (natText k ++ [')']))) = '.' :: (label ++ '(' :: (natText k ++ [')'])) := by
    apply trim_id
    · intro c hc; simp at hc; subst hc; decide
    · intro c hc
      have : ('.' :: (label ++ '(' :: (natText k ++ [')']))).getLast? = some ')' := by
        have e : '.' :: (label ++ '(' :: (natText k ++ [')'])) = ('.' :: (label ++ '(' :: natText k)) ++ [')'] := by simp
        rw [e, List.getLast?_concat]
      rw [this] at hc; injection hc with hc; subst hc; decide
  unfold CQ1.parseHeader
  simp only [htrim]
  have htw : (label ++ '(' :: (natText k ++ [')'])).takeWhile CQ1.isIdChar = label :=
    takeWhile_append_stop label '(' _ h2 (by decide)
  have hdr : (label ++ '(' :: (natText k ++ [')'])).drop label.length = '(' :: (natText k ++ [')']) := by simp
  have htd : (natText k ++ [')']).takeWhile CQ1.isDigit = natText k :=
    takeWhile_append_stop (natText k) ')' [] (natText_digits k) (by decide)
  have hne : (natText k).isEmpty = false := by
    cases h : natText k with
    | nil => exact absurd h (natText_ne_nil k)
    | cons _ _ => rfl
  have hl0 : label ≠ [] := by intro e; subst e; simp at h1
  simp only [htw, hdr, htd]
  simp [h1, h3, hne, hl0, natOfDigits_natText]

theorem parseHeader_end : CQ1.parseHeader ".end".toList = some ("end", 1) := by decide

/-! ### good lines -/

/-- a line that is a sub-circuit header, or a statement that parses and is well formed on `nq` qubits -/
def LineOK (nq : Nat) (l : Text) : Prop :=
  (l.head? = some '.' ∧ ∃ h, CQ1.parseHeader l = some h) ∨
  (l.head? ≠ some '.' ∧ ∃ st, CQ1.parseStmt l = .ok st ∧ CQ1.stmtWf nq st = none)

/-- every code line of the text is good -/
def LinesOK (nq : Nat) (t : Text) : Prop := ∀ l ∈ CQ1.codeLines t, LineOK nq l

theorem codeLines_append (a b : Text) : CQ1.codeLines (a ++ '\n' :: b) = CQ1.codeLines a ++ CQ1.codeLines b := by
  simp [CQ1.codeLines, splitOnChar_append']

theorem codeLines_nil : CQ1.codeLines [] = [] := by decide

theorem linesOK_nil (nq : Nat) : LinesOK nq [] := by
  intro l hl; rw [codeLines_nil] at hl; cases hl

theorem linesOK_append (nq : Nat) (a b : Text) (ha : LinesOK nq a) (hb : LinesOK nq b) :
    LinesOK nq (a ++ '\n' :: b) := by
  intro l hl
  rw [codeLines_append] at hl
  rcases List.mem_append.mp hl with h | h
  · exact ha l h
  · exact hb l h

theorem linesOK_intercalate (nq : Nat) : ∀ (ts : List Text), (∀ t ∈ ts, LinesOK nq t) →
    LinesOK nq (intercalate ['\n'] ts)
  | [], _ => linesOK_nil nq
  | [t], h => by simpa [intercalate] using h t (by simp)
  | t :: t' :: ts, h => by
    have e : intercalate ['\n'] (t :: t' :: ts) = t ++ '\n' :: intercalate ['\n'] (t' :: ts) := by
      simp [intercalate]
    rw [e]
    exact linesOK_append nq _ _ (h t (by simp)) (linesOK_intercalate nq (t' :: ts) (fun x hx => h x (by simp [hx])))

theorem linesOK_chunks (nq : Nat) : ∀ (cs : List Text), (∀ c ∈ cs, LinesOK nq c) → LinesOK nq (chunksText cs)
  | [], _ => linesOK_nil nq
  | c :: cs, h => by
    have e : chunksText (c :: cs) = c ++ '\n' :: chunksText cs := by simp [chunksText]
    rw [e]
    exact linesOK_append nq _ _ (h c (by simp)) (linesOK_chunks nq cs (fun x hx => h x (by simp [hx])))

/-- a single clean line -/
theorem codeLines_single (l : Text) (hne : l ≠ []) (htrim : CQ1.trim l = l)
    (hch : ∀ c ∈ l, c ≠ '#' ∧ c ≠ '\n') : CQ1.codeLines l = [l] := by
  unfold CQ1.codeLines
  rw [splitOnChar_none '\n' l (fun x hx => (hch x hx).2)]
  have hs : CQ1.stripComment l = l := by
    unfold CQ1.stripComment
    have : ∀ (m : Text), (∀ x ∈ m, x ≠ '#') → m.takeWhile (· != '#') = m := by
      intro m
      induction m with
      | nil => intro _; rfl
      | cons y ys ih =>
        intro h
        have hy : (y != '#') = true := by simp [h y (by simp)]
        simp only [List.takeWhile, hy, ih (fun x hx => h x (by simp [hx]))]
    exact this l (fun x hx => (hch x hx).1)
  have : l.isEmpty = false := by cases l with | nil => exact absurd rfl hne | cons _ _ => rfl
  simp [hs, htrim, this]

theorem linesOK_single (nq : Nat) (l : Text) (hne : l ≠ []) (htrim : CQ1.trim l = l)
    (hch : ∀ c ∈ l, c ≠ '#' ∧ c ≠ '\n') (h : LineOK nq l) : LinesOK nq l := by
  intro x hx
  rw [codeLines_single l hne htrim hch] at hx
  simp at hx; subst hx; exact h

end Q1t.Proofs.CQasm

namespace Q1t.Proofs.CQasm
open Q1t Q1t.CQ

/-! ### from good lines to a well-formed program -/

theorem subsWf_append (nq : Nat) (a b : List CQ1.SubCirc) (ha : CQ1.subsWf nq a = none) (hb : CQ1.subsWf nq b = none) :
    CQ1.subsWf nq (a ++ b) = none := by
  unfold CQ1.subsWf at *
  apply firstSome_none
  intro s hs
  rcases List.mem_append.mp hs with h | h
  · exact firstSome_none_elim _ _ ha s h
  · exact firstSome_none_elim _ _ hb s h

theorem subsWf_single (nq : Nat) (nm : String) (k : Nat) (body : List CQ1.Stmt)
    (h : ∀ st ∈ body, CQ1.stmtWf nq st = none) : CQ1.subsWf nq [⟨nm, k, body⟩] = none := by
  unfold CQ1.subsWf
  apply firstSome_none
  intro s hs; simp at hs; subst hs
  exact firstSome_none _ _ h

theorem parseBody_ok (nq : Nat) : ∀ (lines : List Text) (lineNo : Nat) (nm : String) (k : Nat)
    (body : List CQ1.Stmt) (acc : List CQ1.SubCirc),
    (∀ l ∈ lines, LineOK nq l) → CQ1.subsWf nq acc = none → (∀ st ∈ body, CQ1.stmtWf nq st = none) →
    ∃ subs, CQ1.parseBody lines lineNo (nm, k, body) acc = .ok subs ∧ CQ1.subsWf nq subs = none
  | [], lineNo, nm, k, body, acc, _, hacc, hbody => by
    refine ⟨acc ++ [⟨nm, k, body.reverse⟩], rfl, ?_⟩
    exact subsWf_append nq _ _ hacc (subsWf_single nq nm k _ (fun st hst => hbody st (by simpa using hst)))
  | l :: ls, lineNo, nm, k, body, acc, hl, hacc, hbody => by
    have hrest : ∀ x ∈ ls, LineOK nq x := fun x hx => hl x (by simp [hx])
    have hacc' : CQ1.subsWf nq (acc ++ [⟨nm, k, body.reverse⟩]) = none :=
      subsWf_append nq _ _ hacc (subsWf_single nq nm k _ (fun st hst => hbody st (by simpa using hst)))
    rcases hl l (by simp) with ⟨hhead, ⟨nm', k'⟩, hh⟩ | ⟨hhead, st, hst, hwf⟩
    · cases l with
      | nil => simp at hhead
      | cons c cs =>
        simp at hhead; subst hhead
        unfold CQ1.parseBody
        simp only [hh]
        exact parseBody_ok nq ls (lineNo + 1) nm' k' [] _ hrest hacc' (by simp)
    · unfold CQ1.parseBody
      split
      · rename_i r; simp at hhead
      · simp only [hst]
        exact parseBody_ok nq ls (lineNo + 1) nm k (st :: body) acc hrest hacc (by
          intro x hx
          rcases List.mem_cons.mp hx with rfl | hx
          · exact hwf
          · exact hbody x hx)

theorem parseFragment_ok (nq : Nat) (t : Text) (h : LinesOK nq t) :
    ∃ subs, CQ1.parseFragment t = .ok subs ∧ CQ1.subsWf nq subs = none :=
  parseBody_ok nq _ 0 "default" 1 [] [] h rfl (by simp)

theorem map_blank_id (l : Text) (h : ∀ c ∈ l, c ≠ '\t' ∧ c ≠ '\r') :
    l.map (fun c => if CQ1.isBlank c then ' ' else c) = l := by
  induction l with
  | nil => rfl
  | cons x xs ih =>
    simp only [List.map_cons, ih (fun c hc => h c (by simp [hc]))]
    congr 1
    have := h x (by simp)
    by_cases hx : x = ' '
    · subst hx; rfl
    · simp [CQ1.isBlank, hx, this.1, this.2]

theorem words_qubits (n : Nat) :
    CQ1.words ("qubits ".toList ++ natText n) = ["qubits".toList, natText n] := by
  unfold CQ1.words
  have hd : ∀ c ∈ natText n, c ≠ '\t' ∧ c ≠ '\r' ∧ c ≠ ' ' := by
    intro c hc
    have := natText_digits n c hc
    refine ⟨?_, ?_, ?_⟩ <;> (intro e; subst e; revert this; decide)
  rw [map_blank_id _ (by
    intro c hc
    rcases List.mem_append.mp hc with h | h
    · clear hc; revert c; decide
    · exact ⟨(hd c h).1, (hd c h).2.1⟩)]
  have e : "qubits ".toList ++ natText n = "qubits".toList ++ ' ' :: natText n := by simp
  rw [e, splitOnChar_append ' ' _ _ (by decide), splitOnChar_none ' ' _ (fun c hc => (hd c hc).2.2)]
  have : (natText n).isEmpty = false := by
    cases h : natText n with
    | nil => exact absurd h (natText_ne_nil n)
    | cons _ _ => rfl
  simp [this]

/-- **a program whose body lines are all good parses and is well formed** -/
theorem parseProgram_ok (n : Nat) (hn : 0 < n) (rest : Text) (h : LinesOK n rest) :
    ∃ p, CQ1.parseProgram ("version 1.0".toList ++ '\n' :: (("qubits ".toList ++ natText n) ++ '\n' :: rest)) = .ok p ∧
      p.nq = n ∧ CQ1.programWf p = none := by
  have hq1 : ∀ c ∈ "qubits ".toList ++ natText n, c ≠ '#' ∧ c ≠ '\n' := by
    intro c hc
    rcases List.mem_append.mp hc with h | h
    · clear hc; revert c; decide
    · have := natText_digits n c h
      refine ⟨?_, ?_⟩ <;> (intro e; subst e; revert this; decide)
  have hq2 : CQ1.trim ("qubits ".toList ++ natText n) = "qubits ".toList ++ natText n := by
    apply trim_id
    · intro c hc; simp at hc; subst hc; decide
    · intro c hc
      rw [getLast?_append_ne _ _ (natText_ne_nil n)] at hc
      have := natText_digits n c (List.mem_of_getLast? hc)
      cases hb : CQ1.isBlank c with
      | false => rfl
      | true =>
        simp only [CQ1.isBlank, Bool.or_eq_true, beq_iff_eq] at hb
        rcases hb with (rfl | rfl) | rfl <;> revert this <;> decide
  have hlines : CQ1.codeLines ("version 1.0".toList ++ '\n' :: (("qubits ".toList ++ natText n) ++ '\n' :: rest)) =
      "version 1.0".toList :: ("qubits ".toList ++ natText n) :: CQ1.codeLines rest := by
    rw [codeLines_append, codeLines_append, codeLines_single _ (by simp) hq2 hq1]
    have : CQ1.codeLines "version 1.0".toList = ["version 1.0".toList] := by decide
    rw [this]; rfl
  obtain ⟨subs, hsubs, hwf⟩ := parseBody_ok n (CQ1.codeLines rest) 2 "default" 1 [] [] h rfl (by simp)
  refine ⟨⟨n, subs⟩, ?_, rfl, ?_⟩
  · unfold CQ1.parseProgram
    rw [hlines]
    have hv : CQ1.words "version 1.0".toList = ["version".toList, "1.0".toList] := by decide
    have hd : (natText n).all CQ1.isDigit = true := by
      rw [List.all_eq_true]; exact natText_digits n
    have hne : (natText n).isEmpty = false := by
      cases h : natText n with
      | nil => exact absurd h (natText_ne_nil n)
      | cons _ _ => rfl
    simp only [hv, words_qubits]
    rw [if_neg (by intro hx; exact hx rfl)]
    have hc2 : (decide ("qubits".toList ≠ "qubits".toList) || List.isEmpty (natText n) ||
        !List.all (natText n) CQ1.isDigit) = false := by
      rw [hne, hd]; rfl
    rw [hc2, if_neg (by decide), hsubs, natOfDigits_natText]
  · unfold CQ1.programWf
    have : n ≠ 0 := by omega
    simp [this, hwf]

end Q1t.Proofs.CQasm

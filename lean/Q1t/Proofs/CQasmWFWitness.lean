import Q1t.Proofs.CQasmWF
/-!
C12: non-vacuity of `cq_wellformed_partial` — a number system that satisfies `GoodNum` (one number, printed `1`;
every hole of the generated templates parses with the C14 expression parser), and a circuit of the class.
-/
namespace Q1t.Proofs.CQasm
open Q1t Q1t.CQ Q1t.Gen

/-- one number, printed as `1`; `Expression::eval` always succeeds -/
def unitNum : Num Unit where
  disp := fun _ => ['1']
  addPi := fun x => x
  evalExpr := fun _ => some ()

/-- every evaluated hole of the generated table, with `1` for each parameter, is accepted by the expression parser -/
def tableHolesParse : Bool :=
  cqGates.all fun g => !gateGood g || (slinesOf g).all fun l => l.ops.all fun o =>
    match o with
    | .hole inner => (holeValue unitNum (inner.flatMap (instTok unitNum (fun _ => some ())))).isSome
    | _ => true

theorem tableHolesParse_true : tableHolesParse = true := by decide +kernel

theorem unitNum_good : GoodNum unitNum where
  disp_word := fun _ => (by decide : word ['1'] = true)
  disp_num := fun _ => ⟨⟨false, ['1'], true⟩, (by decide : CQ1.parseArg ['1'] = some (.num ⟨false, ['1'], true⟩))⟩
  holes := by
    intro g hg hgg l hl inner hin ρ hρ
    have h := tableHolesParse_true
    simp only [tableHolesParse, List.all_eq_true, Bool.or_eq_true, Bool.not_eq_true'] at h
    have h1 := (h g hg).resolve_left (by simp [hgg]) l hl (.hole inner) hin
    simp only at h1
    have e : inner.flatMap (instTok unitNum ρ) = inner.flatMap (instTok unitNum (fun _ => some ())) := by
      apply flatMap_congr'
      intro t ht
      cases t with
      | var key =>
        have := hρ key ht
        cases hk : ρ key with
        | none => rw [hk] at this; cases this
        | some u => simp [instTok, hk]
      | lit _ => rfl
      | lb => rfl
      | rb => rfl
    rw [e]
    obtain ⟨t, ht⟩ := Option.isSome_iff_exists.mp h1
    refine ⟨(), ?_⟩
    rw [ht]
    -- whatever evaluates is printed `1`
    simp only [holeValue] at ht
    split at ht
    · simp [unitNum] at ht; rw [← ht]; rfl
    · cases ht

/-- a circuit of the class: parametrised templates, a conditional multi-line gate on a permuted control list, a bundle,
a loop around a composite, a conditional loop, `measure_all` in X, resets -/
def soundSample : XCircuit Unit :=
  ⟨3, 3, [.gate (.lib "H" []) [0], .gate (.lib "CRX" [.direct ()]) [2, 0], .gate (.lib "CU3" [.direct (), .direct (), .direct ()]) [0, 1],
    .measure 1 1 .Y, .cond [1, 0] 2 (.lib "CCRY" [.direct ()]) [2, 1, 0],
    .gate (.kron (.lib "CU1" [.direct ()]) (.lib "V" [])) [1, 2, 0],
    .gate (.loop "rep".toList 3 "body" 2 (.cons (.comp "c" 1 (.cons (.lib "T" []) [0] .nil)) [1] (.cons (.lib "CY" []) [1, 0] .nil))) [0, 2],
    .cond [2] 1 (.loop "l".toList 2 "b" 1 (.cons (.lib "RZ" [.direct ()]) [0] .nil)) [1],
    .measureAll [0, 1, 2] .X, .reset 0, .resetAll, .barrier [0]]⟩

end Q1t.Proofs.CQasm

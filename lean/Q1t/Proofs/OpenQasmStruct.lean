import Q1t.Model.OpenQasmTable
import Q1t.Spec.OQ2Link
/-!
Structure of the exporter's model (C11): the export is the header followed by the translations of the
operations in order, or the first error; what is refused; the program semantics is a fold over statements.
Core Lean only.
-/
namespace Q1t.OpenQasm
open Q1t.Spec.OQ2

variable {P : Type}

/-! ## first failure wins -/

/-- evaluate in order; the first non-`ok` result is the result -/
def sequenceRes {α} : List (Res α) → Res (List α)
  | [] => .ok []
  | r :: rs => r.bind fun a => (sequenceRes rs).bind fun as => .ok (a :: as)

theorem sequenceRes_ok_iff {α} (rs : List (Res α)) (as : List α) :
    sequenceRes rs = .ok as ↔ rs = as.map Res.ok := by
  induction rs generalizing as with
  | nil => cases as <;> simp [sequenceRes]
  | cons r rs ih =>
    cases r with
    | ok a =>
      cases h : sequenceRes rs with
      | ok as' =>
        have := (ih as').1 h
        cases as with
        | nil => simp [sequenceRes, h, Res.bind]
        | cons b bs =>
          simp only [sequenceRes, h, Res.bind_ok, List.map_cons, List.cons.injEq, Res.ok.injEq]
          constructor
          · rintro ⟨rfl, rfl⟩; exact ⟨rfl, this⟩
          · rintro ⟨rfl, h2⟩
            refine ⟨rfl, ?_⟩
            have h3 := (ih bs).2 h2
            rw [h] at h3; cases h3; rfl
      | err e =>
        cases as with
        | nil => simp [sequenceRes, h, Res.bind]
        | cons b bs =>
          simp only [sequenceRes, h, Res.bind_ok, Res.bind_err, List.map_cons, List.cons.injEq, Res.ok.injEq]
          constructor
          · intro h'; cases h'
          · rintro ⟨_, h2⟩
            have h3 := (ih bs).2 h2
            rw [h] at h3; cases h3
      | panic =>
        cases as with
        | nil => simp [sequenceRes, h, Res.bind]
        | cons b bs =>
          simp only [sequenceRes, h, Res.bind_ok, Res.bind_panic, List.map_cons, List.cons.injEq, Res.ok.injEq]
          constructor
          · intro h'; cases h'
          · rintro ⟨_, h2⟩
            have h3 := (ih bs).2 h2
            rw [h] at h3; cases h3
    | err e => cases as <;> simp [sequenceRes, Res.bind]
    | panic => cases as <;> simp [sequenceRes, Res.bind]

/-- the result of a sequence whose prefix succeeds and whose next element fails is that failure -/
theorem sequenceRes_first_failure {α} (pre : List α) (r : Res α) (post : List (Res α))
    (hr : ∀ a, r ≠ .ok a) :
    sequenceRes (pre.map Res.ok ++ r :: post) = r.bind fun _ => .ok [] := by
  induction pre with
  | nil =>
    cases r with
    | ok a => exact absurd rfl (hr a)
    | err e => rfl
    | panic => rfl
  | cons a pre ih =>
    simp only [List.map_cons, List.cons_append, sequenceRes, Res.bind_ok, ih]
    cases r with
    | ok a => exact absurd rfl (hr a)
    | err e => rfl
    | panic => rfl

/-! ## `export_structure` -/

theorem exportLoop_eq (tbl : List GateTpl) (nq nc : Nat) (ops : List (QOp P)) (res : List (Line P)) :
    exportLoop tbl nq nc ops res =
      (sequenceRes (ops.map (exportOp tbl nq nc))).bind fun ls => .ok (res ++ ls.flatten) := by
  induction ops generalizing res with
  | nil => simp [exportLoop, sequenceRes]
  | cons op ops ih =>
    simp only [exportLoop, List.map_cons, sequenceRes]
    cases h : exportOp tbl nq nc op with
    | ok l =>
      simp only [Res.bind_ok, ih]
      cases sequenceRes (ops.map (exportOp tbl nq nc)) with
      | ok ls => simp [List.append_assoc]
      | err e => rfl
      | panic => rfl
    | err e => rfl
    | panic => rfl

/-- `Circuit::open_qasm` is the header followed by the translations of the operations in order — or the
first error / panic met while translating them in order. -/
theorem exportCircuit_eq (tbl : List GateTpl) (c : QCircuit P) :
    exportCircuit tbl c =
      (sequenceRes (c.ops.map (exportOp tbl c.nq c.nc))).bind fun ls =>
        .ok (header c.nq c.nc ++ ls.flatten) :=
  exportLoop_eq tbl c.nq c.nc c.ops _

/-- success: every operation was translated, and the program is the header and the translations in order -/
theorem exportCircuit_ok_iff (tbl : List GateTpl) (c : QCircuit P) (ls : List (Line P)) :
    exportCircuit tbl c = .ok ls ↔
      ∃ per : List (List (Line P)), c.ops.map (exportOp tbl c.nq c.nc) = per.map Res.ok ∧
        ls = header c.nq c.nc ++ per.flatten := by
  rw [exportCircuit_eq]
  constructor
  · intro h
    cases hs : sequenceRes (c.ops.map (exportOp tbl c.nq c.nc)) with
    | ok per =>
      rw [hs] at h
      simp only [Res.bind_ok, Res.ok.injEq] at h
      exact ⟨per, (sequenceRes_ok_iff _ _).1 hs, h.symm⟩
    | err e => rw [hs] at h; cases h
    | panic => rw [hs] at h; cases h
  · rintro ⟨per, h1, rfl⟩
    rw [(sequenceRes_ok_iff _ _).2 h1]; rfl

/-- failure: if the operations before `op` are translated and `op` is not, the export is `op`'s failure -/
theorem exportCircuit_first_failure (tbl : List GateTpl) (nq nc : Nat) (pre : List (QOp P)) (op : QOp P)
    (post : List (QOp P)) (hpre : ∀ o ∈ pre, ∃ l, exportOp tbl nq nc o = .ok l)
    (hop : ∀ l, exportOp tbl nq nc op ≠ .ok l) :
    exportCircuit tbl ⟨nq, nc, pre ++ op :: post⟩ = (exportOp tbl nq nc op).bind fun _ => .ok [] := by
  rw [exportCircuit_eq]
  simp only [List.map_append, List.map_cons]
  have hp : ∃ ls : List (List (Line P)), pre.map (exportOp tbl nq nc) = ls.map Res.ok := by
    induction pre with
    | nil => exact ⟨[], rfl⟩
    | cons o pre ih =>
      obtain ⟨l, hl⟩ := hpre o (List.mem_cons_self ..)
      obtain ⟨ls, hls⟩ := ih fun o' ho' => hpre o' (List.mem_cons_of_mem _ ho')
      exact ⟨l :: ls, by simp [hl, hls]⟩
  obtain ⟨ls, hls⟩ := hp
  rw [hls, sequenceRes_first_failure ls _ _ hop]
  cases h : exportOp tbl nq nc op with
  | ok l => exact absurd h (hop l)
  | err e => rfl
  | panic => rfl

/-! ## `export_refuses` -/

theorem exportOp_peek (tbl : List GateTpl) (nq nc q c : Nat) (b : Sim.Basis) :
    exportOp (P := P) tbl nq nc (.peek q c b) = .err .peekInvalid := rfl

theorem exportOp_peekAll (tbl : List GateTpl) (nq nc : Nat) (cbits : List Nat) (b : Sim.Basis) :
    exportOp (P := P) tbl nq nc (.peekAll cbits b) = .err .peekInvalid := rfl

/-- a non-empty control list that is not a permutation of the whole classical register -/
theorem exportOp_cond_partial (tbl : List GateTpl) (nq nc : Nat) (control : List Nat) (target : Nat)
    (g : QGate P) (bits : List Nat) (h1 : control ≠ []) (h2 : isFullRegister nc control = false) :
    exportOp tbl nq nc (.cond control target g bits) = .err .incompleteConditionRegister := by
  cases control with
  | nil => exact absurd rfl h1
  | cons x xs => simp [exportOp, h2]

/-- the generic `C<G>` has no translation, conditional or not, wherever it is placed -/
theorem exportGate_ctrl (tbl : List GateTpl) (names : List QRef) (cond : Option Nat) (g : QGate P)
    (bits : List Nat) : exportGate tbl names cond (.ctrl g) bits = .err .notImplemented := by
  simp [exportGate]

/-- a gate the table does not know (any user gate with the trait defaults) has no translation -/
theorem exportGate_unknown (tbl : List GateTpl) (names : List QRef) (cond : Option Nat) (name : String)
    (ps : List (QParam P)) (bits : List Nat) (h : lookupTpl tbl name = none) :
    exportGate tbl names cond (.lib name ps) bits = .err .notImplemented := by
  simp [exportGate, h]

mutual
/-- every leaf the exporter reaches has a translation (a loop that is executed 0 times is not entered) -/
def QGate.translatable (tbl : List GateTpl) : QGate P → Bool
  | .lib name _ => (lookupTpl tbl name).isSome
  | .ctrl _ => false
  | .kron a b => a.translatable tbl && b.translatable tbl
  | .composite _ _ ops => ops.translatable tbl
  | .loop _ iters _ _ body => iters == 0 || body.translatable tbl
def QOps.translatable (tbl : List GateTpl) : QOps P → Bool
  | .nil => true
  | .cons g _ rest => g.translatable tbl && rest.translatable tbl
end

theorem Res.bind_eq_ok {α β} {r : Res α} {f : α → Res β} {b : β} :
    r.bind f = .ok b ↔ ∃ a, r = .ok a ∧ f a = .ok b := by
  cases r <;> simp [Res.bind]

mutual
/-- a successful translation never met a gate without a translation -/
theorem exportGate_ok_translatable (tbl : List GateTpl) (names : List QRef) (cond : Option Nat) :
    ∀ (g : QGate P) (bits : List Nat) (cs : List (Chunk P)),
      exportGate tbl names cond g bits = .ok cs → g.translatable tbl = true
  | .lib name ps, bits, cs, h => by
    unfold exportGate at h
    cases hl : lookupTpl tbl name with
    | none => rw [hl] at h; cases h
    | some t => simp [QGate.translatable, hl]
  | .ctrl g, bits, cs, h => by simp [exportGate] at h
  | .kron g0 g1, bits, cs, h => by
    unfold exportGate at h
    simp only at h
    split at h
    · cases h
    · obtain ⟨a, ha, h⟩ := Res.bind_eq_ok.1 h
      obtain ⟨b, hb, _⟩ := Res.bind_eq_ok.1 h
      simp [QGate.translatable, exportGate_ok_translatable tbl names cond g0 _ _ ha,
        exportGate_ok_translatable tbl names cond g1 _ _ hb]
  | .composite _ _ ops, bits, cs, h => by
    unfold exportGate at h
    cases ops with
    | nil => simp [QGate.translatable, QOps.translatable]
    | cons g sub rest =>
      simp only at h
      simp only [QGate.translatable]
      exact exportOps_ok_translatable tbl names cond _ _ _ h
  | .loop _ iters _ _ body, bits, cs, h => by
    unfold exportGate at h
    by_cases hi : iters = 0
    · simp [QGate.translatable, hi]
    · simp only [hi, if_false] at h
      cases body with
      | nil => simp [QGate.translatable, QOps.translatable]
      | cons g sub rest =>
        simp only at h
        obtain ⟨b, hb, _⟩ := Res.bind_eq_ok.1 h
        simp only [QGate.translatable, Bool.or_eq_true]
        exact Or.inr (exportOps_ok_translatable tbl names cond _ _ _ hb)
theorem exportOps_ok_translatable (tbl : List GateTpl) (names : List QRef) (cond : Option Nat) :
    ∀ (ops : QOps P) (bits : List Nat) (cs : List (Chunk P)),
      exportOps tbl names cond ops bits = .ok cs → ops.translatable tbl = true
  | .nil, _, _, _ => rfl
  | .cons g sub rest, bits, cs, h => by
    unfold exportOps at h
    cases hm : sub.mapM (fun b => bits[b]?) with
    | none => rw [hm] at h; cases h
    | some gateBits =>
      rw [hm] at h
      simp only at h
      obtain ⟨a, ha, h⟩ := Res.bind_eq_ok.1 h
      obtain ⟨b, hb, _⟩ := Res.bind_eq_ok.1 h
      simp [QOps.translatable, exportGate_ok_translatable tbl names cond g _ _ ha,
        exportOps_ok_translatable tbl names cond rest _ _ hb]
end

/-- what OpenQASM cannot express does not occur in a circuit whose export succeeds -/
def QOp.expressible (tbl : List GateTpl) (nc : Nat) : QOp P → Bool
  | .peek _ _ _ | .peekAll _ _ => false
  | .gate g _ => g.translatable tbl
  | .cond control _ g _ => (control.isEmpty || isFullRegister nc control) && g.translatable tbl
  | _ => true

theorem Res.map_eq_ok {α β} {r : Res α} {f : α → β} {b : β} :
    r.map f = .ok b ↔ ∃ a, r = .ok a ∧ f a = b := by
  cases r <;> simp [Res.map, Res.bind]

theorem exportOp_ok_expressible (tbl : List GateTpl) (nq nc : Nat) (op : QOp P) (ls : List (Line P))
    (h : exportOp tbl nq nc op = .ok ls) : op.expressible tbl nc = true := by
  cases op with
  | gate g bits =>
    obtain ⟨cs, hcs, _⟩ := Res.map_eq_ok.1 h
    exact exportGate_ok_translatable tbl _ _ g bits cs hcs
  | cond control target g bits =>
    simp only [exportOp] at h
    by_cases hc : control.isEmpty = true
    · simp only [hc, if_true] at h
      obtain ⟨cs, hcs, _⟩ := Res.map_eq_ok.1 h
      simp [QOp.expressible, hc, exportGate_ok_translatable tbl _ _ g bits cs hcs]
    · simp only [hc] at h
      by_cases hf : isFullRegister nc control = true
      · simp only [hf, Bool.not_true] at h
        cases hk : conditionWord control target with
        | none => simp [hk] at h
        | some k =>
          simp only [hk] at h
          have h' : (exportGate tbl (qbitNames nq) (some k) g bits).map gateLines = .ok ls := by simpa using h
          obtain ⟨cs, hcs, _⟩ := Res.map_eq_ok.1 h'
          simp [QOp.expressible, hf, exportGate_ok_translatable tbl _ _ g bits cs hcs]
      · simp [hf] at h
  | peek q c b => cases h
  | peekAll cbits b => cases h
  | reset q => rfl
  | resetAll => rfl
  | measure q c b => rfl
  | measureAll cbits b => rfl
  | barrier bits => rfl

theorem exportCircuit_ok_expressible (tbl : List GateTpl) (c : QCircuit P) (ls : List (Line P))
    (h : exportCircuit tbl c = .ok ls) : ∀ op ∈ c.ops, op.expressible tbl c.nc = true := by
  obtain ⟨per, hper, _⟩ := (exportCircuit_ok_iff tbl c ls).1 h
  intro op hop
  have : exportOp tbl c.nq c.nc op ∈ c.ops.map (exportOp tbl c.nq c.nc) := List.mem_map_of_mem hop
  rw [hper] at this
  obtain ⟨l, _, hl⟩ := List.mem_map.1 this
  exact exportOp_ok_expressible tbl c.nq c.nc op l hl.symm

/-! ## the program semantics is a fold over statements -/

section run
variable {α : Type} [Zero α] [One α] [Add α] [Mul α] [Neg α] [Sub α] [Amp α P] [Angle P]

omit [Sub α] in
theorem runStmts_append (n : Nat) (rg : Regs) (nonzero : List α → Bool) (s1 s2 : List Stmt)
    (brs : List (Branch α)) :
    runStmts (P := P) n rg nonzero (s1 ++ s2) brs =
      (runStmts (P := P) n rg nonzero s1 brs).bind (runStmts (P := P) n rg nonzero s2) := by
  induction s1 generalizing brs with
  | nil => simp [runStmts]
  | cons s ss ih =>
    simp only [List.cons_append, runStmts]
    cases brs.mapM (runStmt (P := P) n rg nonzero s) with
    | none => rfl
    | some l => simp [ih]

end run

end Q1t.OpenQasm

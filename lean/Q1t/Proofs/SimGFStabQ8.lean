import Mathlib.Algebra.Order.Ring.Rat
import Mathlib.Tactic.Linarith
import Mathlib.Tactic.Positivity
import Q1t.Proofs.TableauProgress
import Q1t.Proofs.TableauContractQ8
import Q1t.Proofs.SimGFStab
/-!
C01: the law on the stabilizer backend for the GENERATED tables (`Gen.phaseTable`, `Gen.conjTable`) over the exact
field `Q8 = ℚ(ζ₈)`, all `n`: `StabHyps` is discharged by C03 (`TabG.stabHyps`) relative to `DetShapeHolds`; the
positivity of the squared norm over `Q8` is proved here (`q8_pos`: the rational part of `x·x̄` is
`a² + b² + c² + d²`), and `½ + ½ = 1` is a computation.
-/
namespace Q1t.Sim.SimGF
open Q1t Q1t.Sim Q1t.Sim.Prog Q1t.Proofs.TabG

theorem q8_normSq_a (x : Q8) : (SimAmp.normSq x).a = x.a * x.a + x.b * x.b + x.c * x.c + x.d * x.d := by
  show x.a * x.a - x.b * (-x.b) - x.c * (-x.c) - x.d * (-x.d) = _
  ring

theorem q8_sum_a : ∀ l : List Q8, l.sum.a = (l.map (·.a)).sum
  | [] => rfl
  | x :: l => by
    rw [List.sum_cons, List.map_cons, List.sum_cons, ← q8_sum_a l]; rfl

/-- **positivity of the squared norm over ℚ(ζ₈)** -/
theorem q8_pos : ∀ v : List Q8, normSqSum v = 0 → ∀ x ∈ v, x = 0 := by
  intro v hv
  have ha : ((v.map SimAmp.normSq).map (·.a)).sum = 0 := by
    rw [← q8_sum_a]; exact congrArg Q8.a hv
  clear hv
  induction v with
  | nil => intro x hx; simp at hx
  | cons y v ih =>
    simp only [List.map_cons, List.sum_cons, q8_normSq_a] at ha
    have hnn : 0 ≤ ((v.map SimAmp.normSq).map (·.a)).sum := by
      apply List.sum_nonneg
      intro r hr
      simp only [List.mem_map] at hr
      obtain ⟨z, ⟨w, _, rfl⟩, rfl⟩ := hr
      rw [q8_normSq_a]
      have := mul_self_nonneg w.a; have := mul_self_nonneg w.b; have := mul_self_nonneg w.c
      have := mul_self_nonneg w.d; linarith
    have h1 : y.a * y.a + y.b * y.b + y.c * y.c + y.d * y.d = 0 := by
      have := mul_self_nonneg y.a; have := mul_self_nonneg y.b; have := mul_self_nonneg y.c
      have := mul_self_nonneg y.d; linarith
    have h2 : ((v.map SimAmp.normSq).map (·.a)).sum = 0 := by linarith
    have za : y.a = 0 := by nlinarith [mul_self_nonneg y.a, mul_self_nonneg y.b, mul_self_nonneg y.c, mul_self_nonneg y.d]
    have zb : y.b = 0 := by nlinarith [mul_self_nonneg y.a, mul_self_nonneg y.b, mul_self_nonneg y.c, mul_self_nonneg y.d]
    have zc : y.c = 0 := by nlinarith [mul_self_nonneg y.a, mul_self_nonneg y.b, mul_self_nonneg y.c, mul_self_nonneg y.d]
    have zd : y.d = 0 := by nlinarith [mul_self_nonneg y.a, mul_self_nonneg y.b, mul_self_nonneg y.c, mul_self_nonneg y.d]
    intro x hx
    rcases List.mem_cons.mp hx with rfl | hx
    · cases x; simp only at za zb zc zd; subst za zb zc zd; rfl
    · exact ih h2 x hx

/-- `½` -/
def q8half : Q8 := ⟨1/2, 0, 0, 0⟩
theorem q8half_add : q8half + q8half = 1 := by decide +kernel

/-- `StabHyps` for the generated tables over `Q8`, all `n`, relative to `DetShapeHolds` only -/
theorem stabHyps_generated (n : Nat)
    (hD : DetShapeHolds (α := Q8) (A := Empty) n Q1t.Gen.phaseTable Q1t.Gen.conjTable Q1t.Gen.conjNoArityCheck) :
    StabHyps Q8 Empty Q1t.Sim.Demo.nzQ8
      (Reach (A := Empty) Q8 n Q1t.Gen.phaseTable Q1t.Gen.conjTable Q1t.Gen.conjNoArityCheck) n q8half
      Q1t.Gen.phaseTable (conjOfT (A := Empty) Q1t.Gen.conjTable Q1t.Gen.conjNoArityCheck)
      (validT (A := Empty) n Q1t.Gen.conjTable) :=
  stabHyps n Q1t.Gen.phaseTable Q1t.Gen.conjTable Q1t.Gen.conjNoArityCheck Q8.lawful
    Q1t.Sim.Demo.lawfulSimQ8 Q1t.Proofs.Tableau.phaseTable_correct Q1t.Proofs.ConjQ8.prims_exact_Q8
    tableFacts_generated hD (by decide) q8_pos q8half q8half_add

/-- **the multinomial law of the stabilizer backend for the generated tables**, all `n`, `N ≥ 1`, all circuits of
F_stab whose gates are well-formed claiming terms on valid placements (`validT`), relative to `DetShapeHolds` only -/
theorem stab_histogram_gf_generated' {R : Type} [CommRing R] (n N : Nat)
    (hD : DetShapeHolds (α := Q8) (A := Empty) n Q1t.Gen.phaseTable Q1t.Gen.conjTable Q1t.Gen.conjNoArityCheck)
    (ord : List (Nat × Nat) → List (Nat × Nat)) (toR : Q8 →+* R) (x : Nat → R) (ops : List (COp Empty))
    (hF : ∀ op ∈ ops, InFS n (validT (A := Empty) n Q1t.Gen.conjTable) op) (hN : 0 < N) :
    expectOrd ord toR (execOps (stabBackend q8half Q1t.Gen.phaseTable
        (conjOfT (A := Empty) Q1t.Gen.conjTable Q1t.Gen.conjNoArityCheck)) (StabState.new n N) (List.replicate N 0) ops)
      (shotProdS x) = gfShot n toR x ops (SimGF.ket0 n, 0) ^ N :=
  stab_histogram_gf toR (stabHyps_generated n hD) x ops hF hN

end Q1t.Sim.SimGF

import Q1t.Proofs.SquareTerm
set_option linter.unusedSimpArgs false
set_option linter.unusedSectionVars false
set_option linter.unnecessarySeqFocus false
/-!
C16, the model's `square` against the reference notion, by structural recursion over all terms:
exact for terms without `U2`, up to one global phase for terms without a `U2` below a `C`;
refusal of reference parameters; `U3` not implemented; `Composite` has no impl.
-/
namespace Q1t.Proofs.Square
open Q1t Q1t.Gate Q1t.Spec Q1t.LMat Q1t.Proofs.Unitaries ParamArith

variable {α V : Type} [CommRing α] [Amp α V] [ParamArith V]

/-- the term denoted under a store: every parameter replaced by its current value -/
def ev (s : Store V) (g : GateTerm (Param V)) : GateTerm V := g.mapP (Param.value s)

/-- no `U2` (outside loop bodies, which `square` never looks into) -/
def U2Free : GateTerm (Param V) → Prop
  | .U2 _ _ => False
  | .C g => U2Free g
  | .Kron a b => U2Free a ∧ U2Free b
  | _ => True

/-- no `U2` below a `C` -/
def NoU2UnderC : GateTerm (Param V) → Prop
  | .C g => U2Free g
  | .Kron a b => NoU2UnderC a ∧ NoU2UnderC b
  | _ => True

/-- every loop of the term (outside loop bodies) satisfies the C04 corollary under the store `s` -/
def LoopsOK (α : Type) [CommRing α] [Amp α V] (s : Store V) : GateTerm (Param V) → Prop
  | .C g => LoopsOK α s g
  | .Kron a b => LoopsOK α s a ∧ LoopsOK α s b
  | .Loop label _ nm n body => LoopOK (α := α) label nm n (body.mapP (Param.value s))
  | _ => True

theorem square_C_ok {g r : GateTerm (Param V)} (hsq : square (.C g) = .ok r) :
    ∃ g2, square g = .ok g2 ∧ r = .C g2 := by
  simp only [square] at hsq
  cases hq : square g with
  | ok g2 => rw [hq] at hsq; exact ⟨g2, rfl, by injection hsq with e; exact e.symm⟩
  | error e => rw [hq] at hsq; cases hsq

theorem square_Kron_ok {g0 g1 r : GateTerm (Param V)} (hsq : square (.Kron g0 g1) = .ok r) :
    ∃ a b, square g0 = .ok a ∧ square g1 = .ok b ∧ r = .Kron a b := by
  simp only [square] at hsq
  cases h0 : square g0 with
  | ok a =>
    cases h1 : square g1 with
    | ok b => rw [h0, h1] at hsq; exact ⟨a, b, rfl, rfl, by injection hsq with e; exact e.symm⟩
    | error e => rw [h0, h1] at hsq; cases e <;> cases hsq
  | error e =>
    cases h1 : square g1 with
    | ok b => rw [h0, h1] at hsq; cases e <;> cases hsq
    | error e' => rw [h0, h1] at hsq; cases e <;> cases e' <;> cases hsq

section lawful
variable (h : LawfulAmp α V) (hh : LawfulHalf α V) (hs : LawfulSq α V)
include h hh hs

/-- a primitive pair `(g, g2)` of constructor terms (no `C`/`Kron`/`Loop`) that squares exactly -/
theorem exact_prim {g g2 : GateTerm V} (c1 : CKTerm g) (c2 : CKTerm g2) (hn : nrBits g2 = nrBits g)
    (e : sqOK (α := α) g g2) : ExactInv (α := α) g g2 :=
  ⟨hn, wfm_of_ck h g c1, wfm_of_ck h g2 c2, e⟩

theorem both_of_exact {g g2 : GateTerm V} {A B : Prop} (e : ExactInv (α := α) g g2) :
    (A → ExactInv (α := α) g g2) ∧ (B → PhaseInv (α := α) g g2) :=
  ⟨fun _ => e, fun _ => phase_of_exact h e⟩

/-- The model's `square`, against "the gate applied twice", for every term. -/
theorem square_inv (s : Store V) : (g g2 : GateTerm (Param V)) → square g = .ok g2 → LoopsOK α s g →
    (U2Free g → ExactInv (α := α) (ev s g) (ev s g2)) ∧
    (NoU2UnderC g → PhaseInv (α := α) (ev s g) (ev s g2))
  | .H, g2, hsq, _ => by
      simp only [square, Except.ok.injEq] at hsq; subst hsq
      exact both_of_exact h hh hs (exact_prim h hh hs trivial trivial rfl (sq_consts h).1)
  | .X, g2, hsq, _ => by
      simp only [square, Except.ok.injEq] at hsq; subst hsq
      exact both_of_exact h hh hs (exact_prim h hh hs trivial trivial rfl (sq_consts h).2.1)
  | .Y, g2, hsq, _ => by
      simp only [square, Except.ok.injEq] at hsq; subst hsq
      exact both_of_exact h hh hs (exact_prim h hh hs trivial trivial rfl (sq_consts h).2.2.1)
  | .Z, g2, hsq, _ => by
      simp only [square, Except.ok.injEq] at hsq; subst hsq
      exact both_of_exact h hh hs (exact_prim h hh hs trivial trivial rfl (sq_consts h).2.2.2.1)
  | .S, g2, hsq, _ => by
      simp only [square, Except.ok.injEq] at hsq; subst hsq
      exact both_of_exact h hh hs (exact_prim h hh hs trivial trivial rfl (sq_consts h).2.2.2.2.1)
  | .Sdg, g2, hsq, _ => by
      simp only [square, Except.ok.injEq] at hsq; subst hsq
      exact both_of_exact h hh hs (exact_prim h hh hs trivial trivial rfl (sq_consts h).2.2.2.2.2.1)
  | .T, g2, hsq, _ => by
      simp only [square, Except.ok.injEq] at hsq; subst hsq
      exact both_of_exact h hh hs (exact_prim h hh hs trivial trivial rfl (sq_consts h).2.2.2.2.2.2.1)
  | .Tdg, g2, hsq, _ => by
      simp only [square, Except.ok.injEq] at hsq; subst hsq
      exact both_of_exact h hh hs (exact_prim h hh hs trivial trivial rfl (sq_consts h).2.2.2.2.2.2.2.1)
  | .V, g2, hsq, _ => by
      simp only [square, Except.ok.injEq] at hsq; subst hsq
      exact both_of_exact h hh hs (exact_prim h hh hs trivial trivial rfl (sq_consts h).2.2.2.2.2.2.2.2.1)
  | .Vdg, g2, hsq, _ => by
      simp only [square, Except.ok.injEq] at hsq; subst hsq
      exact both_of_exact h hh hs (exact_prim h hh hs trivial trivial rfl (sq_consts h).2.2.2.2.2.2.2.2.2.1)
  | .I, g2, hsq, _ => by
      simp only [square, Except.ok.injEq] at hsq; subst hsq
      exact both_of_exact h hh hs (exact_prim h hh hs trivial trivial rfl (sq_consts h).2.2.2.2.2.2.2.2.2.2)
  | .CX, g2, hsq, _ => by
      simp only [square, Except.ok.injEq] at hsq; subst hsq
      exact both_of_exact h hh hs (exact_prim h hh hs trivial ⟨trivial, trivial⟩ rfl (sq_two_qubit h).1)
  | .CY, g2, hsq, _ => by
      simp only [square, Except.ok.injEq] at hsq; subst hsq
      exact both_of_exact h hh hs (exact_prim h hh hs trivial ⟨trivial, trivial⟩ rfl (sq_two_qubit h).2.1)
  | .CZ, g2, hsq, _ => by
      simp only [square, Except.ok.injEq] at hsq; subst hsq
      exact both_of_exact h hh hs (exact_prim h hh hs trivial ⟨trivial, trivial⟩ rfl (sq_two_qubit h).2.2.1)
  | .Swap, g2, hsq, _ => by
      simp only [square, Except.ok.injEq] at hsq; subst hsq
      exact both_of_exact h hh hs (exact_prim h hh hs trivial ⟨trivial, trivial⟩ rfl (sq_two_qubit h).2.2.2)
  | .RX θ, g2, hsq, _ => by
      cases θ with
      | direct x =>
        simp only [square, Except.ok.injEq] at hsq; subst hsq
        exact both_of_exact h hh hs (exact_prim h hh hs trivial trivial rfl (sq_rx h hh hs x))
      | reference c => simp [square] at hsq
      | ffiRef c => simp [square] at hsq
  | .RY θ, g2, hsq, _ => by
      cases θ with
      | direct x =>
        simp only [square, Except.ok.injEq] at hsq; subst hsq
        exact both_of_exact h hh hs (exact_prim h hh hs trivial trivial rfl (sq_ry h hh hs x))
      | reference c => simp [square] at hsq
      | ffiRef c => simp [square] at hsq
  | .RZ θ, g2, hsq, _ => by
      cases θ with
      | direct x =>
        simp only [square, Except.ok.injEq] at hsq; subst hsq
        exact both_of_exact h hh hs (exact_prim h hh hs trivial trivial rfl (sq_rz h hh hs x))
      | reference c => simp [square] at hsq
      | ffiRef c => simp [square] at hsq
  | .U1 θ, g2, hsq, _ => by
      cases θ with
      | direct x =>
        simp only [square, Except.ok.injEq] at hsq; subst hsq
        exact both_of_exact h hh hs (exact_prim h hh hs trivial trivial rfl (sq_u1 h hh hs x))
      | reference c => simp [square] at hsq
      | ffiRef c => simp [square] at hsq
  | .U2 φ l, g2, hsq, _ => by
      cases φ <;> cases l <;> simp only [square, Except.ok.injEq, reduceCtorEq] at hsq
      subst hsq
      refine ⟨fun hf => hf.elim, fun _ => ?_⟩
      exact ⟨rfl, wfm_of_ck h _ trivial, wfm_of_ck h _ trivial, _, sq_u2 h hh hs _ _⟩
  | .U3 _ _ _, g2, hsq, _ => by simp [square] at hsq
  | .C g, r, hsq, hl => by
      obtain ⟨g2, hq, rfl⟩ := square_C_ok hsq
      have ih := square_inv s g g2 hq hl
      exact ⟨fun hf => exact_C (ih.1 hf), fun hf => phase_of_exact h (exact_C (ih.1 hf))⟩
  | .Kron g0 g1, r, hsq, hl => by
      obtain ⟨a, b, h0, h1, rfl⟩ := square_Kron_ok hsq
      have ih0 := square_inv s g0 a h0 hl.1
      have ih1 := square_inv s g1 b h1 hl.2
      exact ⟨fun hf => exact_Kron (ih0.1 hf.1) (ih1.1 hf.2),
        fun hf => phase_Kron h (ih0.2 hf.1) (ih1.2 hf.2)⟩
  | .Composite _ _ _, g2, hsq, _ => by simp [square] at hsq
  | .Loop label k nm n body, g2, hsq, hl => by
      simp only [square, Except.ok.injEq] at hsq; subst hsq
      exact both_of_exact h hh hs (exact_Loop k hl)

end lawful

/-! ### refusals -/

/-- `square` succeeds only if no parameter outside loop bodies is a reference -/
def refFree : GateTerm (Param V) → Prop
  | .RX p | .RY p | .RZ p | .U1 p => p.isDirect = true
  | .U2 p q | .U3 p _ q => p.isDirect = true ∧ q.isDirect = true
  | .C g => refFree g
  | .Kron a b => refFree a ∧ refFree b
  | _ => True

/-- a successful `square` never had a reference-valued parameter to freeze (outside loop bodies,
which are kept as they are and so stay live) -/
theorem square_ok_refFree : (g g2 : GateTerm (Param V)) → square g = .ok g2 → refFree g
  | .H, _, _ | .X, _, _ | .Y, _, _ | .Z, _, _ | .S, _, _ | .Sdg, _, _ | .T, _, _ | .Tdg, _, _
  | .V, _, _ | .Vdg, _, _ | .I, _, _ | .CX, _, _ | .CY, _, _ | .CZ, _, _ | .Swap, _, _ => trivial
  | .RX θ, _, hsq | .RY θ, _, hsq | .RZ θ, _, hsq | .U1 θ, _, hsq => by
      cases θ <;> simp [square] at hsq <;> rfl
  | .U2 φ l, _, hsq => by
      cases φ <;> cases l <;> simp [square] at hsq <;> exact ⟨rfl, rfl⟩
  | .U3 _ _ _, _, hsq => by simp [square] at hsq
  | .C g, r, hsq => by
      obtain ⟨g2, hq, -⟩ := square_C_ok hsq
      exact square_ok_refFree g g2 hq
  | .Kron g0 g1, r, hsq => by
      obtain ⟨a, b, h0, h1, -⟩ := square_Kron_ok hsq
      exact ⟨square_ok_refFree g0 a h0, square_ok_refFree g1 b h1⟩
  | .Composite _ _ _, _, hsq => by simp [square] at hsq
  | .Loop _ _ _ _ _, _, _ => trivial


/-! ### primitives, errors -/

/-- a primitive: not a `C`, `Kron`, `Composite` or `Loop` -/
def IsPrim : GateTerm (Param V) → Prop
  | .C _ => False
  | .Kron _ _ => False
  | .Composite _ _ _ => False
  | .Loop _ _ _ _ _ => False
  | _ => True

theorem prim_loopsOK (s : Store V) (g : GateTerm (Param V)) (hp : IsPrim g) : LoopsOK α s g := by
  cases g <;> trivial

theorem prim_u2Free (g : GateTerm (Param V)) (hp : IsPrim g) (hu : ∀ p l, g ≠ .U2 p l) : U2Free g := by
  cases g <;> first | trivial | exact hp.elim | exact (hu _ _ rfl).elim

theorem square_prim_exact (h : LawfulAmp α V) (hh : LawfulHalf α V) (hs : LawfulSq α V) (s : Store V)
    (g g2 : GateTerm (Param V)) (hp : IsPrim g) (hu : ∀ p l, g ≠ .U2 p l) (hsq : square g = .ok g2) :
    sqOK (α := α) (ev s g) (ev s g2) :=
  ((square_inv h hh hs s g g2 hsq (prim_loopsOK s g hp)).1 (prim_u2Free g hp hu)).2.2.2

/-- a parameter that is not `Direct` is refused by every parametrised primitive -/
theorem square_ref_prims (p q : Param V) (hp : p.isDirect = false) :
    square (.RX p) = .error .referenceArithmetic ∧ square (.RY p) = .error .referenceArithmetic ∧
    square (.RZ p) = .error .referenceArithmetic ∧ square (.U1 p) = .error .referenceArithmetic ∧
    square (.U2 p q) = .error .referenceArithmetic ∧ square (.U2 q p) = .error .referenceArithmetic := by
  cases p with
  | direct x => simp [Param.isDirect] at hp
  | reference c => cases q <;> simp [square]
  | ffiRef c => cases q <;> simp [square]

/-- `C` forwards the inner outcome unchanged (`?`); `Kron` turns every inner run-time error into
`OpNotImplemented` -/
theorem square_wrappers_err (g g' : GateTerm (Param V)) (e : SqErr) (he : square g = .error e) :
    square (.C g) = .error e ∧
    (e ≠ .noImpl → square g' ≠ .error .noImpl →
      square (.Kron g g') = .error .opNotImplemented ∧
      square (.Kron g' g) = .error .opNotImplemented) := by
  refine ⟨by simp only [square, he], fun hne hne' => ?_⟩
  cases e with
  | noImpl => exact (hne rfl).elim
  | referenceArithmetic =>
    cases h' : square g' with
    | ok b => simp [square, he, h']
    | error e' => cases e' <;> simp_all [square]
  | opNotImplemented =>
    cases h' : square g' with
    | ok b => simp [square, he, h']
    | error e' => cases e' <;> simp_all [square]

/-- `U3` falls back to the trait's default method; `Composite` has no impl, and neither has any
wrapper around it -/
theorem square_unimpl (θ φ l : Param V) (nm : String) (n : Nat) (ops : OpList (Param V))
    (g : GateTerm (Param V)) :
    square (.U3 θ φ l) = .error .opNotImplemented ∧
    square (.Composite nm n ops) = .error .noImpl ∧
    square (.C (.Composite nm n ops)) = .error .noImpl ∧
    square (.Kron (.Composite nm n ops) g) = .error .noImpl ∧
    square (.Kron g (.Composite nm n ops)) = .error .noImpl := by
  refine ⟨rfl, rfl, rfl, ?_, ?_⟩
  · simp [square]
  · cases hg : square g with
    | ok b => simp [square, hg]
    | error e => cases e <;> simp [square, hg]

end Q1t.Proofs.Square

import Q1t.Proofs.ConjTerm
import Q1t.Proofs.RoutePlace
set_option linter.unusedSimpArgs false
set_option linter.unusedSectionVars false
set_option linter.unusedVariables false
/-!
# C06, part 6: embedding a gate on distinct in-range qubits preserves exactness (`EmbedExact`)

If `M · P(L) = ± P(L') · M` for the gate-local strings, then for every register string `Q` whose
operators on the listed qubits are `L`:  `embed n bits M · P(Q) = ± P(Q') · embed n bits M`, where
`Q'` is `Q` with the listed positions overwritten by `L'` (`Composite::conjugate`'s gather /
scatter).  Proof: both sides are computed entry-wise; the index set `[0, 2^n)` is re-indexed by the
gather bijection of C04 (`r ↦ (sub r, rest r)`), under which `embed n bits M` is `M ⊗ 1` and
`P(Q)` is `P(L) ⊗ P(R)` (`R` = the operators on the other qubits).
-/
namespace Q1t.Proofs.ConjEmbed
open Q1t Q1t.Gate Q1t.LMat Q1t.Spec Q1t.Spec.Clifford Q1t.Proofs.ConjBridge Q1t.Proofs.ConjTerm
open Q1t.Proofs.Route Q1t.Proofs.BitPerm
open Q1t.Conj (gather scatter)

variable {α A : Type} [CommRing α] [Amp α A]

variable (A) in
/-- entry of a Pauli matrix -/
def pent (p : Pauli) (a b : Nat) : α := LMat.get (sigma A p : LMat α) a b

variable (A) in
/-- `∏_{q ∈ qs} σ_{Q[q]}[bit q of i][bit q of j]` -/
def pprod (Q : List Pauli) (n : Nat) (qs : List Nat) (i j : Nat) : α :=
  (qs.map fun q => pent A (Q.getD q .I) (qbit n q i) (qbit n q j)).prod

/-- entries of the Pauli matrix of the operators of `Q` at the listed qubits -/
theorem pauliMat_get_sub (Q : List Pauli) (n : Nat) (i j : Nat) : ∀ qs : List Nat,
    LMat.get (pauliMat A (qs.map fun q => Q.getD q .I) : LMat α) (subIndex n qs i) (subIndex n qs j) =
      pprod A Q n qs i j
  | [] => by simp [pauliMat, subIndex_nil, LMat.get, pprod]
  | x :: t => by
    have ih := pauliMat_get_sub Q n i j t
    have hG : (t.map fun q => Q.getD q Tableau.P.I).length = t.length := by simp
    have hw := wf_pauliMat (α := α) (A := A) (t.map fun q => Q.getD q .I)
    rw [hG] at hw
    have hpos : 0 < 2 ^ t.length := Nat.pow_pos (by decide)
    have hlt : ∀ y, qbit n x y * 2 ^ t.length + subIndex n t y < 2 * 2 ^ t.length := by
      intro y
      have h1 := qbit_lt_two n x y
      have h2 := subIndex_lt n t y
      have h3 : qbit n x y * 2 ^ t.length ≤ 1 * 2 ^ t.length := Nat.mul_le_mul_right _ (by omega)
      omega
    simp only [List.map_cons, pauliMat, subIndex_cons]
    rw [get_kronecker (wf_sigma _) hw (by decide) hpos (hlt i) (hlt j),
      (div_mod_block _ _ _ (subIndex_lt n t i)).1, (div_mod_block _ _ _ (subIndex_lt n t i)).2,
      (div_mod_block _ _ _ (subIndex_lt n t j)).1, (div_mod_block _ _ _ (subIndex_lt n t j)).2, ih]
    simp [pprod, pent]

theorem map_getD_range (Q : List Pauli) : (List.range Q.length).map (fun q => Q.getD q Tableau.P.I) = Q := by
  apply List.ext_getElem
  · simp
  · intro i h1 h2
    simp [List.getD_eq_getElem?_getD, h2]

/-- entries of a Pauli matrix as a product over the qubits -/
theorem pauliMat_get (Q : List Pauli) (n : Nat) (hQ : Q.length = n) (i j : Nat) (hi : i < 2 ^ n)
    (hj : j < 2 ^ n) : LMat.get (pauliMat A Q : LMat α) i j = pprod A Q n (List.range n) i j := by
  have := pauliMat_get_sub (α := α) (A := A) Q n i j (List.range n)
  rw [subIndex_range n i hi, subIndex_range n j hj, ← hQ, map_getD_range] at this
  rw [← hQ]; exact this

theorem gather_list_perm (n : Nat) (bits : List Nat) (hv : validBits n bits = true) :
    (bits ++ others n bits).Perm (List.range n) := by
  obtain ⟨hlt, hnd⟩ := (validBits_iff n bits).1 hv
  rw [List.perm_ext_iff_of_nodup _ List.nodup_range]
  · intro q
    rw [List.mem_range]
    constructor
    · intro hq
      rcases List.mem_append.1 hq with h | h
      · exact hlt q h
      · exact ((mem_others n bits q).1 h).1
    · exact mem_gather_list n bits q
  · rw [List.nodup_append]
    refine ⟨hnd, others_nodup n bits, ?_⟩
    intro a ha b hb hab
    subst hab
    exact ((mem_others n bits a).1 hb).2 ha

/-- `P(Q) = P(Q|bits) ⊗ P(Q|others)` under the gather re-indexing -/
theorem pauliMat_split (Q : List Pauli) (n : Nat) (hQ : Q.length = n) (bits : List Nat)
    (hv : validBits n bits = true) (i j : Nat) (hi : i < 2 ^ n) (hj : j < 2 ^ n) :
    LMat.get (pauliMat A Q : LMat α) i j =
      LMat.get (pauliMat A (bits.map fun q => Q.getD q .I) : LMat α) (subIndex n bits i) (subIndex n bits j) *
      LMat.get (pauliMat A ((others n bits).map fun q => Q.getD q .I) : LMat α)
        (subIndex n (others n bits) i) (subIndex n (others n bits) j) := by
  rw [pauliMat_get Q n hQ i j hi hj, pauliMat_get_sub, pauliMat_get_sub]
  unfold pprod
  rw [← List.prod_append, ← List.map_append]
  exact ((gather_list_perm n bits hv).map _).prod_eq.symm

/-! ## gather / scatter on operator strings -/

theorem gather_eq (Q : List Pauli) : ∀ bits : List Nat, (∀ b ∈ bits, b < Q.length) →
    gather Q bits = some (bits.map fun q => Q.getD q .I)
  | [], _ => by simp [gather]
  | b :: bs, h => by
    have ih := gather_eq Q bs (fun x hx => h x (List.mem_cons_of_mem _ hx))
    have hb : b < Q.length := h b (List.mem_cons_self ..)
    unfold gather at ih ⊢
    simp [List.mapM_cons, ih, hb, List.getD_eq_getElem?_getD]

theorem scatter_cons (Q : List Pauli) (b : Nat) (bs : List Nat) (p : Pauli) (ps : List Pauli) :
    scatter Q (b :: bs) (p :: ps) = scatter (Q.set b p) bs ps := by
  simp [scatter]

theorem scatter_getD_not_mem (q : Nat) : ∀ (bits : List Nat) (L : List Pauli) (Q : List Pauli),
    q ∉ bits → (scatter Q bits L).getD q .I = Q.getD q .I
  | [], L, Q, _ => by simp [scatter]
  | b :: bs, [], Q, _ => by simp [scatter]
  | b :: bs, p :: ps, Q, h => by
    rw [scatter_cons, scatter_getD_not_mem q bs ps _ (fun hq => h (List.mem_cons_of_mem _ hq))]
    have hne : b ≠ q := fun e => h (e ▸ List.mem_cons_self ..)
    simp [List.getD_eq_getElem?_getD, List.getElem?_set_ne hne]

theorem scatter_map_bits : ∀ (bits : List Nat) (L : List Pauli) (Q : List Pauli),
    bits.Nodup → L.length = bits.length → (∀ b ∈ bits, b < Q.length) →
    (bits.map fun q => (scatter Q bits L).getD q .I) = L
  | [], L, Q, _, hl, _ => by
    have : L = [] := List.eq_nil_of_length_eq_zero (by simpa using hl)
    simp [this]
  | b :: bs, [], Q, _, hl, _ => by simp at hl
  | b :: bs, p :: ps, Q, hnd, hl, hr => by
    rw [List.nodup_cons] at hnd
    have hb : b < Q.length := hr b (List.mem_cons_self ..)
    simp only [List.map_cons, scatter_cons]
    rw [scatter_getD_not_mem b bs ps _ hnd.1]
    have ih := scatter_map_bits bs ps (Q.set b p) hnd.2 (by simpa using hl)
      (fun x hx => by rw [List.length_set]; exact hr x (List.mem_cons_of_mem _ hx))
    rw [ih]
    simp [List.getD_eq_getElem?_getD, hb]

theorem scatter_map_others (n : Nat) (bits : List Nat) (L Q : List Pauli) :
    ((others n bits).map fun q => (scatter Q bits L).getD q .I) =
      (others n bits).map fun q => Q.getD q .I := by
  apply List.map_congr_left
  intro q hq
  exact scatter_getD_not_mem q bits L Q ((mem_others n bits q).1 hq).2

/-! ## re-indexing a sum over `[0, 2^n)` by the gather bijection -/

section reindex
variable (n : Nat) (bits : List Nat) (hv : validBits n bits = true)
include hv

theorem ginv_spec (a t : Nat) (ha : a < 2 ^ bits.length) (ht : t < 2 ^ (n - bits.length)) :
    (gatherInv n bits).getD (a * 2 ^ (n - bits.length) + t) 0 < 2 ^ n ∧
    subIndex n bits ((gatherInv n bits).getD (a * 2 ^ (n - bits.length) + t) 0) = a ∧
    subIndex n (others n bits) ((gatherInv n bits).getD (a * 2 ^ (n - bits.length) + t) 0) = t := by
  have hk : bits.length ≤ n := validBits_length_le n bits hv
  have hj : a * 2 ^ (n - bits.length) + t < 2 ^ n := by
    rw [← pow_split n _ hk]; exact block_lt a _ _ _ ha ht
  have hx := gatherInv_lt n bits hv _ hj
  have hg := gather_gatherInv n bits hv _ hj
  have hs := gather_split n bits hv ((gatherInv n bits).getD (a * 2 ^ (n - bits.length) + t) 0)
  rw [hg, (div_mod_block a _ _ ht).1, (div_mod_block a _ _ ht).2] at hs
  exact ⟨hx, hs.1.symm, hs.2.symm⟩

theorem sum_gather (g : Nat → α) :
    ∑ m ∈ Finset.range (2 ^ n), g m =
      ∑ a ∈ Finset.range (2 ^ bits.length), ∑ t ∈ Finset.range (2 ^ (n - bits.length)),
        g ((gatherInv n bits).getD (a * 2 ^ (n - bits.length) + t) 0) := by
  have hk : bits.length ≤ n := validBits_length_le n bits hv
  rw [Finset.sum_nbij' (s := Finset.range (2 ^ n)) (t := Finset.range (2 ^ n))
    (g := fun j => g ((gatherInv n bits).getD j 0))
    (gatherIndex n bits) (fun j => (gatherInv n bits).getD j 0)
    (fun a _ => Finset.mem_range.2 (gatherIndex_lt n bits hv a))
    (fun a ha => Finset.mem_range.2 (gatherInv_lt n bits hv a (Finset.mem_range.1 ha)))
    (fun a ha => gatherInv_gather n bits hv a (Finset.mem_range.1 ha))
    (fun a ha => gather_gatherInv n bits hv a (Finset.mem_range.1 ha))
    (fun a ha => by simp only [gatherInv_gather n bits hv a (Finset.mem_range.1 ha)])]
  rw [← pow_split n _ hk, sum_range_mul]

/-- a sum over the register indices of a function of `(sub m, rest m)` is a double sum -/
theorem sum_gather' (f : Nat → Nat → α) :
    ∑ m ∈ Finset.range (2 ^ n), f (subIndex n bits m) (subIndex n (others n bits) m) =
      ∑ a ∈ Finset.range (2 ^ bits.length), ∑ t ∈ Finset.range (2 ^ (n - bits.length)), f a t := by
  rw [sum_gather n bits hv]
  apply Finset.sum_congr rfl
  intro a ha
  apply Finset.sum_congr rfl
  intro t ht
  obtain ⟨_, h1, h2⟩ := ginv_spec n bits hv a t (Finset.mem_range.1 ha) (Finset.mem_range.1 ht)
  rw [h1, h2]

end reindex

/-! ## the theorem -/

theorem get_signed {n m : Nat} {X : LMat α} (hX : WF n m X) (flip : Bool) {i j : Nat} (hi : i < n)
    (hj : j < m) : LMat.get (signed flip X) i j = sgn flip * LMat.get X i j := by
  cases flip
  · simp [signed, sgn]
  · simp only [signed, sgn, if_true]
    rw [get_mapEntries _ hX hi hj]; ring

theorem embed_exact : EmbedExact α A := by
  intro n bits M Q L L' flip hv hQ hM hL hL' hint
  obtain ⟨hlt, hnd⟩ := (validBits_iff n bits).1 hv
  have hk : bits.length ≤ n := validBits_length_le n bits hv
  have hN : 0 < 2 ^ n := Nat.pow_pos (by decide)
  have hK : 0 < 2 ^ bits.length := Nat.pow_pos (by decide)
  -- the gathered strings
  have hLeq : L = bits.map fun q => Q.getD q .I := by
    have := gather_eq Q bits (by rw [hQ]; exact hlt)
    rw [hL] at this; exact Option.some.inj this
  have hLlen : L.length = bits.length := by rw [hLeq]; simp
  have hQ' : (scatter Q bits L').length = n := by rw [scatter_length, hQ]
  have hL'eq : (bits.map fun q => (scatter Q bits L').getD q .I) = L' :=
    scatter_map_bits bits L' Q hnd hL' (by rw [hQ]; exact hlt)
  -- shapes
  have hE : WF (2 ^ n) (2 ^ n) (embed n bits M) := embed_wf n bits M
  have hPQ := wf_pauliMat' (α := α) (A := A) hQ
  have hPQ' := wf_pauliMat' (α := α) (A := A) hQ'
  have hPL := wf_pauliMat' (α := α) (A := A) hLlen
  have hPL' := wf_pauliMat' (α := α) (A := A) hL'
  -- the hypothesis, entry-wise
  have hent : ∀ i j, i < 2 ^ bits.length → j < 2 ^ bits.length →
      LMat.get (LMat.mul M (pauliMat A L)) i j = sgn flip * LMat.get (LMat.mul (pauliMat A L') M) i j := by
    intro i j hi hj
    unfold Intertwines at hint
    rw [hint, get_signed (wf_mul hPL' hM hK) flip hi hj]
  unfold Intertwines
  apply ext_get (wf_mul hE hPQ hN) (wf_signed (wf_mul hPQ' hE hN) flip)
  intro r hr c hc
  rw [get_signed (wf_mul hPQ' hE hN) flip hr hc, Route.get_mul (2 ^ n) _ _ hE hPQ r c hr hc,
    Route.get_mul (2 ^ n) _ _ hPQ' hE r c hr hc]
  have hsr := subIndex_lt n bits r
  have hsc := subIndex_lt n bits c
  -- left side
  have hleft : ∑ m ∈ Finset.range (2 ^ n), LMat.get (embed n bits M) r m * LMat.get (pauliMat A Q : LMat α) m c =
      LMat.get (LMat.mul M (pauliMat A L)) (subIndex n bits r) (subIndex n bits c) *
        LMat.get (pauliMat A ((others n bits).map fun q => Q.getD q .I) : LMat α)
          (subIndex n (others n bits) r) (subIndex n (others n bits) c) := by
    obtain ⟨F, hF⟩ : ∃ F : Nat → Nat → α, F = fun a t =>
        (if subIndex n (others n bits) r = t then LMat.get M (subIndex n bits r) a else 0) *
          (LMat.get (pauliMat A L : LMat α) a (subIndex n bits c) *
           LMat.get (pauliMat A ((others n bits).map fun q => Q.getD q .I) : LMat α) t
             (subIndex n (others n bits) c)) := ⟨_, rfl⟩
    have e1 : ∀ m ∈ Finset.range (2 ^ n),
        LMat.get (embed n bits M) r m * LMat.get (pauliMat A Q : LMat α) m c =
        F (subIndex n bits m) (subIndex n (others n bits) m) := by
      intro m hm
      have hm' := Finset.mem_range.1 hm
      rw [embed_get n bits M r m hr hm', pauliMat_split Q n hQ bits hv m c hm' hc, ← hLeq, hF]
      simp only [agreeOff_iff']
    rw [Finset.sum_congr rfl e1, sum_gather' n bits hv F, Route.get_mul (2 ^ bits.length) _ _ hM hPL _ _ hsr hsc,
      Finset.sum_mul]
    subst hF
    beta_reduce
    apply Finset.sum_congr rfl
    intro a _
    have hrest : subIndex n (others n bits) r < 2 ^ (n - bits.length) := by
      have := subIndex_lt n (others n bits) r
      rwa [others_length n bits hv] at this
    rw [Finset.sum_eq_single (subIndex n (others n bits) r)]
    · beta_reduce; rw [if_pos rfl]; ring
    · intro t _ hne
      beta_reduce
      rw [if_neg (Ne.symm hne), zero_mul]
    · intro h; exact absurd (Finset.mem_range.2 hrest) h
  -- right side
  have hright : ∑ m ∈ Finset.range (2 ^ n),
      LMat.get (pauliMat A (scatter Q bits L') : LMat α) r m * LMat.get (embed n bits M) m c =
      LMat.get (LMat.mul (pauliMat A L') M) (subIndex n bits r) (subIndex n bits c) *
        LMat.get (pauliMat A ((others n bits).map fun q => Q.getD q .I) : LMat α)
          (subIndex n (others n bits) r) (subIndex n (others n bits) c) := by
    obtain ⟨F, hF⟩ : ∃ F : Nat → Nat → α, F = fun a t =>
        (LMat.get (pauliMat A L' : LMat α) (subIndex n bits r) a *
           LMat.get (pauliMat A ((others n bits).map fun q => Q.getD q .I) : LMat α)
             (subIndex n (others n bits) r) t) *
          (if t = subIndex n (others n bits) c then LMat.get M a (subIndex n bits c) else 0) := ⟨_, rfl⟩
    have e1 : ∀ m ∈ Finset.range (2 ^ n),
        LMat.get (pauliMat A (scatter Q bits L') : LMat α) r m * LMat.get (embed n bits M) m c =
        F (subIndex n bits m) (subIndex n (others n bits) m) := by
      intro m hm
      have hm' := Finset.mem_range.1 hm
      rw [embed_get n bits M m c hm' hc, pauliMat_split (scatter Q bits L') n hQ' bits hv r m hr hm', hL'eq,
        scatter_map_others, hF]
      simp only [agreeOff_iff']
    rw [Finset.sum_congr rfl e1, sum_gather' n bits hv F, Route.get_mul (2 ^ bits.length) _ _ hPL' hM _ _ hsr hsc,
      Finset.sum_mul]
    subst hF
    beta_reduce
    apply Finset.sum_congr rfl
    intro a _
    have hrest : subIndex n (others n bits) c < 2 ^ (n - bits.length) := by
      have := subIndex_lt n (others n bits) c
      rwa [others_length n bits hv] at this
    rw [Finset.sum_eq_single (subIndex n (others n bits) c)]
    · beta_reduce; rw [if_pos rfl]; ring
    · intro t _ hne
      beta_reduce
      rw [if_neg hne, mul_zero]
    · intro h; exact absurd (Finset.mem_range.2 hrest) h
  rw [hleft, hright, hent _ _ hsr hsc]
  ring


/-! ## an embedded unitary is unitary -/

theorem get_adjoint {n : Nat} {M : LMat α} (hM : WF n n M) {i j : Nat} (hi : i < n) (hj : j < n) :
    LMat.get (adjoint A M) i j = Amp.conj A (LMat.get M j i) := by
  unfold adjoint
  rw [hM.1, get_transpose (wf_mapEntries _ hM) hi hj, get_mapEntries _ hM hj hi]

theorem embed_unitary (h : LawfulAmp α A) (n : Nat) (bits : List Nat) (hv : validBits n bits = true)
    (M : LMat α) (hU : IsUnitary A bits.length M) : IsUnitary A n (embed n bits M) := by
  obtain ⟨hM1, hM2, hMU⟩ := hU
  have hM : WF (2 ^ bits.length) (2 ^ bits.length) M := ⟨hM1, hM2⟩
  have hE : WF (2 ^ n) (2 ^ n) (embed n bits M) := embed_wf n bits M
  have hN : 0 < 2 ^ n := Nat.pow_pos (by decide)
  have hK : 0 < 2 ^ bits.length := Nat.pow_pos (by decide)
  refine ⟨hE.1, hE.2, ?_⟩
  apply ext_get (wf_mul hE (wf_adjoint hE) hN) (wf_identity _)
  intro r hr c hc
  rw [Route.get_mul (2 ^ n) _ _ hE (wf_adjoint hE) r c hr hc, Route.get_identity (2 ^ n) r c hr hc]
  have hsr := subIndex_lt n bits r
  have hsc := subIndex_lt n bits c
  have hrest : ∀ x, subIndex n (others n bits) x < 2 ^ (n - bits.length) := by
    intro x
    have := subIndex_lt n (others n bits) x
    rwa [others_length n bits hv] at this
  -- entries of `M · Mᴴ`
  have hMM : ∀ i j, i < 2 ^ bits.length → j < 2 ^ bits.length →
      ∑ a ∈ Finset.range (2 ^ bits.length), LMat.get M i a * Amp.conj A (LMat.get M j a) =
        if i = j then 1 else 0 := by
    intro i j hi hj
    have := congrArg (fun X => LMat.get X i j) hMU
    beta_reduce at this
    rw [Route.get_mul (2 ^ bits.length) _ _ hM (wf_adjoint hM) i j hi hj,
      Route.get_identity (2 ^ bits.length) i j hi hj] at this
    rw [← this]
    apply Finset.sum_congr rfl
    intro a ha
    rw [get_adjoint hM (Finset.mem_range.1 ha) hj]
  obtain ⟨F, hF⟩ : ∃ F : Nat → Nat → α, F = fun a t =>
      (if subIndex n (others n bits) r = t then LMat.get M (subIndex n bits r) a else 0) *
        Amp.conj A (if subIndex n (others n bits) c = t then LMat.get M (subIndex n bits c) a else 0) := ⟨_, rfl⟩
  have e1 : ∀ m ∈ Finset.range (2 ^ n),
      LMat.get (embed n bits M) r m * LMat.get (adjoint A (embed n bits M)) m c =
      F (subIndex n bits m) (subIndex n (others n bits) m) := by
    intro m hm
    have hm' := Finset.mem_range.1 hm
    rw [get_adjoint hE hm' hc, embed_get n bits M r m hr hm', embed_get n bits M c m hc hm', hF]
    simp only [agreeOff_iff']
  rw [Finset.sum_congr rfl e1, sum_gather' n bits hv F]
  subst hF
  beta_reduce
  by_cases hrc : subIndex n (others n bits) r = subIndex n (others n bits) c
  · have e2 : ∀ a ∈ Finset.range (2 ^ bits.length),
        (∑ t ∈ Finset.range (2 ^ (n - bits.length)),
          (if subIndex n (others n bits) r = t then LMat.get M (subIndex n bits r) a else 0) *
            Amp.conj A (if subIndex n (others n bits) c = t then LMat.get M (subIndex n bits c) a else 0)) =
        LMat.get M (subIndex n bits r) a * Amp.conj A (LMat.get M (subIndex n bits c) a) := by
      intro a _
      rw [Finset.sum_eq_single (subIndex n (others n bits) r)]
      · rw [if_pos rfl, if_pos hrc.symm]
      · intro t _ hne
        rw [if_neg (Ne.symm hne), zero_mul]
      · intro hh; exact absurd (Finset.mem_range.2 (hrest r)) hh
    rw [Finset.sum_congr rfl e2, hMM _ _ hsr hsc]
    by_cases hsub : subIndex n bits r = subIndex n bits c
    · have : r = c := gatherIndex_inj n bits hv r c hr hc (by
        rw [gatherIndex_eq n bits r hv, gatherIndex_eq n bits c hv, hsub, hrc])
      rw [if_pos hsub, if_pos this]
    · have : r ≠ c := fun e => hsub (by rw [e])
      rw [if_neg hsub, if_neg this]
  · have hne : r ≠ c := fun e => hrc (by rw [e])
    rw [if_neg hne]
    apply Finset.sum_eq_zero
    intro a _
    apply Finset.sum_eq_zero
    intro t _
    by_cases ht : subIndex n (others n bits) r = t
    · have : ¬ subIndex n (others n bits) c = t := fun e => hrc (by rw [ht, e])
      rw [if_neg this, h.conj_zero, mul_zero]
    · rw [if_neg ht, zero_mul]

end Q1t.Proofs.ConjEmbed

import Q1t.Proofs.CQasmTextTerm
import Q1t.Proofs.CQasmEquivDensity
set_option linter.unusedSimpArgs false
set_option linter.unusedSectionVars false
set_option linter.unusedVariables false
/-!
C12 (text link), part 5: the circuit.  For every operation of the class `TextOp` the chunks that `Circuit::c_qasm`
writes denote the operation's value-level statements; hence (`parseProgram_den`) the exported TEXT parses into a
well-formed program whose `Spec/CQ1` meaning is `dSeq` of the concatenated statements — under `ReadsBack`.
-/
namespace Q1t.Proofs.CQasm
open Q1t Q1t.Spec Q1t.CQ Q1t.Gen Q1t.Proofs.Route

variable {F α P : Type} [CommRing α] [Amp α P]

section
variable (N : Num F) (S : CQ1.NumSem α P) (val : F → P) (nq : Nat) (nz : List α → Bool)

/-- a printed instruction with one operand -/
theorem printed1_den (name : Text) (op : Text) (arg : CQ1.Arg) (sig : List CQ1.Kind) (D : List (DStmt α))
    (hn : word name = true) (hnc : notCondName name = true) (hh : name.head? ≠ some '.') (ho : word op = true)
    (hp : CQ1.parseArg op = some arg) (hs : CQ1.signature (String.ofList name) = some sig)
    (hm : CQ1.argsMatch [arg] sig = true) (hnm : String.ofList name ≠ "measure_all")
    (hq : ∀ k, CQ1.qIndex arg = some k → k < nq) (hbi : ∀ k, CQ1.bIndex arg = some k → k < nq)
    (hd : InstrDen S nq nz ⟨[], String.ofList name, [arg]⟩ D) :
    PlainDen S nq nz (printInstr name [op]) D := by
  have hpi := parseInstr_plain name [op] [arg] sig hn (notCondName_spec hnc) (by simpa using ho) (by simp [hp]) hs hm
  apply plainDen_single S nq nz _ _ (cleanLine_printInstr name [op] hn (by simpa using ho))
  apply lineStmt_of_instr S nq nz name [op] _ D hn (by simpa using ho) hh hpi _ hd
  apply instrWf_ok nq _ hnm
  · intro k hk
    simp only [List.filterMap_cons, List.filterMap_nil] at hk
    cases hqi : CQ1.qIndex arg with
    | none => rw [hqi] at hk; simp at hk
    | some k' => rw [hqi] at hk; simp at hk; subst hk; exact hq _ hqi
  · simp only [List.filterMap_cons, List.filterMap_nil]
    cases CQ1.qIndex arg <;> simp
  · intro k hk
    simp only [List.nil_append, List.filterMap_cons, List.filterMap_nil] at hk
    cases hbi' : CQ1.bIndex arg with
    | none => rw [hbi'] at hk; simp at hk
    | some k' => rw [hbi'] at hk; simp at hk; subst hk; exact hbi _ hbi'

theorem qline_den (name : String) (q : Nat) (hq : q < nq) (D : List (DStmt α))
    (hname : name = "measure" ∨ name = "measure_x" ∨ name = "measure_y" ∨ name = "prep_z")
    (hd : InstrDen S nq nz ⟨[], name, [.q q]⟩ D) : PlainDen S nq nz (printInstr name.toList [qName q]) D := by
  have key : word name.toList = true ∧ notCondName name.toList = true ∧ name.toList.head? ≠ some '.' ∧
      CQ1.signature (String.ofList name.toList) = some [.Q] ∧ String.ofList name.toList ≠ "measure_all" := by
    rcases hname with rfl | rfl | rfl | rfl <;> decide
  exact printed1_den S nq nz _ (qName q) (.q q) [.Q] D key.1 key.2.1 key.2.2.1 (word_qName q) (parseArg_qName q)
    key.2.2.2.1 rfl key.2.2.2.2 (fun k hk => by simp [CQ1.qIndex] at hk; omega) (fun k hk => by simp [CQ1.bIndex] at hk)
    (by simpa using hd)

theorem notLine_den (idx : Nat) (h : idx < nq) : PlainDen S nq nz (notLine idx) [.notb idx] := by
  have e : notLine idx = printInstr "not".toList [bName idx] := by simp [notLine, printInstr, intercalate]
  rw [e]
  refine printed1_den S nq nz _ (bName idx) (.b idx) [.B] _ (by decide) (by decide) (by decide) (word_bName idx)
    (parseArg_bName idx) (by decide) rfl (by decide) (fun k hk => by simp [CQ1.qIndex] at hk)
    (fun k hk => by simp [CQ1.bIndex] at hk; omega) ?_
  intro br
  have : String.ofList "not".toList = "not" := by decide
  rw [this, instrSem_not]; simp [dSeq]

theorem measureAll_den : PlainDen S nq nz "measure_all".toList (measureAllStmts nq) := by
  have e : "measure_all".toList = printInstr "measure_all".toList [] := by simp [printInstr]
  rw [e]
  have hpi := parseInstr_plain "measure_all".toList [] [] [] (by decide) (notCondName_spec (by decide)) (by simp) rfl
    (by decide) rfl
  apply plainDen_single S nq nz _ _ (cleanLine_printInstr _ [] (by decide) (by simp))
  apply lineStmt_of_instr S nq nz _ [] _ _ (by decide) (by simp) (by decide) hpi
  · have hn : String.ofList "measure_all".toList = "measure_all" := by decide
    simp only [CQ1.instrWf, CQ1.Instr.qubits, CQ1.Instr.bits, hn, if_true]
    have f1 : (List.range nq).find? (fun k => decide (nq ≤ k)) = none := by
      rw [List.find?_eq_none]; intro k hk; simp at hk ⊢; omega
    simp [f1, hasDup_false_of_nodup _ (List.nodup_range)]
  · intro br
    have hn : String.ofList "measure_all".toList = "measure_all" := by decide
    rw [hn]
    exact instrSem_measureAll S nq nz br

/-- **the operations of the text link** with their value-level statements: gate terms of `termOK` outside the syntactic
defect classes (`gateSound`), conditional gate terms of `condTermOK` on a non-empty control list in range of at most 64
bits, measurements of qubit `q` into bit `q`, `measure_all` in Z into the bits `0..nq-1`, resets, barriers -/
inductive TextOp : XOp F → List (DStmt α) → Prop
  | gate (g : XGate F) (bits : List Nat) (L : List (List Nat × LMat α)) :
      termOK false (mapGate val g) = true → gateSound false g = true → bits.length = nrBits g → bits.Nodup →
      (∀ b ∈ bits, b < nq) → gateLinesN (α := α) (mapGate val g) bits = some L → TextOp (.gate g bits) (gateLines L)
  | cond (control : List Nat) (target : Nat) (g : XGate F) (bits : List Nat) (L : List (List Nat × LMat α)) :
      control ≠ [] → control.length ≤ 64 → (∀ k ∈ control, k < nq) →
      condTermOK (mapGate val g) = true → gateSound true g = true → bits.length = nrBits g → bits.Nodup →
      (∀ b ∈ bits, b < nq) → gateLinesN (α := α) (mapGate val g) bits = some L →
      TextOp (.cond control target g bits)
        ((notBits control target).map .notb ++ condLines control L ++ (notBits control target).map .notb)
  | measure (q : Nat) (b : CQ.Basis) : q < nq →
      TextOp (.measure q q b) [.measure q (basisPre (P := P) (toSimBasis b)) (basisPost (P := P) (toSimBasis b))]
  | measureAll : TextOp (.measureAll (List.range nq) .Z) (measureAllStmts nq)
  | reset (q : Nat) : q < nq → TextOp (.reset q) [.prep q]
  | barrier (bits : List Nat) : TextOp (.barrier bits) []

/-- **the chunks of one operation denote its statements** -/
theorem exportOp_den (RB : ReadsBack (α := α) N S val) (op : XOp F) (D : List (DStmt α))
    (hop : TextOp (α := α) val nq op D) (chunks : List Text) (h : exportOp cqGates N nq op = .ok chunks) :
    TextDen S nq nz (chunksText chunks) D := by
  have single : ∀ (t : Text) (D : List (DStmt α)), TextDen S nq nz t D → TextDen S nq nz (chunksText [t]) D := by
    intro t D ht
    have := textDen_chunks S nq nz [t] [D] (List.Forall₂.cons ht List.Forall₂.nil)
    simpa using this
  cases hop with
  | gate g bits L h1 h2 h3 h4 h5 h6 =>
    simp only [exportOp] at h
    obtain ⟨t, h0, h⟩ := res_bind_ok _ _ _ h
    injection h with h; subst h
    exact single _ _ (cQasm_den N S val nq nz RB g false h1 h2 bits h3 h4 h5 t h0 L h6).1
  | cond control target g bits L c1 c2 c3 h1 h2 h3 h4 h5 h6 =>
    simp only [exportOp] at h
    have hce : control.isEmpty = false := by cases control with | nil => exact absurd rfl c1 | cons _ _ => rfl
    have h64 : ¬ 64 < control.length := by omega
    have hany : control.any (fun idx => decide (nq ≤ idx)) = false := by
      rw [List.any_eq_false]; intro k hk; have := c3 k hk; simp; omega
    simp only [hce, Bool.false_eq_true, if_false, h64, hany] at h
    obtain ⟨t, h0, h⟩ := res_bind_ok _ _ _ h
    injection h with h; subst h
    have hmid := condCQasm_den N S val nq nz RB control c1 c3 g h1 h2 bits h3 h4 h5 t h0 L h6
    have hnots : ∀ (idxs : List Nat), (∀ i ∈ idxs, i ∈ control) →
        List.Forall₂ (TextDen S nq nz) (idxs.map notLine) (idxs.map fun i => [DStmt.notb i]) := by
      intro idxs hsub
      induction idxs with
      | nil => exact List.Forall₂.nil
      | cons i is ih =>
        exact List.Forall₂.cons (textDen_of_plain S nq nz _ _ (notLine_den S nq nz i (c3 i (hsub i (by simp)))))
          (ih (fun x hx => hsub x (by simp [hx])))
    have hn := hnots (notBits control target) (notBits_sub control target)
    have hall := textDen_chunks S nq nz _ _
      (List.rel_append (List.rel_append hn (List.Forall₂.cons (textDen_of_plain S nq nz _ _ hmid) List.Forall₂.nil)) hn)
    have e : ∀ (is : List Nat), (is.map fun i => [DStmt.notb (α := α) i]).flatten = is.map DStmt.notb := by
      intro is; induction is with
      | nil => rfl
      | cons i is ih => simp [ih]
    simpa [e] using hall
  | measure q b hq =>
    simp only [exportOp, ne_eq, not_true_eq_false, if_false] at h
    injection h with h; subst h
    apply single
    apply textDen_of_plain
    cases b with
    | X =>
      have := qline_den S nq nz "measure_x" q hq [.measure q [CQ1.mH (P := P)] [CQ1.mH (P := P)]] (by simp) (fun br => by
        rw [(instrSem_measure S nq nz q br).2.1]; simp [dSeq])
      simpa [printInstr, intercalate, qName, basisPre, basisPost, toSimBasis] using this
    | Y =>
      have := qline_den S nq nz "measure_y" q hq
        [.measure q [CQ1.mSdag (P := P), CQ1.mH (P := P)] [CQ1.mH (P := P), CQ1.mS (P := P)]] (by simp) (fun br => by
        rw [(instrSem_measure S nq nz q br).2.2]; simp [dSeq])
      simpa [printInstr, intercalate, qName, basisPre, basisPost, toSimBasis] using this
    | Z =>
      have := qline_den S nq nz "measure" q hq [.measure q [] []] (by simp) (fun br => by
        rw [(instrSem_measure S nq nz q br).1]; simp [dSeq])
      simpa [printInstr, intercalate, qName, basisPre, basisPost, toSimBasis] using this
  | measureAll =>
    rw [export_measureAll] at h
    injection h with h; subst h
    exact single _ _ (textDen_of_plain S nq nz _ _ (measureAll_den S nq nz))
  | reset q hq =>
    simp only [exportOp, qNames_get nq q hq] at h
    injection h with h; subst h
    apply single
    apply textDen_of_plain
    have := qline_den S nq nz "prep_z" q hq [.prep q] (by simp) (fun br => by rw [instrSem_prep]; simp [dSeq])
    simpa [printInstr, intercalate] using this
  | barrier bits =>
    simp only [exportOp] at h
    injection h with h; subst h
    exact textDen_nil S nq nz

theorem codeLines_chunks_append : ∀ (cs : List Text) (b : Text),
    CQ1.codeLines (chunksText cs ++ b) = CQ1.codeLines (chunksText cs) ++ CQ1.codeLines b
  | [], b => by simp [chunksText, codeLines_nil]
  | c :: cs, b => by
    have e1 : chunksText (c :: cs) ++ b = c ++ '\n' :: (chunksText cs ++ b) := by simp [chunksText]
    have e2 : chunksText (c :: cs) = c ++ '\n' :: chunksText cs := by simp [chunksText]
    rw [e1, e2, codeLines_append, codeLines_append, codeLines_chunks_append cs b, List.append_assoc]

theorem chunksText_append (a b : List Text) : chunksText (a ++ b) = chunksText a ++ chunksText b := by
  simp [chunksText]

/-- the chunks of all operations -/
theorem exportOps_den (RB : ReadsBack (α := α) N S val) : ∀ (steps : List (XOp F × List (DStmt α))),
    (∀ s ∈ steps, TextOp (α := α) val nq s.1 s.2) → ∀ (lss : List (List Text)),
    mapRes (exportOp cqGates N nq) (steps.map (·.1)) = .ok lss →
    TextDen S nq nz (chunksText lss.flatten) (steps.flatMap (·.2))
  | [], _, lss, h => by
    simp only [List.map_nil, mapRes] at h; injection h with h; subst h
    simpa [chunksText] using textDen_nil S nq nz
  | s :: steps, hs, lss, h => by
    simp only [List.map_cons, mapRes] at h
    obtain ⟨ls, h0, h⟩ := res_bind_ok _ _ _ h
    obtain ⟨lss', h1, h⟩ := res_bind_ok _ _ _ h
    injection h with h
    subst h
    have hd := exportOp_den N S val nq nz RB s.1 s.2 (hs s (by simp)) ls h0
    have hr := exportOps_den RB steps (fun x hx => hs x (by simp [hx])) lss' h1
    simp only [List.flatten_cons, chunksText_append, List.flatMap_cons]
    unfold TextDen at hd hr ⊢
    rw [codeLines_chunks_append]
    exact ProgDen.append S nq nz hd hr

/-- **the text link (`cq_text_partial`)**: under `ReadsBack`, for every circuit with at least one qubit whose operations
are of the class `TextOp`, if `Circuit::c_qasm` returns a text then the text PARSES (`Spec/CQ1.parseProgram`) into a
well-formed program over the circuit's qubits and the MEANING of that program from `|0…0⟩` is `dSeq` of the
operations' value-level statements. -/
theorem exportText_den (RB : ReadsBack (α := α) N S val) (c : XCircuit F) (hpos : 0 < c.nq)
    (steps : List (XOp F × List (DStmt α))) (hc : c.ops = steps.map (·.1))
    (hs : ∀ s ∈ steps, TextOp (α := α) val c.nq s.1 s.2) (t : Text) (h : exportText cqGates N c = .ok t) :
    ∃ p, CQ1.parseProgram t = .ok p ∧ p.nq = c.nq ∧ CQ1.programWf p = none ∧
      CQ1.programSem S nz p = some (dSeq c.nq nz (steps.flatMap (·.2)) (CQ1.initial c.nq)) := by
  unfold exportText at h
  rw [exportChunks_eq] at h
  cases hm : mapRes (exportOp cqGates N c.nq) c.ops with
  | err e => rw [hm] at h; cases h
  | panic => rw [hm] at h; cases h
  | ok lss =>
    rw [hm] at h
    simp only [Res.map'] at h
    injection h with h
    subst h
    rw [hc] at hm
    have hbody := exportOps_den N S val c.nq nz RB steps hs lss hm
    have e : chunksText (header c.nq ++ lss.flatten) =
        "version 1.0".toList ++ '\n' :: (("qubits ".toList ++ natText c.nq) ++ '\n' :: chunksText lss.flatten) := by
      simp [header, hpos, chunksText, List.append_assoc]
    rw [e]
    exact parseProgram_den S c.nq hpos nz _ _ hbody

end

/-! ### text and circuit -/

def mapOp (val : F → P) : XOp F → XOp P
  | .gate g bits => .gate (mapGate val g) bits
  | .cond control target g bits => .cond control target (mapGate val g) bits
  | .reset q => .reset q
  | .resetAll => .resetAll
  | .measure q c b => .measure q c b
  | .measureAll cbits b => .measureAll cbits b
  | .peek q c b => .peek q c b
  | .peekAll cbits b => .peekAll cbits b
  | .barrier bits => .barrier bits

/-- **`cq_equiv` on the class, for the exported TEXT**: under `ReadsBack` (number printer / reader), in a lawful
trigonometric context, for the non-zero test that keeps every branch: if every operation of the circuit is of the text
class (`TextOp`) and — read with the values of its numbers — of the semantic class (`FaithfulOpM`), and
`Circuit::c_qasm` returns a text, then the text parses into a well-formed program over the circuit's qubits, the program
has a meaning, the circuit has its Born branch list, and for EVERY register word the two densities are equal. -/
theorem text_equiv (h : LawfulAmp α P) (hh : Proofs.Unitaries.LawfulHalf α P) (hn : LawfulNegHalf α P)
    (hq : LawfulQuarter α P) (N : Num F) (S : CQ1.NumSem α P) (val : F → P) (RB : ReadsBack (α := α) N S val)
    (c : XCircuit F) (hpos : 0 < c.nq) (hn64 : c.nq ≤ 64) (nz : List α → Bool) (hnz : ∀ φ, nz φ = true)
    (steps : List (XOp F × List (DStmt α) × Sim.COp P)) (hc : c.ops = steps.map (·.1))
    (hT : ∀ s ∈ steps, TextOp (α := α) val c.nq s.1 s.2.1)
    (hF : ∀ s ∈ steps, FaithfulOpM c.nq nz (mapOp val s.1) s.2.1 s.2.2)
    (t : Text) (ht : exportText cqGates N c = .ok t) :
    ∃ p r1 r2, CQ1.parseProgram t = .ok p ∧ p.nq = c.nq ∧ CQ1.programWf p = none ∧
      CQ1.programSem S nz p = some r1 ∧
      Spec.branches c.nq nz (steps.map (·.2.2)) (CQ1.initial c.nq) = some r2 ∧
      ∀ w, CQ1.density (P := P) (2 ^ c.nq) r1 w = CQ1.density (P := P) (2 ^ c.nq) r2 w := by
  obtain ⟨p, h1, h2, h3, h4⟩ := exportText_den N S val nz RB c hpos (steps.map fun s => (s.1, s.2.1))
    (by rw [hc]; simp) (by
      intro s hs
      obtain ⟨x, hx, rfl⟩ := List.mem_map.mp hs
      exact hT x hx) t ht
  obtain ⟨r2, g1, g2⟩ := circuit_equiv_density h hh hn hq c.nq hn64 nz hnz
    (steps.map fun s => (mapOp val s.1, s.2.1, s.2.2)) (by
      intro s hs
      obtain ⟨x, hx, rfl⟩ := List.mem_map.mp hs
      exact hF x hx)
  have e1 : (steps.map fun s => (s.1, s.2.1)).flatMap (·.2) = steps.flatMap (·.2.1) := by simp [List.flatMap_map]
  have e2 : (steps.map fun s => (mapOp val s.1, s.2.1, s.2.2)).flatMap (·.2.1) = steps.flatMap (·.2.1) := by
    simp [List.flatMap_map]
  have e3 : (steps.map fun s => (mapOp val s.1, s.2.1, s.2.2)).map (·.2.2) = steps.map (·.2.2) := by simp
  rw [e1] at h4
  rw [e2] at g2
  rw [e3] at g1
  exact ⟨p, _, r2, h1, h2, h3, h4, g1, g2⟩

end Q1t.Proofs.CQasm

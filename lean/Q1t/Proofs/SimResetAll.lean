import Q1t.Proofs.SimBasisAll
/-!
C02: `reset_all`.  The simulator replaces every shot's state by `|0…0⟩`.  The reference semantics resets qubit
after qubit, each with a hidden outcome; among its candidates there is one of non-zero weight, and every such
candidate that survives all qubits is a multiple of `|0…0⟩`.  Needs, beyond `GateSemOK`, that a sum of two
weights is invertible only if one of them is (`LocalWeights`; true in every field, in particular in ℂ).
-/
set_option linter.unusedSectionVars false
namespace Q1t.Sim
open Q1t Q1t.Spec Prog

section
variable {α P : Type} [CommRing α] [Amp α P] [SimAmp α]
variable {n : Nat} {valid : GateTerm P → List Nat → Prop} {nz : α → Prop}

/-- if a sum of two amplitudes is invertible then one of them is (every field, every local ring) -/
def LocalWeights (α : Type) [CommRing α] : Prop :=
  ∀ a b : α, (∃ u, (a + b) * u = 1) → (∃ u, a * u = 1) ∨ (∃ u, b * u = 1)

/-- the embedded documented `X` on qubit `q` swaps the amplitudes of `r` and `r` with qubit `q` flipped -/
theorem getD_gateOn_X {q r : Nat} (hq : q < n) (hr : r < 2 ^ n) (v : List α) :
    (gateOn (P := P) n .X [q] v).getD r 0 = v.getD (flipBit n q r) 0 := by
  rw [gateOn_single _ hq, getD_app1 _ _ _ _ hr]
  have h2 := qbit_lt_two n q r
  have hX : (specMatrix (.X : GateTerm P) : LMat α) = [[0, 1], [1, 0]] := by
    simp [specMatrix, pauliX]
  rw [hX]
  by_cases h0 : qbit n q r = 0
  · simp [h0, LMat.get]
  · have h1 : qbit n q r = 1 := by omega
    simp [h1, LMat.get]

/-- one step of the reference `reset_all`: the candidates for qubit `q` -/
def resetCands (n q : Nat) (φ : List α) : List (List α) :=
  [project n q false φ, gateOn (P := P) n .X [q] (project n q true φ)]

/-- invariant of the chosen candidate after the qubits `< m`: right length, invertible weight, no amplitude on
an index having one of these qubits set -/
def ResetInv (n m : Nat) (φ : List α) : Prop :=
  φ.length = 2 ^ n ∧ (∃ u, normSqSum φ * u = 1) ∧
    ∀ r, r < 2 ^ n → (∃ q, q < m ∧ qbit n q r = 1) → φ.getD r 0 = 0

theorem resetInv_step (hs : LawfulSim α P nz) (hsem : GateSemOK α n valid) (hloc : LocalWeights α) {m : Nat}
    (hm : m < n) {φ : List α} (h : ResetInv n m φ) :
    ∃ φ' ∈ resetCands (P := P) n m φ, ResetInv n (m + 1) φ' := by
  obtain ⟨hlen, hunit, hzero⟩ := h
  have hsplit := normSqSum_split hs n m φ
  rw [← hsplit] at hunit
  have hX := (hsem.basis m hm).2.2.2
  rcases hloc _ _ hunit with h0 | h1
  · refine ⟨project n m false φ, by simp [resetCands], by rw [project_length, hlen], h0, ?_⟩
    intro r hr ⟨q, hq, hqr⟩
    rw [getD_project]
    by_cases hqm : q = m
    · subst hqm; simp [hqr]
    · split
      · exact hzero r hr ⟨q, by omega, hqr⟩
      · rfl
  · refine ⟨gateOn (P := P) n .X [m] (project n m true φ), by simp [resetCands], gateOn_length _ _ _ _, ?_, ?_⟩
    · rw [hsem.iso _ _ hX _ (by rw [project_length, hlen])]; exact h1
    · intro r hr ⟨q, hq, hqr⟩
      rw [getD_gateOn_X hm hr, getD_project]
      by_cases hqm : q = m
      · subst hqm
        have : qbit n q (flipBit n q r) = 0 := by rw [qbit_flipBit_self, hqr]
        simp [this]
      · split
        · apply hzero _ (flipBit_lt hm hr) ⟨q, by omega, ?_⟩
          rw [qbit_flipBit_other hm (by omega) hqm]; exact hqr
        · rfl

theorem resetAll_cand (hs : LawfulSim α P nz) (hsem : GateSemOK α n valid) (hloc : LocalWeights α) {ψ : List α}
    (hlen : ψ.length = 2 ^ n) (hunit : ∃ u, normSqSum ψ * u = 1) : ∀ m, m ≤ n →
    ∃ φ ∈ (List.range m).foldl (fun cands q => cands.flatMap fun φ => resetCands (P := P) n q φ) [ψ],
      ResetInv n m φ := by
  intro m
  induction m with
  | zero =>
    intro _
    exact ⟨ψ, by simp, hlen, hunit, fun r _ ⟨q, hq, _⟩ => absurd hq (Nat.not_lt_zero q)⟩
  | succ m ih =>
    intro hm
    obtain ⟨φ, hmem, hinv⟩ := ih (by omega)
    obtain ⟨φ', hmem', hinv'⟩ := resetInv_step hs hsem hloc (by omega) hinv
    refine ⟨φ', ?_, hinv'⟩
    rw [List.range_succ, List.foldl_append]
    simp only [List.foldl_cons, List.foldl_nil]
    exact List.mem_flatMap.mpr ⟨φ, hmem, hmem'⟩

theorem exists_qbit_one {r : Nat} (hr : r < 2 ^ n) (h0 : r ≠ 0) : ∃ q, q < n ∧ qbit n q r = 1 := by
  by_contra hcon
  apply h0
  apply (all_qbit_iff n r 0 hr (Nat.pow_pos (by decide))).mp
  rw [List.all_eq_true]
  intro q hq
  have hq' := List.mem_range.mp hq
  have h2 := qbit_lt_two n q r
  have : qbit n q r = 0 := by
    by_contra h1
    exact hcon ⟨q, hq', by omega⟩
  have hz : qbit n q 0 = 0 := by simp [qbit]
  simp [this, hz]

/-- a vector supported on index 0 with invertible weight is `|0…0⟩` up to a scalar -/
theorem rel_ket0_of_resetInv (ha : LawfulAmp α P) (hs : LawfulSim α P nz) {φ : List α} (h : ResetInv n n φ) :
    Rel n (ket0 n) φ := by
  obtain ⟨hlen, ⟨u, hu⟩, hzero⟩ := h
  have hφ : φ = (List.range (2 ^ n)).map fun r => if r = 0 then φ.getD 0 0 else 0 := by
    apply List.ext_getElem?
    intro r
    by_cases hr : r < 2 ^ n
    · rw [List.getElem?_map, List.getElem?_range hr, List.getElem?_eq_getElem (by rw [hlen]; exact hr)]
      simp only [Option.map_some, Option.some.injEq]
      by_cases h0 : r = 0
      · subst h0; simp [List.getD_eq_getElem?_getD, hlen]
      · rw [if_neg h0]
        have := hzero r hr (exists_qbit_one hr h0)
        rwa [List.getD_eq_getElem?_getD, List.getElem?_eq_getElem (by rw [hlen]; exact hr)] at this
    · rw [List.getElem?_eq_none (by rw [hlen]; omega), List.getElem?_eq_none (by simp; omega)]
  obtain ⟨x, hx⟩ : ∃ x, x = φ.getD 0 0 := ⟨_, rfl⟩
  rw [← hx] at hφ
  have hnorm : normSqSum φ = SimAmp.normSq x := by
    rw [hφ]
    simp only [normSqSum, List.map_map]
    have : (SimAmp.normSq ∘ fun r => if r = 0 then x else (0 : α)) = fun r => if r = 0 then SimAmp.normSq x else 0 := by
      funext r
      simp only [Function.comp]
      split
      · rfl
      · exact hs.normSq_zero
    rw [this, sum_range_ite, if_pos (Nat.pow_pos (by decide))]
  rw [hnorm, hs.normSq_eq] at hu
  refine ⟨hlen, normSqSum_ketIdx ha hs 0 (Nat.pow_pos (by decide)), Amp.conj P x * u, ?_⟩
  rw [hφ, List.map_map]
  simp only [ket0]
  apply List.map_congr_left
  intro r _
  simp only [Function.comp]
  split
  · rw [← hu]; ring
  · rw [zero_mul]

variable {sc : List α → Nat → Prop} {sb : Nat → α → Nat → Prop}

theorem refine_resetAll (ha : LawfulAmp α P) (hs : LawfulSim α P nz) (hsem : GateSemOK α n valid)
    (hloc : LocalWeights α) {nonzero : List α → Bool} {N : Nat} {s : VecState α} {c : List Nat}
    (hwf : WFState n N s c) {ds ds' : List Draw} {s' : VecState α} {c' : List Nat}
    (h : Runs sb sc (execOp (vecBackend (α := α) (P := P)) s c .resetAll) ds (.ok (s', c')) ds') :
    StepRefines n nonzero (.resetAll : COp P) s c s' c' := by
  intro i col w ψ hcol hw hwb hrel
  simp only [execOp, vecBackend] at h
  obtain ⟨e, _⟩ := runs_pure_iff.mp h
  simp only [Except.ok.injEq, Prod.mk.injEq] at e
  obtain ⟨rfl, rfl⟩ := e
  obtain ⟨_, _, _, hss⟩ := resetAll_shots s
  have hi : i < s.nrShots := by
    rw [← shotStates_length hwf.wfs]; exact (List.getElem?_eq_some_iff.mp hcol).1
  obtain ⟨φ, hmem, hinv⟩ := resetAll_cand (P := P) hs hsem hloc hrel.1 (hrel.weight ha hs) n (Nat.le_refl n)
  refine ⟨ket0 n, w, φ, ?_, hw, hwb, ?_, rel_ket0_of_resetInv ha hs hinv⟩
  · rw [hss, List.getElem?_replicate, if_pos hi, hwf.nrBits]
  · simp only [replayOp, ne_eq, not_true_eq_false, if_false, List.mem_map]
    exact ⟨φ, hmem, rfl⟩

end
end Q1t.Sim

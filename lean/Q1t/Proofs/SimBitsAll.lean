import Q1t.Proofs.SimRel
import Mathlib.Data.List.Nodup
/-!
C02, classical-register side of `measure_all_into_helper` / `peek_all_into` (vector backend): the word
`(w & !mask) | shuffle_bits(reverse_bits(idx), cbits)` stored for a shot whose sampled basis state is `idx`
(`writeAll`), read bit by bit with `Nat.testBit`:

* `writeAll_bit` — with distinct targets (D14 excluded), classical bit `cbits[q]` holds the value of qubit `q`;
* `writeAll_expected` — the stored word is the one the reference semantics (`Spec.replayOp`) expects;
* `writeAll_lt`, `setBitTo_spec` — words stay below `2^64`.
-/
namespace Q1t.Sim
open Q1t Q1t.Spec

/-- the word `measure_all_into_helper` stores for a shot whose sampled basis state is `idx` -/
def writeAll (n : Nat) (cbits : List Nat) (w idx : Nat) : Nat :=
  (w &&& ((2 ^ 64 - 1) ^^^ cbits.foldl (fun m b => m ||| (1 <<< b)) 0)) |||
    (shuffleBits (reverseBits idx n) cbits).getD 0

theorem testBit_foldl_or {ι : Type} (f : ι → Nat) (p : Nat) : ∀ (l : List ι) (a : Nat),
    (l.foldl (fun acc x => acc ||| f x) a).testBit p = (a.testBit p || l.any fun x => (f x).testBit p) := by
  intro l
  induction l with
  | nil => intro a; simp
  | cons x l ih => intro a; simp [ih, Nat.testBit_or, Bool.or_assoc]

theorem testBit_mask (cbits : List Nat) (p : Nat) :
    (cbits.foldl (fun m b => m ||| (1 <<< b)) 0).testBit p = decide (p ∈ cbits) := by
  rw [testBit_foldl_or (fun b => 1 <<< b)]
  simp only [Nat.zero_testBit, Bool.false_or]
  rw [Bool.eq_iff_iff]
  simp only [List.any_eq_true, decide_eq_true_eq, Nat.testBit_shiftLeft, Bool.and_eq_true, Nat.testBit_one_eq_true_iff_self_eq_zero]
  constructor
  · rintro ⟨b, hb, h1, h2⟩
    have : p = b := by omega
    exact this ▸ hb
  · intro h
    exact ⟨p, h, Nat.le_refl _, by simp⟩

theorem testBit_reverseBits (idx n j : Nat) :
    (reverseBits idx n).testBit j = (decide (j < n) && idx.testBit (n - 1 - j)) := by
  unfold reverseBits
  rw [testBit_foldl_or (fun i => ((idx >>> i) &&& 1) <<< (n - 1 - i))]
  simp only [Nat.zero_testBit, Bool.false_or]
  rw [Bool.eq_iff_iff]
  simp only [List.any_eq_true, List.mem_range, Nat.testBit_shiftLeft, Bool.and_eq_true, decide_eq_true_eq,
    Nat.testBit_and, Nat.testBit_shiftRight, Nat.testBit_one_eq_true_iff_self_eq_zero]
  constructor
  · rintro ⟨i, hi, h1, h2, h3⟩
    have e : n - 1 - j = i := by omega
    refine ⟨by omega, ?_⟩
    rw [e]
    have : i + (j - (n - 1 - i)) = i := by omega
    rwa [this] at h2
  · rintro ⟨h1, h2⟩
    refine ⟨n - 1 - j, by omega, by omega, ?_, by omega⟩
    have : n - 1 - j + (j - (n - 1 - (n - 1 - j))) = n - 1 - j := by omega
    rwa [this]

theorem testBit_perm (rev : Nat) (cbits : List Nat) (hc : ∀ b ∈ cbits, b < 64) (p : Nat) :
    ((shuffleBits rev cbits).getD 0).testBit p =
      cbits.zipIdx.any fun bi => decide (p = bi.1) && rev.testBit bi.2 := by
  have hall : cbits.all shiftOk = true := by
    simp only [List.all_eq_true, shiftOk, decide_eq_true_eq]; exact hc
  simp only [shuffleBits, hall, if_true, Option.getD_some]
  rw [testBit_foldl_or (fun (bi : Nat × Nat) => ((rev >>> bi.2) &&& 1) <<< bi.1)]
  simp only [Nat.zero_testBit, Bool.false_or]
  congr 1
  funext bi
  rw [Bool.eq_iff_iff]
  simp only [Nat.testBit_shiftLeft, Bool.and_eq_true, decide_eq_true_eq, Nat.testBit_and, Nat.testBit_shiftRight,
    Nat.testBit_one_eq_true_iff_self_eq_zero]
  constructor
  · rintro ⟨h1, h2, h3⟩
    have : p = bi.1 := by omega
    subst this
    simpa using h2
  · rintro ⟨rfl, h2⟩
    exact ⟨Nat.le_refl _, by simpa using h2, by simp⟩

theorem testBit_lt_of_lt {w k : Nat} (hw : w < 2 ^ 64) (h : w.testBit k = true) : k < 64 := by
  by_contra hk
  have : w < 2 ^ k := Nat.lt_of_lt_of_le hw (Nat.pow_le_pow_right (by decide) (by omega))
  rw [Nat.testBit_lt_two_pow this] at h
  cases h

theorem lt_of_testBit {w : Nat} (h : ∀ k, 64 ≤ k → w.testBit k = false) : w < 2 ^ 64 :=
  Nat.lt_pow_two_of_testBit w h

theorem testBit_allOnes (k : Nat) : (2 ^ 64 - 1 : Nat).testBit k = decide (k < 64) :=
  Nat.testBit_two_pow_sub_one 64 k

/-- on 64-bit words `setBitTo` is "set bit `p` to `v`" -/
theorem setBitTo_spec {w p : Nat} (v : Bool) (hw : w < 2 ^ 64) (hp : p < 64) :
    setBitTo w p v < 2 ^ 64 ∧ ∀ k, (setBitTo w p v).testBit k = if k = p then v else w.testBit k := by
  have key : ∀ k, (setBitTo w p v).testBit k = if k = p then v else w.testBit k := by
    intro k
    cases v
    · simp only [setBitTo, Bool.false_eq_true, if_false, Nat.testBit_and, Nat.testBit_xor, testBit_allOnes,
        Nat.testBit_shiftLeft]
      by_cases hk : k = p
      · subst hk; simp [hp]
      · have h1 : (decide (p ≤ k) && Nat.testBit 1 (k - p)) = false := by
          rw [Bool.and_eq_false_iff]
          by_cases hle : p ≤ k
          · right
            have : k - p ≠ 0 := by omega
            cases h : Nat.testBit 1 (k - p)
            · rfl
            · exact absurd (Nat.testBit_one_eq_true_iff_self_eq_zero.mp h) this
          · left; simp [hle]
        rw [h1, if_neg hk]
        cases hb : w.testBit k
        · simp
        · simp [testBit_lt_of_lt hw hb]
    · simp only [setBitTo, if_true, Nat.testBit_or, Nat.testBit_shiftLeft]
      by_cases hk : k = p
      · subst hk; simp
      · have h1 : (decide (p ≤ k) && Nat.testBit 1 (k - p)) = false := by
          rw [Bool.and_eq_false_iff]
          by_cases hle : p ≤ k
          · right
            have : k - p ≠ 0 := by omega
            cases h : Nat.testBit 1 (k - p)
            · rfl
            · exact absurd (Nat.testBit_one_eq_true_iff_self_eq_zero.mp h) this
          · left; simp [hle]
        rw [h1, if_neg hk]; simp
  refine ⟨lt_of_testBit fun k hk => ?_, key⟩
  rw [key, if_neg (by omega)]
  cases hb : w.testBit k
  · rfl
  · exact absurd (testBit_lt_of_lt hw hb) (by omega)

/-- writing, for each listed position, the bit a target word has there -/
theorem foldl_setBitTo_spec (w' : Nat) : ∀ (L : List Nat) (w : Nat), w < 2 ^ 64 → (∀ p ∈ L, p < 64) →
    (L.foldl (fun acc p => setBitTo acc p (w'.testBit p)) w) < 2 ^ 64 ∧
    ∀ k, (L.foldl (fun acc p => setBitTo acc p (w'.testBit p)) w).testBit k =
      if k ∈ L then w'.testBit k else w.testBit k := by
  intro L
  induction L with
  | nil => intro w hw _; exact ⟨hw, fun k => by simp⟩
  | cons p L ih =>
    intro w hw hL
    obtain ⟨h1, h2⟩ := setBitTo_spec (w'.testBit p) hw (hL p List.mem_cons_self)
    obtain ⟨h3, h4⟩ := ih _ h1 (fun q hq => hL q (List.mem_cons_of_mem _ hq))
    refine ⟨h3, fun k => ?_⟩
    rw [List.foldl_cons, h4, h2]
    by_cases hk : k ∈ L
    · simp [hk]
    · by_cases hkp : k = p
      · subst hkp; simp [hk]
      · simp [hk, hkp]

theorem writeAll_testBit (n : Nat) (cbits : List Nat) (hc : ∀ b ∈ cbits, b < 64) (w idx k : Nat) :
    (writeAll n cbits w idx).testBit k =
      ((w.testBit k && (decide (k < 64) ^^ decide (k ∈ cbits))) ||
        cbits.zipIdx.any fun bi => decide (k = bi.1) && (reverseBits idx n).testBit bi.2) := by
  simp only [writeAll, Nat.testBit_or, Nat.testBit_and, Nat.testBit_xor, testBit_allOnes, testBit_mask,
    testBit_perm _ _ hc]

theorem writeAll_lt (n : Nat) (cbits : List Nat) (hc : ∀ b ∈ cbits, b < 64) (w idx : Nat) :
    writeAll n cbits w idx < 2 ^ 64 := by
  apply lt_of_testBit
  intro k hk
  rw [writeAll_testBit n cbits hc]
  have h1 : decide (k < 64) = false := by simp; omega
  have h2 : decide (k ∈ cbits) = false := by
    simp only [decide_eq_false_iff_not]; intro h; have := hc k h; omega
  rw [h1, h2]
  simp only [Bool.xor_false, Bool.and_false, Bool.false_or]
  rw [Bool.eq_false_iff]
  intro h
  simp only [List.any_eq_true, Bool.and_eq_true, decide_eq_true_eq] at h
  obtain ⟨bi, hbi, rfl, _⟩ := h
  have hm : bi.1 ∈ cbits := List.mem_iff_getElem?.mpr ⟨bi.2, List.mem_zipIdx_iff_getElem?.mp hbi⟩
  have := hc bi.1 hm
  omega

/-- with distinct targets, classical bit `cbits[q]` of the stored word is the value of qubit `q` in the
sampled basis state -/
theorem writeAll_bit (n : Nat) (cbits : List Nat) (hc : ∀ b ∈ cbits, b < 64) (hnd : cbits.Nodup)
    (hlen : cbits.length = n) (w idx q : Nat) (hq : q < n) :
    bitOf (writeAll n cbits w idx) (cbits.getD q 0) = (qbit n q idx == 1) := by
  have hq' : q < cbits.length := hlen ▸ hq
  have hget : cbits.getD q 0 = cbits[q] := by simp [List.getD_eq_getElem?_getD, hq']
  have hmem : cbits[q] ∈ cbits := List.getElem_mem hq'
  rw [bitOf_eq_testBit, writeAll_testBit n cbits hc, hget]
  have h64 : cbits[q] < 64 := hc _ hmem
  simp only [h64, hmem, decide_true, Bool.xor_self, Bool.and_false, Bool.false_or]
  have hany : (cbits.zipIdx.any fun bi => decide (cbits[q] = bi.1) && (reverseBits idx n).testBit bi.2) =
      (reverseBits idx n).testBit q := by
    rw [Bool.eq_iff_iff]
    simp only [List.any_eq_true, Bool.and_eq_true, decide_eq_true_eq]
    constructor
    · rintro ⟨bi, hbi, h1, h2⟩
      have hb := List.mem_zipIdx_iff_getElem?.mp hbi
      obtain ⟨hlt, hb'⟩ := List.getElem?_eq_some_iff.mp hb
      have : q = bi.2 := (hnd.getElem_inj_iff (hi := hq') (hj := hlt)).mp (by rw [hb', h1])
      rw [this]; exact h2
    · intro h
      exact ⟨(cbits[q], q), List.mem_zipIdx_iff_getElem?.mpr (by simp [hq']), rfl, h⟩
  rw [hany, testBit_reverseBits]
  simp only [hq, decide_true, Bool.true_and]
  have : qbit n q idx = (idx.testBit (n - 1 - q)).toNat := by
    rw [Nat.toNat_testBit, qbit, Nat.shiftRight_eq_div_pow]
  rw [this]
  cases idx.testBit (n - 1 - q) <;> rfl

/-- the word stored by `measure_all` is what the reference semantics expects: writing, qubit by qubit, the
outcome read off the stored word reproduces the stored word (64-bit words, targets below 64) -/
theorem writeAll_expected (n : Nat) (cbits : List Nat) (hc : ∀ b ∈ cbits, b < 64) (hlen : cbits.length = n)
    (w idx : Nat) (hw : w < 2 ^ 64) :
    (List.range n).foldl (fun acc q => writeBit acc (cbits.getD q 0)
      (bitOf (writeAll n cbits w idx) (cbits.getD q 0))) w = writeAll n cbits w idx := by
  have e1 : (List.range n).foldl (fun acc q => writeBit acc (cbits.getD q 0)
      (bitOf (writeAll n cbits w idx) (cbits.getD q 0))) w =
      ((List.range n).map (fun q => cbits.getD q 0)).foldl
        (fun acc p => setBitTo acc p ((writeAll n cbits w idx).testBit p)) w := by
    rw [List.foldl_map]
    simp only [writeBit, bitOf_eq_testBit]
  rw [e1, range_map_getD' cbits 0 n hlen.symm]
  obtain ⟨_, h2⟩ := foldl_setBitTo_spec (writeAll n cbits w idx) cbits w hw hc
  apply Nat.eq_of_testBit_eq
  intro k
  rw [h2]
  by_cases hk : k ∈ cbits
  · rw [if_pos hk]
  · rw [if_neg hk, writeAll_testBit n cbits hc]
    have hany : (cbits.zipIdx.any fun bi => decide (k = bi.1) && (reverseBits idx n).testBit bi.2) = false := by
      rw [Bool.eq_false_iff]
      intro h
      simp only [List.any_eq_true, Bool.and_eq_true, decide_eq_true_eq] at h
      obtain ⟨bi, hbi, rfl, _⟩ := h
      exact hk (List.mem_iff_getElem?.mpr ⟨bi.2, List.mem_zipIdx_iff_getElem?.mp hbi⟩)
    rw [hany]
    simp only [hk, decide_false, Bool.xor_false, Bool.or_false]
    cases hb : w.testBit k
    · rfl
    · simp [testBit_lt_of_lt hw hb]

end Q1t.Sim

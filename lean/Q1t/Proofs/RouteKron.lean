import Q1t.Proofs.RoutePrim
import Q1t.Proofs.Perm
/-!
# C04 (b): Kronecker products — the matrix `LMat.kron`, and the vector route of `Kron`
(first factor on the whole state, second factor on each of the `d0` blocks)
-/
namespace Q1t.Proofs.Route
open Q1t Q1t.Gate Q1t.Spec
variable {α : Type} [CommRing α]
set_option linter.unusedSectionVars false

theorem sum_range_mul (d0 d1 : Nat) (f : Nat → α) :
    ∑ c ∈ Finset.range (d0 * d1), f c = ∑ c0 ∈ Finset.range d0, ∑ c1 ∈ Finset.range d1, f (c0 * d1 + c1) := by
  induction d0 with
  | zero => simp
  | succ d0 ih => rw [Nat.succ_mul, Finset.sum_range_add, ih, Finset.sum_range_succ]

theorem list_eq_range_map {β} (l : List β) (d : Nat) (hl : l.length = d) (dflt : β) :
    l = (List.range d).map fun i => l.getD i dflt := by
  apply List.ext_getElem
  · simp [hl]
  · intro i h1 h2; simp [List.getD_eq_getElem?_getD, List.getElem?_eq_getElem h1]

/-- the rows of `LMat.kron a b`, as a table -/
theorem kron_eq (a b : LMat α) (d0 d1 : Nat) (ha : WFMat d0 a) (hb : WFMat d1 b) :
    LMat.kron a b = (List.range (d0 * d1)).map fun r => (List.range (d0 * d1)).map fun c =>
      LMat.get b (r % d1) (c % d1) * LMat.get a (r / d1) (c / d1) := by
  unfold LMat.kron
  conv_lhs => rw [list_eq_range_map a d0 ha.1 [], List.flatMap_map]
  conv_lhs => arg 1; ext i; rw [list_eq_range_map b d1 hb.1 [], List.map_map]
  simp only [Function.comp_def]
  rw [flatMap_range_uniform d0 d1 (fun i0 i1 => (a.getD i0 []).flatMap fun x => (b.getD i1 []).map fun y => y * x)]
  apply List.map_congr_left
  intro r hr
  have hr' : r < d0 * d1 := List.mem_range.1 hr
  have hd1 : 0 < d1 := by
    rcases Nat.eq_zero_or_pos d1 with h | h
    · subst h; simp at hr'
    · exact h
  have hi0 : r / d1 < d0 := by rw [Nat.div_lt_iff_lt_mul hd1]; exact hr'
  have hi1 : r % d1 < d1 := Nat.mod_lt _ hd1
  have hra : (a.getD (r / d1) []).length = d0 := by
    rw [List.getD_eq_getElem?_getD, List.getElem?_eq_getElem (by rw [ha.1]; exact hi0)]
    exact ha.2 _ (List.getElem_mem _)
  have hrb : (b.getD (r % d1) []).length = d1 := by
    rw [List.getD_eq_getElem?_getD, List.getElem?_eq_getElem (by rw [hb.1]; exact hi1)]
    exact hb.2 _ (List.getElem_mem _)
  conv_lhs => rw [list_eq_range_map (a.getD (r / d1) []) d0 hra 0, List.flatMap_map]
  conv_lhs => arg 1; ext i; rw [list_eq_range_map (b.getD (r % d1) []) d1 hrb 0, List.map_map]
  simp only [Function.comp_def]
  rw [flatMap_range_uniform d0 d1 (fun c0 c1 => (b.getD (r % d1) []).getD c1 0 * (a.getD (r / d1) []).getD c0 0)]
  rfl

theorem kron_wf (a b : LMat α) (d0 d1 : Nat) (ha : WFMat d0 a) (hb : WFMat d1 b) :
    WFMat (d0 * d1) (LMat.kron a b) := by
  rw [kron_eq a b d0 d1 ha hb]
  refine ⟨by simp, ?_⟩
  intro row hrow
  obtain ⟨_, _, rfl⟩ := List.mem_map.1 hrow
  simp

theorem get_kron (a b : LMat α) (d0 d1 : Nat) (ha : WFMat d0 a) (hb : WFMat d1 b) (r c : Nat)
    (hr : r < d0 * d1) (hc : c < d0 * d1) :
    LMat.get (LMat.kron a b) r c = LMat.get b (r % d1) (c % d1) * LMat.get a (r / d1) (c / d1) := by
  rw [kron_eq a b d0 d1 ha hb]
  simp [LMat.get, List.getD_eq_getElem?_getD, hr, hc]


/-! ## a route applied to each of `nb` blocks -/

theorem blocksMap_spec {R : Type} (nb L : Nat) (hnb : nb ≠ 0) (v : List R) (hlen : v.length = nb * L)
    (f : List R → Option (List R)) (F : Nat → List R)
    (hf : ∀ i, i < nb → f ((v.drop (i * L)).take L) = some (F i)) :
    ((blocks nb v).bind fun bs => (bs.mapM f).map List.flatten) =
      some ((List.range nb).map F).flatten := by
  rw [blocks_spec nb L v hnb hlen, Option.bind_some]
  rw [Q1t.Proofs.Perm.mapM_eq_some_map f (fun b => (f b).getD []) _ (by
    intro b hb
    obtain ⟨i, hi, rfl⟩ := List.mem_map.1 hb
    rw [hf i (List.mem_range.1 hi)]; rfl)]
  rw [Option.map_some, List.map_map]
  congr 2
  apply List.map_congr_left
  intro i hi
  simp only [Function.comp, hf i (List.mem_range.1 hi), Option.getD_some]

theorem flatten_uniform_length {R : Type} (nb L : Nat) (F : Nat → List R) (hF : ∀ i, i < nb → (F i).length = L) :
    ((List.range nb).map F).flatten.length = nb * L := by
  induction nb with
  | zero => simp
  | succ nb ih =>
    rw [List.range_succ, List.map_append, List.flatten_append, List.length_append,
      ih (fun i hi => hF i (by omega))]
    simp [hF nb (by omega), Nat.succ_mul]

theorem stateEntry_flatten_uniform (m : Mode) (nb L : Nat) (F : Nat → List (Row α m))
    (hF : ∀ i, i < nb → (F i).length = L) (r col : Nat) (hr : r < nb * L) :
    stateEntry m ((List.range nb).map F).flatten r col = stateEntry m (F (r / L)) (r % L) col := by
  induction nb with
  | zero => simp at hr
  | succ nb ih =>
    have hL : 0 < L := by
      rcases Nat.eq_zero_or_pos L with h | h
      · subst h; simp at hr
      · exact h
    rw [List.range_succ, List.map_append, List.flatten_append, stateEntry_append,
      flatten_uniform_length nb L F (fun i hi => hF i (by omega))]
    by_cases h : r < nb * L
    · rw [if_pos h]; exact ih (fun i hi => hF i (by omega)) h
    · rw [if_neg h]
      have hge : nb * L ≤ r := Nat.le_of_not_lt h
      rw [Nat.succ_mul] at hr
      obtain ⟨k, hk⟩ : ∃ k, r = k + nb * L := ⟨r - nb * L, by omega⟩
      have hkL : k < L := by omega
      have hdiv : r / L = nb := by
        rw [hk, Nat.add_mul_div_right _ _ hL, Nat.div_eq_of_lt hkL, Nat.zero_add]
      have hmod : r % L = r - nb * L := by
        rw [hk, Nat.add_mul_mod_self_right, Nat.mod_eq_of_lt hkL]; omega
      rw [hdiv, hmod]
      simp

theorem flatten_uniform_rowsW (m : Mode) (w nb : Nat) (F : Nat → List (Row α m))
    (hF : ∀ i, i < nb → RowsW m w (F i)) : RowsW m w ((List.range nb).map F).flatten := by
  intro r hr
  obtain ⟨l, hl, hrl⟩ := List.mem_flatten.1 hr
  obtain ⟨i, hi, rfl⟩ := List.mem_map.1 hl
  exact hF i (List.mem_range.1 hi) r hrl

/-! ## the vector route of `Kron` -/

theorem kron_blocks_spec (m : Mode) (w : Nat) (hw : OkWidth m w) (M0 M1 : LMat α) (d0 d1 : Nat)
    (h0 : WFMat d0 M0) (h1 : WFMat d1 M1) (t : Nat) (v : List (Row α m))
    (hlen : v.length = d0 * d1 * t) (_hv : RowsW m w v) :
    ((List.range d0).map fun i =>
        blockMul m w M1 t (((blockMul m w M0 (d1 * t) v).drop (i * (d1 * t))).take (d1 * t))).flatten =
      blockMul m w (LMat.kron M0 M1) t v := by
  have hK := kron_wf M0 M1 d0 d1 h0 h1
  have hFl : ∀ i, i < d0 → (blockMul m w M1 t (((blockMul m w M0 (d1 * t) v).drop (i * (d1 * t))).take (d1 * t))).length = d1 * t := by
    intro i _; rw [blockMul_length, h1.1]
  apply state_ext m w
  · rw [flatten_uniform_length d0 (d1 * t) _ hFl, blockMul_length, hK.1]; ring
  · exact flatten_uniform_rowsW m w d0 _ (fun i _ => blockMul_rowsW m w hw _ _ _)
  · exact blockMul_rowsW m w hw _ _ _
  · intro r col hr hcol
    rw [flatten_uniform_length d0 (d1 * t) _ hFl] at hr
    have ht : 0 < t := by
      rcases Nat.eq_zero_or_pos t with h | h
      · subst h; simp at hr
      · exact h
    have hd1 : 0 < d1 := by
      rcases Nat.eq_zero_or_pos d1 with h | h
      · subst h; simp at hr
      · exact h
    have hL : 0 < d1 * t := Nat.mul_pos hd1 ht
    set i0 := r / (d1 * t) with hi0
    set r' := r % (d1 * t) with hr'
    have hi0lt : i0 < d0 := by rw [hi0, Nat.div_lt_iff_lt_mul hL]; exact hr
    have hr'lt : r' < d1 * t := Nat.mod_lt _ hL
    set i1 := r' / t with hi1
    set j := r' % t with hj
    have hi1lt : i1 < d1 := by rw [hi1, Nat.div_lt_iff_lt_mul ht]; exact hr'lt
    have hjlt : j < t := Nat.mod_lt _ ht
    have hrsplit : r = (i0 * d1 + i1) * t + j := by
      have a1 : r = i0 * (d1 * t) + r' := (Nat.div_add_mod' r (d1 * t)).symm
      have a2 : r' = i1 * t + j := (Nat.div_add_mod' r' t).symm
      rw [a1, a2]; ring
    have hrt : r / t = i0 * d1 + i1 := by
      rw [hrsplit, Nat.add_comm, Nat.add_mul_div_right _ _ ht, Nat.div_eq_of_lt hjlt, Nat.zero_add]
    have hrm : r % t = j := by
      rw [hrsplit, Nat.add_comm, Nat.add_mul_mod_self_right, Nat.mod_eq_of_lt hjlt]
    rw [stateEntry_flatten_uniform m d0 (d1 * t) _ hFl r col hr,
      blockMul_entry m w hw M1 t _ _ col (by rw [h1.1]; exact hr'lt) hcol, h1.1,
      blockMul_entry m w hw _ t v r col (by rw [hK.1]; rw [← hrsplit] at *; linarith [hr, Nat.mul_assoc d0 d1 t]) hcol,
      hK.1, sum_range_mul, hrt, hrm, ← hi0, ← hr', ← hi1, ← hj]
    -- inner blocks: entries of the first stage
    have hin : ∀ c1, c1 < d1 →
        stateEntry m (((blockMul m w M0 (d1 * t) v).drop (i0 * (d1 * t))).take (d1 * t)) (c1 * t + j) col =
          ∑ c0 ∈ Finset.range d0, LMat.get M0 i0 c0 * stateEntry m v ((c0 * d1 + c1) * t + j) col := by
      intro c1 hc1
      have hk : c1 * t + j < d1 * t := by
        have := Nat.mul_le_mul_right t (Nat.succ_le_of_lt hc1); rw [Nat.succ_mul] at this; omega
      rw [stateEntry_block _ _ _ _ _ _ hk,
        blockMul_entry m w hw M0 (d1 * t) v _ col (by
          rw [h0.1]
          have := Nat.mul_le_mul_right (d1 * t) (Nat.succ_le_of_lt hi0lt); rw [Nat.succ_mul] at this; omega) hcol, h0.1]
      have e1 : (i0 * (d1 * t) + (c1 * t + j)) / (d1 * t) = i0 := by
        rw [Nat.add_comm, Nat.add_mul_div_right _ _ hL, Nat.div_eq_of_lt hk, Nat.zero_add]
      have e2 : (i0 * (d1 * t) + (c1 * t + j)) % (d1 * t) = c1 * t + j := by
        rw [Nat.add_comm, Nat.add_mul_mod_self_right, Nat.mod_eq_of_lt hk]
      rw [e1, e2]
      apply Finset.sum_congr rfl
      intro c0 _
      congr 2; ring
    rw [Finset.sum_comm]
    apply Finset.sum_congr rfl
    intro c1 hc1
    have hc1' : c1 < d1 := Finset.mem_range.1 hc1
    rw [hin c1 hc1', Finset.mul_sum]
    apply Finset.sum_congr rfl
    intro c0 hc0
    have hc0' : c0 < d0 := Finset.mem_range.1 hc0
    have hrow : i0 * d1 + i1 < d0 * d1 := by
      have := Nat.mul_le_mul_right d1 (Nat.succ_le_of_lt hi0lt); rw [Nat.succ_mul] at this; omega
    have hcol' : c0 * d1 + c1 < d0 * d1 := by
      have := Nat.mul_le_mul_right d1 (Nat.succ_le_of_lt hc0'); rw [Nat.succ_mul] at this; omega
    rw [get_kron M0 M1 d0 d1 h0 h1 _ _ hrow hcol']
    have q1 : (i0 * d1 + i1) % d1 = i1 := by
      rw [Nat.add_comm, Nat.add_mul_mod_self_right, Nat.mod_eq_of_lt hi1lt]
    have q2 : (i0 * d1 + i1) / d1 = i0 := by
      rw [Nat.add_comm, Nat.add_mul_div_right _ _ hd1, Nat.div_eq_of_lt hi1lt, Nat.zero_add]
    have q3 : (c0 * d1 + c1) % d1 = c1 := by
      rw [Nat.add_comm, Nat.add_mul_mod_self_right, Nat.mod_eq_of_lt hc1']
    have q4 : (c0 * d1 + c1) / d1 = c0 := by
      rw [Nat.add_comm, Nat.add_mul_div_right _ _ hd1, Nat.div_eq_of_lt hc1', Nat.zero_add]
    rw [q1, q2, q3, q4]
    ring


end Q1t.Proofs.Route

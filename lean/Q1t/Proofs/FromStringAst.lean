import Q1t.Proofs.FromStringAssembled
/-!
C15, part 7: the round trip stated for arguments given as abstract syntax trees with a layout for the conventional
renderer of C14 (`layOut`), instead of concrete syntax trees.  (Core Lean only.)
-/
namespace Q1t.Proofs.FromString
open Q1t Q1t.FromString Q1t.Spec.FromString
open Q1t.Expr (FloatOps)
open Q1t.Spec.ExprGrammar (Ast Layout layOut Cst Conv evalConv)
open Q1t.Proofs.Expr (interpOf layOut_spec)

/-- An argument given as an abstract syntax tree and a layout for the conventional renderer of C14. -/
structure ArgA where
  a : Ast
  l : Layout
  wAfter : List Char

def ArgA.toL (x : ArgA) : ArgL := ⟨(layOut x.a 0 x.l).1, x.wAfter⟩

theorem argA_good {x : ArgA} (hwf : x.a.WF = true) (hl : x.l.OK) :
    x.toL.c.WF = true ∧ Conv x.toL.c = true ∧ x.toL.c.bigInt = x.a.bigInt ∧ x.toL.c.toAst = x.a := by
  obtain ⟨⟨g1, g2, g3, g4, _⟩, _⟩ := layOut_spec x.a 0 x.l (by omega) hl hwf
  exact ⟨g3, g2, g4, g1⟩

end Q1t.Proofs.FromString

namespace Q1t.Proofs.FromString
open Q1t Q1t.FromString Q1t.Spec.FromString
open Q1t.Expr (FloatOps)
open Q1t.Spec.ExprGrammar (Ast Layout layOut Cst Conv evalConv)
open Q1t.Proofs.Expr (interpOf layOut_spec)

/-- A sub-gate description whose arguments are abstract syntax trees with a layout for the conventional renderer. -/
structure PartA where
  w0 : List Char
  name : List Char
  wOpen : List Char
  args : List ArgA
  bits : List BitL
  wEnd : List Char

def PartA.toL (p : PartA) : PartL := ⟨p.w0, p.name, p.wOpen, p.args.map ArgA.toL, p.bits, p.wEnd⟩

/-- Layout conditions (as `PartL.WF`), well-formed tokens, no integer literal ≥ 2^64. -/
def PartA.OK (p : PartA) : Prop :=
  allBlank p.w0 = true ∧ isIdent p.name = true ∧ allBlank p.wOpen = true ∧ allBlank p.wEnd = true ∧
  (∀ x ∈ p.args, x.a.WF = true ∧ x.a.bigInt = false ∧ x.l.OK ∧ allBlank x.wAfter = true) ∧
  (∀ b ∈ p.bits, allBlank b.w = true) ∧
  (match p.bits with
   | [] => True
   | b :: more => (p.args ≠ [] ∨ b.w ≠ []) ∧ ∀ b ∈ more, b.w ≠ [])

theorem partA_wf {p : PartA} (h : p.OK) : p.toL.WF = true ∧ p.toL.bigInt = false := by
  obtain ⟨h0, hn, ho, he, ha, hb, hl⟩ := h
  constructor
  · simp only [PartL.WF, PartA.toL, Bool.and_eq_true, List.all_eq_true, List.mem_map, forall_exists_index, and_imp,
      forall_apply_eq_imp_iff₂]
    refine ⟨⟨⟨⟨⟨⟨h0, hn⟩, ho⟩, he⟩, ?_⟩, hb⟩, ?_⟩
    · intro x hx
      obtain ⟨h1, h2, h3, h4⟩ := ha x hx
      obtain ⟨g1, g2, _, _⟩ := argA_good h1 h3
      exact ⟨⟨g1, g2⟩, h4⟩
    · cases hbits : p.bits with
      | nil => rfl
      | cons b more =>
        rw [hbits] at hl
        simp only [Bool.and_eq_true, Bool.or_eq_true, Bool.not_eq_true', List.isEmpty_eq_false_iff, List.all_eq_true,
          List.isEmpty_map, ne_eq] at hl ⊢
        exact ⟨hl.1, hl.2⟩
  · simp only [PartL.bigInt, PartA.toL, List.any_eq_false, List.mem_map, forall_exists_index, and_imp,
      forall_apply_eq_imp_iff₂]
    intro x hx
    obtain ⟨h1, h2, h3, _⟩ := ha x hx
    obtain ⟨_, _, g3, _⟩ := argA_good h1 h3
    rw [g3, h2]; simp

theorem params_toL {F : Type} (J : Q1t.Spec.ExprGrammar.Interp F) {p : PartA} (h : p.OK) :
    p.toL.params J = p.args.map (fun x => evalConv J x.a) := by
  simp only [PartL.params, PartA.toL, List.map_map]
  apply List.map_congr_left
  intro x hx
  obtain ⟨h1, _, h3, _⟩ := h.2.2.2.2.1 x hx
  obtain ⟨_, _, _, g4⟩ := argA_good h1 h3
  simp only [Function.comp, g4]

end Q1t.Proofs.FromString

namespace Q1t.Proofs.FromString
open Q1t Q1t.FromString Q1t.Spec.FromString
open Q1t.Expr (FloatOps)
open Q1t.Proofs.Expr (interpOf)

theorem render_ast_gen {F : Type} (I : FloatOps F) (hneg : ∀ x, I.neg (I.neg x) = x) (name : String)
    (ps : List PartA) (hne : ps ≠ [])
    (h : ∀ p ∈ ps, p.OK ∧ p.toL.Matches = true ∧ ∀ b ∈ p.bits, b.val + 1 < 2 ^ 64) :
    ∃ ops, expectedOps (interpOf I) (ps.map PartA.toL) = some ops ∧
      fromString I genTables name (renderDesc (ps.map PartA.toL)) =
        .ok (.Composite name (maxIndex (ps.map PartA.toL) + 1) ops) := by
  apply render_gen I hneg name (ps.map PartA.toL) (by simpa using hne)
  intro q hq
  obtain ⟨p, hp, rfl⟩ := List.mem_map.mp hq
  obtain ⟨h1, h2, h3⟩ := h p hp
  exact ⟨(partA_wf h1).1, h2, (partA_wf h1).2, h3⟩

end Q1t.Proofs.FromString

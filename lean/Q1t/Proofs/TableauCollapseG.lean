import Q1t.Proofs.TableauNormG
set_option linter.unusedSectionVars false
set_option linter.unusedVariables false
set_option linter.unusedSimpArgs false
/-!
C03, general-ring part 7 (all `n`): `measure` reporting `Random(i)` and `collapse`.

* `Random(i)`: row `i` has X/Y on the qubit and is the last such row; it exchanges the two projections of the
  stabilized vector, so both have the same squared norm, half of the total (anticommuting-generator argument);
* `collapse(i, q, v)` after `Random(i)`: the rows multiplied by row `i` lose their X/Y on `q`, so every row but
  `i` commutes with the projector and fixes `P_v ψ`; row `i` becomes `(−1)^v Z_q`, which fixes `P_v ψ`; then
  `normalize`.  Hence the result stabilizes `P_v ψ`.
-/
namespace Q1t.Proofs.TabG
open Q1t Q1t.Tableau Q1t.Spec Q1t.Spec.Pauli Q1t.Proofs.Tableau Q1t.Sim

variable {α A : Type} [CommRing α] [Amp α A]

/-! ### what `measure` inspects -/

theorem revRange_succ (n : Nat) : Tab.revRange (n + 1) = n :: Tab.revRange n := by
  simp [Tab.revRange, List.range_succ]

theorem findLast_rev (sel : P → Bool) (t : Tab) (bit : Nat) : ∀ (n : Nat) (res : Option Nat),
    Tab.findLast sel t bit (Tab.revRange n) = .ok res →
      (∀ i, res = some i → i < n ∧ (∃ p, t.cell i bit = .ok p ∧ sel p = true) ∧
        ∀ k, i < k → k < n → ∃ p, t.cell k bit = .ok p ∧ sel p = false) ∧
      (res = none → ∀ k, k < n → ∃ p, t.cell k bit = .ok p ∧ sel p = false) := by
  intro n
  induction n with
  | zero =>
    intro res hres
    simp [Tab.revRange, Tab.findLast] at hres
    subst hres
    exact ⟨fun i hi => by simp at hi, fun _ k hk => by omega⟩
  | succ n ih =>
    intro res hres
    rw [revRange_succ] at hres
    simp only [Tab.findLast, bind] at hres
    obtain ⟨p, hp, hres⟩ := bind_ok hres
    split at hres
    · rename_i hsel
      cases hres
      refine ⟨fun i hi => ?_, fun hn => by cases hn⟩
      cases hi
      exact ⟨by omega, ⟨p, hp, hsel⟩, fun k h1 h2 => by omega⟩
    · rename_i hsel
      obtain ⟨ih1, ih2⟩ := ih res hres
      have hselp : sel p = false := by simpa using hsel
      refine ⟨fun i hi => ?_, fun hn k hk => ?_⟩
      · obtain ⟨h1, h2, h3⟩ := ih1 i hi
        refine ⟨by omega, h2, fun k hk1 hk2 => ?_⟩
        by_cases hkn : k = n
        · subst hkn; exact ⟨p, hp, hselp⟩
        · exact h3 k hk1 (by omega)
      · by_cases hkn : k = n
        · subst hkn; exact ⟨p, hp, hselp⟩
        · exact ih2 hn k (by omega)

theorem cell_ok_xAt (t : Tab) (k q : Nat) (p : P) (hc : t.cell k q = .ok p) :
    ∃ r, t.rows[k]? = some r ∧ r[q]? = some p ∧ xAt r q = p.hasX := by
  simp only [Tab.cell, Tab.row, bind] at hc
  obtain ⟨r, hr, hc⟩ := bind_ok hc
  have hr' := ofOption_ok hr
  have hc' := ofOption_ok hc
  exact ⟨r, hr', hc', by simp [xAt, hc']⟩

/-- what `Random(i)` means structurally: `q` and `i` are in range, row `i` has X/Y at `q`, later rows do not -/
theorem measure_random_inv (t : Tab) (q i : Nat) (hm : t.measure q = .ok (.random i)) :
    q < t.n ∧ i < t.n ∧ (∃ r, t.rows[i]? = some r ∧ xAt r q = true) ∧
      ∀ k, i < k → k < t.n → ∃ r, t.rows[k]? = some r ∧ xAt r q = false := by
  unfold Tab.measure at hm
  split at hm
  case isFalse => cases hm
  rename_i hq
  simp only [bind] at hm
  obtain ⟨res, hres, hm⟩ := bind_ok hm
  obtain ⟨h1, h2⟩ := findLast_rev P.hasX t q t.n res hres
  cases res with
  | none =>
    simp only [] at hm
    obtain ⟨res2, _, hm⟩ := bind_ok hm
    cases res2 with
    | none => cases hm
    | some j =>
      simp only [] at hm
      obtain ⟨_, _, hm⟩ := bind_ok hm
      cases hm
  | some j =>
    simp only [pure] at hm
    cases hm
    obtain ⟨hj, ⟨p, hp, hsel⟩, hlater⟩ := h1 i rfl
    refine ⟨hq, hj, ?_, fun k hk1 hk2 => ?_⟩
    · obtain ⟨r, hr, _, hx⟩ := cell_ok_xAt t i q p hp
      exact ⟨r, hr, by rw [hx, hsel]⟩
    · obtain ⟨p', hp', hsel'⟩ := hlater k hk1 hk2
      obtain ⟨r, hr, _, hx⟩ := cell_ok_xAt t k q p' hp'
      exact ⟨r, hr, by rw [hx, hsel']⟩

/-! ### `Random`: both outcomes have half of the squared norm -/

theorem random_weights [SimAmp α] {nz : α → Prop} (h : LawfulAmp α A) (hs : LawfulSim α A nz) (t : Tab) (ψ : List α)
    (hst : StabG A t ψ) (q i : Nat) (hm : t.measure q = .ok (.random i)) :
    normSqSum (project t.n q true ψ) = normSqSum (project t.n q false ψ) ∧
    normSqSum (project t.n q false ψ) + normSqSum (project t.n q false ψ) = normSqSum ψ := by
  obtain ⟨hq, hi, ⟨r, hr, hx⟩, _⟩ := measure_random_inv t q i hm
  obtain ⟨hψ, h2, h3, h4⟩ := hst
  have hs' : t.signs[i]? = some t.signs[i] := List.getElem?_eq_getElem (by omega)
  obtain ⟨hrl, hfix⟩ := h4 i _ r hs' hr
  have hsw := row_swaps_project (A := A) t.signs[i] r q (by rw [hrl]; exact hq) hx ψ (by rw [hrl]; exact hψ) hfix false
  rw [hrl] at hsw
  have e : normSqSum (project t.n q true ψ) = normSqSum (project t.n q false ψ) := by
    have : project t.n q (!false) ψ = project t.n q true ψ := rfl
    rw [← this, ← hsw]
    unfold act
    simp only [rowStr]
    rw [normSqSum_smulI h hs, normSqSum_actOps h hs r _ (by rw [project_length, hrl]; exact hψ)]
  refine ⟨e, ?_⟩
  have := normSqSum_project hs t.n q ψ
  rw [e] at this
  exact this


/-! ### `collapse` -/

theorem opsMul_getElem? (r0 : List P) : ∀ (r1 : List P) (q : Nat) (a b : P), r0[q]? = some a → r1[q]? = some b →
    (opsMul r0 r1)[q]? = some (mulP a b).2 := by
  induction r0 with
  | nil => intro r1 q a b ha; simp at ha
  | cons x r0 ih =>
    intro r1 q a b ha hb
    cases r1 with
    | nil => simp at hb
    | cons y r1 =>
      cases q with
      | zero => simp at ha hb; subst ha; subst hb; simp [opsMul]
      | succ q => simp at ha hb; simpa [opsMul] using ih r1 q a b ha hb

theorem mulP_hasX (a b : P) : (mulP a b).2.hasX = (a.hasX != b.hasX) := by
  rw [mulP_eq_table]; cases a <;> cases b <;> rfl

theorem xAt_opsMul (r0 r1 : List P) (q : Nat) (h0 : q < r0.length) (h1 : q < r1.length) :
    xAt (opsMul r0 r1) q = (xAt r0 q != xAt r1 q) := by
  have ha : r0[q]? = some r0[q] := List.getElem?_eq_getElem h0
  have hb : r1[q]? = some r1[q] := List.getElem?_eq_getElem h1
  simp only [xAt, opsMul_getElem? r0 r1 q _ _ ha hb, ha, hb, mulP_hasX]

/-- the loop `for k in 0..i { if get_x(k, bit) { multiply_row(k, i) } }` -/
theorem collapseRows_inv (h : LawfulAmp α A) {ph : List Nat} (hph : PhaseTableCorrect ph) (t0 : Tab) (i bit : Nat)
    (ri : List P) (hxi : xAt ri bit = true) (hbit : bit < t0.n) :
    ∀ (ks : List Nat) (t t1 : Tab), (∀ k ∈ ks, k ≠ i) → ks.Nodup → Inv (α := α) (A := A) t0 t →
      t.rows[i]? = some ri → Tab.collapseRows ph i bit ks t = .ok t1 →
      Inv (α := α) (A := A) t0 t1 ∧ t1.rows[i]? = some ri ∧ t1.signs[i]? = t.signs[i]? ∧
        (∀ k, k ∉ ks → t1.rows[k]? = t.rows[k]? ∧ t1.signs[k]? = t.signs[k]?) ∧
        (∀ k ∈ ks, ∀ r, t1.rows[k]? = some r → xAt r bit = false) := by
  intro ks
  induction ks with
  | nil =>
    intro t t1 _ _ hg hri hok
    cases hok
    exact ⟨hg, hri, rfl, fun k _ => ⟨rfl, rfl⟩, fun k hk => absurd hk List.not_mem_nil⟩
  | cons k ks ih =>
    intro t t1 hne hnd hg hri hok
    have hnd' := List.nodup_cons.mp hnd
    have hki : k ≠ i := hne k (List.mem_cons_self ..)
    simp only [Tab.collapseRows, bind] at hok
    obtain ⟨p, hp, hok⟩ := bind_ok hok
    obtain ⟨rk, hrk, hpk, hxk⟩ := cell_ok_xAt t k bit p hp
    split at hok
    · rename_i hpx
      obtain ⟨t2, ht2, hok⟩ := bind_ok hok
      obtain ⟨sg, hn, hwf⟩ := multiplyRow_inv h hph t t2 k i hg.2.2 hki ht2
      obtain ⟨r0, r1, s0, s1, hr0, hr1, hs0, hs1, _, ht2e, _⟩ := multiplyRow_ok_inv hph t t2 k i ht2
      rw [hrk] at hr0; cases hr0
      rw [hri] at hr1; cases hr1
      have hkl : k < t.rows.length := (List.getElem?_eq_some_iff.mp hrk).1
      have hkl' : k < t.signs.length := (List.getElem?_eq_some_iff.mp hs0).1
      have hl0 : rk.length = t.n := hg.2.2.2.2 rk (List.mem_of_getElem? hrk)
      have hl1 : ri.length = t.n := hg.2.2.2.2 ri (List.mem_of_getElem? hri)
      have hbt : bit < t.n := by rw [hg.2.1]; exact hbit
      have hrow2 : ∀ j, t2.rows[j]? = if k = j then some (opsMul rk ri) else t.rows[j]? := by
        intro j; rw [ht2e]; simp only [List.getElem?_set, hkl]
        split <;> simp [PStr.mul, rowStr]
      have hsig2 : ∀ j, j ≠ k → t2.signs[j]? = t.signs[j]? := by
        intro j hj; rw [ht2e]; simp [List.getElem?_set, Ne.symm hj]
      have hri2 : t2.rows[i]? = some ri := by rw [hrow2, if_neg hki, hri]
      obtain ⟨hg1, hr1i, hs1i, hkeep, hdone⟩ := ih t2 t1 (fun k' hk' => hne k' (List.mem_cons_of_mem _ hk')) hnd'.2
        ⟨hg.1.trans sg, hn.trans hg.2.1, hwf⟩ hri2 hok
      refine ⟨hg1, hr1i, by rw [hs1i, hsig2 i (Ne.symm hki)], ?_, ?_⟩
      · intro j hj
        have hjk : j ≠ k := fun e => hj (e ▸ List.mem_cons_self ..)
        have hj' : j ∉ ks := fun hm => hj (List.mem_cons_of_mem _ hm)
        obtain ⟨e1, e2⟩ := hkeep j hj'
        exact ⟨by rw [e1, hrow2, if_neg (Ne.symm hjk)], by rw [e2, hsig2 j hjk]⟩
      · intro j hj r hr
        rcases List.mem_cons.mp hj with rfl | hj'
        · obtain ⟨e1, _⟩ := hkeep j hnd'.1
          rw [e1, hrow2, if_pos rfl] at hr
          cases hr
          rw [xAt_opsMul rk ri bit (by rw [hl0]; exact hbt) (by rw [hl1]; exact hbt), hxk, hpx, hxi]; rfl
        · exact hdone j hj' r hr
    · rename_i hpx
      obtain ⟨hg1, hr1i, hs1i, hkeep, hdone⟩ := ih t t1 (fun k' hk' => hne k' (List.mem_cons_of_mem _ hk')) hnd'.2
        hg hri hok
      refine ⟨hg1, hr1i, hs1i, fun j hj => hkeep j (fun hm => hj (List.mem_cons_of_mem _ hm)), ?_⟩
      intro j hj r hr
      rcases List.mem_cons.mp hj with rfl | hj'
      · obtain ⟨e1, _⟩ := hkeep j hnd'.1
        rw [e1, hrk] at hr
        cases hr
        rw [hxk]; simpa using hpx
      · exact hdone j hj' r hr

/-- the tableau `collapse` hands to `normalize`: rows `k < i` multiplied by row `i`, row `i` replaced by
`(−1)^v Z_q`; it stabilizes `P_v ψ` -/
theorem collapse_pre (h : LawfulAmp α A) {ph : List Nat} (hph : PhaseTableCorrect ph) (t t1 : Tab)
    (ψ : List α) (hst : StabG A t ψ) (q i : Nat) (hq : q < t.n) (hi : i < t.n)
    (hxi : ∃ r, t.rows[i]? = some r ∧ xAt r q = true)
    (hlater : ∀ k, i < k → k < t.n → ∃ r, t.rows[k]? = some r ∧ xAt r q = false)
    (v : Bool) (ht1 : Tab.collapseRows ph i q (List.range i) t = .ok t1) :
    t1.n = t.n ∧ t1.rows.length = t.n ∧ t1.signs.length = t.n ∧
    StabG A ⟨t1.n, t1.rows.set i (zRow t1.n q), t1.signs.set i v⟩ (project t.n q v ψ) := by
  obtain ⟨ri, hri, hxri⟩ := hxi
  have hwf := wf_of_stabG t ψ hst
  obtain ⟨hg1, hr1i, hs1i, hkeep, hdone⟩ := collapseRows_inv h hph t i q ri hxri hq (List.range i) t t1
    (fun k hk => by rw [List.mem_range] at hk; omega) List.nodup_range ⟨SameGroupG.refl t, rfl, hwf⟩ hri ht1
  obtain ⟨sg1, hn1, hwf1⟩ := hg1
  have hst1 : StabG A t1 ψ := (sg1 ψ).mpr hst
  obtain ⟨hψ, h2, h3, h4⟩ := hst1
  refine ⟨hn1, by rw [h2, hn1], by rw [h3, hn1], ?_⟩
  refine ⟨by rw [project_length, hψ], by simp [h2], by simp [h3], ?_⟩
  intro k s r hs hr
  simp only [List.getElem?_set] at hs hr
  by_cases hki : i = k
  · subst hki
    rw [if_pos rfl] at hs hr
    have hil : i < t1.rows.length := by rw [h2, hn1]; exact hi
    have hil' : i < t1.signs.length := by rw [h3, hn1]; exact hi
    simp only [hil, hil', if_true] at hs hr
    cases hs; cases hr
    refine ⟨by simp [zRow], ?_⟩
    have := zRow_fixes_project (A := A) h t1.n q (by rw [hn1]; exact hq) ψ hψ v
    rw [hn1] at this ⊢
    exact this
  · rw [if_neg hki] at hs hr
    obtain ⟨hrl, hfix⟩ := h4 k s r hs hr
    have hk : k < t.n := by
      have := (List.getElem?_eq_some_iff.mp hr).1
      rw [h2, hn1] at this; exact this
    have hx : xAt r q = false := by
      by_cases hlt : k < i
      · exact hdone k (List.mem_range.mpr hlt) r hr
      · have hgt : i < k := by omega
        obtain ⟨r', hr', hx'⟩ := hlater k hgt hk
        obtain ⟨e1, _⟩ := hkeep k (by rw [List.mem_range]; omega)
        rw [e1, hr'] at hr; cases hr; exact hx'
    refine ⟨hrl, ?_⟩
    have := row_fixes_project (A := A) s r q (by rw [hrl, hn1]; exact hq) hx ψ (by rw [hrl]; exact hψ) hfix v
    rw [hrl, hn1] at this
    exact this

/-- **`collapse` is sound, all `n`.**  If `t` stabilizes `ψ`, row `i` is the last row with X/Y on qubit `q`
(what `measure` reports as `Random(i)`), then a returning `collapse(i, q, v)` yields a tableau that stabilizes
the projected vector `P_v ψ`. -/
theorem collapse_stabilizes (h : LawfulAmp α A) {ph : List Nat} (hph : PhaseTableCorrect ph) (t t' : Tab)
    (ψ : List α) (hst : StabG A t ψ) (q i : Nat) (hq : q < t.n) (hi : i < t.n)
    (hxi : ∃ r, t.rows[i]? = some r ∧ xAt r q = true)
    (hlater : ∀ k, i < k → k < t.n → ∃ r, t.rows[k]? = some r ∧ xAt r q = false)
    (v : Bool) (hok : t.collapse ph i q v = .ok t') :
    StabG A t' (project t.n q v ψ) ∧ t'.n = t.n := by
  simp only [Tab.collapse, bind] at hok
  obtain ⟨t1, ht1, hok⟩ := bind_ok hok
  obtain ⟨hn1, _, _, hst3⟩ := collapse_pre h hph t t1 ψ hst q i hq hi hxi hlater v ht1
  split at hok
  case isFalse => cases hok
  obtain ⟨t3, ht3, hok⟩ := bind_ok hok
  simp only [Tab.setSign] at ht3
  split at ht3
  case isFalse => cases ht3
  cases ht3
  obtain ⟨sg, hn, _⟩ := normalize_inv h hph _ t' (wf_of_stabG _ _ hst3) hok
  exact ⟨(sg _).mpr hst3, hn.trans hn1⟩

end Q1t.Proofs.TabG

import Q1t.Proofs.TableauContract
import Q1t.Proofs.SimDemo
import Q1t.Proofs.ConjQ8
import Q1t.Proofs.UnitariesQ8
/-!
C03: the tableau contract for the tables generated from /repo, over the exact field ℚ(ζ₈).
-/
namespace Q1t.Proofs.TabG
open Q1t Q1t.Tableau Q1t.Sim Q1t.Conj Q1t.Sim.Demo

theorem tableFacts_generated : TableFacts (A := Empty) Q1t.Gen.conjTable Q1t.Gen.conjNoArityCheck where
  flagH := by decide +kernel
  flagS := by decide +kernel
  flagSdg := by decide +kernel
  flagX := by decide +kernel
  xI := by decide +kernel
  xZ := by decide +kernel

/-- **`TableauOK` for the generated tables** (all `n`), relative to `DetShapeHolds`. -/
theorem tableauOK_generated (n : Nat)
    (hD : DetShapeHolds (α := Q8) (A := Empty) n Q1t.Gen.phaseTable Q1t.Gen.conjTable Q1t.Gen.conjNoArityCheck) :
    TableauOK (Reach (A := Empty) Q8 n Q1t.Gen.phaseTable Q1t.Gen.conjTable Q1t.Gen.conjNoArityCheck) n
      Q1t.Gen.phaseTable (conjOfT (A := Empty) Q1t.Gen.conjTable Q1t.Gen.conjNoArityCheck)
      (validT (A := Empty) n Q1t.Gen.conjTable) :=
  tableauOK n Q1t.Gen.phaseTable Q1t.Gen.conjTable Q1t.Gen.conjNoArityCheck Q8.lawful lawfulSimQ8
    Q1t.Proofs.Tableau.phaseTable_correct Q1t.Proofs.ConjQ8.prims_exact_Q8 tableFacts_generated hD

end Q1t.Proofs.TabG

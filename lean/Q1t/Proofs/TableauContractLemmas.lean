import Q1t.Proofs.TableauGateG
import Q1t.Proofs.TableauCollapseG
import Q1t.Proofs.SimStabRefine
import Q1t.Proofs.SimUnitaryNorm
import Q1t.Proofs.ConjUnitary
set_option linter.unusedSectionVars false
set_option linter.unusedVariables false
set_option linter.unusedSimpArgs false
/-!
C03, general-ring part 8: the remaining pieces for the tableau contract — `Tab.new` stabilizes `|0…0⟩`,
scaling, `Deterministic` from a row `±Z_q`, the weight bookkeeping.
-/
namespace Q1t.Proofs.TabG
open Q1t Q1t.Tableau Q1t.Spec Q1t.Spec.Pauli Q1t.Proofs.Tableau Q1t.Sim

variable {α A : Type} [CommRing α] [Amp α A]

/-! ### scaling -/

theorem actOps_map_mul (a : α) (r : List P) : ∀ v : List α, actOps A r (v.map (· * a)) = (actOps A r v).map (· * a) := by
  induction r with
  | nil => intro v; rfl
  | cons p ps ih =>
    intro v
    rw [actOps_cons, actOps_cons, List.length_map, ← List.map_take, ← List.map_drop, ih, ih, List.map_append]
    have := cellAct_pairmap (A := A) (fun u : List α => u.map (· * a))
      (fun j u => by simp only [smul, List.map_map]; apply List.map_congr_left; intro x _; simp only [Function.comp]; ring) p
      (actOps A ps (v.take (v.length / 2)), actOps A ps (v.drop (v.length / 2)))
    simp only [pairmap] at this
    rw [this]

theorem act_map_mul (a : α) (p : PStr) (v : List α) : act (A := A) p (v.map (· * a)) = (act (A := A) p v).map (· * a) := by
  unfold act
  rw [actOps_map_mul]
  simp only [smul, List.map_map]
  apply List.map_congr_left; intro x _; simp only [Function.comp]; ring

theorem stabG_scale (t : Tab) (ψ : List α) (a : α) (h : StabG A t ψ) : StabG A t (ψ.map (· * a)) := by
  obtain ⟨h1, h2, h3, h4⟩ := h
  refine ⟨by simp [h1], h2, h3, fun i s r hs hr => ?_⟩
  obtain ⟨hl, hf⟩ := h4 i s r hs hr
  exact ⟨hl, by rw [act_map_mul, hf]⟩

/-! ### `Tab.new` and `|0…0⟩` -/

theorem qbit_zero (n q : Nat) : qbit n q 0 = 0 := by simp [qbit]

theorem project_ket0 (n q : Nat) : project n q false (ket0 n : List α) = ket0 n := by
  apply List.ext_getElem?
  intro idx
  rw [project_getElem?]
  simp only [ket0, List.getElem?_map]
  by_cases hi : idx < 2 ^ n
  · rw [List.getElem?_range hi]
    by_cases h0 : idx = 0
    · subst h0; simp [qbit_zero]
    · simp [h0]
  · rw [List.getElem?_eq_none (by simpa using hi)]; rfl

theorem new_rows (n i : Nat) (hi : i < n) : (Tab.new n).rows[i]? = some (zRow n i) := by
  simp only [Tab.new, List.getElem?_map, List.getElem?_range hi, Option.map_some, zRow]
  congr 1
  apply List.map_congr_left
  intro j _
  by_cases h : i = j
  · subst h; simp
  · simp [h, Ne.symm h]

theorem stabG_new (h : LawfulAmp α A) (n : Nat) : StabG A (Tab.new n) (ket0 n : List α) := by
  refine ⟨by simp [ket0, Tab.new], by simp [Tab.new], by simp [Tab.new], ?_⟩
  intro i s r hs hr
  have hi : i < n := by
    have := (List.getElem?_eq_some_iff.mp hr).1
    simpa [Tab.new] using this
  rw [new_rows n i hi] at hr
  cases hr
  have hs' : s = false := by
    simp only [Tab.new, List.getElem?_replicate, hi, if_true] at hs
    cases hs; rfl
  subst hs'
  refine ⟨by simp [zRow, Tab.new], ?_⟩
  have := zRow_fixes_project (A := A) h n i hi (ket0 n : List α) (by simp [ket0]) false
  rw [project_ket0] at this
  exact this

/-! ### a row `±Z_q` pins the outcome -/

theorem two_regular (h : LawfulAmp α A) (x : α) (hx : x + x = 0) : x = 0 := by
  have : x = (Amp.half A + Amp.half A) * x := by rw [h.half_add_half, one_mul]
  rw [this]
  have : (Amp.half A + Amp.half A : α) * x = Amp.half A * (x + x) := by ring
  rw [this, hx, mul_zero]

theorem zeros_of_smul2 (h : LawfulAmp α A) (v : List α) (hv : smul A 2 v = v) : ∀ x ∈ v, x = 0 := by
  intro x hx
  have := map_eq_self _ v hv x hx
  apply two_regular h
  rw [I_sq h] at this
  have : -x = x := by simpa using this
  calc x + x = x + -(-x) := by ring
    _ = 0 := by rw [this]; ring

/-- if `(v, Z_q)` fixes `ψ`, the projection on the other outcome vanishes and `P_v ψ = ψ` -/
theorem project_eq_of_zRow (h : LawfulAmp α A) (n q : Nat) (hq : q < n) (ψ : List α) (hψ : ψ.length = 2 ^ n) (v : Bool)
    (hfix : act (A := A) (rowStr v (zRow n q)) ψ = ψ) : project n q v ψ = ψ := by
  have hzl : (zRow n q).length = n := by simp [zRow]
  have hxz : xAt (zRow n q) q = false := by
    simp [xAt, zRow, List.getElem?_map, List.getElem?_range hq, P.hasX]
  -- the row fixes the other projection, on which it acts as −1
  have hd := row_fixes_project (A := A) v (zRow n q) q (by rw [hzl]; exact hq) hxz ψ (by rw [hzl]; exact hψ) hfix (!v)
  rw [hzl] at hd
  unfold act at hd
  simp only [rowStr] at hd
  rw [zRow_project n q ψ (!v) hq hψ, smul_smul] at hd
  have e2 : ((if v = true then 2 else 0) + (if (!v) = true then 2 else 0)) = 2 := by cases v <;> rfl
  rw [e2] at hd
  have hd2 : smul A 2 (project n q (!v) ψ) = project n q (!v) ψ := hd
  have hz := zeros_of_smul2 h _ hd2
  apply List.ext_getElem?
  intro idx
  rw [project_getElem?]
  cases hi : ψ[idx]? with
  | none => rfl
  | some a =>
    simp only [Option.map_some]
    by_cases hb : (qbit n q idx == 1) = v
    · simp [hb]
    · have hmem : (project n q (!v) ψ)[idx]? = some a := by
        rw [project_getElem?, hi]
        have : ((qbit n q idx == 1) == !v) = true := by
          cases hbb : (qbit n q idx == 1) <;> cases v <;> simp_all
        simp [this]
      have ha : a = 0 := hz a (List.mem_of_getElem? hmem)
      simp [hb, ha]

end Q1t.Proofs.TabG

import Q1t.Spec.Place
import Q1t.Proofs.Perm
import Q1t.Proofs.BitPermFinite
import Mathlib.Data.List.Nodup
import Mathlib.Data.Nat.Bitwise
import Mathlib.Tactic.Ring
/-!
# Arithmetic of `subIndex`, `others`, `agreeOff`, `gatherIndex`

General lemmas (all `n`, all lists) about the reference notions of `Q1t.Spec.Embed` /
`Q1t.Spec.Place`: `subIndex` of an append, its bound, an index below `2^n` is determined by its
qubit values, `gatherIndex` is a bijection of `[0, 2^n)`.
-/
namespace Q1t.Proofs.BitPerm
open Q1t Q1t.Spec

theorem qbit_lt_two (n q i : Nat) : qbit n q i < 2 := Nat.mod_lt _ (by decide)

/-- the fold of `subIndex` started from an arbitrary accumulator -/
theorem subIndex_foldl (n : Nat) (l : List Nat) (i a : Nat) :
    l.foldl (fun acc q => 2 * acc + qbit n q i) a = a * 2 ^ l.length + subIndex n l i := by
  unfold subIndex
  induction l generalizing a with
  | nil => simp
  | cons x t ih =>
    simp only [List.foldl_cons, List.length_cons]
    rw [ih (2 * a + qbit n x i), ih (2 * 0 + qbit n x i), Nat.pow_succ]
    ring

theorem subIndex_nil (n i : Nat) : subIndex n [] i = 0 := rfl

theorem subIndex_cons (n : Nat) (x : Nat) (t : List Nat) (i : Nat) :
    subIndex n (x :: t) i = qbit n x i * 2 ^ t.length + subIndex n t i := by
  show List.foldl _ _ _ = _
  rw [List.foldl_cons, subIndex_foldl]; simp

theorem subIndex_append (n : Nat) (a b : List Nat) (i : Nat) :
    subIndex n (a ++ b) i = subIndex n a i * 2 ^ b.length + subIndex n b i := by
  show List.foldl _ _ _ = _
  rw [List.foldl_append, subIndex_foldl]; rfl

theorem subIndex_lt (n : Nat) (l : List Nat) (i : Nat) : subIndex n l i < 2 ^ l.length := by
  induction l with
  | nil => simp [subIndex_nil]
  | cons x t ih =>
    rw [subIndex_cons, List.length_cons, Nat.pow_succ]
    have := qbit_lt_two n x i
    have h1 : qbit n x i * 2 ^ t.length ≤ 1 * 2 ^ t.length := Nat.mul_le_mul_right _ (by omega)
    omega

/-- two indices spell the same sub-index iff they agree on every listed qubit -/
theorem subIndex_eq_iff (n : Nat) (l : List Nat) (i j : Nat) :
    subIndex n l i = subIndex n l j ↔ ∀ q ∈ l, qbit n q i = qbit n q j := by
  induction l with
  | nil => simp [subIndex_nil]
  | cons x t ih =>
    rw [subIndex_cons, subIndex_cons]
    have hi := subIndex_lt n t i
    have hj := subIndex_lt n t j
    have bi := qbit_lt_two n x i
    have bj := qbit_lt_two n x j
    simp only [List.mem_cons, forall_eq_or_imp, ← ih]
    constructor
    · intro h
      have hq : qbit n x i = qbit n x j := by
        rcases Nat.lt_trichotomy (qbit n x i) (qbit n x j) with h' | h' | h'
        · have : (qbit n x i + 1) * 2 ^ t.length ≤ qbit n x j * 2 ^ t.length :=
            Nat.mul_le_mul_right _ h'
          rw [Nat.add_mul] at this; omega
        · exact h'
        · have : (qbit n x j + 1) * 2 ^ t.length ≤ qbit n x i * 2 ^ t.length :=
            Nat.mul_le_mul_right _ h'
          rw [Nat.add_mul] at this; omega
      rw [hq] at h
      exact ⟨hq, by omega⟩
    · rintro ⟨h1, h2⟩; rw [h1, h2]

/-! ### `others` -/

theorem mem_others (n : Nat) (bits : List Nat) (q : Nat) :
    q ∈ others n bits ↔ q < n ∧ q ∉ bits := by
  simp [others]

theorem others_nodup (n : Nat) (bits : List Nat) : (others n bits).Nodup :=
  List.Nodup.filter _ List.nodup_range

theorem others_length (n : Nat) (bits : List Nat) (hv : validBits n bits = true) :
    (others n bits).length = n - bits.length := by
  obtain ⟨hlt, hnd⟩ := (validBits_iff n bits).1 hv
  have hperm : ((List.range n).filter fun q => bits.contains q).Perm bits := by
    rw [List.perm_ext_iff_of_nodup (List.Nodup.filter _ List.nodup_range) hnd]
    intro a
    simp only [List.mem_filter, List.mem_range, List.contains_iff_mem]
    exact ⟨fun h => h.2, fun h => ⟨hlt a h, h⟩⟩
  have hsum := List.length_eq_length_filter_add (l := List.range n) (fun q => bits.contains q)
  rw [hperm.length_eq, List.length_range] at hsum
  unfold others
  omega

theorem gather_list_length (n : Nat) (bits : List Nat) (hv : validBits n bits = true) :
    (bits ++ others n bits).length = n := by
  have := validBits_length_le n bits hv
  rw [List.length_append, others_length n bits hv]; omega

theorem mem_gather_list (n : Nat) (bits : List Nat) (q : Nat) (hq : q < n) :
    q ∈ bits ++ others n bits := by
  rw [List.mem_append, mem_others]
  by_cases h : q ∈ bits
  · exact Or.inl h
  · exact Or.inr ⟨hq, h⟩

/-! ### `agreeOff` -/

theorem agreeOff_iff' (n : Nat) (bits : List Nat) (i j : Nat) :
    agreeOff n bits i j = true ↔
      subIndex n (others n bits) i = subIndex n (others n bits) j := by
  rw [subIndex_eq_iff]
  simp only [agreeOff, List.all_eq_true, List.mem_range, Bool.or_eq_true, List.contains_iff_mem,
    beq_iff_eq, mem_others]
  constructor
  · intro h q ⟨hq, hnb⟩
    rcases h q hq with h' | h'
    · exact absurd h' hnb
    · exact h'
  · intro h q hq
    by_cases hb : q ∈ bits
    · exact Or.inl hb
    · exact Or.inr (h q ⟨hq, hb⟩)

theorem agreeOff_iff (n : Nat) (bits : List Nat) (i j : Nat) (_hi : i < 2 ^ n) (_hj : j < 2 ^ n) :
    agreeOff n bits i j = true ↔
      subIndex n (others n bits) i = subIndex n (others n bits) j :=
  agreeOff_iff' n bits i j

/-! ### an index below `2^n` is determined by its qubit values -/

theorem qbit_eq_testBit (n q i : Nat) : qbit n q i = (i.testBit (n - 1 - q)).toNat := by
  rw [Nat.toNat_testBit, qbit, Nat.shiftRight_eq_div_pow]

theorem eq_of_qbit_eq (n i j : Nat) (hi : i < 2 ^ n) (hj : j < 2 ^ n)
    (h : ∀ q, q < n → qbit n q i = qbit n q j) : i = j := by
  apply Nat.eq_of_testBit_eq
  intro k
  by_cases hk : k < n
  · have := h (n - 1 - k) (by omega)
    rw [qbit_eq_testBit, qbit_eq_testBit] at this
    have e : n - 1 - (n - 1 - k) = k := by omega
    rw [e] at this
    cases h1 : i.testBit k <;> cases h2 : j.testBit k <;> simp [h1, h2] at this <;> rfl
  · have hk' : n ≤ k := Nat.le_of_not_lt hk
    rw [Nat.testBit_lt_two_pow (Nat.lt_of_lt_of_le hi (Nat.pow_le_pow_right (by decide) hk')),
      Nat.testBit_lt_two_pow (Nat.lt_of_lt_of_le hj (Nat.pow_le_pow_right (by decide) hk'))]

/-! ### `gatherIndex` -/

theorem gatherIndex_eq (n : Nat) (bits : List Nat) (i : Nat) (hv : validBits n bits = true) :
    gatherIndex n bits i =
      subIndex n bits i * 2 ^ (n - bits.length) + subIndex n (others n bits) i := by
  rw [gatherIndex, subIndex_append, others_length n bits hv]

theorem gatherIndex_lt (n : Nat) (bits : List Nat) (hv : validBits n bits = true) (i : Nat) :
    gatherIndex n bits i < 2 ^ n := by
  have := subIndex_lt n (bits ++ others n bits) i
  rwa [gather_list_length n bits hv] at this

theorem gatherIndex_inj (n : Nat) (bits : List Nat) (_hv : validBits n bits = true) (i j : Nat)
    (hi : i < 2 ^ n) (hj : j < 2 ^ n) (h : gatherIndex n bits i = gatherIndex n bits j) : i = j := by
  have h' := (subIndex_eq_iff n (bits ++ others n bits) i j).1 h
  exact eq_of_qbit_eq n i j hi hj fun q hq => h' q (mem_gather_list n bits q hq)

/-- the table of `gatherIndex` over `[0, 2^n)` is a permutation of `[0, 2^n)` -/
theorem gatherTable_isPerm (n : Nat) (bits : List Nat) (hv : validBits n bits = true) :
    Spec.Perm.IsPerm ((List.range (2 ^ n)).map (gatherIndex n bits)) := by
  refine ⟨?_, ?_, ?_⟩
  · intro h
    have := congrArg List.length h
    simp at this
  · intro x hx
    obtain ⟨i, _, rfl⟩ := List.mem_map.1 hx
    simpa using gatherIndex_lt n bits hv i
  · apply List.Nodup.map_on _ List.nodup_range
    intro x hx y hy h
    exact gatherIndex_inj n bits hv x y (List.mem_range.1 hx) (List.mem_range.1 hy) h

theorem gatherIndex_surj (n : Nat) (bits : List Nat) (hv : validBits n bits = true) (j : Nat)
    (hj : j < 2 ^ n) : ∃ i, i < 2 ^ n ∧ gatherIndex n bits i = j := by
  obtain ⟨t, ht, e⟩ := Proofs.Perm.isPerm_surj (gatherTable_isPerm n bits hv) (k := j) (by simpa using hj)
  have ht' : t < 2 ^ n := by simpa using ht
  refine ⟨t, ht', ?_⟩
  simpa using e

end Q1t.Proofs.BitPerm

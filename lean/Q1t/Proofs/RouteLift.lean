import Q1t.Proofs.RoutePlace
import Q1t.Spec.PlaceWord
/-!
# C04 (b), (d): the leading-qubit route of every well-formed gate term equals the block product
with its matrix; `apply_gate_slice` equals the embedded matrix; composites and loops
-/
namespace Q1t.Proofs.Route
open Q1t Q1t.Gate Q1t.Spec Q1t.Spec.Perm Q1t.Proofs.BitPerm
variable {α P : Type} [CommRing α] [Amp α P]
set_option linter.unusedSectionVars false

/-! ## matrices of the primitives are square -/

theorem controlledMat_wf (M : LMat α) (d : Nat) (hM : WFMat d M) : WFMat (2 * d) (controlledMat M) := by
  unfold controlledMat
  rw [hM.1]
  refine ⟨by simp, ?_⟩
  intro row hr
  obtain ⟨_, _, rfl⟩ := List.mem_map.1 hr
  simp

theorem wfMat_four (r0 r1 r2 r3 : List α) (h0 : r0.length = 4) (h1 : r1.length = 4) (h2 : r2.length = 4)
    (h3 : r3.length = 4) : WFMat 4 [r0, r1, r2, r3] := by
  refine ⟨rfl, ?_⟩
  intro row hr
  simp at hr
  rcases hr with rfl | rfl | rfl | rfl <;> assumption

theorem prim_wf (g : GateTerm P) (hg : IsPrim g) : WFMat (2 ^ nrBits g) (matrix (α := α) g) := by
  cases hg <;> rw [matrix] <;> simp only [nrBits, Nat.pow_one, show (2 : Nat) ^ 2 = 2 * 2 from rfl]
  case I => exact identity_wf 2
  case CX => exact controlledMat_wf _ 2 (wfMat_two _ _ _ _)
  case CY => exact controlledMat_wf _ 2 (wfMat_two _ _ _ _)
  case CZ => exact controlledMat_wf _ 2 (wfMat_two _ _ _ _)
  case Swap => exact wfMat_four _ _ _ _ rfl rfl rfl rfl
  all_goals exact wfMat_two _ _ _ _

theorem prim_pos (g : GateTerm P) (hg : IsPrim g) : 1 ≤ nrBits g := by
  cases hg <;> simp [nrBits]

/-! ## the statement lifted through the combinators -/

/-- what is proved about every well-formed gate term -/
structure LeadOK (g : GateTerm P) : Prop where
  pos : 1 ≤ nrBits g
  wf : WFMat (2 ^ nrBits g) (matrix (α := α) g)
  lead : ∀ (m : Mode) (w : Nat), OkWidth m w → ∀ N, nrBits g ≤ N → WordOK g N →
    ∀ v : List (Row α m), v.length = 2 ^ N → RowsW m w v →
      route (α := α) m g v = some (blockMul m w (matrix (α := α) g) (2 ^ (N - nrBits g)) v)

theorem leadOK_prim (h : LawfulAmp α P) (g : GateTerm P) (hg : IsPrim g) : LeadOK (α := α) g where
  pos := prim_pos g hg
  wf := prim_wf g hg
  lead := fun m w hw N hk _ v hlen hv =>
    lead_route_prim h g hg m w hw _ v hv (by rw [hlen, pow_split N _ hk])

theorem leadOK_C (g : GateTerm P) (ih : LeadOK (α := α) g) : LeadOK (α := α) (.C g) where
  pos := by simp [nrBits]
  wf := by
    rw [matrix]
    have := controlledMat_wf _ _ ih.wf
    have e : 2 ^ nrBits (.C g) = 2 * 2 ^ nrBits g := by
      simp only [nrBits]; rw [Nat.add_comm, Nat.pow_succ']
    rw [e]; exact this
  lead := by
    intro m w hw N hk hN v hlen hv
    have hk' : 1 + nrBits g ≤ N := by simpa [nrBits] using hk
    have hhalf : v.length / 2 = 2 ^ (N - 1) := by
      rw [hlen, show N = (N - 1) + 1 by omega, Nat.pow_succ]; simp
    have h2N : 2 ^ N = 2 * 2 ^ (N - 1) := by rw [← Nat.pow_succ']; congr 1; omega
    have hdrop : (v.drop (v.length / 2)).length = 2 ^ (N - 1) := by
      rw [List.length_drop, hhalf, hlen]; omega
    rw [route, matrix]
    have e : N - nrBits (.C g) = (N - 1) - nrBits g := by simp [nrBits]; omega
    rw [e]
    apply ctrl_spec m w hw (matrix (α := α) g) _ v
      (by rw [ih.wf.1, hlen, pow_split (N - 1) _ (by omega), ← Nat.pow_succ']; congr 1; omega) hv
    exact ih.lead m w hw (N - 1) (by omega) (fun h => by have := hN (by simpa [hasComposite] using h); omega)
      _ hdrop (rowsW_drop m w v _ hv)


theorem leadOK_Kron (g0 g1 : GateTerm P) (ih0 : LeadOK (α := α) g0) (ih1 : LeadOK (α := α) g1) :
    LeadOK (α := α) (.Kron g0 g1) where
  pos := by have := ih0.pos; simp only [nrBits]; omega
  wf := by
    rw [matrix]
    have := kron_wf _ _ _ _ ih0.wf ih1.wf
    simp only [nrBits, Nat.pow_add]; exact this
  lead := by
    intro m w hw N hk hN v hlen hv
    have hk' : nrBits g0 + nrBits g1 ≤ N := by simpa [nrBits] using hk
    have p0 := ih0.pos
    have p1 := ih1.pos
    set k0 := nrBits g0 with hk0
    set k1 := nrBits g1 with hk1
    have hKW : WFMat (2 ^ (k0 + k1)) (LMat.kron (matrix (α := α) g0) (matrix (α := α) g1)) := by
      rw [Nat.pow_add]; exact kron_wf _ _ _ _ ih0.wf ih1.wf
    have eN : N - nrBits (.Kron g0 g1) = N - k0 - k1 := by simp only [nrBits]; omega
    cases m with
    | mat =>
      rw [route, matrix, eN]
      exact defaultRoute_spec .mat w hw (k0 + k1) _ hKW _ v
        (by rw [hlen, show N - k0 - k1 = N - (k0 + k1) by omega, pow_split N _ hk']) hv
    | vec =>
      rw [route, matrix, eN]
      have h4 : v.length % 4 = 0 := by
        rw [hlen, show N = (N - 2) + 2 by omega, Nat.pow_add]; simp
      rw [if_neg (by omega)]
      set t := 2 ^ (N - k0 - k1) with ht
      have hL : 2 ^ (N - k0) = 2 ^ k1 * t := by rw [ht, pow_split (N - k0) k1 (by omega)]
      rw [ih0.lead .vec w hw N (by omega) (fun h => hN (by simp [hasComposite, h])) v hlen hv,
        Option.bind_some, hL]
      set v1 := blockMul .vec w (matrix (α := α) g0) (2 ^ k1 * t) v with hv1
      have hv1l : v1.length = 2 ^ k0 * (2 ^ k1 * t) := by rw [hv1, blockMul_length, ih0.wf.1]
      have hv1w : RowsW .vec w v1 := blockMul_rowsW .vec w hw _ _ _
      have hblkl : ∀ i, i < 2 ^ k0 → ((v1.drop (i * (2 ^ k1 * t))).take (2 ^ k1 * t)).length = 2 ^ k1 * t := by
        intro i hi
        rw [List.length_take, List.length_drop, hv1l]
        have h2 := Nat.mul_le_mul_right (2 ^ k1 * t) (Nat.succ_le_of_lt hi); rw [Nat.succ_mul] at h2; omega
      rw [blocksMap_spec (2 ^ k0) (2 ^ k1 * t) (by positivity) v1 hv1l (route (α := α) .vec g1)
        (fun i => blockMul .vec w (matrix (α := α) g1) t ((v1.drop (i * (2 ^ k1 * t))).take (2 ^ k1 * t)))
        (fun i hi => by
          have := ih1.lead .vec w hw (N - k0) (by omega)
            (fun h => by have := hN (by simp [hasComposite, h]); omega) _ (by rw [hblkl i hi, hL])
            (rowsW_take .vec w _ _ (rowsW_drop .vec w v1 _ hv1w))
          rw [this, ← hk1, ← ht])]
      congr 1
      exact kron_blocks_spec .vec w hw _ _ (2 ^ k0) (2 ^ k1) ih0.wf ih1.wf t v
        (by rw [hlen, Nat.mul_assoc, ← hL, pow_split N k0 (by omega)]) hv


end Q1t.Proofs.Route

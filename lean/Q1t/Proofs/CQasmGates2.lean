import Q1t.Proofs.CQasmGates
/-! C12: kernel-checked instances under a one-bit condition. -/
namespace Q1t.Proofs.CQasm
open Q1t Q1t.CQ

theorem const1_conditional : ∀ e ∈ const1, condOK e.1 e.2 [0] = true := by decide +kernel

theorem const2_conditional : ∀ e ∈ const2, condOK e.1 e.2 [1, 0] = true := by decide +kernel

/-- NEGATIVE: the three-line translation of `CY` is not conditioned as a whole (only `sdag` carries the prefix) -/
theorem cy_conditional_fails : ∀ bits ∈ [[0, 1], [1, 0]], condOK "CY" 1 bits = false := by decide +kernel

end Q1t.Proofs.CQasm

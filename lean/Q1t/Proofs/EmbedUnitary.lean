import Q1t.Proofs.RoutePlace
import Q1t.Proofs.LMatBridge
/-!
# C04/C05: the reference matrix `embed n bits U` of a unitary `U` is unitary

Entry-wise, by re-indexing the column sum through the gather bijection (`Spec.gatherIndex`): a column
index `x` is the pair (`subIndex bits x`, `subIndex others x`).
-/
namespace Q1t.Proofs.Route
open Q1t Q1t.Gate Q1t.Spec Q1t.Spec.Perm Q1t.Proofs.BitPerm
variable {α P : Type} [CommRing α] [Amp α P]
set_option linter.unusedSectionVars false
set_option linter.unusedVariables false

/-- entries of `M·Mᴴ` -/
theorem get_mulAdjoint (d : Nat) (M : LMat α) (hM : WFMat d M) (i j : Nat) (hi : i < d) (hj : j < d) :
    LMat.get (mulAdjoint (P := P) M) i j =
      ∑ x ∈ Finset.range d, LMat.get M i x * Amp.conj P (LMat.get M j x) := by
  have hM' : LMat.WF d d M := hM
  have hc : LMat.WF d d (LMat.mapEntries (Amp.conj P) M) := LMat.wf_mapEntries _ hM'
  have hT : WFMat d (LMat.transpose d (LMat.mapEntries (Amp.conj P) M)) :=
    LMat.wf_transpose _ hc.1
  unfold mulAdjoint
  rw [hM.1, get_mul d M _ hM hT i j hi hj]
  apply Finset.sum_congr rfl
  intro x hx
  have hx' : x < d := Finset.mem_range.1 hx
  rw [LMat.get_transpose hc hx' hj, LMat.get_mapEntries _ hM' hj hx']

/-- an index is determined by its listed and its unlisted qubits -/
theorem eq_iff_sub_rest (n : Nat) (bits : List Nat) (hv : validBits n bits = true) (r c : Nat)
    (hr : r < 2 ^ n) (hc : c < 2 ^ n) :
    r = c ↔ subIndex n bits r = subIndex n bits c ∧
      subIndex n (others n bits) r = subIndex n (others n bits) c := by
  constructor
  · rintro rfl; exact ⟨rfl, rfl⟩
  · rintro ⟨h1, h2⟩
    apply gatherIndex_inj n bits hv r c hr hc
    have a := gather_split n bits hv r
    have b := gather_split n bits hv c
    rw [← Nat.div_add_mod (gatherIndex n bits r) (2 ^ (n - bits.length)),
      ← Nat.div_add_mod (gatherIndex n bits c) (2 ^ (n - bits.length)), a.1, a.2, b.1, b.2, h1, h2]

theorem embed_mulAdjoint_entry (h : LawfulAmp α P) (n : Nat) (bits : List Nat)
    (hv : validBits n bits = true) (U : LMat α)
    (hUU : ∀ i j, i < 2 ^ bits.length → j < 2 ^ bits.length →
      ∑ s ∈ Finset.range (2 ^ bits.length), LMat.get U i s * Amp.conj P (LMat.get U j s) =
        if i = j then 1 else 0)
    (r c : Nat) (hr : r < 2 ^ n) (hc : c < 2 ^ n) :
    ∑ x ∈ Finset.range (2 ^ n),
        LMat.get (embed n bits U) r x * Amp.conj P (LMat.get (embed n bits U) c x) =
      if r = c then 1 else 0 := by
  have hk : bits.length ≤ n := validBits_length_le n bits hv
  set T := 2 ^ (n - bits.length) with hT
  have hrest : ∀ y, subIndex n (others n bits) y < T := by
    intro y
    have := subIndex_lt n (others n bits) y
    rwa [others_length n bits hv] at this
  rw [Finset.sum_nbij' (s := Finset.range (2 ^ n)) (t := Finset.range (2 ^ n))
    (g := fun j => LMat.get (embed n bits U) r ((gatherInv n bits).getD j 0) *
      Amp.conj P (LMat.get (embed n bits U) c ((gatherInv n bits).getD j 0)))
    (gatherIndex n bits) (fun j => (gatherInv n bits).getD j 0)
    (fun a _ => Finset.mem_range.2 (gatherIndex_lt n bits hv a))
    (fun a ha => Finset.mem_range.2 (gatherInv_lt n bits hv a (Finset.mem_range.1 ha)))
    (fun a ha => gatherInv_gather n bits hv a (Finset.mem_range.1 ha))
    (fun a ha => gather_gatherInv n bits hv a (Finset.mem_range.1 ha))
    (fun a ha => by simp only [gatherInv_gather n bits hv a (Finset.mem_range.1 ha)])]
  rw [← pow_split n _ hk, sum_range_mul, ← hT]
  -- the inner sum over the unlisted qubits keeps the term `rest x = rest r`
  have hinner : ∀ s, s < 2 ^ bits.length →
      ∑ t ∈ Finset.range T,
        LMat.get (embed n bits U) r ((gatherInv n bits).getD (s * T + t) 0) *
          Amp.conj P (LMat.get (embed n bits U) c ((gatherInv n bits).getD (s * T + t) 0)) =
      LMat.get U (subIndex n bits r) s *
        Amp.conj P (if subIndex n (others n bits) c = subIndex n (others n bits) r
          then LMat.get U (subIndex n bits c) s else 0) := by
    intro s hs
    rw [Finset.sum_eq_single (subIndex n (others n bits) r)]
    · have hj : s * T + subIndex n (others n bits) r < 2 ^ n := by
        rw [← pow_split n _ hk, ← hT]; exact block_lt s _ T _ hs (hrest r)
      set x := (gatherInv n bits).getD (s * T + subIndex n (others n bits) r) 0 with hx
      have hxlt : x < 2 ^ n := gatherInv_lt n bits hv _ hj
      have hgx : gatherIndex n bits x = s * T + subIndex n (others n bits) r :=
        gather_gatherInv n bits hv _ hj
      have hs' := gather_split n bits hv x
      rw [hgx, ← hT, (div_mod_block s T _ (hrest r)).1, (div_mod_block s T _ (hrest r)).2] at hs'
      rw [embed_get n bits U r x hr hxlt, embed_get n bits U c x hc hxlt]
      have hag : agreeOff n bits r x = true := (agreeOff_iff' n bits r x).2 hs'.2
      rw [if_pos hag, ← hs'.1]
      congr 2
      by_cases hcr : subIndex n (others n bits) c = subIndex n (others n bits) r
      · rw [if_pos hcr, if_pos ((agreeOff_iff' n bits c x).2 (hcr.trans hs'.2))]
      · rw [if_neg hcr, if_neg]
        intro hcx
        exact hcr (((agreeOff_iff' n bits c x).1 hcx).trans hs'.2.symm)
    · intro t ht hne
      have htlt : t < T := Finset.mem_range.1 ht
      have hj : s * T + t < 2 ^ n := by
        rw [← pow_split n _ hk, ← hT]; exact block_lt s _ T _ hs htlt
      set x := (gatherInv n bits).getD (s * T + t) 0 with hx
      have hxlt : x < 2 ^ n := gatherInv_lt n bits hv _ hj
      have hgx : gatherIndex n bits x = s * T + t := gather_gatherInv n bits hv _ hj
      have hs' := gather_split n bits hv x
      rw [hgx, ← hT, (div_mod_block s T _ htlt).1, (div_mod_block s T _ htlt).2] at hs'
      rw [embed_get n bits U r x hr hxlt]
      have hag : ¬ agreeOff n bits r x = true := by
        intro hh
        have := (agreeOff_iff' n bits r x).1 hh
        rw [← hs'.2] at this
        exact hne this.symm
      rw [if_neg hag, zero_mul]
    · intro hh; exact absurd (Finset.mem_range.2 (hrest r)) hh
  rw [Finset.sum_congr rfl (fun s hs => hinner s (Finset.mem_range.1 hs))]
  have hsr : subIndex n bits r < 2 ^ bits.length := subIndex_lt n bits r
  have hsc : subIndex n bits c < 2 ^ bits.length := subIndex_lt n bits c
  by_cases hcr : subIndex n (others n bits) c = subIndex n (others n bits) r
  · simp only [if_pos hcr]
    rw [hUU _ _ hsr hsc]
    by_cases hsub : subIndex n bits r = subIndex n bits c
    · rw [if_pos hsub, if_pos ((eq_iff_sub_rest n bits hv r c hr hc).2 ⟨hsub, hcr.symm⟩)]
    · rw [if_neg hsub, if_neg]
      intro e; exact hsub ((eq_iff_sub_rest n bits hv r c hr hc).1 e).1
  · simp only [if_neg hcr, h.conj_zero, mul_zero, Finset.sum_const_zero]
    rw [if_neg]
    intro e; exact hcr ((eq_iff_sub_rest n bits hv r c hr hc).1 e).2.symm

/-- the embedded matrix of a unitary on distinct in-range qubits is unitary -/
theorem embed_unitary (h : LawfulAmp α P) (n : Nat) (bits : List Nat) (hv : validBits n bits = true)
    (U : LMat α) (hU : LMat.Unitary P (2 ^ bits.length) U) :
    LMat.Unitary P (2 ^ n) (embed n bits U) := by
  have hE : WFMat (2 ^ n) (embed n bits U) := embed_wf n bits U
  have hUw : WFMat (2 ^ bits.length) U := hU.1
  refine ⟨hE, ?_⟩
  have hpos : 0 < 2 ^ n := Nat.two_pow_pos n
  apply LMat.ext_get (LMat.wf_mulAdjoint (P := P) (show LMat.WF (2 ^ n) (2 ^ n) _ from hE) hpos)
    (LMat.wf_identity _)
  intro i hi j hj
  rw [get_mulAdjoint (2 ^ n) _ hE i j hi hj, get_identity (2 ^ n) i j hi hj]
  apply embed_mulAdjoint_entry h n bits hv U _ i j hi hj
  intro a b ha hb
  rw [← get_mulAdjoint (2 ^ bits.length) U hUw a b ha hb, hU.2, get_identity _ a b ha hb]

end Q1t.Proofs.Route

import Q1t.Model.CircuitObj
/-! Proofs for C09 (history machine of the `Circuit` object). -/
namespace Q1t.Proofs.CircuitObj
open Q1t Q1t.Sim Q1t.Sim.Prog Q1t.CircuitObj

section monad
variable {W β γ δ : Type}

theorem bind_assoc (p : Prog W β) (f : β → Prog W γ) (g : γ → Prog W δ) :
    (p.bind f).bind g = p.bind (fun b => (f b).bind g) := by
  induction p with
  | pure b => rfl
  | fail e => rfl
  | binomial c w k ih => simp only [Prog.bind, ih]
  | categorical ws c k ih => simp only [Prog.bind, ih]

theorem bind_pure (p : Prog W β) : p.bind Prog.pure = p := by
  induction p with
  | pure b => rfl
  | fail e => rfl
  | binomial c w k ih => simp only [Prog.bind, ih]
  | categorical ws c k ih => simp only [Prog.bind, ih]
end monad

section exec
variable {W P S : Type} (B : Backend W P S)

/-- running `ops₁ ++ ops₂` is running `ops₁` and then `ops₂` from the state and register it ended in -/
theorem execOps_append (s : S) (c : List Nat) (ops₁ ops₂ : List (COp P)) :
    execOps B s c (ops₁ ++ ops₂) =
      (execOps B s c ops₁).bind (fun sc => execOps B sc.1 sc.2 ops₂) := by
  induction ops₁ generalizing s c with
  | nil => rfl
  | cons op rest ih =>
    simp only [List.cons_append, execOps, bind_assoc]
    congr 1
    funext sc
    exact ih sc.1 sc.2
end exec

section machine
variable {W S V : Type} (B : Backend W V S) (ops : List (COp (Param V)))

/-- **execute starts fresh**: the outcome of an execution does not depend on the quantum or classical
state the object held before (only on the operations, the store, the shot count, the supplied initial
state and the draws). -/
theorem execute_fresh (m : Machine S V) (o' : Obj S) (n : Nat) (st : S) :
    step B ops m (.executeWith n st) = step B ops { m with obj := o' } (.executeWith n st) := rfl

/-- an execution starts every shot with a cleared register and the supplied state -/
theorem execute_unfold (m : Machine S V) (n : Nat) (st : S) :
    step B ops m (.executeWith n st) =
      (execOps B st (List.replicate n 0) (ops.map (resolveOp m.store))).bind fun qc =>
        .pure { m with obj := { q := some qc.1, c := some qc.2 } } := rfl

/-- **re-execute continues**: executing and then re-executing (store unchanged in between) is one
run of the operation list twice in a row from the fresh state: the second run starts from exactly the
quantum and classical state in which the first one ended. -/
theorem reexecute_continues (m : Machine S V) (n : Nat) (st : S) :
    (step B ops m (.executeWith n st)).bind (fun m' => step B ops m' .reexecute) =
      (execOps B st (List.replicate n 0)
          (ops.map (resolveOp m.store) ++ ops.map (resolveOp m.store))).bind fun qc =>
        .pure { m with obj := { q := some qc.1, c := some qc.2 } } := by
  rw [execOps_append, execute_unfold, bind_assoc, bind_assoc]
  congr 1

/-- **not executed**: re-executing or asking for results before any execution is an error, and the
object is left as it was. -/
theorem not_executed (m : Machine S V) (h : m.obj.c = none ∨ m.obj.q = none) :
    step B ops m .reexecute = (Prog.err .notExecuted : Prog W (Machine S V)) := by
  unfold step reexecute
  rcases h with h | h
  · rw [h]
  · rw [h]; cases m.obj.c <;> rfl

theorem query_not_executed (m : Machine S V) (h : m.obj.c = none) :
    query m = .error .notExecuted := by
  unfold query; rw [h]

theorem query_after_execute (m : Machine S V) (c : List Nat) (h : m.obj.c = some c) :
    query m = .ok c := by
  unfold query; rw [h]

/-- a fresh object (nothing executed yet) answers every query and re-execution with `NotExecuted` -/
theorem fresh_object_errors (σ : Nat → V) :
    step B ops ⟨⟨none, none⟩, σ⟩ .reexecute = (Prog.err .notExecuted : Prog W (Machine S V)) ∧
    query (⟨⟨none, none⟩, σ⟩ : Machine S V) = .error .notExecuted :=
  ⟨not_executed B ops _ (Or.inl rfl), rfl⟩

/-- **reference parameters are live**: a run reads the store as it is at the time of the run … -/
theorem reexecute_reads_current_store (m : Machine S V) (q : S) (c : List Nat)
    (hq : m.obj.q = some q) (hc : m.obj.c = some c) :
    step B ops m .reexecute =
      (execOps B q c (ops.map (resolveOp m.store))).bind fun qc =>
        .pure { m with obj := { q := some qc.1, c := some qc.2 } } := by
  unfold step reexecute; rw [hq, hc]

/-- … so assigning a cell between two runs changes what the next run applies (and nothing else) -/
theorem setParam_then_reexecute (m : Machine S V) (cell : Nat) (v : V) :
    (step B ops m (.setParam cell v)).bind (fun m' => step B ops m' .reexecute) =
      step B ops { m with store := fun k => if k = cell then v else m.store k } .reexecute := rfl

end machine

section params
variable {V : Type}

/-- cells a parameter / gate term / op list refers to -/
def Param.refs : Param V → List Nat
  | .direct _ => []
  | .ref c => [c]

mutual
def refs : GateTerm (Param V) → List Nat
  | .RX θ | .RY θ | .RZ θ | .U1 θ => Param.refs θ
  | .U2 φ l => Param.refs φ ++ Param.refs l
  | .U3 θ φ l => Param.refs θ ++ Param.refs φ ++ Param.refs l
  | .C g => refs g
  | .Kron g0 g1 => refs g0 ++ refs g1
  | .Composite _ _ ops => refsOps ops
  | .Loop _ _ _ _ body => refsOps body
  | _ => []
def refsOps : OpList (Param V) → List Nat
  | .nil => []
  | .cons g _ rest => refs g ++ refsOps rest
end

theorem Param.value_congr (σ σ' : Nat → V) (p : Param V) (h : ∀ c ∈ Param.refs p, σ c = σ' c) :
    p.value σ = p.value σ' := by
  cases p with
  | direct v => rfl
  | ref c => exact h c (by simp [Param.refs])

mutual
/-- the resolved gate depends on the store only through the cells the gate refers to -/
theorem resolve_congr (σ σ' : Nat → V) : ∀ (g : GateTerm (Param V)),
    (∀ c ∈ refs g, σ c = σ' c) → resolve σ g = resolve σ' g
  | .H, _ | .X, _ | .Y, _ | .Z, _ | .S, _ | .Sdg, _ | .T, _ | .Tdg, _ | .V, _ | .Vdg, _ | .I, _
  | .CX, _ | .CY, _ | .CZ, _ | .Swap, _ => rfl
  | .RX θ, h => by simp only [resolve]; rw [Param.value_congr σ σ' θ (by simpa [refs] using h)]
  | .RY θ, h => by simp only [resolve]; rw [Param.value_congr σ σ' θ (by simpa [refs] using h)]
  | .RZ θ, h => by simp only [resolve]; rw [Param.value_congr σ σ' θ (by simpa [refs] using h)]
  | .U1 θ, h => by simp only [resolve]; rw [Param.value_congr σ σ' θ (by simpa [refs] using h)]
  | .U2 φ l, h => by
      simp only [resolve]
      rw [Param.value_congr σ σ' φ (fun c hc => h c (by simp [refs, hc])),
          Param.value_congr σ σ' l (fun c hc => h c (by simp [refs, hc]))]
  | .U3 θ φ l, h => by
      simp only [resolve]
      rw [Param.value_congr σ σ' θ (fun c hc => h c (by simp [refs, hc])),
          Param.value_congr σ σ' φ (fun c hc => h c (by simp [refs, hc])),
          Param.value_congr σ σ' l (fun c hc => h c (by simp [refs, hc]))]
  | .C g, h => by simp only [resolve]; rw [resolve_congr σ σ' g (by simpa [refs] using h)]
  | .Kron g0 g1, h => by
      simp only [resolve]
      rw [resolve_congr σ σ' g0 (fun c hc => h c (by simp [refs, hc])),
          resolve_congr σ σ' g1 (fun c hc => h c (by simp [refs, hc]))]
  | .Composite _ _ ops, h => by
      simp only [resolve]; rw [resolveOps_congr σ σ' ops (by simpa [refs] using h)]
  | .Loop _ _ _ _ body, h => by
      simp only [resolve]; rw [resolveOps_congr σ σ' body (by simpa [refs] using h)]
theorem resolveOps_congr (σ σ' : Nat → V) : ∀ (ops : OpList (Param V)),
    (∀ c ∈ refsOps ops, σ c = σ' c) → resolveOps σ ops = resolveOps σ' ops
  | .nil, _ => rfl
  | .cons g bits rest, h => by
      simp only [resolveOps]
      rw [resolve_congr σ σ' g (fun c hc => h c (by simp [refsOps, hc])),
          resolveOps_congr σ σ' rest (fun c hc => h c (by simp [refsOps, hc]))]
end

/-- **directly supplied parameters never change**: a gate without reference parameters resolves to the
same gate under every store. -/
theorem direct_constant (σ σ' : Nat → V) (g : GateTerm (Param V)) (h : refs g = []) :
    resolve σ g = resolve σ' g :=
  resolve_congr σ σ' g (by simp [h])

/-- a reference parameter contributes the store's current value -/
theorem ref_reads_store (σ : Nat → V) (cell : Nat) :
    resolve σ (.RX (.ref cell)) = .RX (σ cell) := rfl

end params
end Q1t.Proofs.CircuitObj

import Q1t.Proofs.TableauFiniteK
/-!
C03, proofs part 7 — FINITE: the kernel-checked Boolean facts of `TableauFiniteK` as readable statements
about all stabilizer states of `n ≤ 2` qubits.
-/
namespace Q1t.Proofs.Tableau
open Q1t Q1t.Tableau Q1t.Spec.Pauli Q1t.Spec.Stab Q1t.Spec.StabEnum

/-! ### from the Boolean checks to statements -/

theorem tabOfVec_sound (all : List Pair) (v : Vec) (t : Tab) (h : (tabOfVec all v == some t) = true) :
    (t, v) ∈ all := by
  rw [beq_iff_eq] at h
  unfold tabOfVec at h
  cases hf : all.find? (fun tv => tv.2 == v) with
  | none => rw [hf] at h; cases h
  | some tv =>
    rw [hf] at h
    have h1 : tv.1 = t := by simpa using h
    have h2 : tv.2 = v := by simpa using List.find?_some hf
    have h3 := List.mem_of_find?_eq_some hf
    rw [← h1, ← h2]; exact h3

theorem gatesOk_sound (pr : Params) (n : Nat) (all : List Pair) (tv : Pair) (h : gatesOk pr n all tv = true) :
    ∀ gb ∈ gateOps n, ∃ t', stepT pr tv.1 gb.1 gb.2 = .ok t' ∧ (t', stepV n tv.2 gb.1 gb.2) ∈ all := by
  intro gb hgb
  have := (List.all_eq_true.mp h) gb hgb
  cases hs : stepT pr tv.1 gb.1 gb.2 with
  | ok t => rw [hs] at this; exact ⟨t, rfl, tabOfVec_sound _ _ _ this⟩
  | err e => rw [hs] at this; cases this
  | panic s => rw [hs] at this; cases this
  | oob => rw [hs] at this; cases this

/-- what the measurement check says about one state and qubit -/
def MeasureAgrees (pr : Params) (n : Nat) (all : List Pair) (tv : Pair) (q : Nat) : Prop :=
  (∃ b, tv.1.measure q = .ok (.deterministic b) ∧ measKind n q tv.2 = .certain b) ∨
  (∃ i, tv.1.measure q = .ok (.random i) ∧ measKind n q tv.2 = .fair ∧
    ∀ b : Bool, ∃ t', tv.1.collapse pr.ph i q b = .ok t' ∧ (t', Z8.canonRay (proj n q b tv.2)) ∈ all)

theorem measureOk_sound (pr : Params) (n : Nat) (all : List Pair) (tv : Pair) (q : Nat)
    (h : measureOk pr n all tv q = true) : MeasureAgrees pr n all tv q := by
  unfold measureOk at h
  split at h
  · rename_i b b' hm hk
    left; exact ⟨b, hm, by rw [hk, beq_iff_eq.mp h]⟩
  · rename_i i hm hk
    right
    refine ⟨i, hm, hk, fun b => ?_⟩
    have hb := (List.all_eq_true.mp h) b (by cases b <;> simp)
    cases hc : tv.1.collapse pr.ph i q b with
    | ok t => rw [hc] at hb; exact ⟨t, rfl, tabOfVec_sound _ _ _ hb⟩
    | err e => rw [hc] at hb; cases hb
    | panic s => rw [hc] at hb; cases hb
    | oob => rw [hc] at hb; cases hb
  · cases h

/-- what the reset check says: the model returns; whenever the correct result of the reset is a pure state
`w` the model's tableau is the tableau of `w`; otherwise (random qubit entangled with the rest, D4) the
model returns the tableau of the outcome-0 branch `P₀ψ` alone -/
def ResetAgrees (pr : Params) (n : Nat) (all : List Pair) (tv : Pair) (q : Nat) : Prop :=
  ∃ t', tv.1.reset pr.ph q = .ok t' ∧
    (∀ w, resetPure n q tv.2 = some w → (t', w) ∈ all) ∧
    (resetPure n q tv.2 = none → (t', Z8.canonRay (proj n q false tv.2)) ∈ all)

theorem resetOk_sound (pr : Params) (n : Nat) (all : List Pair) (tv : Pair) (q : Nat)
    (h : resetOk pr n all tv q = true) : ResetAgrees pr n all tv q := by
  unfold resetOk at h
  cases hr : tv.1.reset pr.ph q with
  | ok t =>
    rw [hr] at h
    refine ⟨t, hr, ?_, ?_⟩
    · intro w hw; rw [hw] at h; exact tabOfVec_sound _ _ _ h
    · intro hn; rw [hn] at h; exact tabOfVec_sound _ _ _ h
  | err e => rw [hr] at h; cases h
  | panic s => rw [hr] at h; cases h
  | oob => rw [hr] at h; cases h

theorem nodupBy_inj {α} (eq : α → α → Bool) (hsymm : ∀ a b, eq a b = eq b a) :
    ∀ l : List α, nodupBy eq l = true → ∀ a ∈ l, ∀ b ∈ l, eq a b = true → a = b := by
  intro l
  induction l with
  | nil => intro _ a ha; cases ha
  | cons x xs ih =>
    intro h a ha b hb hab
    simp only [nodupBy, Bool.and_eq_true, Bool.not_eq_true', List.any_eq_false] at h
    rcases List.mem_cons.mp ha with rfl | ha' <;> rcases List.mem_cons.mp hb with rfl | hb'
    · rfl
    · exact absurd hab (h.1 b hb')
    · rw [hsymm] at hab; exact absurd hab (h.1 a ha')
    · exact ih h.2 a ha' b hb' hab

/-- the enumerated states of `n` qubits (`n = 1, 2`; empty otherwise) -/
def statesOf : Nat → List Pair
  | 1 => states1
  | 2 => states2
  | _ => []

theorem mem_states2_chunk (tv : Pair) (h : tv ∈ states2) : ∃ k, k < 4 ∧ tv ∈ chunk k := by
  rw [states2_chunks] at h
  simp only [List.mem_append] at h
  rcases h with ((h | h) | h) | h
  · exact ⟨0, by decide, h⟩
  · exact ⟨1, by decide, h⟩
  · exact ⟨2, by decide, h⟩
  · exact ⟨3, by decide, h⟩

theorem gatesOk_all (n : Nat) (tv : Pair) (h : tv ∈ statesOf n) : gatesOk paramsK n (statesOf n) tv = true := by
  match n, h with
  | 1, h => exact List.all_eq_true.mp gates1_K tv h
  | 2, h =>
    obtain ⟨k, hk, hm⟩ := mem_states2_chunk tv h
    have : k = 0 ∨ k = 1 ∨ k = 2 ∨ k = 3 := by omega
    rcases this with rfl | rfl | rfl | rfl
    · exact List.all_eq_true.mp gates2_K0 tv hm
    · exact List.all_eq_true.mp gates2_K1 tv hm
    · exact List.all_eq_true.mp gates2_K2 tv hm
    · exact List.all_eq_true.mp gates2_K3 tv hm
  | 0, h => cases h
  | _ + 3, h => cases h

theorem gates_exhaustive (n : Nat) (tv : Pair) (h : tv ∈ statesOf n) :
    ∀ gb ∈ gateOps n, ∃ t', stepT params tv.1 gb.1 gb.2 = .ok t' ∧ (t', stepV n tv.2 gb.1 gb.2) ∈ statesOf n := by
  rw [params_eq]; exact gatesOk_sound _ _ _ _ (gatesOk_all n tv h)

theorem measure_exhaustive (n : Nat) (tv : Pair) (h : tv ∈ statesOf n) (q : Nat) (hq : q < n) :
    MeasureAgrees params n (statesOf n) tv q := by
  rw [params_eq]
  match n, h with
  | 1, h => exact measureOk_sound _ _ _ _ _ (List.all_eq_true.mp (List.all_eq_true.mp measure1_K tv h) q (List.mem_range.mpr hq))
  | 2, h => exact measureOk_sound _ _ _ _ _ (List.all_eq_true.mp (List.all_eq_true.mp measure2_K tv h) q (List.mem_range.mpr hq))
  | 0, h => cases h
  | _ + 3, h => cases h

theorem reset_exhaustive (n : Nat) (tv : Pair) (h : tv ∈ statesOf n) (q : Nat) (hq : q < n) :
    ResetAgrees params n (statesOf n) tv q := by
  rw [params_eq]
  match n, h with
  | 1, h => exact resetOk_sound _ _ _ _ _ (List.all_eq_true.mp (List.all_eq_true.mp reset1_K tv h) q (List.mem_range.mpr hq))
  | 2, h => exact resetOk_sound _ _ _ _ _ (List.all_eq_true.mp (List.all_eq_true.mp reset2_K tv h) q (List.mem_range.mpr hq))
  | 0, h => cases h
  | _ + 3, h => cases h

theorem pair_exhaustive (n : Nat) (tv : Pair) (h : tv ∈ statesOf n) :
    Stabilizes tv.1 tv.2 ∧ tv.1.normalize params.ph = .ok tv.1 ∧ Canonical tv.1 ∧ Z8.canonRay tv.2 = tv.2 := by
  have key : (pairOk paramsK tv && rrefB tv.1) = true := by
    match n, h with
    | 1, h => exact List.all_eq_true.mp pair1_K tv h
    | 2, h => exact List.all_eq_true.mp pair2_K tv h
    | 0, h => cases h
    | _ + 3, h => cases h
  rw [params_eq]
  simp only [pairOk, Bool.and_eq_true, beq_iff_eq] at key
  exact ⟨key.1.1.1, key.1.1.2, key.2, key.1.2⟩

theorem states_inj (n : Nat) : ∀ a ∈ statesOf n, ∀ b ∈ statesOf n, (a.2 = b.2 → a = b) ∧ (a.1 = b.1 → a = b) := by
  intro a ha b hb
  have key : (nodupBy (fun a b : Pair => a.1 == b.1) (statesOf n) && nodupBy (fun a b : Pair => a.2 == b.2) (statesOf n)) = true := by
    match n with
    | 1 => exact nodup1_K
    | 2 => exact nodup2_K
    | 0 => rfl
    | _ + 3 => rfl
  rw [Bool.and_eq_true] at key
  constructor
  · intro h
    exact nodupBy_inj _ (fun x y => Bool.eq_iff_iff.mpr ⟨fun h => beq_iff_eq.mpr (beq_iff_eq.mp h).symm,
      fun h => beq_iff_eq.mpr (beq_iff_eq.mp h).symm⟩) _ key.2 a ha b hb (beq_iff_eq.mpr h)
  · intro h
    exact nodupBy_inj _ (fun x y => Bool.eq_iff_iff.mpr ⟨fun h => beq_iff_eq.mpr (beq_iff_eq.mp h).symm,
      fun h => beq_iff_eq.mpr (beq_iff_eq.mp h).symm⟩) _ key.1 a ha b hb (beq_iff_eq.mpr h)

theorem closure_eq (n : Nat) (hn : n = 1 ∨ n = 2) : closure params n 50 = some (statesOf n) := by
  rw [params_eq]
  rcases hn with rfl | rfl
  · exact closure1_K
  · exact closure2_K

theorem start_mem (n : Nat) (hn : n = 1 ∨ n = 2) : start n ∈ statesOf n := by
  rcases hn with rfl | rfl <;> decide +kernel

/-! ### histories -/

/-- States reachable from `|0…0⟩` by any history of library stabilizer gates (any placement), collapses
of a random qubit to either outcome, and resets whose correct result is a pure state — the tableau side
computed by the model, the vector side by the state-vector semantics. -/
inductive Reach (n : Nat) : Pair → Prop
  | start : Reach n (start n)
  | gate (tv : Pair) (gb : SGate × List Nat) (t' : Tab) : Reach n tv → gb ∈ gateOps n →
      stepT params tv.1 gb.1 gb.2 = .ok t' → Reach n (t', stepV n tv.2 gb.1 gb.2)
  | collapse (tv : Pair) (q i : Nat) (b : Bool) (t' : Tab) : Reach n tv → q < n →
      tv.1.measure q = .ok (.random i) → tv.1.collapse params.ph i q b = .ok t' →
      Reach n (t', Z8.canonRay (proj n q b tv.2))
  | reset (tv : Pair) (q : Nat) (w : Vec) (t' : Tab) : Reach n tv → q < n →
      resetPure n q tv.2 = some w → tv.1.reset params.ph q = .ok t' → Reach n (t', w)

theorem reach_mem (n : Nat) (hn : n = 1 ∨ n = 2) (tv : Pair) (h : Reach n tv) : tv ∈ statesOf n := by
  induction h with
  | start => exact start_mem n hn
  | gate tv gb t' _ hgb hs ih =>
    obtain ⟨t'', e, hm⟩ := gates_exhaustive n tv ih gb hgb
    rw [hs] at e; cases e; exact hm
  | collapse tv q i b t' _ hq hm hc ih =>
    rcases measure_exhaustive n tv ih q hq with ⟨b', e, _⟩ | ⟨i', e, _, hall⟩
    · rw [hm] at e; cases e
    · rw [hm] at e; cases e
      obtain ⟨t'', e2, hmem⟩ := hall b
      rw [hc] at e2; cases e2; exact hmem
  | reset tv q w t' _ hq hw hr ih =>
    obtain ⟨t'', e, h1, _⟩ := reset_exhaustive n tv ih q hq
    rw [hr] at e; cases e; exact h1 w hw

theorem history_independent (n : Nat) (hn : n = 1 ∨ n = 2) (t1 t2 : Tab) (ψ : Vec)
    (h1 : Reach n (t1, ψ)) (h2 : Reach n (t2, ψ)) : t1 = t2 := by
  have := (states_inj n _ (reach_mem n hn _ h1) _ (reach_mem n hn _ h2)).1 rfl
  exact congrArg Prod.fst this

end Q1t.Proofs.Tableau

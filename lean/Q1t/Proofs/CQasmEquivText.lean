import Q1t.Proofs.CQasmEquivTerm
import Q1t.Proofs.CQasmGateWF
set_option linter.unusedSimpArgs false
set_option linter.unusedSectionVars false
set_option linter.unusedVariables false
/-!
C12 (`cq_equiv_partial`), part 9 (first pieces of text ↔ values): a parsed gate instruction whose numeric operands
read back as the values of a value-level line has exactly the value-level semantics, and the named hypothesis about
the number printer / reader under which the exported text denotes the value-level statements (`ReadsBack`).
-/
namespace Q1t.Proofs.CQasm
open Q1t Q1t.Spec Q1t.Proofs.Route Q1t.CQ

variable {α P : Type} [CommRing α] [Amp α P]

/-- a parsed numeric operand denotes a value: an angle literal whose reading is the angle, or the integer `k` of `crk` -/
def NumDenotes (S : CQ1.NumSem α P) (l : CQ1.NumLit) : NVal P → Prop
  | .angle x => S.angle l = some x
  | .int k => CQ1.natOfDigits l.txt = k ∧
      (k = 1 → S.rk 1 = some (Amp.I P)) ∧ (k = 2 → S.rk 2 = some (Amp.zeta8 P))

/-- **a gate instruction is its value-level line**: if `Spec/CQ1` gives the instruction the matrix `M`, the
instruction acts as the value-level statement `gate ctrl (its qubits) M` -/
theorem instrSem_gate (S : CQ1.NumSem α P) (n : Nat) (nz : List α → Bool) (i : CQ1.Instr) (M : LMat α)
    (hg : CQ1.isGate i.name = true) (hM : CQ1.gateMatrix S i.name (CQ1.numArgs i.args) = some M)
    (br : CQ1.Branch α) :
    CQ1.instrSem S n nz i br = some (dSem n nz (.gate i.ctrl (i.qubits n) M) br) := by
  obtain ⟨ctrl, name, args⟩ := i
  simp only at hg hM ⊢
  have hne : name ≠ "not" ∧ name ≠ "measure" ∧ name ≠ "measure_z" ∧ name ≠ "measure_x" ∧ name ≠ "measure_y" ∧
      name ≠ "measure_all" ∧ name ≠ "prep_z" := by
    refine ⟨?_, ?_, ?_, ?_, ?_, ?_, ?_⟩ <;> (intro e; subst e; simp [CQ1.isGate] at hg)
  unfold CQ1.instrSem
  simp only [dSem]
  split <;> first
    | (simp only [hM]; split <;> rfl)
    | (exfalso; simp_all; done)

/-- the matrix table of `Spec/CQ1.gateMatrix` on parsed literals agrees with the value-level table `gateMatrixV` when
the literals read back as the values -/
theorem gateMatrix_of_values (S : CQ1.NumSem α P) (name : String) (nums : List CQ1.NumLit) (vals : List (NVal P))
    (M : LMat α) (hM : gateMatrixV (α := α) name.toList vals = some M)
    (hden : List.Forall₂ (NumDenotes S) nums vals) : CQ1.gateMatrix S name nums = some M := by
  unfold gateMatrixV at hM
  rw [String.ofList_toList] at hM
  unfold CQ1.gateMatrix
  split at hM
  all_goals first
    | (cases hM; done)
    | (cases hden; simp_all; done)
    | (cases hden with
       | cons h1 hrest =>
         cases hrest
         simp only [NumDenotes] at h1
         first
           | (simp only [Option.some.injEq] at hM; subst hM; simp [h1]; done)
           | (simp only [Option.some.injEq] at hM; subst hM; simp [h1.1, h1.2.1 rfl]; done)
           | (simp only [Option.some.injEq] at hM; subst hM; simp [h1.1, h1.2.2 rfl]; done))

/-- **the named hypothesis for text ↔ values**: reading back a printed number gives its value (`val : F → P`), and an
evaluated hole of a good template evaluates to a number whose value is the value-level reading of the hole
(`holeVal`: `-0.25 * θ` is `pneg (phalf (phalf θ))`, …).  Extends `GoodNum`. -/
structure ReadsBack {F : Type} (N : Num F) (S : CQ1.NumSem α P) (val : F → P) : Prop where
  good : GoodNum N
  disp_reads : ∀ x : F, ∃ l, CQ1.parseArg (N.disp x) = some (.num l) ∧ S.angle l = some (val x)
  holes_value : ∀ g ∈ Gen.cqGates, gateGood g = true → ∀ l ∈ slinesOf g, ∀ inner, SOp.hole inner ∈ l.ops →
    ∀ ρ : Text → Option F, (∀ key, Tok.var key ∈ inner → (ρ key).isSome = true) →
    ∃ y, holeValue N (inner.flatMap (instTok N ρ)) = some (N.disp y) ∧
      holeVal (α := α) (fun key => (ρ key).map val) inner = some (val y)
  crk : S.rk 1 = some (Amp.I P) ∧ S.rk 2 = some (Amp.zeta8 P)

end Q1t.Proofs.CQasm

import Q1t.Proofs.DetShapePlan
import Q1t.Proofs.TableauDetShape
set_option linter.unusedSectionVars false
set_option linter.unusedVariables false
/-!
Shared calculus for the parts of `DetShapePlan`: the symplectic product `sp` on Pauli strings is symmetric and
bilinear with respect to the cell-wise product `opsMul` (= what `multiply_row` writes), and `sp (Z_q) r` reads the
X-bit of `r` at `q`.
-/
namespace Q1t.Proofs.DetPlan
open Q1t Q1t.Tableau Q1t.Spec.Pauli Q1t.Proofs.Tableau Q1t.Proofs.TabG

theorem sp_comm (a b : List P) : sp a b = sp b a := by
  have := phaseSum_swap a b
  unfold sp
  have h : phaseSum a b % 2 = phaseSum b a % 2 := by omega
  rw [h]

theorem cell_bilin (a b c : P) :
    (mulP (mulP a b).2 c).1 % 2 = ((mulP a c).1 + (mulP b c).1) % 2 := by
  simp only [mulP_eq_table]
  cases a <;> cases b <;> cases c <;> rfl

theorem phaseSum_opsMul_parity (a : List P) : ∀ (b c : List P), a.length = b.length → b.length = c.length →
    phaseSum (opsMul a b) c % 2 = (phaseSum a c + phaseSum b c) % 2 := by
  induction a with
  | nil => intro b c hab hbc; cases b <;> cases c <;> simp_all [phaseSum, opsMul]
  | cons x a ih =>
    intro b c hab hbc
    cases b with
    | nil => simp at hab
    | cons y b =>
      cases c with
      | nil => simp at hbc
      | cons z c =>
        have := ih b c (by simpa using hab) (by simpa using hbc)
        have hc := cell_bilin x y z
        simp only [phaseSum, opsMul]
        omega

/-- `sp` is additive in the first argument with respect to the cell-wise product -/
theorem sp_opsMul (a b c : List P) (hab : a.length = b.length) (hbc : b.length = c.length) :
    sp (opsMul a b) c = (sp a c != sp b c) := by
  have := phaseSum_opsMul_parity a b c hab hbc
  unfold sp
  rcases Nat.mod_two_eq_zero_or_one (phaseSum a c) with h1 | h1 <;>
    rcases Nat.mod_two_eq_zero_or_one (phaseSum b c) with h2 | h2 <;>
    simp [h1, h2] <;> omega

/-- … and in the second -/
theorem sp_opsMul_right (a b c : List P) (hab : a.length = b.length) (hbc : b.length = c.length) :
    sp c (opsMul a b) = (sp c a != sp c b) := by
  rw [sp_comm, sp_opsMul a b c hab hbc, sp_comm a c, sp_comm b c]

/-- `Z_q` anticommutes with `r` iff `r` has X or Y at `q` -/
theorem sp_zRow (n q : Nat) (r : List P) (hq : q < n) (hr : r.length = n) : sp (zRow n q) r = xAt r q := by
  have := phaseSum_zRow n q r hq hr
  unfold sp
  cases hx : xAt r q <;> simp [hx] at this ⊢ <;> omega

theorem sp_self (a : List P) : sp a a = false := by
  unfold sp; rw [phaseSum_self]; rfl

end Q1t.Proofs.DetPlan

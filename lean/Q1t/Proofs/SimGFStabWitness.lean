import Q1t.Proofs.SimGFWitness
import Q1t.Model.StabSim
import Q1t.Gen.Conj
import Q1t.Gen.PhaseTable
/-!
C01, negative witnesses on the stabilizer backend (known findings D4, D5), computed by the kernel on the
model's own `Prog` term `execOps stabBackend …` (tableau model `Q1t.Tableau`, the phase table and the
conjugation tables being the ones regenerated from the source: `Q1t.Gen.phaseTable`, `Q1t.Gen.conjTable`).

* D4 — `h 0; cx 0 1; reset 0; measure 1→0`: the stabilizer `reset` forces the outcome instead of sampling
  it, the second half of the Bell pair is then always read as 0 (Born: 1 with probability ½; the vector
  backend of the same model gives ½).
* D5 — `h 0; cx 0 1; peek_all [0,1]`: the stabilizer `peek_all` samples every qubit independently on the
  uncollapsed tableau, so the register values 01 and 10 (Born probability 0) have probability ¼ each.

One shot suffices for both.
-/
namespace Q1t.Sim.Witness
open Q1t Q1t.Sim Q1t.Sim.Prog Q1t.Tableau

/-- conjugation rule of the three primitives used, read from the generated table -/
def conjPrim : GateTerm Empty → Tab.Conj
  | .H => conjOf Q1t.Gen.conjTable Q1t.Gen.conjNoArityCheck "H"
  | .CX => conjOf Q1t.Gen.conjTable Q1t.Gen.conjNoArityCheck "CX"
  | .X => conjOf Q1t.Gen.conjTable Q1t.Gen.conjNoArityCheck "X"
  | _ => fun _ => .error .notAStabilizer

/-- the stabilizer backend with weights in `Q8` (`Binomial::new(count, 0.5)`) -/
def stabQ8 : Backend Q8 Empty StabState := stabBackend q8Half Q1t.Gen.phaseTable conjPrim

/-- indicator "the register is exactly `l`" -/
def regIs {σ : Type} (l : List Nat) (sc : σ × List Nat) : Q8 := if sc.2 = l then 1 else 0

/-! ### D4: reset of one half of a Bell pair -/

def bellReset : List (COp Empty) := [.gate .H [0], .gate .CX [0, 1], .reset 0, .measure 1 0 .Z]

def bellResetStabProg : Prog Q8 (StabState × List Nat) := execOps stabQ8 (StabState.new 2 1) [0] bellReset

def bellResetVecProg : Prog Q8 (VecState Q8 × List Nat) :=
  execOps (vecBackend (α := Q8) (P := Empty)) (VecState.new 2 1) [0] bellReset

/-- reference branching semantics from `|00⟩`, word 0 -/
def bellResetBranches : Option (List (List Q8 × Nat)) :=
  Spec.branches (P := Empty) 2 nonzero bellReset [([1, 0, 0, 0], 0)]

/-- Born probability of the register value `v` -/
def bellResetBorn (v : Nat) : Q8 :=
  ((bellResetBranches.getD []).map fun br => normSqSum br.1 * (if br.2 = v then 1 else 0)).foldl (· + ·) 0

theorem bellReset_born : bellResetBranches.isSome = true ∧ bellResetBorn 0 = q8Half ∧ bellResetBorn 1 = q8Half := by
  decide +kernel

/-- the stabilizer model never reads 1 … -/
theorem bellReset_stab_1 : expect id bellResetStabProg (regIs [1]) = 0 := by decide +kernel
/-- … it reads 0 with probability 1 (it does not fail) -/
theorem bellReset_stab_0 : expect id bellResetStabProg (regIs [0]) = 1 := by decide +kernel
/-- the vector backend of the same model is right on this circuit -/
theorem bellReset_vec_1 : expect id bellResetVecProg (regIs [1]) = q8Half := by decide +kernel

/-! ### D5: peek_all on a Bell pair -/

def bellPeekAll : List (COp Empty) := [.gate .H [0], .gate .CX [0, 1], .peekAll [0, 1] .Z]

def bellPeekAllStabProg : Prog Q8 (StabState × List Nat) := execOps stabQ8 (StabState.new 2 1) [0] bellPeekAll

/-- the Bell state `CX·(H⊗1)|00⟩` -/
def bell : List Q8 := Spec.gateOn (P := Empty) 2 .CX [0, 1] (Spec.gateOn (P := Empty) 2 .H [0] [1, 0, 0, 0])

/-- Born probability that a `peek_all [0,1]` of the Bell state shows the register value `v`
(qubit `q` is written to classical bit `q`): `‖P_{v₀}⁽⁰⁾ P_{v₁}⁽¹⁾ ψ‖²` -/
def bellPeekAllBorn (v : Nat) : Q8 :=
  normSqSum (Spec.measureAllTo (P := Empty) 2 .Z (fun q => Spec.bitOf v ([0, 1].getD q 0)) bell)

theorem bell_normalised : normSqSum bell = 1 := by decide +kernel

theorem bellPeekAll_born : bellPeekAllBorn 0 = q8Half ∧ bellPeekAllBorn 1 = 0 ∧ bellPeekAllBorn 2 = 0 ∧
    bellPeekAllBorn 3 = q8Half := by decide +kernel

theorem bellPeekAll_stab : expect id bellPeekAllStabProg (regIs [1]) = q8Rat (1/4) ∧
    expect id bellPeekAllStabProg (regIs [2]) = q8Rat (1/4) := by decide +kernel

theorem bellPeekAll_stab_total : expect id bellPeekAllStabProg (fun _ => 1) = 1 := by decide +kernel

theorem q8_quarter_ne_zero : q8Rat (1/4) ≠ 0 := by decide +kernel
theorem q8_half_ne_zero : q8Half ≠ 0 := by decide +kernel

end Q1t.Sim.Witness

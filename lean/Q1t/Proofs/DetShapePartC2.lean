import Q1t.Proofs.DetShapePartC2b
import Q1t.Proofs.DetShapePartN1
set_option linter.unusedSectionVars false
set_option linter.unusedVariables false
set_option linter.unusedSimpArgs false
/-!
`PartC` (elementary route): `RREF ∧ HasDual ∧ PairComm ⇒ DetShape`.

The `2n+1` strings rows ∪ duals ∪ {Z_q} live in `2n` bits, so a non-trivial combination vanishes (`exists_dep`).
Pairing it with the rows kills the dual coefficients, pairing it with the duals shows that the coefficient of `Z_q`
is 1 (otherwise everything vanishes): `Z_q` is the bit-wise sum of a set of rows.  By `RREF` no X/Y-carrying row is
in the set (its private X-column), every member is an X/Y-free row whose private Z-column must be `q`, so there is
exactly one member and it equals `Z_q`; the other rows have neither X- nor Z-bit at `q`.
-/
namespace Q1t.Proofs.DetPlan
open Q1t Q1t.Tableau Q1t.Spec.Pauli Q1t.Proofs.Tableau Q1t.Proofs.TabG

theorem partC2 : PartC := by
  intro t hwf hrref hdual hpc q hq hxfree
  obtain ⟨ds, hdl, hdlen, hdsp⟩ := hdual
  obtain ⟨w1, w2, w3⟩ := hwf
  generalize hn : t.n = n at *
  -- the families
  have hRget : ∀ i : Fin n, t.rows[i.val]? = some (rowD t i) := fun i => rowD_getElem? t i (by omega)
  have hRlen : ∀ i : Fin n, (rowD t i).length = n := fun i => w3 _ (List.mem_of_getElem? (hRget i))
  have hDget : ∀ k : Fin n, ds[k.val]? = some (ds.getD k []) := fun k => by
    have : k.val < ds.length := by omega
    simp [List.getD_eq_getElem?_getD, List.getElem?_eq_getElem this]
  have hDlen : ∀ k : Fin n, (ds.getD k []).length = n := fun k => hdlen _ (List.mem_of_getElem? (hDget k))
  have hzlen : (zRow n q).length = n := by simp [zRow]
  let S : Fin n ⊕ (Fin n ⊕ Unit) → List P :=
    Sum.elim (fun i => rowD t i) (Sum.elim (fun k => ds.getD k []) (fun _ => zRow n q))
  have hSlen : ∀ x, (S x).length = n := by
    intro x
    rcases x with i | k | u
    · exact hRlen i
    · exact hDlen k
    · exact hzlen
  -- counting
  let v : (Fin n ⊕ (Fin n ⊕ Unit)) → (Fin n × Bool) → ZMod 2 :=
    fun x cb => if cb.2 then xZ (S x) cb.1 else zZ (S x) cb.1
  obtain ⟨a, hane, hcomb⟩ := exists_dep v (by
    simp only [Fintype.card_sum, Fintype.card_prod, Fintype.card_fin, Fintype.card_bool, Fintype.card_unit]; omega)
  have hX : ∀ c : Fin n, ∑ x, a x * xZ (S x) c = 0 := fun c => by simpa [v] using hcomb (c, true)
  have hZ : ∀ c : Fin n, ∑ x, a x * zZ (S x) c = 0 := fun c => by simpa [v] using hcomb (c, false)
  have pair := fun (w : List P) (hw : w.length = n) => pair_comb n a S hSlen w hw hX hZ
  -- the symplectic products
  have spRR : ∀ i j : Fin n, sp (rowD t i) (rowD t j) = false := fun i j => hpc _ _ _ _ (hRget i) (hRget j)
  have spRD : ∀ i k : Fin n, sp (rowD t i) (ds.getD k []) = decide (i.val = k.val) :=
    fun i k => hdsp _ _ _ _ (hRget i) (hDget k)
  have spzR : ∀ j : Fin n, sp (zRow n q) (rowD t j) = false := fun j => by
    rw [sp_zRow n q _ hq (hRlen j)]; exact hxfree _ _ (hRget j)
  have hb0 : bZ false = 0 := rfl
  have hb1 : bZ true = 1 := rfl
  -- pairing with the rows: the dual coefficients vanish
  have hβ : ∀ j : Fin n, a (Sum.inr (Sum.inl j)) = 0 := by
    intro j
    have h := pair (rowD t j) (hRlen j)
    rw [Fintype.sum_sum_type, Fintype.sum_sum_type] at h
    simp only [S, Sum.elim_inl, Sum.elim_inr, spRR, spzR, hb0, mul_zero, Finset.sum_const_zero, zero_add,
      add_zero, Finset.univ_unique, Finset.sum_singleton] at h
    rw [Finset.sum_eq_single j] at h
    · rw [sp_comm, spRD j j] at h; simpa [hb1] using h
    · intro k _ hk
      rw [sp_comm, spRD j k]
      have : ¬ (j.val = k.val) := fun e => hk (Fin.ext e.symm)
      simp [this, hb0]
    · intro h'; exact absurd (Finset.mem_univ j) h'
  -- pairing with the duals
  have hα : ∀ j : Fin n, a (Sum.inl j) = a (Sum.inr (Sum.inr ())) * bZ (sp (zRow n q) (ds.getD j [])) := by
    intro j
    have h := pair (ds.getD j []) (hDlen j)
    rw [Fintype.sum_sum_type, Fintype.sum_sum_type] at h
    simp only [S, Sum.elim_inl, Sum.elim_inr, hβ, zero_mul, Finset.sum_const_zero, zero_add,
      Finset.univ_unique, Finset.sum_singleton] at h
    rw [Finset.sum_eq_single j] at h
    · rw [spRD j j] at h
      simp only [decide_true, hb1, mul_one] at h
      exact z2_eq_of_add _ _ h
    · intro i _ hi
      rw [spRD i j]
      have : ¬ (i.val = j.val) := fun e => hi (Fin.ext e)
      simp [this, hb0]
    · intro h'; exact absurd (Finset.mem_univ j) h'
  -- the coefficient of Z_q is 1
  have he : a (Sum.inr (Sum.inr ())) = 1 := by
    apply z2_eq_one_of_ne
    intro he0
    apply hane
    funext x
    rcases x with i | k | u
    · rw [hα i, he0, zero_mul]; rfl
    · exact hβ k
    · exact he0
  -- (★) Z_q is the bit-wise sum of the selected rows
  have starX : ∀ c : Fin n, ∑ i : Fin n, a (Sum.inl i) * xZ (rowD t i) c = xZ (zRow n q) c := by
    intro c
    have h := hX c
    rw [Fintype.sum_sum_type, Fintype.sum_sum_type] at h
    simp only [S, Sum.elim_inl, Sum.elim_inr, hβ, zero_mul, Finset.sum_const_zero, zero_add,
      Finset.univ_unique, Finset.sum_singleton, he, one_mul] at h
    exact z2_eq_of_add _ _ h
  have starZ : ∀ c : Fin n, ∑ i : Fin n, a (Sum.inl i) * zZ (rowD t i) c = zZ (zRow n q) c := by
    intro c
    have h := hZ c
    rw [Fintype.sum_sum_type, Fintype.sum_sum_type] at h
    simp only [S, Sum.elim_inl, Sum.elim_inr, hβ, zero_mul, Finset.sum_const_zero, zero_add,
      Finset.univ_unique, Finset.sum_singleton, he, one_mul] at h
    exact z2_eq_of_add _ _ h
  -- every selected row is X/Y-free and owns the private Z-column q
  have hsel : ∀ j : Fin n, a (Sum.inl j) = 1 →
      bitAt P.hasZ (rowD t j) q = true ∧
      ∀ (k : Nat) r', k ≠ j.val → t.rows[k]? = some r' → bitAt P.hasZ r' q = false := by
    intro j hj
    rcases hrref j.val _ (hRget j) with hp | hid
    · rcases hp with ⟨x, hx1, hx2⟩ | ⟨_, p, hp1, hp2⟩
      · -- an X-pivot row cannot be selected
        exfalso
        have hxn : x < n := by
          by_contra hge
          have : (rowD t j)[x]? = none := List.getElem?_eq_none (by rw [hRlen j]; omega)
          simp [xAt, this] at hx1
        have h := starX ⟨x, hxn⟩
        rw [Finset.sum_eq_single j] at h
        · simp only [hj, one_mul, xZ, bitAt_zRow_X, hb0] at h
          rw [← xAt_eq_bitAt, hx1] at h
          exact absurd h (by decide)
        · intro i _ hi
          have : bitAt P.hasX (rowD t i) x = false := by
            rw [← xAt_eq_bitAt]; exact hx2 i.val _ (fun e => hi (Fin.ext e)) (hRget i)
          simp [xZ, this, hb0]
        · intro h'; exact absurd (Finset.mem_univ j) h'
      · -- an X-free pivot row: its private Z-column is q
        have hpn : p < n := by
          by_contra hge
          have : (rowD t j)[p]? = none := List.getElem?_eq_none (by rw [hRlen j]; omega)
          simp [zbitAt, this] at hp1
        have h := starZ ⟨p, hpn⟩
        rw [Finset.sum_eq_single j] at h
        · simp only [hj, one_mul, zZ, bitAt_zRow_Z n q p hpn] at h
          rw [← zbitAt_eq_bitAt, hp1] at h
          have hpq : p = q := by
            by_contra hne
            simp [hne, hb0, hb1] at h
          subst hpq
          exact ⟨by rw [← zbitAt_eq_bitAt]; exact hp1,
            fun k r' hk hr' => by rw [← zbitAt_eq_bitAt]; exact hp2 k r' hk hr'⟩
        · intro i _ hi
          have : bitAt P.hasZ (rowD t i) p = false := by
            rw [← zbitAt_eq_bitAt]; exact hp2 i.val _ (fun e => hi (Fin.ext e)) (hRget i)
          simp [zZ, this, hb0]
        · intro h'; exact absurd (Finset.mem_univ j) h'
    · -- an identity row has no dual
      exfalso
      have h1 := spRD j j
      rw [sp_identity _ _ hid] at h1
      simp at h1
  -- there is a selected row
  have hex : ∃ j : Fin n, a (Sum.inl j) = 1 := by
    by_contra hno
    have hall : ∀ i : Fin n, a (Sum.inl i) = 0 := fun i => by
      rcases z2_cases (a (Sum.inl i)) with h | h
      · exact h
      · exact absurd ⟨i, h⟩ hno
    have h := starZ ⟨q, hq⟩
    simp only [hall, zero_mul, Finset.sum_const_zero, zZ, bitAt_zRow_Z n q q hq, decide_true, hb1] at h
    exact absurd h (by decide)
  obtain ⟨j, hj⟩ := hex
  obtain ⟨hjq, hjpriv⟩ := hsel j hj
  -- it is the only one
  have huniq : ∀ i : Fin n, i ≠ j → a (Sum.inl i) = 0 := by
    intro i hi
    rcases z2_cases (a (Sum.inl i)) with h | h
    · exact h
    · exfalso
      obtain ⟨hiq, _⟩ := hsel i h
      have := hjpriv i.val _ (fun e => hi (Fin.ext e)) (hRget i)
      rw [hiq] at this; cases this
  -- so it equals Z_q
  have hrowj : rowD t j = zRow n q := by
    apply string_ext_bits n _ _ (hRlen j) hzlen
    · intro c hc
      have h := starX ⟨c, hc⟩
      rw [Finset.sum_eq_single j (fun i _ hi => by rw [huniq i hi, zero_mul])
        (fun h' => absurd (Finset.mem_univ j) h'), hj, one_mul] at h
      exact bZ_inj h
    · intro c hc
      have h := starZ ⟨c, hc⟩
      rw [Finset.sum_eq_single j (fun i _ hi => by rw [huniq i hi, zero_mul])
        (fun h' => absurd (Finset.mem_univ j) h'), hj, one_mul] at h
      exact bZ_inj h
  refine ⟨j.val, j.isLt, by rw [hRget j, hrowj], ?_⟩
  intro k r hk hr
  have hkn : k < n := by have := (List.getElem?_eq_some_iff.mp hr).1; omega
  have hrl : r.length = n := w3 r (List.mem_of_getElem? hr)
  have hcq : r[q]? = some r[q] := List.getElem?_eq_getElem (by omega)
  have hx : bitAt P.hasX r q = false := by rw [← xAt_eq_bitAt]; exact hxfree k r hr
  have hz : bitAt P.hasZ r q = false := hjpriv k r hk hr
  simp only [bitAt, hcq] at hx hz
  rw [hcq, cell_I_of_bits _ hx hz]

end Q1t.Proofs.DetPlan

import Q1t.Proofs.FromStringErrors2
import Q1t.Proofs.FromStringTables
/-!
C15, part 6: the statements of `Props/C15.lean` at the tables re-extracted from the sources, with the decidable
(Boolean) well-formedness conditions of `Spec/FromString.lean` as hypotheses.  (Core Lean only.)
-/
namespace Q1t.Proofs.FromString
open Q1t Q1t.FromString Q1t.Spec.FromString
open Q1t.Expr (isWs dropWs reLit FloatOps)
open Q1t.Spec.ExprGrammar (Cst Conv Stops isBlank evalConv Blank)
open Q1t.Proofs.Expr (interpOf headNB)

/-- Error of an outcome, if it is one. -/
def errOf {α : Type} : Res α → Option ParseErr
  | .err e => some e
  | _ => none

/-- Width and qubit lists of a composite outcome. -/
def opBits {P : Type} : OpList P → List (List Nat)
  | .nil => []
  | .cons _ bits rest => bits :: opBits rest

def okShape {P : Type} : Res (GateTerm P) → Option (Nat × List (List Nat))
  | .ok (.Composite _ n ops) => some (n, opBits ops)
  | _ => none

/-- The trivial interpretation of the float operations (for kernel-evaluated examples: errors, widths and qubit lists
do not depend on the interpretation). -/
def unitOps : FloatOps Unit :=
  ⟨fun _ => (), fun _ _ => (), fun _ _ => (), fun _ _ => (), fun _ _ => (), fun _ => (), fun _ _ => (),
   fun _ => (), fun _ => (), fun _ => (), fun _ => (), fun _ => (), fun _ => ()⟩

theorem documented_qubits_pos : ∀ row ∈ documentedTable, 1 ≤ row.2.2.2.1 := by decide +kernel

theorem bits_ne_nil_of_matches {p : PartL} (h : p.Matches = true) : p.bits ≠ [] := by
  simp only [PartL.Matches, beq_iff_eq] at h
  obtain ⟨row, hrow, _, _, hnb⟩ := docArity_row h
  have := documented_qubits_pos row hrow
  intro e; rw [e] at hnb; simp at hnb; omega

theorem foldl_max_lt {B : Nat} : ∀ (l : List Nat) (m : Nat), (∀ x ∈ l, x < B) → m < B → l.foldl max m < B
  | [], m, _, hm => hm
  | x :: t, m, h, hm => by
    simp only [List.foldl_cons]
    exact foldl_max_lt t (max m x) (fun y hy => h y (List.mem_cons_of_mem _ hy)) (by
      have := h x (List.mem_cons_self ..)
      omega)

theorem maxIndex_lt {B : Nat} (hB : 0 < B) (ps : List PartL) (h : ∀ p ∈ ps, ∀ b ∈ p.bits, b.val < B) :
    maxIndex ps < B := by
  unfold maxIndex
  apply foldl_max_lt _ _ _ hB
  intro x hx
  simp only [List.mem_flatMap, PartL.vals, List.mem_map] at hx
  obtain ⟨p, hp, b, hb, rfl⟩ := hx
  exact h p hp b hb

/-- Round trip at the generated tables. -/
theorem render_gen {F : Type} (I : FloatOps F) (hneg : ∀ x, I.neg (I.neg x) = x) (name : String)
    (ps : List PartL) (hne : ps ≠ [])
    (h : ∀ p ∈ ps, p.WF = true ∧ p.Matches = true ∧ p.bigInt = false ∧ ∀ b ∈ p.bits, b.val + 1 < 2 ^ 64) :
    ∃ ops, expectedOps (interpOf I) ps = some ops ∧
      fromString I genTables name (renderDesc ps) = .ok (.Composite name (maxIndex ps + 1) ops) := by
  apply fromString_render I hneg gen_tabOK gen_dispatch_documented name ps hne
  · intro p hp
    obtain ⟨h1, h2, h3, h4⟩ := h p hp
    exact ⟨partGood_of_wf h1 h3 (fun b hb => by have := h4 b hb; omega), bits_ne_nil_of_matches h2, h2⟩
  · have := maxIndex_lt (B := 2 ^ 64 - 1) (by decide) ps (fun p hp b hb => by have := (h p hp).2.2.2 b hb; omega)
    omega

/-- The hypotheses of the error theorems, from the Boolean conditions. -/
theorem good_of_wf {ps : List PartL}
    (h : ∀ p ∈ ps, p.WF = true ∧ p.bits ≠ [] ∧ p.bigInt = false ∧ ∀ b ∈ p.bits, b.val < 2 ^ 64) :
    ∀ p ∈ ps, PartGood p ∧ p.bits ≠ [] :=
  fun p hp => ⟨partGood_of_wf (h p hp).1 (h p hp).2.2.1 (h p hp).2.2.2, (h p hp).2.1⟩

theorem headGood_of_wf {p : PartL} (hwf : p.WF = true) (hbig : p.bigInt = false) (hb : p.bits = []) : HeadGood p := by
  have := partGood_of_wf hwf hbig (by rw [hb]; simp)
  exact ⟨this.w0, this.name, this.wOpen, this.args⟩

theorem argGood_of {a : ArgL} (h : (a.c.WF && Conv a.c && allBlank a.wAfter && !a.c.bigInt) = true) : ArgGood a := by
  simp only [Bool.and_eq_true, Bool.not_eq_true'] at h
  exact ⟨h.1.1.1, h.1.1.2, h.2, isBlank_of_all h.1.2⟩

end Q1t.Proofs.FromString

import Q1t.Proofs.CQasmGateWF
set_option linter.unusedSimpArgs false
set_option linter.unusedVariables false
/-!
C12 (`cq_wellformed_partial`), part 10: `c_qasm` of a good library gate.
-/
namespace Q1t.Proofs.CQasm
open Q1t Q1t.CQ Q1t.Gen

variable {F : Type}

def holeText (σ : Tok → Tok) : SOp → Option Text
  | .hole inner => some (innerText σ inner)
  | _ => none

theorem wf_inner (σ : Tok → Tok) (hσ : Subst σ) : ∀ (inner : List Tok) (acc : Text) (rest : List Tok),
    innerOK inner = true → (∀ t ∈ inner, coveredTok σ t) →
    holesWF (some acc) (inner.map σ ++ .rb :: rest) = holesWF none rest ∧
    inners (some acc) (inner.map σ ++ .rb :: rest) = (acc ++ innerText σ inner) :: inners none rest
  | [], acc, rest, _, _ => by simp [holesWF, inners, innerText]
  | .lit t :: r, acc, rest, hok, hc => by
    have ih := wf_inner σ hσ r (acc ++ t) rest (by simpa [innerOK] using hok) (fun x hx => hc x (by simp [hx]))
    simp only [List.map_cons, List.cons_append, hσ.lit, holesWF, inners, ih, innerText, List.flatMap_cons, textOf,
      List.append_assoc, and_self]
  | .var k :: r, acc, rest, hok, hc => by
    obtain ⟨t, ht⟩ := hc (.var k) (by simp)
    have ih := wf_inner σ hσ r (acc ++ t) rest (by simpa [innerOK] using hok) (fun x hx => hc x (by simp [hx]))
    simp only [List.map_cons, List.cons_append, ht, holesWF, inners, ih, innerText, List.flatMap_cons, textOf,
      List.append_assoc, and_self]
  | .lb :: _, _, _, hok, _ => by simp [innerOK] at hok
  | .rb :: _, _, _, hok, _ => by simp [innerOK] at hok

theorem wf_op (σ : Tok → Tok) (hσ : Subst σ) (o : SOp) (rest : List Tok) (hs : o.shapeOK = true) (hc : o.covered σ) :
    holesWF none (o.toks.map σ ++ rest) = holesWF none rest ∧
    inners none (o.toks.map σ ++ rest) = (holeText σ o).toList ++ inners none rest := by
  cases o with
  | q loc => obtain ⟨t, ht⟩ := hc; simp [SOp.toks, ht, holesWF, inners, holeText]
  | lit t => simp [SOp.toks, hσ.lit, holesWF, inners, holeText]
  | arg a => obtain ⟨t, ht⟩ := hc; simp [SOp.toks, ht, holesWF, inners, holeText]
  | hole inner =>
    have := wf_inner σ hσ inner [] rest hs hc
    simp only [SOp.toks, List.map_cons, List.map_append, List.map_nil, hσ.lb, hσ.rb, List.cons_append, holesWF, inners,
      List.append_assoc, List.singleton_append, holeText, Option.toList]
    simpa using this

theorem wf_ops (σ : Tok → Tok) (hσ : Subst σ) : ∀ (ops : List SOp) (rest : List Tok),
    (∀ o ∈ ops, o.shapeOK = true) → (∀ o ∈ ops, o.covered σ) →
    holesWF none ((opsToks ops).map σ ++ rest) = holesWF none rest ∧
    inners none ((opsToks ops).map σ ++ rest) = ops.filterMap (holeText σ) ++ inners none rest
  | [], rest, _, _ => by simp [opsToks]
  | [o], rest, hs, hc => by
    have := wf_op σ hσ o rest (hs o (by simp)) (hc o (by simp))
    cases h : holeText σ o <;> simpa [opsToks, List.filterMap_cons, h] using this
  | o :: o' :: os, rest, hs, hc => by
    have ih := wf_ops σ hσ (o' :: os) rest (fun x hx => hs x (by simp [hx])) (fun x hx => hc x (by simp [hx]))
    have e : (opsToks (o :: o' :: os)).map σ ++ rest =
        o.toks.map σ ++ (σ (.lit ", ".toList) :: ((opsToks (o' :: os)).map σ ++ rest)) := by
      simp [opsToks]
    have h1 := wf_op σ hσ o (σ (.lit ", ".toList) :: ((opsToks (o' :: os)).map σ ++ rest)) (hs o (by simp)) (hc o (by simp))
    rw [e, h1.1, h1.2, hσ.lit]
    simp only [holesWF, inners, ih]
    cases h : holeText σ o <;> simp [List.filterMap_cons, h]

theorem wf_line (σ : Tok → Tok) (hσ : Subst σ) (pre : Text) (l : SLine) (rest : List Tok)
    (hs : ∀ o ∈ l.ops, o.shapeOK = true) (hc : ∀ o ∈ l.ops, o.covered σ) :
    holesWF none ((lineToks pre l).map σ ++ rest) = holesWF none rest ∧
    inners none ((lineToks pre l).map σ ++ rest) = l.ops.filterMap (holeText σ) ++ inners none rest := by
  simp only [lineToks, List.map_cons, List.cons_append, hσ.lit, holesWF, inners]
  exact wf_ops σ hσ l.ops rest hs hc

theorem wf_lines (σ : Tok → Tok) (hσ : Subst σ) (pre : Text) : ∀ (ls : List SLine),
    (∀ l ∈ ls, ∀ o ∈ l.ops, o.shapeOK = true) → (∀ l ∈ ls, ∀ o ∈ l.ops, o.covered σ) →
    holesWF none ((ls.flatMap (lineToks pre)).map σ) = true ∧
    inners none ((ls.flatMap (lineToks pre)).map σ) = ls.flatMap (fun l => l.ops.filterMap (holeText σ))
  | [], _, _ => by simp [holesWF, inners]
  | l :: ls, hs, hc => by
    have ih := wf_lines σ hσ pre ls (fun x hx => hs x (by simp [hx])) (fun x hx => hc x (by simp [hx]))
    have h1 := wf_line σ hσ pre l ((ls.flatMap (lineToks pre)).map σ) (hs l (by simp)) (hc l (by simp))
    simp only [List.flatMap_cons, List.map_append, h1.1, h1.2, ih]
    simp

theorem wf_flat (σ : Tok → Tok) (hσ : Subst σ) (l : SLine) (ls : List SLine)
    (hs : ∀ x ∈ l :: ls, ∀ o ∈ x.ops, o.shapeOK = true) (hc : ∀ x ∈ l :: ls, ∀ o ∈ x.ops, o.covered σ) :
    holesWF none ((flat (l :: ls)).map σ) = true ∧
    inners none ((flat (l :: ls)).map σ) = (l :: ls).flatMap (fun l => l.ops.filterMap (holeText σ)) := by
  have h2 := wf_lines σ hσ ['\n'] ls (fun x hx => hs x (by simp [hx])) (fun x hx => hc x (by simp [hx]))
  have h1 := wf_line σ hσ [] l ((ls.flatMap (lineToks ['\n'])).map σ) (hs l (by simp)) (hc l (by simp))
  simp only [flat, List.map_append, h1.1, h1.2, h2]
  simp

end Q1t.Proofs.CQasm

namespace Q1t.Proofs.CQasm
open Q1t Q1t.CQ Q1t.Gen

variable {F : Type}

theorem tokOK_substAll (kvs : List (Text × Text)) (hk : ∀ kv ∈ kvs, braceFree kv.2 = true) (toks : List Tok)
    (h : toks.all tokOK = true) : (toks.map (substAll kvs)).all tokOK = true := by
  rw [List.all_eq_true] at h ⊢
  intro t ht
  obtain ⟨t0, ht0, rfl⟩ := List.mem_map.mp ht
  cases t0 with
  | lit t => rw [substAll_lit]; exact h _ ht0
  | lb => rw [substAll_lb]; rfl
  | rb => rw [substAll_rb]; rfl
  | var k =>
    rw [substAll_var]
    cases hf : kvs.find? (fun kv => kv.1 == k) with
    | none => exact h _ ht0
    | some kv => exact hk kv (List.mem_of_find?_eq_some hf)

theorem kvs_braceFree (N : Num F) (hN : GoodNum N) (bits : List Nat) (argNames : List String) (params : List (Param F))
    (hgood : ∀ x ∈ argNames, paramGood x = true) (hd : ∀ p ∈ params, p.isRef = false) :
    ∀ kv ∈ kvsOf N bits argNames params, braceFree kv.1 = true ∧ braceFree kv.2 = true := by
  intro kv hkv
  rcases List.mem_append.mp hkv with h | h
  · obtain ⟨p, _, rfl⟩ := List.mem_map.mp h
    refine ⟨?_, word_braceFree (word_qName p.1)⟩
    simp only [braceFree, List.all_eq_true]
    intro c hc
    have := digits_okChar (natText_digits p.2 c hc)
    simp [okChar] at this; simp [this]
  · obtain ⟨ap, hap, rfl⟩ := List.mem_map.mp h
    have h1 := List.of_mem_zip hap
    refine ⟨?_, ?_⟩
    · have := hgood ap.1 h1.1; simp only [paramGood, Bool.and_eq_true] at this; exact this.1.1
    · have := hd ap.2 h1.2
      cases hp : ap.2 with
      | direct x => simp [Param.text]; exact word_braceFree (hN.disp_word x)
      | ref n x => rw [hp] at this; simp [Param.isRef] at this

theorem direct_text (N : Num F) (p : Param F) (h : p.isRef = false) : p.text N = N.disp p.value := by
  cases p with
  | direct x => rfl
  | ref n x => simp [Param.isRef] at h

theorem holeVars_covered (σ : Tok → Tok) (params : List String)
    (ha : ∀ a ∈ params, ∃ t, σ (.var a.toList) = .lit t) : ∀ (inner : List Tok), holeVarsIn params inner = true →
    ∀ t ∈ inner, coveredTok σ t
  | [], _, t, ht => by simp at ht
  | t0 :: r, h, t, ht => by
    rcases List.mem_cons.mp ht with rfl | ht
    · cases t with
      | var key =>
        simp only [holeVarsIn, Bool.and_eq_true, List.any_eq_true] at h
        obtain ⟨⟨a, ha1, ha2⟩, _⟩ := h
        have : a.toList = key := by simpa using ha2
        subst this
        exact ha a ha1
      | lit _ => trivial
      | lb => trivial
      | rb => trivial
    · apply holeVars_covered σ params ha r _ t ht
      cases t0 <;> simp_all [holeVarsIn]

theorem typed_covered (σ : Tok → Tok) (k : Nat) (params : List String)
    (hq : ∀ loc < k, ∃ t, σ (.var (natText loc)) = .lit t)
    (ha : ∀ a ∈ params, ∃ t, σ (.var a.toList) = .lit t) : ∀ (ops : List SOp) (sig : List CQ1.Kind),
    opsTyped k params ops sig = true → ∀ o ∈ ops, o.shapeOK = true ∧ o.covered σ
  | [], _, _, o, ho => by simp at ho
  | _ :: _, [], h, _, _ => by simp [opsTyped] at h
  | o0 :: os, kd :: ks, h, o, ho => by
    simp only [opsTyped, Bool.and_eq_true] at h
    rcases List.mem_cons.mp ho with rfl | ho
    · cases o with
      | q loc => cases kd <;> simp [opTyped] at h; exact ⟨rfl, hq loc h.1⟩
      | lit t => exact ⟨rfl, trivial⟩
      | arg a => cases kd <;> simp [opTyped] at h; exact ⟨rfl, ha a h.1⟩
      | hole inner =>
        cases kd <;> simp [opTyped] at h
        exact ⟨h.1.1, holeVars_covered σ params ha inner h.1.2⟩
    · exact typed_covered σ k params hq ha os ks h.2 o ho

theorem fillFormat_toks (σ : Tok → Tok) (hσ : Subst σ) (v : Text → Text) (A : CQArg → Text)
    (hA : ∀ a, σ (argTok a) = .lit (A a) ∨ True) :
    ∀ (pieces : List Text) (args : List CQArg), (∀ a ∈ args, σ (argTok a) = .lit (A a)) →
      fillFormat pieces (args.map A) = fillH v none ((fmtToks pieces args).map σ)
  | [], args, _ => by simp [fillFormat, fmtToks, fillH]
  | p :: ps, [], _ => by
    simp only [fillFormat, List.map_nil, fmtToks, litP]
    by_cases hp : (p ++ ps.foldl (· ++ ·) []).isEmpty
    · have : p ++ ps.foldl (· ++ ·) [] = [] := by simpa using hp
      simp [hp, fillH, this]
    · simp [hp, hσ.lit, fillH]
  | p :: ps, a :: as, h => by
    have ih := fillFormat_toks σ hσ v A hA ps as (fun x hx => h x (by simp [hx]))
    simp only [fillFormat, List.map_cons, fmtToks, litP, List.map_append]
    by_cases hp : p.isEmpty
    · have : p = [] := by simpa using hp
      simp [hp, this, h a (by simp), fillH, ih]
    · simp [hp, hσ.lit, h a (by simp), fillH, ih]

theorem flatMap_congr' {α β} (f g : α → List β) : ∀ (l : List α), (∀ a ∈ l, f a = g a) → l.flatMap f = l.flatMap g
  | [], _ => rfl
  | a :: as, h => by
    simp only [List.flatMap_cons, h a (by simp), flatMap_congr' f g as (fun x hx => h x (by simp [hx]))]

theorem mapRes_map {α β} (f : α → Res β) (g : α → β) : ∀ (l : List α), (∀ a ∈ l, f a = .ok (g a)) →
    mapRes f l = .ok (l.map g)
  | [], _ => rfl
  | a :: as, h => by
    simp only [mapRes, h a (by simp), Res.bind_ok, mapRes_map f g as (fun x hx => h x (by simp [hx]))]
    rfl

/-- **`c_qasm` of a good library gate, explicitly**: the text is the instantiated structured lines of the template
(`σ`: placed qubit names and printed parameters; `v`: the evaluated holes), joined by newlines -/
theorem lib_text (N : Num F) (hN : GoodNum N) (g : CQGate) (hg : g ∈ cqGates) (hgood : gateGood g = true)
    (nq : Nat) (params : List (Param F)) (hp : params.length = g.params.length) (hd : ∀ p ∈ params, p.isRef = false)
    (bits : List Nat) (hk : bits.length = libBits g.name) (hb : ∀ b ∈ bits, b < nq) (hn : bits.Nodup) :
    slinesOf g ≠ [] ∧
    gateCQasm N (qNames nq) g params bits = .ok (intercalate ['\n'] ((slinesOf g).map
      (instLine (substAll (kvsOf N bits g.params params)) (fun i => (holeValue N i).getD [])))) ∧
    (∀ x ∈ slinesOf g, lineGood (libBits g.name) g.params x = true) ∧
    (∀ a ∈ g.params, ∃ p, paramOf g.params params a = some p ∧
      substAll (kvsOf N bits g.params params) (.var a.toList) = .lit (N.disp p.value)) ∧
    (∀ x ∈ slinesOf g, ∀ inner, SOp.hole inner ∈ x.ops →
      (∀ key, Tok.var key ∈ inner → ∃ a ∈ g.params, a.toList = key) ∧ innerOK inner = true ∧
      ∃ y, holeValue N (innerText (substAll (kvsOf N bits g.params params)) inner) = some (N.disp y)) := by
  have hgood0 := hgood
  unfold gateGood at hgood
  cases hsl : slinesOf g with
  | nil => rw [hsl] at hgood; simp at hgood
  | cons l ls =>
    rw [hsl] at hgood
    simp only [Bool.and_eq_true, List.all_eq_true] at hgood
    obtain ⟨⟨⟨⟨hkind, htok⟩, hsafe⟩, hlines⟩, hpar⟩ := hgood
    let kvs := kvsOf N bits g.params params
    let σ := substAll kvs
    have hσ : Subst σ := substAll_subst kvs
    let v : Text → Text := fun i => (holeValue N i).getD []
    have hq : ∀ loc, ∀ (h : loc < bits.length), σ (.var (natText loc)) = .lit (qName bits[loc]) :=
      fun loc h => sigma_bit N bits g.params params loc h
    have ha' : ∀ a ∈ g.params, ∃ p, paramOf g.params params a = some p ∧ σ (.var a.toList) = .lit (N.disp p.value) := by
      intro a ham
      obtain ⟨p, hpo, hpm, hs⟩ := sigma_arg N bits g.params params a hpar ham hp
      exact ⟨p, hpo, by rw [← direct_text N p (hd p hpm)]; exact hs⟩
    have ha : ∀ a ∈ g.params, ∃ x, σ (.var a.toList) = .lit (N.disp x) := by
      intro a ham
      obtain ⟨p, _, hs⟩ := ha' a ham
      exact ⟨p.value, hs⟩
    have hcov : ∀ x ∈ l :: ls, ∀ o ∈ x.ops, o.shapeOK = true ∧ o.covered σ := by
      intro x hx o ho
      have hlg := hlines x hx
      simp only [lineGood, Bool.and_eq_true] at hlg
      cases hs : CQ1.signature (String.ofList x.name) with
      | none => rw [hs] at hlg; simp at hlg
      | some sig =>
        rw [hs] at hlg
        exact typed_covered σ (libBits g.name) g.params
          (fun loc hl => ⟨_, hq loc (by omega)⟩) (fun a ham => let ⟨_, hx⟩ := ha a ham; ⟨_, hx⟩) x.ops sig hlg.1.1.2 o ho
    have hvarsP : ∀ x ∈ l :: ls, ∀ inner, SOp.hole inner ∈ x.ops → ∀ key, Tok.var key ∈ inner →
        ∃ a ∈ g.params, a.toList = key := by
      intro x hx inner hin key hkey
      have hlg := hlines x hx
      simp only [lineGood, Bool.and_eq_true] at hlg
      cases hs : CQ1.signature (String.ofList x.name) with
      | none => rw [hs] at hlg; simp at hlg
      | some sig =>
        rw [hs] at hlg
        -- the variables of a hole are parameters
        have : ∀ (ops : List SOp) (sg : List CQ1.Kind), opsTyped (libBits g.name) g.params ops sg = true →
            SOp.hole inner ∈ ops → holeVarsIn g.params inner = true := by
          intro ops
          induction ops with
          | nil => intro _ _ hm; simp at hm
          | cons o os ih =>
            intro sg ht hm
            cases sg with
            | nil => simp [opsTyped] at ht
            | cons kd ks =>
              simp only [opsTyped, Bool.and_eq_true] at ht
              rcases List.mem_cons.mp hm with e | hm
              · subst e; cases kd <;> simp [opTyped] at ht; exact ht.1.2
              · exact ih ks ht.2 hm
        have hvi := this x.ops sig hlg.1.1.2 hin
        have : ∀ (inn : List Tok), holeVarsIn g.params inn = true → Tok.var key ∈ inn → ∃ a ∈ g.params, a.toList = key := by
          intro inn
          induction inn with
          | nil => intro _ hm; simp at hm
          | cons t r ih =>
            intro h hm
            rcases List.mem_cons.mp hm with e | hm
            · subst e
              simp only [holeVarsIn, Bool.and_eq_true, List.any_eq_true] at h
              obtain ⟨⟨a, ha1, ha2⟩, _⟩ := h
              exact ⟨a, ha1, by simpa using ha2⟩
            · apply ih _ hm
              cases t <;> simp_all [holeVarsIn]
        exact this inner hvi hkey
    -- the holes evaluate
    have hv : ∀ x ∈ l :: ls, ∀ inner, SOp.hole inner ∈ x.ops →
        ∃ y, holeValue N (innerText σ inner) = some (N.disp y) := by
      intro x hx inner hin
      classical
      let ρ : Text → Option F := fun key =>
        if h : ∃ y, σ (.var key) = .lit (N.disp y) then some (Classical.choose h) else none
      have hcovi := (hcov x hx _ hin).2
      have hshape := (hcov x hx _ hin).1
      have hvars : ∀ key, Tok.var key ∈ inner → ∃ y, σ (.var key) = .lit (N.disp y) := by
        intro key hkey
        obtain ⟨a, ham, rfl⟩ := hvarsP x hx inner hin key hkey
        exact ha a ham
      have heq : innerText σ inner = inner.flatMap (instTok N ρ) := by
        unfold innerText
        apply flatMap_congr'
        intro t ht
        cases t with
        | lit s => simp [hσ.lit, textOf, instTok]
        | var key =>
          have hex := hvars key ht
          have hr : ρ key = some (Classical.choose hex) := by simp [ρ, hex]
          have hspec := Classical.choose_spec hex
          have e1 : textOf (σ (.var key)) = N.disp (Classical.choose hex) := (congrArg textOf hspec).trans rfl
          have e2 : instTok N ρ (.var key) = N.disp (Classical.choose hex) := by simp only [instTok, hr]
          rw [e1, e2]
        | lb => have hshape : innerOK inner = true := hshape; exact absurd ht (by
            intro hm
            have : ∀ (inn : List Tok), innerOK inn = true → Tok.lb ∉ inn := by
              intro inn; induction inn with
              | nil => simp
              | cons t r ih => intro h; cases t <;> simp_all [innerOK]
            exact this inner hshape hm)
        | rb => have hshape : innerOK inner = true := hshape; exact absurd ht (by
            intro hm
            have : ∀ (inn : List Tok), innerOK inn = true → Tok.rb ∉ inn := by
              intro inn; induction inn with
              | nil => simp
              | cons t r ih => intro h; cases t <;> simp_all [innerOK]
            exact this inner hshape hm)
      rw [heq]
      refine hN.holes g hg hgood0 x (by rw [hsl]; exact hx) inner hin ρ ?_
      intro key hkey
      simp [ρ, hvars key hkey]
    have hvv : ∀ x ∈ l :: ls, ∀ inner, SOp.hole inner ∈ x.ops → ∃ y, v (innerText σ inner) = N.disp y := by
      intro x hx inner hin
      obtain ⟨y, hy⟩ := hv x hx inner hin
      exact ⟨y, by simp [v, hy]⟩
    -- the text
    have hs : ∀ x ∈ l :: ls, ∀ o ∈ x.ops, o.shapeOK = true := fun x hx o ho => (hcov x hx o ho).1
    have hc : ∀ x ∈ l :: ls, ∀ o ∈ x.ops, o.covered σ := fun x hx o ho => (hcov x hx o ho).2
    have htext : gateCQasm N (qNames nq) g params bits =
        .ok (intercalate ['\n'] ((l :: ls).map (instLine σ v))) := by
      unfold gateCQasm
      cases hkd : g.kind with
      | plain ln => rw [hkd] at hkind; simp at hkind
      | template tpl =>
        rw [hkd] at hkind
        simp only [beq_iff_eq] at hkind
        simp only []
        rw [expandTemplate_passes N nq tpl g.params params bits hb, ← hkind]
        have hkeys := kvs_keys N bits g.params params hp
        have hbf := kvs_braceFree N hN bits g.params params hpar hd
        rw [passes_tokens kvs (flat (l :: ls)) hbf
          (by rw [List.all_eq_true]; exact htok) (by rw [hkeys, hk]; exact hsafe)]
        have hw := wf_flat σ hσ l ls hs hc
        rw [holes_render N v _ (tokOK_substAll kvs (fun kv h => (hbf kv h).2) _ (by rw [List.all_eq_true]; exact htok)) hw.1
          (by
            intro i hi
            rw [hw.2] at hi
            obtain ⟨x, hx, hi⟩ := List.mem_flatMap.mp hi
            obtain ⟨o, ho, hoi⟩ := List.mem_filterMap.mp hi
            cases o with
            | hole inner =>
              simp [holeText] at hoi; subst hoi
              obtain ⟨y, hy⟩ := hv x hx inner ho
              simp [v, hy]
            | q _ => simp [holeText] at hoi
            | lit _ => simp [holeText] at hoi
            | arg _ => simp [holeText] at hoi)]
        rw [fillH_flat σ hσ v l ls hs hc]
      | format check pieces args =>
        rw [hkd] at hkind
        simp only [Bool.and_eq_true, beq_iff_eq, Bool.or_eq_true, List.all_eq_true] at hkind
        obtain ⟨⟨htoks, hcheck⟩, hargs⟩ := hkind
        let A : CQArg → Text := fun a => textOf (σ (argTok a))
        have hA : ∀ a ∈ args, σ (argTok a) = .lit (A a) ∧ formatArg N (qNames nq) g.params params bits a = .ok (A a) := by
          intro a ham
          have hga := hargs a ham
          cases a with
          | bit k' =>
            simp [fmtArgGood] at hga
            have hl : k' < bits.length := by omega
            have := hq k' hl
            refine ⟨by simp [A, argTok, this, textOf], ?_⟩
            simp [A, argTok, this, textOf, formatArg, bitName, List.getElem?_eq_getElem hl,
              qNames_get nq bits[k'] (hb _ (List.getElem_mem hl))]
          | param f =>
            simp [fmtArgGood] at hga
            obtain ⟨p, hpo, _, hs⟩ := sigma_arg N bits g.params params f hpar hga hp
            have hs' : σ (.var f.toList) = .lit (p.text N) := hs
            refine ⟨by simp [A, argTok, hs', textOf], ?_⟩
            simp [A, argTok, hs', textOf, formatArg, hpo]
          | paramPlusPi f => simp [fmtArgGood] at hga
        have hmap : mapRes (formatArg N (qNames nq) g.params params bits) args = .ok (args.map A) :=
          mapRes_map _ A args (fun a ham => (hA a ham).2)
        have hfill : fillFormat (pieces.map String.toList) (args.map A) =
            intercalate ['\n'] ((l :: ls).map (instLine σ v)) := by
          rw [fillFormat_toks σ hσ v A (fun _ => Or.inr trivial) _ args (fun a ham => (hA a ham).1), htoks,
            fillH_flat σ hσ v l ls hs hc]
        cases check with
        | none => simp only [hmap, Res.bind_ok, Res.pure_eq, hfill]
        | some kk =>
          have : kk = libBits g.name := by
            rcases hcheck with h | h
            · simp at h
            · simpa using h
          have hlen : ¬ bits.length ≠ kk := by rw [this, hk]; simp
          simp only [hlen, if_false, hmap, Res.bind_ok, Res.pure_eq, hfill]
    refine ⟨by simp, htext, hlines, ha', ?_⟩
    intro x hx inner hin
    exact ⟨hvarsP x hx inner hin, (hcov x hx _ hin).1, hv x hx inner hin⟩

/-- **`c_qasm` of a good library gate**: printed gate instructions on the placement, one per template line -/
theorem lib_lines (N : Num F) (hN : GoodNum N) (g : CQGate) (hg : g ∈ cqGates) (hgood : gateGood g = true)
    (nq : Nat) (params : List (Param F)) (hp : params.length = g.params.length) (hd : ∀ p ∈ params, p.isRef = false)
    (bits : List Nat) (hk : bits.length = libBits g.name) (hb : ∀ b ∈ bits, b < nq) (hn : bits.Nodup) :
    ∃ lines : List Text, lines ≠ [] ∧ lines.length = (slinesOf g).length ∧
      gateCQasm N (qNames nq) g params bits = .ok (intercalate ['\n'] lines) ∧
      ∀ l ∈ lines, GoodPrinted nq bits l := by
  obtain ⟨h1, h2, h3, h4, h5⟩ := lib_text N hN g hg hgood nq params hp hd bits hk hb hn
  refine ⟨_, by simpa using h1, by simp, h2, ?_⟩
  intro line hline
  obtain ⟨x, hx, rfl⟩ := List.mem_map.mp hline
  refine line_printed N hN _ _ (libBits g.name) g.params nq bits hk hn x (h3 x hx)
    (fun loc h => sigma_bit N bits g.params params loc h) ?_ ?_
  · intro a ham
    obtain ⟨p, _, hs⟩ := h4 a ham
    exact ⟨p.value, hs⟩
  · intro inner hin
    obtain ⟨_, _, y, hy⟩ := h5 x hx inner hin
    exact ⟨y, by simp [hy]⟩

end Q1t.Proofs.CQasm

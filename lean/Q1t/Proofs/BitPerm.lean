import Q1t.Model.Gate
import Q1t.Proofs.SubIndex
import Mathlib.Tactic.Ring
/-!
# `gates::bit_permutation` for all register sizes

`bitPermutation_spec`: for every `n` and every valid placement `bits`, `bitPermutation n bits`
succeeds with a permutation `p` of `[0, 2^n)` such that `p[gatherIndex n bits i] = i`.

Route: one pass of the loop (`moveBit n s`) turns the index spelled by an arrangement
`L ++ b :: R` of the qubits (`s = |L|`) into the index spelled by `b :: (L ++ R)`
(`moveBit_subIndex`, pure arithmetic on `(A·2+q)·2^r + C`); the working list of the loop holds the
positions (`idxOf`) of the unprocessed qubits in the current arrangement (`idxOf_erase_succ` is the
`if a < s then a + 1 else a` adjustment); after the loop the arrangement is `bits ++ others n bits`
(`finalArr_eq`), i.e. the table is `gatherIndex n bits`, a permutation (`gatherTable_isPerm`), whose
inverse `Perm.new`/`Perm.inverse` return (`Q1t.Proofs.Perm`).
-/
namespace Q1t.Proofs.BitPerm
open Q1t Q1t.Spec Q1t.Gate

theorem moveBit_arith (s r A q C : Nat) (hA : A < 2 ^ s) (hq : q < 2) (hC : C < 2 ^ r) :
    moveBit (s + r + 1) s ((A * 2 + q) * 2 ^ r + C) = q * 2 ^ (s + r) + A * 2 ^ r + C := by
  have hidx : s + r + 1 - s - 1 = r := by omega
  have hB : 0 < 2 ^ r := Nat.two_pow_pos r
  set B := 2 ^ r with hBdef
  have hx : (A * 2 + q) * B + C = (2 * B) * A + (q * B + C) := by ring
  have hqB : q * B + C < 2 * B := by
    have : q * B ≤ 1 * B := Nat.mul_le_mul_right _ (by omega)
    omega
  have hmod : ((A * 2 + q) * B + C) % (2 * B) = q * B + C := by
    rw [hx, Nat.mul_add_mod, Nat.mod_eq_of_lt hqB]
  have hupper : ((A * 2 + q) * B + C) - ((A * 2 + q) * B + C) % (2 * B) = 2 * (A * B) := by
    rw [hmod, hx]
    have : 2 * B * A = 2 * (A * B) := by ring
    omega
  have hlow : ((A * 2 + q) * B + C) &&& (B - 1) = C := by
    rw [hBdef, Nat.and_two_pow_sub_one_eq_mod, ← hBdef, Nat.add_comm, Nat.add_mul_mod_self_right,
      Nat.mod_eq_of_lt hC]
  have hbit : ((A * 2 + q) * B + C) &&& B = q * B := by
    rw [hBdef, Nat.and_two_pow, Nat.toNat_testBit, ← hBdef]
    congr 1
    rw [Nat.add_comm, Nat.add_mul_div_right _ _ hB, Nat.div_eq_of_lt hC, Nat.zero_add,
      Nat.add_comm, Nat.add_mul_mod_self_right, Nat.mod_eq_of_lt hq]
  unfold moveBit
  simp only [hidx]
  rw [← hBdef, hupper, hlow, hbit, Nat.shiftRight_eq_div_pow, Nat.shiftLeft_eq]
  simp only [Nat.pow_one, Nat.mul_div_cancel_left _ (show 0 < 2 by decide)]
  have h1 : A * B ||| C = A * B + C := by
    rw [Nat.mul_comm A B, hBdef, Nat.two_pow_add_eq_or_of_lt hC]
  have hAB : A * B + C < 2 ^ (s + r) := by
    rw [Nat.pow_add, ← hBdef]
    have : (A + 1) * B ≤ 2 ^ s * B := Nat.mul_le_mul_right _ hA
    rw [Nat.add_mul] at this; omega
  have h2 : q * B * 2 ^ s = 2 ^ (s + r) * q := by rw [Nat.pow_add, ← hBdef]; ring
  rw [h1, h2, Nat.lor_comm, ← Nat.two_pow_add_eq_or_of_lt hAB]
  ring

theorem moveBit_subIndex (n : Nat) (L R : List Nat) (b i : Nat) (hn : (L ++ b :: R).length = n) :
    moveBit n L.length (subIndex n (L ++ b :: R) i) = subIndex n (b :: (L ++ R)) i := by
  have hn' : n = L.length + R.length + 1 := by simp at hn; omega
  rw [subIndex_append, subIndex_cons, subIndex_cons, subIndex_append, List.length_cons,
    List.length_append]
  have := moveBit_arith L.length R.length (subIndex n L i) (qbit n b i) (subIndex n R i)
    (subIndex_lt n L i) (qbit_lt_two n b i) (subIndex_lt n R i)
  rw [← hn'] at this
  have e : subIndex n L i * 2 ^ (R.length + 1) + (qbit n b i * 2 ^ R.length + subIndex n R i) =
      (subIndex n L i * 2 + qbit n b i) * 2 ^ R.length + subIndex n R i := by
    rw [Nat.pow_succ]; ring
  rw [e, this]; omega

/-- position of `r` after `b` has been moved to the front -/
theorem idxOf_erase_succ (arr : List Nat) (b r : Nat) (hne : r ≠ b) (hr : r ∈ arr) :
    (arr.erase b).idxOf r + 1 =
      if arr.idxOf r < arr.idxOf b then arr.idxOf r + 1 else arr.idxOf r := by
  induction arr with
  | nil => simp at hr
  | cons h t ih =>
    by_cases hb : h = b
    · subst hb
      have : ¬ (h = r) := fun e => hne e.symm
      simp [this]
    · rw [List.erase_cons_tail (by simpa using hb)]
      by_cases hr' : h = r
      · subst hr'
        simp [hb]
      · have hrt : r ∈ t := by
          rcases List.mem_cons.1 hr with e | e
          · exact absurd e.symm hr'
          · exact e
        have := ih hrt
        have hhr : (h == r) = false := by simpa using hr'
        have hhb : (h == b) = false := by simpa using hb
        simp only [List.idxOf_cons, hhr, hhb, cond_false, Nat.add_lt_add_iff_right]
        split at this <;> rename_i hlt
        · rw [if_pos hlt]; omega
        · rw [if_neg hlt]; omega


/-- the arrangement of the qubits after the loop has popped the qubits `rem` (in this order) -/
def finalArr (rem arr : List Nat) : List Nat := rem.foldl (fun a b => b :: a.erase b) arr

theorem loop_spec (n : Nat) : ∀ (rem arr : List Nat), arr.length = n → rem.Nodup →
    (∀ r ∈ rem, r ∈ arr) →
    bitPermLoop n rem.length (rem.map fun r => arr.idxOf r)
        ((List.range (2 ^ n)).map (subIndex n arr)) =
      some ((List.range (2 ^ n)).map (subIndex n (finalArr rem arr))) := by
  intro rem
  induction rem with
  | nil => intro arr _ _ _; simp [bitPermLoop, finalArr]
  | cons b t ih =>
    intro arr hlen hnd hmem
    have hnd' := List.nodup_cons.1 hnd
    have hb : b ∈ arr := hmem b (by simp)
    obtain ⟨L, R, harr, hbL⟩ := List.eq_append_cons_of_mem hb
    have hs : arr.idxOf b = L.length := by
      rw [harr, List.idxOf_append, if_neg hbL, List.idxOf_cons_self]; simp
    have he : arr.erase b = L ++ R := by
      rw [harr, List.erase_append_right _ hbL, List.erase_cons_head]
    have hsn : ¬ n < arr.idxOf b + 1 := by
      rw [hs, ← hlen, harr]; simp
    have hperm : ((List.range (2 ^ n)).map (subIndex n arr)).map (moveBit n (arr.idxOf b)) =
        (List.range (2 ^ n)).map (subIndex n (b :: arr.erase b)) := by
      rw [List.map_map]
      apply List.map_congr_left
      intro i _
      simp only [Function.comp]
      rw [hs, he, harr]
      exact moveBit_subIndex n L R b i (by rw [← harr]; exact hlen)
    have hwork : ((t.map fun r => arr.idxOf r).map fun a =>
          if a < arr.idxOf b then a + 1 else a) =
        t.map fun r => (b :: arr.erase b).idxOf r := by
      rw [List.map_map]
      apply List.map_congr_left
      intro r hr
      have hne : r ≠ b := fun e => hnd'.1 (e ▸ hr)
      have hbr : (b == r) = false := by simpa using fun e : b = r => hne e.symm
      simp only [Function.comp, List.idxOf_cons, hbr, cond_false]
      exact (idxOf_erase_succ arr b r hne (hmem r (by simp [hr]))).symm
    have hlen' : (b :: arr.erase b).length = n := by
      rw [List.length_cons, List.length_erase_of_mem hb, hlen]
      have : 0 < arr.length := List.length_pos_of_mem hb
      omega
    have hmem' : ∀ r ∈ t, r ∈ b :: arr.erase b := by
      intro r hr
      have hne : r ≠ b := fun e => hnd'.1 (e ▸ hr)
      exact List.mem_cons_of_mem _ ((List.mem_erase_of_ne hne).2 (hmem r (by simp [hr])))
    have := ih (b :: arr.erase b) hlen' hnd'.2 hmem'
    simp only [List.map_cons, List.length_cons, bitPermLoop, if_neg hsn, hperm, hwork]
    rw [this]; rfl

/-! ### the arrangement after the loop is `bits ++ others n bits` -/

theorem others_nil (n : Nat) : others n [] = List.range n := by
  simp [others]

theorem others_cons (n b : Nat) (t : List Nat) : others n (b :: t) = (others n t).erase b := by
  rw [(others_nodup n t).erase_eq_filter b]
  unfold others
  rw [List.filter_filter]
  congr 1
  funext q
  by_cases hq : q = b <;> simp [hq]

theorem finalArr_eq (n : Nat) (bits : List Nat) (hnd : bits.Nodup) :
    finalArr bits.reverse (List.range n) = bits ++ others n bits := by
  unfold finalArr
  rw [List.foldl_reverse]
  induction bits with
  | nil => simp [others_nil]
  | cons b t ih =>
    have hnd' := List.nodup_cons.1 hnd
    rw [List.foldr_cons, ih hnd'.2, List.erase_append_right _ hnd'.1, others_cons]; rfl

/-! ### the start of the loop: the identity table is spelled by the arrangement `range n` -/

theorem subIndex_range_le (n i : Nat) : ∀ k, k ≤ n →
    subIndex n (List.range k) i = i / 2 ^ (n - k) % 2 ^ k := by
  intro k
  induction k with
  | zero => intro _; simp [subIndex_nil, Nat.mod_one]
  | succ k ih =>
    intro hk
    rw [List.range_succ, subIndex_append, ih (by omega), subIndex_cons, subIndex_nil, qbit,
      Nat.shiftRight_eq_div_pow]
    have e1 : n - k = (n - (k + 1)) + 1 := by omega
    have e2 : n - 1 - k = n - (k + 1) := by omega
    rw [e1, e2, Nat.pow_succ, ← Nat.div_div_eq_div_mul]
    generalize i / 2 ^ (n - (k + 1)) = y
    rw [Nat.pow_succ, Nat.mul_comm (2 ^ k) 2, Nat.mod_mul (a := 2) (b := 2 ^ k) (x := y)]
    simp; ring

theorem subIndex_range (n i : Nat) (hi : i < 2 ^ n) : subIndex n (List.range n) i = i := by
  rw [subIndex_range_le n i n (Nat.le_refl n)]
  simp [Nat.mod_eq_of_lt hi]

theorem idxOf_range (n r : Nat) (hr : r < n) : (List.range n).idxOf r = r := by
  have := List.nodup_range.idxOf_getElem (xs := List.range n) r (by simpa using hr)
  simpa using this

/-! ### main theorem -/

/-- the loop of `bit_permutation` computes the table of `gatherIndex` -/
theorem bitPermLoop_eq (n : Nat) (bits : List Nat) (hv : validBits n bits = true) :
    bitPermLoop n bits.length bits.reverse (List.range (2 ^ n)) =
      some ((List.range (2 ^ n)).map (gatherIndex n bits)) := by
  obtain ⟨hlt, hnd⟩ := (validBits_iff n bits).1 hv
  have h := loop_spec n bits.reverse (List.range n) (by simp) (List.nodup_reverse.2 hnd)
    (by intro r hr; exact List.mem_range.2 (hlt r (List.mem_reverse.1 hr)))
  have h1 : (bits.reverse.map fun r => (List.range n).idxOf r) = bits.reverse := by
    conv => rhs; rw [← List.map_id bits.reverse]
    apply List.map_congr_left
    intro r hr
    exact idxOf_range n r (hlt r (List.mem_reverse.1 hr))
  have h2 : (List.range (2 ^ n)).map (subIndex n (List.range n)) = List.range (2 ^ n) := by
    conv => rhs; rw [← List.map_id (List.range (2 ^ n))]
    apply List.map_congr_left
    intro i hi
    exact subIndex_range n i (List.mem_range.1 hi)
  rw [h1, h2, List.length_reverse, finalArr_eq n bits hnd] at h
  exact h

theorem bitPermutation_eq (n : Nat) (bits : List Nat) (hv : validBits n bits = true) :
    bitPermutation n bits =
      some (Q1t.Perm.inverseIdx ((List.range (2 ^ n)).map (gatherIndex n bits))) := by
  have hp := gatherTable_isPerm n bits hv
  have hinv := Proofs.Perm.inverse_spec _ hp
  unfold bitPermutation
  rw [bitPermLoop_eq n bits hv]
  simp only [Option.bind_some, Proofs.Perm.new_of_isPerm hp, hinv.1]

theorem bitPermutation_spec (n : Nat) (bits : List Nat) (hv : Spec.validBits n bits = true) :
    ∃ p, Gate.bitPermutation n bits = some p ∧ Spec.Perm.IsPerm p ∧ p.length = 2 ^ n ∧
      ∀ i, i < 2 ^ n → Spec.gatherIndex n bits i < 2 ^ n ∧ p[Spec.gatherIndex n bits i]? = some i := by
  have hp := gatherTable_isPerm n bits hv
  refine ⟨_, bitPermutation_eq n bits hv, Proofs.Perm.inverseIdx_isPerm _ hp, ?_, ?_⟩
  · rw [Proofs.Perm.inverseIdx_length _ hp]; simp
  · intro i hi
    refine ⟨gatherIndex_lt n bits hv i, ?_⟩
    have := Proofs.Perm.inverseIdx_get _ hp i (by simpa using hi)
    simpa using this

end Q1t.Proofs.BitPerm

import Q1t.Proofs.TableauRow
import Q1t.Spec.Stab
/-!
C03, proofs part 5 (all `n`): row operations and the stabilized state.

`Stabilizes t ψ` in index form; `swap_rows` and `multiply_row` leave the set of stabilized vectors
unchanged; `multiply_row` cannot trip its assertion on a tableau that stabilizes a non-zero vector.
-/
namespace Q1t.Proofs.Tableau
open Q1t Q1t.Tableau Q1t.Spec.Pauli Q1t.Spec.Stab

theorem zipWith_all_iff {α β} (f : α → β → Bool) (l1 : List α) :
    ∀ l2 : List β, (List.zipWith f l1 l2).all id = true ↔
      ∀ (i : Nat) a b, l1[i]? = some a → l2[i]? = some b → f a b = true := by
  induction l1 with
  | nil => intro l2; simp
  | cons x l1 ih =>
    intro l2
    cases l2 with
    | nil => simp
    | cons y l2 =>
      simp only [List.zipWith_cons_cons, List.all_cons, id, Bool.and_eq_true, ih l2]
      constructor
      · rintro ⟨h0, hr⟩ i a b ha hb
        cases i with
        | zero => simp at ha hb; subst ha; subst hb; exact h0
        | succ i => exact hr i a b (by simpa using ha) (by simpa using hb)
      · intro h
        exact ⟨h 0 x y rfl rfl, fun i a b ha hb => h (i + 1) a b (by simpa using ha) (by simpa using hb)⟩

/-- `Stabilizes` in index form -/
theorem stabilizes_iff (t : Tab) (ψ : Vec) :
    Stabilizes t ψ ↔ ψ.length = 2 ^ t.n ∧ t.rows.length = t.n ∧ t.signs.length = t.n ∧
      ∀ (i : Nat) s r, t.signs[i]? = some s → t.rows[i]? = some r → r.length = t.n ∧ (rowStr s r).act ψ = ψ := by
  unfold Stabilizes stabilizesB
  simp only [Bool.and_eq_true, beq_iff_eq, zipWith_all_iff, and_assoc]

/-- the stabilized vectors are the same for two tableaux -/
def SameGroup (t t' : Tab) : Prop := ∀ ψ : Vec, Stabilizes t' ψ ↔ Stabilizes t ψ

theorem SameGroup.refl (t : Tab) : SameGroup t t := fun _ => Iff.rfl
theorem SameGroup.trans {a b c : Tab} (h1 : SameGroup a b) (h2 : SameGroup b c) : SameGroup a c :=
  fun ψ => (h2 ψ).trans (h1 ψ)

def swapIdx (a b i : Nat) : Nat := if i = b then a else if i = a then b else i

theorem swapIdx_invol (a b i : Nat) : swapIdx a b (swapIdx a b i) = i := by
  unfold swapIdx; split <;> split <;> simp_all <;> split <;> simp_all

theorem swap_getElem? {α} (l : List α) (a b : Nat) (x y : α) (hx : l[a]? = some x) (hy : l[b]? = some y)
    (i : Nat) : ((l.set a y).set b x)[i]? = l[swapIdx a b i]? := by
  have ha : a < l.length := (List.getElem?_eq_some_iff.mp hx).1
  have hb : b < l.length := (List.getElem?_eq_some_iff.mp hy).1
  simp only [List.getElem?_set, List.length_set, swapIdx]
  by_cases h1 : b = i
  · subst h1; simp [hb, hx]
  · by_cases h2 : a = i
    · subst h2; simp [h1, Ne.symm h1, ha, hy]
    · simp [h1, h2, Ne.symm h1, Ne.symm h2]

/-- `swap_rows` (all `n`): when it returns, the stabilized vectors are unchanged -/
theorem swapRows_sameGroup (t t' : Tab) (a b : Nat) (h : t.swapRows a b = .ok t') :
    SameGroup t t' ∧ t'.n = t.n := by
  unfold Tab.swapRows Tab.row Tab.sign at h
  cases hr0 : t.rows[a]? with
  | none => simp [hr0, Res.ofOption, bind, Res.bind] at h
  | some r0 =>
  cases hr1 : t.rows[b]? with
  | none => simp [hr0, hr1, Res.ofOption, bind, Res.bind] at h
  | some r1 =>
  cases hs0 : t.signs[a]? with
  | none => simp [hr0, hr1, hs0, Res.ofOption, bind, Res.bind] at h
  | some s0 =>
  cases hs1 : t.signs[b]? with
  | none => simp [hr0, hr1, hs0, hs1, Res.ofOption, bind, Res.bind] at h
  | some s1 =>
  simp only [hr0, hr1, hs0, hs1, Res.ofOption, bind, Res.bind, pure, Res.ok.injEq] at h
  subst h
  refine ⟨?_, rfl⟩
  intro ψ
  simp only [stabilizes_iff, List.length_set, swap_getElem? _ a b _ _ hr0 hr1, swap_getElem? _ a b _ _ hs0 hs1]
  constructor
  · rintro ⟨h1, h2, h3, h4⟩
    refine ⟨h1, h2, h3, fun i s r hs hr => ?_⟩
    exact h4 (swapIdx a b i) s r (by rw [swapIdx_invol]; exact hs) (by rw [swapIdx_invol]; exact hr)
  · rintro ⟨h1, h2, h3, h4⟩
    exact ⟨h1, h2, h3, fun i s r hs hr => h4 (swapIdx a b i) s r hs hr⟩

theorem opsMul_length (r0 : List P) : ∀ r1 : List P, r0.length = r1.length → (opsMul r0 r1).length = r0.length := by
  induction r0 with
  | nil => intro r1 _; cases r1 <;> rfl
  | cons a r0 ih =>
    intro r1 h
    cases r1 with
    | nil => simp at h
    | cons b r1 => simp [opsMul, ih r1 (by simpa using h)]

/-- what a returning `multiply_row` did (all `n`) -/
theorem multiplyRow_ok_inv {ph : List Nat} (hph : PhaseTableCorrect ph) (t t' : Tab) (i0 i1 : Nat)
    (h : t.multiplyRow ph i0 i1 = .ok t') :
    ∃ r0 r1 s0 s1, t.rows[i0]? = some r0 ∧ t.rows[i1]? = some r1 ∧ t.signs[i0]? = some s0 ∧ t.signs[i1]? = some s1 ∧
      Commutes r0 r1 ∧
      t' = { t with rows := t.rows.set i0 ((rowStr s0 r0).mul (rowStr s1 r1)).ops,
                    signs := t.signs.set i0 (((rowStr s0 r0).mul (rowStr s1 r1)).phase == 2) } ∧
      rowStr (((rowStr s0 r0).mul (rowStr s1 r1)).phase == 2) ((rowStr s0 r0).mul (rowStr s1 r1)).ops =
        (rowStr s0 r0).mul (rowStr s1 r1) := by
  cases hr0 : t.rows[i0]? with
  | none => simp [Tab.multiplyRow, Tab.row, hr0, Res.ofOption, bind, Res.bind] at h
  | some r0 =>
  cases hr1 : t.rows[i1]? with
  | none => simp [Tab.multiplyRow, Tab.row, hr0, hr1, Res.ofOption, bind, Res.bind] at h
  | some r1 =>
  cases hs0 : t.signs[i0]? with
  | none => simp [Tab.multiplyRow, Tab.row, Tab.sign, hr0, hr1, hs0, Res.ofOption, bind, Res.bind] at h
  | some s0 =>
  cases hs1 : t.signs[i1]? with
  | none => simp [Tab.multiplyRow, Tab.row, Tab.sign, hr0, hr1, hs0, hs1, Res.ofOption, bind, Res.bind] at h
  | some s1 =>
  have sp := multiplyRow_spec hph t i0 i1 r0 r1 s0 s1 hr0 hr1 hs0 hs1
  rcases commutes_or_anticommutes r0 r1 with hc | ha
  · obtain ⟨e, e'⟩ := sp.1 hc
    rw [e] at h
    exact ⟨r0, r1, s0, s1, rfl, rfl, rfl, rfl, hc, (Res.ok.inj h).symm, e'⟩
  · rw [sp.2 ha] at h; cases h

/-- **`multiply_row` preserves the stabilizer group** (all `n`): on a well-shaped tableau, for two
different rows, a returning `multiply_row(i0, i1)` leaves the set of stabilized vectors unchanged. -/
theorem multiplyRow_sameGroup {ph : List Nat} (hph : PhaseTableCorrect ph) (t t' : Tab) (i0 i1 : Nat)
    (hwf : t.WF) (hne : i0 ≠ i1) (h : t.multiplyRow ph i0 i1 = .ok t') :
    SameGroup t t' ∧ t'.n = t.n ∧ t'.WF := by
  obtain ⟨r0, r1, s0, s1, hr0, hr1, hs0, hs1, hc, ht', hg⟩ := multiplyRow_ok_inv hph t t' i0 i1 h
  obtain ⟨w1, w2, w3⟩ := hwf
  have hl0 : r0.length = t.n := w3 r0 (List.mem_of_getElem? hr0)
  have hl1 : r1.length = t.n := w3 r1 (List.mem_of_getElem? hr1)
  have hlg : ((rowStr s0 r0).mul (rowStr s1 r1)).ops.length = t.n := by
    show (opsMul r0 r1).length = t.n
    rw [opsMul_length r0 r1 (hl0.trans hl1.symm), hl0]
  have hi0 : i0 < t.rows.length := (List.getElem?_eq_some_iff.mp hr0).1
  have hi0' : i0 < t.signs.length := (List.getElem?_eq_some_iff.mp hs0).1
  generalize hgdef : (rowStr s0 r0).mul (rowStr s1 r1) = g at *
  subst ht'
  refine ⟨?_, rfl, ?_⟩
  · intro ψ
    simp only [stabilizes_iff, List.length_set, List.getElem?_set]
    constructor
    · rintro ⟨h1, h2, h3, h4⟩
      refine ⟨h1, h2, h3, fun i s r hs hr => ?_⟩
      by_cases hi : i0 = i
      · subst hi
        rw [hs0] at hs; rw [hr0] at hr
        cases hs; cases hr
        refine ⟨hl0, ?_⟩
        have hG := (h4 i0 (g.phase == 2) g.ops (by simp [hi0']) (by simp [hi0])).2
        have h1' := (h4 i1 s1 r1 (by simp [hne, hs1]) (by simp [hne, hr1])).2
        rw [hg, ← hgdef, pstr_mul_act _ _ ψ (by simp [rowStr, hl0, hl1]) (by simp [rowStr, hl0, h1]), h1'] at hG
        exact hG
      · exact h4 i s r (by simp [hi, hs]) (by simp [hi, hr])
    · rintro ⟨h1, h2, h3, h4⟩
      refine ⟨h1, h2, h3, fun i s r hs hr => ?_⟩
      by_cases hi : i0 = i
      · subst hi
        simp [hi0, hi0'] at hs hr
        subst hs; subst hr
        refine ⟨hlg, ?_⟩
        rw [hg, ← hgdef, pstr_mul_act _ _ ψ (by simp [rowStr, hl0, hl1]) (by simp [rowStr, hl0, h1]),
          (h4 i1 s1 r1 hs1 hr1).2, (h4 i0 s0 r0 hs0 hr0).2]
      · simp [hi] at hs hr
        exact h4 i s r hs hr
  · refine ⟨by simp [w1], by simp [w2], fun r hr => ?_⟩
    rcases List.mem_or_eq_of_mem_set hr with hm | he
    · exact w3 r hm
    · subst he; exact hlg

/-! ### no assertion failure on a tableau that stabilizes something -/

theorem anticomm_act (r0 r1 : List P) (v : Vec) (ha : Anticommutes r0 r1) (hl : r0.length = r1.length)
    (hv : v.length = 2 ^ r0.length) : actOps r0 (actOps r1 v) = smul 2 (actOps r1 (actOps r0 v)) := by
  rw [anticommutes_iff] at ha
  have hs := phaseSum_swap r0 r1
  rw [actOps_mul r0 r1 v hl hv, actOps_mul r1 r0 v hl.symm (hl ▸ hv), opsMul_comm r1 r0, smul_smul]
  exact smul_congr_mod (by omega) _

theorem eq_neg_zero (x : Z8) (h : Z8.mulIPow 2 x = x) : Z8.isZero x = true := by
  cases x with
  | mk a b c d =>
    simp only [Z8.mulIPow, Z8.neg, Z8.mk.injEq] at h
    simp [Z8.isZero]; omega

theorem map_eq_self {α} (f : α → α) : ∀ l : List α, l.map f = l → ∀ x ∈ l, f x = x := by
  intro l
  induction l with
  | nil => intro _ x hx; cases hx
  | cons a l ih =>
    intro h x hx
    simp only [List.map_cons, List.cons.injEq] at h
    rcases List.mem_cons.mp hx with rfl | hm
    · exact h.1
    · exact ih h.2 x hm

theorem isZero_of_smul2 (ψ : Vec) (h : smul 2 ψ = ψ) : Vec.isZero ψ = true := by
  unfold Vec.isZero
  rw [List.all_eq_true]
  intro x hx
  exact eq_neg_zero x (map_eq_self _ ψ h x hx)

/-- two signed rows that both fix a non-zero vector commute -/
theorem commutes_of_fix (s0 s1 : Bool) (r0 r1 : List P) (ψ : Vec) (hl : r0.length = r1.length)
    (hv : ψ.length = 2 ^ r0.length) (h0 : (rowStr s0 r0).act ψ = ψ) (h1 : (rowStr s1 r1).act ψ = ψ)
    (hnz : Vec.isZero ψ = false) : Commutes r0 r1 := by
  rcases commutes_or_anticommutes r0 r1 with hc | ha
  · exact hc
  · exfalso
    have e1 : (rowStr s0 r0).act ((rowStr s1 r1).act ψ) = ψ := by rw [h1, h0]
    have e2 : (rowStr s1 r1).act ((rowStr s0 r0).act ψ) = ψ := by rw [h0, h1]
    have key : (rowStr s0 r0).act ((rowStr s1 r1).act ψ) = smul 2 ((rowStr s1 r1).act ((rowStr s0 r0).act ψ)) := by
      unfold PStr.act
      show smul _ (actOps r0 (smul _ (actOps r1 ψ))) = smul 2 (smul _ (actOps r1 (smul _ (actOps r0 ψ))))
      rw [actOps_smul, actOps_smul, anticomm_act r0 r1 ψ ha hl hv]
      simp only [smul_smul]
      exact smul_congr_mod (by omega) _
    rw [e1, e2] at key
    have := isZero_of_smul2 ψ key.symm
    rw [this] at hnz; cases hnz

/-- **`multiply_row` never trips its assertion on a tableau that stabilizes a non-zero vector**
(all `n`, all pairs of rows in range). -/
theorem multiplyRow_no_assert {ph : List Nat} (hph : PhaseTableCorrect ph) (t : Tab) (ψ : Vec)
    (hst : Stabilizes t ψ) (hnz : Vec.isZero ψ = false) (i0 i1 : Nat) (hi0 : i0 < t.n) (hi1 : i1 < t.n) :
    ∃ t', t.multiplyRow ph i0 i1 = .ok t' := by
  obtain ⟨h1, h2, h3, h4⟩ := (stabilizes_iff t ψ).mp hst
  have hr0 : t.rows[i0]? = some t.rows[i0] := List.getElem?_eq_getElem (by omega)
  have hr1 : t.rows[i1]? = some t.rows[i1] := List.getElem?_eq_getElem (by omega)
  have hs0 : t.signs[i0]? = some t.signs[i0] := List.getElem?_eq_getElem (by omega)
  have hs1 : t.signs[i1]? = some t.signs[i1] := List.getElem?_eq_getElem (by omega)
  obtain ⟨l0, a0⟩ := h4 i0 _ _ hs0 hr0
  obtain ⟨l1, a1⟩ := h4 i1 _ _ hs1 hr1
  have hc := commutes_of_fix _ _ _ _ ψ (l0.trans l1.symm) (l0 ▸ h1) a0 a1 hnz
  exact ⟨_, ((multiplyRow_spec hph t i0 i1 _ _ _ _ hr0 hr1 hs0 hs1).1 hc).1⟩

theorem wf_of_stabilizes (t : Tab) (ψ : Vec) (h : Stabilizes t ψ) : t.WF := by
  obtain ⟨_, h2, h3, h4⟩ := (stabilizes_iff t ψ).mp h
  refine ⟨h2, h3, fun r hr => ?_⟩
  obtain ⟨i, hi, rfl⟩ := List.getElem_of_mem hr
  exact (h4 i t.signs[i] t.rows[i] (List.getElem?_eq_getElem (by omega)) (List.getElem?_eq_getElem hi)).1

end Q1t.Proofs.Tableau

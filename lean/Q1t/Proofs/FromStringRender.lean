import Q1t.Proofs.FromStringLex
/-!
C15, part 3: `from_string (render parts)` — every rendered sub-gate description is read back, the description is
split at its semicolons, the width is the highest index + 1, the documented names dispatch to the documented
gates.  (Core Lean only.)
-/
namespace Q1t.Proofs.FromString
open Q1t Q1t.FromString Q1t.Spec.FromString
open Q1t.Expr (isWs dropWs reLit FloatOps)
open Q1t.Spec.ExprGrammar (Cst Conv Stops isBlank evalConv Blank LitTok ExpPart allDigits)
open Q1t.DecFloat (isDigit digitsToNat digitVal)
open Q1t.Proofs.Expr (interpOf parsed)

/-! ### one sub-gate description -/

/-- Well-formed layout (`PartL.WF`), no integer literal ≥ 2^64 in an argument, indices below 2^64. -/
structure PartGood (p : PartL) : Prop where
  w0 : IsBlank p.w0
  name : isIdent p.name = true
  wOpen : IsBlank p.wOpen
  wEnd : IsBlank p.wEnd
  args : ∀ a ∈ p.args, ArgGood a
  bits : BitsWF p.bits
  first : ∀ b more, p.bits = b :: more → p.args = [] → b.w ≠ []
  small : ∀ b ∈ p.bits, b.val < 2 ^ 64

theorem partGood_of_wf {p : PartL} (hwf : p.WF = true) (hbig : p.bigInt = false)
    (hsmall : ∀ b ∈ p.bits, b.val < 2 ^ 64) : PartGood p := by
  simp only [PartL.WF, Bool.and_eq_true, List.all_eq_true] at hwf
  obtain ⟨⟨⟨⟨⟨⟨h0, hn⟩, ho⟩, he⟩, ha⟩, hb⟩, hl⟩ := hwf
  simp only [PartL.bigInt, List.any_eq_false] at hbig
  refine ⟨isBlank_of_all h0, hn, isBlank_of_all ho, isBlank_of_all he, ?_, ⟨?_, ?_⟩, ?_, hsmall⟩
  · intro a ha'
    have := ha a ha'
    exact ⟨this.1.1, this.1.2, by simpa using hbig a ha', isBlank_of_all this.2⟩
  · intro b hb'; exact isBlank_of_all (hb b hb')
  · intro b hb'
    cases hbits : p.bits with
    | nil => rw [hbits] at hb'; simp at hb'
    | cons b0 more =>
      rw [hbits] at hl hb'
      simp only [Bool.and_eq_true, List.all_eq_true, List.tail_cons] at hl hb'
      have := hl.2 b hb'
      intro h; simp [h] at this
  · intro b more hbits hargs
    rw [hbits] at hl
    simp only [Bool.and_eq_true, hargs] at hl
    have := hl.1
    intro h; simp [h] at this

/-- The `SubGateDesc` a sub-gate description denotes. -/
def descOf {F : Type} (I : FloatOps F) (p : PartL) : SubGateDesc F := ⟨p.name, p.params (interpOf I), p.vals⟩

theorem trim_blank {w : List Char} (hw : IsBlank w) : trim w = [] := by
  have : dropWs w = [] := by
    have := dropWs_blank_stop (s := []) hw (stopsAt_nil _)
    simpa using this
  unfold trim trimEnd
  rw [this]; rfl

theorem length_le_renderBits (bits : List BitL) : bits.length ≤ (renderBits bits).length := by
  induction bits with
  | nil => simp [renderBits]
  | cons b more ih =>
    have hne := bitDigits_ne_nil b
    have : 1 ≤ (bitDigits b).length := by
      cases h : bitDigits b with
      | nil => exact absurd h hne
      | cons c t => simp
    simp only [renderBits, renderBit_eq, List.length_append, List.length_cons]
    omega

theorem headNB_renderBits {b : BitL} {more : List BitL} {tail : List Char} (hb : IsBlank b.w) :
    ∃ c, isDigit c = true ∧ Q1t.Proofs.Expr.headNB (renderBits (b :: more) ++ tail) = some c := by
  have hne := bitDigits_ne_nil b
  cases h : bitDigits b with
  | nil => exact absurd h hne
  | cons c t =>
    have hc : isDigit c = true := bitDigits_digit b c (by simp [h])
    refine ⟨c, hc, ?_⟩
    have : renderBits (b :: more) ++ tail = b.w ++ c :: (t ++ (renderBits more ++ tail)) := by
      simp [renderBits, renderBit_eq, h]
    rw [this]
    exact Q1t.Proofs.Expr.headNB_blank_cons hb (digit_not_ws hc)

/-- `parse_gate_bits` + the trailing-text check on `indices blanks`. -/
theorem bits_and_end {T : Tables} (hT : TabOK T) {bits : List BitL} {wEnd : List Char} (name : List Char)
    (hwf : BitsWF bits) (hne : bits ≠ []) (hsmall : ∀ b ∈ bits, b.val < 2 ^ 64) (hw : IsBlank wEnd) :
    parseGateBits T (renderBits bits ++ wEnd) name = .ok (bits.map (·.val), wEnd) := by
  unfold parseGateBits
  have hlen : bits.length < (renderBits bits ++ wEnd).length + 1 := by
    have := length_le_renderBits bits
    simp only [List.length_append]; omega
  rw [bitsLoop_render hT bits _ [] wEnd hwf hsmall (noIndexAhead_blank hT hw) hlen]
  cases bits with
  | nil => exact absurd rfl hne
  | cons b more => simp

/-- `parse_gate_desc` reads a rendered sub-gate description back: ∀ identifier, ∀ arguments, ∀ indices. -/
theorem parseGateDesc_render {F : Type} (I : FloatOps F) (hneg : ∀ x, I.neg (I.neg x) = x) {T : Tables}
    (hT : TabOK T) {p : PartL} (hp : PartGood p) (hne : p.bits ≠ []) :
    parseGateDesc I T (renderPart p) = .ok (descOf I p) := by
  obtain ⟨b, more, hbits⟩ : ∃ b more, p.bits = b :: more := by
    cases h : p.bits with
    | nil => exact absurd h hne
    | cons b more => exact ⟨b, more, rfl⟩
  have hbw : IsBlank b.w := hp.bits.1 b (by simp [hbits])
  unfold parseGateDesc renderPart
  cases hargs : p.args with
  | nil =>
    -- no argument list: the name is followed by a blank
    have hal : renderArgList p = [] := by simp [renderArgList, hargs]
    have hb1 : b.w ≠ [] := hp.first b more hbits hargs
    have hstop : StopsAt (isNameChar T) (renderArgList p ++ (renderBits p.bits ++ p.wEnd)) := by
      rw [hal, List.nil_append, hbits]
      cases hw : b.w with
      | nil => exact absurd hw hb1
      | cons c t =>
        have : renderBits (b :: more) ++ p.wEnd = c :: (t ++ (bitDigits b ++ (renderBits more ++ p.wEnd))) := by
          simp [renderBits, renderBit_eq, hw]
        rw [this]
        exact stopsAt_cons (nameChar_ws hT (hbw c (by simp [hw])))
    rw [parseGateName_render T hp.w0 hp.name hstop]
    simp only [hal, List.nil_append]
    have hnb : Q1t.Proofs.Expr.headNB (renderBits p.bits ++ p.wEnd) ≠ some '(' := by
      rw [hbits]
      obtain ⟨c, hc, h⟩ := headNB_renderBits (more := more) (tail := p.wEnd) hbw
      rw [h]; intro e
      have := Option.some.inj e
      subst this
      exact absurd hc (by decide)
    rw [parseGateArgs_none I hnb]
    simp only
    rw [bits_and_end hT p.name hp.bits hne hp.small hp.wEnd]
    simp [trim_blank hp.wEnd, descOf, PartL.params, PartL.vals, hargs]
  | cons a rest =>
    have hal : renderArgList p = p.wOpen ++ '(' :: renderArgs (a :: rest) := by
      simp [renderArgList, hargs]
    have hstop : StopsAt (isNameChar T) (renderArgList p ++ (renderBits p.bits ++ p.wEnd)) := by
      rw [hal]
      cases hw : p.wOpen with
      | nil => exact stopsAt_cons (nameChar_sym hT (by decide))
      | cons c t => exact stopsAt_cons (nameChar_ws hT (hp.wOpen c (by simp [hw])))
    rw [parseGateName_render T hp.w0 hp.name hstop]
    simp only
    have hshape : renderArgList p ++ (renderBits p.bits ++ p.wEnd) =
        p.wOpen ++ '(' :: (renderArgs (a :: rest) ++ (renderBits p.bits ++ p.wEnd)) := by
      rw [hal]; simp
    rw [hshape, parseGateArgs_render I hneg hp.wOpen a rest (by rw [← hargs]; exact hp.args)]
    simp only
    rw [bits_and_end hT p.name hp.bits hne hp.small hp.wEnd]
    simp [trim_blank hp.wEnd, descOf, PartL.params, PartL.vals, hargs]

/-! ### splitting at semicolons -/

theorem splitSemi_ne_nil (s : List Char) : splitSemi s ≠ [] := by
  cases s with
  | nil => simp [splitSemi]
  | cons c t =>
    unfold splitSemi
    split
    · simp
    · split <;> simp

theorem splitSemi_nosemi {a : List Char} (h : ';' ∉ a) : splitSemi a = [a] := by
  induction a with
  | nil => rfl
  | cons c t ih =>
    have hc : c ≠ ';' := fun e => h (by simp [e])
    have ht : ';' ∉ t := fun e => h (List.mem_cons_of_mem _ e)
    unfold splitSemi
    simp [hc, ih ht]

theorem splitSemi_append {a : List Char} (b : List Char) (h : ';' ∉ a) :
    splitSemi (a ++ ';' :: b) = a :: splitSemi b := by
  induction a with
  | nil => simp [splitSemi]
  | cons c t ih =>
    have hc : c ≠ ';' := fun e => h (by simp [e])
    have ht : ';' ∉ t := fun e => h (List.mem_cons_of_mem _ e)
    rw [List.cons_append, splitSemi]
    simp [hc, ih ht]

/-! ### no semicolon in a rendered sub-gate description -/

theorem semi_not_ws : isWs ';' = false := by decide

theorem blank_no_semi {w : List Char} (hw : IsBlank w) : ';' ∉ w := fun h => by
  have := hw _ h; rw [semi_not_ws] at this; exact absurd this (by simp)

theorem digits_no_semi {ds : List Char} (h : ∀ c ∈ ds, isDigit c = true) : ';' ∉ ds := fun hm => by
  have := h _ hm; exact absurd this (by decide)

theorem litText_no_semi {t : LitTok} (ht : t.WF = true) : ';' ∉ t.text := by
  cases t with
  | pi => simp [LitTok.text]
  | int ds =>
    simp only [LitTok.WF, Bool.and_eq_true] at ht
    exact digits_no_semi (Q1t.Proofs.Expr.digits_of_all ht.1)
  | dec ip fp ex =>
    simp only [LitTok.WF, Bool.and_eq_true] at ht
    have h1 := digits_no_semi (Q1t.Proofs.Expr.digits_of_all ht.1.1.1)
    have h2 := digits_no_semi (Q1t.Proofs.Expr.digits_of_all ht.1.1.2)
    cases ex with
    | none => simp [LitTok.text, h1, h2]
    | some x =>
      have hx := ht.2
      simp only [ExpPart.WF, Bool.and_eq_true, Bool.or_eq_true, beq_iff_eq] at hx
      have h3 := digits_no_semi (Q1t.Proofs.Expr.digits_of_all hx.2)
      have hm : x.marker ≠ ';' := by rcases hx.1.1.1 with h | h <;> rw [h] <;> decide
      have hs : ';' ∉ (match x.sign with | some c => [c] | none => []) := by
        cases hsg : x.sign with
        | none => simp
        | some c =>
          have := hx.1.1.2
          rw [hsg] at this
          simp only [Bool.or_eq_true, beq_iff_eq] at this
          rcases this with h | h <;> simp [h]
      simp only [LitTok.text, ExpPart.text, List.mem_append, List.mem_cons, not_or]
      exact ⟨⟨h1, by decide, h2⟩, fun e => hm e.symm, hs, h3⟩

theorem fnName_no_semi (f : Q1t.Spec.ExprGrammar.Fn) : ';' ∉ f.name := by
  cases f <;> decide

theorem flatten_no_semi : ∀ (c : Cst), c.WF = true → ';' ∉ c.flatten
  | .lit w t, h => by
    simp only [Cst.WF, Bool.and_eq_true] at h
    simp only [Cst.flatten, List.mem_append, not_or]
    exact ⟨blank_no_semi (isBlank_of_all h.1), litText_no_semi h.2⟩
  | .bin op a w b, h => by
    simp only [Cst.WF, Bool.and_eq_true] at h
    have ha := flatten_no_semi a h.1.1
    have hb := flatten_no_semi b h.2
    have hop : op.sym ≠ ';' := by cases op <;> decide
    simp only [Cst.flatten, List.mem_append, List.mem_cons, not_or]
    exact ⟨ha, blank_no_semi (isBlank_of_all h.1.2), fun e => hop e.symm, hb⟩
  | .neg w a, h => by
    simp only [Cst.WF, Bool.and_eq_true] at h
    have ha := flatten_no_semi a h.2
    simp only [Cst.flatten, List.mem_append, List.mem_cons, not_or]
    exact ⟨blank_no_semi (isBlank_of_all h.1), by decide, ha⟩
  | .app w1 f w2 a w3, h => by
    simp only [Cst.WF, Bool.and_eq_true] at h
    have ha := flatten_no_semi a h.1.2
    simp only [Cst.flatten, List.mem_append, List.mem_cons, List.not_mem_nil, or_false, not_or]
    exact ⟨blank_no_semi (isBlank_of_all h.1.1.1), fnName_no_semi f, blank_no_semi (isBlank_of_all h.1.1.2),
      by decide, ha, blank_no_semi (isBlank_of_all h.2), by decide⟩
  | .paren w1 a w2, h => by
    simp only [Cst.WF, Bool.and_eq_true] at h
    have ha := flatten_no_semi a h.1.2
    simp only [Cst.flatten, List.mem_append, List.mem_cons, List.not_mem_nil, or_false, not_or]
    exact ⟨blank_no_semi (isBlank_of_all h.1.1), by decide, ha, blank_no_semi (isBlank_of_all h.2), by decide⟩

theorem renderArgs_no_semi : ∀ (args : List ArgL), (∀ a ∈ args, ArgGood a) → ';' ∉ renderArgs args
  | [], _ => by simp [renderArgs]
  | [a], h => by
    have ha := h a (by simp)
    simp only [renderArgs, List.mem_append, List.mem_cons, List.not_mem_nil, or_false, not_or]
    exact ⟨flatten_no_semi a.c ha.1, blank_no_semi ha.2.2.2, by decide⟩
  | a :: b :: more, h => by
    have ha := h a (by simp)
    have ih := renderArgs_no_semi (b :: more) (fun x hx => h x (List.mem_cons_of_mem _ hx))
    simp only [renderArgs, List.mem_append, List.mem_cons, not_or]
    exact ⟨flatten_no_semi a.c ha.1, blank_no_semi ha.2.2.2, by decide, ih⟩

theorem renderBits_no_semi : ∀ (bits : List BitL), (∀ b ∈ bits, IsBlank b.w) → ';' ∉ renderBits bits
  | [], _ => by simp [renderBits]
  | b :: more, h => by
    have ih := renderBits_no_semi more (fun x hx => h x (List.mem_cons_of_mem _ hx))
    simp only [renderBits, renderBit_eq, List.mem_append, not_or]
    exact ⟨⟨blank_no_semi (h b (by simp)), digits_no_semi (bitDigits_digit b)⟩, ih⟩

theorem alnum_no_semi {name : List Char} (h : isIdent name = true) : ';' ∉ name := by
  cases name with
  | nil => simp
  | cons c t =>
    simp only [isIdent, Bool.and_eq_true, List.all_eq_true] at h
    intro hm
    simp only [List.mem_cons] at hm
    rcases hm with e | e
    · rw [← e] at h; exact absurd h.1 (by decide)
    · exact absurd (h.2 _ e) (by decide)

theorem renderPart_no_semi {p : PartL} (hp : PartGood p) : ';' ∉ renderPart p := by
  have hargs : ';' ∉ renderArgList p := by
    unfold renderArgList
    split
    · simp
    · simp only [List.mem_append, List.mem_cons, not_or]
      exact ⟨blank_no_semi hp.wOpen, by decide, renderArgs_no_semi p.args hp.args⟩
  simp only [renderPart, List.mem_append, not_or]
  exact ⟨blank_no_semi hp.w0, alnum_no_semi hp.name, hargs, renderBits_no_semi p.bits hp.bits.1,
    blank_no_semi hp.wEnd⟩

theorem splitSemi_renderDesc : ∀ (ps : List PartL), ps ≠ [] → (∀ p ∈ ps, PartGood p) →
    splitSemi (renderDesc ps) = ps.map renderPart
  | [], h, _ => absurd rfl h
  | [p], _, hg => by
    simp only [renderDesc, List.map_cons, List.map_nil]
    exact splitSemi_nosemi (renderPart_no_semi (hg p (by simp)))
  | p :: q :: more, _, hg => by
    simp only [renderDesc, List.map_cons]
    rw [splitSemi_append _ (renderPart_no_semi (hg p (by simp)))]
    have := splitSemi_renderDesc (q :: more) (by simp) (fun x hx => hg x (List.mem_cons_of_mem _ hx))
    rw [this]; simp

/-! ### the first loop: all parts, highest index -/

theorem foldl_max_comm (bs : List Nat) (m b : Nat) : bs.foldl max (max m b) = max m (bs.foldl max b) := by
  induction bs generalizing b with
  | nil => rfl
  | cons x t ih => simp only [List.foldl_cons]; rw [Nat.max_assoc, ih]

theorem parseParts_render {F : Type} (I : FloatOps F) (T : Tables) :
    ∀ (ps : List PartL) (m : Nat) (gs : List (SubGateDesc F)),
    (∀ p ∈ ps, parseGateDesc I T (renderPart p) = .ok (descOf I p) ∧ p.bits ≠ []) →
    parseParts I T (ps.map renderPart) m gs =
      .ok (gs ++ ps.map (descOf I), (ps.flatMap PartL.vals).foldl max m)
  | [], m, gs, _ => by simp [parseParts]
  | p :: more, m, gs, h => by
    obtain ⟨hp, hne⟩ := h p (by simp)
    simp only [List.map_cons, parseParts, hp]
    obtain ⟨b, bs, hb⟩ : ∃ b bs, p.vals = b :: bs := by
      unfold PartL.vals
      cases hbits : p.bits with
      | nil => exact absurd hbits hne
      | cons b more => exact ⟨b.val, more.map (·.val), rfl⟩
    have hd : (descOf I p).bits = b :: bs := hb
    simp only [hd, maxOfBits]
    rw [parseParts_render I T more _ _ (fun x hx => h x (List.mem_cons_of_mem _ hx))]
    simp only [List.flatMap_cons, hb, List.foldl_append, List.foldl_cons, List.append_assoc, List.singleton_append,
      foldl_max_comm]

/-! ### the dispatch against the documented table -/

theorem lowerChar_alnum {c : Char} (h : isAlnum c = true) : lowerChar c = lower c := by
  simp only [isAlnum, isLetter, Bool.or_eq_true, Bool.and_eq_true, decide_eq_true_eq] at h
  unfold lowerChar lower
  simp only
  split
  · rfl
  · split
    · omega
    · rfl

theorem map_lowerChar_ident {name : List Char} (h : isIdent name = true) :
    name.map lowerChar = name.map lower := by
  cases name with
  | nil => rfl
  | cons c t =>
    simp only [isIdent, Bool.and_eq_true, List.all_eq_true] at h
    apply List.map_congr_left
    intro x hx
    simp only [List.mem_cons] at hx
    rcases hx with rfl | hx
    · exact lowerChar_alnum (by simp [isAlnum, h.1])
    · exact lowerChar_alnum (h.2 x hx)

/-- Looking a documented key up in the documented table finds its row. -/
theorem lookup_documented_all :
    documentedTable.all (fun row => lookupArm ⟨documentedTable, [], []⟩ row.1.toList == some row) = true := by
  decide +kernel

theorem lookup_documented : ∀ row ∈ documentedTable,
    lookupArm ⟨documentedTable, [], []⟩ row.1.toList = some row := by
  intro row hrow
  have := List.all_eq_true.mp lookup_documented_all row hrow
  exact eq_of_beq this

theorem lookupArm_dispatch (T : Tables) (l : List Char) :
    lookupArm T l = lookupArm ⟨T.dispatch, [], []⟩ l := rfl

/-- For every documented row and every argument list of its length, the arm builds the documented gate. -/
theorem arm_builds_documented : ∀ row ∈ documentedTable, ∀ {F : Type} (args : List F), args.length = row.2.2.1 →
    ∃ as g, row.2.2.2.2.mapM (fun i => args[i]?) = some as ∧ buildGate row.2.1 as = some g ∧
      docGate row.1 args = some g := by
  intro row hrow F args hlen
  simp only [documentedTable, List.mem_cons, List.not_mem_nil, or_false] at hrow
  rcases hrow with h | h | h | h | h | h | h | h | h | h | h | h | h | h | h | h | h | h | h | h | h | h | h | h | h | h |
    h | h | h | h | h | h | h | h | h | h | h | h | h <;> subst h <;>
  (rcases args with _ | ⟨x, _ | ⟨y, _ | ⟨z, _ | ⟨u, t⟩⟩⟩⟩ <;> simp at hlen <;> exact ⟨_, _, rfl, rfl, rfl⟩)

theorem docArity_row {key : String} {na nb : Nat} (h : docArity key = some (na, nb)) :
    ∃ row ∈ documentedTable, row.1 = key ∧ row.2.2.1 = na ∧ row.2.2.2.1 = nb := by
  unfold docArity at h
  cases hf : documentedTable.find? (fun r => r.1 == key) with
  | none => rw [hf] at h; simp at h
  | some row =>
    rw [hf] at h
    simp only [Option.map_some, Option.some.injEq, Prod.mk.injEq] at h
    have h1 := List.mem_of_find?_eq_some hf
    have h2 := List.find?_some hf
    exact ⟨row, h1, by simpa using h2, h.1, h.2⟩

/-- One sub-gate description with a documented name and the documented numbers of parameters and qubits
dispatches to the documented gate. -/
theorem dispatchOne_documented {F : Type} (I : FloatOps F) {T : Tables} (hT : T.dispatch = documentedTable)
    {p : PartL} (hn : isIdent p.name = true) (hm : p.Matches = true) :
    ∃ g, docGate p.key (p.params (interpOf I)) = some g ∧ dispatchOne T (descOf I p) = .ok g := by
  simp only [PartL.Matches, beq_iff_eq] at hm
  obtain ⟨row, hrow, hkey, hna, hnb⟩ := docArity_row hm
  have hl : lookupArm T ((descOf I p).name.map lowerChar) = some row := by
    rw [lookupArm_dispatch, hT]
    have : (descOf I p).name.map lowerChar = row.1.toList := by
      simp only [descOf, map_lowerChar_ident hn, hkey, PartL.key, String.toList_ofList]
    rw [this]; exact lookup_documented row hrow
  have hlen : (p.params (interpOf I)).length = row.2.2.1 := by simp [PartL.params, hna]
  obtain ⟨as, g, h1, h2, h3⟩ := arm_builds_documented row hrow (p.params (interpOf I)) hlen
  refine ⟨g, by rw [← hkey]; exact h3, ?_⟩
  obtain ⟨key, ctor, nrArgs, nrBits, order⟩ := row
  simp only at hna hnb hlen h1 h2
  unfold dispatchOne
  rw [hl]
  have e1 : nrArgs = (descOf I p).args.length := by simp [descOf, PartL.params, hna]
  have e2 : nrBits = (descOf I p).bits.length := by simp [descOf, PartL.vals, hnb]
  simp only [e1, e2, ne_eq, not_true_eq_false, if_false]
  have : (descOf I p).args = p.params (interpOf I) := rfl
  rw [this, h1]
  simp only [h2]

theorem dispatchAll_documented {F : Type} (I : FloatOps F) {T : Tables} (hT : T.dispatch = documentedTable) :
    ∀ (ps : List PartL), (∀ p ∈ ps, isIdent p.name = true ∧ p.Matches = true) →
    ∃ ops, expectedOps (interpOf I) ps = some ops ∧ dispatchAll T (ps.map (descOf I)) = .ok ops
  | [], _ => ⟨.nil, rfl, rfl⟩
  | p :: more, h => by
    obtain ⟨hn, hm⟩ := h p (by simp)
    obtain ⟨g, hg1, hg2⟩ := dispatchOne_documented I hT hn hm
    obtain ⟨ops, ho1, ho2⟩ := dispatchAll_documented I hT more (fun x hx => h x (List.mem_cons_of_mem _ hx))
    refine ⟨.cons g p.vals ops, ?_, ?_⟩
    · simp only [expectedOps, hg1, ho1]
    · simp only [List.map_cons, dispatchAll, hg2, ho2]
      rfl

/-! ### assembled -/

/-- What `from_string` does with a rendered description whose parts all parse: the width check, then the dispatch. -/
theorem fromString_render_parsed {F : Type} (I : FloatOps F) (hneg : ∀ x, I.neg (I.neg x) = x) {T : Tables}
    (hT : TabOK T) (name : String) (ps : List PartL) (hne : ps ≠ []) (hg : ∀ p ∈ ps, PartGood p ∧ p.bits ≠ []) :
    fromString I T name (renderDesc ps) =
      (if 2 ^ 64 ≤ maxIndex ps + 1 then .err (.invalidBit (Nat.toDigits 10 (maxIndex ps)))
       else match dispatchAll T (ps.map (descOf I)) with
         | .ok ops => .ok (.Composite name (maxIndex ps + 1) ops)
         | .err e => .err e
         | .panic s => .panic s
         | .fuel => .fuel) := by
  unfold fromString
  rw [splitSemi_renderDesc ps hne (fun p hp => (hg p hp).1),
    parseParts_render I T ps 0 [] (fun p hp => ⟨parseGateDesc_render I hneg hT (hg p hp).1 (hg p hp).2, (hg p hp).2⟩)]
  simp only [List.nil_append]
  rfl

theorem fromString_render {F : Type} (I : FloatOps F) (hneg : ∀ x, I.neg (I.neg x) = x) {T : Tables}
    (hT : TabOK T) (hD : T.dispatch = documentedTable) (name : String) (ps : List PartL) (hne : ps ≠ [])
    (hg : ∀ p ∈ ps, PartGood p ∧ p.bits ≠ [] ∧ p.Matches = true) (hw : maxIndex ps + 1 < 2 ^ 64) :
    ∃ ops, expectedOps (interpOf I) ps = some ops ∧
      fromString I T name (renderDesc ps) = .ok (.Composite name (maxIndex ps + 1) ops) := by
  obtain ⟨ops, h1, h2⟩ := dispatchAll_documented I hD ps (fun p hp => ⟨(hg p hp).1.name, (hg p hp).2.2⟩)
  refine ⟨ops, h1, ?_⟩
  rw [fromString_render_parsed I hneg hT name ps hne (fun p hp => ⟨(hg p hp).1, (hg p hp).2.1⟩)]
  have : ¬ 2 ^ 64 ≤ maxIndex ps + 1 := by omega
  simp only [this, if_false, h2]

end Q1t.Proofs.FromString

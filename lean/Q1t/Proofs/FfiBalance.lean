import Q1t.Proofs.FfiHeap
/-!
`heap_balanced`: an invariant of the state machine, by induction over arbitrary call histories:
the live heap is (as a multiset) the initial heap + the boxes of the live circuits + the blocks owned by
the outstanding results.
-/
namespace Q1t.Ffi
open CResult

variable {C : Type}

def circBlocks (circs : List (Nat × Circ C)) : List Block := circs.map (·.2.blk)

structure Inv (cfg : Cfg) (base : Heap) (s : State C) : Prop where
  wf : s.hs.WF
  perm : s.hs.heap.Perm (base ++ circBlocks s.circs ++ s.results.flatMap ownedBlocks)
  keyed : ∀ kv ∈ s.circs, kv.2.blk = ⟨kv.1, cfg.circSize, cfg.circAlign⟩
  allBlk : ∀ r ∈ s.results, AllBlk r

theorem Inv.nodupRhs {cfg : Cfg} {base : Heap} {s : State C} (hi : Inv cfg base s) :
    ((base ++ circBlocks s.circs ++ s.results.flatMap ownedBlocks).map (·.id)).Nodup :=
  (hi.perm.map (·.id)).nodup_iff.mp hi.wf.unique

/-- every outstanding result is valid on the current heap -/
theorem Inv.valid {cfg : Cfg} {base : Heap} {s : State C} (hi : Inv cfg base s) {r : CResult}
    (hr : r ∈ s.results) : Valid s.hs.heap r := by
  refine ⟨hi.allBlk r hr, ?_, ?_⟩
  · intro b hb
    apply hi.perm.mem_iff.mpr
    apply List.mem_append_right
    exact List.mem_flatMap.mpr ⟨r, hr, hb⟩
  · have hp : (s.results.flatMap ownedBlocks).Perm (ownedBlocks r ++ (s.results.erase r).flatMap ownedBlocks) := by
      have := (List.perm_cons_erase hr).flatMap_right ownedBlocks
      simpa [List.flatMap_cons] using this
    have hn := hi.nodupRhs
    rw [List.map_append] at hn
    have hn2 := (List.nodup_append.mp hn).2.1
    have hn3 := ((hp.map (·.id)).nodup_iff.mp hn2)
    rw [List.map_append] at hn3
    exact (List.nodup_append.mp hn3).1

theorem removeIds_singleton (h : Heap) (i : Nat) : h.filter (fun x => x.id != i) = removeIds h [i] := by
  unfold removeIds
  apply List.filter_congr
  intro x _
  by_cases hx : x.id = i <;> simp [hx]
  exact fun hc => hx hc.symm

/-- removing the ids of `X` from a heap that is `X ++ Y` as a multiset leaves `Y` -/
theorem perm_remove {L X Y : Heap} (hp : L.Perm (X ++ Y)) (hu : UniqueIds L) :
    (removeIds L (X.map (·.id))).Perm Y := by
  unfold removeIds
  have h1 := hp.filter (fun b => !(X.map (·.id)).contains b.id)
  rw [List.filter_append] at h1
  have hn : ((X ++ Y).map (·.id)).Nodup := (hp.map (·.id)).nodup_iff.mp hu
  rw [List.map_append] at hn
  obtain ⟨_, _, hdis⟩ := List.nodup_append.mp hn
  have hX : X.filter (fun b => !(X.map (·.id)).contains b.id) = [] := by
    apply List.filter_eq_nil_iff.mpr
    intro a ha
    simp only [Bool.not_eq_true', Bool.not_eq_false, List.contains_iff_mem, List.mem_map]
    simp
    exact ⟨a, ha, rfl⟩
  have hY : Y.filter (fun b => !(X.map (·.id)).contains b.id) = Y := by
    apply List.filter_eq_self.mpr
    intro a ha
    simp only [Bool.not_eq_true', List.contains_eq_false_iff_not_mem] <;> try simp
    intro x hx hc
    exact hdis x.id (List.mem_map.mpr ⟨x, hx, rfl⟩) a.id (List.mem_map.mpr ⟨a, ha, rfl⟩) hc
  rw [hX, hY, List.nil_append] at h1
  exact h1

theorem wf_removeIds {m : HeapSt} (hw : m.WF) (ids : List Nat) : HeapSt.WF { m with heap := removeIds m.heap ids } := by
  constructor
  · exact uniqueIds_filter _ hw.unique
  · intro b hb
    exact hw.below b (List.mem_filter.mp hb).1

theorem lookup_mem {circs : List (Nat × Circ C)} {id : Nat} {c : Circ C} (h : circs.lookup id = some c) :
    (id, c) ∈ circs := by
  induction circs with
  | nil => simp at h
  | cons kv rest ih =>
    obtain ⟨k, v⟩ := kv
    simp only [List.lookup_cons] at h
    by_cases hk : id == k
    · simp only [hk] at h
      have : id = k := by simpa using hk
      cases h
      rw [this]
      exact List.mem_cons_self
    · simp only [hk] at h
      exact List.mem_cons_of_mem _ (ih h)

theorem dealloc_ok_eq {h h' : Heap} {id s a : Nat} (hd : dealloc h (.blk id) s a = .ok h') :
    h' = h.filter (fun x => x.id != id) := by
  unfold dealloc at hd
  cases hf : findBlock h id with
  | none => simp [hf] at hd
  | some b =>
    simp only [hf] at hd
    by_cases hc : b.size = s ∧ b.align = a
    · simp only [hc, and_self, if_true, Except.ok.injEq] at hd; exact hd.symm
    · simp [hc] at hd

/-! ### the four kinds of steps -/

theorem inv_finish {cfg : Cfg} {base : Heap} {s : State C} (hi : Inv cfg base s)
    (circs' : List (Nat × Circ C)) (hcb : circBlocks circs' = circBlocks s.circs)
    (hk : ∀ kv ∈ circs', kv.2.blk = ⟨kv.1, cfg.circSize, cfg.circAlign⟩) (p : Payload) :
    Inv cfg base (finish s circs' p).1 := by
  unfold finish
  cases hb : build s.hs p with
  | none => exact hi
  | some pr =>
    obtain ⟨hs', r⟩ := pr
    have hB := build_spec hb
    refine ⟨hB.wf hi.wf, ?_, hk, ?_⟩
    · simp only [hcb, List.flatMap_cons, hB.heap]
      have h1 : (s.hs.heap ++ ownedBlocks r).Perm
          ((base ++ circBlocks s.circs ++ s.results.flatMap ownedBlocks) ++ ownedBlocks r) :=
        hi.perm.append (List.Perm.refl _)
      refine h1.trans ?_
      rw [List.append_assoc (base ++ circBlocks s.circs)]
      exact (List.Perm.refl _).append List.perm_append_comm
    · intro r' hr'
      rcases List.mem_cons.mp hr' with rfl | h
      · exact hB.allBlk
      · exact hi.allBlk r' h

theorem inv_new {cfg : Cfg} {base : Heap} {s : State C} (hi : Inv cfg base s) (c : C) (nq nc : Nat) :
    Inv cfg base { s with hs := (s.hs.alloc cfg.circSize cfg.circAlign).1,
      circs := (s.hs.next, ⟨c, nq, nc, [], none, ⟨s.hs.next, cfg.circSize, cfg.circAlign⟩⟩) :: s.circs } := by
  refine ⟨?_, ?_, ?_, hi.allBlk⟩
  · have := wf_extend hi.wf (new := [⟨s.hs.next, cfg.circSize, cfg.circAlign⟩]) (n' := s.hs.next + 1)
      (by simp) (by intro b hb; rw [List.mem_singleton.mp hb]; simp) (by omega)
    exact this
  · simp only [HeapSt.alloc, circBlocks, List.map_cons]
    have h1 := hi.perm.append (List.Perm.refl [(⟨s.hs.next, cfg.circSize, cfg.circAlign⟩ : Block)])
    refine h1.trans ?_
    simp only [circBlocks, List.append_assoc]
    refine (List.Perm.refl base).append ?_
    have : (List.map (fun x => x.2.blk) s.circs ++ (s.results.flatMap ownedBlocks ++ [(⟨s.hs.next, cfg.circSize, cfg.circAlign⟩ : Block)])).Perm
        ((⟨s.hs.next, cfg.circSize, cfg.circAlign⟩ : Block) :: (List.map (fun x => x.2.blk) s.circs ++ s.results.flatMap ownedBlocks)) := by
      rw [← List.append_assoc]
      exact List.perm_append_singleton _ _
    simpa using this
  · intro kv hkv
    rcases List.mem_cons.mp hkv with rfl | h
    · rfl
    · exact hi.keyed kv h

theorem inv_free {cfg : Cfg} {base : Heap} {s : State C} (hi : Inv cfg base s) {id : Nat} {c : Circ C}
    (hg : getCirc s id = some c) {h' : Heap} (hd : dealloc s.hs.heap (.blk id) c.blk.size c.blk.align = .ok h') :
    Inv cfg base { s with hs := { s.hs with heap := h' }, circs := s.circs.filter (fun kv => kv.1 != id) } := by
  have hmem := lookup_mem hg
  have hblk : c.blk = ⟨id, cfg.circSize, cfg.circAlign⟩ := hi.keyed _ hmem
  have hh' := dealloc_ok_eq hd
  rw [removeIds_singleton] at hh'
  subst hh'
  refine ⟨wf_removeIds hi.wf _, ?_, fun kv hkv => hi.keyed kv (List.mem_filter.mp hkv).1, hi.allBlk⟩
  -- split the circuit blocks into the freed one and the others
  have hsplit : (circBlocks s.circs).Perm
      ((circBlocks s.circs).filter (fun b => b.id == id) ++ (circBlocks s.circs).filter (fun b => !(b.id == id))) :=
    (List.filter_append_perm _ _).symm
  have hothers : (circBlocks s.circs).filter (fun b => !(b.id == id)) =
      circBlocks (s.circs.filter (fun kv => kv.1 != id)) := by
    unfold circBlocks
    rw [List.filter_map]
    congr 1
    apply List.filter_congr
    intro kv hkv
    simp [Function.comp_def, hi.keyed kv hkv, bne]
  -- the freed ones: all equal to c.blk, and by uniqueness exactly one
  have hn := hi.nodupRhs
  have hcbn : ((circBlocks s.circs).map (·.id)).Nodup := by
    rw [List.map_append, List.map_append] at hn
    exact (List.nodup_append.mp (List.nodup_append.mp hn).1).2.1
  have hfreed : (circBlocks s.circs).filter (fun b => b.id == id) = [c.blk] := by
    have hin : c.blk ∈ circBlocks s.circs := List.mem_map.mpr ⟨(id, c), hmem, rfl⟩
    have hall : ∀ b ∈ (circBlocks s.circs).filter (fun b => b.id == id), b = c.blk := by
      intro b hb
      have hb' := List.mem_filter.mp hb
      exact eq_of_mem_of_id hcbn hb'.1 hin (by simpa [hblk] using hb'.2)
    have hnd : ((circBlocks s.circs).filter (fun b => b.id == id)).Nodup := by
      have := List.Nodup.sublist (List.Sublist.map (·.id) (List.filter_sublist (p := fun b => b.id == id))) hcbn
      exact List.Nodup.of_map _ this
    have hmem' : c.blk ∈ (circBlocks s.circs).filter (fun b => b.id == id) :=
      List.mem_filter.mpr ⟨hin, by simp [hblk]⟩
    cases hl : (circBlocks s.circs).filter (fun b => b.id == id) with
    | nil => rw [hl] at hmem'; cases hmem'
    | cons x xs =>
      rw [hl] at hall hnd
      have hx : x = c.blk := hall x List.mem_cons_self
      cases xs with
      | nil => rw [hx]
      | cons y ys =>
        have hy : y = c.blk := hall y (List.mem_cons_of_mem _ List.mem_cons_self)
        rw [hx, hy] at hnd
        simp at hnd
  rw [hfreed, hothers] at hsplit
  have hp2 : s.hs.heap.Perm ([c.blk] ++ (base ++ circBlocks (s.circs.filter (fun kv => kv.1 != id)) ++
      s.results.flatMap ownedBlocks)) := by
    refine hi.perm.trans ?_
    have := ((List.Perm.refl base).append hsplit).append (List.Perm.refl (s.results.flatMap ownedBlocks))
    refine this.trans ?_
    simp only [List.append_assoc, List.singleton_append]
    exact List.perm_middle
  have := perm_remove hp2 hi.wf.unique
  simpa [hblk] using this

theorem inv_rfree {cfg : Cfg} {base : Heap} {s : State C} (hi : Inv cfg base s) {r : CResult}
    (hr : r ∈ s.results) {h' : Heap} (hf : free s.hs.heap r = .ok h') :
    Inv cfg base { s with hs := { s.hs with heap := h' }, results := s.results.erase r } := by
  rw [free_valid hi.wf.unique (hi.valid hr)] at hf
  cases hf
  refine ⟨wf_removeIds hi.wf _, ?_, hi.keyed, fun r' hr' => hi.allBlk r' (List.mem_of_mem_erase hr')⟩
  have hp : (s.results.flatMap ownedBlocks).Perm (ownedBlocks r ++ (s.results.erase r).flatMap ownedBlocks) := by
    have := (List.perm_cons_erase hr).flatMap_right ownedBlocks
    simpa [List.flatMap_cons] using this
  have hp2 : s.hs.heap.Perm (ownedBlocks r ++ (base ++ circBlocks s.circs ++ (s.results.erase r).flatMap ownedBlocks)) := by
    refine hi.perm.trans ?_
    refine ((List.Perm.refl _).append hp).trans ?_
    rw [← List.append_assoc]
    refine List.perm_append_comm.trans ?_
    rw [← List.append_assoc]
    refine (List.perm_append_comm.append (List.Perm.refl _)).trans ?_
    rw [List.append_assoc]
  exact perm_remove hp2 hi.wf.unique

end Q1t.Ffi

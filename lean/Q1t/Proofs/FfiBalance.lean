import Q1t.Proofs.FfiHeap
/-!
`heap_balanced`: an invariant of the state machine, by induction over arbitrary call histories:
the live heap is (as a multiset) the initial heap + the boxes of the live circuits + the blocks owned by
the outstanding results.
-/
namespace Q1t.Ffi
open CResult

variable {C : Type}

def circBlocks (circs : List (Nat × Circ C)) : List Block := circs.map (·.2.blk)

structure Inv (cfg : Cfg) (base : Heap) (s : State C) : Prop where
  wf : s.hs.WF
  perm : s.hs.heap.Perm (base ++ circBlocks s.circs ++ s.results.flatMap ownedBlocks)
  keyed : ∀ kv ∈ s.circs, kv.2.blk = ⟨kv.1, cfg.circSize, cfg.circAlign⟩
  allBlk : ∀ r ∈ s.results, AllBlk r

theorem Inv.nodupRhs {cfg : Cfg} {base : Heap} {s : State C} (hi : Inv cfg base s) :
    ((base ++ circBlocks s.circs ++ s.results.flatMap ownedBlocks).map (·.id)).Nodup :=
  (hi.perm.map Block.id).nodup_iff.mp hi.wf.unique

/-- every outstanding result is valid on the current heap -/
theorem Inv.valid {cfg : Cfg} {base : Heap} {s : State C} (hi : Inv cfg base s) {r : CResult}
    (hr : r ∈ s.results) : Valid s.hs.heap r := by
  refine ⟨hi.allBlk r hr, ?_, ?_⟩
  · intro b hb
    apply hi.perm.mem_iff.mpr
    apply List.mem_append_right
    exact List.mem_flatMap.mpr ⟨r, hr, hb⟩
  · have hp : (s.results.flatMap ownedBlocks).Perm (ownedBlocks r ++ (s.results.erase r).flatMap ownedBlocks) := by
      have := (List.perm_cons_erase hr).flatMap_right ownedBlocks
      simpa [List.flatMap_cons] using this
    have hn := hi.nodupRhs
    rw [List.map_append] at hn
    have hn2 := (List.nodup_append.mp hn).2.1
    have hn3 := ((hp.map (·.id)).nodup_iff.mp hn2)
    rw [List.map_append] at hn3
    exact (List.nodup_append.mp hn3).1

theorem removeIds_singleton (h : Heap) (i : Nat) : h.filter (fun x => x.id != i) = removeIds h [i] := by
  unfold removeIds
  apply List.filter_congr
  intro x _
  by_cases hx : x.id = i <;> simp [hx]

/-- removing the ids of `X` from a heap that is `X ++ Y` as a multiset leaves `Y` -/
theorem perm_remove {L X Y : Heap} (hp : L.Perm (X ++ Y)) (hu : UniqueIds L) :
    (removeIds L (X.map (·.id))).Perm Y := by
  unfold removeIds
  have h1 := hp.filter (fun b => !(X.map (·.id)).contains b.id)
  rw [List.filter_append] at h1
  have hn : ((X ++ Y).map Block.id).Nodup := (hp.map Block.id).nodup_iff.mp hu
  rw [List.map_append] at hn
  obtain ⟨_, _, hdis⟩ := List.nodup_append.mp hn
  have hX : X.filter (fun b => !(X.map (·.id)).contains b.id) = [] := by
    apply List.filter_eq_nil_iff.mpr
    intro a ha
    simp
    exact ⟨a, ha, rfl⟩
  have hY : Y.filter (fun b => !(X.map (·.id)).contains b.id) = Y := by
    apply List.filter_eq_self.mpr
    intro a ha
    simp
    intro x hx hc
    exact hdis x.id (List.mem_map.mpr ⟨x, hx, rfl⟩) a.id (List.mem_map.mpr ⟨a, ha, rfl⟩) hc
  rw [hX, hY, List.nil_append] at h1
  exact h1

theorem wf_removeIds {m : HeapSt} (hw : m.WF) (ids : List Nat) : HeapSt.WF { m with heap := removeIds m.heap ids } := by
  constructor
  · exact uniqueIds_filter _ hw.unique
  · intro b hb
    exact hw.below b (List.mem_filter.mp hb).1

theorem lookup_mem {circs : List (Nat × Circ C)} {id : Nat} {c : Circ C} (h : circs.lookup id = some c) :
    (id, c) ∈ circs := by
  induction circs with
  | nil => simp at h
  | cons kv rest ih =>
    obtain ⟨k, v⟩ := kv
    simp only [List.lookup_cons] at h
    by_cases hk : id == k
    · simp only [hk] at h
      have : id = k := by simpa using hk
      cases h
      rw [this]
      exact List.mem_cons_self
    · simp only [hk] at h
      exact List.mem_cons_of_mem _ (ih h)

theorem dealloc_ok_eq {h h' : Heap} {id s a : Nat} (hd : dealloc h (.blk id) s a = .ok h') :
    h' = h.filter (fun x => x.id != id) := by
  unfold dealloc at hd
  cases hf : findBlock h id with
  | none => simp [hf] at hd
  | some b =>
    simp only [hf] at hd
    by_cases hc : b.size = s ∧ b.align = a
    · simp only [hc, and_self, if_true, Except.ok.injEq] at hd; exact hd.symm
    · simp [hc] at hd

/-! ### the four kinds of steps -/

theorem inv_finish {cfg : Cfg} {base : Heap} {s : State C} (hi : Inv cfg base s)
    (circs' : List (Nat × Circ C)) (hcb : circBlocks circs' = circBlocks s.circs)
    (hk : ∀ kv ∈ circs', kv.2.blk = ⟨kv.1, cfg.circSize, cfg.circAlign⟩) (p : Payload) :
    Inv cfg base (finish s circs' p).1 := by
  unfold finish
  cases hb : build s.hs p with
  | none => exact hi
  | some pr =>
    obtain ⟨hs', r⟩ := pr
    have hB := build_spec hb
    refine ⟨hB.wf hi.wf, ?_, hk, ?_⟩
    · simp only [hcb, List.flatMap_cons, hB.heap]
      have h1 : (s.hs.heap ++ ownedBlocks r).Perm
          ((base ++ circBlocks s.circs ++ s.results.flatMap ownedBlocks) ++ ownedBlocks r) :=
        hi.perm.append (List.Perm.refl _)
      refine h1.trans ?_
      rw [List.append_assoc (base ++ circBlocks s.circs)]
      exact (List.Perm.refl _).append List.perm_append_comm
    · intro r' hr'
      rcases List.mem_cons.mp hr' with rfl | h
      · exact hB.allBlk
      · exact hi.allBlk r' h

theorem inv_new {cfg : Cfg} {base : Heap} {s : State C} (hi : Inv cfg base s) (c : C) (nq nc : Nat) :
    Inv cfg base (⟨(s.hs.alloc cfg.circSize cfg.circAlign).1,
      (s.hs.next, ⟨c, nq, nc, [], none, ⟨s.hs.next, cfg.circSize, cfg.circAlign⟩⟩) :: s.circs, s.results⟩ : State C) := by
  refine ⟨?_, ?_, ?_, hi.allBlk⟩
  · have := wf_extend hi.wf (new := [⟨s.hs.next, cfg.circSize, cfg.circAlign⟩]) (n' := s.hs.next + 1)
      (by simp) (by intro b hb; rw [List.mem_singleton.mp hb]; simp) (by omega)
    exact this
  · simp only [HeapSt.alloc, circBlocks, List.map_cons]
    have h1 := hi.perm.append (List.Perm.refl [(⟨s.hs.next, cfg.circSize, cfg.circAlign⟩ : Block)])
    refine h1.trans ?_
    simp only [circBlocks, List.append_assoc]
    refine (List.Perm.refl base).append ?_
    have : (List.map (fun x => x.2.blk) s.circs ++ (s.results.flatMap ownedBlocks ++ [(⟨s.hs.next, cfg.circSize, cfg.circAlign⟩ : Block)])).Perm
        ((⟨s.hs.next, cfg.circSize, cfg.circAlign⟩ : Block) :: (List.map (fun x => x.2.blk) s.circs ++ s.results.flatMap ownedBlocks)) := by
      rw [← List.append_assoc]
      exact List.perm_append_singleton _ _
    simpa using this
  · intro kv hkv
    rcases List.mem_cons.mp hkv with rfl | h
    · rfl
    · exact hi.keyed kv h

theorem inv_free {cfg : Cfg} {base : Heap} {s : State C} (hi : Inv cfg base s) {id : Nat} {c : Circ C}
    (hg : getCirc s id = some c) {h' : Heap} (hd : dealloc s.hs.heap (.blk id) c.blk.size c.blk.align = .ok h') :
    Inv cfg base { s with hs := { s.hs with heap := h' }, circs := s.circs.filter (fun kv => kv.1 != id) } := by
  have hmem := lookup_mem hg
  have hblk : c.blk = ⟨id, cfg.circSize, cfg.circAlign⟩ := hi.keyed _ hmem
  have hh' := dealloc_ok_eq hd
  rw [removeIds_singleton] at hh'
  subst hh'
  refine ⟨wf_removeIds hi.wf _, ?_, fun kv hkv => hi.keyed kv (List.mem_filter.mp hkv).1, hi.allBlk⟩
  -- split the circuit blocks into the freed one and the others
  have hsplit : (circBlocks s.circs).Perm
      ((circBlocks s.circs).filter (fun b => b.id == id) ++ (circBlocks s.circs).filter (fun b => !(b.id == id))) :=
    (List.filter_append_perm _ _).symm
  have hothers : (circBlocks s.circs).filter (fun b => !(b.id == id)) =
      circBlocks (s.circs.filter (fun kv => kv.1 != id)) := by
    unfold circBlocks
    rw [List.filter_map]
    congr 1
    apply List.filter_congr
    intro kv hkv
    simp [Function.comp_def, hi.keyed kv hkv, bne]
  -- the freed ones: all equal to c.blk, and by uniqueness exactly one
  have hn := hi.nodupRhs
  have hcbn : ((circBlocks s.circs).map (·.id)).Nodup := by
    rw [List.map_append, List.map_append] at hn
    exact (List.nodup_append.mp (List.nodup_append.mp hn).1).2.1
  have hfreed : (circBlocks s.circs).filter (fun b => b.id == id) = [c.blk] := by
    have hin : c.blk ∈ circBlocks s.circs := List.mem_map.mpr ⟨(id, c), hmem, rfl⟩
    have hall : ∀ b ∈ (circBlocks s.circs).filter (fun b => b.id == id), b = c.blk := by
      intro b hb
      have hb' := List.mem_filter.mp hb
      exact eq_of_mem_of_id hcbn hb'.1 hin (by simpa [hblk] using hb'.2)
    have hnd : ((circBlocks s.circs).filter (fun b => b.id == id)).Nodup := by
      have := List.Nodup.sublist (List.Sublist.map Block.id (List.filter_sublist (p := fun (b : Block) => b.id == id))) hcbn
      unfold List.Nodup at this ⊢
      rw [List.pairwise_map] at this
      exact this.imp (fun h hc => h (by rw [hc]))
    have hmem' : c.blk ∈ (circBlocks s.circs).filter (fun b => b.id == id) :=
      List.mem_filter.mpr ⟨hin, by simp [hblk]⟩
    cases hl : (circBlocks s.circs).filter (fun b => b.id == id) with
    | nil => rw [hl] at hmem'; cases hmem'
    | cons x xs =>
      rw [hl] at hall hnd
      have hx : x = c.blk := hall x List.mem_cons_self
      cases xs with
      | nil => rw [hx]
      | cons y ys =>
        have hy : y = c.blk := hall y (List.mem_cons_of_mem _ List.mem_cons_self)
        rw [hx, hy] at hnd
        simp at hnd
  rw [hfreed, hothers] at hsplit
  have hp2 : s.hs.heap.Perm ([c.blk] ++ (base ++ circBlocks (s.circs.filter (fun kv => kv.1 != id)) ++
      s.results.flatMap ownedBlocks)) := by
    refine hi.perm.trans ?_
    have := ((List.Perm.refl base).append hsplit).append (List.Perm.refl (s.results.flatMap ownedBlocks))
    refine this.trans ?_
    simp only [List.append_assoc, List.singleton_append]
    exact List.perm_middle
  have := perm_remove hp2 hi.wf.unique
  simpa [hblk] using this

theorem inv_rfree {cfg : Cfg} {base : Heap} {s : State C} (hi : Inv cfg base s) {r : CResult}
    (hr : r ∈ s.results) {h' : Heap} (hf : free s.hs.heap r = .ok h') :
    Inv cfg base { s with hs := { s.hs with heap := h' }, results := s.results.erase r } := by
  rw [free_valid hi.wf.unique (hi.valid hr)] at hf
  cases hf
  refine ⟨wf_removeIds hi.wf _, ?_, hi.keyed, fun r' hr' => hi.allBlk r' (List.mem_of_mem_erase hr')⟩
  have hp : (s.results.flatMap ownedBlocks).Perm (ownedBlocks r ++ (s.results.erase r).flatMap ownedBlocks) := by
    have := (List.perm_cons_erase hr).flatMap_right ownedBlocks
    simpa [List.flatMap_cons] using this
  have hp2 : s.hs.heap.Perm (ownedBlocks r ++ (base ++ circBlocks s.circs ++ (s.results.erase r).flatMap ownedBlocks)) := by
    refine hi.perm.trans ?_
    refine ((List.Perm.refl _).append hp).trans ?_
    rw [← List.append_assoc]
    refine (List.perm_append_comm.append (List.Perm.refl _)).trans ?_
    rw [List.append_assoc]
  exact perm_remove hp2 hi.wf.unique

end Q1t.Ffi

namespace Q1t.Ffi
open CResult
variable {C : Type}

/-- an outcome keeps the circuit's box -/
def Out.keeps (o : Out C) (b : Block) : Prop :=
  match o with
  | .ret c' _ => c'.blk = b
  | _ => True

theorem mapRes_keeps (c : Circ C) (r : Res C) (upd : C → Circ C) (tag : Option String)
    (hupd : ∀ x, (upd x).blk = c.blk) : (mapRes c r upd tag).keeps c.blk := by
  cases r <;> simp [mapRes, Out.keeps, hupd]

theorem mapStr_keeps (c : Circ C) (r : Res String) (tag : Option String) : (mapStr c r tag).keeps c.blk := by
  cases r <;> simp [mapStr, Out.keeps]

theorem addGateBody_keeps (cfg : Cfg) (api : Api C) (c : Circ C) (name : Option String) (qs : List Nat)
    (ps : List CParameter) : (addGateBody cfg api c name qs ps).keeps c.blk := by
  unfold addGateBody
  split
  · simp [Out.keeps]
  · split
    · simp [Out.keeps]
    · split
      · simp [Out.keeps]
      · exact mapRes_keeps _ _ _ _ (fun _ => rfl)

theorem addCondBody_keeps (cfg : Cfg) (api : Api C) (c : Circ C) (ctl : List Nat) (t : Nat) (name : Option String)
    (qs : List Nat) (ps : List CParameter) : (addCondBody cfg api c ctl t name qs ps).keeps c.blk := by
  unfold addCondBody
  split
  · simp [Out.keeps]
  · split
    · simp [Out.keeps]
    · split
      · simp [Out.keeps]
      · exact mapRes_keeps _ _ _ _ (fun _ => rfl)

theorem entry_keeps (cfg : Cfg) (api : Api C) (mem : Mem) (c : Circ C) (call : Call) :
    (entry cfg api mem c call).keeps c.blk := by
  cases call <;> simp only [entry]
  case nrQbits => simp [Out.keeps]
  case nrCbits => simp [Out.keeps]
  case cstate => split <;> simp [Out.keeps]
  case addGate h name qbits params =>
    split
    · simp [Out.keeps]
    · exact addGateBody_keeps ..
  case addCond h control target name qbits params =>
    split
    · simp [Out.keeps]
    · split
      · simp [Out.keeps]
      · exact addCondBody_keeps ..
  case reset => exact mapRes_keeps _ _ _ _ (fun _ => rfl)
  case resetAll => simp [Out.keeps]
  case measure =>
    split
    · simp [Out.keeps]
    · split <;> exact mapRes_keeps _ _ _ _ (fun _ => rfl)
  case measureAll =>
    split
    · simp [Out.keeps]
    · split
      · simp [Out.keeps]
      · split <;> exact mapRes_keeps _ _ _ _ (fun _ => rfl)
  case execute => split <;> simp [Out.keeps]
  case reexecute => exact mapRes_keeps _ _ _ _ (fun _ => rfl)
  case histogram => split <;> simp [Out.keeps]
  case latex => exact mapStr_keeps ..
  case openQasm => exact mapStr_keeps ..
  case cQasm => exact mapStr_keeps ..
  all_goals simp [Out.keeps]

theorem setCirc_blocks {cfg : Cfg} {circs : List (Nat × Circ C)} {id : Nat} {c c' : Circ C}
    (hk : ∀ kv ∈ circs, kv.2.blk = ⟨kv.1, cfg.circSize, cfg.circAlign⟩)
    (hc : (id, c) ∈ circs) (hb : c'.blk = c.blk) :
    circBlocks (setCirc circs id c') = circBlocks circs ∧
    ∀ kv ∈ setCirc circs id c', kv.2.blk = ⟨kv.1, cfg.circSize, cfg.circAlign⟩ := by
  have hcb : c'.blk = ⟨id, cfg.circSize, cfg.circAlign⟩ := by rw [hb]; exact hk _ hc
  constructor
  · unfold circBlocks setCirc
    rw [List.map_map]
    apply List.map_congr_left
    intro kv hkv
    obtain ⟨k, v⟩ := kv
    by_cases hkid : k = id
    · subst hkid
      have := hk _ hkv
      simp only at this
      simp [hcb, this]
    · simp [hkid]
  · intro kv hkv
    unfold setCirc at hkv
    obtain ⟨⟨k, v⟩, hin, rfl⟩ := List.mem_map.mp hkv
    by_cases hkid : k = id
    · subst hkid
      simp [hcb]
    · have : (k == id) = false := by simpa using hkid
      simp only [this]
      exact hk _ hin

theorem inv_stepEntry {cfg : Cfg} {base : Heap} {s : State C} (hi : Inv cfg base s) (api : Api C) (mem : Mem)
    (call : Call) : Inv cfg base (stepEntry cfg api mem s call).1 := by
  unfold stepEntry
  split
  · exact hi
  · split
    · exact inv_finish hi _ rfl hi.keyed _
    · exact hi
    · exact hi
  · rename_i id _
    split
    · exact hi
    · rename_i c hg
      have hk := entry_keeps cfg api mem c call
      split
      · exact hi
      · exact hi
      · rename_i c' p he
        rw [he] at hk
        have hmem := lookup_mem hg
        obtain ⟨h1, h2⟩ := setCirc_blocks (cfg := cfg) hi.keyed hmem hk
        exact inv_finish hi _ h1 h2 _

theorem inv_step {cfg : Cfg} {base : Heap} {s : State C} (hi : Inv cfg base s) (api : Api C) (mem : Mem)
    (call : Call) : Inv cfg base (step cfg api mem s call).1 := by
  cases call
  case new nq nc => exact inv_new hi _ nq nc
  case free h =>
    cases h with
    | none => exact hi
    | some id =>
      simp only [step]
      split
      · exact hi
      · rename_i c hg
        split
        · exact hi
        · rename_i h' hd
          exact inv_free hi hg hd
  case resultFree r =>
    simp only [step]
    split
    · rename_i hr
      split
      · exact hi
      · rename_i h' hf
        exact inv_rfree hi hr hf
    · exact hi
  all_goals exact inv_stepEntry hi api mem _

theorem inv_run {cfg : Cfg} {base : Heap} (api : Api C) :
    ∀ (hist : List (Mem × Call)) (s : State C), Inv cfg base s → Inv cfg base (run cfg api s hist).1 := by
  intro hist
  induction hist with
  | nil => intro s hi; exact hi
  | cons mc rest ih =>
    intro s hi
    obtain ⟨mem, call⟩ := mc
    simp only [run]
    exact ih _ (inv_step hi api mem call)

theorem inv_init {cfg : Cfg} (base : Heap) (next : Nat) (hw : HeapSt.WF ⟨base, next⟩) :
    Inv cfg base (init C base next) := by
  refine ⟨hw, ?_, ?_, ?_⟩
  · simp [init, circBlocks]
  · intro kv hkv; cases hkv
  · intro r hr; cases hr

/-- **heap_balanced**, model level: after ANY call history (any interleaving of any entry points on any
number of circuits, any arguments, any foreign memory), if no circuit is live and no result is
outstanding any more — i.e. every circuit was freed once and every result was freed once — the live
heap is the initial heap again (as a multiset of blocks with their layouts). -/
theorem heap_balanced_model (cfg : Cfg) (api : Api C) (base : Heap) (next : Nat) (hw : HeapSt.WF ⟨base, next⟩)
    (hist : List (Mem × Call)) :
    let s := (run cfg api (init C base next) hist).1
    s.circs = [] → s.results = [] → s.hs.heap.Perm base := by
  intro s hc hr
  have hi : Inv cfg base s := inv_run api hist _ (inv_init base next hw)
  have := hi.perm
  rw [hc, hr] at this
  simpa [circBlocks] using this

/-- at any point of any history: the live heap is exactly the initial blocks, the boxes of the live
circuits and the blocks owned by the outstanding results -/
theorem heap_accounted (cfg : Cfg) (api : Api C) (base : Heap) (next : Nat) (hw : HeapSt.WF ⟨base, next⟩)
    (hist : List (Mem × Call)) :
    let s := (run cfg api (init C base next) hist).1
    s.hs.heap.Perm (base ++ circBlocks s.circs ++ s.results.flatMap ownedBlocks) :=
  (inv_run api hist _ (inv_init base next hw)).perm

/-- in a history that follows the protocol, `result_free` never faults: freeing an outstanding result
always succeeds and releases exactly its blocks -/
theorem conformant_free_ok (cfg : Cfg) (api : Api C) (base : Heap) (next : Nat) (hw : HeapSt.WF ⟨base, next⟩)
    (hist : List (Mem × Call)) (r : CResult) :
    let s := (run cfg api (init C base next) hist).1
    r ∈ s.results → free s.hs.heap r = .ok (removeIds s.hs.heap ((ownedBlocks r).map (·.id))) := by
  intro s hr
  have hi : Inv cfg base s := inv_run api hist _ (inv_init base next hw)
  exact free_valid hi.wf.unique (hi.valid hr)

end Q1t.Ffi

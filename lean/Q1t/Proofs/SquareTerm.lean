import Q1t.Proofs.SquarePrim
import Q1t.Proofs.SquareMat
import Q1t.Proofs.UnitariesTerm
set_option linter.unusedSimpArgs false
set_option linter.unusedSectionVars false
/-!
C16, terms: exactness of the square is preserved by `C`, `Kron` and `Loop`; equality up to a
global phase by `Kron` and `Loop`, but by `C` only when the phase is 1.  Hence the model's
`square` is correct for all terms without a `U2` below a `C`; and `C(U2(φ,λ))` is a genuine
counterexample whenever `i·e^{-i(φ+λ)/2} ≠ 1` (D7).
-/
namespace Q1t.Proofs.Square
open Q1t Q1t.Gate Q1t.Spec Q1t.LMat Q1t.Proofs.Unitaries ParamArith

variable {α V : Type} [CommRing α] [Amp α V]

/-- the matrix of `g` is a `2^k × 2^k` table, `k = nrBits g` -/
def WFm (g : GateTerm V) : Prop := WF (2 ^ nrBits g) (2 ^ nrBits g) (matrix g : LMat α)

/-- `g2` has the width of `g`, both matrices are well formed, and `g2` is exactly `g` twice -/
def ExactInv (g g2 : GateTerm V) : Prop :=
  nrBits g2 = nrBits g ∧ WFm (α := α) g ∧ WFm (α := α) g2 ∧ sqOK (α := α) g g2

/-- … and `g2` is `g` twice up to one global phase -/
def PhaseInv (g g2 : GateTerm V) : Prop :=
  nrBits g2 = nrBits g ∧ WFm (α := α) g ∧ WFm (α := α) g2 ∧ sqPhase (α := α) g g2

theorem pow_pos' (k : Nat) : 0 < 2 ^ k := Nat.pow_pos (by decide)

section lawful
variable (h : LawfulAmp α V)
include h

theorem wfm_of_ck (g : GateTerm V) (hg : CKTerm g) : WFm (α := α) g := (good_of_term h g hg).2.1

theorem phase_of_exact {g g2 : GateTerm V} (e : ExactInv (α := α) g g2) : PhaseInv (α := α) g g2 := by
  obtain ⟨e1, e2, e3, e4⟩ := e
  refine ⟨e1, e2, e3, 1, ?_, ?_⟩
  · rw [h.conj_one, mul_one]
  · rw [scale_one]; exact e4

omit h in
theorem matrix_C_eq_ctrl {g : GateTerm V} (hg : WFm (α := α) g) :
    (matrix (.C g) : LMat α) = ctrl (matrix g) := by
  simp only [matrix]; exact controlledMat_eq_ctrl hg

omit h in
theorem wfm_C {g : GateTerm V} (hg : WFm (α := α) g) : WFm (α := α) (.C g) := by
  have e : 2 ^ nrBits g + 2 ^ nrBits g = 2 ^ nrBits (.C g) := by
    simp only [nrBits]; rw [Nat.pow_add]; omega
  unfold WFm
  rw [matrix_C_eq_ctrl hg, ← e]; exact wf_ctrl hg

omit h in
theorem matrix_Kron_eq {g0 g1 : GateTerm V} (h0 : WFm (α := α) g0) (h1 : WFm (α := α) g1) :
    (matrix (.Kron g0 g1) : LMat α) = kronecker (matrix g0) (matrix g1) := by
  simp only [matrix]; exact kron_eq_kronecker h0 h1 (pow_pos' _) (pow_pos' _) (pow_pos' _)

omit h in
theorem wfm_Kron {g0 g1 : GateTerm V} (h0 : WFm (α := α) g0) (h1 : WFm (α := α) g1) :
    WFm (α := α) (.Kron g0 g1) := by
  have e : 2 ^ nrBits g0 * 2 ^ nrBits g1 = 2 ^ nrBits (.Kron g0 g1) := by
    simp only [nrBits]; rw [Nat.pow_add]
  unfold WFm
  rw [matrix_Kron_eq h0 h1, ← e]; exact wf_kronecker h0 h1 (pow_pos' _) (pow_pos' _)

omit h in
/-- exactness is preserved by `C` -/
theorem exact_C {g g2 : GateTerm V} (e : ExactInv (α := α) g g2) : ExactInv (α := α) (.C g) (.C g2) := by
  obtain ⟨e1, e2, e3, e4⟩ := e
  refine ⟨by simp only [nrBits, e1], wfm_C e2, wfm_C e3, ?_⟩
  unfold sqOK at e4 ⊢
  rw [matrix_C_eq_ctrl e2, matrix_C_eq_ctrl e3, e4]
  exact ctrl_mul (pow_pos' _) e2 e2

omit h in
/-- exactness is preserved by `Kron` -/
theorem exact_Kron {g0 g1 a b : GateTerm V} (e0 : ExactInv (α := α) g0 a) (e1 : ExactInv (α := α) g1 b) :
    ExactInv (α := α) (.Kron g0 g1) (.Kron a b) := by
  obtain ⟨n0, w0, w0', s0⟩ := e0
  obtain ⟨n1, w1, w1', s1⟩ := e1
  refine ⟨by simp only [nrBits, n0, n1], wfm_Kron w0 w1, wfm_Kron w0' w1', ?_⟩
  unfold sqOK at s0 s1 ⊢
  rw [matrix_Kron_eq w0 w1, matrix_Kron_eq w0' w1', s0, s1]
  exact kronecker_mul (pow_pos' _) (pow_pos' _) w0 w0 w1 w1

/-- equality up to a global phase is preserved by `Kron` (the phases multiply) -/
theorem phase_Kron {g0 g1 a b : GateTerm V} (e0 : PhaseInv (α := α) g0 a) (e1 : PhaseInv (α := α) g1 b) :
    PhaseInv (α := α) (.Kron g0 g1) (.Kron a b) := by
  obtain ⟨n0, w0, w0', c0, u0, s0⟩ := e0
  obtain ⟨n1, w1, w1', c1, u1, s1⟩ := e1
  refine ⟨by simp only [nrBits, n0, n1], wfm_Kron w0 w1, wfm_Kron w0' w1', c0 * c1, ?_, ?_⟩
  · rw [h.conj_mul]; linear_combination (c1 * Amp.conj V c1) * u0 + u1
  · rw [matrix_Kron_eq w0 w1, matrix_Kron_eq w0' w1', s0, s1,
      kronecker_scale c0 c1 (pow_pos' _) (pow_pos' _) (wf_mul w0 w0 (pow_pos' _)) (wf_mul w1 w1 (pow_pos' _))]
    congr 1
    exact kronecker_mul (pow_pos' _) (pow_pos' _) w0 w0 w1 w1

/-- what C04 provides for a loop: its matrix is the power of its body's matrix, a square table -/
def LoopOK (label nm : String) (n : Nat) (body : OpList V) : Prop :=
  WF (2 ^ n) (2 ^ n) (matrix (.Composite nm n body) : LMat α) ∧
  ∀ k, (matrix (.Loop label k nm n body) : LMat α) = mpow (matrix (.Composite nm n body)) k

omit h in
/-- exactness of `Loop::square` (iteration count doubled), given the C04 corollary -/
theorem exact_Loop {label nm : String} {n : Nat} {body : OpList V} (k : Nat)
    (hl : LoopOK (α := α) label nm n body) :
    ExactInv (α := α) (.Loop label k nm n body) (.Loop label (2 * k) nm n body) := by
  obtain ⟨hw, hm⟩ := hl
  have w : ∀ j, WFm (α := α) (.Loop label j nm n body) := by
    intro j; unfold WFm; rw [hm j]; exact (toM_mpow (pow_pos' _) hw j).1
  refine ⟨rfl, w k, w (2 * k), ?_⟩
  unfold sqOK
  rw [hm, hm]; exact mpow_double (pow_pos' _) hw k

end lawful

/-! ### the D7 counterexample scheme -/

section cu2
variable [ParamArith V] (h : LawfulAmp α V) (hh : LawfulHalf α V) (hs : LawfulSq α V)
include h hh hs

omit h hh hs in
theorem phase_one_of_row (X Y ph cX cY : α) (r0 : 0 + X * cX + Y * cY = 1) (m0 : X = ph * X)
    (m1 : Y = ph * Y) : ph = 1 := by
  linear_combination (1 - ph) * r0 - cX * m0 - cY * m1

omit h hh hs in
theorem ctrl_two_phase (a b c d a' b' c' d' k : α)
    (e : controlledMat [[a', b'], [c', d']] =
      scale k (LMat.mul (controlledMat [[a, b], [c, d]]) (controlledMat [[a, b], [c, d]]))) :
    k = 1 ∧ [[a', b'], [c', d']] = LMat.mul [[a, b], [c, d]] [[a, b], [c, d]] := by
  simp only [controlledMat_two, mul_four, lmul_two, scale, List.map_cons, List.map_nil] at e ⊢
  simp only [List.cons.injEq, and_true] at e
  obtain ⟨⟨e00, -⟩, -, ⟨-, -, e22, e23⟩, -, -, e32, e33⟩ := e
  have hk : k = 1 := by linear_combination -e00
  subst hk
  refine ⟨rfl, mat2_ext ?_ ?_ ?_ ?_⟩
  · linear_combination e22
  · linear_combination e23
  · linear_combination e32
  · linear_combination e33

/-- If `C(U2(φ,λ)).square()` — the gate the code returns — equals `C(U2(φ,λ))` applied twice up
to ANY single global phase, then the phase `i·e^{-i(φ+λ)/2}` is 1. -/
theorem cu2_phase_one (p l : V)
    (hp : sqPhase (α := α) (.C (.U2 p l)) (.C (.U3 (u2theta p l) (subHalfPi p) (subHalfPi l)))) :
    (u2Phase p l : α) = 1 := by
  obtain ⟨k, -, hk⟩ := hp
  obtain ⟨-, hph⟩ := sq_u2 h hh hs p l
  -- unitarity of U2·U2, row 0
  have hu : Unitary V 2 (LMat.mul (matrix (.U2 p l) : LMat α) (matrix (.U2 p l))) :=
    unitary_mul h (by decide) ⟨wf22 _ _ _ _, u2_unitary h p l⟩ ⟨wf22 _ _ _ _, u2_unitary h p l⟩
  have hu2 := hu.2
  simp only [matrix, matU2, matU3] at hk hph hu2
  obtain ⟨hk1, hex⟩ := ctrl_two_phase _ _ _ _ _ _ _ _ k hk
  rw [hex] at hph
  simp only [lmul_two, scale_two, mulAdjoint_two, identity_two] at hph hu2
  simp only [List.cons.injEq, and_true] at hph hu2
  obtain ⟨⟨m00, m01⟩, -⟩ := hph
  obtain ⟨⟨r0, -⟩, -⟩ := hu2
  exact phase_one_of_row _ _ _ _ _ r0 m00 m01

end cu2
end Q1t.Proofs.Square

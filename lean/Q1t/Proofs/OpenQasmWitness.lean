import Q1t.Spec.OQ2Agree
/-! C11: kernel-checked witnesses (exact arithmetic in `ℚ(ζ₈)`): circuits on which the exported program and the
circuit differ (one per defect class), and circuits on which they agree. -/
namespace Q1t.OpenQasm
open Q1t.Spec.OQ2
set_option maxRecDepth 100000

def gX : QGate QPi := .lib "X" []
def gH : QGate QPi := .lib "H" []
def ang (b : Rat) : QPi := ⟨0, b, false⟩

/-- `measure_x(0, 0)`: exported as `h q[0]; measure q[0] -> b[0];` — the final state is `|0⟩`/`|1⟩`, not `|+⟩`/`|−⟩` -/
theorem wit_basis_measurement : exactAgree ⟨1, 1, [.measure 0 0 .X]⟩ = some false := by decide +kernel

/-- `x 0; if (b == 1) swap(0, 1)`: only the first of the three `cx` is conditional -/
theorem wit_condition_first_statement :
    exactAgree ⟨2, 1, [.gate gX [0], .cond [0] 1 (.lib "Swap" []) [0, 1]]⟩ = some false := by decide +kernel

/-- empty control list with target 1: never executed, exported unconditionally -/
theorem wit_empty_control : exactAgree ⟨1, 1, [.cond [] 1 gX [0]]⟩ = some false := by decide +kernel

/-- target 2 on a one-bit control list: never executed, exported as `if (b == 0) x q[0];` -/
theorem wit_target_overflow : exactAgree ⟨1, 1, [.cond [0] 2 gX [0]]⟩ = some false := by decide +kernel

/-- `CU3(0, π/2, 0)` is exported as `cu3(0, pi/2, 0)`, which (corrected body of `qelib1.inc`, see the header of
`Spec/OQ2.lean`) is exactly the controlled `U3` — although `φ + λ ≠ 0` -/
theorem wit_cu3_ok :
    (libMeaning (α := Q8) (P := QPi) libTable "CU3" [.direct (ang 0), .direct (ang (1/2)), .direct (ang 0)]).map
      (fun M => phaseEq8 M (Spec.specMatrix (.C (.U3 (ang 0) (ang (1/2)) (ang 0)) : GateTerm QPi))) = some true := by
  decide +kernel

/-- the body of `cu3(θ, φ, λ)` as first printed with the OpenQASM 2.0 specification (without the leading
`u1((lambda+phi)/2) c;`), at the given angles -/
def originalCu3Body (t p l : QPi) : List (String × List QPi × List Nat) :=
  [("u1", [Angle.div (Angle.sub l p) (Angle.ofDec 2 0)], [1]), ("cx", [], [0, 1]),
   ("u3", [Angle.neg (Angle.div t (Angle.ofDec 2 0)), Angle.ofDec 0 0,
           Angle.neg (Angle.div (Angle.add p l) (Angle.ofDec 2 0))], [1]),
   ("cx", [], [0, 1]),
   ("u3", [Angle.div t (Angle.ofDec 2 0), p, Angle.ofDec 0 0], [1])]

/-- REMARK about the historical library file, NOT a defect of the exporter: the originally printed body of `cu3`
at `(0, π/2, 0)` is not the controlled `U3(0, π/2, 0)` up to a global phase (it is off by the relative phase
`e^{i(φ+λ)/2}` on the control) -/
theorem remark_original_cu3 :
    (seqMatrix (α := Q8) (P := QPi) 2 (originalCu3Body (ang 0) (ang (1/2)) (ang 0))).map
      (fun M => phaseEq8 M (Spec.specMatrix (.C (.U3 (ang 0) (ang (1/2)) (ang 0)) : GateTerm QPi))) = some false := by
  decide +kernel

/-- agreement: superposition, measurement, a conditional gate on the whole register -/
theorem wit_agree_conditional :
    exactAgree ⟨1, 1, [.gate gH [0], .measure 0 0 .Z, .cond [0] 1 gX [0]]⟩ = some true := by decide +kernel

/-- agreement: Bell pair, `measure q -> b`, a conditional `Kron(X, H)` on a permuted control list, reset, barrier -/
theorem wit_agree_bell :
    exactAgree ⟨2, 2, [.gate gH [0], .gate (.lib "CX" []) [0, 1], .measureAll [0, 1] .Z,
      .cond [1, 0] 3 (.kron gX gH) [1, 0], .reset 0, .barrier [0, 1]]⟩ = some true := by decide +kernel

/-! the model's output on the witnesses of the classes that are not about amplitudes -/

/-- an empty composite is exported as an empty statement -/
theorem wit_empty_statement :
    exportCircuit libTable (⟨1, 0, [.gate (.composite "e" 1 .nil) [0]]⟩ : QCircuit Nat) =
      .ok [.version, .includeLib, .qreg 1, .gate ⟨[], none⟩] ∧
    toProgram ([.version, .includeLib, .qreg 1, .gate ⟨[], none⟩] : List (Line Nat)) = none := by decide

/-- a reference parameter is exported by name: an unbound identifier -/
theorem wit_reference_parameter :
    exportCircuit libTable (⟨1, 0, [.gate (.lib "RX" [.ref "theta" 5]) [0]]⟩ : QCircuit Nat) =
      .ok [.version, .includeLib, .qreg 1, .gate ⟨[], some ⟨"rx", [.name "theta" 5], [.bit "q" 0]⟩⟩] ∧
    (toProgram ([.version, .includeLib, .qreg 1,
        .gate ⟨[], some ⟨"rx", [.name "theta" 5], [.bit "q" 0]⟩⟩] : List (Line Nat))).map wfProblem =
      some (some ⟨"unbound_identifier", "theta"⟩) := by decide

/-- `cv` is not a gate of `qelib1.inc` -/
theorem wit_not_qelib1 :
    exportCircuit libTable (⟨2, 0, [.gate (.lib "CV" []) [0, 1]]⟩ : QCircuit Nat) =
      .ok [.version, .includeLib, .qreg 2, .gate ⟨[], some ⟨"cv", [], [.bit "q" 0, .bit "q" 1]⟩⟩] ∧
    (toProgram ([.version, .includeLib, .qreg 2,
        .gate ⟨[], some ⟨"cv", [], [.bit "q" 0, .bit "q" 1]⟩⟩] : List (Line Nat))).map wfProblem =
      some (some ⟨"not_qelib1", "cv"⟩) := by decide

/-- `add_gate(H, &[])`: the export panics -/
theorem wit_panic : exportCircuit libTable (⟨2, 0, [.gate (.lib "H" []) []]⟩ : QCircuit Nat) = .panic := by decide

end Q1t.OpenQasm

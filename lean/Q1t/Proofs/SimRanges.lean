import Q1t.Model.Sim
namespace Q1t.Sim

/-- the old range (column index) every shot belongs to, columns numbered from `icol` -/
def shotCols : List Nat → Nat → List Nat
  | [], _ => []
  | c :: cs, icol => List.replicate c icol ++ shotCols cs (icol + 1)

/-- per-shot expansion of the pieces: a piece `(icol, len, apply)` stands for `len` consecutive shots -/
def expandPieces (ranges : List (Nat × Nat × Bool)) : List (Nat × Bool) :=
  ranges.flatMap fun p => List.replicate p.2.1 (p.1, p.2.2)

theorem expandPieces_nil : expandPieces [] = [] := rfl

theorem expandPieces_append (a b : List (Nat × Nat × Bool)) :
    expandPieces (a ++ b) = expandPieces a ++ expandPieces b := by
  simp [expandPieces]

theorem expandPieces_single (icol len : Nat) (b : Bool) :
    expandPieces [(icol, len, b)] = List.replicate len (icol, b) := by
  simp [expandPieces]

theorem expandPieces_length (ranges : List (Nat × Nat × Bool)) :
    (expandPieces ranges).length = (ranges.map (·.2.1)).sum := by
  induction ranges with
  | nil => rfl
  | cons p ps ih =>
    have : expandPieces (p :: ps) = List.replicate p.2.1 (p.1, p.2.2) ++ expandPieces ps := by
      simp [expandPieces]
    rw [this, List.length_append, ih]
    simp

theorem shotCols_length (counts : List Nat) (icol : Nat) : (shotCols counts icol).length = counts.sum := by
  induction counts generalizing icol with
  | nil => rfl
  | cons c cs ih => simp [shotCols, ih]

/-- the fold step of `scanRange` -/
def scanStep (control : List Bool) (icol : Nat) (st : List (Nat × Nat × Bool) × Nat × Bool) (ibit : Nat) :
    List (Nat × Nat × Bool) × Nat × Bool :=
  if control.getD ibit st.2.2 != st.2.2 then (st.1 ++ [(icol, ibit - st.2.1, st.2.2)], ibit, !st.2.2) else st

theorem scanRange_eq (control : List Bool) (icol off count : Nat) :
    scanRange control icol off count =
      match control[off]? with
      | none => none
      | some first =>
        let r := (List.range' (off + 1) (count - 1)).foldl (scanStep control icol) ([], off, first)
        if off + count ≤ control.length ∨ count = 0 then
          some (if r.2.1 < off + count then r.1 ++ [(icol, off + count - r.2.1, r.2.2)] else r.1)
        else none := by
  unfold scanRange
  rfl

theorem take_drop_succ (control : List Bool) (off j : Nat) (h1 : off ≤ j) (h2 : j < control.length) :
    (control.drop off).take (j + 1 - off) = (control.drop off).take (j - off) ++ [control[j]] := by
  have : j + 1 - off = (j - off) + 1 := by omega
  rw [this, List.take_add_one, List.getElem?_drop]
  have : off + (j - off) = j := by omega
  rw [this, List.getElem?_eq_getElem h2]
  rfl

theorem foldl_scanStep_inv (control : List Bool) (icol off : Nat) :
    ∀ (m j : Nat) (st : List (Nat × Nat × Bool) × Nat × Bool), j + m ≤ control.length →
      off ≤ st.2.1 → st.2.1 < j →
      expandPieces st.1 ++ List.replicate (j - st.2.1) (icol, st.2.2) =
        ((control.drop off).take (j - off)).map (fun b => (icol, b)) →
      off ≤ ((List.range' j m).foldl (scanStep control icol) st).2.1 ∧
      ((List.range' j m).foldl (scanStep control icol) st).2.1 < j + m ∧
      expandPieces ((List.range' j m).foldl (scanStep control icol) st).1 ++
        List.replicate (j + m - ((List.range' j m).foldl (scanStep control icol) st).2.1)
          (icol, ((List.range' j m).foldl (scanStep control icol) st).2.2) =
        ((control.drop off).take (j + m - off)).map (fun b => (icol, b)) := by
  intro m
  induction m with
  | zero =>
    intro j st _ h1 h2 h3
    simp only [Nat.add_zero, List.range'_zero, List.foldl_nil]
    exact ⟨h1, h2, h3⟩
  | succ m ih =>
    intro j st hlen h1 h2 h3
    obtain ⟨acc, begin, prev⟩ := st
    simp only at h1 h2 h3
    rw [List.range'_succ, List.foldl_cons]
    have hj : j < control.length := by omega
    have key := take_drop_succ control off j (by omega) hj
    have hstep : off ≤ (scanStep control icol (acc, begin, prev) j).2.1 ∧
        (scanStep control icol (acc, begin, prev) j).2.1 < j + 1 ∧
        expandPieces (scanStep control icol (acc, begin, prev) j).1 ++
          List.replicate (j + 1 - (scanStep control icol (acc, begin, prev) j).2.1)
            (icol, (scanStep control icol (acc, begin, prev) j).2.2) =
        ((control.drop off).take (j + 1 - off)).map (fun b => (icol, b)) := by
      unfold scanStep
      simp only [List.getD_eq_getElem?_getD, List.getElem?_eq_getElem hj, Option.getD_some]
      rw [key, List.map_append, ← h3]
      by_cases hc : control[j] = prev
      · simp only [hc, bne_self_eq_false, Bool.false_eq_true, if_false]
        refine ⟨h1, by omega, ?_⟩
        have : j + 1 - begin = (j - begin) + 1 := by omega
        rw [this, List.replicate_succ', List.append_assoc]
        rfl
      · have hne : (control[j] != prev) = true := by simpa using hc
        simp only [hne, if_true]
        refine ⟨by omega, by omega, ?_⟩
        rw [expandPieces_append, expandPieces_single]
        have : j + 1 - j = 1 := by omega
        rw [this]
        have hb : control[j] = !prev := by
          cases hx : control[j] <;> cases prev <;> simp_all
        rw [hb]
        rfl
    have := ih (j + 1) (scanStep control icol (acc, begin, prev) j) (by omega) hstep.1 hstep.2.1 hstep.2.2
    have e : j + 1 + m = j + (m + 1) := by omega
    rw [e] at this
    exact this

theorem scanRange_partition (control : List Bool) (icol off count : Nat) (r : List (Nat × Nat × Bool))
    (h : scanRange control icol off count = some r) :
    off + count ≤ control.length ∧
    expandPieces r = ((control.drop off).take count).map (fun b => (icol, b)) := by
  rw [scanRange_eq] at h
  cases hf : control[off]? with
  | none => rw [hf] at h; simp at h
  | some first =>
    rw [hf] at h
    simp only at h
    have hoff : off < control.length := by
      rcases Nat.lt_or_ge off control.length with h' | h'
      · exact h'
      · rw [List.getElem?_eq_none h'] at hf; cases hf
    have hfirst : control[off] = first := by
      rw [List.getElem?_eq_getElem hoff] at hf; exact Option.some.inj hf
    by_cases hg : off + count ≤ control.length ∨ count = 0
    · rw [if_pos hg] at h
      have h := Option.some.inj h
      rcases Nat.eq_zero_or_pos count with hz | hpos
      · subst hz
        simp only [Nat.zero_sub, List.range'_zero, List.foldl_nil, Nat.add_zero, Nat.lt_irrefl, if_false] at h
        subst h
        exact ⟨by omega, by simp [expandPieces]⟩
      · have hle : off + count ≤ control.length := by omega
        refine ⟨hle, ?_⟩
        have inv := foldl_scanStep_inv control icol off (count - 1) (off + 1) ([], off, first)
          (by omega) (Nat.le_refl _) (by simp) (by
            have := take_drop_succ control off off (Nat.le_refl _) hoff
            simp only [Nat.sub_self, List.take_zero, List.nil_append] at this
            rw [this, hfirst]
            show expandPieces [] ++ List.replicate (off + 1 - off) (icol, first) = _
            rw [Nat.add_sub_cancel_left]
            rfl)
        have e : off + 1 + (count - 1) = off + count := by omega
        simp only [e] at inv
        obtain ⟨_, i2, i3⟩ := inv
        rw [if_pos i2] at h
        subst h
        rw [expandPieces_append, expandPieces_single, i3]
        have : off + count - off = count := by omega
        rw [this]
    · rw [if_neg hg] at h; cases h

theorem zip_append_map (a : List Nat) (k : Nat) (icol : Nat) (l1 l2 : List Bool) (h : l1.length = k) :
    (List.replicate k icol ++ a).zip (l1 ++ l2) = l1.map (fun b => (icol, b)) ++ a.zip l2 := by
  rw [List.zip_append (by simp [h])]
  congr 1
  subst h
  induction l1 with
  | nil => rfl
  | cons x xs ih => simp [List.replicate_succ, ih]

/-- the general form: the bound needs `off ≤ control.length` (for `counts = []` the loop never looks at
`control`), the expansion equation does not -/
theorem collectLoop_partition' (control : List Bool) :
    ∀ (counts : List Nat) (icol off : Nat) (ranges : List (Nat × Nat × Bool)),
    collectLoop control counts icol off = some ranges →
    (off ≤ control.length → off + counts.sum ≤ control.length) ∧
    expandPieces ranges = (shotCols counts icol).zip ((control.drop off).take counts.sum) := by
  intro counts
  induction counts with
  | nil =>
    intro icol off ranges h
    simp only [collectLoop] at h
    have h := Option.some.inj h
    subst h
    exact ⟨fun h => by simpa using h, rfl⟩
  | cons c cs ih =>
    intro icol off ranges h
    simp only [collectLoop] at h
    cases hs : scanRange control icol off c with
    | none => rw [hs] at h; cases h
    | some r =>
      rw [hs, Option.bind_some] at h
      cases hl : collectLoop control cs (icol + 1) (off + c) with
      | none => rw [hl] at h; cases h
      | some rest =>
        rw [hl, Option.map_some] at h
        have h := Option.some.inj h
        subst h
        obtain ⟨s1, s2⟩ := scanRange_partition control icol off c r hs
        obtain ⟨l1, l2⟩ := ih (icol + 1) (off + c) rest hl
        have l1 := l1 s1
        refine ⟨fun _ => by simp only [List.sum_cons]; omega, ?_⟩
        rw [expandPieces_append, s2, l2, shotCols, List.sum_cons, List.take_add, List.drop_drop]
        rw [zip_append_map]
        rw [List.length_take, List.length_drop]
        omega

theorem collectLoop_partition (control : List Bool) :
    ∀ (counts : List Nat) (icol off : Nat) (ranges : List (Nat × Nat × Bool)),
    off ≤ control.length →
    collectLoop control counts icol off = some ranges →
    off + counts.sum ≤ control.length ∧
    expandPieces ranges = (shotCols counts icol).zip ((control.drop off).take counts.sum) := by
  intro counts icol off ranges hoff h
  obtain ⟨h1, h2⟩ := collectLoop_partition' control counts icol off ranges h
  exact ⟨h1 hoff, h2⟩

/-- `ranges_partition`: the pieces cover the shots in order, each piece lies inside one old range and
carries the (constant) mask value of each of its shots -/
theorem ranges_partition (counts : List Nat) (control : List Bool) (ranges : List (Nat × Nat × Bool))
    (h : collectConditionalRanges counts control = some ranges) (hlen : counts.sum = control.length) :
    expandPieces ranges = (shotCols counts 0).zip control := by
  obtain ⟨_, h2⟩ := collectLoop_partition' control counts 0 0 ranges h
  rw [h2, hlen, List.drop_zero, List.take_length]

end Q1t.Sim

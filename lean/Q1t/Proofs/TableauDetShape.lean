import Q1t.Proofs.TableauContractLemmas
set_option linter.unusedSectionVars false
set_option linter.unusedVariables false
set_option linter.unusedSimpArgs false
/-!
C03, towards `DetShapeHolds` (all `n`): the semantic core of the counting-free argument.

`no_anticentral`: if `t` stabilizes a non-zero `ψ` *uniquely* (every stabilized vector is a multiple of `ψ`), column
`q` is free of X/Y, then no product `Y = F₁·…·F_m` of Pauli strings can commute with every row of `t` and
anticommute with `Z_q` — both `Z_q ψ` and `Y ψ` would be multiples of `ψ`, forcing `ψ = −ψ`.

What remains for `DetShapeHolds` (not formalized): (a) uniqueness is preserved by `apply_gate`, `collapse`, `reset`;
(b) every row of a `normalize` output owns a private pivot column; (c) the choice of `Y` from (b) when `q` is not a
private Z-column, resp. when the pivot row of `q` has another `Z`.
-/
namespace Q1t.Proofs.TabG
open Q1t Q1t.Tableau Q1t.Spec Q1t.Spec.Pauli Q1t.Proofs.Tableau

variable {α A : Type} [CommRing α] [Amp α A]

/-- apply the strings of a product from the right: `F₁ (F₂ (… v))` -/
def applyAll (A : Type) [Amp α A] (Fs : List (List P)) (v : List α) : List α := Fs.foldr (fun F acc => actOps A F acc) v

/-- how many factors anticommute with `r` -/
def antiCount (Fs : List (List P)) (r : List P) : Nat := (Fs.filter fun F => phaseSum F r % 2 == 1).length

theorem applyAll_length (Fs : List (List P)) (v : List α) : (applyAll A Fs v).length = v.length := by
  induction Fs with
  | nil => rfl
  | cons F Fs ih => simp only [applyAll, List.foldr_cons] at ih ⊢; rw [actOps_length]; exact ih

theorem applyAll_smul (Fs : List (List P)) (k : Nat) (v : List α) :
    applyAll A Fs (smul A k v) = smul A k (applyAll A Fs v) := by
  induction Fs with
  | nil => rfl
  | cons F Fs ih => simp only [applyAll, List.foldr_cons] at ih ⊢; rw [ih, actOps_smul]

/-- a string moves through a product, picking up `−1` for every anticommuting factor -/
theorem actOps_applyAll (h : LawfulAmp α A) (r : List P) (Fs : List (List P)) (hF : ∀ F ∈ Fs, F.length = r.length)
    (v : List α) (hv : v.length = 2 ^ r.length) :
    actOps A r (applyAll A Fs v) = smul A (2 * antiCount Fs r) (applyAll A Fs (actOps A r v)) := by
  induction Fs with
  | nil => simp [applyAll, antiCount, smul_0]
  | cons F Fs ih =>
    have hFl : F.length = r.length := hF F (List.mem_cons_self ..)
    have ih' := ih (fun G hG => hF G (List.mem_cons_of_mem _ hG))
    have hw : (applyAll A Fs v).length = 2 ^ r.length := by rw [applyAll_length]; exact hv
    have hsw := phaseSum_swap F r
    show actOps A r (actOps A F (applyAll A Fs v)) = _
    by_cases hpar : phaseSum F r % 2 = 1
    · have ha : Anticommutes r F := by rw [anticommutes_iff]; omega
      rw [anticomm_act h r F _ ha hFl.symm hw, ih', actOps_smul, smul_smul]
      have : antiCount (F :: Fs) r = antiCount Fs r + 1 := by
        simp [antiCount, List.filter_cons, hpar]
      rw [this]
      show smul A _ (actOps A F (applyAll A Fs (actOps A r v))) = smul A _ (actOps A F (applyAll A Fs (actOps A r v)))
      exact smul_congr_mod h (by omega) _
    · have hc : Commutes r F := by rw [commutes_iff]; omega
      rw [comm_act h r F _ hc hFl.symm hw, ih', actOps_smul]
      have : antiCount (F :: Fs) r = antiCount Fs r := by
        simp [antiCount, List.filter_cons, hpar]
      rw [this]; rfl

/-- every stabilized vector is a multiple of `ψ` -/
def Uniq (A : Type) [Amp α A] (t : Tab) (ψ : List α) : Prop := ∀ φ : List α, StabG A t φ → ∃ c : α, φ = ψ.map (· * c)

/-- an operator that commutes with every row, up to the sign bookkeeping of `actOps_applyAll`, maps stabilized
vectors to stabilized vectors -/
theorem stabG_applyAll (h : LawfulAmp α A) (t : Tab) (ψ : List α) (hst : StabG A t ψ) (Fs : List (List P))
    (hF : ∀ F ∈ Fs, F.length = t.n)
    (hcomm : ∀ (i : Nat) r, t.rows[i]? = some r → antiCount Fs r % 2 = 0) : StabG A t (applyAll A Fs ψ) := by
  obtain ⟨h1, h2, h3, h4⟩ := hst
  refine ⟨by rw [applyAll_length]; exact h1, h2, h3, fun i s r hs hr => ?_⟩
  obtain ⟨hrl, hfix⟩ := h4 i s r hs hr
  refine ⟨hrl, ?_⟩
  unfold act at hfix ⊢
  simp only [rowStr] at hfix ⊢
  rw [actOps_applyAll h r Fs (fun F hFm => by rw [hF F hFm, hrl]) ψ (by rw [hrl]; exact h1), smul_smul,
    ← applyAll_smul]
  have hev := hcomm i r hr
  have : smul A ((if s = true then 2 else 0) + 2 * antiCount Fs r) (actOps A r ψ) =
      smul A (if s = true then 2 else 0) (actOps A r ψ) := smul_congr_mod h (by omega) _
  rw [this, hfix]


theorem applyAll_map_mul (c : α) (Fs : List (List P)) (v : List α) :
    applyAll A Fs (v.map (· * c)) = (applyAll A Fs v).map (· * c) := by
  induction Fs with
  | nil => rfl
  | cons F Fs ih => simp only [applyAll, List.foldr_cons] at ih ⊢; rw [ih, actOps_map_mul]

theorem applyAll_reverse (h : LawfulAmp α A) (n : Nat) (Fs : List (List P)) (hF : ∀ F ∈ Fs, F.length = n) :
    ∀ v : List α, v.length = 2 ^ n → applyAll A Fs.reverse (applyAll A Fs v) = v := by
  induction Fs with
  | nil => intro v _; rfl
  | cons F Fs ih =>
    intro v hv
    have hFl := hF F (List.mem_cons_self ..)
    simp only [applyAll, List.reverse_cons, List.foldr_append, List.foldr_cons, List.foldr_nil]
    have hw : (applyAll A Fs v).length = 2 ^ F.length := by rw [applyAll_length, hFl]; exact hv
    show applyAll A Fs.reverse (actOps A F (actOps A F (applyAll A Fs v))) = v
    rw [actOps_involutive h F _ hw]
    exact ih (fun G hG => hF G (List.mem_cons_of_mem _ hG)) v hv

theorem phaseSum_replicate_I (m : Nat) : ∀ r : List P, phaseSum (List.replicate m .I) r = 0 := by
  induction m with
  | zero => intro r; cases r <;> rfl
  | succ m ih =>
    intro r
    cases r with
    | nil => rfl
    | cons b r => simp only [List.replicate_succ, phaseSum, ih, mulP_eq_table]; cases b <;> rfl

/-- `Z_q` anticommutes with a string exactly when the string has X/Y at `q` -/
theorem phaseSum_zRow (n : Nat) : ∀ (q : Nat) (r : List P), q < n → r.length = n →
    phaseSum (zRow n q) r % 2 = if xAt r q then 1 else 0 := by
  induction n with
  | zero => intro q r hq; omega
  | succ n ih =>
    intro q r hq hr
    cases r with
    | nil => simp at hr
    | cons b r =>
      cases q with
      | zero =>
        rw [zRow_zero, xAt_zero]
        simp only [phaseSum, phaseSum_replicate_I, mulP_eq_table]
        cases b <;> rfl
      | succ q =>
        rw [zRow_succ, xAt_succ]
        simp only [phaseSum, mulP_eq_table]
        have := ih q r (by omega) (by simpa using hr)
        cases b <;> simpa [mulPT] using this

/-- **No operator commutes with every row and anticommutes with `Z_q` on an X/Y-free column `q`** of a tableau
that stabilizes a non-zero vector uniquely (all `n`). -/
theorem no_anticentral (h : LawfulAmp α A) (t : Tab) (ψ : List α) (hst : StabG A t ψ) (hu : Uniq A t ψ)
    (hnz : ∃ x ∈ ψ, x ≠ 0) (q : Nat) (hq : q < t.n)
    (hxfree : ∀ (i : Nat) r, t.rows[i]? = some r → xAt r q = false)
    (Fs : List (List P)) (hF : ∀ F ∈ Fs, F.length = t.n)
    (hcomm : ∀ (i : Nat) r, t.rows[i]? = some r → antiCount Fs r % 2 = 0)
    (hanti : antiCount Fs (zRow t.n q) % 2 = 1) : False := by
  have hψ := hst.1
  have hzl : (zRow t.n q).length = t.n := by simp [zRow]
  have hrowlen : ∀ (i : Nat) r, t.rows[i]? = some r → r.length = t.n := fun i r hr =>
    (wf_of_stabG t ψ hst).2.2 r (List.mem_of_getElem? hr)
  -- Z_q ψ and Y ψ are stabilized
  have hz1 : StabG A t (applyAll A [zRow t.n q] ψ) := stabG_applyAll h t ψ hst [zRow t.n q]
    (fun F hFm => by rw [List.mem_singleton] at hFm; rw [hFm, hzl])
    (fun i r hr => by
      have := phaseSum_zRow t.n q r hq (hrowlen i r hr)
      rw [hxfree i r hr] at this
      simp [antiCount, List.filter_cons, this])
  have hy1 := stabG_applyAll h t ψ hst Fs hF hcomm
  obtain ⟨c, hc⟩ := hu _ hz1
  obtain ⟨c', hc'⟩ := hu _ hy1
  have hc0 : actOps A (zRow t.n q) ψ = ψ.map (· * c) := hc
  -- Z_q Y ψ = − Y Z_q ψ
  have key := actOps_applyAll h (zRow t.n q) Fs (fun F hFm => by rw [hF F hFm, hzl]) ψ (by rw [hzl]; exact hψ)
  rw [hc', actOps_map_mul, hc0, applyAll_map_mul, hc',
    smul_congr_mod h (j := 2 * antiCount Fs (zRow t.n q)) (k := 2) (by omega)] at key
  simp only [smul, List.map_map] at key
  have e1 : ∀ x ∈ ψ, x * c * c' = 0 := by
    intro x hx
    have := (List.map_inj_left.mp key) x hx
    simp only [Function.comp] at this
    rw [I_sq h] at this
    apply two_regular h
    have h2 : x * c * c' = -(x * c' * c) := by rw [this]; ring
    calc x * c * c' + x * c * c' = x * c * c' + -(x * c' * c) := by rw [← h2]
      _ = 0 := by ring
  -- Z_q is an involution: c² acts as 1 on ψ
  have e2 : ∀ x ∈ ψ, x * c * c = x := by
    intro x hx
    have hinv := actOps_involutive h (zRow t.n q) ψ (by rw [hzl]; exact hψ)
    rw [hc0, actOps_map_mul, hc0, List.map_map] at hinv
    have := (List.map_inj_left.mp (hinv.trans (List.map_id' ψ).symm)) x hx
    simpa [Function.comp] using this
  have e3 : ∀ x ∈ ψ, x * c' = 0 := by
    intro x hx
    have : x * c' = (x * c * c') * c := by
      calc x * c' = (x * c * c) * c' := by rw [e2 x hx]
        _ = (x * c * c') * c := by ring
    rw [this, e1 x hx, zero_mul]
  -- so Y ψ = 0, hence ψ = 0
  have hy0 : applyAll A Fs ψ = ψ.map (· * 0) := by
    rw [hc']; apply List.map_congr_left; intro x hx; rw [e3 x hx, mul_zero]
  have hback := applyAll_reverse h t.n Fs hF ψ hψ
  rw [hy0, applyAll_map_mul] at hback
  obtain ⟨x, hx, hxne⟩ := hnz
  have : x = 0 := by
    rw [← hback] at hx
    obtain ⟨y, _, rfl⟩ := List.mem_map.mp hx
    exact mul_zero y
  exact hxne this

end Q1t.Proofs.TabG

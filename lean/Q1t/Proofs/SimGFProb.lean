import Q1t.Proofs.SimGFBase
import Mathlib.Tactic.LinearCombination
import Mathlib.Algebra.Ring.Hom.Defs
/-!
C01, step 3: the probabilistic core.  `drawAll_expect` is the binomial theorem applied to every range of a
measurement; `measureInto_gf` turns it into the statement that measuring a qubit on a homogeneous,
normalised state multiplies out, range by range, to `(p·A + (1−p)·B)^count`.
-/
set_option linter.unusedSectionVars false
set_option linter.unusedSimpArgs false
set_option linter.unusedVariables false
namespace Q1t.Sim.SimGF
open Q1t Q1t.Sim Q1t.Spec Q1t.Sim.Prog Finset

variable {α P R : Type}

section draw
variable [SimAmp α] [CommRing R]
variable (ord : List (Nat × Nat) → List (Nat × Nat)) (toR : α → R)

/-- product of the binomial weights of the draws `ns`; an item is (weight, count, A, B) -/
def coeffs : List (α × Nat × R × R) → List Nat → R
  | it :: l, n :: ns => binW it.2.1 (toR (SimAmp.min1 it.1)) n * coeffs l ns
  | [], [] => 1
  | _, _ => 0

/-- `∏ A^{n0} B^{c-n0}` -/
def targ : List (α × Nat × R × R) → List Nat → R
  | it :: l, n :: ns => (it.2.2.1 ^ n * it.2.2.2 ^ (it.2.1 - n)) * targ l ns
  | [], [] => 1
  | _, _ => 0

/-- **binomial theorem, all ranges**: if the continuation's expectation is `C · ∏ A_k^{n0_k} B_k^{c_k−n0_k}`
on every draw vector of non-zero probability, then the expectation of the whole draw is
`C · ∏ (p_k A_k + (1−p_k) B_k)^{c_k}`.  (`m` is an arbitrary multiplier carried for the induction.) -/
theorem drawAll_expect {β : Type} (f : β → R) : ∀ (l : List (α × Nat × R × R)) (k : List Nat → Prog α β) (m C : R),
    (∀ ns, List.Forall₂ (fun (it : α × Nat × R × R) n0 => n0 ≤ it.2.1) l ns →
      m * coeffs toR l ns * expectOrd ord toR (k ns) f = m * coeffs toR l ns * (C * targ l ns)) →
    m * expectOrd ord toR (VecState.drawAll (l.map fun it => (it.1, it.2.1)) k) f =
      m * (C * (l.map fun it =>
        (toR (SimAmp.min1 it.1) * it.2.2.1 + (1 - toR (SimAmp.min1 it.1)) * it.2.2.2) ^ it.2.1).prod) := by
  intro l
  induction l with
  | nil =>
    intro k m C h
    have := h [] List.Forall₂.nil
    simp only [coeffs, targ, mul_one] at this
    simpa [VecState.drawAll] using this
  | cons it l ih =>
    intro k m C h
    simp only [List.map_cons, VecState.drawAll, expectOrd_binomial, Finset.mul_sum, List.prod_cons]
    have hterm : ∀ n0 ∈ range (it.2.1 + 1),
        m * (binW it.2.1 (toR (SimAmp.min1 it.1)) n0 *
          expectOrd ord toR (VecState.drawAll (l.map fun it => (it.1, it.2.1)) fun ns => k (n0 :: ns)) f) =
        (m * (C * (l.map fun it =>
          (toR (SimAmp.min1 it.1) * it.2.2.1 + (1 - toR (SimAmp.min1 it.1)) * it.2.2.2) ^ it.2.1).prod)) *
          (binW it.2.1 (toR (SimAmp.min1 it.1)) n0 * (it.2.2.1 ^ n0 * it.2.2.2 ^ (it.2.1 - n0))) := by
      intro n0 hn0
      have hle : n0 ≤ it.2.1 := by simp only [Finset.mem_range] at hn0; omega
      have := ih (fun ns => k (n0 :: ns)) (m * binW it.2.1 (toR (SimAmp.min1 it.1)) n0)
        (C * (it.2.2.1 ^ n0 * it.2.2.2 ^ (it.2.1 - n0))) (by
          intro ns hv
          have := h (n0 :: ns) (List.Forall₂.cons hle hv)
          simp only [coeffs, targ] at this
          linear_combination this)
      linear_combination this
    rw [Finset.sum_congr rfl hterm, ← Finset.mul_sum, binW_split]
    ring
end draw

/-- Laws of the simulator's weight arithmetic beyond `LawfulSim`, on *weights* (= squared norms of
coefficient vectors).  For `α = ℂ` with `nz w := w is a positive real` all four hold:
* the clamp `min(w, 1)` does nothing to a weight that is part of a partition of 1;
* a weight is either a valid non-zero weight or zero;
* a vector of squared norm zero is the zero vector;
* `WeightedIndex::new` accepts the squared amplitudes of a unit vector. -/
structure LawfulWeights (α : Type) [CommRing α] [SimAmp α] (nz : α → Prop) : Prop where
  min1_eq : ∀ u v : List α, normSqSum u + normSqSum v = 1 → SimAmp.min1 (normSqSum u) = normSqSum u
  nz_or_zero : ∀ v : List α, nz (normSqSum v) ∨ normSqSum v = 0
  pos : ∀ v : List α, normSqSum v = 0 → ∀ a ∈ v, a = 0
  weightsOk : ∀ v : List α, normSqSum v = 1 → SimAmp.weightsOk (v.map SimAmp.normSq) = true

section value
variable [CommRing R]

/-- `∏_ranges g(state, word)^count` -/
def value (g : List α × Nat → R) (rs : List (Rng α)) : R := (rs.map fun r => g (r.2.1, r.2.2) ^ r.1).prod

theorem value_append (g : List α × Nat → R) (a b : List (Rng α)) : value g (a ++ b) = value g a * value g b := by
  simp [value]

theorem value_cons (g : List α × Nat → R) (r : Rng α) (rs : List (Rng α)) :
    value g (r :: rs) = g (r.2.1, r.2.2) ^ r.1 * value g rs := by
  simp [value]

theorem value_congr (g g' : List α × Nat → R) (rs : List (Rng α))
    (h : ∀ r ∈ rs, g (r.2.1, r.2.2) = g' (r.2.1, r.2.2)) : value g rs = value g' rs := by
  unfold value
  congr 1
  apply List.map_congr_left
  intro r hr; rw [h r hr]

theorem value_mapCol (g : List α × Nat → R) (F : List α × Nat → List α) (rs : List (Rng α)) :
    value g (rs.map fun r => mapCol (fun _ => F (r.2.1, r.2.2)) r) = value (fun sw => g (F sw, sw.2)) rs := by
  simp [value, List.map_map, Function.comp_def, mapCol]
end value

section good
variable [Zero α] [One α] [Add α] [SimAmp α]
/-- shape + every range state is normalised -/
structure Good (n N : Nat) (rs : List (Rng α)) : Prop extends Shape n N rs where
  normed : ∀ r ∈ rs, normSqSum r.2.1 = 1
end good

section split
variable [CommRing α] [Amp α P] [SimAmp α] {nz : α → Prop} {n N : Nat}

theorem collapseCol_length (n q : Nat) (col : List α) (keep : Bool) (w : α) :
    (VecState.collapseCol n q col keep w).length = col.length := by
  simp [VecState.collapseCol]

theorem splitRng_count (n q : Nat) (wf : Nat → Bool → Nat) (r : Rng α) (n0 : Nat) (h : n0 ≤ r.1) :
    ((splitRng n q wf r n0).map (·.1)).sum = r.1 := by
  unfold splitRng
  by_cases h1 : n0 = r.1
  · simp [h1]
  · by_cases h2 : n0 = 0
    · have h3 : ¬ 0 = r.1 := by omega
      simp [h2, h3]
    · simp [h1, h2]; omega

theorem splitRng_mem (n q : Nat) (wf : Nat → Bool → Nat) (r : Rng α) (n0 : Nat) (h : n0 ≤ r.1) (hpos : 0 < r.1)
    (r' : Rng α) (hr' : r' ∈ splitRng n q wf r n0) :
    0 < r'.1 ∧ ((0 < n0 ∧ r'.2.1 = VecState.collapseCol n q r.2.1 false (w0Of n q r.2.1)) ∨
      (n0 < r.1 ∧ r'.2.1 = VecState.collapseCol n q r.2.1 true (1 - w0Of n q r.2.1))) := by
  unfold splitRng at hr'
  by_cases h1 : n0 = r.1
  · simp only [h1, if_true, List.mem_singleton] at hr'
    subst hr'
    exact ⟨hpos, Or.inl ⟨by omega, rfl⟩⟩
  · by_cases h2 : n0 = 0
    · have h3 : ¬ 0 = r.1 := by omega
      simp only [h2, h3, if_false, if_true, List.mem_singleton] at hr'
      subst hr'
      exact ⟨hpos, Or.inr ⟨by omega, rfl⟩⟩
    · simp only [h1, h2, if_false, List.mem_cons, List.not_mem_nil, or_false] at hr'
      rcases hr' with rfl | rfl
      · exact ⟨by simp; omega, Or.inl ⟨by omega, rfl⟩⟩
      · exact ⟨by simp; omega, Or.inr ⟨by omega, rfl⟩⟩

theorem shape_splitAll (q : Nat) (wf : Nat → Bool → Nat) : ∀ {rs : List (Rng α)} {ns : List Nat} {N : Nat},
    Shape n N rs → List.Forall₂ (fun (r : Rng α) n0 => n0 ≤ r.1) rs ns → Shape n N (splitAll n q wf rs ns) := by
  intro rs ns N h hv
  induction hv generalizing N with
  | nil => simpa [splitAll] using h
  | @cons r n0 rs ns hle _ ih =>
    have hrs : Shape n ((rs.map (·.1)).sum) rs :=
      ⟨fun x hx => h.pos x (by simp [hx]), fun x hx => h.len x (by simp [hx]), rfl⟩
    have := ih hrs
    refine ⟨?_, ?_, ?_⟩
    · intro x hx
      simp only [splitAll, List.mem_append] at hx
      rcases hx with hx | hx
      · exact (splitRng_mem n q wf r n0 hle (h.pos r (by simp)) x hx).1
      · exact this.pos x hx
    · intro x hx
      simp only [splitAll, List.mem_append] at hx
      rcases hx with hx | hx
      · rcases (splitRng_mem n q wf r n0 hle (h.pos r (by simp)) x hx).2 with ⟨_, e⟩ | ⟨_, e⟩
        · rw [e, collapseCol_length]; exact h.len r (by simp)
        · rw [e, collapseCol_length]; exact h.len r (by simp)
      · exact this.len x hx
    · simp only [splitAll, List.map_append, List.sum_append, splitRng_count n q wf r n0 hle, this.sum]
      rw [← h.sum]; simp

end split

section meas
variable [CommRing α] [Amp α P] [SimAmp α] [CommRing R] {nz : α → Prop} {n N : Nat}
variable (ord : List (Nat × Nat) → List (Nat × Nat)) (toR : α →+* R)

/-- the weights of a normalised range -/
theorem weights_of_normed (hS : LawfulSim α P nz) (hW : LawfulWeights α nz) (q : Nat) {ψ : List α}
    (hψ : normSqSum ψ = 1) :
    w0Of n q ψ = normSqSum (project n q false ψ) ∧ 1 - w0Of n q ψ = normSqSum (project n q true ψ) ∧
    SimAmp.min1 (w0Of n q ψ) = w0Of n q ψ := by
  have h0 := prob0_eq_born hS n q ψ
  have hs := normSqSum_split hS n q ψ
  rw [hψ] at hs
  refine ⟨h0, ?_, ?_⟩
  · rw [h0, ← hs]; ring
  · rw [h0]; exact hW.min1_eq _ _ hs

theorem collapse_normed (hA : LawfulAmp α P) (hS : LawfulSim α P nz) (q : Nat) (ψ : List α) (o : Bool) (w : α)
    (hw : w = normSqSum (project n q o ψ)) (hnz : nz w) :
    normSqSum (VecState.collapseCol n q ψ o w) = 1 := by
  rw [collapseCol_eq, normSqSum_smul hA hS, hS.rsqrt_real w hnz, ← hw]
  have := hS.rsqrt_mul w hnz
  linear_combination this

/-- per range: a draw either has probability zero or leaves normalised sub-ranges -/
theorem split_zero_or_normed (hA : LawfulAmp α P) (hS : LawfulSim α P nz) (hW : LawfulWeights α nz)
    (q : Nat) (wf : Nat → Bool → Nat) (r : Rng α) (n0 : Nat) (hle : n0 ≤ r.1) (hpos : 0 < r.1)
    (hψ : normSqSum r.2.1 = 1) :
    binW r.1 (toR (SimAmp.min1 (w0Of n q r.2.1))) n0 = 0 ∨
      ∀ r' ∈ splitRng n q wf r n0, normSqSum r'.2.1 = 1 := by
  obtain ⟨e0, e1, em⟩ := weights_of_normed (n := n) hS hW q hψ
  rw [em]
  have hp1 : (1 : R) - toR (w0Of n q r.2.1) = toR (1 - w0Of n q r.2.1) := by simp
  -- outcome 0 present and impossible, or outcome 1 present and impossible → weight zero
  by_cases hz0 : 0 < n0 ∧ w0Of n q r.2.1 = 0
  · left
    obtain ⟨hn, hz⟩ := hz0
    simp only [binW, hz, map_zero]
    rw [zero_pow (by omega)]; ring
  by_cases hz1 : n0 < r.1 ∧ 1 - w0Of n q r.2.1 = 0
  · left
    obtain ⟨hn, hz⟩ := hz1
    simp only [binW, hp1, hz, map_zero]
    rw [zero_pow (by omega)]; ring
  right
  intro r' hr'
  rcases (splitRng_mem n q wf r n0 hle hpos r' hr').2 with ⟨hn, e⟩ | ⟨hn, e⟩
  · rw [e]
    apply collapse_normed hA hS q _ false _ e0
    rcases hW.nz_or_zero (project n q false r.2.1) with h | h
    · rw [e0]; exact h
    · exact absurd ⟨hn, by rw [e0]; exact h⟩ hz0
  · rw [e]
    apply collapse_normed hA hS q _ true _ e1
    rcases hW.nz_or_zero (project n q true r.2.1) with h | h
    · rw [e1]; exact h
    · exact absurd ⟨hn, by rw [e1]; exact h⟩ hz1

/-- the items `(weight, count, A, B)` of a measurement -/
def measItems (n q : Nat) (wf : Nat → Bool → Nat) (g : List α × Nat → R) (rs : List (Rng α)) :
    List (α × Nat × R × R) :=
  rs.map fun r => (w0Of n q r.2.1, r.1,
    g (VecState.collapseCol n q r.2.1 false (w0Of n q r.2.1), wf r.2.2 false),
    g (VecState.collapseCol n q r.2.1 true (1 - w0Of n q r.2.1), wf r.2.2 true))

theorem value_splitRng (q : Nat) (wf : Nat → Bool → Nat) (g : List α × Nat → R) (r : Rng α) (n0 : Nat)
    (hle : n0 ≤ r.1) :
    value g (splitRng n q wf r n0) =
      g (VecState.collapseCol n q r.2.1 false (w0Of n q r.2.1), wf r.2.2 false) ^ n0 *
      g (VecState.collapseCol n q r.2.1 true (1 - w0Of n q r.2.1), wf r.2.2 true) ^ (r.1 - n0) := by
  unfold splitRng
  by_cases h1 : n0 = r.1
  · simp [h1, value]
  · by_cases h2 : n0 = 0
    · have h3 : ¬ 0 = r.1 := by omega
      simp [h2, h3, value]
    · simp [h1, h2, value]

theorem value_splitAll (q : Nat) (wf : Nat → Bool → Nat) (g : List α × Nat → R) :
    ∀ {rs : List (Rng α)} {ns : List Nat}, List.Forall₂ (fun (r : Rng α) n0 => n0 ≤ r.1) rs ns →
    value g (splitAll n q wf rs ns) = targ (measItems n q wf g rs) ns := by
  intro rs ns hv
  induction hv with
  | nil => simp [splitAll, measItems, targ, value]
  | @cons r n0 rs ns hle _ ih =>
    simp only [splitAll, value_append, value_splitRng q wf g r n0 hle, ih]
    simp [measItems, targ]

theorem coeffs_zero_or_normed (hA : LawfulAmp α P) (hS : LawfulSim α P nz) (hW : LawfulWeights α nz)
    (q : Nat) (wf : Nat → Bool → Nat) (g : List α × Nat → R) :
    ∀ {rs : List (Rng α)} {ns : List Nat}, List.Forall₂ (fun (r : Rng α) n0 => n0 ≤ r.1) rs ns →
    (∀ r ∈ rs, 0 < r.1 ∧ normSqSum r.2.1 = 1) →
    coeffs (⇑toR) (measItems n q wf g rs) ns = 0 ∨ ∀ r' ∈ splitAll n q wf rs ns, normSqSum r'.2.1 = 1 := by
  intro rs ns hv
  induction hv with
  | nil => intro _; right; simp [splitAll]
  | @cons r n0 rs ns hle _ ih =>
    intro hgood
    have hr := hgood r (by simp)
    rcases split_zero_or_normed (n := n) toR hA hS hW q wf r n0 hle hr.1 hr.2 with h | h
    · left; simp [measItems, coeffs, h]
    · rcases ih (fun x hx => hgood x (by simp [hx])) with h2 | h2
      · left
        simp only [measItems] at h2
        simp [measItems, coeffs, h2]
      · right
        intro r' hr'
        simp only [splitAll, List.mem_append] at hr'
        rcases hr' with hr' | hr'
        · exact h r' hr'
        · exact h2 r' hr'

theorem forall₂_map_left {β γ δ : Type} (f : β → γ) (Rel : γ → δ → Prop) {l : List β} {l' : List δ} :
    List.Forall₂ Rel (l.map f) l' ↔ List.Forall₂ (fun b d => Rel (f b) d) l l' := by
  exact List.forall₂_map_left_iff

/-- **measurement step**: expectation of any continuation `K` that is multiplicative over the good range
lists a measurement can produce (register `mkRegF f rs`, description words updated by `wf`) -/
theorem measureIntoF_gf (hA : LawfulAmp α P) (hS : LawfulSim α P nz) (hW : LawfulWeights α nz)
    {rs : List (Rng α)} (hg : Good n N rs) {q cbit : Nat} (hq : q < n) (hc : cbit < 64)
    (f : Nat → Nat) (wf : Nat → Bool → Nat)
    (hwf : ∀ r ∈ rs, ∀ o, f (wf r.2.2 o) = setBitTo (f r.2.2) cbit o)
    (K : VecState α × List Nat → R) (g : List α × Nat → R)
    (hK : ∀ ns, List.Forall₂ (fun (r : Rng α) n0 => n0 ≤ r.1) rs ns → Good n N (splitAll n q wf rs ns) →
      K (mkState n N (splitAll n q wf rs ns), mkRegF f (splitAll n q wf rs ns)) = value g (splitAll n q wf rs ns)) :
    expectOrd ord toR (VecState.measureInto (mkState n N rs) q cbit (mkRegF f rs)) K =
      value (fun sw => toR (w0Of n q sw.1) *
          g (VecState.collapseCol n q sw.1 false (w0Of n q sw.1), wf sw.2 false) +
        (1 - toR (w0Of n q sw.1)) *
          g (VecState.collapseCol n q sw.1 true (1 - w0Of n q sw.1), wf sw.2 true)) rs := by
  obtain ⟨body, heq, hbody⟩ := measureIntoF_eq hg.toShape hq hc f wf hwf
  rw [heq]
  have hl : (rs.map fun r => (w0Of n q r.2.1, r.1)) =
      (measItems n q wf g rs).map fun it => (it.1, it.2.1) := by
    simp [measItems, List.map_map, Function.comp_def]
  rw [hl]
  have key := drawAll_expect ord (⇑toR) K (measItems n q wf g rs) body 1 1 (by
    intro ns hv
    have hv' : List.Forall₂ (fun (r : Rng α) n0 => n0 ≤ r.1) rs ns := by
      simp only [measItems] at hv
      exact (List.forall₂_map_left_iff).mp hv
    rw [hbody ns hv', expectOrd_pure]
    rcases coeffs_zero_or_normed toR hA hS hW q wf g hv'
      (fun r hr => ⟨hg.pos r hr, hg.normed r hr⟩) with h | h
    · rw [h]; ring
    · rw [hK ns hv' ⟨shape_splitAll q _ hg.toShape hv', h⟩, value_splitAll q _ g hv']
      ring)
  simp only [one_mul] at key
  rw [key]
  simp only [value, measItems, List.map_map, Function.comp_def]
  congr 1
  apply List.map_congr_left
  intro r hr
  obtain ⟨_, _, em⟩ := weights_of_normed (n := n) hS hW q (hg.normed r hr)
  rw [em]

theorem measureInto_gf (hA : LawfulAmp α P) (hS : LawfulSim α P nz) (hW : LawfulWeights α nz)
    {rs : List (Rng α)} (hg : Good n N rs) {q cbit : Nat} (hq : q < n) (hc : cbit < 64)
    (K : VecState α × List Nat → R) (g : List α × Nat → R)
    (hK : ∀ rs', Good n N rs' → K (mkState n N rs', mkReg rs') = value g rs') :
    expectOrd ord toR (VecState.measureInto (mkState n N rs) q cbit (mkReg rs)) K =
      value (fun sw => toR (w0Of n q sw.1) *
          g (VecState.collapseCol n q sw.1 false (w0Of n q sw.1), setBitTo sw.2 cbit false) +
        (1 - toR (w0Of n q sw.1)) *
          g (VecState.collapseCol n q sw.1 true (1 - w0Of n q sw.1), setBitTo sw.2 cbit true)) rs :=
  measureIntoF_gf ord toR hA hS hW hg hq hc id (fun w o => setBitTo w cbit o) (fun _ _ _ => rfl) K g
    (fun ns _ hgood => hK _ hgood)
end meas
end Q1t.Sim.SimGF
